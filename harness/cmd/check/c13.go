package main

// C13 — alternative input formats of the same content give identical results.
// Correspondence: the real paired readers vs the Lean model (ops cropparam.*, formats.*).
// Search: state dumps of the two readers of each pair, and paired whole runs whose captured
// result files must be byte-identical.

import (
	"bufio"
	"fmt"
	"math"
	"os"
	"path/filepath"
	"strings"
	"time"

	"github.com/zalf-rpm/Hermes2Go/hermes"
	"verifharness/proj"
	"verifharness/vh"
)

func init() { register("C13", checkC13) }

func checkC13(c *vh.Ctx) {
	c.Res.Rule = "crop files: every shipped classic file vs its shipped YAML and vs the YAML written by the built converter, plus generated variants of every shipped file, complete state dumps after reading from three prior states (fresh, after another crop, permanent-crop repeat); soils/measurement sets/weather series: generated content written in both (three) encodings through the real readers, complete dumps compared; paired whole runs of generated projects per encoding dimension (soil, rotation, measurement file, weather layout, date format, crop parameter format) with byte comparison of the captured result files; date formats at the century split (DivideCentury on, one above and one below the two-digit years of the start / schedule / end dates, with and without a virtual prediction date; LangTagConverter on every split); session sequences: lines of one session selecting different encodings of the same project, sequential and concurrent, each against its solo run; non-trivial = distinct (file, prior) / generated content / project x dimension"
	c13CropFiles(c)
	c13Soil(c)
	c13Measure(c)
	c13Weather(c)
	c13WholeRuns(c)
	c13DateSplit(c)
	c13LangTag(c)
	c13Session(c)
}

// ---------------------------------------------------------------- crop files

type cropPrior struct {
	name   string
	state  *hermes.VerifCropState
	repeat bool
	pos    int // 0 first entry, 1 second entry equal to the pre-crop entry, 2 third entry after another crop
}

func c13Priors() []cropPrior {
	return []cropPrior{{"fresh", nil, false, 0}, {"after-other-crop", junkCropState(), false, 0}, {"permanent-repeat", junkCropState(), true, 0},
		{"second-entry-equals-pre-crop", junkCropState(), false, 1}, {"third-entry-after-other-crop", junkCropState(), false, 2}}
}

// compareCropDumps reports differences of two complete state dumps (every field, bit-wise).
func compareCropDumps(c *vh.Ctx, sigPrefix, what string, a, b *hermes.VerifCropState, replay interface{}) bool {
	d := diffStates(*a, *b)
	if len(d) == 0 {
		return true
	}
	c.Violate("search", sigPrefix+":field="+fieldClasses(d),
		fmt.Sprintf("%s: the two readers leave different crop state; differing fields: %s", what, strings.Join(d, " ")), replay)
	return false
}

func c13CropFiles(c *vh.Ctx) {
	env := newCropEnv()
	conv, err := c.BuildTool("cropfileconverter")
	if err != nil {
		c.Violate("correspondence", "build:cropfileconverter", err.Error(), nil)
		return
	}
	convDir := filepath.Join(c.Scratch, "conv")
	os.MkdirAll(convDir, 0o755)
	priors := c13Priors()
	fresh := func() *hermes.VerifCropState {
		g, l := env.newG(nil, false)
		s := hermes.VerifCropDump(g, l)
		return &s
	}()

	var ccases, cimpl, ycases, yimpl, vcases, vimpl []string
	var cdesc, ydesc, vdesc []interface{}

	doFile := func(classic, ymlShipped, label string, variant bool) {
		base := filepath.Base(classic)
		lines, err := readLines(classic)
		if err != nil {
			c.Violate("search", "cropfile:"+label+":unreadable", err.Error(), nil)
			return
		}
		tok, terr := tokeniseClassic(lines)
		// converter (built tool)
		ymlConv := filepath.Join(convDir, base+".yml")
		os.Remove(ymlConv)
		_, se, err := vh.RunTool(30*time.Second, c.Scratch, conv, "-input", classic, "-output", ymlConv)
		convOK := err == nil
		if !convOK {
			if variant {
				c.Count("cropfile:variant:converter-rejects")
			} else {
				c.Violate("search", "cropfile:"+label+":converter-fails", fmt.Sprintf("cropfileconverter fails on shipped file %s: %v %s", base, err, strings.TrimSpace(se)), map[string]string{"file": classic})
			}
		}
		for _, pr := range priors {
			c.Eval()
			c.Nontrivial(base + "/" + pr.name)
			dc := env.readClassic(classic, pr.state, pr.repeat, pr.pos)
			replay := map[string]interface{}{"classic": classic, "prior": pr.name, "how": "ReadCropParamClassic vs ReadCropParamYml from the same prior state (hermes.VerifCropDump)"}
			if variant {
				replay["classic_text"] = strings.Join(lines, "\n")
			}
			priorState := pr.state
			if priorState == nil {
				priorState = fresh
			}
			if terr == nil {
				ccases = append(ccases, fmt.Sprintf("cropparam.classic %d %s %s", b2iFmt(pr.repeat), stateLine(priorState), classicLine(&tok)))
				cimpl = append(cimpl, stateLine(&dc))
				cdesc = append(cdesc, replay)
			} else {
				c.Count("cropfile:tokeniser-failed")
			}
			if ymlShipped != "" {
				ds := env.readYml(ymlShipped, pr.state, pr.repeat, pr.pos)
				compareCropDumps(c, "cropfile:"+label+":shipped-yml", fmt.Sprintf("%s vs shipped %s.yml (prior state %s)", base, base, pr.name), &dc, &ds, replay)
				if y, err := hermes.ReadCropParamFromFile(ymlShipped); err == nil {
					ycases = append(ycases, fmt.Sprintf("cropparam.yml %d %s %s", b2iFmt(pr.repeat), stateLine(priorState), ymlLine(&y)))
					yimpl = append(yimpl, stateLine(&ds))
					ydesc = append(ydesc, map[string]interface{}{"yml": ymlShipped, "prior": pr.name})
				}
			}
			if convOK {
				dv := env.readYml(ymlConv, pr.state, pr.repeat, pr.pos)
				sig := "cropfile:" + label + ":converted-yml"
				compareCropDumps(c, sig, fmt.Sprintf("%s vs the YAML the converter writes for it (prior state %s)", base, pr.name), &dc, &dv, replay)
				if y, err := hermes.ReadCropParamFromFile(ymlConv); err == nil {
					ycases = append(ycases, fmt.Sprintf("cropparam.yml %d %s %s", b2iFmt(pr.repeat), stateLine(priorState), ymlLine(&y)))
					yimpl = append(yimpl, stateLine(&dv))
					ydesc = append(ydesc, map[string]interface{}{"yml_converted_from": classic, "prior": pr.name})
					if terr == nil && pr.name == "fresh" {
						vcases = append(vcases, "cropparam.convert "+classicLine(&tok))
						vimpl = append(vimpl, ymlLine(&y))
						vdesc = append(vdesc, map[string]interface{}{"classic": classic})
					}
				}
			}
		}
	}

	files := shippedCropFiles(c.Repo)
	c.Res.Extra["shipped_crop_files"] = len(files)
	for _, f := range files {
		yml := f + ".yml"
		if _, err := os.Stat(yml); err != nil {
			yml = ""
		}
		doFile(f, yml, filepath.Base(f), false)
	}
	c.Sample(map[string]interface{}{"crop_files": len(files), "priors": []string{"fresh", "after-other-crop", "permanent-repeat", "second-entry-equals-pre-crop", "third-entry-after-other-crop"}})

	// deterministic witness: the shipped sugar-beet file with the optional token "org=S4" blanked,
	// read after the shipped sugar-beet file (SubOrgan = 4 in the prior state)
	if zr := filepath.Join(c.Repo, "examples", "parameter", "PARAM.ZR"); true {
		if lines, err := readLines(zr); err == nil && strings.Contains(lines[8], "org=S4") {
			lines[8] = strings.Replace(lines[8], "org=S4", "      ", 1)
			wdir := filepath.Join(c.Scratch, "witness")
			os.MkdirAll(wdir, 0o755)
			wp := filepath.Join(wdir, "PARAM_noorg.ZR")
			os.WriteFile(wp, []byte(strings.Join(lines, "\n")+"\n"), 0o644)
			after := env.readClassic(zr, nil, false)
			saved := priors
			priors = []cropPrior{{"after-shipped-PARAM.ZR", &after, false, 0}}
			doFile(wp, "", "variant:ngefkt5-without-org-token", true)
			priors = saved
		}
	}

	// generated variants of every shipped file
	varDir := filepath.Join(c.Scratch, "variants")
	os.MkdirAll(varDir, 0o755)
	nVar := c.N(3, 40)
	made := 0
	for _, f := range files {
		lines, err := readLines(f)
		if err != nil {
			continue
		}
		for k := 0; k < nVar; k++ {
			v, desc, extra := cropVariant(c.Rng, lines)
			if v == nil {
				continue
			}
			ext := strings.TrimPrefix(filepath.Ext(f), ".")
			p := filepath.Join(varDir, fmt.Sprintf("PARAM_v%d.%s", made, ext))
			os.WriteFile(p, []byte(strings.Join(v, "\n")+"\n"), 0o644)
			made++
			c.Count("cropfile:variant:" + desc)
			for _, e := range extra {
				c.Count("cropfile:variant-with:" + e)
			}
			doFile(p, "", "variant:"+desc, true)
		}
	}
	c.Res.Extra["crop_file_variants"] = made

	c.Correspond("cropparam.classic", ccases, cimpl, 1e-9, 1e-12, func(i int) interface{} { return cdesc[i] })
	c.Correspond("cropparam.yml", ycases, yimpl, 1e-9, 1e-12, func(i int) interface{} { return ydesc[i] })
	c.Correspond("cropparam.convert", vcases, vimpl, 1e-9, 1e-12, func(i int) interface{} { return vdesc[i] })
}

func padTo(s string, n int, ch byte) string {
	for len(s) < n {
		s += string(ch)
	}
	return s
}

func numText(r *vh.Rng, lo, hi float64, dec int) string {
	v := vh.RoundTo(r.Uni(lo, hi), dec)
	switch r.Intn(6) {
	case 0:
		return fmt.Sprintf("%g ", v)
	case 1:
		s := fmt.Sprintf("%g", v)
		if strings.HasPrefix(s, "0.") {
			return s[1:]
		}
		return s
	case 2:
		return fmt.Sprintf("%.*f", dec+1, v)
	}
	return fmt.Sprintf("%g", v)
}

// cropVariant rewrites the numeric content of a classic crop file (same layout, other numbers,
// organ / stage counts within the shape limits, BBCH codes in the headlines, N-content function 5
// with or without its optional tokens).
func cropVariant(r *vh.Rng, src []string) (l []string, desc string, extra []string) {
	t, err := tokeniseClassic(src)
	if err != nil || len(src) < 19+13*t.NRENTW {
		return nil, "", nil
	}
	l = append([]string{}, src...)
	hasBBCH, isD := false, false
	set := func(i int, text string) { l[i] = setTail(l[i][:minI(len(l[i]), 62)], 65, " "+text) }
	set(3, numText(r, 10, 90, 1))
	set(4, fmt.Sprint(r.Range(1, 2)))
	set(5, numText(r, -2, 10, 1))
	set(6, numText(r, 2, 20, 0))
	set(7, numText(r, 0.05, 1, 4))
	ng := r.Range(1, 9)
	if r.Chance(0.4) {
		ng = 5
	}
	nrkom := t.NRKOM
	if r.Chance(0.3) && nrkom > 2 {
		nrkom = r.Range(2, nrkom)
	}
	if ng == 5 {
		pre := "crop N-content no. "
		opt := ""
		// a= and b= are the two coefficients of function 5 (always given); org= is optional
		pre += fmt.Sprintf(" a=%s", strings.TrimSpace(numText(r, 0.02, 0.06, 4)))
		pre += fmt.Sprintf(" b=%s", strings.TrimSpace(numText(r, -0.6, 0.6, 3)))
		if r.Chance(0.6) {
			pre += fmt.Sprintf(" org=S%d", r.Range(0, nrkom))
		} else {
			opt += "-without-org-token"
		}
		l[8] = padTo(pre, 65, ' ') + " 5"
		desc = "ngefkt5" + opt
	} else {
		set(8, fmt.Sprint(ng))
		desc = "ngefkt-other"
	}
	// above-ground organs: non-empty ascending subset of 2..nrkom (1 = root)
	ab := ""
	for k := 2; k <= nrkom; k++ {
		if r.Chance(0.7) {
			ab += fmt.Sprint(k)
		}
	}
	if ab == "" {
		ab = "2"
	}
	set(9, ab)
	l[10] = setTail(l[10][:minI(len(l[10]), 62)], 65, fmt.Sprintf("%d.%02d", r.Range(0, nrkom), r.Range(50, 99)))
	set(11, numText(r, 1, 8, 1))
	set(12, numText(r, 0.5, 3, 1))
	set(13, fmt.Sprint(nrkom))
	// flags on the initial-weight line (rune positions 32 and 40)
	ru := []rune(l[15])
	if len(ru) > 40 {
		ru[32], ru[40] = ' ', ' '
		if r.Chance(0.3) {
			ru[32] = 'D'
			isD = true
		}
		if r.Chance(0.3) {
			ru[40] = 'L'
		}
		l[15] = string(ru)
	}
	for k := 0; k < 5; k++ {
		// the initial-weight line is indexed by runes in the readers; it is ASCII in every shipped file
		l[15] = setSlot(l[15], k, fmt.Sprintf("%05d", r.Intn(4000)))
		l[16] = setSlot(l[16], k, fmt.Sprintf("0.%03d", r.Intn(60)))
	}
	set(17, numText(r, 0.2, 1, 2))
	nst := t.NRENTW
	if r.Chance(0.3) && nst > 2 {
		nst = r.Range(2, nst)
	}
	set(18, fmt.Sprint(nst))
	for i := 0; i < nst; i++ {
		b := 19 + 13*i
		head := padTo(fmt.Sprintf("-------- development phase %d: generated ", i+1), 65, '-')
		switch r.Intn(4) {
		case 0:
			head += fmt.Sprintf(" %02d", r.Intn(100))
			hasBBCH = true
		case 1:
			head += "-----"
		case 2:
			head = head[:60]
		}
		l[b] = head
		set(b+1, numText(r, 30, 900, 0))
		set(b+2, numText(r, 0, 9, 1))
		set(b+3, numText(r, 0, 50, 0))
		set(b+4, numText(r, 0, 20, 0))
		set(b+5, numText(r, 0, 8, 1))
		set(b+6, numText(r, 0.3, 1, 2))
		set(b+7, numText(r, 0.02, 0.1, 3))
		set(b+8, numText(r, 0.0005, 0.003, 4))
		set(b+9, numText(r, 0.005, 0.03, 3))
		// partition: integers in thousandths summing to 1000 over the first nrkom organs
		parts := make([]int, 5)
		if i == nst-1 && r.Chance(0.3) {
			// senescence: all zero
		} else {
			rest := 1000
			for k := 0; k < nrkom-1; k++ {
				parts[k] = r.Intn(rest + 1)
				rest -= parts[k]
			}
			parts[nrkom-1] = rest
		}
		for k := 0; k < 5; k++ {
			l[b+10] = setSlot(l[b+10], k, fmt.Sprintf("%5.3f", float64(parts[k])/1000))
			l[b+11] = setSlot(l[b+11], k, fmt.Sprintf("0.%03d", r.Intn(40)))
		}
		set(b+12, numText(r, 0.3, 1.3, 2))
	}
	if hasBBCH {
		extra = append(extra, "bbch-codes")
	}
	if isD {
		extra = append(extra, "permanent-crop-flag")
	}
	return l, desc, extra
}

func minI(a, b int) int {
	if a < b {
		return a
	}
	return b
}

// ---------------------------------------------------------------- soil

func c13Soil(c *vh.Ctx) {
	session := hermes.NewHermesSession()
	dir := filepath.Join(c.Scratch, "soil")
	os.MkdirAll(dir, 0o755)
	n := c.N(60, 1500)
	var cases, impl []string
	var descs []interface{}
	for k := 0; k < n; k++ {
		// three profiles in one file, the queried one at a random position
		var ps []*proj.Project
		for j := 0; j < 3; j++ {
			p := proj.Gen(c.Rng.Fork(), fmt.Sprintf("s%d", j), proj.Opt{ExplicitCap: c.Rng.Chance(0.4), ShallowGW: c.Rng.Chance(0.3), Drain: c.Rng.Chance(0.3)})
			p.SoilID = fmt.Sprintf("S%02d", j)
			if c.Rng.Chance(0.2) {
				p.Soil[0].Corg = 0 // C/N default branch is on C/N = 0, exercised below through the model only
			}
			ps = append(ps, p)
		}
		var txt, csv strings.Builder
		ok := true
		for j, p := range ps {
			if !p.SoilTxtOK() {
				ok = false
			}
			t := p.SoilTxt()
			if j > 0 {
				t = t[strings.Index(t, "\n")+1:]
			}
			txt.WriteString(t)
			root := filepath.Join(dir, fmt.Sprintf("w%d_%d", k, j))
			if err := p.Write(root, c.Repo); err != nil {
				panic(err)
			}
			b, _ := os.ReadFile(filepath.Join(root, "project", p.Name, "soil_"+p.Name+".csv"))
			s := string(b)
			if j > 0 {
				s = s[strings.Index(s, "\n")+1:]
			}
			csv.WriteString(s)
			os.RemoveAll(root)
			p.Forget()
		}
		if !ok {
			c.Count("soil:not-representable-in-fixed-width")
			continue
		}
		ft := filepath.Join(dir, fmt.Sprintf("soil_%d.txt", k))
		fc := filepath.Join(dir, fmt.Sprintf("soil_%d.csv", k))
		os.WriteFile(ft, []byte(txt.String()), 0o644)
		os.WriteFile(fc, []byte(csv.String()), 0o644)
		q := c.Rng.Intn(3)
		withGW := c.Rng.Chance(0.5)
		st, et := hermes.LoadSoil(withGW, "L", hermes.VerifFilePath(ft, "", "", ""), ps[q].SoilID, session)
		sc, ec := hermes.LoadSoilCSV(withGW, "L", hermes.VerifFilePath(fc, "", "", ""), ps[q].SoilID, session)
		c.Eval()
		c.Nontrivial(fmt.Sprintf("soil%d", k))
		c.Count(fmt.Sprintf("soil:horizons=%d", len(ps[q].Soil)))
		replay := map[string]interface{}{"txt": txt.String(), "csv": csv.String(), "soil_id": ps[q].SoilID, "with_groundwater": withGW}
		if (et == nil) != (ec == nil) {
			c.Violate("search", "soil:one-reader-fails", fmt.Sprintf("LoadSoil error %v, LoadSoilCSV error %v on the same profile", et, ec), replay)
			continue
		}
		if et != nil {
			c.Count("soil:both-readers-reject")
			continue
		}
		d := diffStates(st, sc)
		if st.VerifUseGroundwater() != sc.VerifUseGroundwater() {
			d = append(d, "useGroundwaterFromSoilfile")
		}
		if len(d) > 0 {
			c.Violate("search", "soil:txt-vs-csv:field="+fieldClasses(d), "LoadSoil and LoadSoilCSV return different profiles for the same content: "+strings.Join(d, " "), replay)
		}
		if k < 1 {
			c.Sample(map[string]interface{}{"kind": "soil", "txt_first_line": strings.SplitN(txt.String(), "\n", 3)[1]})
		}
		// model: value mapping of the horizon tokens
		p := ps[q]
		line := fmt.Sprintf("formats.soil %d", len(p.Soil))
		out := ""
		for i, h := range p.Soil {
			line += fmt.Sprintf(" %s %s %s %d 0 %s", vh.FHex(h.Corg), vh.FHex(10), vh.FHex(float64(h.Stone)), h.LD, vh.FHex(0))
			out += fmt.Sprintf(" %s %s %s %s %s", vh.FHex(sc.CNRATIO[i]), vh.FHex(sc.NGEHALT[i]), vh.FHex(sc.HUMUS[i]), vh.FHex(sc.STEIN[i]), vh.FHex(sc.BULK[i]))
		}
		cases = append(cases, line)
		impl = append(impl, strings.TrimSpace(out)+" "+vh.FHex(sc.CNRAT1))
		descs = append(descs, replay)
	}
	c.Correspond("formats.soil", cases, impl, 1e-9, 1e-12, func(i int) interface{} { return descs[i] })
}

// ---------------------------------------------------------------- measurement file

type measDump struct {
	NMESS                        int
	MES0                         string
	MESS0                        int
	WG2                          [21]float64
	CN1                          [21]float64
	WNZ0, K1, K2, K3, K4, K5, K6 float64
}

func runMeasure(txt bool, content, fident string, n int, w, wmin, cn0 []float64) (d measDump, pan string) {
	defer func() {
		if r := recover(); r != nil {
			pan = fmt.Sprint(r)
		}
	}()
	g := hermes.NewGlobalVarsMain()
	g.N = n
	for i := 0; i < n; i++ {
		g.W[i], g.WMIN[i], g.CN[0][i] = w[i], wmin[i], cn0[i]
	}
	g.BEGINN = 29000
	g.Datum = hermes.DateConverter(50, hermes.DateDElong)
	sc := bufio.NewScanner(strings.NewReader(content))
	if txt {
		hermes.ExtractMeasuredDataTxt(sc, &g, fident, "endit.txt")
	} else {
		hermes.ExtractMeasuredDataCSV(sc, &g, fident, "endit.csv")
	}
	d = measDump{NMESS: g.NMESS, MES0: g.MES[0], MESS0: g.MESS[0], WG2: g.WG[2], CN1: g.CN[1], WNZ0: g.WNZ[0],
		K1: g.KNZ1[0], K2: g.KNZ2[0], K3: g.KNZ3[0], K4: g.KNZ4[0], K5: g.KNZ5[0], K6: g.KNZ6[0]}
	return
}

func c13Measure(c *vh.Ctx) {
	n := c.N(300, 6000)
	var cases, impl []string
	var descs []interface{}
	for k := 0; k < n; k++ {
		r := c.Rng
		nl := r.Range(1, 20)
		w, wmin, cn0 := make([]float64, nl), make([]float64, nl), make([]float64, nl)
		for i := range w {
			wmin[i] = vh.RoundTo(r.Uni(0.03, 0.2), 3)
			w[i] = wmin[i] + vh.RoundTo(r.Uni(0.05, 0.25), 3)
			cn0[i] = vh.RoundTo(r.Uni(0, 20), 2)
		}
		mode := []string{"1", "2", "3"}[r.Intn(3)]
		var nm [6]int
		var wa [6]float64
		for i := range nm {
			nm[i] = r.Intn(200)
			wa[i] = vh.RoundTo(r.Uni(0.05, 1), 3)
		}
		full := r.Chance(0.8) // all 15 columns, or only the 9 mandatory ones
		// a CSV file may carry any subset of the six optional deep-layer columns (they are found by their header names);
		// the text file of the same content has zeros in the absent ones
		var present [6]bool // NM9-12 NM12-15 NM15-20 W9-12 W12-15 W15-20
		subset := false
		if full && r.Chance(0.3) {
			subset = true
			any, all := false, true
			for i := range present {
				present[i] = r.Chance(0.5)
				any = any || present[i]
				all = all && present[i]
			}
			if !any || all {
				present = [6]bool{false, false, false, true, true, true} // mineral N measured to 90 cm only, water for all depth classes
			}
			for i := 0; i < 3; i++ {
				if !present[i] {
					nm[3+i] = 0
				}
				if !present[3+i] {
					wa[3+i] = 0
				}
			}
		}
		// ... or carry the column and leave the cell of a depth class that was not sampled empty (the CSV reader takes an
		// empty optional cell as 0; the text file has 0000 / 0.000 there)
		var empty [6]bool
		emptyCells := false
		if full && !subset && r.Chance(0.3) {
			for i := range empty {
				empty[i] = r.Chance(0.5)
				emptyCells = emptyCells || empty[i]
			}
			if !emptyCells {
				empty[0], empty[1], empty[2], emptyCells = true, true, true, true // mineral N sampled to 90 cm only
			}
			for i := 0; i < 3; i++ {
				if empty[i] {
					nm[3+i] = 0
				}
				if empty[3+i] {
					wa[3+i] = 0
				}
			}
		}
		cellN := func(i int) string {
			if emptyCells && empty[i-3] {
				return ""
			}
			return fmt.Sprintf("%04d", nm[i])
		}
		cellW := func(i int) string {
			if emptyCells && empty[i] {
				return ""
			}
			return fmt.Sprintf("%.3f", wa[i])
		}
		fident := "ALLE"
		idClass := "ALLE"
		if r.Chance(0.3) {
			fident, idClass = []string{"F1", "FIELD00A"}[r.Intn(2)], "text-id"
		} else if r.Chance(0.3) {
			fident, idClass = []string{"001", "1001", "17"}[r.Intn(3)], "numeric-id"
		}
		hs := r.Intn(2)
		if k == 0 {
			// deterministic witness: nine mandatory columns only, numeric plot id, layers below 90 cm
			nl, full, fident, idClass = 12, false, "001", "numeric-id"
			subset, emptyCells = false, false
			w, wmin, cn0 = w[:0], wmin[:0], cn0[:0]
			for i := 0; i < nl; i++ {
				wmin, w, cn0 = append(wmin, 0.1), append(w, 0.3), append(cn0, 5)
			}
		}
		p := &proj.Project{DateFmt: 1, Meas: []proj.Measure{{Date: proj.Date{Y: 1980, M: 10, D: 1}, Nmin: nm, Mode: mode, Water: wa}}}
		extra := r.Intn(3) // further records of the same id (only counted)
		var txt, csv strings.Builder
		txt.WriteString("Plot_ID   Date     Nm03 Nm36 Nm69 M W0_3  W3_6  W6_9  NM9-12 NM12-15 NM15-20  W9-12 W12-15 W15-20\n")
		other := "ZZZ9"
		date := p.Meas[0].Date.Fmt(1)
		row := func(id string, d string) {
			if full {
				fmt.Fprintf(&txt, "%-9s %s %04d %04d %04d %s %.3f %.3f %.3f %04d   %04d    %04d     %.3f %.3f  %.3f\n", id, d, nm[0], nm[1], nm[2], mode, wa[0], wa[1], wa[2], nm[3], nm[4], nm[5], wa[3], wa[4], wa[5])
			} else {
				fmt.Fprintf(&txt, "%-9s %s %04d %04d %04d %s %.3f %.3f %.3f\n", id, d, nm[0], nm[1], nm[2], mode, wa[0], wa[1], wa[2])
			}
			switch {
			case subset:
				fmt.Fprintf(&csv, "%s,%s,%04d,%04d,%04d,%s,%.3f,%.3f,%.3f", id, d, nm[0], nm[1], nm[2], mode, wa[0], wa[1], wa[2])
				for i := 0; i < 3; i++ {
					if present[i] {
						fmt.Fprintf(&csv, ",%04d", nm[3+i])
					}
				}
				for i := 3; i < 6; i++ {
					if present[i] {
						fmt.Fprintf(&csv, ",%.3f", wa[i])
					}
				}
				csv.WriteString("\n")
			case full && hs == 0:
				fmt.Fprintf(&csv, "%s,%s,%04d,%04d,%04d,%s,%.3f,%.3f,%.3f,%s,%s,%s,%s,%s,%s\n", id, d, nm[0], nm[1], nm[2], mode, wa[0], wa[1], wa[2], cellN(3), cellN(4), cellN(5), cellW(3), cellW(4), cellW(5))
			case full:
				fmt.Fprintf(&csv, "%s,%s,%04d,%04d,%04d,%s,%s,%s,%s,%.3f,%.3f,%.3f,%s,%s,%s\n", id, d, nm[0], nm[1], nm[2], cellN(3), cellN(4), cellN(5), mode, wa[0], wa[1], wa[2], cellW(3), cellW(4), cellW(5))
			case hs == 0:
				fmt.Fprintf(&csv, "%s,%s,%04d,%04d,%04d,%s,%.3f,%.3f,%.3f\n", id, d, nm[0], nm[1], nm[2], mode, wa[0], wa[1], wa[2])
			default:
				fmt.Fprintf(&csv, "%s,%s,%04d,%04d,%04d,%s,%.3f,%.3f,%.3f\n", id, d, nm[0], nm[1], nm[2], mode, wa[0], wa[1], wa[2])
			}
		}
		switch {
		case subset:
			names := [2][6]string{{"NM9-12", "NM12-15", "NM15-20", "W9-12", "W12-15", "W15-20"}, {"Nmin9-12", "Nmin12-15", "Nmin15-20", "Water9-12", "Water12-15", "Water15-20"}}
			if hs == 0 {
				csv.WriteString("Plot_ID,Date,Nm03,Nm36,Nm69,M,W0_3,W3_6,W6_9")
			} else {
				csv.WriteString("Id,Date,Nmin0-3,Nmin3-6,Nmin6-9,M,Water0-3,Water3-6,Water6-9")
			}
			for i := 0; i < 6; i++ {
				if present[i] {
					csv.WriteString("," + names[hs][i])
				}
			}
			csv.WriteString("\n")
		case full && hs == 0:
			csv.WriteString("Plot_ID,Date,Nm03,Nm36,Nm69,M,W0_3,W3_6,W6_9,NM9-12,NM12-15,NM15-20,W9-12,W12-15,W15-20\n")
		case full:
			csv.WriteString("Id,Date,Nmin0-3,Nmin3-6,Nmin6-9,Nmin9-12,Nmin12-15,Nmin15-20,M,Water0-3,Water3-6,Water6-9,Water9-12,Water12-15,Water15-20\n")
		case hs == 0:
			csv.WriteString("Plot_ID,Date,Nm03,Nm36,Nm69,M,W0_3,W3_6,W6_9\n")
		default:
			csv.WriteString("Id,Date,Nmin0-3,Nmin3-6,Nmin6-9,M,Water0-3,Water3-6,Water6-9\n")
		}
		if r.Chance(0.5) {
			row(other, "15031979")
		}
		row(fident, date)
		for e := 0; e < extra; e++ {
			row(fident, fmt.Sprintf("%02d041981", e+1))
		}
		if r.Chance(0.5) {
			row(other, "15031982")
		}
		txt.WriteString("end\n")
		dt, pt := runMeasure(true, txt.String(), fident, nl, w, wmin, cn0)
		dc, pc := runMeasure(false, csv.String(), fident, nl, w, wmin, cn0)
		c.Eval()
		c.Nontrivial(fmt.Sprintf("meas%d", k))
		cols := "15-columns"
		if !full {
			cols = "9-columns"
		}
		if subset {
			cols = "optional-subset"
			if !present[0] && !present[1] && !present[2] {
				cols = "optional-subset:water-only"
			}
		}
		if emptyCells {
			cols = "15-columns:empty-optional-cells"
		}
		c.Count("measure:" + cols + ":" + idClass + ":mode" + mode)
		replay := map[string]interface{}{"txt": txt.String(), "csv": csv.String(), "id": fident, "layers": nl, "W": w, "WMIN": wmin, "CN0": cn0}
		if pt != "" || pc != "" {
			if (pt == "") != (pc == "") {
				c.Violate("search", "measure:one-reader-panics:"+cols, fmt.Sprintf("txt reader panic %q, csv reader panic %q", pt, pc), replay)
			}
			continue
		}
		if d := diffStates(dt, dc); len(d) > 0 {
			c.Violate("search", fmt.Sprintf("measure:txt-vs-csv:%s:%s", cols, idClass),
				"ExtractMeasuredDataTxt and ExtractMeasuredDataCSV leave different initial state for the same content ("+cols+", plot id "+fident+"): "+strings.Join(d, " "), replay)
		}
		if k < 1 {
			c.Sample(map[string]interface{}{"kind": "measurement", "txt": txt.String()})
		}
		// model: layer assignment
		kz := nm
		wz := wa
		if !full {
			kz[3], kz[4], kz[5] = 0, 0, 0
			wz[3], wz[4], wz[5] = 0, 0, 0
		}
		line := fmt.Sprintf("formats.measure %d %s", nl, mode)
		for i := 0; i < 6; i++ {
			line += " " + vh.FHex(wz[i])
		}
		for i := 0; i < 6; i++ {
			line += " " + vh.FHex(float64(kz[i]))
		}
		line += " " + fl(w) + " " + fl(wmin)
		cases = append(cases, line)
		impl = append(impl, fl(dt.WG2[:nl+1])+" "+fl(dt.CN1[:nl])+" "+vh.FHex(dt.WNZ0))
		descs = append(descs, replay)
		// the CSV reader against the same model values
		cases = append(cases, line)
		impl = append(impl, fl(dc.WG2[:nl+1])+" "+fl(dc.CN1[:nl])+" "+vh.FHex(dc.WNZ0))
		descs = append(descs, replay)
	}
	c.Correspond("formats.measure", cases, impl, 1e-9, 1e-12, func(i int) interface{} { return descs[i] })
}

// ---------------------------------------------------------------- weather layouts (reader level)

type wxDump struct {
	JAR, Days                                       []int
	TMP, TMI, TMA, RADI, REG, RELF, WIN, SUND, VERD [][366]float64
	WINDHI, ALTITUDE                                float64
	HasVERD, HasSUND, HasETNULL                     bool
}

func c13Weather(c *vh.Ctx) {
	n := c.N(6, 80)
	var cases, impl []string
	for k := 0; k < n; k++ {
		p := proj.Gen(c.Rng.Fork(), fmt.Sprintf("w%d", k), proj.Opt{Years: c.Rng.Range(1, 3), NoCrop: true})
		p.DeriveMeanTemperature()
		heights := c.Rng.Chance(0.5)
		alt, wh := float64(c.Rng.Range(0, 900)), []float64{2, 2, 10, 1.5}[c.Rng.Intn(4)]
		years := p.Weather[len(p.Weather)-1].Date.Y - p.WeatherStart.Y + 1
		cfg := hermes.NewDefaultConfig()
		cfg.WeatherNoneValue = -99.9
		var dumps [3]wxDump
		var errs [3]error
		for layout := 0; layout < 3; layout++ {
			root := filepath.Join(c.Scratch, fmt.Sprintf("wx%d_%d", k, layout))
			q := *p
			q.Cfg = map[string]string{}
			for kk, v := range p.Cfg {
				q.Cfg[kk] = v
			}
			q.UseWeatherLayout(layout, heights, alt, wh)
			os.MkdirAll(filepath.Join(root, "project", q.Name), 0o755)
			if err := q.WriteAlt(root); err != nil {
				panic(err)
			}
			q.Forget()
			cfg.WeatherNumHeader = 2
			if heights && layout != 2 {
				cfg.WeatherNumHeader = 3
			}
			g := hermes.NewGlobalVarsMain()
			g.Session = hermes.NewHermesSession()
			hp := hermes.VerifFilePath("", "", "", filepath.Join(root, "weather", "gen"))
			wdir := filepath.Join(root, "weather", "gen")
			var d wxDump
			switch layout {
			case 0:
				for y := 0; y < years; y++ {
					s := hermes.NewWeatherDataShared(1, 360)
					yr := p.WeatherStart.Y + y
					errs[layout] = hermes.WetterK(filepath.Join(wdir, "w"+p.Name+"."+proj.YearExt(yr)), yr, &g, &s, hp, &cfg)
					if errs[layout] != nil {
						break
					}
					d.JAR, d.Days = append(d.JAR, s.JAR[0]), append(d.Days, s.MaxYearDays[0])
					d.TMP, d.TMI, d.TMA, d.RADI = append(d.TMP, s.TMP[0]), append(d.TMI, s.TMI[0]), append(d.TMA, s.TMA[0]), append(d.RADI, s.RADI[0])
					d.REG, d.RELF, d.WIN = append(d.REG, s.REG[0]), append(d.RELF, s.RELF[0]), append(d.WIN, s.WIN[0])
					d.SUND, d.VERD = append(d.SUND, s.SUND[0]), append(d.VERD, s.VERD[0])
					d.WINDHI, d.ALTITUDE = s.WINDHI, s.ALTITUDE
					fl := s.VerifWeatherFlags()
					d.HasVERD, d.HasSUND, d.HasETNULL = d.HasVERD || fl[3], d.HasSUND || fl[4], d.HasETNULL || fl[5]
				}
			default:
				s := hermes.NewWeatherDataShared(years, 360)
				f := filepath.Join(wdir, "w"+p.Name+".csv")
				if layout == 1 {
					errs[layout] = hermes.ReadWeatherCSV(f, p.WeatherStart.Y, &g, &s, hp, &cfg)
				} else {
					errs[layout] = hermes.ReadWeatherCZ(f, p.WeatherStart.Y, &g, &s, hp, &cfg)
				}
				d = wxDump{JAR: s.JAR, Days: s.MaxYearDays, TMP: s.TMP, TMI: s.TMI, TMA: s.TMA, RADI: s.RADI, REG: s.REG, RELF: s.RELF, WIN: s.WIN, SUND: s.SUND, VERD: s.VERD, WINDHI: s.WINDHI, ALTITUDE: s.ALTITUDE}
				fl := s.VerifWeatherFlags()
				d.HasVERD, d.HasSUND, d.HasETNULL = fl[3], fl[4], fl[5]
			}
			// optional columns are handed to the day loop only when their flag is set (LoadYear,
			// weather_input.go:705-713): without the flag the stored sentinel is never read
			if !d.HasVERD {
				d.VERD = nil
			}
			if !d.HasSUND {
				d.SUND = nil
			}
			dumps[layout] = d
			os.RemoveAll(root)
		}
		c.Eval()
		c.Nontrivial(fmt.Sprintf("wx%d", k))
		replay := map[string]interface{}{"project_seed_case": k, "years": years, "start": p.WeatherStart.String(), "heights_line": heights, "altitude": alt, "wind_height": wh,
			"how": "proj.UseWeatherLayout(0|1|2) + WetterK / ReadWeatherCSV / ReadWeatherCZ"}
		if errs[0] != nil || errs[1] != nil || errs[2] != nil {
			c.Violate("search", "weather:reader-error", fmt.Sprintf("reader errors on a gap-free series: %v / %v / %v", errs[0], errs[1], errs[2]), replay)
			continue
		}
		names := []string{"year-files", "multi-year-csv", "day-of-year"}
		for _, pair := range [][2]int{{0, 1}, {1, 2}} {
			a, b := dumps[pair[0]], dumps[pair[1]]
			if pair[1] == 2 {
				// the day-of-year layout has no heights line: compare values only
				a.WINDHI, a.ALTITUDE, b.WINDHI, b.ALTITUDE = 0, 0, 0, 0
			}
			d := diffStates(a, b)
			if len(d) > 0 {
				c.Violate("search", fmt.Sprintf("weather:%s-vs-%s:field=%s", names[pair[0]], names[pair[1]], fieldClasses(d)),
					"the weather readers store different values for the same series: "+strings.Join(d[:minI(len(d), 8)], " "), replay)
			}
		}
		// model: value mapping of single days (first 40 days of the series)
		for i := 0; i < 40 && i < len(p.Weather); i++ {
			d := p.Weather[i]
			for layout := 0; layout < 3; layout++ {
				cases = append(cases, fmt.Sprintf("formats.weather %d %s", layout, vh.FVals(d.Tmin, d.Tavg, d.Tmax, d.Precip, d.Rad, d.Wind, d.RH, 1.0)))
				dd := dumps[layout]
				impl = append(impl, vh.FVals(dd.TMP[0][i], dd.TMI[0][i], dd.TMA[0][i], dd.REG[0][i], dd.RADI[0][i], dd.RELF[0][i], dd.WIN[0][i]))
			}
		}
	}
	c.Correspond("formats.weather", cases, impl, 1e-9, 1e-12, nil)
}

// ---------------------------------------------------------------- paired whole runs

var c13DailyCols = []string{"REGENdaily", "TEMPdaily", "TMINdaily", "TMAXdaily", "RADdaily", "RHdaily", "ETA", "SICKER", "LAI", "OBMAS", "WUMAS", "GRW",
	"C1[0]", "C1[3]", "WG[0][0]", "WG[0][2]", "AUFNASUM", "OUTSUM", "WORG[0]", "WORG[1]", "WORG[2]", "WORG[3]", "GEHOB", "TD[1]", "PESUM", "DSUMM", "MINAOS[0]"}

type runOutFmt struct {
	V, Y, C, M string
	Err, Panic string
}

func runProject(c *vh.Ctx, root string, p *proj.Project, prep func(root string) error) runOutFmt {
	if err := p.Write(root, c.Repo); err != nil {
		panic(err)
	}
	if err := p.WriteAlt(root); err != nil {
		panic(err)
	}
	if prep != nil {
		if err := prep(root); err != nil {
			panic(err)
		}
	}
	res := proj.Run(root, p, nil)
	o := runOutFmt{V: res.Out.File("V"), Y: res.Out.File("Y"), C: res.Out.File("C"), M: res.Out.File("M"), Panic: res.Panic}
	if res.Err != nil {
		o.Err = res.Err.Error()
	}
	p.Forget()
	os.RemoveAll(root)
	return o
}

func firstDiffLine(a, b string) string {
	la, lb := strings.Split(a, "\n"), strings.Split(b, "\n")
	for i := 0; i < len(la) && i < len(lb); i++ {
		if la[i] != lb[i] {
			return fmt.Sprintf("line %d: %q vs %q", i+1, trunc(la[i], 160), trunc(lb[i], 160))
		}
	}
	return fmt.Sprintf("line counts %d vs %d", len(la), len(lb))
}

func trunc(s string, n int) string {
	if len(s) > n {
		return s[:n] + "…"
	}
	return s
}

// compareRuns compares the captured result files; files lists which of V Y C M to compare.
func compareRuns(c *vh.Ctx, sig, what string, a, b runOutFmt, files string, replay interface{}) bool {
	if a.Err != b.Err || a.Panic != b.Panic {
		c.Violate("search", sig+":error-differs", fmt.Sprintf("%s: run A err=%q panic=%q, run B err=%q panic=%q", what, a.Err, a.Panic, b.Err, b.Panic), replay)
		return false
	}
	ok := true
	for _, f := range files {
		var x, y string
		switch f {
		case 'V':
			x, y = a.V, b.V
		case 'Y':
			x, y = a.Y, b.Y
		case 'C':
			x, y = a.C, b.C
		case 'M':
			x, y = a.M, b.M
		}
		if x != y {
			ok = false
			c.Violate("search", fmt.Sprintf("%s:%c", sig, f), fmt.Sprintf("%s: result file %c differs, %s", what, f, firstDiffLine(x, y)), replay)
		}
	}
	return ok
}

func c13WholeRuns(c *vh.Ctx) {
	nProj := c.N(5, 40)
	runs := 0
	for k := 0; k < nProj; k++ {
		seed := c.Rng.U64()
		mk := func() *proj.Project {
			p := proj.Gen(vh.NewRng(seed), fmt.Sprintf("q%d", k), proj.Opt{Management: true, MinLayers: 5, Years: 2 + int(seed%2)})
			p.DailyCols = c13DailyCols
			p.DeriveMeanTemperature()
			p.UseWeatherLayout(1, false, 0, 2)
			if !p.SoilTxtOK() {
				for i := range p.Soil {
					p.Soil[i].Bulk = 0
				}
			}
			return p
		}
		root := func(tag string) string { return filepath.Join(c.Scratch, fmt.Sprintf("run%d_%s", k, tag)) }
		base := mk()
		replay := func(dim string) map[string]interface{} {
			return map[string]interface{}{"generator_seed": seed, "project": fmt.Sprintf("q%d", k), "dimension": dim, "rotation": base.Rot, "soil": base.Soil,
				"how": "proj.Gen(vh.NewRng(seed), name, Opt{Management:true, MinLayers:5, Years:2+seed%2}); DeriveMeanTemperature; Use<variant>; Write; WriteAlt; proj.Run"}
		}
		b := runProject(c, root("base"), base, nil)
		runs++
		if b.Err != "" || b.Panic != "" {
			c.Count("run:base-fails")
			c.Note("base project q%d fails: %s %s", k, b.Err, b.Panic)
			continue
		}
		if k == 0 {
			c.Sample(map[string]interface{}{"kind": "whole-run", "layers": base.N(), "rotation": base.Rot, "daily_records": strings.Count(b.V, "\n")})
		}
		variant := func(tag, sig, what, files string, f func(p *proj.Project)) {
			p := mk()
			f(p)
			v := runProject(c, root(tag), p, nil)
			runs++
			c.Eval()
			c.Nontrivial(fmt.Sprintf("q%d/%s", k, tag))
			compareRuns(c, sig, what, b, v, files, replay(tag))
		}
		if base.SoilTxtOK() {
			variant("soiltxt", "run:soil-txt-vs-csv", "soil profile as fixed-width text vs CSV", "VYCM", func(p *proj.Project) { p.UseSoilTxt() })
		}
		variant("rotcsv0", "run:rotation-csv-vs-txt", "rotation as CSV (shipped header) vs text", "VYCM", func(p *proj.Project) { p.UseRotationCSV(0) })
		variant("rotcsv1", "run:rotation-csv-vs-txt", "rotation as CSV (recognised header names) vs text", "VYCM", func(p *proj.Project) { p.UseRotationCSV(1) })
		variant("meascsv0", "run:measurement-csv-vs-txt", "measurement file as CSV (old header) vs text", "VYCM", func(p *proj.Project) { p.UseMeasureCSV(0) })
		variant("meascsv1", "run:measurement-csv-vs-txt", "measurement file as CSV (new header) vs text", "VYCM", func(p *proj.Project) { p.UseMeasureCSV(1) })
		variant("wx0", "run:weather-yearfiles-vs-csv", "weather as one file per year vs multi-year CSV", "VYCM", func(p *proj.Project) { p.UseWeatherLayout(0, false, 0, 2) })
		variant("wx2", "run:weather-dayofyear-vs-csv", "weather in the day-of-year layout vs multi-year CSV", "VYCM", func(p *proj.Project) { p.UseWeatherLayout(2, false, 0, 2) })
		// the mean temperature is not available on some interior days (none-value in the column): both layouts
		// that carry the column replace it by the mean of the adjacent days
		{
			miss := func(p *proj.Project) []proj.Date { return p.MissingMeanTemperature(vh.NewRng(seed^0x7a76), 6) }
			pc := mk()
			days := miss(pc)
			bc := runProject(c, root("tavgmiss_csv"), pc, nil)
			py := mk()
			miss(py)
			py.UseWeatherLayout(0, false, 0, 2)
			by := runProject(c, root("tavgmiss_year"), py, nil)
			runs += 2
			c.Eval()
			c.Nontrivial(fmt.Sprintf("q%d/tavgmiss", k))
			rp := replay("weather layouts, mean temperature missing")
			rp["days_without_mean_temperature"] = days
			compareRuns(c, "run:weather-yearfiles-vs-csv:mean-temperature-missing", "weather as one file per year vs multi-year CSV, mean temperature not available on some days", bc, by, "VYCM", rp)
		}
		// the monthly precipitation correction (preco.txt in the weather folder) with factors that differ from month to
		// month: all three layouts, a window of two or three years (leap and non-leap), rain on the last and first days of months
		{
			preco := func(root string) error {
				var b strings.Builder
				b.WriteString("Mo factor\n")
				for m := 0; m < 12; m++ {
					fmt.Fprintf(&b, "%02d %4.2f\n", m+1, 1.02+0.04*float64((m*7+int(seed%5))%12))
				}
				return os.WriteFile(filepath.Join(root, "weather", "gen", "preco.txt"), []byte(b.String()), 0o644)
			}
			wet := func(p *proj.Project) {
				p.Cfg["CorrectionPrecipitation"] = "1"
				for i := range p.Weather {
					d := p.Weather[i].Date
					if d.D == 1 || d.AddDays(1).D == 1 || (d.M == 2 && d.D >= 27) || (d.M == 3 && d.D <= 2) {
						p.Weather[i].Precip = 3.5 + float64((d.M*3+d.D)%9)
					}
				}
			}
			pc := mk()
			wet(pc)
			bc := runProject(c, root("preco_csv"), pc, preco)
			for _, lay := range []int{0, 2} {
				pv := mk()
				wet(pv)
				pv.UseWeatherLayout(lay, false, 0, 2)
				bv := runProject(c, root(fmt.Sprintf("preco_l%d", lay)), pv, preco)
				runs++
				c.Eval()
				c.Nontrivial(fmt.Sprintf("q%d/preco%d", k, lay))
				compareRuns(c, fmt.Sprintf("run:weather-layout%d-vs-csv:precipitation-correction", lay), fmt.Sprintf("weather layout %d vs multi-year CSV with the monthly precipitation correction switched on", lay), bc, bv, "VYCM", replay("weather layouts, precipitation correction"))
			}
			runs++
		}
		// station height and wind height in the third header line: year files vs multi-year CSV
		{
			alt, wh := float64(50+int(seed%400)), []float64{2, 10, 1.2}[int(seed>>8)%3]
			p1 := mk()
			p1.UseWeatherLayout(1, true, alt, wh)
			p1.Cfg["ETpot"] = "3"
			h1 := runProject(c, root("wxh1"), p1, nil)
			p0 := mk()
			p0.UseWeatherLayout(0, true, alt, wh)
			p0.Cfg["ETpot"] = "3"
			h0 := runProject(c, root("wxh0"), p0, nil)
			runs += 2
			c.Eval()
			c.Nontrivial(fmt.Sprintf("q%d/wxheights", k))
			rp := replay("weather layouts with heights line")
			rp["altitude"], rp["wind_height"] = alt, wh
			yearEndCalm := false
			for i, d := range base.Weather {
				if d.Date.M == 12 && d.Date.D == 31 && d.Wind < 0.5 && i < len(base.Weather)-1 {
					yearEndCalm = true
				}
			}
			sig := "run:weather-yearfiles-vs-csv:heights"
			if yearEndCalm && wh < 2 {
				sig = "run:weather-yearfiles-vs-csv:wind<0.5@31Dec:windheight<2"
			}
			compareRuns(c, sig, fmt.Sprintf("weather with station height %g and wind height %g as year files vs multi-year CSV", alt, wh), h1, h0, "VYCM", rp)
		}
		// a CO2 concentration that rises from year to year: third header line of every year file vs the CO2 column of the
		// day-of-year layout (station height = the configured altitude, wind height 2 m: the day-of-year layout has neither)
		{
			cfgAlt := 50.0
			fmt.Sscan(strings.Trim(base.Cfg["Altitude"], "\""), &cfgAlt)
			p2 := mk()
			p2.UseWeatherLayout(2, false, 0, 2)
			p2.UseYearlyCO2()
			c2 := runProject(c, root("co2l2"), p2, nil)
			p0 := mk()
			p0.UseWeatherLayout(0, true, cfgAlt, 2)
			p0.UseYearlyCO2()
			c0 := runProject(c, root("co2l0"), p0, nil)
			runs += 2
			c.Eval()
			c.Nontrivial(fmt.Sprintf("q%d/wxco2", k))
			rp := replay("weather layouts with a CO2 value per year")
			rp["co2_of_first_and_second_year"] = []float64{base.YearlyCO2(base.WeatherStart.Y), base.YearlyCO2(base.WeatherStart.Y + 1)}
			if c2.V == b.V {
				c.Count("run:weather-co2-per-year:without-effect")
			}
			compareRuns(c, "run:weather-yearfiles-vs-day-of-year:co2-per-year", "weather with a CO2 concentration per year as year files (third header line) vs day-of-year layout (CO2 column)", c2, c0, "VYCM", rp)
		}
		// date formats: numeric-only outputs
		{
			pb := mk()
			pb.NumericOutputs()
			nb := runProject(c, root("datebase"), pb, nil)
			runs++
			for _, f := range []int{0, 2, 3} {
				p := mk()
				p.NumericOutputs()
				p.SetDateFormat(f)
				v := runProject(c, root(fmt.Sprintf("date%d", f)), p, nil)
				runs++
				c.Eval()
				c.Nontrivial(fmt.Sprintf("q%d/date%d", k, f))
				compareRuns(c, fmt.Sprintf("run:dateformat-%d-vs-DElong", f), fmt.Sprintf("all dates written in format %d vs DElong", f), nb, v, "VYC", replay(fmt.Sprintf("date format %d", f)))
			}
		}
		// crop parameters: classic vs shipped YAML vs converter YAML
		variant("cropyml", "run:cropparam-shipped-yml-vs-classic:"+rotCrops(base), "crop parameters from the shipped YAML files vs the classic files", "VYCM", func(p *proj.Project) { p.Cfg["CropParameterFormat"] = "yml" })
		{
			p := mk()
			p.Cfg["CropParameterFormat"] = "yml"
			p.Args = append(p.Args, "parameter=par_conv")
			v := runProject(c, root("cropconv"), p, func(root string) error { return convertedParameterFolder(c, root, "par_conv") })
			runs++
			c.Eval()
			c.Nontrivial(fmt.Sprintf("q%d/cropconv", k))
			compareRuns(c, "run:cropparam-converted-yml-vs-classic:"+rotCrops(base), "crop parameters from YAML written by the built converter vs the classic files", b, v, "VYCM", replay("crop parameter format (converter)"))
		}
	}
	c.Res.Extra["whole_runs"] = runs
	// deterministic witness of the loader's wind floor (weather_input.go:602): calm 31 Dec of a
	// non-final year, wind measured below 2 m, Penman-Monteith
	c13WindFloorWitness(c)
	c13StaleOrganWitness(c)
	c13MeasureWitness(c)
}

// c13MeasureWitness: measurement file with only the nine mandatory columns, selected by a numeric
// soil id (InitSelection 4), profile deeper than 90 cm: text vs CSV.
func c13MeasureWitness(c *vh.Ctx) {
	mk := func(csv bool) (*proj.Project, func(string) error) {
		p := proj.Gen(vh.NewRng(9191), "mw", proj.Opt{Years: 2, MinLayers: 12, Management: true})
		p.DailyCols = c13DailyCols
		p.SoilID = "001"
		p.Cfg["InitSelection"] = "4"
		m := p.Meas[0]
		d := m.Date.Fmt(p.DateFmt)
		name, body := "endit_mw.txt", fmt.Sprintf("Plot_ID   Date     Nm03 Nm36 Nm69 M W0_3  W3_6  W6_9\n001       %s %04d %04d %04d %s %.3f %.3f %.3f\nend\n", d, m.Nmin[0], m.Nmin[1], m.Nmin[2], m.Mode, m.Water[0], m.Water[1], m.Water[2])
		if csv {
			p.Cfg["MeasurementFileFormat"] = "csv"
			name, body = "endit_mw.csv", fmt.Sprintf("Plot_ID,Date,Nm03,Nm36,Nm69,M,W0_3,W3_6,W6_9\n001,%s,%04d,%04d,%04d,%s,%.3f,%.3f,%.3f\n", d, m.Nmin[0], m.Nmin[1], m.Nmin[2], m.Mode, m.Water[0], m.Water[1], m.Water[2])
		}
		return p, func(root string) error {
			return os.WriteFile(filepath.Join(root, "project", "mw", name), []byte(body), 0o644)
		}
	}
	pa, fa := mk(false)
	a := runProject(c, filepath.Join(c.Scratch, "mw_txt"), pa, fa)
	pb, fb := mk(true)
	b := runProject(c, filepath.Join(c.Scratch, "mw_csv"), pb, fb)
	c.Eval()
	c.Nontrivial("measure-witness")
	if a.Err != "" || a.Panic != "" {
		c.Note("measurement witness did not run: %s %s", a.Err, a.Panic)
		return
	}
	compareRuns(c, "run:measurement-csv-vs-txt:9-columns:numeric-id", "nine-column measurement file selected by the numeric soil id 001 (InitSelection 4), 12+ layers: text vs CSV", a, b, "VYCM",
		map[string]interface{}{"how": "proj.Gen(vh.NewRng(9191),\"mw\",Opt{Years:2,MinLayers:12,Management:true}); SoilID=001; InitSelection=4; endit file with the nine mandatory columns only, id 001; MeasurementFileFormat txt vs csv",
			"cause": "regression of ExtractMeasuredDataCSV (input.go:985-1020): an absent optional header name must not resolve to column 0 (the plot id)"})
}

// c13StaleOrganWitness: sugar beet (org=S4) followed by a sugar-beet variety file without the
// optional org= token, classic files vs the converter's YAML for the same files.
func c13StaleOrganWitness(c *vh.Ctx) {
	zr := filepath.Join(c.Repo, "examples", "parameter", "PARAM.ZR")
	lines, err := readLines(zr)
	if err != nil || !strings.Contains(lines[8], "org=S4") {
		c.Note("stale-organ witness skipped: PARAM.ZR has no org=S4 token")
		return
	}
	lines[8] = strings.Replace(lines[8], "org=S4", "      ", 1)
	var beet proj.CropCal
	for _, cc := range proj.Crops {
		if cc.Code == "ZR" {
			beet = cc
		}
	}
	mk := func(yml bool) *proj.Project {
		p := cropProject(777, "so", beet)
		first := p.Rot[1]
		second := first
		second.Sow.Y, second.Harvest.Y = first.Sow.Y+1, first.Harvest.Y+1
		second.Variety = "noorg"
		p.Rot = append(p.Rot, second)
		p.DailyCols = c13DailyCols
		p.Args = append(p.Args, "parameter=par_noorg")
		if yml {
			p.Cfg["CropParameterFormat"] = "yml"
		}
		return p
	}
	prep := func(root string) error {
		if err := convertedParameterFolder(c, root, "par_noorg"); err != nil {
			return err
		}
		f := filepath.Join(root, "par_noorg", "PARAM_noorg.ZR")
		if err := os.WriteFile(f, []byte(strings.Join(lines, "\n")+"\n"), 0o644); err != nil {
			return err
		}
		_, se, err := vh.RunTool(30*time.Second, root, convToolPath, "-input", f, "-output", f+".yml")
		if err != nil {
			return fmt.Errorf("converter: %v %s", err, se)
		}
		return nil
	}
	a := runProject(c, filepath.Join(c.Scratch, "so_classic"), mk(false), prep)
	b := runProject(c, filepath.Join(c.Scratch, "so_yml"), mk(true), prep)
	c.Eval()
	c.Nontrivial("stale-organ-witness")
	if a.Err != "" || a.Panic != "" {
		c.Note("stale-organ witness did not run: %s %s", a.Err, a.Panic)
		return
	}
	compareRuns(c, "run:cropparam-converted-yml-vs-classic:ngefkt5-without-org-token", "sugar beet (org=S4) then the same file without the org= token as variety: classic files vs YAML written by the converter", a, b, "VYC",
		map[string]interface{}{"how": "cropProject(777,\"so\",ZR) + a second season with variety noorg; parameter folder with PARAM_noorg.ZR = PARAM.ZR with the token org=S4 blanked and the converter's YAML of every file; CropParameterFormat txt vs yml",
			"cause": "ReadCropParamClassic assigns g.SubOrgan only when the token is present (cropparam.go:269-276): the second crop keeps SubOrgan = 4 from the first; the converter writes SubOrgan 0 and ReadCropParamYml stores it (cropparam.go:120)"})
}

func rotCrops(p *proj.Project) string {
	seen := map[string]bool{}
	var ks []string
	for _, r := range p.Rot[1:] {
		if !seen[r.Crop] {
			seen[r.Crop] = true
			ks = append(ks, r.Crop)
		}
	}
	if len(ks) == 0 {
		return "none"
	}
	// sorted for a stable signature
	for i := range ks {
		for j := i + 1; j < len(ks); j++ {
			if ks[j] < ks[i] {
				ks[i], ks[j] = ks[j], ks[i]
			}
		}
	}
	return strings.Join(ks, "+")
}

var convToolPath string

// convertedParameterFolder fills root/<name> with a copy of the shipped parameter folder in which
// every PARAM*.yml is the output of the built converter for the classic file.
func convertedParameterFolder(c *vh.Ctx, root, name string) error {
	if convToolPath == "" {
		p, err := c.BuildTool("cropfileconverter")
		if err != nil {
			return err
		}
		convToolPath = p
	}
	if err := proj.CopyParameterFolderAs(root, c.Repo, name); err != nil {
		return err
	}
	dir := filepath.Join(root, name)
	for _, f := range shippedCropFiles(c.Repo) {
		in := filepath.Join(dir, filepath.Base(f))
		out := in + ".yml"
		os.Remove(out)
		if _, se, err := vh.RunTool(30*time.Second, dir, convToolPath, "-input", in, "-output", out); err != nil {
			return fmt.Errorf("converter failed on %s: %v %s", in, err, se)
		}
	}
	return nil
}

func c13WindFloorWitness(c *vh.Ctx) {
	mk := func(layout int) *proj.Project {
		p := proj.Gen(vh.NewRng(4242), "wf", proj.Opt{NoCrop: true, Years: 2, MinLayers: 5})
		p.DailyCols = []string{"WINDdaily", "ET0", "ETA", "VERDUNST"}
		p.Cfg["ETpot"] = "3"
		p.DeriveMeanTemperature()
		for i := range p.Weather {
			if p.Weather[i].Date.M == 12 && p.Weather[i].Date.D == 31 {
				p.Weather[i].Wind = 0.3
			}
		}
		p.UseWeatherLayout(layout, true, 120, 1)
		return p
	}
	a := runProject(c, filepath.Join(c.Scratch, "wf1"), mk(1), nil)
	b := runProject(c, filepath.Join(c.Scratch, "wf0"), mk(0), nil)
	c.Eval()
	c.Nontrivial("windfloor-witness")
	if a.Err != "" || a.Panic != "" {
		c.Note("wind-floor witness did not run: %s %s", a.Err, a.Panic)
		return
	}
	compareRuns(c, "run:weather-yearfiles-vs-csv:wind<0.5@31Dec:windheight<2", "wind 0.3 m/s on every 31 Dec, wind height 1 m, Penman-Monteith: year files vs multi-year CSV", a, b, "V",
		map[string]interface{}{"how": "proj.Gen(vh.NewRng(4242),\"wf\",Opt{NoCrop,Years:2,MinLayers:5}); wind of every 31 Dec := 0.3; ETpot=3; heights line altitude 120 m wind height 1 m; layout 1 vs layout 0",
			"cause": "regression of the loader's wind floor (weather_input.go:600-603): it must apply to every loaded day, not only to s.WIN[yrz-1][T-1]; Evatra scales by the wind-height factor before its own floor (water.go:245-251)"})
	_ = math.Abs
}
