// debugrun <replay.json> — re-runs the project of a replay file in-process and reports the first day / sub-step on
// which a value of the water / nitrogen state is not finite, with the neighbouring values (debugging aid).
package main

import (
	"encoding/json"
	"fmt"
	"math"
	"os"

	"github.com/zalf-rpm/Hermes2Go/hermes"
	"verifharness/proj"
)

func bad(x float64) bool { return math.IsNaN(x) || math.IsInf(x, 0) }

func main() {
	b, err := os.ReadFile(os.Args[1])
	if err != nil {
		panic(err)
	}
	var top map[string]json.RawMessage
	json.Unmarshal(b, &top)
	var rp map[string]json.RawMessage
	if err := json.Unmarshal(top["replay"], &rp); err != nil {
		rp = top
	}
	raw := rp["project"]
	if raw == nil {
		raw = top["project"]
	}
	var p proj.Project
	if err := json.Unmarshal(raw, &p); err != nil {
		panic(err)
	}
	p.GenWeather()
	root, _ := os.MkdirTemp("", "verif-debug-")
	defer os.RemoveAll(root)
	repo := os.Getenv("VERIF_REPO")
	if repo == "" {
		repo = "/repo"
	}
	if err := p.Write(root, repo); err != nil {
		panic(err)
	}
	done := false
	report := func(where string, g *hermes.GlobalVarsMain, zeit, subd int) {
		if done {
			return
		}
		n := g.N
		chk := func(name string, xs []float64) bool {
			for i, x := range xs {
				if bad(x) {
					fmt.Printf("%s zeit=%d subd=%d: %s[%d] = %v\n", where, zeit, subd, name, i, x)
					return true
				}
			}
			return false
		}
		hit := chk("WG[0]", g.WG[0][:n]) || chk("WG[1]", g.WG[1][:n]) || chk("Q1", g.Q1[:n+1]) || chk("C1", g.C1[:n]) || chk("TP", g.TP[:n]) || chk("PE", g.PE[:n]) ||
			chk("DN", g.DN[:n]) || chk("TD", g.TD[:n+1]) || chk("W", g.W[:n]) || chk("WMIN", g.WMIN[:n]) || chk("PORGES", g.PORGES[:n]) ||
			chk("scalars(CUMDENIT,N2Odencum,OUTSUM,DRAINLOSS,QDRAIN,FLUSS0,GRW)", []float64{g.CUMDENIT, g.N2Odencum, g.OUTSUM, g.DRAINLOSS, g.QDRAIN, g.FLUSS0, g.GRW})
		if hit {
			done = true
			fmt.Printf("  N=%d GRW=%v FLUSS0=%v QDRAIN=%v\n  WG0=%v\n  WG1=%v\n  W=%v\n  PORGES=%v\n  WMIN=%v\n  C1=%v\n  Q1=%v\n  TD=%v\n", n, g.GRW, g.FLUSS0, g.QDRAIN, g.WG[0][:n], g.WG[1][:n], g.W[:n], g.PORGES[:n], g.WMIN[:n], g.C1[:n], g.Q1[:n+1], g.TD[:n+1])
		}
	}
	res := proj.Run(root, &p, &hermes.VerifProbes{
		DayStart: func(g *hermes.GlobalVarsMain, w *hermes.WaterSharedVars, nn *hermes.NitroSharedVars, cc *hermes.CropSharedVars, zeit int, wdt float64) {
			report("day-start", g, zeit, 0)
		},
		AfterWater: func(g *hermes.GlobalVarsMain, w *hermes.WaterSharedVars, zeit, subd int, wdt, steps float64) { report("after-water", g, zeit, subd) },
		AfterNitro: func(g *hermes.GlobalVarsMain, w *hermes.WaterSharedVars, nn *hermes.NitroSharedVars, zeit, subd int, wdt, steps float64) {
			report("after-nitro", g, zeit, subd)
		},
		DayEnd: func(g *hermes.GlobalVarsMain, w *hermes.WaterSharedVars, nn *hermes.NitroSharedVars, cc *hermes.CropSharedVars, zeit int) {
			report("day-end", g, zeit, 0)
		},
	})
	fmt.Println("err:", res.Err, "panic:", res.Panic, "found:", done)
}
