/-
Driver ops `formats.*` (C13): value mappings of the soil, measurement and weather readers.
  formats.soil <n> (<corg> <cn> <stone%> <ld> <hasBulk> <bulk>)*      → per horizon CNRATIO NGEHALT HUMUS STEIN BULK, then CNRAT1
  formats.measure <N> <mode> winit[6] konz[6] W[N] WMIN[N]            → WG[2][0..N] CN[1][0..N-1] WNZ
  formats.weather <layout> tmin tavg tmax precip rad wind rh cor      → TMP TMI TMA REG RADI RELF WIN
-/
import HermesModel.Proto
import HermesModel.Measure
import HermesModel.InputFormats
open Hermes Hermes.Proto

namespace Hermes.Driver

def popHorizons_Formats : Nat → Toks → Option (List (InputFormats.HorizonTok Float) × Toks)
  | 0, r => some ([], r)
  | n + 1, r => do
    let (corg, r) ← popFloat r
    let (cn, r) ← popFloat r
    let (stone, r) ← popFloat r
    let (ld, r) ← popNat r
    let (hb, r) ← popNat r
    let (bulk, r) ← popFloat r
    let (hs, r) ← popHorizons_Formats n r
    pure ({ corg, cn, stone, ld, bulk := if hb == 1 then some bulk else none, fc := none, wp := none, pv := none,
            sand := none, silt := none, clay := none } :: hs, r)

def formatsOps (toks : List String) : String :=
  match toks with
  | "formats.soil" :: rest =>
    (do
      let (n, r) ← popNat rest
      let (hs, _) ← popHorizons_Formats n r
      let out : List (InputFormats.Horizon Float) := hs.map InputFormats.horizonCsv
      let cn1 := match out with
        | h :: _ => h.cnratio
        | [] => 0
      pure (fmtFloats ((out.map fun (h : InputFormats.Horizon Float) => [h.cnratio, h.ngehalt, h.humus, h.stein, h.bulk]).flatten ++ [cn1]))).getD "bad-op"
  | "formats.measure" :: rest =>
    (do
      let (n, r) ← popNat rest
      let (mode, r) ← popNat r
      let (wi, r) ← popFloats 6 r
      let (ko, r) ← popFloats 6 r
      let (w, r) ← popFloats n r
      let (wmin, _) ← popFloats n r
      let t : Measure.Txt Float := { mode, k := ko.take 3, w := wi.take 3, deep := some (ko.drop 3, wi.drop 3) }
      let o := Measure.readTxt t w wmin
      pure (fmtFloats (o.wg ++ o.cn ++ [o.wnz]))).getD "bad-op"
  | "formats.weather" :: rest =>
    (do
      let (layout, r) ← popNat rest
      let (v, _) ← popFloats 8 r
      match v with
      | [tmin, tavg, tmax, precip, rad, wind, rh, cor] =>
        let d : InputFormats.WDay Float := { tmin, tavg, tmax, precip, rad, wind, rh }
        let s := if layout == 0 then InputFormats.dayYearFile cor d
                 else if layout == 1 then InputFormats.dayCsv cor d else InputFormats.dayCz cor d
        pure (fmtFloats [s.tmp, s.tmi, s.tma, s.reg, s.radi, s.relf, s.win])
      | _ => none).getD "bad-op"
  | _ => "bad-op"

end Hermes.Driver
