package main

import "bytes"

// extractMore: further facts, added as the model grows.
func extractMore(repo string, fc *facts, lean *bytes.Buffer) {
}
