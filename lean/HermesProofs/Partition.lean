/-
Helper lemmas for the partition model (HermesProps/C17.lean). Core Lean only.
-/
import HermesModel.Partition
namespace Hermes.Partition

/-- `Chain s l e`: the ranges of `l` are non-empty, start at `s + 1`, each starts right after the
previous one ends, and the last ends at `e` (contiguous, disjoint, covering `s+1 … e`). -/
inductive Chain : Nat → List (Nat × Nat) → Nat → Prop
  | nil (s : Nat) : Chain s [] s
  | cons (s hi : Nat) (rest : List (Nat × Nat)) (e : Nat) :
      s + 1 ≤ hi → Chain hi rest e → Chain s ((s + 1, hi) :: rest) e

theorem Chain.le {s e : Nat} {l : List (Nat × Nat)} (h : Chain s l e) : s ≤ e := by
  induction h with
  | nil s => exact Nat.le_refl _
  | cons s hi rest e h1 _ ih => omega

theorem slices_chain (sps rest nodes : Nat) (hs : 1 ≤ sps) (hr : rest < nodes) :
    ∀ fuel i last, fuel + i = nodes + 1 →
      Chain last (slices sps rest nodes fuel i last) (last + fuel * sps + (rest + 1 - i)) := by
  intro fuel
  induction fuel with
  | zero =>
    intro i last h
    have : rest + 1 - i = 0 := by omega
    simp only [slices, Nat.zero_mul, this, Nat.add_zero]
    exact Chain.nil _
  | succ f ih =>
    intro i last h
    have hi : ¬ i > nodes := by omega
    have hm : (f + 1) * sps = f * sps + sps := Nat.succ_mul f sps
    simp only [slices, hi, if_false]
    by_cases hle : i ≤ rest
    · simp only [hle, if_true]
      have := ih (i + 1) (last + sps + 1) (by omega)
      have e : last + sps + 1 + f * sps + (rest + 1 - (i + 1)) = last + (f + 1) * sps + (rest + 1 - i) := by
        rw [hm]; omega
      rw [e] at this
      exact Chain.cons last (last + sps + 1) _ _ (by omega) this
    · simp only [hle, if_false]
      have := ih (i + 1) (last + sps) (by omega)
      have e : last + sps + f * sps + (rest + 1 - (i + 1)) = last + (f + 1) * sps + (rest + 1 - i) := by
        rw [hm]; omega
      rw [e] at this
      exact Chain.cons last (last + sps) _ _ (by omega) this

theorem slices_length (sps rest nodes : Nat) :
    ∀ fuel i last, fuel + i = nodes + 1 → (slices sps rest nodes fuel i last).length = fuel := by
  intro fuel
  induction fuel with
  | zero => intro i last _; simp [slices]
  | succ f ih =>
    intro i last h
    have hi : ¬ i > nodes := by omega
    simp only [slices, hi, if_false]
    split <;> simp [ih _ _ (show f + (i + 1) = nodes + 1 by omega)]

theorem singles_chain : ∀ n s, Chain s ((List.range' s n).map fun i => (i + 1, i + 1)) (s + n) := by
  intro n
  induction n with
  | zero => intro s; simp; exact Chain.nil s
  | succ k ih =>
    intro s
    rw [List.range'_succ, List.map_cons]
    have := ih (s + 1)
    rw [show s + 1 + k = s + (k + 1) by omega] at this
    exact Chain.cons s (s + 1) _ _ (Nat.le_refl _) this

theorem filter_range_interval (n s e : Nat) (he : e ≤ n) :
    (List.range n).filter (fun i => decide (s ≤ i) && decide (i < e)) = List.range' s (e - s) := by
  induction n generalizing e with
  | zero =>
    have : e = 0 := by omega
    subst this; simp
  | succ k ih =>
    rw [List.range_succ, List.filter_append]
    by_cases hk : e ≤ k
    · rw [ih e hk]
      have : ([k].filter fun i => decide (s ≤ i) && decide (i < e)) = [] := by
        simp; omega
      rw [this, List.append_nil]
    · have hek : e = k + 1 := by omega
      subst hek
      have h1 : (List.range k).filter (fun i => decide (s ≤ i) && decide (i < k + 1))
          = (List.range k).filter (fun i => decide (s ≤ i) && decide (i < k)) := by
        apply List.filter_congr
        intro a ha
        have h2 : a < k := List.mem_range.mp ha
        have h3 : a < k + 1 := by omega
        simp [h2, h3]
      rw [h1, ih k (Nat.le_refl _)]
      by_cases hsk : s ≤ k
      · have : ([k].filter fun i => decide (s ≤ i) && decide (i < k + 1)) = [k] := by simp; omega
        rw [this, show k + 1 - s = (k - s) + 1 by omega, List.range'_concat]
        congr 2; omega
      · have : ([k].filter fun i => decide (s ≤ i) && decide (i < k + 1)) = [] := by simp; omega
        rw [this, List.append_nil, show k + 1 - s = 0 by omega, show k - s = 0 by omega]

theorem selected_eq (s hi n : Nat) (h1 : s + 1 ≤ hi) (he : hi ≤ n) :
    selected (s + 1) hi n = List.range' s (hi - s) := by
  rw [← filter_range_interval n s hi he]
  unfold selected
  apply List.filter_congr
  intro a _
  have : ¬ hi = 0 := by omega
  simp [this]

/-- executed indices of a chain of ranges = the indices `s … e−1` (for `e ≤ n`) -/
theorem chain_selected (n : Nat) {s e : Nat} {l : List (Nat × Nat)} (h : Chain s l e) (he : e ≤ n) :
    l.flatMap (fun r => selected r.1 r.2 n) = List.range' s (e - s) := by
  induction h with
  | nil s => simp
  | cons s hi rest e h1 hc ih =>
    have hle := hc.le
    rw [List.flatMap_cons, ih he]
    simp only
    rw [selected_eq s hi n h1 (by omega)]
    have : List.range' hi (e - hi) = List.range' (s + (hi - s)) (e - hi) := by congr 1; omega
    rw [this, List.range'_append_1]
    congr 1; omega

end Hermes.Partition
