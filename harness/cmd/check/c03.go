package main

// C03 — results are deterministic and independent of scheduling.
//
// Search: the built hermes2go binary runs generated batches (mixed generated projects, repeated and
// distinct lines, exact duplicates, shuffled orders, concurrency 1…16, GOMAXPROCS ∈ {1,2,16}, with
// and without scheduling pressure, cold cache = solo process, warm cache = later lines of one
// session); the SHA-256 of every result file is compared with the solo run of the same line.
// Sessions mixing parameter folders (added / missing soil textures and fertilisers, other crop, N and
// hydraulic tables), per-project automan and output configurations and projects without optional
// input files: every conflict pair in both orders at concurrency 1 and 2, random mixes, each line
// compared with its solo run (kern_dispatch_session.go) — anything derived from such a table and kept
// for the session shows as a line whose outcome or files depend on what ran before it.
// Thorough tier: the same with a `-race` build; the race detector's output must be empty.
// Correspondence: the real FilePool against the pool model (dispatch.pool), the summary of the real
// binary against the model dispatcher run under a random schedule (dispatch.run).
// Proof obligations discharged by regenerated facts: c03_expect.go.

import (
	"fmt"
	"os"
	"path/filepath"
	"sort"
	"strconv"
	"strings"
	"sync"
	"time"

	"github.com/zalf-rpm/Hermes2Go/hermes"

	"verifharness/proj"
	"verifharness/vh"
)

func init() { register("C03", checkC03) }

// c03Lines builds the projects of one root and the distinct batch lines over them.
// Every distinct line owns its own result files (distinct poligonID), so that solo baselines exist
// per line; exact duplicates of a line appear when a batch draws it twice.
func c03Projects(r *vh.Rng, n int) []*proj.Project {
	ps := make([]*proj.Project, n)
	for i := range ps {
		ps[i] = genShortProject(r.Fork(), fmt.Sprintf("d%d", i))
	}
	return ps
}

func c03Lines(r *vh.Rng, ps []*proj.Project) []*batchLine {
	var ls []*batchLine
	for i, p := range ps {
		ls = append(ls, &batchLine{Key: p.Name, Args: p.BatchArgs(), Class: "valid"})
		// same inputs, other output id (a "repeated line" that owns its own files)
		a := append([]string{}, p.BatchArgs()...)
		for k := range a {
			if strings.HasPrefix(a[k], "poligonID=") {
				a[k] = "poligonID=R" + p.Name
			}
		}
		ls = append(ls, &batchLine{Key: p.Name + "/rep", Args: a, Class: "valid"})
		if i%2 == 0 {
			// same project with the second parameter folder (same base names, different content)
			b := append([]string{}, p.BatchArgs()...)
			for k := range b {
				if strings.HasPrefix(b[k], "poligonID=") {
					b[k] = "poligonID=V" + p.Name
				}
			}
			b = append(b, "parameter=parameter2")
			ls = append(ls, &batchLine{Key: p.Name + "/par2", Args: b, Class: "valid"})
		}
		if i%3 == 1 {
			// command-line override of a configuration value
			b := append([]string{}, p.BatchArgs()...)
			for k := range b {
				if strings.HasPrefix(b[k], "poligonID=") {
					b[k] = "poligonID=L" + p.Name
				}
			}
			b = append(b, "Latitude="+strconv.Itoa(r.Range(36, 64)), "NDeposition="+strconv.Itoa(r.Range(0, 50)))
			ls = append(ls, &batchLine{Key: p.Name + "/cfg", Args: b, Class: "valid"})
		}
	}
	return ls
}

// parameter2Edit: different hydraulic table (field capacity of every texture raised by 1 vol-%
// in the first density column) and different fertiliser table.
func parameter2Edit(file string, b []byte) []byte {
	switch file {
	case "HYPAR.TRU":
		lines := strings.Split(string(b), "\n")
		for i, ln := range lines {
			if i == 0 || len(ln) < 34 {
				continue
			}
			if v, err := strconv.Atoi(strings.TrimSpace(ln[4:6])); err == nil && v > 0 && v < 98 {
				lines[i] = ln[:4] + fmt.Sprintf("%2d", v+1) + ln[6:]
			}
		}
		return []byte(strings.Join(lines, "\n"))
	}
	return b
}

func writeRoot(c *vh.Ctx, root string, ps []*proj.Project) error {
	for _, p := range ps {
		if err := p.Write(root, c.Repo); err != nil {
			return err
		}
	}
	return variantParameterFolder(root, c.Repo, "parameter2", parameter2Edit)
}

type c03Batch struct {
	idx      int
	lines    []*batchLine
	conc     int
	procs    int
	pressure bool
	race     bool
	out      *batchOutcome
}

func (b *c03Batch) describe() map[string]interface{} {
	ls := make([]string, len(b.lines))
	for i, l := range b.lines {
		ls[i] = l.Text()
	}
	return map[string]interface{}{"batch_lines": ls, "concurrent": b.conc, "GOMAXPROCS": b.procs, "sched_pressure": b.pressure, "race_build": b.race,
		"how": "write the generated projects (replay.projects) with proj.Write, put batch_lines into a file in the root (replay.batch_file_quoted is the file as written: separators, line ends and empty lines vary), start replay.command (`hermes2go -module batch -batch <file> [-workingdir <root>] -concurrent <n>`, options in any order) in the root and compare the sha256 of every file below project/*/RESULT with the run of each line alone"}
}

func checkC03(c *vh.Ctx) {
	bin, err := c.BuildTool("hermes2go")
	if err != nil {
		c.Violate("correspondence", "build:hermes2go", err.Error(), nil)
		return
	}
	raceBin := ""
	if c.Thorough() {
		raceBin, err = c.BuildTool("hermes2go", "-race")
		if err != nil {
			c.Violate("correspondence", "build:hermes2go-race", err.Error(), nil)
			raceBin = ""
		}
	}
	c.Res.Rule = "every batch (lines drawn with repetition from the distinct lines of the generated projects, shuffled, concurrency 1..16, GOMAXPROCS in {1,2,16}, scheduling pressure on/off, normal and -race build in the thorough tier): sha256 of every result file == sha256 of the solo run of the same line, file set == union of the lines' own files, inputs unchanged, race detector silent; sessions mixing parameter folders / per-project tables / absent optional files: every conflict pair in both orders at concurrency 1 and 2 plus random mixes, outcome (success / reported error and message) and files of every line == its solo run; every batch file in a drawn shape (blank / tab / several blanks between the tokens, leading and trailing blanks, LF / CRLF / mixed line ends, empty lines, with and without final newline) and every command line in a drawn option order (-workingdir given or implied by the batch file's folder, absolute or relative batch path, -logoutput); extra key=value arguments on the command line (0, 2, 3, 9, 10 of them at concurrency 1, 2, 3, 8), runs described by arguments only, -module single with project/modinp.txt (with and without -locid), -lines N and -lines a-end: files == the same line alone through a one-line batch file with the same extra arguments; lines using resultfolder= / gwId= / soilId= / fileExtension= / no poligonID: files == those of the equivalent line that describes the same run without the key; evaluations = (batch, line) pairs + pool and dispatcher correspondence cases; distinct = distinct (line key, concurrency, GOMAXPROCS, pressure, build) combinations"

	batchStyleSeed = c.Seed // shape of every batch file and command line: kern_dispatch_cmdline.go
	checkConcurrencyFacts(c)
	poolCorrespondence(c)
	rerunStage(c, bin, "C03")     // the same line gives the same files whatever an earlier run left in the result folder
	cmdlineStage(c, bin, raceBin) // extra arguments on the command line, runs from arguments only, single mode, -lines N / a-end

	// ---------------------------------------------------------------- projects, roots, solo runs
	nProj := c.N(8, 14)
	nRoots := c.N(4, 8)
	ps := c03Projects(c.Rng, nProj)
	lines := c03Lines(c.Rng, ps)
	roots := make([]string, nRoots)
	for i := range roots {
		roots[i] = filepath.Join(c.Scratch, fmt.Sprintf("root%d", i))
		if err := writeRoot(c, roots[i], ps); err != nil {
			c.Violate("correspondence", "harness:write-project", err.Error(), nil)
			return
		}
	}
	projJSON := func() interface{} { return ps }
	inputs0 := inputSnapshot(roots[0])
	t0 := time.Now()
	// solo runs: each line alone, in parallel over the roots (a line's baseline is taken in one root;
	// all roots have identical inputs)
	{
		parts := make([][]*batchLine, nRoots)
		for i, l := range lines {
			parts[i%nRoots] = append(parts[i%nRoots], l)
		}
		vh.Parallel(nRoots, nRoots, func(i int) { soloRuns(bin, roots[i], parts[i], 60*time.Second) })
	}
	c.Res.Extra["solo_wall_s"] = time.Since(t0).Seconds()
	okLines := lines[:0:0]
	for _, l := range lines {
		if strings.HasPrefix(l.SoloErr, "BADSUMMARY") {
			c.Violate("search", "batch:summary-count", fmt.Sprintf("a batch of one valid line ends without a consistent summary (%s): its result was not collected", l.SoloErr),
				map[string]interface{}{"batch_line": l.Text(), "projects": projJSON()})
			return
		}
		if l.SoloErr != "" || len(l.Solo) == 0 {
			// the generator is supposed to produce valid projects; a line that fails alone is no
			// subject of C03 (C11 covers failing lines) — counted, not used
			c.Count("solo:unusable")
			c.Note("line %q not usable as a C03 baseline: solo run: %s (%d files) [%s]", l.Text(), l.SoloErr, len(l.Solo), l.SoloHow)
			continue
		}
		okLines = append(okLines, l)
	}
	if len(okLines) < 4 {
		c.Violate("correspondence", "harness:too-few-valid-lines", fmt.Sprintf("only %d of %d generated lines run alone without error", len(okLines), len(lines)), nil)
		return
	}
	// determinism of the solo run itself (same line, second cold process)
	{
		again := make([]*batchLine, 0, 4)
		for i := 0; i < 4 && i < len(okLines); i++ {
			l := okLines[c.Rng.Intn(len(okLines))]
			again = append(again, &batchLine{Key: l.Key, Args: l.Args, Class: l.Class})
		}
		for i, l := range again {
			soloRuns(bin, roots[i%nRoots], []*batchLine{l}, 60*time.Second)
		}
		for _, l := range again {
			var ref *batchLine
			for _, o := range okLines {
				if o.Key == l.Key {
					ref = o
				}
			}
			c.Eval()
			for f, h := range ref.Solo {
				if l.Solo[f] != h {
					c.Violate("search", "solo:nondeterministic", fmt.Sprintf("two solo runs of the same line differ in %s", f),
						map[string]interface{}{"line": l.Text(), "file": f, "projects": projJSON()})
				}
			}
		}
	}

	// ---------------------------------------------------------------- batches
	nBatch := c.N(96, 240)
	batches := make([]*c03Batch, nBatch)
	for i := range batches {
		r := c.Rng
		n := r.Range(2, c.N(20, 40))
		b := &c03Batch{idx: i}
		switch i % 4 {
		case 0: // a permutation of all distinct lines
			perm := append([]*batchLine{}, okLines...)
			for k := len(perm) - 1; k > 0; k-- {
				j := r.Intn(k + 1)
				perm[k], perm[j] = perm[j], perm[k]
			}
			b.lines = perm
		case 1: // few distinct lines repeated many times (exact duplicates: same files written again)
			a, d := okLines[r.Intn(len(okLines))], okLines[r.Intn(len(okLines))]
			for k := 0; k < n; k++ {
				if r.Chance(0.5) {
					b.lines = append(b.lines, a)
				} else {
					b.lines = append(b.lines, d)
				}
			}
		default:
			for k := 0; k < n; k++ {
				b.lines = append(b.lines, okLines[r.Intn(len(okLines))])
			}
		}
		b.conc = []int{1, 2, 3, 4, 5, 8, 12, 16}[r.Intn(8)]
		if i < 16 {
			b.conc = i + 1 // every level 1..16 at least once
		}
		b.procs = []int{1, 2, 16}[i%3]
		b.pressure = i%5 == 2
		b.race = raceBin != "" && i%2 == 0
		batches[i] = b
	}
	t0 = time.Now()
	var mu sync.Mutex
	rootFree := make(chan string, nRoots)
	for _, r := range roots {
		rootFree <- r
	}
	vh.Parallel(nBatch, nRoots, func(i int) {
		b := batches[i]
		root := <-rootFree
		defer func() { rootFree <- root }()
		cleanResults(root)
		use := bin
		to := 120 * time.Second
		if b.race {
			use = raceBin
			to = 600 * time.Second
		}
		var env []string
		if b.pressure {
			env = append(env, "VERIF_SCHED_PRESSURE=1")
		}
		if b.race {
			env = append(env, "GORACE=halt_on_error=0")
		}
		o := runBatch(use, root, b.lines, b.conc, b.procs, env, to, fmt.Sprintf("b%d", i))
		mu.Lock()
		b.out = o
		mu.Unlock()
	})
	c.Res.Extra["batch_wall_s"] = time.Since(t0).Seconds()

	var cases, impl []string
	for _, b := range batches {
		o := b.out
		build := "normal"
		if b.race {
			build = "race"
		}
		c.Count(fmt.Sprintf("conc:%d", b.conc))
		c.Count(fmt.Sprintf("procs:%d", b.procs))
		c.Count("build:" + build)
		if b.pressure {
			c.Count("pressure:on")
		}
		countBatchShape(c, o)
		payload := b.describe()
		payload["projects"] = projJSON()
		payload["stdout_tail"] = tail(o.Stdout, 1500)
		payload["stderr_tail"] = tail(o.Stderr, 3000)
		payload["command"], payload["batch_file_quoted"], payload["batch_file_shape"] = o.Cmd, strconv.Quote(o.BatchText), o.BatchShape
		for _, l := range b.lines {
			c.Eval()
			c.Nontrivial(fmt.Sprintf("%s|c%d|p%d|s%v|%s", l.Key, b.conc, b.procs, b.pressure, build))
		}
		if strings.Contains(o.Stderr, "DATA RACE") {
			c.Violate("search", "race:"+raceSignature(o.Stderr), "the race detector reports a data race between concurrent runs of one session: "+raceSummary(o.Stderr), payload)
		}
		if o.TimedOut {
			c.Violate("search", "batch:timeout", fmt.Sprintf("batch of %d valid lines at concurrency %d did not terminate in time", len(b.lines), b.conc), payload)
			continue
		}
		if !o.SummaryOK || !o.Finished {
			if !strings.Contains(o.Stderr, "DATA RACE") || o.Err != nil && !strings.Contains(o.Err.Error(), "exit status 66") {
				c.Violate("search", "batch:died", fmt.Sprintf("batch of valid lines died: %v: %s", o.Err, firstLineDsp(o.Stderr)), payload)
			}
			continue
		}
		if !o.HeaderSeen {
			c.Violate("search", "batch:summary-count", "no `Error Summary:` header although lines were executed: no result was collected", payload)
		}
		if len(o.ErrIDs) != 0 || o.Count != 0 {
			c.Violate("search", "batch:valid-line-failed", fmt.Sprintf("lines that succeed alone fail in the batch: ids %v (%s)", o.ErrIDs, o.ErrMsg[firstOr(o.ErrIDs)]), payload)
		}
		missing, differs, foreign := compareWithSolo(o, b.lines, nil)
		if len(differs) > 0 {
			payload["differing_files"] = differs
			c.Violate("search", "result:differs-from-solo:"+fileKind(differs[0]), fmt.Sprintf("%d result file(s) of the batch differ from the solo run of the same line, first %s (concurrency %d, GOMAXPROCS %d)", len(differs), differs[0], b.conc, b.procs), payload)
		}
		if len(missing) > 0 {
			payload["missing_files"] = missing
			c.Violate("search", "result:missing:"+fileKind(missing[0]), fmt.Sprintf("%d result file(s) written by the solo run are missing after the batch, first %s", len(missing), missing[0]), payload)
		}
		if len(foreign) > 0 {
			payload["foreign_files"] = foreign
			c.Violate("search", "result:foreign-file", fmt.Sprintf("the batch wrote %d file(s) no line writes alone, first %s", len(foreign), foreign[0]), payload)
		}
		// dispatcher correspondence: nothing fails, every line finishes → model under a random schedule
		cases = append(cases, dispatchCase(c.Rng, len(b.lines), b.conc, 0, 0, nil))
		impl = append(impl, fmt.Sprintf("finished %d errors [] count 0", len(b.lines)))
	}
	for i, root := range roots {
		now := inputSnapshot(root)
		for f, h := range inputs0 {
			if now[f] != h {
				c.Violate("search", "inputs:modified", fmt.Sprintf("input file %s of root %d changed during the runs", f, i), map[string]interface{}{"file": f, "projects": projJSON()})
				break
			}
		}
	}
	// ---------------------------------------------------------------- sessions mixing parameter folders,
	// per-project tables and projects without optional files (kern_dispatch_session.go)
	{
		cs, im := runSessionScenario(c, bin, raceBin, c.N(3, 6), c.N(12, 40))
		cases = append(cases, cs...)
		impl = append(impl, im...)
	}
	saved := cases
	c.Correspond("dispatch.run", cases, impl, 0, 0, func(i int) interface{} { return saved[i] })
	if len(batches) > 0 && batches[0].out != nil {
		b := batches[0]
		c.Sample(map[string]interface{}{"lines": len(b.lines), "concurrent": b.conc, "GOMAXPROCS": b.procs, "files_compared": len(b.out.Files), "wall_ms": b.out.Wall.Milliseconds()})
		b = batches[len(batches)-1]
		c.Sample(map[string]interface{}{"lines": len(b.lines), "concurrent": b.conc, "GOMAXPROCS": b.procs, "files_compared": len(b.out.Files), "wall_ms": b.out.Wall.Milliseconds(), "first_line": b.lines[0].Text()})
	}
	aliasColumnStage(c) // header-name readers on files with two spellings of one quantity (c03_readers.go)
	c.Res.Extra["distinct_lines"] = len(okLines)
	c.Res.Extra["observed_only"] = "data-race freedom under the Go memory model and the scheduler's real interleavings are observed (race detector, GOMAXPROCS, scheduling pressure), not proved"
}

func firstOr(xs []int) int {
	if len(xs) > 0 {
		return xs[0]
	}
	return -1
}

// fileKind: first letter of the result file's base name (V daily, Y yearly, C crop, M management …).
func fileKind(rel string) string {
	b := filepath.Base(rel)
	if len(b) > 0 {
		return b[:1]
	}
	return "?"
}

// raceSignature names the two functions of the first race report.
func raceSignature(stderr string) string {
	var fns []string
	lines := strings.Split(stderr, "\n")
	for i, ln := range lines {
		t := strings.TrimSpace(ln)
		if (strings.HasPrefix(t, "Write at") || strings.HasPrefix(t, "Read at") || strings.HasPrefix(t, "Previous write at") || strings.HasPrefix(t, "Previous read at")) && i+1 < len(lines) {
			fn := strings.TrimSpace(lines[i+1])
			if k := strings.Index(fn, "("); k > 0 {
				fn = fn[:k]
			}
			if k := strings.LastIndex(fn, "/"); k >= 0 {
				fn = fn[k+1:]
			}
			fns = append(fns, fn)
			if len(fns) == 2 {
				break
			}
		}
	}
	sort.Strings(fns)
	return strings.Join(fns, "+")
}

func raceSummary(stderr string) string {
	i := strings.Index(stderr, "WARNING: DATA RACE")
	if i < 0 {
		return ""
	}
	s := stderr[i:]
	if len(s) > 900 {
		s = s[:900]
	}
	return strings.ReplaceAll(s, "\n", " | ")
}

// dispatchCase renders a model-dispatcher case: n lines, concurrency, -lines window (start index,
// end line; 0 0 = all), the failing line indices, and a random schedule (choices are taken modulo
// the number of enabled transitions).
func dispatchCase(r *vh.Rng, n, conc, start, end int, failing []int) string {
	var sb strings.Builder
	fmt.Fprintf(&sb, "dispatch.run %d %d %d %d %d", n, conc, start, end, len(failing))
	for _, f := range failing {
		fmt.Fprintf(&sb, " %d", f)
	}
	steps := 4*n + 4
	fmt.Fprintf(&sb, " %d", steps)
	for i := 0; i < steps; i++ {
		fmt.Fprintf(&sb, " %d", r.Intn(97))
	}
	return sb.String()
}

// poolCorrespondence drives the real hermes.FilePool (concurrently, from goroutines, warm and cold)
// and the pool model with the same sequence of Get calls over a small immutable file system.
var poolUnlockedFact bool // set by checkConcurrencyFacts

func poolCorrespondence(c *vh.Ctx) {
	dir := filepath.Join(c.Scratch, "pool")
	nFiles := 6
	// same base name in different directories, different content
	paths := make([]string, nFiles)
	content := make([]int, nFiles)
	for i := range paths {
		d := filepath.Join(dir, fmt.Sprintf("d%d", i%3))
		os.MkdirAll(d, 0o755)
		paths[i] = filepath.Join(d, fmt.Sprintf("f%d.txt", i/3))
		content[i] = 100 + c.Rng.Intn(900)
		os.WriteFile(paths[i], []byte(strconv.Itoa(content[i])), 0o644)
	}
	nCases := c.N(300, 3000)
	var cases, impl []string
	for k := 0; k < nCases; k++ {
		var pool hermes.FilePool
		n := c.Rng.Range(1, 24)
		seq := make([]int, n)
		for i := range seq {
			seq[i] = c.Rng.Intn(nFiles)
		}
		got := make([]string, n)
		workers := c.Rng.Range(1, 8)
		if poolUnlockedFact {
			// the regenerated facts say FilePool.list is touched outside the mutex: concurrent calls
			// would end this process with Go's unrecoverable "concurrent map read and map write";
			// the obligation is already reported (facts:pool-access-unlocked), the batches on the built
			// binary below exercise the concurrent case in a subprocess
			workers = 1
		}
		vh.Parallel(n, workers, func(i int) {
			b := pool.Get(&hermes.FileDescriptior{FilePath: paths[seq[i]], UseFilePool: true})
			got[i] = string(b)
		})
		if c.Rng.Chance(0.3) {
			pool.Close()
			b := pool.Get(&hermes.FileDescriptior{FilePath: paths[seq[0]], UseFilePool: true})
			if string(b) != got[0] {
				c.Violate("search", "pool:after-close", "FilePool.Get after Close returns other content than before", map[string]interface{}{"path": paths[seq[0]]})
			}
		}
		var sb strings.Builder
		fmt.Fprintf(&sb, "dispatch.pool %d", nFiles)
		for _, v := range content {
			fmt.Fprintf(&sb, " %d", v)
		}
		// prior cache state satisfying the invariant: a subset of the files already cached
		nPre := c.Rng.Intn(nFiles)
		fmt.Fprintf(&sb, " %d", nPre)
		for i := 0; i < nPre; i++ {
			fmt.Fprintf(&sb, " %d", c.Rng.Intn(nFiles))
		}
		fmt.Fprintf(&sb, " %d", n)
		for _, s := range seq {
			fmt.Fprintf(&sb, " %d", s)
		}
		cases = append(cases, sb.String())
		impl = append(impl, strings.Join(got, " "))
		c.Eval()
		for i, s := range seq {
			if got[i] != strconv.Itoa(content[s]) {
				c.Violate("search", "pool:wrong-content", fmt.Sprintf("FilePool.Get(%s) returned %q, the file holds %d", paths[s], got[i], content[s]), map[string]interface{}{"paths": paths, "sequence": seq})
			}
		}
	}
	saved := cases
	c.Correspond("dispatch.pool", cases, impl, 0, 0, func(i int) interface{} { return saved[i] })
}
