/-
C10 — Scheduled management actions take effect exactly once, on time, in full.
Model: HermesModel/Schedule.lean (readers of the fertiliser / tillage / irrigation files and `dueng` in
input.go after the fixes C10-1 … C10-3; nitro.go:56-69, 245-281; run.go:451-465; water.go:477,505).

Reading of the property recorded here:
* "scheduled inside the simulated period" = line of the simulated field dated on or after the start
  day whose execution day is not after the last simulated day;
* slot 0 of the fertiliser array is the residue input of the pre-crop dated BEGINN: it is applied on
  BEGINN+1 and is not a scheduled action;
* the code executes fertiliser and tillage on the day after the date (nitro.go:58, 245), the property
  allows "at most one day after"; irrigation on its date.
Exactly once / in order / never early / pre-start ignored are proved for EVERY file. "At most one day
late" is violated by the unchanged design (one fertilisation / tillage per day): a fertiliser dated on
the start day meets the residue slot, an event that follows a same-day pair (or another pushed event)
without a free day in between is pushed behind it. There the negation is proved on concrete witnesses
(`…_fails_at`) and the on-time statement is kept as `…_on_time_partial` with the excluded schedules as
a decidable hypothesis (`spaced`: after a same-day pair the next event of the kind is at least two days
later; fertiliser: no event on the start day itself). Known finding D.
-/
import HermesProofs.Schedule
import HermesProofs.RatInst
import Mathlib.Tactic.Ring
import Mathlib.Tactic.FieldSimp

namespace Hermes.Schedule

/-! ### reading: events before the start and lines of other fields are ignored -/

/-- For every file (any order, any number of fields): the slots filled by the fertiliser / tillage
reader, and the irrigation events kept once the start is known, are exactly the lines of the simulated
field dated on or after the start day, in file order. -/
theorem C10_prestart_ignored (beginn : Nat) (ls : List Ev) :
    (read beginn ls).kept = inPeriod beginn ls ∧ irrKept beginn ls = inPeriod beginn ls ∧
    ∀ e ∈ (read beginn ls).kept, e.own = true ∧ beginn ≤ e.date := by
  refine ⟨read_kept beginn ls, irrKept_eq beginn ls, ?_⟩
  intro e he
  rw [read_kept] at he
  have := (List.mem_filter.mp he).2
  simpa using this

/-! ### the cursor: exactly once, in order, on the execution day -/

/-- Any cursor over an array whose pending cells hold strictly ascending execution days inside or after
the period (followed by an unwritten cell) fires, over the days `b … b+n-1`, exactly the cells whose day
lies in the period: each once, in array order, each on its day — for every length of the schedule and
of the run. -/
theorem C10_applied_exactly_once_in_order (ds good : List Nat) (k b n : Nat) (hb : 0 < b)
    (hdrop : ds.drop k = good) (hasc : good.Pairwise (· < ·)) (hge : ∀ d ∈ good, b ≤ d) :
    runCursor ds k (daysFrom b n) = (good.takeWhile (fun d => decide (d < b + n))).zipIdx k :=
  runCursor_spec ds n k b good [] (by simpa using hdrop) hasc hge (by simpa using hb)

/-- the tillage cursor without a standing automatic-harvest crop is the plain cursor over `EINTE+1` -/
theorem runTillage_eq_runCursor (einte : List Nat) : ∀ (days : List Nat) (k : Nat), (∀ z ∈ days, 1 < z) →
    runTillage (fun _ => false) k einte days = runCursor (tilExecDays einte) k days := by
  intro days
  induction days with
  | nil => intro k _; simp [runTillage, runCursor]
  | cons z r ih =>
    intro k hz
    have hz1 : 1 < z := hz z (by simp)
    have hr : ∀ y ∈ r, 1 < y := fun y hy => hz y (by simp [hy])
    have key : (z = einte.getD k 0 + 1) ↔ (z = (tilExecDays einte).getD k 0) := by
      unfold tilExecDays
      by_cases hk : k < einte.length
      · simp [List.getD_eq_getElem?_getD, hk]
      · have hk' : einte.length ≤ k := Nat.le_of_not_lt hk
        simp [List.getD_eq_getElem?_getD, hk']
        omega
    simp only [runTillage, runCursor, Bool.and_false, Bool.false_eq_true, if_false]
    by_cases h : z = einte.getD k 0 + 1
    · rw [if_pos h, if_pos (key.mp h), ih (k + 1) hr]
    · rw [if_neg h, if_neg (fun h' => h (key.mpr h')), ih k hr]

theorem daysFrom_gt (b : Nat) : ∀ (n : Nat) (c : Nat), c < b → ∀ z ∈ daysFrom b n, c < z := by
  intro n
  induction n generalizing b with
  | zero => intro c _ z hz; simp [daysFrom] at hz
  | succ n ih =>
    intro c hc z hz
    simp only [daysFrom, List.mem_cons] at hz
    rcases hz with rfl | hz
    · exact hc
    · exact ih (b + 1) c (by omega) z hz

/-- Fertiliser — exactly once, in order, never early, for EVERY file (any number of lines and fields, any
order, any number of events per day, lines before the start): over the days `b … b+n-1` the executions
are slot 0 (pre-crop residues) on `b+1` and then the in-period lines of the field in file order, each once,
on the day after its slot date, exactly those whose execution day is in the period; and no slot date is
before the date of its line. -/
theorem C10_fertiliser_exactly_once_in_order (b n : Nat) (ls : List Ev) (hb : 1 < b) :
    runCursor (fertExecDays (fertDates b ls)) 0 (daysFrom b n) =
      (((b + 1) :: (shiftFrom b ((inPeriod b ls).map (·.date))).map (· + 1)).takeWhile
        (fun d => decide (d < b + n))).zipIdx 0 ∧
    List.Forall₂ (· ≤ ·) ((inPeriod b ls).map (·.date)) (shiftFrom b ((inPeriod b ls).map (·.date))) := by
  refine ⟨?_, shiftFrom_ge _ b⟩
  obtain ⟨hp, hx⟩ := shiftFrom_strict ((inPeriod b ls).map (·.date)) b
  have hdates : fertDates b ls = b :: (shiftFrom b ((inPeriod b ls).map (·.date)) ++ [0]) := by
    unfold fertDates keptDates
    rw [read_kept]
  rw [hdates]
  apply runCursor_spec _ n 0 b _ [1]
  · simp [fertExecDays]
  · refine List.pairwise_cons.mpr ⟨?_, map_succ_pairwise hp⟩
    intro x hx'
    obtain ⟨y, hy, rfl⟩ := List.mem_map.mp hx'
    have := hx y hy
    omega
  · intro d hd
    rcases List.mem_cons.mp hd with rfl | hd
    · omega
    · obtain ⟨y, hy, rfl⟩ := List.mem_map.mp hd
      have := hx y hy
      omega
  · simpa using hb

/-- Fertiliser — on time, partial: on well-spaced schedules without an event on the start day the slot date
is the date of the line, one day later for the second of a same-day pair (execution on date+1 / date+2). -/
theorem C10_fertiliser_on_time_partial (b : Nat) (ls : List Ev)
    (_hstart : ∀ d ∈ (inPeriod b ls).map (·.date), b < d)
    (hsp : spaced b false ((inPeriod b ls).map (·.date)) = true) :
    shiftFrom b ((inPeriod b ls).map (·.date)) = expectShift b ((inPeriod b ls).map (·.date)) := by
  have := shiftFrom_spaced _ b false hsp
  simpa using this

/-- Tillage — exactly once, in order, never early, for EVERY file, with fixed harvest dates (no
postponement): the in-period lines are executed in file order, each once, on the day after its slot date. -/
theorem C10_tillage_exactly_once_in_order (b n : Nat) (ls : List Ev) (hb : 1 < b) :
    runTillage (fun _ => false) 0 (tilDates b ls) (daysFrom b n) =
      (((shiftList ((inPeriod b ls).map (·.date))).map (· + 1)).takeWhile
        (fun d => decide (d < b + n))).zipIdx 0 ∧
    List.Forall₂ (· ≤ ·) ((inPeriod b ls).map (·.date)) (shiftList ((inPeriod b ls).map (·.date))) := by
  have hge : ∀ d ∈ (inPeriod b ls).map (·.date), b ≤ d := by
    intro d hd
    obtain ⟨e, he, rfl⟩ := List.mem_map.mp hd
    have := (List.mem_filter.mp he).2
    simp only [Bool.and_eq_true, decide_eq_true_eq] at this
    exact this.2
  obtain ⟨hp, hx, hf⟩ := shiftList_strict _ b hge
  refine ⟨?_, hf⟩
  rw [runTillage_eq_runCursor _ _ _ (daysFrom_gt b n 1 hb)]
  have hdates : tilDates b ls = shiftList ((inPeriod b ls).map (·.date)) ++ [0] := by
    unfold tilDates keptDates
    rw [read_kept]
  rw [hdates]
  apply runCursor_spec _ n 0 b _ [1]
  · simp [tilExecDays]
  · exact map_succ_pairwise hp
  · intro d hd
    obtain ⟨y, hy, rfl⟩ := List.mem_map.mp hd
    have := hx y hy
    omega
  · simpa using hb

/-- Tillage — on time, partial: on well-spaced schedules the slot date is the date of the line, one day
later for the second of a same-day pair. -/
theorem C10_tillage_on_time_partial (b : Nat) (ls : List Ev) (hb : 0 < b)
    (hsp : spaced 0 false ((inPeriod b ls).map (·.date)) = true) :
    shiftList ((inPeriod b ls).map (·.date)) = expectShift 0 ((inPeriod b ls).map (·.date)) := by
  have hge : ∀ d ∈ (inPeriod b ls).map (·.date), b ≤ d := by
    intro d hd
    obtain ⟨e, he, rfl⟩ := List.mem_map.mp hd
    have := (List.mem_filter.mp he).2
    simp only [Bool.and_eq_true, decide_eq_true_eq] at this
    exact this.2
  have hs := shiftFrom_spaced _ 0 false hsp
  simp only [Bool.false_eq_true, if_false] at hs
  rw [← hs]
  cases hl : (inPeriod b ls).map (·.date) with
  | nil => simp [shiftList, shiftFrom]
  | cons d r =>
    have hd : b ≤ d := hge d (by rw [hl]; simp)
    have hd0 : ¬ d ≤ 0 := by omega
    simp [shiftList, shiftFrom, hd0]

/-- Irrigation — exactly once, in order, on its date, pre-start lines ignored: for every file whose
in-period lines of the field are strictly ascending (at most one irrigation per day), whatever lies before
the start or belongs to other fields. -/
theorem C10_irrigation_exactly_once_on_its_date (b n : Nat) (ls : List Ev) (hb : 0 < b)
    (hasc : ((inPeriod b ls).map (·.date)).Pairwise (· < ·)) :
    runCursor (irrDates b ls) 0 (daysFrom b n) =
      (((inPeriod b ls).map (·.date)).takeWhile (fun d => decide (d < b + n))).zipIdx 0 := by
  have hd : irrDates b ls = (inPeriod b ls).map (·.date) := by
    unfold irrDates
    rw [irrKept_eq]
  rw [hd]
  apply C10_applied_exactly_once_in_order _ _ 0 b n hb (by simp) hasc
  intro d hd'
  obtain ⟨e, he, rfl⟩ := List.mem_map.mp hd'
  have := (List.mem_filter.mp he).2
  simp only [Bool.and_eq_true, decide_eq_true_eq] at this
  exact this.2

/-! ### "at most one day late" fails where the one-action-per-day design pushes an event (known finding D) -/

/-- A fertiliser dated on the start day meets slot 0 (the residues of the pre-crop, dated BEGINN), is moved
behind it and applied two days after its date. -/
theorem C10_fertiliser_on_start_day_two_days_late_fails_at :
    runCursor (fertExecDays (fertDates 100 [⟨true, 100, 0⟩])) 0 (daysFrom 100 30) = [(101, 0), (102, 1)] := by
  decide

/-- An event on the day after a same-day pair is pushed behind the pair and executed two days after its date. -/
theorem C10_fertiliser_after_pair_two_days_late_fails_at :
    runCursor (fertExecDays (fertDates 100 [⟨true, 110, 0⟩, ⟨true, 110, 1⟩, ⟨true, 111, 2⟩])) 0 (daysFrom 100 30)
      = [(101, 0), (111, 1), (112, 2), (113, 3)] := by
  decide

/-- the same for tillage -/
theorem C10_tillage_after_pair_two_days_late_fails_at :
    runTillage (fun _ => false) 0 (tilDates 100 [⟨true, 110, 0⟩, ⟨true, 110, 1⟩, ⟨true, 111, 2⟩]) (daysFrom 100 30)
      = [(111, 0), (112, 1), (113, 2)] := by
  decide

/-! ### in full: amounts -/

/-- The fertiliser step adds exactly the split to the pools: ΔNFOS₁ = NSAS, ΔNAOS₁ = NLAS,
ΔDSUMM = NDIR, ΔNH4Sum = NH4N. -/
theorem C10_fertiliser_amounts_enter_pools (nfos naos dsumm nh4 : ℚ) (s : FertSplit ℚ) :
    let r := applyFert nfos naos dsumm nh4 s
    r.1 - nfos = s.nsas ∧ r.2.1 - naos = s.nlas ∧ r.2.2.1 - dsumm = s.ndir ∧ r.2.2.2 - nh4 = s.nh4n := by
  simp [applyFert]

/-- The split is the table row × quantity × global factor: with N = quantity·factor·Ntot,
mineral N = N·Ndir·(1 − NH4·Loss), ammonium N = N·Ndir·NH4·(1 − Loss), fast / slow organic N =
(N − mineral N)·Nfst / ·Nslo. -/
theorem C10_fertiliser_amounts_from_table (q f : ℚ) (t : FertRow ℚ) :
    let s := dueng q f t
    s.ndir = q * f * t.ntot * t.ndir * (1 - t.nh4 * t.loss) ∧
    s.nh4n = q * f * t.ntot * t.ndir * t.nh4 * (1 - t.loss) ∧
    s.nsas = (q * f * t.ntot - s.ndir) * t.nfst ∧
    s.nlas = (q * f * t.ntot - s.ndir) * t.nslo := by
  simp only [dueng]
  refine ⟨?_, ?_, ?_, ?_⟩ <;> first | trivial | rfl | ring

/-- Nothing of the applied N is lost in the split when the organic shares add up to one. -/
theorem C10_fertiliser_total_conserved (q f : ℚ) (t : FertRow ℚ) (h : t.nfst + t.nslo = 1) :
    (dueng q f t).ndir + (dueng q f t).nsas + (dueng q f t).nlas = q * f * t.ntot := by
  have : t.nslo = 1 - t.nfst := by linarith
  simp only [dueng, this]
  ring

/-- The irrigation water (mm/10 = cm) is in the rain of the day when `Evatra` computes the flux through
the soil surface: FLUSS0 = rain + irrigation − evaporation. -/
theorem C10_irrigation_enters_infiltration (regen breg eta : ℚ) :
    (irrigate regen breg).1 = breg / 10 ∧
    (irrigate regen breg).2 = regen + breg / 10 ∧
    fluss0 eta (irrigate regen breg).2 = regen + breg / 10 - eta := by
  have h10 : ((10.0 : ℚ)) = 10 := by norm_num
  refine ⟨?_, ?_, ?_⟩
  · simp only [irrigate, h10]
  · simp only [irrigate, h10]
  · simp only [irrigate, fluss0, h10]; ring

/-! ### non-vacuity -/
example : spaced 100 false [103, 103, 105, 106, 120, 120] = true := by decide
example : expectShift 100 [103, 103, 105, 106, 120, 120] = [103, 104, 105, 106, 120, 121] := by decide
example : fertDates 100 [⟨true, 90, 0⟩, ⟨false, 150, 1⟩, ⟨true, 103, 2⟩, ⟨true, 103, 3⟩] = [100, 103, 104, 0] := by decide
example : fertDates 100 [⟨true, 110, 0⟩, ⟨true, 110, 1⟩, ⟨true, 111, 2⟩, ⟨true, 111, 3⟩, ⟨true, 120, 4⟩]
    = [100, 110, 111, 112, 113, 120, 0] := by decide
example : tilDates 100 [⟨true, 99, 0⟩] = [0] := by decide
example : runCursor (fertExecDays [100, 103, 104, 0]) 0 (daysFrom 100 10) = [(101, 0), (104, 1), (105, 2)] := by decide
example : irrDates 100 [⟨true, 95, 0⟩, ⟨false, 7, 1⟩, ⟨true, 105, 2⟩] = [105] := by decide
example : runCursor (irrDates 100 [⟨true, 95, 0⟩, ⟨true, 101, 1⟩, ⟨true, 105, 2⟩]) 0 (daysFrom 100 10) = [(101, 0), (105, 1)] := by decide
example : (dueng (100 : ℚ) 1 ⟨0.6, 0.15, 0.2, 0.8, 1, 0.4⟩).ndir = 5.4 := by norm_num [dueng]

end Hermes.Schedule
