package main

// Translator for the pure scalar functions of the repository (regenerated-model tie, DESIGN §4.3):
// a Go function whose parameters and results are all float64 and whose body consists of assignments to
// local variables / named results, `if … { return … }` chains and returns is translated, on every run,
// into a Lean definition that is polymorphic over the arithmetic exactly like the hand-written models
// (lean/HermesModel/Generated/PureKernels.lean).  Lean then proves, over ℚ, that the hand-written model of
// each function equals its translation (HermesProofs/SourceTie.lean, by `ring` after unfolding — so a harmless
// re-association of the source still checks, a changed coefficient, term or argument does not), and the
// property theorems are restated about the translated code.
//
// Supported: + − * /, unary minus, parentheses, float and integer literals (integers become float
// literals, as Go's untyped constants do in a float expression), identifiers, math.Pow(x, 2) and
// math.Pow(x, 3) (x*x and x*(x*x): exactly what Go's Pow computes for these exponents), comparisons
// < and > in `if` conditions.  Anything else is a translation failure, reported as a failed extraction.

import (
	"bytes"
	"fmt"
	"go/ast"
	"go/token"
	"os"
	"path/filepath"
	"strings"
)

func init() { registerExtractor(extractPureKernels) }

type pureFn struct{ file, name string }

var pureKernels = []pureFn{
	{"hermes/input.go", "PTF1"}, {"hermes/input.go", "PTF2"}, {"hermes/input.go", "PTF3"}, {"hermes/input.go", "PTF4"},
	{"hermes/solar.go", "Limit"},
}

type trErr struct{ msg string }

func trFail(format string, a ...interface{}) { panic(trErr{fmt.Sprintf(format, a...)}) }

func trLit(b *ast.BasicLit) string {
	v := b.Value
	switch b.Kind {
	case token.INT:
		return v + ".0"
	case token.FLOAT:
		if strings.HasPrefix(v, ".") {
			v = "0" + v
		}
		if strings.HasSuffix(v, ".") {
			v += "0"
		}
		if strings.ContainsAny(v, "xXpP_") {
			trFail("float literal %s", v)
		}
		return v
	}
	trFail("literal %s", v)
	return ""
}

func trExpr(e ast.Expr) string {
	switch x := e.(type) {
	case *ast.BasicLit:
		return trLit(x)
	case *ast.Ident:
		return x.Name
	case *ast.ParenExpr:
		return trExpr(x.X)
	case *ast.UnaryExpr:
		if x.Op == token.SUB {
			return "(-" + trExpr(x.X) + ")"
		}
		if x.Op == token.ADD {
			return trExpr(x.X)
		}
	case *ast.BinaryExpr:
		op := map[token.Token]string{token.ADD: "+", token.SUB: "-", token.MUL: "*", token.QUO: "/"}[x.Op]
		if op != "" {
			return "(" + trExpr(x.X) + " " + op + " " + trExpr(x.Y) + ")"
		}
	case *ast.CallExpr:
		if exprString(x.Fun) == "math.Pow" && len(x.Args) == 2 {
			if lit, ok := x.Args[1].(*ast.BasicLit); ok {
				switch lit.Value {
				case "2", "2.0":
					return "(pow2 " + trExpr(x.Args[0]) + ")"
				case "3", "3.0":
					return "(pow3 " + trExpr(x.Args[0]) + ")"
				}
			}
		}
	}
	trFail("expression %s", exprString(e))
	return ""
}

func trCond(e ast.Expr) string {
	if p, ok := e.(*ast.ParenExpr); ok {
		return trCond(p.X)
	}
	if b, ok := e.(*ast.BinaryExpr); ok {
		switch b.Op {
		case token.LSS:
			return trExpr(b.X) + " < " + trExpr(b.Y)
		case token.GTR:
			return trExpr(b.Y) + " < " + trExpr(b.X)
		}
	}
	trFail("condition %s", exprString(e))
	return ""
}

// trBlock translates stmts followed by `rest` (nil = end of function) into one Lean expression.
func trBlock(stmts []ast.Stmt, results []string, ind string) string {
	if len(stmts) == 0 {
		trFail("control reaches the end of the function without a return")
	}
	s, rest := stmts[0], stmts[1:]
	switch x := s.(type) {
	case *ast.AssignStmt:
		if len(x.Lhs) != 1 || len(x.Rhs) != 1 {
			trFail("multiple assignment")
		}
		id, ok := x.Lhs[0].(*ast.Ident)
		if !ok {
			trFail("assignment to %s", exprString(x.Lhs[0]))
		}
		rhs := trExpr(x.Rhs[0])
		switch x.Tok {
		case token.DEFINE, token.ASSIGN:
		case token.ADD_ASSIGN:
			rhs = "(" + id.Name + " + " + rhs + ")"
		case token.SUB_ASSIGN:
			rhs = "(" + id.Name + " - " + rhs + ")"
		case token.MUL_ASSIGN:
			rhs = "(" + id.Name + " * " + rhs + ")"
		case token.QUO_ASSIGN:
			rhs = "(" + id.Name + " / " + rhs + ")"
		default:
			trFail("assignment operator %s", x.Tok)
		}
		if len(rest) == 0 {
			trFail("function ends with an assignment")
		}
		return ind + "let " + id.Name + " : α := " + rhs + "\n" + trBlock(rest, results, ind)
	case *ast.ReturnStmt:
		var vals []string
		if len(x.Results) == 0 {
			if len(results) == 0 {
				trFail("naked return without named results")
			}
			vals = results
		} else {
			for _, r := range x.Results {
				vals = append(vals, trExpr(r))
			}
		}
		if len(vals) == 1 {
			return ind + vals[0]
		}
		return ind + "(" + strings.Join(vals, ", ") + ")"
	case *ast.IfStmt:
		if x.Init != nil {
			trFail("if with init statement")
		}
		var elseStmts []ast.Stmt
		switch el := x.Else.(type) {
		case nil:
			elseStmts = rest
		case *ast.BlockStmt:
			elseStmts = append(append([]ast.Stmt{}, el.List...), rest...)
		case *ast.IfStmt:
			elseStmts = append([]ast.Stmt{el}, rest...)
		}
		thenStmts := append(append([]ast.Stmt{}, x.Body.List...), rest...)
		return ind + "if " + trCond(x.Cond) + " then\n" + trBlock(thenStmts, results, ind+"  ") + "\n" + ind + "else\n" + trBlock(elseStmts, results, ind+"  ")
	case *ast.DeclStmt, *ast.ExprStmt:
		trFail("statement %T", s)
	}
	trFail("statement %T", s)
	return ""
}

func translatePure(fd *ast.FuncDecl) (lean string, err error) {
	defer func() {
		if r := recover(); r != nil {
			if te, ok := r.(trErr); ok {
				err = fmt.Errorf("%s: not in the translatable subset: %s", fd.Name.Name, te.msg)
				return
			}
			panic(r)
		}
	}()
	if fd.Recv != nil {
		trFail("method")
	}
	var params, results []string
	for _, f := range fd.Type.Params.List {
		if exprString(f.Type) != "float64" {
			trFail("parameter type %s", exprString(f.Type))
		}
		for _, n := range f.Names {
			params = append(params, n.Name)
		}
	}
	nres := 0
	if fd.Type.Results != nil {
		for _, f := range fd.Type.Results.List {
			if exprString(f.Type) != "float64" {
				trFail("result type %s", exprString(f.Type))
			}
			if len(f.Names) == 0 {
				nres++
			}
			for _, n := range f.Names {
				results = append(results, n.Name)
				nres++
			}
		}
	}
	if nres == 0 {
		trFail("no result")
	}
	ty := "α"
	for i := 1; i < nres; i++ {
		ty += " × α"
	}
	body := ""
	// named results start at zero (only read before assignment in odd code; give them their Go value)
	for _, r := range results {
		body += "  let " + r + " : α := 0.0\n"
	}
	body += trBlock(fd.Body.List, results, "  ")
	return fmt.Sprintf("/-- %s (translated from the Go source) -/\ndef %s (%s : α) : %s :=\n%s\n", fd.Name.Name, fd.Name.Name, strings.Join(params, " "), ty, body), nil
}

func extractPureKernels(repo, outDir string, fc *facts) {
	var b bytes.Buffer
	b.WriteString("/- GENERATED by harness/cmd/extract (translate_facts.go) from the Go source of /repo — do not edit.\n   Lean translation of the pure scalar functions; tied to the hand-written models in HermesProofs/SourceTie.lean. -/\n")
	b.WriteString("namespace Hermes.Generated.Src\n\nsection\nvariable {α : Type} [Add α] [Sub α] [Mul α] [Div α] [Neg α] [LT α] [DecidableLT α] [OfScientific α]\n\n")
	b.WriteString("/-- `math.Pow(x, 2)` -/\ndef pow2 (x : α) : α := x * x\n/-- `math.Pow(x, 3)` -/\ndef pow3 (x : α) : α := x * (x * x)\n\n")
	var names []string
	files := map[string]*ast.File{}
	for _, k := range pureKernels {
		f, ok := files[k.file]
		if !ok {
			f = parseFile(filepath.Join(repo, k.file))
			files[k.file] = f
		}
		fd := findFunc(f, k.name)
		if fd == nil || fd.Body == nil {
			fmt.Printf("translate: func %s not found in %s\n", k.name, k.file)
			os.Exit(1)
		}
		lean, err := translatePure(fd)
		if err != nil {
			fmt.Println("translate:", err)
			os.Exit(1)
		}
		b.WriteString(lean + "\n")
		names = append(names, k.file+":"+k.name)
	}
	b.WriteString("end\n\nend Hermes.Generated.Src\n")
	if outDir != "" {
		writeIfChanged(filepath.Join(outDir, "PureKernels.lean"), b.Bytes())
	}
	fc.Strs["translated.pure_kernels"] = names
}
