import HermesModel.Calendar
import HermesModel.Proto
import HermesModel.Partition
import HermesModel.Generated.Facts
