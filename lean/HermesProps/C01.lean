/-
C01 — Soil water mass balance closes on every simulated day.
Model: HermesModel/Water.lean (one call of `Water`, hermes/water.go:797-987).  The theorems are
exact-arithmetic statements over ℚ for every number of layers, every state and every sub-step
length; round-off is measured by the search stage of the check, not assumed.
-/
import HermesProofs.Water
import HermesProofs.Substeps
namespace Hermes.Water

/-- Storage after one `Water` call, in cm of water: Σ WG1·dz. -/
def storage (dz : ℚ) (wg : List ℚ) : ℚ := (wg.map (· * dz)).sum

/-- **Sub-step balance.** For every well-formed state (any number of layers ≥ 1, no sign or range
hypothesis on any quantity), one call of the water routine changes the stored water by exactly:
surface flux (rain + irrigation − evaporation, `FLUSS0·wdt`) − root uptake (after the availability
limit) − flux through the lower boundary `Q1[N]` (percolation > 0, capillary/groundwater supply < 0)
− drain outflow. -/
theorem C01_water_step_balance (i : In ℚ) (n : ℕ) (h : WF i n) (hdz : i.dz ≠ 0) :
    storage i.dz (step i).wg1 =
      storage i.dz i.wg - i.wdt * (step i).tp.sum + i.fluss0 * i.wdt
        - (step i).q1.getLastD 0 - (step i).qdrain := by
  obtain ⟨hu1, hu2, hu3⟩ := phaseUptake_spec i n h
  obtain ⟨hs1, hs2, hs3⟩ := phaseSurface_spec i n h (phaseUptake i).2 hu2
  obtain ⟨ho1, ho2, ho3⟩ := phaseOverflow_spec i n h (phaseSurface i (phaseUptake i).2) hs1 hs2
  obtain ⟨hc1, hc2, hc3⟩ := phaseCapillary_spec i n h _ _ ho1 ho2
  have hpos := h.pos
  have hst : storage i.dz (step i).wg1
      = (phaseCapillary i (phaseOverflow i (phaseSurface i (phaseUptake i).2)).1
          (phaseOverflow i (phaseSurface i (phaseUptake i).2)).2.1).1.sum := by
    unfold storage step
    simp only [List.map_map]
    congr 1
    rw [List.map_congr_left (g := id)]
    · simp
    · intro a _; simp [Function.comp]; field_simp
  have hq : (step i).q1.getLastD 0
      = (phaseCapillary i (phaseOverflow i (phaseSurface i (phaseUptake i).2)).1
          (phaseOverflow i (phaseSurface i (phaseUptake i).2)).2.1).2.getLastD 0 := by
    unfold step
    simp only [List.getLastD_cons]
    apply getLastD_irrel
    intro hh; rw [hh] at hc2; simp at hc2; omega
  rw [hst, hq]
  have : (step i).tp = (phaseUptake i).1 := rfl
  rw [this]
  have : (step i).qdrain = (phaseSurface i (phaseUptake i).2).qdrain := rfl
  rw [this]
  unfold storage
  linarith

/-- **Reported quantities.** The percolation and capillary counters together grow by ten times the
flux through the leaching depth minus the groundwater uptake term, the drain counter by ten times
the drain flux (cm → mm). -/
theorem C01_water_reported_fluxes (i : In ℚ) :
    (step i).dSicker + (step i).dCapsum = 10 * ((step i).q1.getD i.outn 0) - 10 * i.gwauf * i.wdt ∧
    (step i).dDraisum = 10 * (step i).qdrain := by
  unfold step
  simp only
  constructor
  · split <;> ring
  · ring

/-- **Day balance for any number of sub-steps.** `day` iterates the water routine, feeding the new
water contents back as the next sub-step's start (as run.go:582-583 does). The storage change over
the whole list of sub-steps is the sum of the per-sub-step terms — whatever the number of
sub-steps and their lengths. -/
noncomputable def dayRun : List (In ℚ) → List ℚ → List (Out ℚ)
  | [], _ => []
  | i :: rest, wg =>
    let o := step { i with wg := wg }
    o :: dayRun rest o.wg1

noncomputable def dayFinal : List (In ℚ) → List ℚ → List ℚ
  | [], wg => wg
  | i :: rest, wg => dayFinal rest (step { i with wg := wg }).wg1

theorem step_wg1_length (i : In ℚ) (n : ℕ) (h : WF i n) : (step i).wg1.length = n := by
  obtain ⟨_, hu2, _⟩ := phaseUptake_spec i n h
  obtain ⟨hs1, hs2, _⟩ := phaseSurface_spec i n h (phaseUptake i).2 hu2
  obtain ⟨ho1, ho2, _⟩ := phaseOverflow_spec i n h (phaseSurface i (phaseUptake i).2) hs1 hs2
  obtain ⟨hc1, _, _⟩ := phaseCapillary_spec i n h _ _ ho1 ho2
  unfold step; simpa using hc1

theorem C01_water_day_balance (n : ℕ) (dz : ℚ) (hdz : dz ≠ 0) :
    ∀ (subs : List (In ℚ)) (wg : List ℚ), wg.length = n →
      (∀ i ∈ subs, ∀ wg', wg'.length = n → WF { i with wg := wg' } n) → (∀ i ∈ subs, i.dz = dz) →
      storage dz (dayFinal subs wg) =
        storage dz wg +
          ((dayRun subs wg).zip subs).foldr
            (fun p acc => acc + (p.2.fluss0 * p.2.wdt - p.2.wdt * p.1.tp.sum - p.1.q1.getLastD 0 - p.1.qdrain)) 0 := by
  intro subs
  induction subs with
  | nil => intro wg _ _ _; simp [dayFinal, dayRun]
  | cons i rest ih =>
    intro wg hl hwf hdzs
    have hwf1 := hwf i (by simp) wg hl
    have hd : i.dz = dz := hdzs i (by simp)
    subst hd
    have hb := C01_water_step_balance { i with wg := wg } n hwf1 hdz
    have hlen := step_wg1_length { i with wg := wg } n hwf1
    have := ih (step { i with wg := wg }).wg1 hlen (fun j hj => hwf j (by simp [hj])) (fun j hj => hdzs j (by simp [hj]))
    simp only [dayFinal, dayRun, List.zip_cons_cons, List.foldr_cons]
    rw [this, hb]
    ring

/-- **The sub-steps cover exactly the day.** For every soil state, rain depth and surface flux the
adaptive selection of run.go:494-524,576-581 yields `STEPS ≥ 1` sub-steps of length `WDT` with
`STEPS · WDT = 1` in exact arithmetic: no part of the day's fluxes is dropped or applied twice.
(In floating point `round(1/(1/n))` is evaluated by the driver and compared with the probe stream
of real runs; the truncating variant of the original code lost one sub-step for n = 93, 99, … and
was repaired.) -/
theorem C01_substeps_cover_day (i : SubIn ℚ) :
    1 ≤ (substeps i).2 ∧ ((substeps i).2 : ℚ) * (substeps i).1 = 1 := by
  have hz := one_le_zsrOf i
  have hc := ceil_pos_of_one_le _ hz
  unfold substeps
  simp only
  split
  · rename_i hlt
    have hcz : (0 : ℤ) ≤ ⌈zsrOf i⌉ := by
      have : (0 : ℚ) ≤ ((⌈zsrOf i⌉ : ℤ) : ℚ) := by linarith
      exact_mod_cast this
    have hce : (Conv.ceil (zsrOf i) : ℚ) = ((⌈zsrOf i⌉ : ℤ) : ℚ) := rfl
    have hinv : (1 : ℚ) / (1 / Conv.ceil (zsrOf i)) = ((⌈zsrOf i⌉ : ℤ) : ℚ) := by
      rw [hce]; field_simp
    simp only [hinv, roundNat_int _ hcz]
    have hnat : ((⌈zsrOf i⌉.toNat : ℕ) : ℚ) = ((⌈zsrOf i⌉ : ℤ) : ℚ) := by
      have := Int.toNat_of_nonneg hcz
      exact_mod_cast this
    constructor
    · have : (1 : ℚ) ≤ ((⌈zsrOf i⌉.toNat : ℕ) : ℚ) := by rw [hnat]; exact hc
      exact_mod_cast this
    · rw [hnat, hce]; field_simp
  · simp

/-- **Equal sub-steps.** With `n` sub-steps of equal length `wdt`, `n · wdt = 1`, and the same
surface flux in each of them, the surface term of the day balance is the whole day's surface flux
(rain + irrigation − actual evaporation). -/
theorem C01_equal_substeps_surface (n : ℕ) (wdt fluss0 : ℚ) (h : (n : ℚ) * wdt = 1) :
    ((List.replicate n (fluss0 * wdt)).sum) = fluss0 := by
  rw [List.sum_replicate, nsmul_eq_mul]
  calc (n : ℚ) * (fluss0 * wdt) = fluss0 * ((n : ℚ) * wdt) := by ring
    _ = fluss0 := by rw [h]; ring

/-! ### non-vacuity: a concrete well-formed state (two layers, heavy rain, drain in layer 1) -/

noncomputable def exampleIn : In ℚ :=
  { dz := 10, wdt := 1 / 2, first := true, fluss0 := 3, wg := [0.30, 0.25], tp := [0.02, 0.01],
    w := [0.32, 0.30], wmin := [0.10, 0.12], ev := [0, 0], evTail := 0, nfk := [0.9, 0.6],
    caps := List.replicate 21 0.1, grw := 4, draidep := 1, draifak := 0.5, outn := 2, gwauf := 0, q0prev := 0 }

example : WF exampleIn 2 := by constructor <;> simp [exampleIn]

end Hermes.Water
