/-
Helper lemmas for the weather / day-loop models (used by HermesProps/C04.lean).
Core Lean only.
-/
import HermesModel.Weather
import HermesModel.DayLoop
import HermesProofs.Calendar
namespace Hermes.Weather
open Hermes.Calendar Hermes.DayLoop

/-- days of the calendar year 1900 + j (1901 … 2099) -/
def diy (j : Nat) : Nat := if j % 4 = 0 then 366 else 365

theorem diy_pos (j : Nat) : 1 ≤ diy j := by unfold diy; split <;> omega

theorem masdat_jan1 (j : Nat) : masdat j 1 1 = (j - 1) * 365 + (j - 1) / 4 + 1 := by
  simp [masdat, monthOffset_jan]

theorem masdat_next_year (j : Nat) (hj : 1 ≤ j) : masdat (j + 1) 1 1 = masdat j 1 1 + diy j := by
  rw [masdat_jan1, masdat_jan1]; unfold diy; split <;> omega

/-- Every day of the year is the day-of-year of exactly one valid date, whose day number is the
day number of 1 January plus the day of the year minus one. -/
theorem date_of_doy (j d : Nat) (hj1 : 1 ≤ j) (hj2 : j ≤ 199) (hd1 : 1 ≤ d) (hd2 : d ≤ diy j) :
    ∃ mon tg, ValidDate j mon tg ∧ ztdat j mon tg = d ∧ masdat j mon tg + 1 = masdat j 1 1 + d := by
  have hm1 : 1 ≤ masdat j 1 1 + d - 1 := by rw [masdat_jan1]; omega
  have hm2 : masdat j 1 1 + d - 1 ≤ 72684 := by
    rw [masdat_jan1]; unfold diy at hd2; split at hd2 <;> omega
  obtain ⟨yr, mon, tg, hv, hm⟩ := masdat_surj _ hm1 hm2
  obtain ⟨hy1, hy2, hmo1, hmo2, ht1, ht2⟩ := hv
  have hb := doy_bound yr mon tg hmo1 hmo2 ht1 ht2
  have hyr : yr = j := by
    rw [masdat_jan1] at hm
    unfold masdat at hm
    unfold diy at hd2
    obtain ⟨hb1, hb2⟩ := hb
    split at hd2 <;> split at hb2 <;> omega
  subst hyr
  refine ⟨mon, tg, ⟨hy1, hy2, hmo1, hmo2, ht1, ht2⟩, ?_, ?_⟩
  · rw [masdat_jan1] at hm; unfold masdat at hm; unfold ztdat; omega
  · omega

/-- in 1901 … 2099 the Gregorian year length is the multiple-of-four rule -/
theorem daysInYear_eq_diy (j : Nat) (h1 : 1 ≤ j) (h2 : j ≤ 199) : daysInYear (1900 + j) = diy j := by
  unfold daysInYear diy
  split <;> split <;> omega

/-! ### the day loop -/

theorem applyLoad_some {π : Type} {st st' : DState π} {cap : Nat} (h : applyLoad st cap = some st') :
    st'.zeit = st.zeit ∧ st'.tagNum = st.tagNum ∧ st'.j = st.j := by
  unfold applyLoad at h
  split at h
  · simp only [Option.some.injEq] at h; subst h; exact ⟨rfl, rfl, rfl⟩
  · simp at h

theorem reload_some {π : Type} {src : Source π} {st st' : DState π} (h : reload src st = some st') :
    st'.zeit = st.zeit ∧ st'.tagNum = st.tagNum ∧ st'.j = st.j := by
  unfold reload at h
  cases src with
  | multi cap => exact applyLoad_some h
  | perYear files =>
    simp only at h
    split at h
    · exact applyLoad_some (st := { st with store := (readYearFile (1900 + st.j) st.store (files (1900 + st.j))).1 }) h
    · simp at h

/-- the counters (ZEIT, TAG, J) after one pass that returned no error -/
theorem advanceDay_some {π : Type} {src : Source π} {st st' : DState π} (h : advanceDay src st = some st') :
    st'.zeit = st.zeit ∧
    ((st.tagNum + 1 > st.jtag ∧ ¬ st.jtag < daysInYear (1900 + st.j) ∧ st'.j = st.j + 1 ∧ st'.tagNum = 1) ∨
     (¬ st.tagNum + 1 > st.jtag ∧ st'.j = st.j ∧ st'.tagNum = st.tagNum + 1)) := by
  unfold advanceDay at h
  simp only at h
  by_cases h1 : st.tagNum + 1 > st.jtag
  · rw [if_pos h1] at h
    by_cases h2 : st.jtag < daysInYear (1900 + st.j)
    · rw [if_pos h2] at h; simp at h
    · rw [if_neg h2] at h
      obtain ⟨a, b, c⟩ := reload_some h
      exact ⟨a, Or.inl ⟨h1, h2, c, b⟩⟩
  · rw [if_neg h1] at h
    by_cases h3 : st.tagNum + 1 = 1
    · rw [if_pos h3] at h
      obtain ⟨a, b, c⟩ := reload_some h
      exact ⟨a, Or.inr ⟨h1, c, b⟩⟩
    · rw [if_neg h3] at h
      simp only [Option.some.injEq] at h; subst h
      exact ⟨rfl, Or.inr ⟨h1, rfl, rfl⟩⟩

/-- ZEIT and J of the state the loop is entered with -/
theorem initState_fields {π : Type} {src : Source π} {store : Store π} {anjahr beginn itag : Nat} {st : DState π}
    (hs : initState src store anjahr beginn itag = some st) : st.zeit = beginn ∧ st.j = anjahr - 1900 := by
  unfold initState at hs
  simp only at hs
  split at hs
  · simp at hs
  · rename_i st1 hr
    simp only [Option.some.injEq] at hs
    obtain ⟨a, _, c⟩ := reload_some hr
    subst hs
    exact ⟨a, c⟩

/-- state before a pass: yesterday's day of the year; no loaded year longer than its calendar year -/
def LockPre {π : Type} (st : DState π) : Prop :=
  st.zeit = masdat st.j 1 1 + st.tagNum ∧ st.tagNum ≤ diy st.j ∧ st.jtag ≤ diy st.j ∧ 1 ≤ st.j ∧ st.j ≤ 199

/-- a simulated day in step with the calendar -/
def InStep {π : Type} (d : DayOut π) : Prop :=
  d.zeit + 1 = masdat d.j 1 1 + d.tagNum ∧ 1 ≤ d.tagNum ∧ d.tagNum ≤ diy d.j ∧ 1 ≤ d.j

theorem advanceDay_inStep {π : Type} (src : Source π) (st st' : DState π) (h : LockPre st)
    (hs : advanceDay src st = some st') : InStep (dayOut st') := by
  obtain ⟨hz, ht, hjt, hj1, hj2⟩ := h
  obtain ⟨e1, e2⟩ := advanceDay_some hs
  unfold InStep dayOut
  simp only
  rcases e2 with ⟨hgt, hfull, ej, et⟩ | ⟨hle, ej, et⟩
  · rw [daysInYear_eq_diy st.j hj1 hj2] at hfull
    rw [e1, ej, et, masdat_next_year st.j hj1]
    have := diy_pos (st.j + 1)
    omega
  · rw [e1, ej, et]; omega

theorem lockstep_run {π : Type} (src : Source π) (n : Nat) :
    ∀ (st : DState π) (days : List (DayOut π)), runDays src n st = some days → LockPre st →
      (∀ d ∈ days, d.jtag ≤ diy d.j ∧ d.j ≤ 199) → ∀ d ∈ days, InStep d := by
  induction n with
  | zero =>
    intro st days hr _ _ d hd
    simp [runDays] at hr; subst hr; simp at hd
  | succ k ih =>
    intro st days hr h hb d hd
    simp only [runDays] at hr
    split at hr
    · simp at hr
    · rename_i st1 hadv
      split at hr
      · simp at hr
      · rename_i ds hrest
        simp only [Option.some.injEq] at hr
        subst hr
        have hs := advanceDay_inStep src st st1 h hadv
        rcases List.mem_cons.mp hd with hde | hd'
        · rw [hde]; exact hs
        · have hb0 := hb (dayOut st1) (List.mem_cons_self ..)
          obtain ⟨a, b, c, e⟩ := hs
          simp only [dayOut] at hb0 a b c e
          refine ih _ ds hrest ⟨?_, ?_, ?_, ?_, ?_⟩ (fun d' hd'' => hb d' (List.mem_cons_of_mem _ hd'')) d hd'
          · simp only; omega
          · simp only; omega
          · simp only; exact hb0.1
          · simp only; exact e
          · simp only; exact hb0.2

/-! ### normalisation, pointwise -/

/-- the month factor check over every date of a representative year (1 = 1901, 4 = 1904) -/
def precoOk (y : Nat) (leap : Bool) : Bool :=
  (List.range 13).all fun mon => (List.range 32).all fun tg =>
    !(1 ≤ mon && 1 ≤ tg && tg ≤ daysInMonth y mon) || corrMonth (corrDoy leap (ztdat y mon tg)) == mon - 1

theorem precoOk_nonleap : precoOk 1 false = true := by decide
theorem precoOk_leap : precoOk 4 true = true := by decide

theorem preco_rep (yr mon tg : Nat) (h : ValidDate yr mon tg) (leap : Bool)
    (hk : precoOk (rep yr) leap = true) : corrMonth (corrDoy leap (ztdat yr mon tg)) = mon - 1 := by
  obtain ⟨hy1, hy2, hm1, hm2, ht1, ht2⟩ := h
  have e1 : ztdat yr mon tg = ztdat (rep yr) mon tg := by
    unfold ztdat; rw [monthOffset_rep yr mon]
  have e2 : daysInMonth yr mon = daysInMonth (rep yr) mon := daysInMonth_rep yr mon
  have ht31 : tg < 32 := by
    have : daysInMonth (rep yr) mon ≤ 31 := by unfold daysInMonth; split <;> (try split) <;> omega
    omega
  unfold precoOk at hk
  rw [List.all_eq_true] at hk
  have h1 := hk mon (by simp; omega)
  rw [List.all_eq_true] at h1
  have h2 := h1 tg (by simp; omega)
  rw [e2] at ht2
  simp [hm1, ht1, ht2] at h2
  rw [e1]; exact h2

/-- the factor handed out for a date is the factor of its month, leap years included -/
theorem preco_month (yr mon tg : Nat) (h : ValidDate yr mon tg) :
    corrMonth (corrDoy (daysInYear (1900 + yr) == 366) (ztdat yr mon tg)) = mon - 1 := by
  have hy := h.1
  have hy2 := h.2.1
  rw [daysInYear_eq_diy yr hy hy2]
  by_cases hl : yr % 4 = 0
  · have hr : rep yr = 4 := by unfold rep; simp [hl]
    have : (diy yr == 366) = true := by unfold diy; simp [hl]
    rw [this]; exact preco_rep yr mon tg h true (by rw [hr]; exact precoOk_leap)
  · have hr : rep yr = 1 := by unfold rep; simp [hl]
    have : (diy yr == 366) = false := by unfold diy; simp [hl]
    rw [this]; exact preco_rep yr mon tg h false (by rw [hr]; exact precoOk_nonleap)

theorem corrMonth_lt (T : Nat) : corrMonth T < 12 := by
  unfold corrMonth; repeat' split
  all_goals omega

end Hermes.Weather
