package main

// Batch-line keys that make one project folder serve several runs (run.go:54-75): lines of the session
// scenario (C03 / C11) that use them, each next to the plain line of the same project so that both meet
// in one session in every order.
//
//   resultfolder=out/<dir>   result files into another folder (two projects share one such folder)
//   gwId=GX1                 groundwater series of another id out of the project's series file
//   soilId=S02               another profile of the project's soil file than the polygon file names
//   fileExtension=alt        crop_<p>.alt, poly_<p>.alt, automan.alt instead of the .txt files
//   no poligonID             result files named by the plot number alone
//
// Besides what every line of the scenario is checked for (outcome and files equal to its solo run in
// every session), each of these lines has an EQUIVALENT line that describes the same run without the
// key: a second project whose own soil profile / groundwater series / rotation file is the selected
// one, or the same line writing into the default folder. The result files of the two must be equal
// byte for byte (the file names differ, the contents carry no project or output id).

import (
	"fmt"
	"os"
	"path/filepath"
	"sort"
	"strings"

	"verifharness/proj"
	"verifharness/vh"
)

type scEquiv struct {
	A, B  string // line keys
	Group string
	What  string
	Under string // when set: every result file of line A lies below this folder of the root
}

func readFileLines(path string) ([]string, error) {
	b, err := os.ReadFile(path)
	if err != nil {
		return nil, err
	}
	ls := strings.Split(string(b), "\n")
	if len(ls) > 0 && ls[len(ls)-1] == "" {
		ls = ls[:len(ls)-1]
	}
	return ls, nil
}

// mergeSoilProfile copies the profile rows of soil file `from` into soil file `into`, cell by cell under the
// header names of `into` (the two files may order their columns differently), before or after the rows
// already there.
func mergeSoilProfile(into, from string, before bool) error {
	a, err := readFileLines(into)
	if err != nil {
		return err
	}
	b, err := readFileLines(from)
	if err != nil {
		return err
	}
	if len(a) < 2 || len(b) < 2 {
		return fmt.Errorf("soil file without profile rows: %s / %s", into, from)
	}
	cr := strings.HasSuffix(a[0], "\r")
	split := func(s string) []string { return strings.Split(strings.TrimSuffix(s, "\r"), ",") }
	ha, hb := split(a[0]), split(b[0])
	col := map[string]int{}
	for i, h := range hb {
		col[h] = i
	}
	var rows []string
	for _, ln := range b[1:] {
		if strings.TrimSpace(ln) == "" {
			continue
		}
		cells := split(ln)
		out := make([]string, len(ha))
		for i, h := range ha {
			if k, ok := col[h]; ok && k < len(cells) {
				out[i] = cells[k]
			}
		}
		row := strings.Join(out, ",")
		if cr {
			row += "\r"
		}
		rows = append(rows, row)
	}
	var all []string
	all = append(all, a[0])
	if before {
		all = append(all, rows...)
		all = append(all, a[1:]...)
	} else {
		all = append(all, a[1:]...)
		all = append(all, rows...)
	}
	return os.WriteFile(into, []byte(strings.Join(all, "\n")+"\n"), 0o644)
}

// mergeSeries puts the records of series file `from`, renamed to id, between the records of `into`.
func mergeSeries(into, from, fromID, id string) error {
	a, err := readFileLines(into)
	if err != nil {
		return err
	}
	b, err := readFileLines(from)
	if err != nil {
		return err
	}
	if len(a) < 2 || len(b) < 2 {
		return fmt.Errorf("series file without records: %s / %s", into, from)
	}
	var rows []string
	for _, ln := range b[1:] {
		if strings.HasPrefix(ln, fromID) {
			rows = append(rows, id+ln[len(fromID):])
		}
	}
	all := []string{a[0]}
	own := a[1:]
	for len(rows) > 0 || len(own) > 0 { // interleaved, the other id first
		if len(rows) > 0 {
			all = append(all, rows[0])
			rows = rows[1:]
		}
		if len(own) > 0 {
			all = append(all, own[0])
			own = own[1:]
		}
	}
	return os.WriteFile(into, []byte(strings.Join(all, "\n")+"\n"), 0o644)
}

func copyFile(dst, src string) error {
	b, err := os.ReadFile(src)
	if err != nil {
		return err
	}
	return os.WriteFile(dst, b, 0o644)
}

func withCol(cols []string, c string) []string {
	for _, x := range cols {
		if x == c {
			return cols
		}
	}
	return append(cols, c)
}

func (sc *sessionScenario) addKeyLines(r *vh.Rng, add func(*proj.Project) *proj.Project,
	line func(p *proj.Project, key, group, expectFail string, extra ...string) *scLine, after func(func(root string) error)) {
	clone := func(p *proj.Project, name string) *proj.Project {
		q := cloneProject(p, name)
		sc.Projects = append(sc.Projects, q)
		return q
	}
	// ---- resultfolder=: the same run into another folder; a second project into the same folder
	rf := add(genWithCrop(r, "rf"))
	rfA := line(rf, "rf", "resultfolder-override", "")
	rfB := line(rf, "rf/out", "resultfolder-override", "", "resultfolder=out/shared")
	rg := add(genShortProject(r.Fork(), "rg"))
	rgB := line(rg, "rg/out", "resultfolder-override", "", "resultfolder=out/shared")
	sc.Pairs = append(sc.Pairs, []*scLine{rfA, rfB}, []*scLine{rfB, rgB, rfA})
	sc.Equiv = append(sc.Equiv, scEquiv{"rf/out", "rf", "resultfolder-override", "resultfolder=out/shared writes the files of the same run into another folder", "out/shared/"})

	// ---- gwId=: the series of another id out of the same file
	gs := add(genWithCrop(r, "gs"))
	gs.SetGroundwaterSeries(r, 4, 18, r.Range(4, 10))
	gs.DailyCols = withCol(gs.DailyCols, "GRW")
	gc := clone(gs, "gc")
	gc.SetGroundwaterSeries(r, 3, 14, r.Range(3, 9))
	gsA := line(gs, "gs", "gwid-override", "")
	gsB := line(gs, "gs/gwid", "gwid-override", "", "gwId=GX1")
	gcA := line(gc, "gc", "gwid-override", "")
	after(func(root string) error {
		return mergeSeries(filepath.Join(root, "project", "gs", "gw_gs.csv"), filepath.Join(root, "project", "gc", "gw_gc.csv"), gc.SoilID, "GX1")
	})
	sc.Pairs = append(sc.Pairs, []*scLine{gsA, gsB}, []*scLine{gsB, gcA, gsA})
	sc.Equiv = append(sc.Equiv, scEquiv{"gs/gwid", "gc", "gwid-override", "gwId=GX1 selects the groundwater series GX1 of the project's series file; project gc has that series under its own soil id", ""})

	// ---- soilId=: another profile of the same soil file
	so := add(genWithCrop(r, "so"))
	so.Cfg["GroundWaterFrom"] = "soilfile"
	so.GWSerie = nil
	so.Cfg["InitSelection"] = "1" // the initial values must not be keyed by the soil id (InitSelection 4): the two lines differ in it
	s2 := clone(so, "sc")
	s2.SoilID = "S02"
	for i := range s2.Soil {
		s2.Soil[i].Corg = vh.RoundTo(s2.Soil[i].Corg*0.5+0.05, 2)
	}
	if s2.RootDepth > 1 {
		s2.RootDepth--
	} else {
		s2.RootDepth++
	}
	if s2.GW > 30 {
		s2.GW = r.Range(6, 20)
	} else {
		s2.GW = 99
	}
	before := r.Chance(0.5)
	soA := line(so, "so", "soilid-override", "")
	soB := line(so, "so/s02", "soilid-override", "", "soilId=S02")
	scA := line(s2, "sc", "soilid-override", "")
	after(func(root string) error {
		return mergeSoilProfile(filepath.Join(root, "project", "so", "soil_so.csv"), filepath.Join(root, "project", "sc", "soil_sc.csv"), before)
	})
	sc.Pairs = append(sc.Pairs, []*scLine{soA, soB}, []*scLine{soB, scA, soA})
	sc.Equiv = append(sc.Equiv, scEquiv{"so/s02", "sc", "soilid-override", "soilId=S02 selects the second profile of the project's soil file; project sc has that profile as its only one", ""})

	// ---- GroundWaterFrom= on the line: the same project, soil file and soil id with another groundwater source (the parsed
	// soil profile depends on the source: with `soilfile` the table depth comes from the soil file, with `polygonfile` from the
	// polygon file); both orders in one session, each line against its solo run and against the project configured that way
	gq := add(genWithCrop(r, "gq"))
	gq.Cfg["GroundWaterFrom"] = "soilfile"
	gq.GWSerie = nil
	gq.GW = r.Range(8, 16)
	gq.GH, gq.GL = r.Range(3, 5), r.Range(6, 7)
	gq.DailyCols = withCol(gq.DailyCols, "GRW")
	gp := clone(gq, "gp")
	gp.Cfg["GroundWaterFrom"] = "polygonfile"
	gqA := line(gq, "gq", "groundwaterfrom-override", "")
	gqB := line(gq, "gq/poly", "groundwaterfrom-override", "", "GroundWaterFrom=0")
	gpA := line(gp, "gp", "groundwaterfrom-override", "")
	sc.Pairs = append(sc.Pairs, []*scLine{gqA, gqB}, []*scLine{gqB, gqA}, []*scLine{gqB, gpA, gqA})
	sc.Equiv = append(sc.Equiv, scEquiv{"gq/poly", "gp", "groundwaterfrom-override", "GroundWaterFrom=0 (= polygonfile) on the line takes the groundwater levels from the polygon file; project gp is configured that way", ""})

	// ---- user-defined crops (codes that are not in the built-in crop table; own PARAM.<code> files and CROP_N rows in a parameter
	// folder of their own): two projects grow the same two user-defined crops in opposite order, so the numbers the reader hands
	// out for them at first appearance differ between the runs of one session
	ux := add(func() *proj.Project {
		for {
			q := genWithCrop(r, "ux")
			if len(q.Rot) >= 3 && q.Rot[1].Crop != q.Rot[2].Crop {
				return q
			}
		}
	}())
	origA, origB := ux.Rot[1].Crop, ux.Rot[2].Crop
	for _, k := range []string{"AutoSowingHarvest", "AutoFertilization", "AutoIrrigation", "AutoHarvest"} {
		ux.Cfg[k] = "0"
	}
	ux.Cfg["CropParameterFormat"] = "txt"
	userCode := func(c string) string {
		switch c {
		case origA:
			return "UAA"
		case origB:
			return "UAB"
		}
		return c
	}
	for i := range ux.Rot {
		ux.Rot[i].Variety = ""
		if i >= 3 && ux.Rot[i].Crop != origA && ux.Rot[i].Crop != origB {
			ux.Rot[i].Crop = origA
		}
	}
	ux.Rot[0].Crop = origA
	uy := clone(ux, "uy")
	uy.Rot[0].Crop = origB
	uy.Rot[1].Crop, uy.Rot[2].Crop = origB, origA
	for _, q := range []*proj.Project{ux, uy} {
		for i := range q.Rot {
			q.Rot[i].Crop = userCode(q.Rot[i].Crop)
		}
	}
	uxA := line(ux, "ux", "user-defined-crops", "", "parameter=par_user")
	uyA := line(uy, "uy", "user-defined-crops", "", "parameter=par_user")
	after(func(root string) error {
		// a copy of the standard parameter folder of this root
		dir := filepath.Join(root, "par_user")
		if err := os.MkdirAll(dir, 0o755); err != nil {
			return err
		}
		ents, err := os.ReadDir(filepath.Join(root, "parameter"))
		if err != nil {
			return err
		}
		for _, e := range ents {
			if e.IsDir() {
				continue
			}
			if err := copyFile(filepath.Join(dir, e.Name()), filepath.Join(root, "parameter", e.Name())); err != nil {
				return err
			}
		}
		cn, err := os.ReadFile(filepath.Join(dir, "CROP_N.TXT"))
		if err != nil {
			return err
		}
		text := string(cn)
		for _, pr := range [][2]string{{origA, "UAA"}, {origB, "UAB"}} {
			if err := copyFile(filepath.Join(dir, "PARAM."+pr[1]), filepath.Join(dir, "PARAM."+pr[0])); err != nil {
				return err
			}
			for _, ln := range strings.Split(text, "\n") {
				if strings.HasPrefix(ln, pr[0]+" ") || (len(ln) > 3 && strings.TrimSpace(ln[:3]) == pr[0]) {
					text += pr[1] + ln[3:] + "\n"
					break
				}
			}
		}
		return os.WriteFile(filepath.Join(dir, "CROP_N.TXT"), []byte(text), 0o644)
	})
	sc.Pairs = append(sc.Pairs, []*scLine{uxA, uyA}, []*scLine{uyA, uxA}, []*scLine{uxA, uyA, uxA})

	// ---- fileExtension=: another rotation (and polygon, automan) file of the same project
	fe := add(genWithCrop(r, "fe"))
	if strings.Trim(fe.Cfg["CropFileFormat"], "\"") == "txt" {
		fc := clone(fe, "fc")
		for i := range fc.Rot {
			fc.Rot[i].Rex = (fc.Rot[i].Rex + 37) % 100
		}
		fc.Rot[0].Yld = 20 + (fc.Rot[0].Yld+25)%70
		feA := line(fe, "fe", "fileextension-override", "")
		feB := line(fe, "fe/alt", "fileextension-override", "", "fileExtension=alt")
		fcA := line(fc, "fc", "fileextension-override", "")
		after(func(root string) error {
			d := filepath.Join(root, "project", "fe")
			if err := copyFile(filepath.Join(d, "crop_fe.alt"), filepath.Join(root, "project", "fc", "crop_fc.txt")); err != nil {
				return err
			}
			if err := copyFile(filepath.Join(d, "poly_fe.alt"), filepath.Join(d, "poly_fe.txt")); err != nil {
				return err
			}
			return copyFile(filepath.Join(d, "automan.alt"), filepath.Join(d, "automan.txt"))
		})
		sc.Pairs = append(sc.Pairs, []*scLine{feA, feB}, []*scLine{feB, fcA, feA})
		sc.Equiv = append(sc.Equiv, scEquiv{"fe/alt", "fc", "fileextension-override", "fileExtension=alt reads crop_fe.alt / poly_fe.alt / automan.alt; project fc has that rotation as its crop_fc.txt", ""})
	}

	// ---- schedule files that hold their header only (no event, no closing "end" line): the readers stop at the end
	// of the file (helper.go NextLineInut); the same project with the files as Project.Write closes them is equivalent
	he := add(genWithCrop(r, "he"))
	he.Fert, he.Irr, he.Til = nil, nil, nil
	hf := clone(he, "hf")
	heA := line(he, "he", "schedule-files-header-only", "")
	hfA := line(hf, "hf", "schedule-files-header-only", "")
	after(func(root string) error {
		for _, f := range []string{"fert_he.txt", "irr_he.txt", "til_he.txt"} {
			path := filepath.Join(root, "project", "he", f)
			ls, err := readFileLines(path)
			if err != nil {
				return err
			}
			var keep []string
			for _, ln := range ls {
				if strings.TrimSpace(ln) != "end" {
					keep = append(keep, ln)
				}
			}
			if err := os.WriteFile(path, []byte(strings.Join(keep, "\n")+"\n"), 0o644); err != nil {
				return err
			}
		}
		return nil
	})
	sc.Pairs = append(sc.Pairs, []*scLine{heA, hfA})
	sc.Equiv = append(sc.Equiv, scEquiv{"he", "hf", "schedule-files-header-only", "fertiliser, irrigation and tillage files of project he hold their header lines only (no closing end line), those of project hf end with the end line; neither has an event", ""})

	// ---- no poligonID: files named by the plot number alone
	np := add(genShortProject(r.Fork(), "np"))
	npA := line(np, "np", "no-poligonid", "")
	npB := line(np, "np/noid", "no-poligonid", "")
	npB.Args = withoutKeys(npB.Args, "poligonID")
	sc.Pairs = append(sc.Pairs, []*scLine{npA, npB})
	sc.Equiv = append(sc.Equiv, scEquiv{"np/noid", "np", "no-poligonid", "a line without poligonID describes the same run, its files are named by the plot number alone", ""})
}

// kindsOf: result-file kind (first letter of the base name + extension) -> hash.
func kindsOf(l *batchLine) map[string]string {
	out := map[string]string{}
	for f, h := range l.Solo {
		out[fileKind(f)+filepath.Ext(f)] = h
	}
	return out
}

func (sc *sessionScenario) checkEquivalences(c *vh.Ctx, replayBase func() map[string]interface{}) {
	find := func(k string) *scLine {
		for _, l := range sc.Lines {
			if l.Key == k {
				return l
			}
		}
		return nil
	}
	for _, e := range sc.Equiv {
		a, b := find(e.A), find(e.B)
		if a == nil || b == nil || a.SoloErr != "" || b.SoloErr != "" {
			continue
		}
		c.Eval()
		c.Nontrivial("session-equivalent:" + e.A + "=" + e.B)
		ka, kb := kindsOf(a.batchLine), kindsOf(b.batchLine)
		var bad []string
		for k, h := range ka {
			if hb, ok := kb[k]; !ok {
				bad = append(bad, k+" (only written by "+e.A+")")
			} else if hb != h {
				bad = append(bad, k)
			}
		}
		for k := range kb {
			if _, ok := ka[k]; !ok {
				bad = append(bad, k+" (only written by "+e.B+")")
			}
		}
		if e.Under != "" {
			for _, f := range sortedKeysS(a.Solo) {
				if !strings.HasPrefix(filepath.ToSlash(f), e.Under) {
					bad = append(bad, f+" (not below "+e.Under+")")
				}
			}
		}
		sort.Strings(bad)
		if len(bad) > 0 {
			payload := replayBase()
			payload["batch_lines"] = []string{a.Text(), b.Text()}
			payload["files_of_first_line"] = sortedKeysS(a.Solo)
			payload["files_of_second_line"] = sortedKeysS(b.Solo)
			payload["differing_kinds"] = bad
			c.Violate("search", "session:key-line-differs-from-equivalent-line:"+e.Group, fmt.Sprintf("%s — but the result files of line %q differ from those of line %q (each run alone): %s", e.What, a.Text(), b.Text(), strings.Join(bad, ", ")), payload)
		} else {
			c.Count("session-equivalent:" + e.Group)
		}
		// the key must select something else than the plain line of the same project (otherwise nothing kept
		// for the session under the project's name could be seen)
		if plain := find(strings.SplitN(e.A, "/", 2)[0]); plain != nil && plain != b && plain != a && plain.SoloErr == "" {
			same := true
			kp := kindsOf(plain.batchLine)
			for k, h := range ka {
				if kp[k] != h {
					same = false
				}
			}
			if same {
				c.Note("scenario line %s gives the same result files as the plain line of its project (this pair cannot reveal a shared table)", e.A)
			} else {
				c.Count("session-variants-differ:" + e.A)
			}
		}
	}
}
