/-
hermes_driver — executes the Lean models on the cases the Go harness generated.
One case per input line, one answer per output line.  Core Lean only (no Mathlib), so that it
links as a `lean_exe`.
-/
import HermesModel.Proto
import HermesModel
import Driver.WaterOps
open Hermes Hermes.Proto

namespace Hermes.Driver

def dateOps (toks : List String) : String :=
  open Hermes.Calendar in
  match toks with
  | ["date.kal", m] =>
    match m.toNat? with
    | some m => match kalenderDate m with
      | some (y, mo, d) => s!"{y} {mo} {d}"
      | none => "err"
    | none => "bad-op"
  | ["date.render", f, sep, m] =>
    match f.toNat?, sep.toNat?, m.toNat? with
    | some f, some sep, some m =>
      let sepCs : List Char := if sep == 0 then [] else [Char.ofNat sep]
      match render (DateFormat.ofCode f) sepCs m with
      | some cs => String.ofList cs
      | none => "err"
    | _, _, _ => "bad-op"
  | ["date.parse", f, cent, txt] =>
    match f.toNat?, cent.toNat? with
    | some f, some cent =>
      match parse (DateFormat.ofCode f) cent txt.toList with
      | some (zt, mas) => s!"{zt} {mas}"
      | none => "err"
    | _, _ => "bad-op"
  | _ => "bad-op"

def chunksOf (k : Nat) (l : List Nat) : Nat → List (List Nat)
  | 0 => []
  | fuel + 1 => if l.isEmpty then [] else l.take k :: chunksOf k (l.drop k) fuel

def partOps (toks : List String) : String :=
  open Hermes.Partition in
  match toks with
  | ["part.size", l, n] =>
    match l.toNat?, n.toNat? with
    | some l, some n => toString (size l n)
    | _, _ => "bad-op"
  | ["part.list", l, n] =>
    match l.toNat?, n.toNat? with
    | some l, some n =>
      let rs := ranges l n
      if rs.isEmpty then "(empty)" else " ".intercalate (rs.map fun r => s!"{r.1}-{r.2}")
    | _, _ => "bad-op"
  | ["part.sel", a, b, n] =>
    match a.toNat?, b.toNat?, n.toNat? with
    | some a, some b, some n =>
      let xs := selected a b n
      if xs.isEmpty then "(empty)" else " ".intercalate (xs.map toString)
    | _, _, _ => "bad-op"
  | "part.count" :: k :: bytes =>
    match k.toNat? with
    | some k =>
      let bs := bytes.filterMap String.toNat?
      if bs.length != bytes.length || k == 0 then "bad-op" else
      let cnt := lineCounter false (chunksOf k bs (bs.length + 1))
      let exe := (scannerLines bs).length
      s!"{cnt} {exe}"
    | none => "bad-op"
  | _ => "bad-op"

def step (line : String) : String :=
  let toks := (line.splitOn " ").filter (· ≠ "")
  match toks with
  | [] => "bad-op"
  | op :: _ =>
    if op.startsWith "date." then dateOps toks
    else if op.startsWith "part." then partOps toks
    else if op.startsWith "water." then waterOps toks
    else "bad-op"

partial def loop (hin hout : IO.FS.Stream) : IO Unit := do
  let line ← hin.getLine
  if line.isEmpty then return ()
  let l := (line.dropEndWhile (fun c => c == '\n' || c == '\r')).toString
  hout.putStrLn (step l)
  loop hin hout

end Hermes.Driver

def main : IO Unit := do
  let hin ← IO.getStdin
  let hout ← IO.getStdout
  Hermes.Driver.loop hin hout
  hout.flush
