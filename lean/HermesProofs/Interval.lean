/-
Rational interval arithmetic with a kernel-checkable soundness argument.

The numeric models are polymorphic over the arithmetic (HermesModel/Num.lean).  Instantiating the same
definition at `Iv` (closed intervals with rational end points) computes an enclosure of its value over a
box; the fundamental theorem of interval arithmetic for one concrete expression is obtained by walking
the expression with `mem_add`, `mem_sub`, `mem_mul`, `mem_ofScientific` (tactic `iv_mem`).

`verifyBox` is an adaptive subdivision of a three-dimensional box (with the side constraint
`t + s ≤ cap` of the texture triangle); `verifyBox_sound` lifts a Boolean run of it — evaluated by the
kernel (`decide +kernel`) — to a statement about every real (rational) point of the box.
-/
import Mathlib.Tactic.Linarith
import Mathlib.Tactic.NormNum
import Mathlib.Algebra.Order.Field.Basic

namespace Hermes.Interval

/-- closed interval `[lo, hi]` (meaningful when `lo ≤ hi`) -/
structure Iv where
  lo : ℚ
  hi : ℚ
  deriving DecidableEq

/-- `x ∈ [lo, hi]` -/
def Iv.mem (x : ℚ) (i : Iv) : Prop := i.lo ≤ x ∧ x ≤ i.hi

/-- the point interval -/
def Iv.pt (q : ℚ) : Iv := ⟨q, q⟩

instance : Add Iv := ⟨fun a b => ⟨a.lo + b.lo, a.hi + b.hi⟩⟩
instance : Sub Iv := ⟨fun a b => ⟨a.lo - b.hi, a.hi - b.lo⟩⟩
instance : Mul Iv := ⟨fun a b =>
  ⟨min (min (a.lo * b.lo) (a.lo * b.hi)) (min (a.hi * b.lo) (a.hi * b.hi)),
   max (max (a.lo * b.lo) (a.lo * b.hi)) (max (a.hi * b.lo) (a.hi * b.hi))⟩⟩
instance : OfScientific Iv := ⟨fun m s e => Iv.pt (OfScientific.ofScientific m s e)⟩

theorem mem_pt (q : ℚ) : Iv.mem q (Iv.pt q) := ⟨le_refl _, le_refl _⟩

theorem mem_ofScientific (m : Nat) (s : Bool) (e : Nat) :
    Iv.mem (OfScientific.ofScientific m s e : ℚ) (OfScientific.ofScientific m s e : Iv) := mem_pt _

theorem mem_add {x y : ℚ} {a b : Iv} (hx : a.mem x) (hy : b.mem y) : (a + b).mem (x + y) :=
  ⟨add_le_add hx.1 hy.1, add_le_add hx.2 hy.2⟩

theorem mem_sub {x y : ℚ} {a b : Iv} (hx : a.mem x) (hy : b.mem y) : (a - b).mem (x - y) :=
  ⟨sub_le_sub hx.1 hy.2, sub_le_sub hx.2 hy.1⟩

/-- a product of two bounded numbers lies between the extreme corner products -/
theorem mem_mul {x y : ℚ} {a b : Iv} (hx : a.mem x) (hy : b.mem y) : (a * b).mem (x * y) := by
  obtain ⟨hx1, hx2⟩ := hx
  obtain ⟨hy1, hy2⟩ := hy
  show min (min (a.lo * b.lo) (a.lo * b.hi)) (min (a.hi * b.lo) (a.hi * b.hi)) ≤ x * y ∧
    x * y ≤ max (max (a.lo * b.lo) (a.lo * b.hi)) (max (a.hi * b.lo) (a.hi * b.hi))
  constructor
  · -- lower bound: x*y ≥ some corner
    rcases le_total 0 y with hy0 | hy0
    · -- y ≥ 0: x*y ≥ a.lo*y, and a.lo*y ≥ min(a.lo*b.lo, a.lo*b.hi)
      have h1 : a.lo * y ≤ x * y := mul_le_mul_of_nonneg_right hx1 hy0
      rcases le_total 0 a.lo with ha | ha
      · have : a.lo * b.lo ≤ a.lo * y := mul_le_mul_of_nonneg_left hy1 ha
        exact le_trans (le_trans (min_le_left _ _) (min_le_left _ _)) (le_trans this h1)
      · have : a.lo * b.hi ≤ a.lo * y := mul_le_mul_of_nonpos_left hy2 ha
        exact le_trans (le_trans (min_le_left _ _) (min_le_right _ _)) (le_trans this h1)
    · -- y ≤ 0: x*y ≥ a.hi*y
      have h1 : a.hi * y ≤ x * y := mul_le_mul_of_nonpos_right hx2 hy0
      rcases le_total 0 a.hi with ha | ha
      · have : a.hi * b.lo ≤ a.hi * y := mul_le_mul_of_nonneg_left hy1 ha
        exact le_trans (le_trans (min_le_right _ _) (min_le_left _ _)) (le_trans this h1)
      · have : a.hi * b.hi ≤ a.hi * y := mul_le_mul_of_nonpos_left hy2 ha
        exact le_trans (le_trans (min_le_right _ _) (min_le_right _ _)) (le_trans this h1)
  · rcases le_total 0 y with hy0 | hy0
    · have h1 : x * y ≤ a.hi * y := mul_le_mul_of_nonneg_right hx2 hy0
      rcases le_total 0 a.hi with ha | ha
      · have : a.hi * y ≤ a.hi * b.hi := mul_le_mul_of_nonneg_left hy2 ha
        exact le_trans (le_trans h1 this) (le_trans (le_max_right _ _) (le_max_right _ _))
      · have : a.hi * y ≤ a.hi * b.lo := mul_le_mul_of_nonpos_left hy1 ha
        exact le_trans (le_trans h1 this) (le_trans (le_max_left _ _) (le_max_right _ _))
    · have h1 : x * y ≤ a.lo * y := mul_le_mul_of_nonpos_right hx1 hy0
      rcases le_total 0 a.lo with ha | ha
      · have : a.lo * y ≤ a.lo * b.hi := mul_le_mul_of_nonneg_left hy2 ha
        exact le_trans (le_trans h1 this) (le_trans (le_max_right _ _) (le_max_left _ _))
      · have : a.lo * y ≤ a.lo * b.lo := mul_le_mul_of_nonpos_left hy1 ha
        exact le_trans (le_trans h1 this) (le_trans (le_max_left _ _) (le_max_left _ _))

/-- mid point -/
def Iv.mid (i : Iv) : ℚ := (i.lo + i.hi) / 2

/-! ### reflected arithmetic expressions

A polymorphic numeric definition (over `[Add α] [Sub α] [Mul α] [OfScientific α]`) instantiated at `E`
*is* its own syntax tree; `E.eval` gives back the definition at ℚ (by `rfl`), `E.ieval` its interval
extension, and `E.ieval_mem` is the fundamental theorem of interval arithmetic, proved once. -/

inductive E where
  | var (i : Nat)
  | lit (q : ℚ)
  | add (a b : E)
  | sub (a b : E)
  | mul (a b : E)

instance : Add E := ⟨E.add⟩
instance : Sub E := ⟨E.sub⟩
instance : Mul E := ⟨E.mul⟩
instance : OfScientific E := ⟨fun m s e => E.lit (OfScientific.ofScientific m s e)⟩

def E.eval (ρ : Nat → ℚ) : E → ℚ
  | .var i => ρ i
  | .lit q => q
  | .add a b => a.eval ρ + b.eval ρ
  | .sub a b => a.eval ρ - b.eval ρ
  | .mul a b => a.eval ρ * b.eval ρ

def E.ieval (R : Nat → Iv) : E → Iv
  | .var i => R i
  | .lit q => Iv.pt q
  | .add a b => a.ieval R + b.ieval R
  | .sub a b => a.ieval R - b.ieval R
  | .mul a b => a.ieval R * b.ieval R

theorem E.ieval_mem (ρ : Nat → ℚ) (R : Nat → Iv) (h : ∀ i, (R i).mem (ρ i)) :
    ∀ e : E, (e.ieval R).mem (e.eval ρ)
  | .var i => h i
  | .lit q => mem_pt q
  | .add a b => mem_add (E.ieval_mem ρ R h a) (E.ieval_mem ρ R h b)
  | .sub a b => mem_sub (E.ieval_mem ρ R h a) (E.ieval_mem ρ R h b)
  | .mul a b => mem_mul (E.ieval_mem ρ R h a) (E.ieval_mem ρ R h b)

/-- environment of six variables -/
def env6 {α : Type} (a b c d e f : α) : Nat → α
  | 0 => a | 1 => b | 2 => c | 3 => d | 4 => e | _ => f

theorem env6_mem {a b c d e f : ℚ} {A B C D F G : Iv} (ha : A.mem a) (hb : B.mem b) (hc : C.mem c)
    (hd : D.mem d) (he : F.mem e) (hf : G.mem f) : ∀ i, (env6 A B C D F G i).mem (env6 a b c d e f i)
  | 0 => ha | 1 => hb | 2 => hc | 3 => hd | 4 => he | (_ + 5) => hf

/-! ### adaptive subdivision of a box `c × t × s` with the side constraint `t + s ≤ cap` -/

structure Box where
  c0 : ℚ
  c1 : ℚ
  t0 : ℚ
  t1 : ℚ
  s0 : ℚ
  s1 : ℚ

/-- the point lies in the box and satisfies the side constraint -/
def Box.has (b : Box) (cap c t s : ℚ) : Prop :=
  b.c0 ≤ c ∧ c ≤ b.c1 ∧ b.t0 ≤ t ∧ t ≤ b.t1 ∧ b.s0 ≤ s ∧ s ≤ b.s1 ∧ t + s ≤ cap

/-- shrink the upper ends with the side constraint (`t ≤ cap − s ≤ cap − s0`) -/
def Box.clip (b : Box) (cap : ℚ) : Box :=
  { b with t1 := min b.t1 (cap - b.s0), s1 := min b.s1 (cap - b.t0) }

theorem Box.has_clip {b : Box} {cap c t s : ℚ} (h : b.has cap c t s) : (b.clip cap).has cap c t s := by
  obtain ⟨h1, h2, h3, h4, h5, h6, h7⟩ := h
  refine ⟨h1, h2, h3, le_min h4 (by linarith), h5, le_min h6 (by linarith), h7⟩

/-- which side is (relatively) the widest: 0 = c, 1 = t, 2 = s; `wc wt ws` are the reference widths -/
def Box.widest (b : Box) (wc wt ws : ℚ) : Nat :=
  let a := (b.c1 - b.c0) / wc
  let d := (b.t1 - b.t0) / wt
  let e := (b.s1 - b.s0) / ws
  if d ≤ a ∧ e ≤ a then 0 else if e ≤ d then 1 else 2

/-- subdivision: a box is accepted if it has no admissible point, or `check` accepts its clipped version,
or (with fuel left) both halves along the widest side are accepted -/
def verifyBox (check : Box → Bool) (cap wc wt ws : ℚ) : Nat → Box → Bool
  | 0, b => decide (cap < b.t0 + b.s0) || check (b.clip cap)
  | fuel + 1, b =>
    decide (cap < b.t0 + b.s0) || check (b.clip cap) ||
      (let b := b.clip cap
       match b.widest wc wt ws with
       | 0 => let m := (b.c0 + b.c1) / 2
              verifyBox check cap wc wt ws fuel { b with c1 := m } && verifyBox check cap wc wt ws fuel { b with c0 := m }
       | 1 => let m := (b.t0 + b.t1) / 2
              verifyBox check cap wc wt ws fuel { b with t1 := m } && verifyBox check cap wc wt ws fuel { b with t0 := m }
       | _ => let m := (b.s0 + b.s1) / 2
              verifyBox check cap wc wt ws fuel { b with s1 := m } && verifyBox check cap wc wt ws fuel { b with s0 := m })

theorem verifyBox_sound (check : Box → Bool) (cap wc wt ws : ℚ) (P : ℚ → ℚ → ℚ → Prop)
    (hcheck : ∀ b, check b = true → ∀ c t s, b.has cap c t s → P c t s) :
    ∀ (fuel : Nat) (b : Box), verifyBox check cap wc wt ws fuel b = true → ∀ c t s, b.has cap c t s → P c t s := by
  intro fuel
  induction fuel with
  | zero =>
    intro b h c t s hb
    unfold verifyBox at h
    rw [Bool.or_eq_true] at h
    rcases h with h | h
    · have := of_decide_eq_true h
      obtain ⟨_, _, h3, _, h5, _, h7⟩ := hb
      linarith
    · exact hcheck _ h c t s (Box.has_clip hb)
  | succ n ih =>
    intro b h c t s hb
    unfold verifyBox at h
    rw [Bool.or_eq_true, Bool.or_eq_true] at h
    rcases h with (h | h) | h
    · have := of_decide_eq_true h
      obtain ⟨_, _, h3, _, h5, _, h7⟩ := hb
      linarith
    · exact hcheck _ h c t s (Box.has_clip hb)
    · have hb' := Box.has_clip hb
      generalize b.clip cap = b' at h hb'
      obtain ⟨h1, h2, h3, h4, h5, h6, h7⟩ := hb'
      dsimp only at h
      split at h
      · rw [Bool.and_eq_true] at h
        rcases le_total c ((b'.c0 + b'.c1) / 2) with hm | hm
        · exact ih _ h.1 c t s ⟨h1, hm, h3, h4, h5, h6, h7⟩
        · exact ih _ h.2 c t s ⟨hm, h2, h3, h4, h5, h6, h7⟩
      · rw [Bool.and_eq_true] at h
        rcases le_total t ((b'.t0 + b'.t1) / 2) with hm | hm
        · exact ih _ h.1 c t s ⟨h1, h2, h3, hm, h5, h6, h7⟩
        · exact ih _ h.2 c t s ⟨h1, h2, hm, h4, h5, h6, h7⟩
      · rw [Bool.and_eq_true] at h
        rcases le_total s ((b'.s0 + b'.s1) / 2) with hm | hm
        · exact ih _ h.1 c t s ⟨h1, h2, h3, h4, h5, hm, h7⟩
        · exact ih _ h.2 c t s ⟨h1, h2, h3, h4, hm, h6, h7⟩

end Hermes.Interval
