#!/bin/sh
# usage: bin/seed_regress.sh <repo-worktree> [seed-dir-glob]
# Re-runs the quick check of every archived seeded change against a PRIVATE worktree of /repo (never /repo itself)
# from the copy of /verif this script lives in (use a copy or a `vp run` snapshot, not /verif: the harness's
# go.mod replace line is pointed at the worktree). Prints one line per seed: DETECTED / MISSED / NOAPPLY.
DIR="$(cd "$(dirname "$0")/.." && pwd)"
RW="$1"; GLOB="${2:-*}"
[ -d "$RW/hermes" ] || { echo "no repo worktree at $RW"; exit 2; }
case "$DIR" in /verif) echo "refusing to run in /verif itself (go.mod would be edited)"; exit 2;; esac
sed -i "s#=> .*/hermes\$#=> $RW/hermes#" "$DIR/harness/go.mod"
export VERIF_DIR="$DIR" VERIF_REPO="$RW"
( cd "$DIR" && bin/setup.sh >/dev/null 2>&1 ) || { echo "setup failed"; exit 2; }
det=0; miss=0
for d in "$DIR"/seeded/$GLOB/; do
  id=$(basename "$d"); prop=$(echo "$id" | cut -d- -f1)
  [ -f "$d/patch.diff" ] || continue
  git -C "$RW" checkout -q -- . 2>/dev/null
  if ! git -C "$RW" apply "$d/patch.diff" 2>/dev/null; then
    if ! git -C "$RW" apply --3way "$d/patch.diff" >/dev/null 2>&1; then git -C "$RW" reset -q --hard HEAD; echo "NOAPPLY $id"; continue; fi
    git -C "$RW" reset -q
  fi
  OUT=$("$DIR/bin/run_check.sh" "$prop" quick 2>&1)
  git -C "$RW" reset -q --hard HEAD
  if echo "$OUT" | grep -q "^VIOLATION"; then det=$((det+1)); echo "DETECTED $id $(echo "$OUT" | grep -m1 '^  \[' | cut -c1-160)"
  else miss=$((miss+1)); echo "MISSED $id $(echo "$OUT" | tail -1 | cut -c1-160)"; fi
done
echo "seed regression: detected=$det missed=$miss"
