"""Per-property configuration of bin/run_check.py."""

PROPS = {
    "C01": {
        "lean_modules": ["HermesProps.C01"],
        "level": "proof",
        "assumptions": [
            "theorems are exact-arithmetic (ℚ) statements about the model of Water; IEEE round-off is measured by the residual search (1e-9 relative), not proved",
            "the model is tied to hermes.Water by bit-exact differential correspondence on generated states",
        ],
    },
    "C12": {
        "lean_modules": ["HermesProps.C12"],
        "level": "proof",
        "assumptions": [
            "Go int is modelled by Nat (all quantities are non-negative for dates from 1901 on)",
            "fmt.Sprintf(\"%02d\"/\"%d\") and strconv.ParseInt on digit strings behave as the digit model; checked exhaustively by the correspondence stage",
        ],
    },
    "C17": {
        "lean_modules": ["HermesProps.C17"],
        "level": "proof",
        "assumptions": [
            "os.File.Read fills the 32 KiB buffer except for the last chunk (regular files)",
            "bufio.Scanner line splitting as modelled by scannerLines; checked by the correspondence stage on generated files",
        ],
    },
}
