import HermesModel.Proto
import HermesModel.WeatherNorm
import Driver.WeatherOps
import Driver.DayloopOps
open Hermes Hermes.Proto

namespace Hermes.Driver
open Hermes.Weather Hermes.DayLoop

def dayOfFloats : List Float → Option (Day Float)
  | [a, b, c, d, e, f] => some { tmp := a, verd := b, sund := c, radi := d, reg := e, win := f }
  | _ => none

def dayFloats (d : Day Float) : List Float := [d.tmp, d.verd, d.sund, d.radi, d.reg, d.win]

/-- `n (year doy f[6])*n` → records with the six entries of the line as payload (year 0 = unparsable date) -/
def popRecsD : Nat → Toks → Option (List (Rec (Day Float)) × Toks)
  | 0, r => some ([], r)
  | n + 1, r => do
    let (y, r) ← popNat r
    let (d, r) ← popNat r
    let (f, r) ← popFloats 6 r
    let v ← dayOfFloats f
    let (xs, r) ← popRecsD n r
    pure ({ year := y, doy := d, val := v, bad := y == 0 } :: xs, r)

/-- `n (T f[6])*n` → lines of a year file -/
def popLinesD : Nat → Toks → Option (List (Nat × Day Float) × Toks)
  | 0, r => some ([], r)
  | n + 1, r => do
    let (t, r) ← popNat r
    let (f, r) ← popFloats 6 r
    let v ← dayOfFloats f
    let (xs, r) ← popLinesD n r
    pure ((t, v) :: xs, r)

/-- `wxnorm.multi startyear cap nv corr[12] n (year doy f[6])*n` → `err` | `yrz` and, per allocated year,
`JAR MaxYearDays` and the six entries of every day below `MaxYearDays` after both passes -/
def wxnormMulti (toks : Toks) : Option String := do
  let (sy, r) ← popNat toks
  let (cap, r) ← popNat r
  let (nv, r) ← popFloat r
  let (corr, r) ← popFloats 12 r
  let (n, r) ← popNat r
  let (recs, _) ← popRecsD n r
  match readMulti sy cap recs with
  | none => some "err"
  | some ms =>
    let s := normalise nv corr ms.yrz ms.store
    let rows := (List.range cap).map fun i =>
      s!"{s.jarAt i} {s.maxAt i} " ++ fmtFloats ((List.range (s.maxAt i)).flatMap fun t => dayFloats (cellAt s i t))
    some (s!"{ms.yrz} " ++ " ".intercalate rows)

/-- `wxnorm.year year nv corr[12] n (T f[6])*n` → the six entries of every line after `WetterK`'s passes -/
def wxnormYear (toks : Toks) : Option String := do
  let (year, r) ← popNat toks
  let (nv, r) ← popFloat r
  let (corr, r) ← popFloats 12 r
  let (n, r) ← popNat r
  let (ls, _) ← popLinesD n r
  some (fmtFloats ((normLines nv corr year ls).flatMap fun l => dayFloats l.2))

/-- the entries selected by the bit mask (1 tmp, 2 verd, 4 sund, 8 radi, 16 reg, 32 win) -/
def pick (mask : Nat) (d : Day Float) : List Float :=
  ((dayFloats d).zip [1, 2, 4, 8, 16, 32]).filterMap fun (x, b) => if (mask / b) % 2 == 1 then some x else none

def fmtDaysD (mask : Nat) (ds : List (DayOut (Day Float))) : String :=
  " ".intercalate (ds.map fun d =>
    s!"{d.zeit} {d.j} {d.tagNum} {d.jtag} " ++ fmtFloats (pick mask (d.val.getD zeroDay)))

/-- `wxnorm.runmulti anjahr cap beginn itag ndays mask nv corr[12] n (year doy f[6])*n` -/
def wxnormRunMulti (toks : Toks) : Option String := do
  let (anjahr, r) ← popNat toks
  let (cap, r) ← popNat r
  let (beginn, r) ← popNat r
  let (itag, r) ← popNat r
  let (ndays, r) ← popNat r
  let (mask, r) ← popNat r
  let (nv, r) ← popFloat r
  let (corr, r) ← popFloats 12 r
  let (n, r) ← popNat r
  let (recs, _) ← popRecsD n r
  match runMultiN nv corr recs anjahr cap beginn itag ndays with
  | none => some "err"
  | some ds => some (fmtDaysD mask ds)

def popFilesD : Nat → Toks → Option (List (Nat × List (Nat × Day Float)))
  | 0, _ => some []
  | k + 1, r => do
    let (year, r) ← popNat r
    let (n, r) ← popNat r
    let (ls, r) ← popLinesD n r
    let rest ← popFilesD k r
    pure ((year, ls) :: rest)

/-- `wxnorm.runyears anjahr beginn itag ndays mask nv corr[12] k [year n (T f[6])*n]*k` -/
def wxnormRunYears (toks : Toks) : Option String := do
  let (anjahr, r) ← popNat toks
  let (beginn, r) ← popNat r
  let (itag, r) ← popNat r
  let (ndays, r) ← popNat r
  let (mask, r) ← popNat r
  let (nv, r) ← popFloat r
  let (corr, r) ← popFloats 12 r
  let (k, r) ← popNat r
  let files ← popFilesD k r
  let look : Nat → Option (List (Nat × Day Float)) := fun y => (files.find? (·.1 == y)).map (·.2)
  match runPerYearL nv corr look anjahr beginn itag ndays with
  | none => some "err"
  | some ds => some (fmtDaysD mask ds)

def wxnormOps (toks : List String) : String :=
  match toks with
  | "wxnorm.multi" :: rest => (wxnormMulti rest).getD "bad-op"
  | "wxnorm.year" :: rest => (wxnormYear rest).getD "bad-op"
  | "wxnorm.runmulti" :: rest => (wxnormRunMulti rest).getD "bad-op"
  | "wxnorm.runyears" :: rest => (wxnormRunYears rest).getD "bad-op"
  | _ => "bad-op"

end Hermes.Driver
