/-
Model of the N bookkeeping of the harvest branch of `Nitro` (hermes/nitro.go:293-569, executed in the first
sub-step of the day `zeit == ERNTE[AKF]`), of `resid` (nitro.go:863-948) and of `pinit` (nitro.go:951-962),
transcribed from the Go code as it is.

* `resid` : the N of the harvested crop that stays on the field — above-ground residues DGM (= NSA + NLA =
  NRESID) and roots DGU (= NUSA + NULA) — from the crop N `PESUM`, the residue-export value `JN` of the rotation
  entry (0 = all residues stay, 1 = all removed, 2 = the whole plant stays, else the removed fraction), the
  permanent-crop flag and the row of CROP_N.TXT of the crop (`KOSTRO`, `NERNT`, `NKOPP`, `NWURA`, `NFAST`: the
  table values are inputs of the model; the table is read by the Go side), plus `ln.NAGB`.
* `step` : residues added to `NFOS`/`NAOS` (above-ground part to the top layer, roots over the `WURZ` rooted
  layers by the root shares `WUANT`), `NUPTAKE`, `DSUMM`, `YIELD`, the numbers of the crop record, the state of
  a permanent crop after a cut, the skipped-crop branch of automatic sowing (nitro.go:470-536: the organic dressing
  after harvest is applied at once — NSAS to NFOS[0], NLAS to NAOS[0], NDIR to DSUMM — and booked in the SKIPPED record), `pinit` and the
  final reset (nitro.go:547-564).
* the rotation counters (AKF, records written) are modelled in HermesModel/Rotation.lean (`Rotation.harvest`);
  `Out.akfInc` repeats the increment so that the two models can be compared.

The model keeps the array bound of the code: `WUANT` has 20 cells, a root depth `WURZ` beyond the list is an
index-out-of-range panic (`Out.panics`).  Core Lean only; polymorphic in the arithmetic; executable (driver ops
`harvest.*`).
-/
import HermesModel.Num
import HermesModel.Generated.CropNFacts
namespace Hermes.Harvest

section
variable {α : Type} [Add α] [Sub α] [Mul α] [Div α] [LT α] [DecidableLT α]
  [OfNat α 0] [OfNat α 1] [OfNat α 2] [OfNat α 100] [OfNat α 720] [OfNat α 820] [OfScientific α]

/-- Go `x == c` on ordinary numbers (no NaN), with the order only -/
def isEq (x c : α) : Bool := !(decide (x < c)) && !(decide (c < x))

/-- `if x < 0 { x = 0 }` -/
def clamp0 (x : α) : α := if x < 0 then 0 else x

/-- Go `math.Max` on ordinary numbers -/
def fmax (a b : α) : α := if a < b then b else a

/-- the columns of the crop's row of CROP_N.TXT that `resid` reads (nitro.go:880-888) -/
structure CropNRow (α : Type) where
  kostro : α   -- CROP[4:7]    grain : straw ratio
  nernt : α    -- CROP[13:18]  N in the harvested product
  nkopp : α    -- CROP[25:30]  N in the by-product
  nwura : α    -- CROP[36:40]  share of the roots in the crop N
  nfast : α    -- CROP[41:45]  fast decomposing share of the residue N

structure ResidIn (α : Type) where
  dauerkult : Bool   -- g.DAUERKULT (parameter file of the harvested crop)
  isAA : Bool        -- FRUCHT[AKF] == AA
  jn : α             -- JN[AKF]
  pesum : α
  obmas : α
  gehob : α
  row : CropNRow α

structure Resid (α : Type) where
  nagb : α
  dgm : α
  dgu : α
  ndi : α
  nsa : α
  nla : α
  nusa : α
  nula : α
  nresid : α

/-- nitro.go:905 / 932: residues of a non-permanent crop of which the fraction `jn` is removed -/
def annualDgm (jn p : α) (t : CropNRow α) : α :=
  (1 - jn) * (p - p * (1 - t.nwura) * t.nernt / (t.nernt + t.kostro * t.nkopp) - p * t.nwura)

/-- nitro.go:898-934: (DGM, DGU) before the two clamps -/
def rawDg (i : ResidIn α) : α × α :=
  let p := i.pesum
  let w := i.row.nwura
  if isEq i.jn 0 then
    if i.dauerkult then ((i.obmas - 820) * i.gehob, 0) else (annualDgm i.jn p i.row, p * w)
  else if isEq i.jn 1 then
    if i.dauerkult then (if i.isAA then (0, p * w * 0.74) else (0, p * w * 0.2)) else (0, p * w)
  else if isEq i.jn 2 then (p - p * w, p * w)
  else if i.dauerkult then (p - i.obmas * i.jn * i.gehob, p * w * 0.74)
  else (annualDgm i.jn p i.row, p * w)

/-- nitro.go:863-948 -/
def resid (i : ResidIn α) : Resid α :=
  let raw := rawDg i
  let dgm := clamp0 raw.1
  let dgu := clamp0 raw.2
  let f := i.row.nfast
  { nagb := i.pesum - i.pesum * i.row.nwura, dgm := dgm, dgu := dgu, ndi := 0,
    nsa := dgm * f, nla := dgm * (1 - f), nusa := dgu * f, nula := dgu * (1 - f), nresid := dgm }

/-- what the harvest branch uses when `resid` is not called (`AKF.Num == 1`, nitro.go:300-301) -/
def noResid (nagbOld : α) : Resid α :=
  { nagb := nagbOld, dgm := 0, dgu := 0, ndi := 0, nsa := 0, nla := 0, nusa := 0, nula := 0, nresid := 0 }

/-- `pool[0] = pool[0] + x` (nitro.go:310-311) -/
def addTop (x : α) : List α → List α
  | [] => []
  | p :: ps => (p + x) :: ps

/-- `for i := 0; i < WURZ; i++ { pool[i] = pool[i] + c*WUANT[i] }` (nitro.go:312-315) -/
def addRoots (c : α) : Nat → List α → List α → List α
  | k + 1, w :: ws, p :: ps => (p + c * w) :: addRoots c k ws ps
  | _, _, ps => ps

/-- `YIELD` (nitro.go:321-329); `worg` = WORG[0..4] -/
def yieldOf (yorgan : Nat) (yifak obmas : α) (worg : List α) : α :=
  if yorgan = 0 then
    if isEq yifak 0.99 then obmas - 820 else obmas * yifak
  else (worg.getD (yorgan - 1) 0) * yifak

/-- the crop state the harvest branch rewrites -/
structure CropSt (α : Type) where
  pesum : α
  obmas : α
  wumas : α
  lai : α
  wurz : Nat
  worg : List α        -- WORG[0..4]
  standing : Bool      -- INTWICK.Index ≥ 0 (a crop stands; `false` after `INTWICK.SetByIndex(-1)`)

/-- nitro.go:447-464: organ masses and crop N after the cut.  A permanent crop whose residues stay or are
removed as a whole (JN = 0 or 1) keeps its roots, a floor of leaf / stem mass and a floor of crop N. -/
def afterCut (dauerkult : Bool) (jn yifak gehob wugeh : α) (s : CropSt α) : CropSt α :=
  if dauerkult && (isEq jn 0 || isEq jn 1) then
    let w0 := s.worg.getD 0 0
    let w1 := fmax (s.worg.getD 1 0 * (1 - yifak)) 720
    let w2 := fmax (s.worg.getD 2 0 * (1 - yifak)) 100
    { s with worg := [w0, w1, w2, 0, 0],
             pesum := fmax ((s.pesum - w0 * wugeh) * (1 - yifak)) (820 * gehob + w0 * wugeh),
             obmas := w1 + w2, wumas := w0 }
  else { s with worg := s.worg.map fun _ => 0 }

/-- nitro.go:951-962 (`VERNTAGE`, `PHYLLO` are reset with them) -/
def pinit (dauerkult : Bool) (s : CropSt α) : CropSt α :=
  if dauerkult then s else { s with pesum := 0, obmas := 0, wumas := 0, wurz := 0, standing := false }

/-- nitro.go:547-564: unless the next rotation entry is grass / alfalfa (GRE, GR, AA) the crop state is cleared -/
def finalReset (nextPerennialCode : Bool) (s : CropSt α) : CropSt α :=
  if nextPerennialCode then s
  else { s with pesum := 0, wurz := 0, lai := 0, obmas := 0, wumas := 0, standing := false }

structure In (α : Type) where
  first : Bool            -- AKF.Num == 1: the pre-crop of the start date (`resid` not called, no record)
  r : ResidIn α
  nagbOld : α             -- ln.NAGB before the call
  wuant : List α          -- WUANT[0..19]
  nfos : List α           -- NFOS[0..20]
  naos : List α
  dsumm : α
  yorgan : Nat
  yifak : α
  wugeh : α
  crop : CropSt α         -- PESUM and OBMAS are those of `r`
  naltos : α
  nakt : α
  domeng1 : α             -- ln.DOMENG1 (organic fertiliser N of the season, for the record)
  windowPassed : Bool     -- SAAT2[AKF+1] <= zeit   (after the increment)
  automan : Bool
  orgH : Bool             -- ODU[AKF] == 1 && ORGTIME[AKF] == "H" of the harvested entry
  nsas : α                -- NSAS / NLAS / NDIR of the harvested entry
  nlas : α
  ndir : α
  nextPerennialCode : Bool   -- FRUCHT[AKF'] ∈ {GRE, GR, AA} for the entry that is current afterwards

/-- the numbers of the crop record (`CropOutputVars`) -/
structure Rec (α : Type) where
  yield : α
  biomass : α
  roots : α
  nuptake : α
  nagb : α
  nresid : α
  soilN1 : α
  orgN : α

structure Out (α : Type) where
  panics : Bool           -- WURZ beyond the 20 cells of WUANT / the 21 cells of the pools
  res : Resid α
  nfos : List α
  naos : List α
  dsumm : α
  yield : α               -- g.YIELD
  nuptake : α             -- ln.NUPTAKE
  record : Bool           -- a crop record is written (finishedCycle)
  skipped : Bool          -- it is the SKIPPED record of the crop whose sowing window has passed
  recv : Rec α
  crop : CropSt α
  akfInc : Nat

def sum3 (xs : List α) : α := xs.getD 0 0 + xs.getD 1 0 + xs.getD 2 0

/-- nitro.go:300-309: `resid` is called for every entry but the pre-crop of the start date -/
def residOf (i : In α) : Resid α := if i.first then noResid i.nagbOld else resid i.r

/-- nitro.go:470-471: the sowing window of the next entry has passed (automatic sowing) and organic fertiliser
after harvest is configured for the harvested entry -/
def skipOf (i : In α) : Bool := i.windowPassed && i.automan && i.orgH

/-- the pools after the residues were added (nitro.go:310-315) -/
def nfosAfterResidues (i : In α) : List α :=
  addRoots (residOf i).nusa i.crop.wurz i.wuant (addTop (residOf i).nsa i.nfos)
def naosAfterResidues (i : In α) : List α :=
  addRoots (residOf i).nula i.crop.wurz i.wuant (addTop (residOf i).nla i.naos)

/-- nitro.go:293-569 -/
def step (i : In α) : Out α :=
  let res := residOf i
  -- 310-315
  let nfos := nfosAfterResidues i
  let naos := naosAfterResidues i
  -- 317-319
  let nuptake := i.r.pesum
  let dsumm := i.dsumm + res.ndi
  let pes1 := i.r.pesum - (res.nsa + res.nla + res.ndi)
  let yld := yieldOf i.yorgan i.yifak i.r.obmas i.crop.worg
  -- 344-432
  let soilN1 := i.naltos / i.nakt * (1 - i.nakt) + sum3 naos + sum3 nfos
  let rec1 : Rec α := { yield := yld, biomass := i.r.obmas, roots := i.crop.worg.getD 0 0, nuptake := nuptake,
                        nagb := res.nagb, nresid := res.nresid, soilN1 := soilN1, orgN := i.domeng1 }
  -- 447-464
  let c1 := afterCut i.r.dauerkult i.r.jn i.yifak i.r.gehob i.wugeh { i.crop with pesum := pes1, obmas := i.r.obmas }
  -- 470-535
  let skip := skipOf i
  let nfos := if skip then addTop i.nsas nfos else nfos
  let naos := if skip then addTop i.nlas naos else naos
  let dsumm := if skip then dsumm + i.ndir else dsumm
  let recS : Rec α := { yield := 0, biomass := 0, roots := 0, nuptake := 0, nagb := 0, nresid := 0, soilN1 := 0,
                        orgN := i.nsas + i.nlas + i.ndir }
  -- 536-564
  let c2 := finalReset i.nextPerennialCode (pinit i.r.dauerkult c1)
  { panics := decide (i.wuant.length < i.crop.wurz) || decide (i.nfos.length < i.crop.wurz) || decide (i.naos.length < i.crop.wurz),
    res := res, nfos := nfos, naos := naos, dsumm := dsumm, yield := yld, nuptake := nuptake,
    record := skip || !i.first, skipped := skip,
    recv := if skip then recS else rec1,
    crop := c2, akfInc := if skip then 2 else 1 }

end

section
variable {α : Type} [Div α] [OfNat α 100] [Conv α]

/-- a row of the regenerated table `Generated.cropNRows` (values in hundredths) as numbers: `ParseFloat` of a text
with two decimals is the correctly rounded quotient of two exact integers -/
def rowOfHundredths (v : List Nat) : CropNRow α :=
  { kostro := Conv.ofNat (v.getD 0 0) / 100, nernt := Conv.ofNat (v.getD 1 0) / 100, nkopp := Conv.ofNat (v.getD 2 0) / 100,
    nwura := Conv.ofNat (v.getD 3 0) / 100, nfast := Conv.ofNat (v.getD 4 0) / 100 }

/-- nitro.go:876-891: the first line whose code matches; all values stay 0 when there is none -/
def lookupRow (tbl : List (List Nat × List Nat)) (code : List Nat) : List Nat :=
  match tbl.find? (fun r => r.1 == code) with
  | some r => r.2
  | none => [0, 0, 0, 0, 0]

end
end Hermes.Harvest
