package main

// Column-kind enumeration for C05: every exported field of the structs the output
// configurations bind to (hermes.GlobalVarsMain, hermes.CropOutputVars), every element of every
// array, every sub-field of every nested struct, through the real LoadHermesOutputConfig +
// WriteLine in both result styles.

import (
	"bytes"
	"fmt"
	"os"
	"path/filepath"
	"reflect"
	"strings"
	"unicode/utf8"

	"github.com/zalf-rpm/Hermes2Go/hermes"
)

// c05Col is one data column of a generated output configuration.
type c05Col struct {
	Var     string `json:"variable"` // VariableName, with ".Sub" for nested fields
	I1      int    `json:"index1"`
	I2      int    `json:"index2"`
	Format  string `json:"format"`
	Width   int    `json:"width"`
	Align   string `json:"align"`
	GoType  string `json:"go_type"`  // type of the top-level field (Go syntax)
	Leaf    string `json:"leaf"`     // type of the referenced variable ("" if the reference does not resolve)
	InScope bool   `json:"in_scope"` // references a model variable of a kind the property quantifies over
	Kind    string `json:"kind"`     // kind label used in violation signatures
	// model side
	typeToks string
	sub      string
	sliceLen int
}

const c05SliceLen = 3

func c05IsPlain(t reflect.Type) bool { return t.PkgPath() == "" }

// c05TyToks renders a type in the prefix grammar of HermesModel/Output.lean (parseTy/parseFieldTy).
func c05TyToks(t reflect.Type, top bool) string {
	switch t.Kind() {
	case reflect.Array:
		return fmt.Sprintf("array %d %s", t.Len(), c05TyToks(t.Elem(), false))
	case reflect.Slice:
		return "slice " + c05TyToks(t.Elem(), false)
	case reflect.Struct:
		if !top {
			return "structval"
		}
		n := 0
		s := ""
		for i := 0; i < t.NumField(); i++ {
			if t.Field(i).IsExported() {
				n++
				s += " " + t.Field(i).Name + " " + c05TyToks(t.Field(i).Type, false)
			}
		}
		return fmt.Sprintf("struct %d%s", n, s)
	case reflect.String:
		if c05IsPlain(t) {
			return "string"
		}
		return "basic"
	case reflect.Int:
		if c05IsPlain(t) {
			return "int"
		}
		return "named"
	case reflect.Float64:
		if c05IsPlain(t) {
			return "float64"
		}
		return "basic"
	case reflect.Bool:
		if c05IsPlain(t) {
			return "bool"
		}
		return "basic"
	case reflect.Int8, reflect.Int16, reflect.Int32, reflect.Int64, reflect.Uint, reflect.Uint8, reflect.Uint16,
		reflect.Uint32, reflect.Uint64, reflect.Float32:
		return "basic"
	}
	return "opaque"
}

// c05TyText renders a type the way Ty.text of the model does.
func c05TyText(t reflect.Type) string {
	switch t.Kind() {
	case reflect.Array:
		return fmt.Sprintf("[%d]%s", t.Len(), c05TyText(t.Elem()))
	case reflect.Slice:
		return "[]" + c05TyText(t.Elem())
	case reflect.Struct:
		return "struct"
	}
	s := c05TyToks(t, false)
	return s
}

func c05RefText(t reflect.Type) string {
	if t == nil {
		return "nil"
	}
	if t.Kind() == reflect.String && c05IsPlain(t) {
		return "na"
	}
	if t.Kind() == reflect.Ptr {
		return "*" + c05TyText(t.Elem())
	}
	return "?" + t.String()
}

// scalarOrText: the kinds the property's quantifier names (scalars, text), also as array elements
// and nested fields.
func c05LeafInScope(t reflect.Type) (bool, string) {
	switch t.Kind() {
	case reflect.Bool:
		return true, "bool"
	case reflect.Int, reflect.Int8, reflect.Int16, reflect.Int32, reflect.Int64,
		reflect.Uint, reflect.Uint8, reflect.Uint16, reflect.Uint32, reflect.Uint64:
		if c05IsPlain(t) {
			return true, t.Kind().String()
		}
		return true, "named-" + t.Kind().String()
	case reflect.Float32, reflect.Float64:
		if c05IsPlain(t) {
			return true, t.Kind().String()
		}
		return true, "named-" + t.Kind().String()
	case reflect.String:
		if c05IsPlain(t) {
			return true, "string"
		}
		return true, "named-string"
	}
	return false, t.Kind().String()
}

// c05ColsFor enumerates the columns that can be written for one exported field: `good` = every
// reference that resolves (all indices in range, every sub-field), `odd` = references that do not
// resolve (index out of range, struct without / with unknown sub-field) and kinds outside the
// property's quantifier, `panicky` = slice indices beyond the run-time length.
func c05ColsFor(name string, t reflect.Type) (good, odd, panicky []c05Col) {
	toks := c05TyToks(t, true)
	mk := func(v string, sub string, i1, i2 int, leaf reflect.Type, resolves bool, viaSlice string) c05Col {
		col := c05Col{Var: v, I1: i1, I2: i2, Format: "%v", Width: 40, Align: []string{"left", "right", "center", "none"}[len(v)%4], GoType: t.String(), typeToks: toks, sub: sub, sliceLen: c05SliceLen}
		if resolves && leaf != nil {
			col.Leaf = leaf.String()
			ok, kind := c05LeafInScope(leaf)
			col.InScope = ok
			col.Kind = viaSlice + kind
		} else {
			col.Kind = "unresolved"
		}
		return col
	}
	put := func(col c05Col) {
		if col.InScope {
			good = append(good, col)
		} else {
			odd = append(odd, col)
		}
	}
	var walk func(v, sub string, tt reflect.Type)
	walk = func(v, sub string, tt reflect.Type) {
		switch tt.Kind() {
		case reflect.Array:
			n := tt.Len()
			e := tt.Elem()
			if e.Kind() == reflect.Array {
				m := e.Len()
				for i := 0; i < n; i++ {
					for j := 0; j < m; j++ {
						put(mk(v, sub, i, j, e.Elem(), true, ""))
					}
				}
				odd = append(odd, mk(v, sub, n, 0, nil, false, ""), mk(v, sub, 0, m, nil, false, ""), mk(v, sub, n-1, m+2, nil, false, ""))
			} else {
				for i := 0; i < n; i++ {
					put(mk(v, sub, i, 0, e, true, ""))
				}
				odd = append(odd, mk(v, sub, n, 0, nil, false, ""), mk(v, sub, n+7, 0, nil, false, ""))
			}
		case reflect.Slice:
			for i := 0; i < c05SliceLen; i++ {
				put(mk(v, sub, i, 0, tt.Elem(), true, "slice-"))
			}
			panicky = append(panicky, mk(v, sub, c05SliceLen, 0, nil, false, ""))
		default:
			put(mk(v, sub, 0, 0, tt, true, ""))
		}
	}
	if t.Kind() == reflect.Struct {
		for i := 0; i < t.NumField(); i++ {
			f := t.Field(i)
			if !f.IsExported() {
				continue
			}
			walk(name+"."+f.Name, f.Name, f.Type)
		}
		odd = append(odd, mk(name, "", 0, 0, nil, false, ""), mk(name+".NoSuchSub", "NoSuchSub", 0, 0, nil, false, ""))
	} else {
		walk(name, "", t)
	}
	return
}

// c05FillSlices gives every slice field of *target the length c05SliceLen.
func c05FillSlices(target interface{}) {
	v := reflect.ValueOf(target).Elem()
	for i := 0; i < v.NumField(); i++ {
		f := v.Field(i)
		if f.Kind() == reflect.Slice && f.CanSet() {
			f.Set(reflect.MakeSlice(f.Type(), c05SliceLen, c05SliceLen))
		}
	}
}

// c05Conf renders an output configuration file.
type c05Conf struct {
	Cols    []c05Col `json:"columns"`
	Sep     string   `json:"separator"`
	Fill    string   `json:"fill"`
	NHeader int      `json:"header_lines"`
	HeadN   int      `json:"header_columns"` // columns named in each header line (0 = all)
}

func c05Yq(s string) string {
	s = strings.ReplaceAll(s, "\\", "\\\\")
	s = strings.ReplaceAll(s, "\"", "\\\"")
	s = strings.ReplaceAll(s, "\t", "\\t")
	return "\"" + s + "\""
}

func (cf *c05Conf) YAML() string {
	var b strings.Builder
	fmt.Fprintf(&b, "FillCharacter: %s\nSeperatorCharacter: %s\nNaValue: n.a.\nDataColumns:\n", c05Yq(cf.Fill), c05Yq(cf.Sep))
	for _, c := range cf.Cols {
		fmt.Fprintf(&b, "- Format: %s\n  DataAlignment: %s\n  Width: %d\n  VariableName: %s\n", c05Yq(c.Format), c.Align, c.Width, c.Var)
		if c.I1 != 0 {
			fmt.Fprintf(&b, "  VarIndex1: %d\n", c.I1)
		}
		if c.I2 != 0 {
			fmt.Fprintf(&b, "  VarIndex2: %d\n", c.I2)
		}
	}
	if cf.NHeader > 0 {
		b.WriteString("Headlines:\n")
		for h := 1; h <= cf.NHeader; h++ {
			fmt.Fprintf(&b, "  %d:\n", h)
			n := cf.HeadN
			if n == 0 || n > len(cf.Cols) {
				n = len(cf.Cols)
			}
			for i := 0; i < n; i++ {
				fmt.Fprintf(&b, "  - ColumnName: h%dc%d\n    TextAlignment: %s\n    StartColumn: %d\n    EndColumn: %d\n    FillCharacter: ' '\n",
					h, i+1, []string{"left", "right", "center"}[(i+h)%3], i+1, i+1)
			}
		}
	}
	return b.String()
}

// c05BufWriter implements hermes.OutWriter on a buffer.
type c05BufWriter struct{ b bytes.Buffer }

func (m *c05BufWriter) Write(s string) (int, error)      { return m.b.WriteString(s) }
func (m *c05BufWriter) WriteBytes(s []byte) (int, error) { return m.b.Write(s) }
func (m *c05BufWriter) WriteRune(r rune) (int, error)    { return m.b.WriteRune(r) }
func (m *c05BufWriter) WriteError(e error) (int, error)  { return m.b.WriteString(e.Error()) }
func (m *c05BufWriter) Close()                           {}

// c05LineResult: what one WriteLine call did in one style.
type c05LineResult struct {
	Rec   string `json:"record"` // "none" | "panic" | number of fields | "len:<n>" (fixed width, unexpected length)
	Err   string `json:"error,omitempty"`
	Bytes string `json:"bytes"`
	Full  string `json:"-"`
}

type c05Kernel struct {
	sess    *hermes.HermesSession
	dir     string
	n       int
	devnull *os.File
}

func newC05Kernel(scratch string) *c05Kernel {
	k := &c05Kernel{sess: hermes.NewHermesSession(), dir: filepath.Join(scratch, "c05conf")}
	os.MkdirAll(k.dir, 0o755)
	return k
}

// load writes the configuration to a fresh file and binds it to target with the real loader.
func (k *c05Kernel) load(cf *c05Conf, target interface{}) (oc hermes.OutputConfig, refs []string, err error, panicked string) {
	k.n++
	path := filepath.Join(k.dir, fmt.Sprintf("conf%d.yml", k.n))
	if e := os.WriteFile(path, []byte(cf.YAML()), 0o644); e != nil {
		return oc, nil, e, ""
	}
	defer os.Remove(path)
	func() {
		defer func() {
			if r := recover(); r != nil {
				panicked = fmt.Sprint(r)
			}
		}()
		oc, err = hermes.LoadHermesOutputConfig(path, target, k.sess)
	}()
	k.sess.HermesFilePool.Close()
	if err != nil || panicked != "" {
		return
	}
	for _, t := range oc.VerifRefTypes() {
		refs = append(refs, c05RefText(t))
	}
	return
}

// writeLine runs the real WriteLine in the given style and classifies what reached the file.
func (k *c05Kernel) writeLine(oc *hermes.OutputConfig, cf *c05Conf, style int) c05LineResult {
	oc.VerifSetFormat(style)
	w := &c05BufWriter{}
	var res c05LineResult
	func() {
		defer func() {
			if r := recover(); r != nil {
				res.Rec = "panic"
				res.Err = fmt.Sprint(r)
			}
		}()
		if err := oc.WriteLine(w); err != nil {
			res.Err = err.Error()
		}
	}()
	out := w.b.String()
	res.Full = out
	res.Bytes = out
	if len(res.Bytes) > 200 {
		res.Bytes = res.Bytes[:200] + "…"
	}
	if res.Rec == "panic" {
		return res
	}
	if out == "" {
		res.Rec = "none"
		return res
	}
	line := strings.TrimSuffix(out, "\r\n")
	if style == 1 {
		res.Rec = fmt.Sprint(strings.Count(line, cf.Sep) + 1)
		return res
	}
	total := 0
	for _, c := range cf.Cols {
		total += c.Width + 1
	}
	if utf8.RuneCountInString(line) == total {
		res.Rec = fmt.Sprint(len(cf.Cols))
	} else {
		res.Rec = fmt.Sprintf("len:%d", utf8.RuneCountInString(line))
	}
	return res
}

// modelLine is the driver case for a column list in one style.
func c05ModelLine(cols []c05Col, style int) string {
	var b strings.Builder
	fmt.Fprintf(&b, "output.line %d", style)
	for i, c := range cols {
		if i > 0 {
			b.WriteString(" ;")
		}
		sub := c.sub
		if sub == "" {
			sub = "-"
		}
		fmt.Fprintf(&b, " %d %d %d %s %s", c.I1, c.I2, c.sliceLen, sub, c.typeToks)
	}
	return b.String()
}
