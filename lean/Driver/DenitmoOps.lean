import HermesModel.Proto
import HermesModel.Denitmo
open Hermes Hermes.Proto

namespace Hermes.Driver

/-- `denitmo.run n c[n] ftheta[3] ftemp[3] cumdenit` → `c'[n] cumdenit' q[9]`, where `q` are the nine
values before the clamp (`denitmoPre`) with the clamp applied: they must equal `c'[0..8]` too -/
def denitmoRun (toks : List String) : Option String := do
  let (n, r) ← popNat toks
  let (c, r) ← popFloats n r
  let (f, _) ← popFloats 7 r
  match f with
  | [ft1, ft2, ft3, fm1, fm2, fm3, cum] =>
    let o := Mineral.denitmo c ft1 ft2 ft3 fm1 fm2 fm3 cum
    let q := (Mineral.denitmoPre c ft1 ft2 ft3 fm1 fm2 fm3).map fun p => if p < 0 then 0 else p
    some (fmtFloats (o.c ++ [o.cumdenit] ++ q))
  | _ => none

def denitmoOps (toks : List String) : String :=
  match toks with
  | "denitmo.run" :: rest => (denitmoRun rest).getD "bad-op"
  | _ => "bad-op"

end Hermes.Driver
