package main

// C05 — output records: one per day, year and harvested crop, complete, in order; every record has
// exactly as many fields as the output configuration defines columns.
//
// Stage A (complete enumeration): LoadHermesOutputConfig + WriteLine for every exported field of
// GlobalVarsMain and CropOutputVars (scalars, every array element, nested X.Sub, text, slices) in
// both result styles against HermesModel/Output.lean (`output.line`), and the property predicate
// "fields = columns" on every column that references a model variable.
// Stage B (search): whole generated simulations over random start / end / annual output dates,
// output intervals 0–40, both styles, random column sets, realistic and dense rotations; the V/Y/C
// files are parsed, compared with HermesModel/RecordLoop.lean (`output.loop`) and with the property
// predicate evaluated with an independent calendar (package time).

import (
	"encoding/json"
	"fmt"
	"os"
	"path/filepath"
	"reflect"
	"sort"
	"strconv"
	"strings"
	"time"
	"unicode/utf8"

	"github.com/zalf-rpm/Hermes2Go/hermes"
	"verifharness/proj"
	"verifharness/vh"
)

func init() { register("C05", checkC05) }

func checkC05(c *vh.Ctx) {
	c.Res.Rule = "stage A: every exported field of GlobalVarsMain and CropOutputVars x every array element / sub-field / slice element (plus out-of-range, unknown and non-variable references) x both result styles through the real LoadHermesOutputConfig+WriteLine vs the Lean model and vs 'fields = columns' (complete enumeration of the column kinds); " +
		"stage B: whole generated simulations (random start/end/annual dates incl. year ends, leap days and the annual day itself, intervals 0-40, both styles, random supported column sets, with and without header lines, realistic and dense rotations, harvests on the annual day / last day) whose V/Y/C files are parsed and compared record by record with the Lean loop model and with the property predicate (independent calendar); " +
		"a case is non-trivial when it is a distinct (struct, leaf type, reference shape, style) in stage A or a distinct (interval class, style, annual-date class, end class, rotation class, record counts) in stage B"
	// WriteLine prints "unknown" to stdout for every dropped column: silence it for this check
	if dn, err := os.OpenFile(os.DevNull, os.O_WRONLY, 0); err == nil {
		saved := os.Stdout
		os.Stdout = dn
		defer func() { os.Stdout = saved; dn.Close() }()
	}
	c05SourceShape(c)
	c05Columns(c)
	c05Witnesses(c)
	c05Runs(c)
	c05SessionPairs(c) // stage P: overlapping lines of one project in one session
	if bin, err := c.BuildTool("hermes2go"); err != nil {
		c.Violate("correspondence", "build:hermes2go", err.Error(), nil)
	} else {
		rerunStage(c, bin, "C05") // stage R: the real result-file generator, a shorter run into a folder that holds a longer one
	}
}

// ---------------------------------------------------------------- facts regenerated from the source

// c05SourceShape compares the facts harness/cmd/extract/output.go reads out of output_fmt.go, run.go
// and nitro.go (go/ast) with what the Lean models transcribe: the case types of the type switch of
// WriteLine (HermesModel/Output.lean `emits`, theorem C05_switch_cases) and the loop / trigger
// conditions (HermesModel/RecordLoop.lean).  A difference is a correspondence failure.
func c05SourceShape(c *vh.Ctx) {
	b, err := os.ReadFile(filepath.Join(c.Verif, "evidence", "facts.json"))
	if err != nil {
		c.Note("facts.json not found (%v): source-shape comparison skipped", err)
		return
	}
	var fc struct {
		Strs    map[string][]string `json:"string_tables"`
		Scalars map[string]string   `json:"scalars"`
	}
	if err := json.Unmarshal(b, &fc); err != nil {
		c.Violate("correspondence", "source-shape:facts.json", err.Error(), nil)
		return
	}
	expect := map[string][]string{
		"WriteLine.cases":     {"*string", "string", "*int", "*float64", "*[]float64", "*bool"},
		"WriteLine.case_adds": {"1", "1", "1", "1", "1", "1"},
		"RecordLoop.shape": {"for ZEIT <= g.ENDE #1", "if OUTY >= g.ENDE #1", "if OUTINT > 0 #2", "if (ZEIT % OUTINT) == 0 #1",
			"if isAnnualOutputDay(ZEIT, outMonth, outDayOfMonth) #1", "if finished #1",
			"if month == outMonth && day == outDayOfMonth #1",
			"return outMonth == 2 && outDayOfMonth == 29 && month == 3 && day == 1 && year % 4 != 0 #1",
			"nitro if zeit == g.ERNTE[g.AKF.Index] && subd == 1 #1", "nitro if g.AKF.Num > 1 #2"},
	}
	for _, k := range []string{"WriteLine.cases", "WriteLine.case_adds", "RecordLoop.shape"} {
		got := fc.Strs[k]
		c.Eval()
		if strings.Join(got, " | ") != strings.Join(expect[k], " | ") {
			c.Violate("correspondence", "source-shape:"+k, fmt.Sprintf("the source no longer has the shape the Lean model transcribes (%s): extracted %q, the model assumes %q", k, got, expect[k]),
				map[string]interface{}{"fact": k, "extracted": got, "model": expect[k]})
		}
	}
	if fc.Scalars["WriteLine.default_adds"] != "1" {
		c.Violate("correspondence", "source-shape:WriteLine.default_adds", fmt.Sprintf("the default clause of the type switch of WriteLine adds %s texts; the model says it adds exactly one (valueByReflection)", fc.Scalars["WriteLine.default_adds"]), nil)
	}
	c.Res.Extra["source_shape_facts"] = []string{"WriteLine.cases", "WriteLine.case_adds", "WriteLine.default_adds", "RecordLoop.shape"}
}

// ---------------------------------------------------------------- Lean-derived counter-witnesses on the implementation

// c05Witnesses replays the concrete inputs of the `…_regression_witnesses` theorems of HermesProps/C05.lean
// (the minimal inputs of the two repaired defects F11 / F11b) on the real code as whole simulations: a
// tree without the repairs is reported with the signatures of the old defects.
func c05Witnesses(c *vh.Ctx) {
	root := filepath.Join(c.Scratch, "witness")
	os.MkdirAll(root, 0o755)
	var g hermes.GlobalVarsMain
	mk := func(name string, start, end proj.Date, annD, annM, style int, cols []string) *c05Case {
		r := vh.NewRng(12345)
		p := proj.Gen(r, name, proj.Opt{Years: 1, NoCrop: true, MaxLayers: 6})
		p.Rot = p.Rot[:1]
		p.Fert, p.Irr, p.Til = nil, nil, nil
		c05Retime(p, start, end)
		p.Cfg["AnnualOutputDate"] = fmt.Sprintf("\"%02d%02d\"", annD, annM)
		p.Cfg["OutputIntervall"] = "1"
		p.Cfg["ResultFileFormat"] = fmt.Sprint(style)
		cs := &c05Case{Project: p, Style: style, Interval: 1, AnnM: annM, AnnD: annD, Note: "Lean-derived witness"}
		conf := func(specs []string) *c05Conf {
			cf := &c05Conf{Sep: ",", Fill: " "}
			for _, sp := range specs {
				col := c05RunCol(vh.NewRng(1), sp, c05KindOfSpec(g, sp))
				col.Format, col.Width, col.Align = "%v", 26, "left"
				cf.Cols = append(cf.Cols, col)
			}
			return cf
		}
		cs.Daily = conf(cols)
		cs.Yearly = conf([]string{"AKTUELL", "PerY"})
		cs.Crop = &c05Conf{Sep: ",", Fill: " ", Cols: []c05Col{{Var: "HarvestYear", Format: "%v", Width: 12, Align: "left"}, {Var: "HarvestDOY", Format: "%v", Width: 12, Align: "left"}, {Var: "Crop", Format: "%v", Width: 12, Align: "left"}}}
		return cs
	}
	run := func(cs *c05Case) *proj.RunResult {
		p := cs.Project
		if err := p.Write(root, c.Repo); err != nil {
			c.Note("witness %s: %v", p.Name, err)
			return nil
		}
		dir := filepath.Join(root, "project", p.Name)
		os.WriteFile(filepath.Join(dir, "dailyout_conf.yml"), []byte(cs.Daily.YAML()), 0o644)
		os.WriteFile(filepath.Join(dir, "yearlyout_conf.yml"), []byte(cs.Yearly.YAML()), 0o644)
		os.WriteFile(filepath.Join(dir, "cropout_conf.yml"), []byte(cs.Crop.YAML()), 0o644)
		res := proj.Run(root, p, nil)
		if res.Err != nil || res.Panic != "" {
			c.Note("witness %s failed: err=%v panic=%s", p.Name, res.Err, res.Panic)
			return nil
		}
		return res
	}
	lines := func(s string) []string {
		l := strings.Split(s, "\r\n")
		if len(l) > 0 && l[len(l)-1] == "" {
			l = l[:len(l)-1]
		}
		return l
	}
	yearlyDates := func(res *proj.RunResult) []string {
		var out []string
		for _, l := range lines(res.Out.File("Y")) {
			out = append(out, strings.TrimSpace(strings.Split(l, ",")[0]))
		}
		return out
	}
	wit := map[string]interface{}{}
	// former C05_yearly_records_fails_at: 01.09.1980 … 31.12.1981, annual output date 30.09.
	cs := mk("w1", proj.Date{Y: 1980, M: 9, D: 1}, proj.Date{Y: 1981, M: 12, D: 31}, 30, 9, 1, []string{"AKTUELL", "REGENdaily"})
	if res := run(cs); res != nil {
		got := yearlyDates(res)
		wit["yearly_leap_shift"] = got
		c.Eval()
		if strings.Join(got, " ") == "29.09.1980 30.09.1981" {
			c.Violate("search", "yearly:leap-shift", "start 01.09.1980, EndDate 31121981, AnnualOutputDate 3009: the yearly file has the records 29.09.1980 and 30.09.1981 instead of 30.09.1980 and 30.09.1981 (the record is keyed by the day-of-year of the annual date in the END year: day 273 is 29.09. in the leap year 1980)", cs)
		} else if strings.Join(got, " ") != "30.09.1980 30.09.1981" {
			c.Violate("search", "yearly:regression-witness", fmt.Sprintf("start 01.09.1980, EndDate 31121981, AnnualOutputDate 3009: the yearly file has the records %v, expected 30.09.1980 and 30.09.1981 (C05_yearly_regression_witnesses)", got), cs)
		}
	}
	// former C05_yearly_dec31_fails_at: 01.12.1984 … 31.12.1984, annual output date 31.12.
	cs = mk("w2", proj.Date{Y: 1984, M: 12, D: 1}, proj.Date{Y: 1984, M: 12, D: 31}, 31, 12, 1, []string{"AKTUELL", "REGENdaily"})
	if res := run(cs); res != nil {
		got := yearlyDates(res)
		daily := lines(res.Out.File("V"))
		last := ""
		if len(daily) > 0 {
			last = strings.Split(daily[len(daily)-1], ",")[0]
		}
		wit["yearly_dec31"] = got
		wit["yearly_dec31_last_daily_record"] = last
		c.Eval()
		if strings.Join(got, " ") == "30.12.1984" {
			c.Violate("search", "yearly:dec31-cap365", "start 01.12.1984, EndDate 31121984, AnnualOutputDate 3112: the only yearly record is dated 30.12.1984 instead of 31.12.1984 (day-of-year 366 of the leap end year capped to 365)", cs)
		} else if strings.Join(got, " ") != "31.12.1984" || last != "01.01.1985" {
			c.Violate("search", "yearly:regression-witness", fmt.Sprintf("start 01.12.1984, EndDate 31121984, AnnualOutputDate 3112: yearly records %v, last daily record %s; expected 31.12.1984 and 01.01.1985 (C05_yearly_regression_witnesses)", got, last), cs)
		}
	}
	// former C05_fields_fails_at at run level: daily columns AKTUELL, AUTOMAN (bool) and AKTUELL, FRUCHT[1] (named int) in both styles
	for _, w := range []struct{ name, col, kind string }{{"w3", "AUTOMAN", "bool"}, {"w4", "FRUCHT[1]", "named-int"}} {
		for style := 1; style >= 0; style-- {
			cs = mk(fmt.Sprintf("%ss%d", w.name, style), proj.Date{Y: 1990, M: 10, D: 1}, proj.Date{Y: 1990, M: 10, D: 31}, 15, 10, style, []string{"AKTUELL", w.col})
			res := run(cs)
			if res == nil {
				continue
			}
			recs := lines(res.Out.File("V"))
			nf := -1
			if len(recs) > 0 && style == 1 {
				nf = strings.Count(recs[0], ",") + 1
			}
			key := fmt.Sprintf("fields_%s_style%d", w.kind, style)
			wit[key] = map[string]interface{}{"days": 31, "records": len(recs), "fields_of_first_record": nf, "columns": 2}
			c.Eval()
			dropCSV := style == 1 && len(recs) == 31 && nf == 1
			dropFix := style == 0 && len(recs) == 0
			if dropCSV || dropFix {
				c.Violate("search", "fields:kind="+w.kind, fmt.Sprintf("whole run with the daily columns AKTUELL, %s over 31 simulated days, style %d: %d records, first record has %d field(s) — the %s column is dropped (C05_fields_regression_witnesses)", w.col, style, len(recs), nf, w.kind), cs)
			} else if !(len(recs) == 31 && (style == 0 || nf == 2)) {
				c.Violate("search", "fields:regression-witness", fmt.Sprintf("whole run with the daily columns AKTUELL, %s over 31 simulated days, style %d: %d records with %d fields, expected 31 records with 2 fields", w.col, style, len(recs), nf), cs)
			}
		}
	}
	c.Res.Extra["witness_replays"] = wit
}

// ---------------------------------------------------------------- stage A

func c05Columns(c *vh.Ctx) {
	k := newC05Kernel(c.Scratch)
	defer k.sess.Close()
	var cases, impl []string
	var payload []interface{}
	nCols, nFields, nBatches := 0, 0, 0
	dropped := map[string][]string{} // kind → example columns
	type target struct {
		name string
		ptr  interface{}
		lead string // a text variable of the struct (always written)
	}
	g := hermes.NewGlobalVarsMain()
	var co hermes.CropOutputVars
	c05FillSlices(&g)
	c05FillSlices(&co)
	targets := []target{{"GlobalVarsMain", &g, "AKTUELL"}, {"CropOutputVars", &co, "Crop"}}

	// evalBatch runs one configuration in both styles, records the correspondence cases and returns
	// the per-style results.
	evalBatch := func(tg target, cols []c05Col) (res [2]c05LineResult, ok bool) {
		cf := &c05Conf{Cols: cols, Sep: ",", Fill: " "}
		oc, refs, err, pan := k.load(cf, tg.ptr)
		nBatches++
		if err != nil || pan != "" {
			c.Violate("correspondence", "output.load:error", fmt.Sprintf("LoadHermesOutputConfig failed for columns of %s: err=%v panic=%s", tg.name, err, pan),
				map[string]interface{}{"struct": tg.name, "config": cf})
			return res, false
		}
		csv := k.writeLine(&oc, cf, 1)
		fix := k.writeLine(&oc, cf, 0)
		res = [2]c05LineResult{fix, csv}
		counter := "-"
		if csv.Rec == "none" {
			counter = "0"
		} else if csv.Rec != "panic" {
			counter = csv.Rec
		}
		// what every field shows: the value of the variable (v) or the not-available text (n), read off the CSV record
		cells := "?"
		if csv.Rec == "panic" {
			cells = "-"
		} else if csv.Rec == fmt.Sprint(len(cols)) {
			var cl []string
			for _, f := range strings.Split(strings.TrimSuffix(csv.Full, "\r\n"), cf.Sep) {
				if f == "n.a." {
					cl = append(cl, "n")
				} else {
					cl = append(cl, "v")
				}
			}
			cells = strings.Join(cl, ",")
		}
		for style := 0; style <= 1; style++ {
			cases = append(cases, c05ModelLine(cols, style))
			impl = append(impl, fmt.Sprintf("refs=%s cells=%s counter=%s rec=%s", strings.Join(refs, ","), cells, counter, res[style].Rec))
			payload = append(payload, map[string]interface{}{"struct": tg.name, "style": style, "config": cf, "impl_bytes": res[style].Bytes, "impl_error": res[style].Err})
		}
		return res, true
	}

	for _, tg := range targets {
		t := reflect.TypeOf(tg.ptr).Elem()
		unexported := 0
		for i := 0; i < t.NumField(); i++ {
			f := t.Field(i)
			if !f.IsExported() {
				unexported++
				continue
			}
			nFields++
			good, odd, panicky := c05ColsFor(f.Name, f.Type)
			nCols += len(good) + len(odd) + len(panicky)
			for _, col := range good {
				c.Nontrivial(fmt.Sprintf("A:%s:%s:%s", tg.name, col.Leaf, c05ShapeOf(col)))
			}
			for _, col := range odd {
				c.Nontrivial(fmt.Sprintf("A:%s:odd:%s:%s", tg.name, col.GoType, c05ShapeOf(col)))
				c.Count("A:reference-not-a-model-variable")
			}
			if len(good) > 0 {
				res, ok := evalBatch(tg, good)
				c.Res.Evaluations += 2 * len(good)
				c.Count("A:in-scope-columns:" + good[0].Kind)
				if ok && (res[0].Rec != fmt.Sprint(len(good)) || res[1].Rec != fmt.Sprint(len(good))) {
					// property predicate fails for the batch: attribute it to single columns
					lead := c05Col{Var: tg.lead, Format: "%v", Width: 40, Align: "left", GoType: "string", typeToks: "string", sliceLen: c05SliceLen}
					for _, col := range good {
						pair := []c05Col{lead, col}
						one, ok1 := evalBatch(tg, pair)
						if !ok1 || (one[0].Rec == "2" && one[1].Rec == "2") {
							continue
						}
						if len(dropped[col.Kind]) < 4 {
							dropped[col.Kind] = append(dropped[col.Kind], c05ColName(col))
						}
						refTy := "*" + col.Leaf
						if strings.HasPrefix(col.GoType, "[]") {
							refTy = "*" + col.GoType
						}
						why := ""
						if one[1].Rec == "1" && one[0].Rec == "none" {
							why = ": WriteLine has no case for " + refTy + ", the column is dropped; the fixed-width writer then refuses the whole record and run.go ignores its error"
						}
						c.Violate("search", "fields:kind="+col.Kind,
							fmt.Sprintf("an output configuration with the two columns %s, %s (%s.%s is a model variable of Go type %s, kind %s) yields %s in CSV style and %s in fixed-width style instead of one record with 2 fields%s",
								tg.lead, c05ColName(col), tg.name, c05ColName(col), col.Leaf, col.Kind, c05RecWords(one[1]), c05RecWords(one[0]), why),
							map[string]interface{}{"struct": tg.name, "column": col, "csv": one[1], "fixed": one[0],
								"minimal_config": (&c05Conf{Cols: pair, Sep: ",", Fill: " "}).YAML()})
					}
				}
			}
			if len(odd) > 0 {
				evalBatch(tg, odd)
			}
			for _, col := range panicky {
				evalBatch(tg, []c05Col{col})
				c.Count("A:slice-index-beyond-length")
			}
		}
		// a variable name that does not exist, together with a good column
		evalBatch(tg, []c05Col{{Var: "NoSuchVariable", Format: "%v", Width: 40, Align: "left", typeToks: "missing", sliceLen: c05SliceLen}})
		c.Res.Extra["A_unexported_fields_skipped_"+tg.name] = unexported
	}
	// mixed configurations: random selections over all columns of a struct (model vs implementation)
	for _, tg := range targets {
		t := reflect.TypeOf(tg.ptr).Elem()
		var all []c05Col
		for i := 0; i < t.NumField(); i++ {
			if f := t.Field(i); f.IsExported() {
				good, odd, _ := c05ColsFor(f.Name, f.Type)
				all = append(all, good...)
				all = append(all, odd...)
			}
		}
		for r := 0; r < c.N(60, 600); r++ {
			n := c.Rng.Range(1, 12)
			var cols []c05Col
			for j := 0; j < n; j++ {
				cols = append(cols, all[c.Rng.Intn(len(all))])
			}
			evalBatch(tg, cols)
			c.Count("A:mixed-configurations")
		}
	}
	saved := payload
	c.Correspond("output.line", cases, impl, 0, 0, func(i int) interface{} { return saved[i] })
	c.Res.Extra["A_fields"] = nFields
	c.Res.Extra["A_columns"] = nCols
	c.Res.Extra["A_configurations"] = nBatches
	c.Res.Extra["A_column_kinds_exhaustive"] = true
	kinds := []string{}
	for kd, ex := range dropped {
		kinds = append(kinds, kd+": "+strings.Join(ex, " "))
	}
	sort.Strings(kinds)
	c.Res.Extra["A_dropped_kinds"] = kinds
}

func c05ShapeOf(col c05Col) string {
	s := "scalar"
	if strings.Contains(col.GoType, "[") {
		s = "elem"
		if strings.Count(col.GoType, "[") > 1 {
			s = "elem2"
		}
		if strings.HasPrefix(col.GoType, "[]") {
			s = "slice"
		}
	}
	if col.sub != "" {
		s += "+sub"
	}
	return s
}

func c05ColName(col c05Col) string {
	s := col.Var
	if strings.Contains(col.GoType, "[") {
		s += fmt.Sprintf("[%d]", col.I1)
		if strings.Count(col.GoType, "[") > 1 {
			s += fmt.Sprintf("[%d]", col.I2)
		}
	}
	return s
}

func c05RecWords(r c05LineResult) string {
	switch r.Rec {
	case "none":
		if r.Err != "" {
			return "no record at all (" + r.Err + ")"
		}
		return "no record at all"
	case "panic":
		return "a panic (" + r.Err + ")"
	}
	return "a record with " + r.Rec + " field(s)"
}

// ---------------------------------------------------------------- stage B

// column pools for the whole runs: variables of the kinds WriteLine supports whose values are never blank
var c05PoolG = []string{"REGENdaily", "TEMPdaily", "ETA", "SICKER", "LAI", "OBMAS", "GRW", "OUTSUM", "PerY", "AUFNASUM", "FLUSS0",
	"J", "JTAG", "N", "AZHO", "TAG.Index", "TAG.Num", "AKF.Index", "AKF.Num", "INTWICK.Num", "DT.Offset",
	"WG[1][0]", "WG[0][2]", "TSOIL[0][1]", "CN[1][3]", "C1[0]", "C1[2]", "TD[1]", "WORG[0]", "WORG[4]", "DEV[1]", "UKT[1]", "NA", "AKTUELL", "NAOS[0]", "MINFOS[3]"}
var c05PoolC = []string{"SowDOY", "EmergDOY", "AnthDOY", "MatDOY", "Yield", "Biomass", "Roots", "LAImax", "Nuptake", "Nfertil", "Irrig",
	"BBCH_DOY[10]", "BBCH_DOY[99]", "SowDate", "NA", "Nmin1", "ETcG"}

func c05ParseColName(s string) (name string, i1, i2 int) {
	name = s
	idx := []int{}
	for strings.HasSuffix(name, "]") {
		i := strings.LastIndex(name, "[")
		v, _ := strconv.Atoi(name[i+1 : len(name)-1])
		idx = append([]int{v}, idx...)
		name = name[:i]
	}
	if len(idx) > 0 {
		i1 = idx[0]
	}
	if len(idx) > 1 {
		i2 = idx[1]
	}
	return
}

// c05RunCol builds a column for a whole-run configuration; formats are chosen so that the text
// fits the width in the fixed-width style.
func c05RunCol(r *vh.Rng, spec string, kind string) c05Col {
	name, i1, i2 := c05ParseColName(spec)
	col := c05Col{Var: name, I1: i1, I2: i2, Align: []string{"left", "right", "center", "none"}[r.Intn(4)]} // all four spellings the configuration accepts
	switch kind {
	case "float":
		switch r.Intn(3) {
		case 0:
			col.Format, col.Width = "%v", 26
		case 1:
			col.Format, col.Width = "%.4f", 24
		default:
			col.Format, col.Width = "%012.3f", 24
		}
	case "int":
		switch r.Intn(3) {
		case 0:
			col.Format, col.Width = "%v", 12
		case 1:
			col.Format, col.Width = "%d", 12
		default:
			col.Format, col.Width = "%05d", 12
		}
	default:
		if r.Chance(0.5) {
			col.Format, col.Width = "%v", 14
		} else {
			col.Format, col.Width = "%s", 12
		}
	}
	return col
}

func c05KindOfSpec(target interface{}, spec string) string {
	name, _, _ := c05ParseColName(spec)
	sub := ""
	if i := strings.Index(name, "."); i >= 0 {
		name, sub = name[:i], name[i+1:]
	}
	t := reflect.TypeOf(target)
	f, ok := t.FieldByName(name)
	if !ok {
		return "string" // unbound: the n.a. text
	}
	ft := f.Type
	if ft.Kind() == reflect.Struct && sub != "" {
		sf, ok := ft.FieldByName(sub)
		if !ok {
			return "string"
		}
		ft = sf.Type
	}
	for ft.Kind() == reflect.Array {
		ft = ft.Elem()
	}
	switch ft.Kind() {
	case reflect.Float64:
		return "float"
	case reflect.Int:
		return "int"
	}
	return "string"
}

func c05GenConf(r *vh.Rng, target interface{}, lead []string, pool []string, style int) *c05Conf {
	cf := &c05Conf{Sep: []string{",", ",", ";", "\t", "|"}[r.Intn(5)], Fill: []string{" ", " ", " ", "_"}[r.Intn(4)]}
	specs := append([]string{}, lead...)
	n := r.Range(0, 9)
	for i := 0; i < n; i++ {
		specs = append(specs, pool[r.Intn(len(pool))])
	}
	for _, s := range specs {
		cf.Cols = append(cf.Cols, c05RunCol(r, s, c05KindOfSpec(target, s)))
	}
	if r.Chance(0.5) {
		cf.NHeader = r.Range(1, 3)
		if r.Chance(0.5) {
			cf.HeadN = r.Range(1, len(cf.Cols))
		}
	}
	return cf
}

// c05ParseFile splits a captured result file into records and checks the field count of every
// record; returns the fields of every record.
func c05ParseFile(c *vh.Ctx, file, content string, cf *c05Conf, style int, replay func() interface{}) ([][]string, bool) {
	if content == "" {
		return nil, true
	}
	lines := strings.Split(content, "\r\n")
	if lines[len(lines)-1] == "" {
		lines = lines[:len(lines)-1]
	} else {
		c.Violate("search", "record:"+file+":unterminated", fmt.Sprintf("the %s file does not end with a line break", file), replay())
	}
	if len(lines) < cf.NHeader {
		c.Violate("search", "record:"+file+":header", fmt.Sprintf("the %s file has %d lines but %d header lines are configured", file, len(lines), cf.NHeader), replay())
		return nil, false
	}
	lines = lines[cf.NHeader:]
	var out [][]string
	ok := true
	styleName := []string{"fixed", "csv"}[style]
	for li, line := range lines {
		c.Eval()
		var fields []string
		if style == 1 {
			fields = strings.Split(line, cf.Sep)
			if len(fields) != len(cf.Cols) {
				c.Violate("search", fmt.Sprintf("record-fields:%s:%s", file, styleName),
					fmt.Sprintf("record %d of the %s file has %d fields, the configuration defines %d columns: %q", li+1, file, len(fields), len(cf.Cols), line), replay())
				ok = false
			}
		} else {
			total := 0
			for _, col := range cf.Cols {
				total += col.Width + 1
			}
			rs := []rune(line)
			if len(rs) != total {
				c.Violate("search", fmt.Sprintf("record-fields:%s:%s", file, styleName),
					fmt.Sprintf("record %d of the %s file is %d characters long, the column layout (widths + one fill character each) is %d: %q", li+1, file, len(rs), total, line), replay())
				ok = false
				out = append(out, nil)
				continue
			}
			at := 0
			fill := []rune(cf.Fill)[0]
			for ci, col := range cf.Cols {
				cell := strings.Trim(string(rs[at:at+col.Width]), string(fill))
				if rs[at+col.Width] != fill {
					c.Violate("search", fmt.Sprintf("record-fields:%s:%s", file, styleName),
						fmt.Sprintf("record %d of the %s file: no fill character after column %d: %q", li+1, file, ci+1, line), replay())
					ok = false
				}
				if cell == "" {
					c.Violate("search", fmt.Sprintf("record-fields:%s:%s", file, styleName),
						fmt.Sprintf("record %d of the %s file: column %d (%s) is blank: %q", li+1, file, ci+1, col.Var, line), replay())
					ok = false
				}
				fields = append(fields, cell)
				at += col.Width + 1
			}
		}
		out = append(out, fields)
	}
	return out, ok
}

func c05ParseDate(s string, datefmt int) (proj.Date, bool) {
	p := strings.Split(strings.TrimSpace(s), ".")
	if len(p) != 3 {
		return proj.Date{}, false
	}
	a, e1 := strconv.Atoi(p[0])
	b, e2 := strconv.Atoi(p[1])
	y, e3 := strconv.Atoi(p[2])
	if e1 != nil || e2 != nil || e3 != nil {
		return proj.Date{}, false
	}
	d := proj.Date{Y: y, M: b, D: a}
	if datefmt == 3 {
		d = proj.Date{Y: y, M: a, D: b}
	}
	t := d.Time()
	if t.Year() != d.Y || int(t.Month()) != d.M || t.Day() != d.D {
		return d, false
	}
	return d, true
}

func c05IsLeap(y int) bool { return y%4 == 0 && (y%100 != 0 || y%400 == 0) }

// c05DayClass names the calendar position of a day (for signatures).
func c05DayClass(d proj.Date, start, end proj.Date) string {
	switch {
	case d == start:
		return "first-day"
	case d == end:
		return "last-day"
	case d.M == 2 && d.D == 29:
		return "leap-day"
	case d.M == 12 && d.D == 31, d.M == 1 && d.D == 1:
		return "year-boundary"
	case d.Z() < start.Z():
		return "before-start"
	case d.Z() > end.Z():
		return "after-end"
	}
	return "interior"
}

type c05Case struct {
	Project  *proj.Project `json:"project"`
	Daily    *c05Conf      `json:"daily_conf"`
	Yearly   *c05Conf      `json:"yearly_conf"`
	Crop     *c05Conf      `json:"crop_conf"`
	Style    int           `json:"style"`
	Interval int           `json:"interval"`
	AnnM     int           `json:"annual_month"`
	AnnD     int           `json:"annual_day"`
	Dense    bool          `json:"dense_rotation"`
	Note     string        `json:"note"`
}

// c05Retime moves start and end of a generated project and regenerates the weather to cover the
// (possibly extended) period.
func c05Retime(p *proj.Project, start, end proj.Date) {
	p.Rot[0].Harvest = start
	if len(p.Meas) > 0 {
		p.Meas[0].Date = start
	}
	p.SetEnd(end)
	p.WeatherStart = proj.Date{Y: start.Y, M: 1, D: 1}
	p.WeatherDays = proj.Date{Y: end.Y + 1, M: 12, D: 31}.Z() - p.WeatherStart.Z() + 1
	p.GenWeather()
}

func c05GenCase(r *vh.Rng, name string) *c05Case {
	cs := &c05Case{}
	dense := r.Chance(0.4)
	p := proj.Gen(r.Fork(), name, proj.Opt{Years: r.Range(1, 4), MaxLayers: 12})
	if r.Chance(0.4) {
		p.RotForeign = r.Range(1, 3) // rotation file shared with other fields, ordered by year
	}
	start := p.Start()
	end := p.End()
	// ---- start date classes
	switch r.Intn(6) {
	case 0:
		start = proj.Date{Y: start.Y, M: 1, D: 1}
	case 1:
		start = proj.Date{Y: start.Y, M: 12, D: 31}
		if len(p.Rot) > 1 && p.Rot[1].Sow.Z() <= start.Z()+5 {
			start = p.Start()
		}
	case 2:
		start = proj.Date{Y: start.Y, M: r.Range(1, 6), D: r.Range(1, 28)}
	}
	// ---- dense rotation: many short cycles
	if dense {
		rot := []proj.RotEntry{p.Rot[0]}
		cur := start
		for k := 0; k < 40; k++ {
			cc := proj.Crops[r.Intn(len(proj.Crops))]
			sow := cur.AddDays(r.Range(6, 40))
			har := sow.AddDays(r.Range(25, 160))
			if har.Z() > end.Z()+200 {
				break
			}
			rot = append(rot, proj.RotEntry{Crop: cc.Code, Sow: sow, Harvest: har, Rex: r.Intn(100)})
			cur = har
		}
		p.Rot = rot
		p.Til = nil
	}
	// ---- annual output date classes
	switch r.Intn(8) {
	case 0:
		cs.AnnM, cs.AnnD = 12, 31
	case 1:
		cs.AnnM, cs.AnnD = 1, 1
	case 2:
		cs.AnnM, cs.AnnD = 2, 28
	case 3:
		cs.AnnM, cs.AnnD = 3, 1
	case 4:
		if len(p.Rot) > 1 { // the harvest day of a crop
			h := p.Rot[1+r.Intn(len(p.Rot)-1)].Harvest
			cs.AnnM, cs.AnnD = h.M, h.D
		} else {
			cs.AnnM, cs.AnnD = 9, 30
		}
	default:
		cs.AnnM = r.Range(1, 12)
		cs.AnnD = r.Range(1, []int{31, 28, 31, 30, 31, 30, 31, 31, 30, 31, 30, 31}[cs.AnnM-1])
	}
	if r.Chance(0.06) {
		cs.AnnM, cs.AnnD = 2, 29 // reading: 29.02. in leap years, 01.03. otherwise; 01.03. throughout when the end year has no 29.02.
	}
	// ---- end date classes
	switch r.Intn(8) {
	case 0:
		end = proj.Date{Y: end.Y, M: 12, D: 31}
	case 1:
		end = proj.Date{Y: end.Y, M: cs.AnnM, D: cs.AnnD}
	case 2:
		end = proj.Date{Y: end.Y, M: cs.AnnM, D: cs.AnnD}.AddDays(1)
	case 3:
		end = proj.Date{Y: end.Y, M: cs.AnnM, D: cs.AnnD}.AddDays(-1)
	case 4:
		if len(p.Rot) > 1 { // the harvest day of the last crop that fits
			end = p.Rot[len(p.Rot)-1].Harvest
		}
	case 5:
		y := end.Y - end.Y%4
		if y > start.Y {
			end = proj.Date{Y: y, M: 2, D: 29}
		}
	}
	end = proj.FromZ(end.Z()) // a 29.02. of a year without one is the 01.03.
	if end.Z() < start.Z()+3 {
		end = start.AddDays(r.Range(3, 400))
	}
	if r.Chance(0.25) {
		p.DateFmt = 3 // DateENlong: all input dates and the rendered dates are month-first
	}
	c05Retime(p, start, end)
	p.Cfg["AnnualOutputDate"] = fmt.Sprintf("\"%02d%02d\"", cs.AnnD, cs.AnnM)
	if p.DateFmt == 3 {
		p.Cfg["AnnualOutputDate"] = fmt.Sprintf("\"%02d%02d\"", cs.AnnM, cs.AnnD)
	}
	// ---- interval, style
	cs.Interval = []int{1, 1, 1, 0, 2, 7, r.Range(2, 40), r.Range(2, 40)}[r.Intn(8)]
	cs.Style = r.Intn(2)
	p.Cfg["OutputIntervall"] = fmt.Sprint(cs.Interval)
	p.Cfg["ResultFileFormat"] = fmt.Sprint(cs.Style)
	cs.Project = p
	cs.Dense = dense
	var g hermes.GlobalVarsMain
	var co hermes.CropOutputVars
	cs.Daily = c05GenConf(r, g, []string{"AKTUELL"}, c05PoolG, cs.Style)
	cs.Yearly = c05GenConf(r, g, []string{"AKTUELL"}, c05PoolG, cs.Style)
	cs.Crop = c05GenConf(r, co, []string{"HarvestYear", "HarvestDOY", "Crop"}, c05PoolC, cs.Style)
	return cs
}

func c05Runs(c *vh.Ctx) {
	root := filepath.Join(c.Scratch, "runs")
	os.MkdirAll(root, 0o755)
	n := c.N(160, 4000)
	var cases, impl []string
	var payload []interface{}
	t0 := time.Now()
	done := 0
	for i := 0; i < n; i++ {
		cs := c05GenCase(c.Rng.Fork(), fmt.Sprintf("r%d", i))
		line, im, ok := c05RunCase(c, root, cs)
		os.RemoveAll(filepath.Join(root, "project", cs.Project.Name))
		os.RemoveAll(filepath.Join(root, "weather"))
		if ok {
			cases = append(cases, line)
			impl = append(impl, im)
			payload = append(payload, cs)
		}
		done++
	}
	saved := payload
	c.Correspond("output.loop", cases, impl, 0, 0, func(i int) interface{} { return saved[i] })
	c.Res.Extra["B_runs"] = done
	c.Res.Extra["B_seconds"] = time.Since(t0).Seconds()
}

// c05RunCase runs one generated simulation and evaluates the property on its result files.
func c05RunCase(c *vh.Ctx, root string, cs *c05Case) (modelLine, implLine string, ok bool) {
	p := cs.Project
	replay := func() interface{} { return cs }
	if err := p.Write(root, c.Repo); err != nil {
		c.Violate("correspondence", "run:write", err.Error(), nil)
		return
	}
	dir := filepath.Join(root, "project", p.Name)
	os.WriteFile(filepath.Join(dir, "dailyout_conf.yml"), []byte(cs.Daily.YAML()), 0o644)
	os.WriteFile(filepath.Join(dir, "yearlyout_conf.yml"), []byte(cs.Yearly.YAML()), 0o644)
	os.WriteFile(filepath.Join(dir, "cropout_conf.yml"), []byte(cs.Crop.YAML()), 0o644)
	// probes: BEGINN / ENDE as the loop sees them, AKF.Index per day
	beginn, ende := 0, 0
	akfAfter := map[int]int{}
	res := proj.Run(root, p, &hermes.VerifProbes{
		DayEnd: func(g *hermes.GlobalVarsMain, w *hermes.WaterSharedVars, nn *hermes.NitroSharedVars, cc *hermes.CropSharedVars, zeit int) {
			if beginn == 0 {
				beginn = g.BEGINN
			}
			ende = g.ENDE
			akfAfter[zeit] = g.AKF.Index
		},
	})
	if res.Err != nil || res.Panic != "" {
		c.Count("B:run-failed")
		c.Note("run %s failed: err=%v panic=%s", p.Name, res.Err, res.Panic)
		if res.Panic != "" {
			c.Violate("search", "run:panic", fmt.Sprintf("the simulation panicked: %s", res.Panic), replay())
		}
		return
	}
	start, endCfg := p.Start(), p.End()
	// the end date as the property reading of DESIGN §6 takes it: extended to the day after the
	// annual output date of the end year when that date is not before the configured end
	endExt := endCfg
	annEnd := proj.Date{Y: endCfg.Y, M: cs.AnnM, D: cs.AnnD}
	if annEnd.Z() >= endCfg.Z() {
		endExt = annEnd.AddDays(1)
		c.Count("B:end-extended-to-annual-date+1")
	} else {
		c.Count("B:end-as-configured")
	}
	kClass := "k=0"
	if cs.Interval == 1 {
		kClass = "k=1"
	} else if cs.Interval > 1 {
		kClass = "k>1"
	}
	styleName := []string{"fixed", "csv"}[cs.Style]
	c.Count("B:" + kClass)
	c.Count("B:style-" + styleName)
	if cs.Dense {
		c.Count("B:dense-rotation")
	}
	c.Count(fmt.Sprintf("B:dateformat-%d", p.DateFmt))

	// ---------------- daily file
	vRecs, _ := c05ParseFile(c, "daily", res.Out.File("V"), cs.Daily, cs.Style, replay)
	var dz []int
	for i, f := range vRecs {
		if len(f) < 1 {
			continue
		}
		d, okd := c05ParseDate(f[0], p.DateFmt)
		if !okd {
			c.Violate("search", "daily:date-invalid", fmt.Sprintf("daily record %d carries the date %q which is not a calendar date", i+1, f[0]), replay())
			continue
		}
		dz = append(dz, d.Z())
	}
	var expect []int
	if cs.Interval > 0 {
		for z := start.Z(); z <= endExt.Z(); z++ {
			if z%cs.Interval == 0 {
				expect = append(expect, z)
			}
		}
	}
	c05CompareDays(c, "daily:"+kClass, dz, expect, start, endExt, replay)
	if cs.Interval == 1 {
		for i := 1; i < len(dz); i++ {
			if dz[i] != dz[i-1]+1 {
				c.Violate("search", "daily:k=1:not-consecutive:"+c05DayClass(proj.FromZ(dz[i]), start, endExt),
					fmt.Sprintf("daily records %d and %d are dated %v and %v (not consecutive calendar days)", i, i+1, proj.FromZ(dz[i-1]), proj.FromZ(dz[i])), replay())
				break
			}
		}
		for _, z := range dz {
			if d := proj.FromZ(z); d.M == 2 && d.D == 29 {
				c.Count("B:leap-day-records")
			}
		}
	}

	// ---------------- yearly file
	yRecs, _ := c05ParseFile(c, "yearly", res.Out.File("Y"), cs.Yearly, cs.Style, replay)
	var yz []int
	byYear := map[int][]proj.Date{}
	for i, f := range yRecs {
		if len(f) < 1 {
			continue
		}
		d, okd := c05ParseDate(f[0], p.DateFmt)
		if !okd {
			c.Violate("search", "yearly:date-invalid", fmt.Sprintf("yearly record %d carries the date %q", i+1, f[0]), replay())
			continue
		}
		if len(yz) > 0 && d.Z() <= yz[len(yz)-1] {
			c.Violate("search", "yearly:order", fmt.Sprintf("yearly record %d (%v) is not after its predecessor", i+1, d), replay())
		}
		yz = append(yz, d.Z())
		byYear[d.Y] = append(byYear[d.Y], d)
	}
	annClass := "other"
	switch {
	case cs.AnnM == 12 && cs.AnnD == 31:
		annClass = "dec31"
	case cs.AnnM == 1 && cs.AnnD == 1:
		annClass = "jan1"
	case cs.AnnM <= 2:
		annClass = "before-march"
	}
	for y := start.Y; y <= endExt.Y; y++ {
		want := proj.Date{Y: y, M: cs.AnnM, D: cs.AnnD}
		if cs.AnnM == 2 && cs.AnnD == 29 && (!c05IsLeap(endCfg.Y) || !c05IsLeap(y)) {
			want = proj.Date{Y: y, M: 3, D: 1}
			c.Count("B:annual-date-29.02-written-01.03")
		}
		inWin := want.Z() >= start.Z() && want.Z() <= endExt.Z()
		got := byYear[y]
		good := (inWin && len(got) == 1 && got[0] == want) || (!inWin && len(got) == 0)
		c.Eval()
		if good {
			if inWin {
				c.Count("B:yearly-record-on-date")
			}
			continue
		}
		// classify: the trigger is the day-of-year of the configured date *in the end year*
		sig := "yearly:count"
		if len(got) == 1 {
			sig = "yearly:date"
		}
		// the known defect: the trigger is min(365, day-of-year of the configured date in the END year)
		outday := annEnd.DOY()
		if outday > 365 {
			outday = 365
		}
		byDoy := proj.Date{Y: y, M: 1, D: 1}.AddDays(outday - 1)
		byDoyIn := byDoy.Z() >= start.Z() && byDoy.Z() <= endExt.Z()
		asKeyedByDoy := (byDoyIn && len(got) == 1 && got[0] == byDoy) || (!byDoyIn && len(got) == 0)
		if asKeyedByDoy && cs.AnnM >= 3 && c05IsLeap(y) != c05IsLeap(endCfg.Y) {
			sig = "yearly:leap-shift"
		} else if asKeyedByDoy && cs.AnnM == 12 && cs.AnnD == 31 && c05IsLeap(endCfg.Y) && c05IsLeap(y) {
			sig = "yearly:dec31-cap365"
		}
		c.Count("B:" + sig)
		c.Violate("search", sig,
			fmt.Sprintf("annual output date %02d.%02d., end year %d (%s), simulated year %d (%s): expected %s, the yearly file has %v for that year (window %v … %v)",
				cs.AnnD, cs.AnnM, endCfg.Y, c05LeapWord(endCfg.Y), y, c05LeapWord(y), c05WantWords(inWin, want), got, start, endExt), replay())
	}

	// ---------------- crop file
	cRecs, _ := c05ParseFile(c, "crop", res.Out.File("C"), cs.Crop, cs.Style, replay)
	type crec struct {
		z    int
		crop string
	}
	var got []crec
	for i, f := range cRecs {
		if len(f) < 3 {
			continue
		}
		hy, e1 := strconv.Atoi(strings.TrimSpace(f[0]))
		doy, e2 := strconv.Atoi(strings.TrimSpace(f[1]))
		if e1 != nil || e2 != nil || hy < 1901 {
			c.Violate("search", "crop:record-invalid", fmt.Sprintf("crop record %d has harvest year %q / day %q", i+1, f[0], f[1]), replay())
			continue
		}
		got = append(got, crec{proj.Date{Y: hy, M: 1, D: 1}.AddDays(doy - 1).Z(), strings.TrimSpace(f[2])})
	}
	var want []crec
	for i := 1; i < len(p.Rot); i++ {
		if h := p.Rot[i].Harvest.Z(); h <= endExt.Z() {
			want = append(want, crec{h, p.Rot[i].Crop})
		}
	}
	c.Eval()
	cropOK := len(got) == len(want)
	for i := 0; cropOK && i < len(got); i++ {
		cropOK = got[i] == want[i]
	}
	if !cropOK {
		cls := "mismatch"
		switch {
		case len(got) < len(want):
			cls = "missing"
			// which harvest is missing?
			for i := range want {
				if i >= len(got) || got[i] != want[i] {
					h := proj.FromZ(want[i].z)
					if h.M == cs.AnnM && h.D == cs.AnnD {
						cls += ":harvest-on-annual-day"
					} else if want[i].z == endExt.Z() {
						cls += ":harvest-on-last-day"
					}
					break
				}
			}
		case len(got) > len(want):
			cls = "extra"
		}
		c.Violate("search", "crop:"+cls, fmt.Sprintf("crop file has %d records %v, the rotation has %d harvested crops %v (window %v … %v)", len(got), got, len(want), want, start, endExt), replay())
	}
	for _, w := range want {
		h := proj.FromZ(w.z)
		if h.M == cs.AnnM && h.D == cs.AnnD {
			c.Count("B:harvest-on-annual-day")
		}
		if w.z == endExt.Z() {
			c.Count("B:harvest-on-last-day")
		}
	}
	c.Nontrivial(fmt.Sprintf("B:%s:%s:%s:%v:%v:d%d:y%d:c%d", kClass, styleName, annClass, endExt != endCfg, cs.Dense, len(dz), len(yz), len(got)))
	if len(c.Res.Samples) < 5 {
		c.Sample(map[string]interface{}{"start": start.String(), "end": endCfg.String(), "end_effective": endExt.String(), "annual": fmt.Sprintf("%02d.%02d.", cs.AnnD, cs.AnnM),
			"interval": cs.Interval, "style": styleName, "daily_records": len(dz), "yearly_records": len(yz), "crop_records": len(got), "rotation": len(p.Rot) - 1,
			"daily_columns": len(cs.Daily.Cols), "yearly_columns": len(cs.Yearly.Cols), "crop_columns": len(cs.Crop.Cols)})
	}

	// ---------------- correspondence with the loop model
	var hs []string
	for _, r := range p.Rot {
		hs = append(hs, fmt.Sprint(r.Harvest.Z()))
	}
	modelLine = fmt.Sprintf("output.loop %d %d %d %d %d %d %d %d %d %d %s", start.Y-1900, start.M, start.D, endCfg.Y-1900, endCfg.M, endCfg.D, cs.AnnM, cs.AnnD, cs.Interval, len(hs), strings.Join(hs, " "))
	var b strings.Builder
	fmt.Fprintf(&b, "b %d e %d d %d", beginn, ende, len(dz))
	for _, z := range dz {
		fmt.Fprintf(&b, " %d", z)
	}
	fmt.Fprintf(&b, " y %d", len(yz))
	for _, z := range yz {
		fmt.Fprintf(&b, " %d", z)
	}
	fmt.Fprintf(&b, " c %d", 2*len(got))
	for _, g := range got {
		akf := 0
		if after, ok := akfAfter[g.z]; ok {
			if before, ok2 := akfAfter[g.z-1]; ok2 && after == before+1 {
				akf = before
			} else if !ok2 {
				akf = after - 1
			}
		}
		fmt.Fprintf(&b, " %d %d", g.z, akf)
	}
	return modelLine, b.String(), true
}

func c05LeapWord(y int) string {
	if c05IsLeap(y) {
		return "leap"
	}
	return "not leap"
}

func c05WantWords(inWin bool, d proj.Date) string {
	if inWin {
		return "exactly one record dated " + d.String()
	}
	return "no record (" + d.String() + " is outside the simulated period)"
}

// c05CompareDays reports the first difference between the written and the expected day numbers.
func c05CompareDays(c *vh.Ctx, prefix string, got, want []int, start, end proj.Date, replay func() interface{}) {
	c.Eval()
	seen := map[int]int{}
	for _, z := range got {
		seen[z]++
	}
	for i := 1; i < len(got); i++ {
		if got[i] <= got[i-1] {
			sig := prefix + ":order"
			if got[i] == got[i-1] {
				sig = prefix + ":duplicate"
			}
			c.Violate("search", sig+":"+c05DayClass(proj.FromZ(got[i]), start, end), fmt.Sprintf("daily records %d and %d are dated %v and %v", i, i+1, proj.FromZ(got[i-1]), proj.FromZ(got[i])), replay())
			return
		}
	}
	wantSet := map[int]bool{}
	for _, z := range want {
		wantSet[z] = true
		if seen[z] == 0 {
			c.Violate("search", prefix+":missing:"+c05DayClass(proj.FromZ(z), start, end),
				fmt.Sprintf("no daily record for %v (day number %d) although it lies in %v … %v and matches the interval; %d records written, %d expected", proj.FromZ(z), z, start, end, len(got), len(want)), replay())
			return
		}
	}
	for _, z := range got {
		if !wantSet[z] {
			c.Violate("search", prefix+":extra:"+c05DayClass(proj.FromZ(z), start, end),
				fmt.Sprintf("daily record for %v (day number %d) which is outside %v … %v or not a multiple of the interval; %d records written, %d expected", proj.FromZ(z), z, start, end, len(got), len(want)), replay())
			return
		}
	}
}

var _ = utf8.RuneCountInString
