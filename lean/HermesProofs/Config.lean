/-
Lemmas about the configuration overlay (C14): what one override step and the whole loop do to a
lookup, commutation of steps with different keys (so the random order of the Go map range is
irrelevant), the argument map, the file layer.  Core Lean only.
-/
import HermesModel.Config
namespace Hermes.Config

/-! ### lookup -/

theorem lookup_cons {β : Type} (n : String) (x : β) (r : List (String × β)) (k : String) :
    lookup ((n, x) :: r) k = if n = k then some x else lookup r k := rfl

theorem lookup_eq_none_iff {β : Type} (t : List (String × β)) (k : String) :
    lookup t k = none ↔ k ∉ t.map (·.1) := by
  induction t with
  | nil => simp [lookup]
  | cons e r ih =>
    obtain ⟨n, x⟩ := e
    by_cases h : n = k
    · simp [lookup_cons, h]
    · have h' : ¬ k = n := fun e => h e.symm
      simp [lookup_cons, h, h', ih]

theorem lookup_of_keys_eq {β γ : Type} (t : List (String × β)) (u : List (String × γ))
    (h : t.map (·.1) = u.map (·.1)) (k : String) : lookup t k = none ↔ lookup u k = none := by
  rw [lookup_eq_none_iff, lookup_eq_none_iff, h]

section
variable {F : Type} (pf : String → Option F)

/-! ### one override step -/

theorem overrideKey_cons (n : String) (x : Val F) (r : Table F) (k v : String) :
    overrideKey pf ((n, x) :: r) k v =
      if n = k then (overrideVal pf x v).map fun y => (n, y) :: r
      else (overrideKey pf r k v).map fun r' => (n, x) :: r' := rfl

theorem overrideKey_keys (t t' : Table F) (k v : String) (h : overrideKey pf t k v = some t') :
    t'.map (·.1) = t.map (·.1) := by
  induction t generalizing t' with
  | nil => simp [overrideKey] at h; subst h; rfl
  | cons e r ih =>
    obtain ⟨n, x⟩ := e
    rw [overrideKey_cons] at h
    by_cases hn : n = k
    · rw [if_pos hn] at h
      cases hv : overrideVal pf x v with
      | none => simp [hv] at h
      | some y => simp [hv] at h; subst h; rfl
    · rw [if_neg hn] at h
      cases hr : overrideKey pf r k v with
      | none => simp [hr] at h
      | some r' =>
        simp [hr] at h; subst h
        simp [ih r' hr]

/-- the step changes the field named by the key and nothing else -/
theorem lookup_overrideKey (t t' : Table F) (k v : String) (h : overrideKey pf t k v = some t')
    (k' : String) :
    lookup t' k' = if k' = k then (match lookup t k with
                                    | none => none
                                    | some x => overrideVal pf x v)
                   else lookup t k' := by
  induction t generalizing t' with
  | nil =>
    simp [overrideKey] at h; subst h
    by_cases hk : k' = k <;> simp [lookup, hk]
  | cons e r ih =>
    obtain ⟨n, x⟩ := e
    rw [overrideKey_cons] at h
    by_cases hn : n = k
    · rw [if_pos hn] at h
      cases hv : overrideVal pf x v with
      | none => simp [hv] at h
      | some y =>
        simp [hv] at h; subst h
        by_cases hk : k' = k
        · subst hk; subst hn; simp [lookup_cons, hv]
        · have : ¬ n = k' := fun e => hk (e ▸ hn)
          simp [lookup_cons, hk, this]
    · rw [if_neg hn] at h
      cases hr : overrideKey pf r k v with
      | none => simp [hr] at h
      | some r' =>
        simp [hr] at h; subst h
        have := ih r' hr
        by_cases hk : k' = k
        · subst hk
          simp [lookup_cons, hn, this]
        · by_cases hnk : n = k'
          · simp [lookup_cons, hnk, hk]
          · simp [lookup_cons, hnk, hk, this]

/-- a key that is no field: nothing happens -/
theorem overrideKey_unknown (t : Table F) (k v : String) (h : lookup t k = none) :
    overrideKey pf t k v = some t := by
  induction t with
  | nil => rfl
  | cons e r ih =>
    obtain ⟨n, x⟩ := e
    rw [lookup_cons] at h
    by_cases hn : n = k
    · simp [hn] at h
    · rw [if_neg hn] at h
      rw [overrideKey_cons, if_neg hn, ih h]; rfl

theorem map_cons_bind_overrideKey (o : Option (Table F)) (n : String) (x : Val F) (k v : String)
    (hn : ¬ n = k) :
    (o.map fun r' => (n, x) :: r').bind (fun t' => overrideKey pf t' k v) =
      (o.bind fun t' => overrideKey pf t' k v).map fun r' => (n, x) :: r' := by
  cases o with
  | none => rfl
  | some r1 => simp [overrideKey_cons, hn]

/-- steps with different keys commute (also in their failure) -/
theorem overrideKey_comm (t : Table F) (k1 v1 k2 v2 : String) (hne : k1 ≠ k2) :
    (overrideKey pf t k1 v1).bind (fun t' => overrideKey pf t' k2 v2) =
    (overrideKey pf t k2 v2).bind (fun t' => overrideKey pf t' k1 v1) := by
  induction t with
  | nil => rfl
  | cons e r ih =>
    obtain ⟨n, x⟩ := e
    by_cases h1 : n = k1
    · subst h1
      have h2 : ¬ n = k2 := hne
      rw [overrideKey_cons, if_pos rfl, overrideKey_cons, if_neg h2]
      cases hv : overrideVal pf x v1 with
      | none =>
        cases hr : overrideKey pf r k2 v2 with
        | none => rfl
        | some r' => simp [overrideKey_cons, hv]
      | some y =>
        cases hr : overrideKey pf r k2 v2 with
        | none => simp [overrideKey_cons, h2, hr]
        | some r' => simp [overrideKey_cons, h2, hr, hv]
    · by_cases h2 : n = k2
      · subst h2
        rw [overrideKey_cons, if_neg h1, overrideKey_cons, if_pos rfl]
        cases hv : overrideVal pf x v2 with
        | none =>
          cases hr : overrideKey pf r k1 v1 with
          | none => rfl
          | some r' => simp [overrideKey_cons, hv]
        | some y =>
          cases hr : overrideKey pf r k1 v1 with
          | none => simp [overrideKey_cons, h1, hr]
          | some r' => simp [overrideKey_cons, h1, hr, hv]
      · rw [overrideKey_cons, if_neg h1, overrideKey_cons, if_neg h2,
          map_cons_bind_overrideKey pf _ n x k2 v2 h2, map_cons_bind_overrideKey pf _ n x k1 v1 h1, ih]

/-! ### the loop over the argument map -/

theorem overrideAll_cons (t : Table F) (k v : String) (m : List (String × String)) :
    overrideAll pf t ((k, v) :: m) = (overrideKey pf t k v).bind fun t' => overrideAll pf t' m := by
  cases h : overrideKey pf t k v <;> simp [overrideAll, h]

theorem overrideAll_keys (t t' : Table F) (m : List (String × String))
    (h : overrideAll pf t m = some t') : t'.map (·.1) = t.map (·.1) := by
  induction m generalizing t with
  | nil => simp [overrideAll] at h; subst h; rfl
  | cons e m ih =>
    obtain ⟨k, v⟩ := e
    rw [overrideAll_cons] at h
    cases h1 : overrideKey pf t k v with
    | none => simp [h1] at h
    | some t1 =>
      simp [h1] at h
      rw [ih t1 h, overrideKey_keys pf t t1 k v h1]

/-- the order in which the loop visits the entries of the map is irrelevant -/
theorem overrideAll_perm (m1 m2 : List (String × String)) (hp : m1.Perm m2)
    (hnd : (m1.map (·.1)).Nodup) (t : Table F) : overrideAll pf t m1 = overrideAll pf t m2 := by
  induction hp generalizing t with
  | nil => rfl
  | cons x _ ih =>
    obtain ⟨k, v⟩ := x
    rw [overrideAll_cons, overrideAll_cons]
    have hnd' : (_ : List String).Nodup := (List.nodup_cons.mp hnd).2
    cases overrideKey pf t k v with
    | none => rfl
    | some t1 => exact ih hnd' t1
  | swap x y l =>
    obtain ⟨k1, v1⟩ := x
    obtain ⟨k2, v2⟩ := y
    have hne : k2 ≠ k1 := by
      have := (List.nodup_cons.mp hnd).1
      intro e; apply this; simp [e]
    rw [overrideAll_cons, overrideAll_cons]
    have c := overrideKey_comm pf t k2 v2 k1 v1 hne
    have e1 : ((overrideKey pf t k2 v2).bind fun t' => overrideAll pf t' ((k1, v1) :: l)) =
        ((overrideKey pf t k2 v2).bind fun t' => overrideKey pf t' k1 v1).bind fun t'' => overrideAll pf t'' l := by
      cases overrideKey pf t k2 v2 with
      | none => rfl
      | some t1 => simp [overrideAll_cons]
    have e2 : ((overrideKey pf t k1 v1).bind fun t' => overrideAll pf t' ((k2, v2) :: l)) =
        ((overrideKey pf t k1 v1).bind fun t' => overrideKey pf t' k2 v2).bind fun t'' => overrideAll pf t'' l := by
      cases overrideKey pf t k1 v1 with
      | none => rfl
      | some t1 => simp [overrideAll_cons]
    rw [e1, e2, c]
  | trans h1 _ ih1 ih2 =>
    have hnd2 := (h1.map (·.1)).nodup_iff.mp hnd
    rw [ih1 hnd t, ih2 hnd2 t]

/-- what the loop does to one field: the argument of that name, if any, is applied to it -/
theorem lookup_overrideAll (m : List (String × String)) (hnd : (m.map (·.1)).Nodup) (t t' : Table F)
    (h : overrideAll pf t m = some t') (k : String) :
    lookup t' k = match lookup m k with
                  | none => lookup t k
                  | some v => (match lookup t k with
                               | none => none
                               | some x => overrideVal pf x v) := by
  induction m generalizing t with
  | nil => simp [overrideAll] at h; subst h; rfl
  | cons e m ih =>
    obtain ⟨k0, v0⟩ := e
    have hnd' : k0 ∉ m.map (·.1) ∧ (m.map (·.1)).Nodup := List.nodup_cons.mp hnd
    rw [overrideAll_cons] at h
    cases h1 : overrideKey pf t k0 v0 with
    | none => simp [h1] at h
    | some t1 =>
      simp [h1] at h
      have hi := ih hnd'.2 t1 h
      have hl := lookup_overrideKey pf t t1 k0 v0 h1 k
      by_cases hk : k0 = k
      · subst hk
        have hnone : lookup m k0 = none := (lookup_eq_none_iff m k0).mpr hnd'.1
        rw [hnone] at hi
        simp [lookup_cons, hi, hl]
      · have hk' : ¬ k = k0 := fun e => hk e.symm
        rw [if_neg hk'] at hl
        simp only [lookup_cons, if_neg hk]
        rw [hi, hl]

/-! ### idempotence -/

theorem overrideVal_idem (x y : Val F) (v : String) (h : overrideVal pf x v = some y) :
    overrideVal pf y v = some y := by
  cases x with
  | float a =>
    simp only [overrideVal] at h
    cases hp : pf v with
    | none => simp [hp] at h
    | some z => simp [hp] at h; subst h; simp [overrideVal, hp]
  | int a =>
    simp only [overrideVal] at h
    cases hp : parseInt64 v with
    | none => simp [hp] at h
    | some z => simp [hp] at h; subst h; simp [overrideVal, hp]
  | text a => simp [overrideVal] at h; subst h; simp [overrideVal]
  | switch b =>
    simp only [overrideVal, Option.some.injEq] at h; subst h
    cases hs : switchOf v <;> simp [overrideVal, hs]
  | other => simp [overrideVal] at h; subst h; simp [overrideVal]

theorem overrideKey_idem (t t1 : Table F) (k v : String) (h : overrideKey pf t k v = some t1) :
    overrideKey pf t1 k v = some t1 := by
  induction t generalizing t1 with
  | nil => simp [overrideKey] at h; subst h; rfl
  | cons e r ih =>
    obtain ⟨n, x⟩ := e
    rw [overrideKey_cons] at h
    by_cases hn : n = k
    · rw [if_pos hn] at h
      cases hv : overrideVal pf x v with
      | none => simp [hv] at h
      | some y =>
        simp [hv] at h; subst h
        rw [overrideKey_cons, if_pos hn, overrideVal_idem pf x y v hv]; rfl
    · rw [if_neg hn] at h
      cases hr : overrideKey pf r k v with
      | none => simp [hr] at h
      | some r' =>
        simp [hr] at h; subst h
        rw [overrideKey_cons, if_neg hn, ih r' hr]; rfl

/-- a step whose key does not occur in the map can be moved across the whole loop -/
theorem overrideAll_comm_key (m : List (String × String)) (k v : String) (hk : k ∉ m.map (·.1))
    (t : Table F) :
    (overrideAll pf t m).bind (fun t' => overrideKey pf t' k v) =
      (overrideKey pf t k v).bind fun t' => overrideAll pf t' m := by
  induction m generalizing t with
  | nil =>
    cases h : overrideKey pf t k v <;> simp [overrideAll, h]
  | cons e m ih =>
    obtain ⟨k', v'⟩ := e
    have hk' : k' ≠ k ∧ k ∉ m.map (·.1) := by
      simp only [List.map_cons, List.mem_cons, not_or] at hk
      exact ⟨fun e => hk.1 e.symm, hk.2⟩
    rw [overrideAll_cons]
    have e1 : ((overrideKey pf t k' v').bind fun t' => overrideAll pf t' m).bind (fun t' => overrideKey pf t' k v) =
        (overrideKey pf t k' v').bind fun t' => (overrideKey pf t' k v).bind fun t'' => overrideAll pf t'' m := by
      cases overrideKey pf t k' v' with
      | none => rfl
      | some ta => simp [ih hk'.2 ta]
    have e2 : ((overrideKey pf t k v).bind fun t' => overrideAll pf t' ((k', v') :: m)) =
        ((overrideKey pf t k v).bind fun t' => overrideKey pf t' k' v').bind fun t'' => overrideAll pf t'' m := by
      cases overrideKey pf t k v with
      | none => rfl
      | some ta => simp [overrideAll_cons]
    have e3 : ((overrideKey pf t k' v').bind fun t' => (overrideKey pf t' k v).bind fun t'' => overrideAll pf t'' m) =
        ((overrideKey pf t k' v').bind fun t' => overrideKey pf t' k v).bind fun t'' => overrideAll pf t'' m := by
      cases overrideKey pf t k' v' <;> rfl
    rw [e1, e2, e3, overrideKey_comm pf t k' v' k v hk'.1]

/-- applying the same argument map to its own result changes nothing -/
theorem overrideAll_idem (m : List (String × String)) (hnd : (m.map (·.1)).Nodup) (t t1 : Table F)
    (h : overrideAll pf t m = some t1) : overrideAll pf t1 m = some t1 := by
  induction m generalizing t with
  | nil => rfl
  | cons e m ih =>
    obtain ⟨k, v⟩ := e
    have hnd' : k ∉ m.map (·.1) ∧ (m.map (·.1)).Nodup := List.nodup_cons.mp hnd
    rw [overrideAll_cons] at h
    cases h1 : overrideKey pf t k v with
    | none => simp [h1] at h
    | some ta =>
      simp [h1] at h
      have hc := overrideAll_comm_key pf m k v hnd'.1 ta
      rw [h, overrideKey_idem pf t ta k v h1] at hc
      simp only [Option.bind_some] at hc
      rw [h] at hc
      rw [overrideAll_cons, hc]
      exact ih hnd'.2 ta h

/-- entries whose key is no field can be dropped from the map -/
theorem overrideAll_filter (p : String → Bool) (m : List (String × String)) (t : Table F)
    (hp : ∀ k, p k = false → lookup t k = none) :
    overrideAll pf t m = overrideAll pf t (m.filter fun kv => p kv.1) := by
  induction m generalizing t with
  | nil => rfl
  | cons e m ih =>
    obtain ⟨k, v⟩ := e
    cases hpk : p k with
    | false =>
      rw [List.filter_cons_of_neg (by simp [hpk]), overrideAll_cons,
        overrideKey_unknown pf t k v (hp k hpk)]
      exact ih t hp
    | true =>
      rw [List.filter_cons_of_pos (by simp [hpk]), overrideAll_cons, overrideAll_cons]
      cases h1 : overrideKey pf t k v with
      | none => rfl
      | some t1 =>
        apply ih t1
        intro k' hk'
        have := lookup_overrideKey pf t t1 k v h1 k'
        rw [this]
        by_cases e : k' = k
        · subst e; rw [hpk] at hk'; cases hk'
        · rw [if_neg e]; exact hp k' hk'

end

/-! ### the argument map -/

theorem lookup_insertArg (m : List (String × String)) (k v k' : String) :
    lookup (insertArg m k v) k' = if k' = k then some v else lookup m k' := by
  induction m with
  | nil =>
    by_cases h : k' = k
    · simp [insertArg, lookup, h]
    · have : ¬ k = k' := fun e => h e.symm
      simp [insertArg, lookup, h, this]
  | cons e r ih =>
    obtain ⟨n, x⟩ := e
    by_cases hn : n = k
    · by_cases h : k' = k
      · simp [insertArg, lookup_cons, hn, h]
      · have : ¬ k = k' := fun e => h e.symm
        simp [insertArg, lookup_cons, hn, h, this]
    · by_cases h : k' = k
      · have : ¬ n = k' := fun e => hn (e.trans h)
        simp [insertArg, lookup_cons, hn, h]
        simpa [h] using ih
      · simp [insertArg, lookup_cons, hn, h, ih]

theorem keys_insertArg_mem (m : List (String × String)) (k v : String) (hk : k ∈ m.map (·.1)) :
    (insertArg m k v).map (·.1) = m.map (·.1) := by
  induction m with
  | nil => simp at hk
  | cons e r ih =>
    obtain ⟨n, x⟩ := e
    by_cases hn : n = k
    · simp [insertArg, hn]
    · have : k ∈ r.map (·.1) := by
        simp only [List.map_cons, List.mem_cons] at hk
        rcases hk with h | h
        · exact absurd h.symm hn
        · exact h
      simp [insertArg, hn, ih this]

theorem insertArg_not_mem (m : List (String × String)) (k v : String) (hk : k ∉ m.map (·.1)) :
    insertArg m k v = m ++ [(k, v)] := by
  induction m with
  | nil => rfl
  | cons e r ih =>
    obtain ⟨n, x⟩ := e
    simp only [List.map_cons, List.mem_cons, not_or] at hk
    have hn : ¬ n = k := fun e => hk.1 e.symm
    simp [insertArg, hn, ih hk.2]

theorem keys_insertArg_nodup (m : List (String × String)) (k v : String)
    (h : (m.map (·.1)).Nodup) : ((insertArg m k v).map (·.1)).Nodup := by
  by_cases hk : k ∈ m.map (·.1)
  · rw [keys_insertArg_mem m k v hk]; exact h
  · rw [insertArg_not_mem m k v hk]
    simp only [List.map_append, List.map_cons, List.map_nil]
    rw [List.nodup_append]
    refine ⟨h, by simp, ?_⟩
    intro a ha b hb
    simp at hb; subst hb
    intro e; exact hk (e ▸ ha)

theorem foldl_insertArg_nodup (kvs acc : List (String × String)) (h : (acc.map (·.1)).Nodup) :
    ((kvs.foldl (fun m kv => insertArg m kv.1 kv.2) acc).map (·.1)).Nodup := by
  induction kvs generalizing acc with
  | nil => exact h
  | cons e r ih => exact ih _ (keys_insertArg_nodup acc e.1 e.2 h)

/-- the map has every key once -/
theorem argMapKV_nodup (kvs : List (String × String)) : ((argMapKV kvs).map (·.1)).Nodup :=
  foldl_insertArg_nodup kvs [] (by simp)

theorem foldl_insertArg_of_nodup (kvs acc : List (String × String))
    (h : ((acc ++ kvs).map (·.1)).Nodup) :
    kvs.foldl (fun m kv => insertArg m kv.1 kv.2) acc = acc ++ kvs := by
  induction kvs generalizing acc with
  | nil => simp
  | cons e r ih =>
    obtain ⟨k, v⟩ := e
    have hk : k ∉ acc.map (·.1) := by
      simp only [List.map_append, List.map_cons] at h
      rw [List.nodup_append] at h
      intro hm
      exact h.2.2 k hm k (List.mem_cons_self ..) rfl
    simp only [List.foldl_cons]
    rw [insertArg_not_mem acc k v hk, ih]
    · simp
    · simpa using h

/-- with pairwise distinct keys the map is the list itself -/
theorem argMapKV_of_nodup (kvs : List (String × String)) (h : (kvs.map (·.1)).Nodup) :
    argMapKV kvs = kvs := by
  have := foldl_insertArg_of_nodup kvs [] (by simpa using h)
  simpa [argMapKV] using this

theorem argMapKV_snoc (kvs : List (String × String)) (k v : String) :
    argMapKV (kvs ++ [(k, v)]) = insertArg (argMapKV kvs) k v := by
  simp [argMapKV, List.foldl_append]

theorem insertArg_filter (p : String → Bool) (m : List (String × String)) (k v : String) :
    (insertArg m k v).filter (fun kv => p kv.1) =
      if p k then insertArg (m.filter fun kv => p kv.1) k v else m.filter fun kv => p kv.1 := by
  induction m with
  | nil => cases hp : p k <;> simp [insertArg, hp]
  | cons e r ih =>
    obtain ⟨n, x⟩ := e
    by_cases hn : n = k
    · subst hn
      cases hp : p n <;> simp [insertArg, hp]
    · cases hp : p k <;> cases hpn : p n <;> simp [insertArg, hn, hp, hpn] at ih ⊢ <;>
        exact ih

theorem foldl_insertArg_filter (p : String → Bool) (kvs acc : List (String × String)) :
    (kvs.filter fun kv => p kv.1).foldl (fun m kv => insertArg m kv.1 kv.2) (acc.filter fun kv => p kv.1) =
      (kvs.foldl (fun m kv => insertArg m kv.1 kv.2) acc).filter fun kv => p kv.1 := by
  induction kvs generalizing acc with
  | nil => rfl
  | cons e r ih =>
    obtain ⟨k, v⟩ := e
    simp only [List.foldl_cons]
    rw [← ih (insertArg acc k v), insertArg_filter]
    cases hp : p k with
    | false => rw [List.filter_cons_of_neg (by simp [hp])]; simp
    | true => rw [List.filter_cons_of_pos (by simp [hp])]; simp

theorem argMapKV_filter (p : String → Bool) (kvs : List (String × String)) :
    argMapKV (kvs.filter fun kv => p kv.1) = (argMapKV kvs).filter fun kv => p kv.1 := by
  have := foldl_insertArg_filter p kvs []
  simpa [argMapKV] using this

/-! ### the file layer -/

section
variable {F : Type}

theorem applyFile_cons (n : String) (x : Val F) (r : Table F) (file : List (String × FileVal F)) :
    applyFile ((n, x) :: r) file =
      match (match lookup file n with
             | none => some x
             | some fv => decodeFile (codecOf n) x fv), applyFile r file with
      | some y, some r' => some ((n, y) :: r')
      | _, _ => none := rfl

theorem applyFile_keys (t t' : Table F) (file : List (String × FileVal F))
    (h : applyFile t file = some t') : t'.map (·.1) = t.map (·.1) := by
  induction t generalizing t' with
  | nil => simp [applyFile] at h; subst h; rfl
  | cons e r ih =>
    obtain ⟨n, x⟩ := e
    rw [applyFile_cons] at h
    split at h
    · rename_i y r' _ hr
      simp at h; subst h
      simp [ih r' hr]
    · cases h

/-- a field takes the value of the file entry of its name, else it keeps its value -/
theorem lookup_applyFile (t t' : Table F) (file : List (String × FileVal F))
    (h : applyFile t file = some t') (k : String) (x : Val F) (hk : lookup t k = some x) :
    lookup t' k = match lookup file k with
                  | none => some x
                  | some fv => decodeFile (codecOf k) x fv := by
  induction t generalizing t' with
  | nil => simp [lookup] at hk
  | cons e r ih =>
    obtain ⟨n, x0⟩ := e
    rw [applyFile_cons] at h
    split at h
    · rename_i y r' hy hr
      simp at h; subst h
      rw [lookup_cons] at hk
      by_cases hn : n = k
      · subst hn
        simp at hk; subst hk
        simp [lookup_cons, hy]
      · rw [if_neg hn] at hk
        simp [lookup_cons, hn, ih r' hr hk]
    · cases h

/-! ### post-processing -/

theorem lookup_updText (k : String) (f : String → String) (t : Table F) (k' : String) (h : k' ≠ k) :
    lookup (updText k f t) k' = lookup t k' := by
  induction t with
  | nil => rfl
  | cons e r ih =>
    obtain ⟨n, x⟩ := e
    by_cases hn : n = k
    · subst hn
      have hne : ¬ n = k' := fun e => h e.symm
      simp [updText, lookup_cons, hne]
    · by_cases hnk : n = k'
      · subst hnk; simp [updText, hn, lookup_cons]
      · simp [updText, hn, lookup_cons, hnk, ih]

theorem lookup_updText_self (k : String) (f : String → String) (t : Table F) :
    lookup (updText k f t) k = (lookup t k).map fun x => match x with
      | .text s => .text (f s)
      | y => y := by
  induction t with
  | nil => rfl
  | cons e r ih =>
    obtain ⟨n, x⟩ := e
    by_cases hn : n = k
    · subst hn; simp [updText, lookup_cons]; cases x <;> rfl
    · simp [updText, hn, lookup_cons, ih]

end
end Hermes.Config
