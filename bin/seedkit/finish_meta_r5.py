import json, os, re, sys
log = open(sys.argv[1]).read()
notes = {
 'C02-r5-2': 'initially MISSED (no schedule had two irrigation lines on one day); after the class "two irrigation passes on one day, N in the water" (day input = concentration x water applied that day) DETECTED',
 'C04-r5-2': 'initially MISSED (optional columns were present or absent for the whole series); after the class "year file whose optional columns are blank after a year with values", the has-column flags in the model (runPerYearL) and the predicate value:<col>-of-another-date DETECTED with the failing day',
 'C05-r5-2': 'MISSED by C05 as in round 4 (the crop is never harvested: "one record per harvested crop" is not the broken clause); the same change as C16-r4-1 / C16-r5-1, DETECTED by C16 (rotation:entry-never-harvested:not-emerged)',
 'C07-r5-2': 'initially MISSED (no run had a groundwater table rising through rooted layers; dPESUM = dAUFNASUM holds for stale uptake too); after the rising-table runs and the predicate "an uptake the crop routine did not compute today is not credited" DETECTED',
 'C09-r5-2': 'initially MISSED (generated weather had no sunshine column and no gaps); after runs with a sunshine column and two-/three-day sensor outages in the growing season DETECTED',
 'C13-r5-1': 'initially MISSED (CSV measurement files had no empty cells); after files whose optional cells of unsampled depth classes are empty DETECTED',
 'C13-r5-2': 'initially MISSED (the third header line of the year files never carried a CO2 value); after the paired runs "CO2 per year: year files vs CO2 column of the day-of-year layout" DETECTED',
 'C15-r5-1': 'initially MISSED (table-route horizons never carried a pore volume); after horizons with a measured pore volume beside table FC/WP (soil 075a of ex3) DETECTED',
 'C18-r5-2': 'initially MISSED (a permanent crop never followed itself as preceding crop, INITCONCN* was only sampled); after the standing-sward scenarios with INITCONCNBIOM / INITCONCNROOT overridden DETECTED',
}
blocks = re.split(r'^== ', log, flags=re.M)
res_of = {}
for b in blocks[1:]:
    lines = b.splitlines()
    sid = lines[0].strip()
    verdict = next((l for l in lines if l.startswith('DETECTED') or l.startswith('MISSED') or 'patch does not apply' in l), 'not run')
    first = next((l.strip() for l in lines if l.strip().startswith('[')), '')
    res_of[sid] = (verdict, first)
for d in sorted(os.listdir('/verif/seeded')):
    if '-r5-' not in d: continue
    mp = os.path.join('/verif/seeded', d, 'meta.json')
    meta = json.load(open(mp))
    prop = d.split('-')[0]
    chk = 'C16' if d == 'C05-r5-2' else prop
    verdict, first = res_of.get(d, ('not run', ''))
    if verdict.startswith('DETECTED'):
        res = 'DETECTED by bin/run_check.sh %s quick: %s' % (chk, first[:300])
    else:
        res = verdict
    if d in notes:
        res = (res + ' — ' if res.startswith('DETECTED') else '') + notes[d]
    meta['property'] = prop
    meta['confirmed'] = 'bin/seedkit/confirm.sh: demonstration passes on the unchanged tree, fails with patch.diff applied (scratch worktree of /repo HEAD); all 1610 previously passing tests of the pinned suite still pass with the patch'
    meta['check_result'] = res
    meta['how_to_rerun'] = 'bin/mutate.sh seeded/%s/patch.diff %s   (applies the patch to /repo, runs the quick check, undoes the patch)' % (d, chk)
    json.dump(meta, open(mp, 'w'), indent=1, ensure_ascii=False)
    print(d, res[:110])
