package main

import (
	"verifharness/vh"

	"github.com/zalf-rpm/Hermes2Go/hermes"
)

// vernSrcImpStage: the Lean translation of the current source of vern (crop.go, translator v2) against the compiled
// function on generated states: every branch of the temperature cascade (incl. the boundary values 0, 3, 7, 9, 18 and -4 that
// fall through to "1" or "0"), vernalisation requirements below and above the cap of 9 days, factors below 0 and above 1.
func vernSrcImpStage(c *vh.Ctx, n int) {
	var sic []srcImpCase
	for k := 0; k < n; k++ {
		r := c.Rng.Fork()
		g := hermes.NewGlobalVarsMain()
		l := &hermes.CropSharedVars{}
		g.TAG.SetByIndex(r.Range(0, 364))
		temp := vh.RoundTo(r.Uni(-12, 30), 1)
		if r.Chance(0.25) {
			temp = []float64{-4, 0, 3, 7, 9, 18, -3.9, 2.9, 18.1}[r.Intn(9)]
		}
		g.TEMP[g.TAG.Index] = temp
		g.INTWICK.SetByIndex(r.Range(0, 5))
		vs := vh.RoundTo(r.Uni(0, 70), 0)
		if r.Chance(0.3) {
			vs = []float64{0, 1, 2, 9, 10, 1.5}[r.Intn(6)]
		}
		g.VSCHWELL[g.INTWICK.Index] = vs
		g.VERNTAGE = vh.RoundTo(r.Uni(0, 80), 2)
		if r.Chance(0.2) {
			g.VERNTAGE = 0
		}
		g.DT = hermes.NewDualType(1, 0)
		l.FV = vh.RoundTo(r.Uni(0, 1), 2)
		gg, ll := &g, l
		sic = append(sic, srcImpCase{Recv: map[string]interface{}{"g": gg, "l": ll}, Params: map[string]interface{}{},
			Call: func() { hermes.VerifVern(ll, gg) }, Desc: map[string]interface{}{"temp": temp, "vschwell": vs, "verntage": gg.VERNTAGE}})
		c.Count("srcimp.vern:temp-class:" + vernTempClass(temp))
	}
	correspondSrcImp(c, "vern", sic, 0, 0)
}

func vernTempClass(t float64) string {
	switch {
	case t < -4:
		return "<-4"
	case t < 0:
		return "(-4,0)"
	case t <= 3:
		return "[0,3]"
	case t < 7:
		return "(3,7)"
	case t < 9:
		return "[7,9)"
	case t < 18:
		return "[9,18)"
	}
	return ">=18"
}
