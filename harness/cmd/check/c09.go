package main

import (
	"encoding/json"
	"fmt"
	"math"
	"os"
	"path/filepath"
	"strconv"
	"strings"
	"time"

	"github.com/zalf-rpm/Hermes2Go/hermes"
	"verifharness/proj"
	"verifharness/vh"
)

func init() { register("C09", checkC09) }

// ------------------------------------------------------------------------------------------------
// C09 — crop state stays valid and development never runs backwards.
//
// search: whole simulations of every shipped parameter set of an annual main crop (classic and YAML)
//   x weather scenario (normal, drought, frost, wet + shallow groundwater, heat) x CO2 method 1-3
//   x N supply (none .. excess), observed through the DayStart / DayEnd probes: on every crop day
//   (sowing <= day < harvest) the listed state variables are finite and >= 0, the stress factors are
//   in [0,1], 1 <= WURZ <= min(N, root limit), INTWICK never decreases and advances by at most one;
//   from the crop result file: sowing <= emergence <= anthesis <= maturity <= harvest as dates.
// correspondence: the real PhytoOut's stage machine, organ/LAI update, REDUK and root depth of every
//   observed crop day are replayed through the Lean model (driver ops crop.*) with the observed inputs;
//   plus kernel states (boundary-biased) on which the real PhytoOut is called directly.
// ------------------------------------------------------------------------------------------------

type c09Replay struct {
	Project *proj.Project `json:"project"`
	Opt     proj.CropOpt  `json:"opt"`
	Day     *cropState    `json:"day_start,omitempty"`
	Post    *cropState    `json:"day_end,omitempty"`
	Note    string        `json:"note,omitempty"`
}

var c09Scenarios = []string{"normal", "drought", "frost", "wet", "heat"}

type c09Corr struct {
	stageCases, stageImpl []string
	organCases, organImpl []string
	redukCases, redukImpl []string
	rootCases, rootImpl   []string
	incrCases, incrImpl   []string
	stageDesc, organDesc  []string
	redukDesc, rootDesc   []string
	ncontCases, ncontImpl []string
	ncontDesc             []string
	maxPerKernel          int
}

func (k *c09Corr) room(n int) bool { return n < k.maxPerKernel }

func checkC09(c *vh.Ctx) {
	c.Res.Rule = "whole runs: one evaluation = one crop day (sowing <= day < harvest) of a generated simulation on which all state/stress/root/stage predicates of C09 were evaluated on the implementation; non-trivial = distinct (parameter set, format, scenario, CO2 method, N level, stage) cell with at least one crop day. kernel: boundary-biased states on which the real PhytoOut is called directly"
	sets := proj.AnnualParamSets(c.Repo)
	if len(sets) < 12 {
		c.Violate("search", "setup:paramsets", fmt.Sprintf("only %d annual parameter sets found under examples/parameter", len(sets)), nil)
		return
	}
	c.Res.Extra["param_sets"] = fmt.Sprint(sets)
	corr := &c09Corr{maxPerKernel: c.N(120000, 1200000)}
	if rp := os.Getenv("VERIF_REPLAY"); rp != "" {
		// replay of a recorded violation: run exactly that project again
		var rec struct {
			Replay struct {
				Project *proj.Project `json:"project"`
				Opt     proj.CropOpt  `json:"opt"`
			} `json:"replay"`
		}
		b, err := os.ReadFile(rp)
		if err == nil {
			err = json.Unmarshal(b, &rec)
		}
		if err != nil || rec.Replay.Project == nil {
			c.Violate("search", "setup:replay", fmt.Sprintf("cannot read replay file %s: %v", rp, err), nil)
			return
		}
		rec.Replay.Project.GenWeather()
		c09RunProject(c, rec.Replay.Project, rec.Replay.Opt, corr)
		c09DayStage(c)
		c09Correspond(c, corr)
		return
	}
	t0 := time.Now()
	// every (set, format) cell at least `rounds` times; the other dimensions are drawn so that every
	// value of every dimension occurs (Latin-square like rotation through the dimensions).
	rounds := c.N(8, 80)
	k := 0
	shift := c.Rng.Intn(60)
	for round := 0; round < rounds; round++ {
		for si, set := range sets {
			for f := 0; f < 2; f++ {
				o := proj.CropOpt{Set: set, Yml: f == 1}
				j := k + shift + si
				o.CO2 = 1 + j%3
				if (j/3)%7 == 5 {
					o.CO2 = []int{0, 4}[(j/21)%2] // values outside 1..3: no CO2 effect on photosynthesis / transpiration (the else-branches of crop.go:790-833, water.go:687-710)
				}
				o.NLevel = (j / 3) % 4
				o.Scenario = c09Scenarios[(j/12+round+si)%5]
				o.AutoHarvest = c.Rng.Chance(0.25)
				o.Followers = c.Rng.Intn(3)
				if (j/5)%6 == 2 {
					// the claimed annual crop follows a ley (permanent crops themselves are not claimed) and / or is cut green
					o.AfterLey = []string{"GR", "AA"}[(j/30)%2]
					o.EarlyCut = (j/60)%2 == 0
				} else if (j/5)%6 == 4 {
					o.EarlyCut = true
				}
				o.SunOutage = (j/4)%5 == 3
				c09Run(c, fmt.Sprintf("c%d", k), o, corr)
				k++
			}
		}
	}
	c.Res.Extra["whole_runs"] = k
	c.Res.Extra["whole_run_seconds"] = time.Since(t0).Seconds()
	c09KernelStage(c, corr)
	vernSrcImpStage(c, c.N(1500, 20000)) // the translated source of vern against the compiled function (srcimp_vern.go)
	c09DayStage(c) // radia / N-content functions / growth / N uptake of the day (c09_day.go)
	c09Correspond(c, corr)
}

func c09Correspond(c *vh.Ctx, k *c09Corr) {
	desc := func(d []string) func(i int) interface{} {
		return func(i int) interface{} {
			if i < len(d) {
				return d[i]
			}
			return nil
		}
	}
	c.Correspond("crop.stage", k.stageCases, k.stageImpl, 1e-9, 1e-12, desc(k.stageDesc))
	c.Correspond("crop.organs", k.organCases, k.organImpl, 1e-9, 1e-12, desc(k.organDesc))
	c.Correspond("crop.reduk", k.redukCases, k.redukImpl, 1e-9, 1e-12, desc(k.redukDesc))
	c.Correspond("crop.root", k.rootCases, k.rootImpl, 1e-9, 1e-12, desc(k.rootDesc))
	c.Correspond("crop.ncont", k.ncontCases, k.ncontImpl, 1e-9, 1e-12, desc(k.ncontDesc))
	c.Res.Extra["corr_ncont_cases"] = len(k.ncontCases)
	c.Res.Extra["corr_stage_cases"] = len(k.stageCases)
	c.Res.Extra["corr_organ_cases"] = len(k.organCases)
	c.Res.Extra["corr_reduk_cases"] = len(k.redukCases)
	c.Res.Extra["corr_root_cases"] = len(k.rootCases)
}

// rootLimit: the layer limit the code derives from the soil's root depth and the crop's scaling
// (crop.go:572-578): round(WURZMAX * WUMAXPF/11), at most N, at least 1.
func rootLimit(wurzmax int, wumaxpf float64, n int) int {
	w := math.Round(float64(wurzmax) * (wumaxpf / 11.))
	if w > float64(n) {
		w = float64(n)
	}
	if w < 1 {
		w = 1
	}
	return int(w)
}

func c09Run(c *vh.Ctx, name string, o proj.CropOpt, corr *c09Corr) {
	c09RunProject(c, proj.GenCrop(c.Rng.Fork(), name, o), o, corr)
}

func c09RunProject(c *vh.Ctx, p *proj.Project, o proj.CropOpt, corr *c09Corr) {
	name := p.Name
	root := filepath.Join(c.Scratch, "c09")
	os.MkdirAll(root, 0o755)
	if o.AutoHarvest {
		if err := p.WriteCropAutoman(root); err != nil {
			c.Violate("search", "setup:write", err.Error(), nil)
			return
		}
	}
	if err := p.Write(root, c.Repo); err != nil {
		c.Violate("search", "setup:write", err.Error(), nil)
		return
	}
	defer os.RemoveAll(filepath.Join(root, "project", p.Name))
	defer os.RemoveAll(filepath.Join(root, "weather"))
	setName := o.Set.String()
	cell := fmt.Sprintf("%s|yml=%v|%s|co2=%d|N=%d", setName, o.Yml, o.Scenario, o.CO2, o.NLevel)
	c.Count("set:" + setName)
	c.Count(fmt.Sprintf("format:yml=%v", o.Yml))
	c.Count("scenario:" + o.Scenario)
	c.Count(fmt.Sprintf("co2method:%d", o.CO2))
	c.Count(fmt.Sprintf("nlevel:%d", o.NLevel))
	if o.AutoHarvest {
		c.Count("autoharvest:on")
	}

	replay := func(pre, post *cropState, note string) interface{} {
		return jsonSafe(c09Replay{Project: p, Opt: o, Day: pre, Post: post, Note: note})
	}
	var pre cropState
	var gPre hermes.GlobalVarsMain
	var lPre hermes.CropSharedVars
	var gAW hermes.GlobalVarsMain
	harvestState := map[int]cropState{} // AKF index -> state after the harvest-day call of PhytoOut (replayed)
	var extra dayExtra
	growing := false
	upstream, upstreamDay, upstreamReported := "", 0, false
	var last *cropState // DayEnd state of the previous crop day of the same crop
	type stageRec struct{ zeit, doy int }
	stageDays := map[int]map[int]stageRec{} // AKF index -> stage index -> day it was reached
	sowDay := map[int]int{}
	harvestDay := map[int]int{}
	cropOf := map[int]string{}
	// checkDay evaluates the predicates of C09 on one call of PhytoOut: state before / after.
	checkDay := func(pre, post cropState, prm cropParams, code string, zeit int, sowing bool) {
		c.Eval()
		c.Nontrivial(fmt.Sprintf("%s|stage=%d", cell, post.Intwick))
		c.Count(fmt.Sprintf("stage:%d", post.Intwick))
		if sowing {
			c.Count("day:sowing")
		}
		viol := func(sig, what string) {
			ps, po := pre, post
			c.Violate("search", sig, fmt.Sprintf("%s (crop %s, first crop of the run %s, day %s zeit=%d, stage index %d)", what, code, setName, proj.FromZ(zeit), zeit, post.Intwick), replay(&ps, &po, what))
		}
		// ---- state variables finite and non-negative
		vars := []struct {
			name string
			v    float64
		}{{"OBMAS", post.Obmas}, {"WUMAS", post.Wumas}, {"LAI", post.Lai}, {"ASPOO", post.Aspoo}, {"PESUM", post.Pesum}, {"GEHOB", post.Gehob}, {"WUGEH", post.Wugeh}}
		for i := 0; i < prm.Nrkom && i < 5; i++ {
			vars = append(vars, struct {
				name string
				v    float64
			}{fmt.Sprintf("WORG%d", i+1), post.Worg[i]})
		}
		for _, x := range vars {
			if !finite(x.v) {
				viol(fmt.Sprintf("crop:%s:nonfinite:%s", code, x.name), fmt.Sprintf("%s = %v is not finite", x.name, x.v))
			} else if x.v < 0 {
				viol(fmt.Sprintf("crop:%s:negative:%s", code, x.name), fmt.Sprintf("%s = %v is negative", x.name, x.v))
			}
		}
		// ---- stress factors in [0,1]: those handed to the crop model (DayStart) and those it produced
		unit := []struct {
			name string
			v    float64
		}{{"TRREL", pre.Trrel}, {"LURED", pre.Lured}, {"ETREL", pre.Etrel}, {"REDUK", post.Reduk}, {"TRREL", post.Trrel}, {"LURED", post.Lured}}
		if post.Intwick >= 1 {
			unit = append(unit, struct {
				name string
				v    float64
			}{"FV", post.FV}, struct {
				name string
				v    float64
			}{"FP", post.FP})
		}
		for _, x := range unit {
			if !(x.v >= -1e-9 && x.v <= 1+1e-9) { // round-off clause: one ulp above 1 is not a violation
				viol(fmt.Sprintf("crop:%s:range:%s", code, x.name), fmt.Sprintf("stress factor %s = %v outside [0,1]", x.name, x.v))
			}
		}
		// ---- rooting depth
		lim := rootLimit(prm.Wurzmax, prm.Wumaxpf, prm.N)
		if post.Wurz < 1 {
			viol(fmt.Sprintf("crop:%s:wurz:below-one", code), fmt.Sprintf("rooting depth WURZ = %d < 1", post.Wurz))
		}
		if post.Wurz > prm.N {
			viol(fmt.Sprintf("crop:%s:wurz:above-profile", code), fmt.Sprintf("rooting depth WURZ = %d exceeds the profile N = %d", post.Wurz, prm.N))
		} else if post.Wurz > lim {
			viol(fmt.Sprintf("crop:%s:wurz:above-root-limit", code), fmt.Sprintf("rooting depth WURZ = %d exceeds the root limit %d (WURZMAX %d, WUMAXPF %g, N %d)", post.Wurz, lim, prm.Wurzmax, prm.Wumaxpf, prm.N))
		}
		if post.Wurz > prm.Wurzmax && post.Wurz <= lim {
			c.Count("note:wurz>WURZMAX(scaled-limit)")
		}
		if post.Wurz == lim {
			c.Count("wurz:at-limit")
		}
		// ---- development stage
		from := pre.Intwick
		if sowing {
			from = 0
			if post.Intwick < 0 || post.Intwick > 1 {
				viol("stage:sowing-day:"+code, fmt.Sprintf("stage index %d at the end of the sowing day", post.Intwick))
			}
		}
		if !prm.Dauerkult {
			if post.Intwick < from {
				viol("stage:decrease:"+code, fmt.Sprintf("development stage index fell from %d to %d", from, post.Intwick))
			}
			if post.Intwick > from+1 {
				viol("stage:skip:"+code, fmt.Sprintf("development stage index jumped from %d to %d in one day", from, post.Intwick))
			}
			if last != nil && last.Zeit == zeit-1 && pre.Intwick != last.Intwick {
				viol("stage:changed-between-days:"+code, fmt.Sprintf("development stage index changed outside the crop model: %d at the end of the previous day, %d at the start of this day", last.Intwick, pre.Intwick))
			}
			if post.Intwick >= prm.Nrentw {
				viol("stage:beyond-last:"+code, fmt.Sprintf("stage index %d >= number of stages %d", post.Intwick, prm.Nrentw))
			}
		}
		if post.Intwick == from+1 {
			if post.Dev[post.Intwick] != post.DOY {
				viol("stage:dev-day:"+code, fmt.Sprintf("stage %d reached on day-of-year %d but DEV records %d", post.Intwick, post.DOY, post.Dev[post.Intwick]))
			}
			if stageDays[pre.AKF] == nil {
				stageDays[pre.AKF] = map[int]stageRec{}
			}
			stageDays[pre.AKF][post.Intwick] = stageRec{zeit, post.DOY}
			c.Count("day:stage-advance")
		}
		for i := 0; i < 10; i++ {
			if i != post.Intwick && !sowing && post.Dev[i] != pre.Dev[i] {
				viol("stage:dev-overwritten:"+code, fmt.Sprintf("DEV[%d] changed from %d to %d without reaching that stage", i, pre.Dev[i], post.Dev[i]))
			}
		}
	}
	probes := &hermes.VerifProbes{
		DayStart: func(g *hermes.GlobalVarsMain, w *hermes.WaterSharedVars, n *hermes.NitroSharedVars, l *hermes.CropSharedVars, zeit int, wdt float64) {
			a := g.AKF.Index
			growing = g.AKF.Num > 1 && g.SAAT[a] > 0 && zeit >= g.SAAT[a] && zeit <= g.ERNTE2[a]
			if !growing {
				return
			}
			pre = snapCrop(g, l, zeit)
			gPre = *g
			lPre = *l
			extra = dayExtra{}
			if upstream == "" {
				upstream = soilStateInvalid(g)
				upstreamDay = zeit
			}
		},
		AfterWater: func(g *hermes.GlobalVarsMain, w *hermes.WaterSharedVars, zeit, subd int, wdt, steps float64) {
			if growing && subd == 1 {
				gAW = *g // the state PhytoOut is called on (after Water of the first sub-step)
				// stage cropday (c09_day.go): the same state feeds the crop-day kernels
				c09DaySample(c, &gAW, &lPre, zeit, p, o)
			}
		},
		AfterNitro: func(g *hermes.GlobalVarsMain, w *hermes.WaterSharedVars, n *hermes.NitroSharedVars, zeit, subd int, wdt, steps float64) {
			if !growing || subd != 1 {
				return
			}
			// the uptake PhytoOut computed (crop.go:704-729), as it stands after the first sub-step
			m := math.Min(float64(g.WURZ), g.GRW)
			s := 0.0
			for i := 0; i < int(m); i++ {
				s = s + g.PE[i]
			}
			extra = dayExtra{havePE: true, sumpe: s, nfix: g.NFIX, steps: steps}
		},
		DayEnd: func(g *hermes.GlobalVarsMain, w *hermes.WaterSharedVars, n *hermes.NitroSharedVars, l *hermes.CropSharedVars, zeit int) {
			if !growing {
				return
			}
			code := strings.TrimSpace(g.CropTypeToString(gPre.FRUCHT[pre.AKF], false))
			pre.Crop = code
			cropOf[pre.AKF] = code
			if zeit == pre.Saat {
				sowDay[pre.AKF] = zeit
			}
			if g.AKF.Index != pre.AKF {
				// harvest day: Nitro has reset the crop state after PhytoOut ran; not a crop day
				harvestDay[pre.AKF] = zeit
				c.Count("day:harvest")
				if upstream == "" && zeit != pre.Saat && !gAW.DAUERKULT {
					// the harvest-day call of PhytoOut is invisible at DayEnd; it is repeated here by calling
					// the real PhytoOut on the copy of the state it was called on (cross-checked against the
					// crop result record below), checked and replayed through the model like any crop day
					gc, lc := gAW, lPre
					preH := snapCrop(&gc, &lc, zeit)
					preH.Crop = code
					pan := func() (p string) {
						defer func() {
							if r := recover(); r != nil {
								p = fmt.Sprint(r)
							}
						}()
						hermes.PhytoOut(&gc, &lc, &hermes.HFilePath{}, zeit, &hermes.Config{}, &hermes.CropOutputVars{})
						return ""
					}()
					if pan != "" {
						c.Violate("search", "crop:panic:harvest-day:"+code, "PhytoOut panicked on the harvest-day state: "+firstLine(pan), replay(&preH, nil, pan))
					} else {
						postH := snapCrop(&gc, &lc, zeit)
						postH.Crop = code
						prmH := paramsOf(&gc, &lc)
						checkDay(preH, postH, prmH, code, zeit, false)
						m := math.Min(float64(gc.WURZ), gc.GRW)
						sp := 0.0
						for i := 0; i < int(m); i++ {
							sp = sp + gc.PE[i]
						}
						c09DayCorr(corr, &preH, &postH, &prmH, &gAW, &lPre, &gc, &lc, &dayExtra{havePE: true, sumpe: sp, nfix: gc.NFIX}, false)
						harvestState[pre.AKF] = postH
						c.Count("corr:harvest-day")
					}
				}
				last = nil
				return
			}
			if code == "GR" || code == "AA" {
				c.Count("day:permanent-crop(not claimed)")
				last = nil
				return
			}
			post := snapCrop(g, l, zeit)
			post.Crop = code
			if upstream != "" {
				// the soil state handed to the crop model is already invalid (defect of the water / N
				// transport upstream of the crop model): reported once under its own signature; the crop
				// predicates are not evaluated on the contaminated rest of this run
				c.Count("day:upstream-soil-state-invalid")
				if !upstreamReported {
					upstreamReported = true
					c.Count("run:upstream-soil-state-invalid:" + o.Scenario)
					ps, po := pre, post
					what := fmt.Sprintf("the soil state handed to the crop model is invalid (%s, first seen at the start of day %s zeit=%d while crop %s was growing); crop N state after the day: PESUM=%v GEHOB=%v WUGEH=%v", upstream, proj.FromZ(upstreamDay), upstreamDay, code, post.Pesum, post.Gehob, post.Wugeh)
					c.Violate("search", "crop:upstream:soil-state-invalid:"+strings.SplitN(upstream, " ", 2)[0], what, replay(&ps, &po, what))
				}
				return
			}
			prm := paramsOf(g, l)
			sowing := zeit == pre.Saat
			checkDay(pre, post, prm, code, zeit, sowing)
			// ---- correspondence cases from this day. Sowing day: PhytoOut first reads the parameters and
			// resets the development state (crop.go:61-127, cropparam.go: SUM, DEV, PHYLLO, VERNTAGE = 0,
			// INTWICK = 0); the stage machine and the rooting depth are replayed from that reset state with
			// the parameters as they stand after the call (organs only change once emerged).
			if !prm.Dauerkult {
				if sowing {
					ps := pre
					ps.Intwick, ps.Sum, ps.Dev, ps.Phyllo = 0, [10]float64{}, [10]int{}, 0
					gs := gPre
					gs.VERNTAGE = 0
					gs.VSCHWELL, gs.DAYL, gs.DLBAS, gs.WGMAX = g.VSCHWELL, g.DAYL, g.DLBAS, g.WGMAX
					c09DayCorr(corr, &ps, &post, &prm, &gs, &lPre, g, l, nil, true)
					c.Count("corr:sowing-day")
					// initial state written by the sowing branch
					if !(post.Sum[0] >= prm.Tsum[0]) {
						ob := 0.0
						for _, a := range l.AboveGroundOrgans {
							ob += post.Worg[a-1]
						}
						lai0 := post.Worg[1] * prm.Laifkt[0]
						if post.Obmas != ob || post.Wumas != post.Worg[0] || post.Aspoo != 0 || (lai0 >= 0 && post.Lai != lai0) {
							po := post
							c.Violate("search", "sowing:init:"+code, fmt.Sprintf("state after the sowing day is not the initial state of the parameter set: OBMAS %v (organs %v), WUMAS %v (WORG1 %v), ASPOO %v, LAI %v (WORG2*LAIFKT %v)", post.Obmas, ob, post.Wumas, post.Worg[0], post.Aspoo, post.Lai, lai0), replay(nil, &po, "sowing day"))
						}
					}
				} else {
					c09DayCorr(corr, &pre, &post, &prm, &gPre, &lPre, g, l, &extra, false)
				}
			}
			cp := post
			last = &cp
		},
	}
	res := proj.Run(root, p, probes)
	if res.Panic != "" {
		c.Violate("search", "crop:panic:"+o.Set.Code, "whole run panicked: "+firstLine(res.Panic), replay(nil, nil, res.Panic))
		return
	}
	if res.Err != nil {
		c.Count("run:error")
		c.Note("run %s ended with error: %v", name, res.Err)
		return
	}
	// ---- crop result file: phenology as dates
	if upstream != "" {
		c.Count("run:cropfile-skipped(upstream-soil-state-invalid)")
		return
	}
	c09CropFile(c, p, o, res.Out.File("C"), sowDay, harvestDay, cropOf, harvestState, replay)
}

func firstLine(s string) string {
	if i := strings.IndexByte(s, '\n'); i >= 0 {
		return s[:i]
	}
	return s
}

// dateInWindow: the first date in [from, to] whose day-of-year is doy (0 when there is none).
func dateInWindow(doy int, from, to proj.Date) (proj.Date, bool) {
	for y := from.Y; y <= to.Y; y++ {
		d := proj.Date{Y: y, M: 1, D: 1}.AddDays(doy - 1)
		if d.Y != y {
			continue
		}
		if d.Z() >= from.Z() && d.Z() <= to.Z() {
			return d, true
		}
	}
	return proj.Date{}, false
}

func c09CropFile(c *vh.Ctx, p *proj.Project, o proj.CropOpt, file string, sowDay, harvestDay map[int]int, cropOf map[int]string, harvestState map[int]cropState,
	replay func(pre, post *cropState, note string) interface{}) {
	lines := strings.Split(strings.TrimSpace(file), "\n")
	// columns as configured by proj.Write (cropout_conf.yml); the file has no header line
	head := []string{"Crop", "SowDate", "HarvestYear", "SowDOY", "EmergDOY", "AnthDOY", "MatDOY", "HarvestDOY", "Yield", "Biomass", "Roots", "LAImax", "Nuptake"}
	col := map[string]int{}
	for i, h := range head {
		col[h] = i
	}
	rec := 0
	for _, ln := range lines {
		ln = strings.TrimRight(ln, "\r")
		if strings.TrimSpace(ln) == "" {
			continue
		}
		f := strings.Split(ln, ",")
		if len(f) < len(head) {
			continue
		}
		get := func(n string) string { return strings.TrimSpace(f[col[n]]) }
		geti := func(n string) int { v, _ := strconv.Atoi(get(n)); return v }
		code := strings.TrimSpace(get("Crop"))
		if code == "000" {
			continue // skipped crop (automatic sowing)
		}
		rec++
		akf := rec // records are written in harvest order; AKF index 0 is the pre-crop (no record)
		c.Count("cropfile:record")
		if code == "GR" || code == "AA" {
			c.Count("cropfile:record:permanent-crop(not claimed)")
			continue
		}
		viol := func(sig, what string) {
			c.Violate("search", sig, fmt.Sprintf("%s (crop result record %d: %s)", what, rec, strings.TrimSpace(ln)), replay(nil, nil, what+" | record: "+ln))
		}
		hz, okH := harvestDay[akf]
		sz, okS := sowDay[akf]
		if !okH || !okS {
			c.Count("cropfile:record-without-probe-days")
			continue
		}
		if cropOf[akf] != "" && cropOf[akf] != code {
			c.Note("crop record %d names %s, probes saw %s", rec, code, cropOf[akf])
			continue
		}
		sow, har := proj.FromZ(sz), proj.FromZ(hz)
		if geti("SowDOY") != sow.DOY() {
			viol("pheno:sowing-doy:"+code, fmt.Sprintf("reported sowing day-of-year %d, crop was sown on %s (day %d)", geti("SowDOY"), sow, sow.DOY()))
		}
		if geti("HarvestDOY") != har.DOY() || geti("HarvestYear") != har.Y {
			viol("pheno:harvest-doy:"+code, fmt.Sprintf("reported harvest %d/%d, crop was harvested on %s (day %d)", geti("HarvestYear"), geti("HarvestDOY"), har, har.DOY()))
		}
		prev, prevName := sow, "sowing"
		for _, st := range []string{"EmergDOY", "AnthDOY", "MatDOY"} {
			d := geti(st)
			if d == 0 {
				c.Count("cropfile:" + st + "=0(not reached)")
				continue
			}
			dt, ok := dateInWindow(d, sow, har)
			if !ok {
				viol("pheno:outside-season:"+st+":"+code, fmt.Sprintf("%s = %d is not a day between sowing %s and harvest %s", st, d, sow, har))
				continue
			}
			if dt.Z() < prev.Z() {
				viol("pheno:order:"+st+":"+code, fmt.Sprintf("%s (%s) lies before %s (%s)", st, dt, prevName, prev))
			}
			prev, prevName = dt, st
			c.Count("cropfile:" + st + ":checked")
		}
		if prev.Z() > har.Z() {
			viol("pheno:order:harvest:"+code, fmt.Sprintf("%s (%s) lies after harvest (%s)", prevName, prev, har))
		}
		if hs, ok := harvestState[akf]; ok {
			// the replayed harvest-day call must be the call the run made: the record is written from it
			for _, x := range []struct {
				col string
				v   float64
			}{{"Biomass", hs.Obmas}, {"Roots", hs.Worg[0]}, {"LAImax", hs.Laimax}} {
				v, err := strconv.ParseFloat(get(x.col), 64)
				if err == nil && v != x.v && !(math.IsNaN(v) && math.IsNaN(x.v)) {
					c.Violate("correspondence", "harvest-day:record:"+x.col, fmt.Sprintf("crop result record %d reports %s = %v, the harvest-day call of PhytoOut repeated on the recorded state gives %v", rec, x.col, v, x.v), replay(nil, &hs, ln))
				} else {
					c.Count("cropfile:harvest-day-call:" + x.col + ":equal")
				}
			}
		}
		for _, n := range []string{"Yield", "Biomass", "Roots", "LAImax", "Nuptake"} {
			v, err := strconv.ParseFloat(get(n), 64)
			if err != nil || !finite(v) {
				viol("cropfile:nonfinite:"+n+":"+code, fmt.Sprintf("%s = %q at harvest is not a finite number", n, get(n)))
			} else if v < 0 && n != "Yield" {
				viol("cropfile:negative:"+n+":"+code, fmt.Sprintf("%s = %v at harvest is negative", n, v))
			}
		}
	}
}
