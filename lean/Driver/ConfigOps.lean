import HermesModel.Proto
import HermesModel.Config
import HermesModel.ConfigDoc
open Hermes Hermes.Proto

/-!
Driver operations of the configuration model (C14).  Strings travel as `s` + the hex digits of
their UTF-8 bytes (`s` alone = the empty string), floats as `x%016x`, absent values as `-`.

* `config.defaults`  → the rendered default table (regenerated from the source)
* `config.documented` → the rendered table of the documented defaults (HermesModel/ConfigDoc.lean)
* `config.override nPairs nOracle (key text)* (text float|-)*` → `overrideAll` on the defaults with
  the pairs as the argument map, rendered, or `fatal`
* `config.effective root nFile nTok nOracle (key str|- num|- int|-)* tok* (text float|-)*`
  → `finalize root (effective …)`, rendered, or `fatal`
* `config.parseint text` → the integer or `err`

A table is rendered as `name value` pairs: floats as bit patterns, `i<int>`, `t<hex>`, `b0|b1`, `o`.
-/
namespace Hermes.Driver
open Hermes.Config

def hexPairs : List Char → Option (List UInt8)
  | [] => some []
  | a :: b :: r => do
    let x ← hexDigitVal a
    let y ← hexDigitVal b
    let rest ← hexPairs r
    pure ((x * 16 + y).toUInt8 :: rest)
  | _ => none

def decStr (tok : String) : Option String :=
  match tok.toList with
  | 's' :: r => do
    let bs ← hexPairs r
    String.fromUTF8? (ByteArray.mk bs.toArray)
  | _ => none

def encHex (s : String) : String :=
  String.ofList (s.toUTF8.toList.foldr (fun b acc => hexChar (b.toNat / 16) :: hexChar (b.toNat % 16) :: acc) [])

def popStr : Toks → Option (String × Toks)
  | t :: r => (decStr t).map (·, r)
  | [] => none

def popOpt {β : Type} (f : String → Option β) : Toks → Option (Option β × Toks)
  | "-" :: r => some (none, r)
  | t :: r => (f t).map fun x => (some x, r)
  | [] => none

def popMany {β : Type} (pop : Toks → Option (β × Toks)) : Nat → Toks → Option (List β × Toks)
  | 0, r => some ([], r)
  | n + 1, r => do
    let (x, r) ← pop r
    let (xs, r) ← popMany pop n r
    pure (x :: xs, r)

def renderVal : Val Float → String
  | .float x => fmtFloat x
  | .int i => s!"i{i}"
  | .text s => "t" ++ encHex s
  | .switch b => if b then "b1" else "b0"
  | .other => "o"

def renderTable (t : Table Float) : String :=
  " ".intercalate (t.map fun e => e.1 ++ " " ++ renderVal e.2)

def popPair (r : Toks) : Option ((String × String) × Toks) := do
  let (k, r) ← popStr r
  let (v, r) ← popStr r
  pure ((k, v), r)

def popOracle (r : Toks) : Option ((String × Option Float) × Toks) := do
  let (k, r) ← popStr r
  let (v, r) ← popOpt parseFloat r
  pure ((k, v), r)

def popFileEntry (r : Toks) : Option ((String × FileVal Float) × Toks) := do
  let (k, r) ← popStr r
  let (s, r) ← popOpt decStr r
  let (x, r) ← popOpt parseFloat r
  let (i, r) ← popOpt parseInt r
  pure ((k, { str := s, num := x, int := i }), r)

def oracleFn (o : List (String × Option Float)) : String → Option Float :=
  fun text => match lookup o text with
    | some r => r
    | none => none

def cfgOverride (toks : Toks) : Option String := do
  let (np, r) ← popNat toks
  let (no, r) ← popNat r
  let (pairs, r) ← popMany popPair np r
  let (orc, _) ← popMany popOracle no r
  match overrideAll (oracleFn orc) (defaults : Table Float) pairs with
  | some t => pure (renderTable t)
  | none => pure "fatal"

def cfgEffective (toks : Toks) : Option String := do
  let (root, r) ← popStr toks
  let (nf, r) ← popNat r
  let (nt, r) ← popNat r
  let (no, r) ← popNat r
  let (file, r) ← popMany popFileEntry nf r
  let (tk, r) ← popMany popStr nt r
  let (orc, _) ← popMany popOracle no r
  match effective (oracleFn orc) (defaults : Table Float) file tk with
  | some t => pure (renderTable (finalize root t))
  | none => pure "fatal"

def configOps (toks : List String) : String :=
  match toks with
  | ["config.defaults"] => renderTable (defaults : Table Float)
  | ["config.documented"] => renderTable (documentedDefaults.map fun e => (e.1, (ofLit e.2 : Val Float)))
  | "config.override" :: rest => (cfgOverride rest).getD "bad-op"
  | "config.effective" :: rest => (cfgEffective rest).getD "bad-op"
  | ["config.parseint", t] =>
    match decStr t with
    | some s => match parseInt64 s with
      | some i => s!"{i}"
      | none => "err"
    | none => "bad-op"
  | _ => "bad-op"

end Hermes.Driver
