package main

// Correspondence of the *translated source* (DESIGN §4.3, translator v2): harness/cmd/extract translates Go kernels of /repo
// into Lean state transformers (lean/HermesModel/Generated/Imp<Func>.lean) on every run and records, per kernel, the list of
// state fields with their Go access paths (facts.json, imp.<Func>.fields).  Here the state of the real Go structs is serialised
// by reflection before and after a call of the real function; the model driver runs the Lean translation on the state before
// (`srcimp.<Func>`) and must produce the state after.  This validates the translator on the current source: the theorems proved
// about `Imp.<Func>.run` are then theorems about what the Go function computes.

import (
	"encoding/json"
	"fmt"
	"math"
	"os"
	"path/filepath"
	"reflect"
	"strconv"
	"strings"

	"verifharness/vh"
)

type impFieldSpec struct {
	Lean, Kind, Role, GoPath string
	Len                      int
}

var impFieldCache = map[string][]impFieldSpec{}

func loadImpFields(c *vh.Ctx, fn string) ([]impFieldSpec, error) {
	if f, ok := impFieldCache[fn]; ok {
		return f, nil
	}
	dir := os.Getenv("VERIF_DIR")
	if dir == "" {
		dir = "/verif"
	}
	b, err := os.ReadFile(filepath.Join(dir, "evidence", "facts.json"))
	if err != nil {
		return nil, err
	}
	var fc struct {
		Strs map[string][]string `json:"string_tables"`
	}
	if err := json.Unmarshal(b, &fc); err != nil {
		return nil, err
	}
	rows, ok := fc.Strs["imp."+fn+".fields"]
	if !ok {
		return nil, fmt.Errorf("the source of %s is no longer in the translatable subset: %v", fn, fc.Strs["imp.failed"])
	}
	var out []impFieldSpec
	for _, r := range rows {
		p := strings.Split(r, "|")
		if len(p) != 5 {
			return nil, fmt.Errorf("bad field row %q", r)
		}
		n, _ := strconv.Atoi(p[4])
		out = append(out, impFieldSpec{p[0], p[1], p[2], p[3], n})
	}
	impFieldCache[fn] = out
	return out, nil
}

// impResolve follows a Go access path like g.TSOIL[0] or g.DT.Num in the receivers.
func impResolve(path string, recv map[string]interface{}) (reflect.Value, error) {
	parts := strings.Split(path, ".")
	root, ok := recv[parts[0]]
	if !ok {
		return reflect.Value{}, fmt.Errorf("no receiver %q for path %s", parts[0], path)
	}
	v := reflect.ValueOf(root)
	for v.Kind() == reflect.Ptr {
		v = v.Elem()
	}
	for _, p := range parts[1:] {
		idx := -1
		if i := strings.Index(p, "["); i >= 0 {
			idx, _ = strconv.Atoi(strings.TrimSuffix(p[i+1:], "]"))
			p = p[:i]
		}
		v = v.FieldByName(p)
		if !v.IsValid() {
			return v, fmt.Errorf("no field %s in path %s", p, path)
		}
		if idx >= 0 {
			v = v.Index(idx)
		}
	}
	return v, nil
}

func impTok(v reflect.Value, kind string) string {
	switch kind {
	case "float":
		return vh.FVals(v.Float())
	case "int":
		return strconv.FormatInt(v.Int(), 10)
	case "bool":
		if v.Bool() {
			return "1"
		}
		return "0"
	}
	return "?"
}

// impSerialize writes the non-local fields of the kernel's state in declaration order.
func impSerialize(fields []impFieldSpec, recv map[string]interface{}, params map[string]interface{}, post bool) (string, error) {
	var sb strings.Builder
	for _, f := range fields {
		if f.Role == "local" {
			continue
		}
		if f.Kind == "string" && !post {
			continue // strings are flags the kernels only set: not part of the input, their length is part of the answer
		}
		var v reflect.Value
		if f.Role == "param" {
			pv, ok := params[f.GoPath]
			if !ok {
				return "", fmt.Errorf("no value for parameter %s", f.GoPath)
			}
			v = reflect.ValueOf(pv)
		} else {
			var err error
			v, err = impResolve(f.GoPath, recv)
			if err != nil {
				return "", err
			}
		}
		if sb.Len() > 0 {
			sb.WriteByte(' ')
		}
		switch f.Kind {
		case "string":
			sb.WriteString(strconv.Itoa(len(v.String())))
		case "float", "int", "bool":
			sb.WriteString(impTok(v, f.Kind))
		case "floats", "ints":
			n := v.Len()
			sb.WriteString(strconv.Itoa(n))
			ek := strings.TrimSuffix(f.Kind, "s")
			for i := 0; i < n; i++ {
				sb.WriteByte(' ')
				sb.WriteString(impTok(v.Index(i), ek))
			}
		default:
			return "", fmt.Errorf("field kind %s", f.Kind)
		}
	}
	return sb.String(), nil
}

// impDiffFields names the fields on which two serialised states differ (for the report).
func impDiffFields(fields []impFieldSpec, a, b string) []string {
	ta, tb := strings.Fields(a), strings.Fields(b)
	var out []string
	i := 0
	for _, f := range fields {
		if f.Role == "local" || i >= len(ta) || i >= len(tb) {
			continue
		}
		n := 1
		if f.Kind == "floats" || f.Kind == "ints" {
			k, _ := strconv.Atoi(ta[i])
			n = k + 1
		}
		for j := i; j < i+n && j < len(ta) && j < len(tb); j++ {
			if ta[j] != tb[j] {
				_, va, _ := vh.ParseTok(ta[j])
				_, vb, _ := vh.ParseTok(tb[j])
				if !(math.IsNaN(va) && math.IsNaN(vb)) {
					out = append(out, fmt.Sprintf("%s[%d]: impl %v translation %v", f.GoPath, j-i-1, va, vb))
					break
				}
			}
		}
		i += n
	}
	return out
}

// srcImpCase is one call of a translated kernel: the receivers (pointers to the real structs), the scalar parameters and the call.
type srcImpCase struct {
	Recv   map[string]interface{}
	Params map[string]interface{}
	Call   func()
	Desc   interface{}
}

// correspondSrcImp runs the cases through the real function and through the Lean translation of its current source.
// rel/abs: tolerance for values downstream of math functions (Go's math vs the C library behind Lean's Float).
func correspondSrcImp(c *vh.Ctx, fn string, cases []srcImpCase, rel, abs float64) {
	fields, err := loadImpFields(c, fn)
	if err != nil {
		c.Violate("correspondence", "srcimp."+fn+":not-translated", err.Error(), nil)
		return
	}
	var lines, impl []string
	var descs []interface{}
	for _, cs := range cases {
		pre, err := impSerialize(fields, cs.Recv, cs.Params, false)
		if err != nil {
			c.Violate("correspondence", "srcimp."+fn+":fields", "the state of "+fn+" cannot be read through the recorded access paths: "+err.Error(), nil)
			return
		}
		panicked := ""
		func() {
			defer func() {
				if r := recover(); r != nil {
					panicked = fmt.Sprint(r)
				}
			}()
			cs.Call()
		}()
		if panicked != "" {
			c.Count("srcimp." + fn + ":panic-skipped")
			continue
		}
		post, _ := impSerialize(fields, cs.Recv, cs.Params, true)
		lines = append(lines, "srcimp."+fn+" "+pre)
		impl = append(impl, post)
		descs = append(descs, cs.Desc)
		c.Count("srcimp." + fn)
	}
	model, err := c.RunDriver(lines)
	if err != nil {
		c.Violate("correspondence", "srcimp."+fn+":driver", err.Error(), nil)
		return
	}
	for i := range lines {
		c.Res.CorrCases++
		ok, bit, why := vh.CompareLine(impl[i], model[i], rel, abs)
		if ok {
			if bit {
				c.Res.CorrBitExact++
			}
			continue
		}
		c.Res.CorrDisagree++
		c.Violate("correspondence", "srcimp."+fn+":disagree",
			fmt.Sprintf("the Lean translation of the current source of %s and the compiled function disagree (%s): %v", fn, why, impDiffFields(fields, impl[i], model[i])),
			map[string]interface{}{"kernel": "srcimp." + fn, "case_line": lines[i], "impl": impl[i], "model": model[i], "input": descs[i]})
	}
}
