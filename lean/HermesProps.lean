import HermesProps.AuditCmd
import HermesProps.C01
import HermesProps.C12
import HermesProps.C14
import HermesProps.C17
import HermesProps.C19
import HermesProps.C20
