/-
Lemmas about the transport model `Nitro.step` (nmove) over ℚ (exact arithmetic): the dispersion
terms telescope, the convective interface fluxes agree, sums of the layer-wise updates.
-/
import HermesProofs.RatInst
import HermesModel.Nitro
import HermesModel.Mineral
import Mathlib.Tactic.Linarith
import Mathlib.Tactic.Ring
import Mathlib.Tactic.FieldSimp
import Mathlib.Tactic.NormNum
import Mathlib.Tactic.Positivity

namespace Hermes.Nitro

/-- dispersion below a given upper interface: the terms of the remaining layers sum to the flux
through that interface (zero flux at the profile bottom) -/
theorem dispGo_some_sum (dz2 : ℚ) :
    ∀ (l : List (ℚ × ℚ)) (dbp cp : ℚ), l ≠ [] →
      (dispGo dz2 (some (dbp, cp)) l).sum = dbp * (cp - (l.head!).1) / dz2 := by
  intro l
  induction l with
  | nil => intro _ _ h; exact absurd rfl h
  | cons hd tl ih =>
    intro dbp cp _
    obtain ⟨c, db⟩ := hd
    cases tl with
    | nil => simp [dispGo]
    | cons hd2 tl2 =>
      obtain ⟨c2, db2⟩ := hd2
      have := ih db c (by simp)
      simp only [dispGo, List.sum_cons] at this ⊢
      simp only [List.head!_cons] at this ⊢
      rw [this]; ring

theorem dispGo_none_sum (dz2 : ℚ) (l : List (ℚ × ℚ)) (h : 2 ≤ l.length) :
    (dispGo dz2 none l).sum = 0 := by
  match l, h with
  | (c, db) :: (c2, db2) :: rest, _ =>
    have := dispGo_some_sum dz2 ((c2, db2) :: rest) db c (by simp)
    simp only [dispGo, List.sum_cons]
    rw [this]; simp; ring

/-- the flux the code uses at the top interface of a layer (`top`: the uppermost layer) -/
def topTerm (top : Bool) (cUp c qTop : ℚ) : ℚ :=
  if qTop < 0 then (if top then 0 else c * qTop) else cUp * qTop

/-- the flux the code uses at the bottom interface of a layer -/
def botTerm (c cDown qBot : ℚ) : ℚ := if qBot < 0 then cDown * qBot else c * qBot

/-- what the code sends to the drain from a layer: the drain layer loses `c·QDRAIN` whatever the
directions of the fluxes through its boundaries -/
def drainTerm (qdrain : ℚ) (drain : Bool) (c : ℚ) : ℚ := if drain then c * qdrain else 0

theorem konvLayer_eq (dz qd : ℚ) (top drain : Bool) (cUp c cDown qTop qBot : ℚ) :
    konvLayer dz qd top drain cUp c cDown qTop qBot
      = (botTerm c cDown qBot + drainTerm qd drain c - topTerm top cUp c qTop) / dz := by
  unfold konvLayer botTerm drainTerm topTerm
  cases top <;> cases drain <;> split_ifs <;> simp_all

/-- flux through the profile bottom: percolation carries the concentration of the last layer,
inflow from below carries none -/
def bottomOut : List (ℚ × ℚ) → ℚ
  | [] => 0
  | [(c, q)] => if q < 0 then 0 else c * q
  | _ :: x :: rest => bottomOut (x :: rest)

def drainSum (qd : ℚ) (dd : ℕ) : ℕ → ℚ → List (ℚ × ℚ) → ℚ
  | _, _, [] => 0
  | z, qTop, (c, qBot) :: rest =>
      drainTerm qd (z == dd) c + drainSum qd dd (z + 1) qBot rest

theorem konvGo_sum (dz qd : ℚ) (dd : ℕ) (hdz : dz ≠ 0) :
    ∀ (l : List (ℚ × ℚ)) (z : ℕ) (cUp qTop : ℚ), 1 ≤ z →
      dz * (konvGo dz qd dd z cUp qTop l).sum =
        match l with
        | [] => 0
        | (c, _) :: _ => bottomOut l + drainSum qd dd z qTop l - topTerm (z == 1) cUp c qTop := by
  intro l
  induction l with
  | nil => intro z cUp qTop _; simp [konvGo]
  | cons hd tl ih =>
    intro z cUp qTop hz1
    obtain ⟨c, qBot⟩ := hd
    have h := ih (z + 1) c qBot (by omega)
    simp only [konvGo, List.sum_cons, drainSum, mul_add]
    rw [h, konvLayer_eq]
    cases tl with
    | nil =>
      simp only [bottomOut, drainSum, botTerm]
      field_simp
      split_ifs <;> ring
    | cons hd2 tl2 =>
      obtain ⟨c2, q2⟩ := hd2
      have hz : ((z + 1 == 1) : Bool) = false := by simp; omega
      simp only [bottomOut, hz, topTerm, botTerm]
      field_simp
      split_ifs <;> simp_all <;> ring

/-! ### list helpers -/

theorem zipWith3_length {β : Type} (f : ℚ → ℚ → ℚ → β) :
    ∀ (a b c : List ℚ), (zipWith3 f a b c).length = min a.length (min b.length c.length) := by
  intro a
  induction a with
  | nil => intro b c; simp [zipWith3]
  | cons x xs ih =>
    intro b c
    cases b with
    | nil => simp [zipWith3]
    | cons y ys =>
      cases c with
      | nil => simp [zipWith3]
      | cons z zs => simp [zipWith3, ih ys zs]

theorem sum_zipWith3_newC (dz : ℚ) :
    ∀ (a b c : List ℚ), a.length = b.length → b.length = c.length →
      (zipWith3 (newC dz) a b c).sum = (a.sum + b.sum - c.sum) * dz * 100 := by
  intro a
  induction a with
  | nil =>
    intro b c h1 h2
    cases b with
    | nil => cases c with
      | nil => simp [zipWith3]
      | cons z zs => simp at h2
    | cons y ys => simp at h1
  | cons x xs ih =>
    intro b c h1 h2
    cases b with
    | nil => simp at h1
    | cons y ys =>
      cases c with
      | nil => simp at h2
      | cons z zs =>
        simp only [List.length_cons, Nat.add_right_cancel_iff] at h1 h2
        simp only [zipWith3, List.sum_cons, ih ys zs h1 h2, newC]
        ring

theorem uptake_length : ∀ (c p : List ℚ), (uptake c p).length = min c.length p.length := by
  intro c
  induction c with
  | nil => intro p; simp [uptake]
  | cons x xs ih =>
    intro p
    cases p with
    | nil => simp [uptake]
    | cons y ys => simp [uptake, ih ys]

theorem dbGo_length (wdt dv : ℚ) :
    ∀ (d wg w q : List ℚ) (n : ℕ), d.length = n → wg.length = n + 1 → w.length = n + 1 → q.length = n + 1 →
      (dbGo wdt dv d wg w q).length = n := by
  intro d
  induction d with
  | nil => intro wg w q n h _ _ _; simp at h; subst h; simp [dbGo]
  | cons x xs ih =>
    intro wg w q n h hwg hw hq
    cases n with
    | zero => simp at h
    | succ m =>
      match wg, w, q, hwg, hw, hq with
      | a :: b :: wgs, c :: e :: ws, f :: g :: qs, hwg, hw, hq =>
        simp only [dbGo, List.length_cons]
        rw [ih (b :: wgs) (e :: ws) (g :: qs) m (by simpa using h) (by simpa using hwg) (by simpa using hw) (by simpa using hq)]

theorem dispGo_length (dz2 : ℚ) : ∀ (l : List (ℚ × ℚ)) (p : Option (ℚ × ℚ)), (dispGo dz2 p l).length = l.length := by
  intro l
  induction l with
  | nil => intro p; cases p <;> simp [dispGo]
  | cons hd tl ih =>
    intro p
    obtain ⟨c, db⟩ := hd
    cases tl with
    | nil => cases p with
      | none => simp [dispGo]
      | some x => obtain ⟨a, b⟩ := x; simp [dispGo]
    | cons hd2 tl2 =>
      obtain ⟨c2, db2⟩ := hd2
      cases p with
      | none => simp only [dispGo, List.length_cons, ih]
      | some x => obtain ⟨a, b⟩ := x; simp only [dispGo, List.length_cons, ih]

theorem konvGo_length (dz qd : ℚ) (dd : ℕ) :
    ∀ (l : List (ℚ × ℚ)) (z : ℕ) (cUp qTop : ℚ), (konvGo dz qd dd z cUp qTop l).length = l.length := by
  intro l
  induction l with
  | nil => intro z cUp qTop; simp [konvGo]
  | cons hd tl ih =>
    intro z cUp qTop
    obtain ⟨c, q⟩ := hd
    simp [konvGo, ih]

/-- well-formed input of `nmove` for a profile of `n ≥ 2` layers -/
structure WF (i : In ℚ) (n : ℕ) : Prop where
  two : 2 ≤ n
  c1 : i.c1.length = n
  pe : i.pe.length = n
  dn : i.dn.length = n
  q : i.q.length = n
  d : i.d.length = n
  wg : i.wg.length = n + 1
  w : i.w.length = n + 1

theorem phaseUptake_length (i : In ℚ) (n : ℕ) (h : WF i n) : (phaseUptake i).length = n := by
  unfold phaseUptake
  split
  · rw [uptake_length, h.c1, h.pe]; simp
  · rw [List.length_zip, h.c1, h.pe]; simp

theorem carr_length (i : In ℚ) (n : ℕ) (h : WF i n) : (step i).carr.length = n := by
  show (carrOf i ((phaseUptake i).map (·.1))).length = n
  unfold carrOf
  rw [zipWith3_length, List.length_map, phaseUptake_length i n h, h.dn, h.wg]; simp

/-- N leaving through the profile bottom (kg N/ha ÷ 100) in one call -/
def bottomFlux (i : In ℚ) : ℚ := bottomOut ((step i).carr.zip i.q)

/-- N the convection terms send to the drain (kg N/ha ÷ 100) in one call -/
def drainFlux (i : In ℚ) : ℚ := drainSum i.qdrain i.draidep 1 (i.fluss0 * i.wdt) ((step i).carr.zip i.q)

/-- transport only redistributes: the pre-clamp contents sum to what was in solution minus what
left through the bottom and into the drain -/
theorem step_ck_sum (i : In ℚ) (n : ℕ) (h : WF i n) (hdz : i.dz ≠ 0) :
    (step i).ck.sum = (List.zipWith (· * ·) (step i).carr i.wg).sum * i.dz * 100
      - 100 * (bottomFlux i + drainFlux i) := by
  have hc := carr_length i n h
  unfold bottomFlux drainFlux
  generalize hcarr : (step i).carr = carr at hc ⊢
  have hck : (step i).ck = zipWith3 (newC i.dz) (List.zipWith (· * ·) carr i.wg)
      (dispGo (i.dz * i.dz) none (carr.zip ((dbGo i.wdt i.dv i.d i.wg i.w (q1Of i)).map (·.2))))
      (konvGo i.dz i.qdrain i.draidep 1 0 (i.fluss0 * i.wdt) (carr.zip i.q)) := by
    rw [← hcarr]; rfl
  rw [hck]
  have hdb : ((dbGo i.wdt i.dv i.d i.wg i.w (q1Of i)).map (·.2)).length = n := by
    rw [List.length_map]
    exact dbGo_length _ _ _ _ _ _ n h.d h.wg h.w (by simp [q1Of, h.q])
  have hzl : (carr.zip ((dbGo i.wdt i.dv i.d i.wg i.w (q1Of i)).map (·.2))).length = n := by
    rw [List.length_zip, hc, hdb]; simp
  have hql : (carr.zip i.q).length = n := by rw [List.length_zip, hc, h.q]; simp
  rw [sum_zipWith3_newC]
  · rw [dispGo_none_sum _ _ (by rw [hzl]; exact h.two)]
    have hk := konvGo_sum i.dz i.qdrain i.draidep hdz (carr.zip i.q) 1 0 (i.fluss0 * i.wdt) (le_refl 1)
    obtain ⟨hd, tl, hl⟩ : ∃ hd tl, carr.zip i.q = hd :: tl := by
      cases hcz : carr.zip i.q with
      | nil => rw [hcz] at hql; simp at hql; have := h.two; omega
      | cons a b => exact ⟨a, b, rfl⟩
    obtain ⟨c, q⟩ := hd
    rw [hl] at hk ⊢
    simp only [topTerm] at hk
    have hk2 : i.dz * (konvGo i.dz i.qdrain i.draidep 1 0 (i.fluss0 * i.wdt) ((c, q) :: tl)).sum
        = bottomOut ((c, q) :: tl) + drainSum i.qdrain i.draidep 1 (i.fluss0 * i.wdt) ((c, q) :: tl) := by
      rw [hk]; simp
    generalize (konvGo i.dz i.qdrain i.draidep 1 0 (i.fluss0 * i.wdt) ((c, q) :: tl)).sum = K at hk2 ⊢
    rw [← hk2]; ring
  · rw [dispGo_length, hzl, List.length_zipWith, hc, h.wg]; simp
  · rw [dispGo_length, hzl, konvGo_length, hql]

/-! ### layer-wise hypotheses and layer-wise (in)equalities -/

def AllPairs (P : ℚ → ℚ → Prop) : List ℚ → List ℚ → Prop
  | a :: as, b :: bs => P a b ∧ AllPairs P as bs
  | _, _ => True

def AllTriples (P : ℚ → ℚ → ℚ → Prop) : List ℚ → List ℚ → List ℚ → Prop
  | a :: as, b :: bs, c :: cs => P a b c ∧ AllTriples P as bs cs
  | _, _, _ => True

theorem clamp0_ge (x : ℚ) : x ≤ clamp0 x := by unfold clamp0; split <;> linarith
theorem clamp0_nonneg (x : ℚ) : 0 ≤ clamp0 x := by unfold clamp0; split <;> linarith
theorem clamp0_of_nonneg (x : ℚ) (h : ¬ x < 0) : clamp0 x = x := by unfold clamp0; simp [h]
theorem takeUp_ge (c p : ℚ) : c - p ≤ takeUp c p := by unfold takeUp; split <;> linarith

theorem zip_map_fst : ∀ (c p : List ℚ), c.length = p.length → (c.zip p).map (·.1) = c := by
  intro c
  induction c with
  | nil => intro p _; simp
  | cons x xs ih =>
    intro p h
    cases p with
    | nil => simp at h
    | cons y ys => simp at h; simp [ih ys h]

theorem zip_map_snd : ∀ (c p : List ℚ), c.length = p.length → (c.zip p).map (·.2) = p := by
  intro c
  induction c with
  | nil => intro p h; cases p with
    | nil => simp
    | cons y ys => simp at h
  | cons x xs ih =>
    intro p h
    cases p with
    | nil => simp at h
    | cons y ys => simp at h; simp [ih ys h]

theorem uptake_sum_ge : ∀ (c p : List ℚ),
    c.sum - ((uptake c p).map (·.2)).sum ≤ ((uptake c p).map (·.1)).sum + (c.drop p.length).sum := by
  intro c
  induction c with
  | nil => intro p; simp [uptake]
  | cons x xs ih =>
    intro p
    cases p with
    | nil => simp [uptake]
    | cons y ys =>
      have := ih ys
      have h2 := takeUp_ge x (clampPe x y)
      simp only [uptake, List.map_cons, List.sum_cons, List.length_cons, List.drop_succ_cons]
      linarith

theorem uptake_sum_eq : ∀ (c p : List ℚ), c.length = p.length →
    AllPairs (fun c p => ¬ (c - clampPe c p < 0)) c p →
    ((uptake c p).map (·.1)).sum = c.sum - ((uptake c p).map (·.2)).sum := by
  intro c
  induction c with
  | nil => intro p _ _; simp [uptake]
  | cons x xs ih =>
    intro p hl hp
    cases p with
    | nil => simp at hl
    | cons y ys =>
      simp only [List.length_cons, Nat.add_right_cancel_iff] at hl
      obtain ⟨h1, h2⟩ := hp
      have := ih ys hl h2
      simp only [uptake, List.map_cons, List.sum_cons, takeUp, h1, if_false]
      linarith

theorem carr_sum_eq (dz wdt : ℚ) : ∀ (a b w : List ℚ), a.length = b.length → b.length ≤ w.length →
    AllTriples (fun a b w => w * dz * 100 ≠ 0 ∧ ¬ ((a + b * wdt / 2) / (w * dz * 100) < 0)) a b w →
    (List.zipWith (· * ·) (zipWith3 (conc dz wdt) a b w) w).sum * dz * 100 = a.sum + b.sum * wdt / 2 := by
  intro a
  induction a with
  | nil =>
    intro b w h _ _
    cases b with
    | nil => simp [zipWith3]
    | cons y ys => simp at h
  | cons x xs ih =>
    intro b w h1 h2 hp
    cases b with
    | nil => simp at h1
    | cons y ys =>
      cases w with
      | nil => simp at h2
      | cons z zs =>
        simp only [List.length_cons, Nat.add_right_cancel_iff, Nat.add_le_add_iff_right] at h1 h2
        obtain ⟨⟨hne, hnc⟩, hrest⟩ := hp
        have := ih ys zs h1 h2 hrest
        simp only [zipWith3, List.zipWith_cons_cons, List.sum_cons, conc, clamp0_of_nonneg _ hnc]
        have e : (x + y * wdt / 2) / (z * dz * 100) * z * dz * 100 = x + y * wdt / 2 := by
          rw [show (x + y * wdt / 2) / (z * dz * 100) * z * dz * 100
                = (x + y * wdt / 2) / (z * dz * 100) * (z * dz * 100) by ring]
          exact div_mul_cancel₀ _ hne
        linarith [e, this]

theorem carr_sum_ge (dz wdt : ℚ) (hdz : 0 < dz) : ∀ (a b w : List ℚ), a.length = b.length → b.length ≤ w.length →
    AllTriples (fun _ _ w => 0 < w) a b w →
    a.sum + b.sum * wdt / 2 ≤ (List.zipWith (· * ·) (zipWith3 (conc dz wdt) a b w) w).sum * dz * 100 := by
  intro a
  induction a with
  | nil =>
    intro b w h _ _
    cases b with
    | nil => simp [zipWith3]
    | cons y ys => simp at h
  | cons x xs ih =>
    intro b w h1 h2 hp
    cases b with
    | nil => simp at h1
    | cons y ys =>
      cases w with
      | nil => simp at h2
      | cons z zs =>
        simp only [List.length_cons, Nat.add_right_cancel_iff, Nat.add_le_add_iff_right] at h1 h2
        obtain ⟨hz, hrest⟩ := hp
        have := ih ys zs h1 h2 hrest
        simp only [zipWith3, List.zipWith_cons_cons, List.sum_cons, conc]
        have hpos : 0 < z * dz * 100 := by positivity
        have e : x + y * wdt / 2 ≤ clamp0 ((x + y * wdt / 2) / (z * dz * 100)) * z * dz * 100 := by
          have h1 := clamp0_ge ((x + y * wdt / 2) / (z * dz * 100))
          have h2 : (x + y * wdt / 2) / (z * dz * 100) * (z * dz * 100) = x + y * wdt / 2 :=
            div_mul_cancel₀ _ (ne_of_gt hpos)
          have h3 := mul_le_mul_of_nonneg_right h1 (le_of_lt hpos)
          linarith
        linarith [e, this]

theorem fin_sum_eq (wdt : ℚ) : ∀ (ck dn : List ℚ), ck.length = dn.length →
    AllPairs (fun c d => ¬ c < 0 ∧ ¬ (c + d * wdt / 2 < 0)) ck dn →
    (List.zipWith (fun c dn => clamp0 (clamp0 c + dn * wdt / 2)) ck dn).sum = ck.sum + dn.sum * wdt / 2 := by
  intro ck
  induction ck with
  | nil =>
    intro dn hl _
    cases dn with
    | nil => simp
    | cons y ys => simp at hl
  | cons x xs ih =>
    intro dn hl hp
    cases dn with
    | nil => simp at hl
    | cons y ys =>
      simp only [List.length_cons, Nat.add_right_cancel_iff] at hl
      obtain ⟨⟨h1, h2⟩, hrest⟩ := hp
      have := ih ys hl hrest
      simp only [List.zipWith_cons_cons, List.sum_cons, clamp0_of_nonneg _ h1, clamp0_of_nonneg _ h2]
      linarith

theorem fin_sum_ge (wdt : ℚ) : ∀ (ck dn : List ℚ), ck.length = dn.length →
    ck.sum + dn.sum * wdt / 2 ≤ (List.zipWith (fun c dn => clamp0 (clamp0 c + dn * wdt / 2)) ck dn).sum := by
  intro ck
  induction ck with
  | nil => intro dn hl; cases dn with
    | nil => simp
    | cons y ys => simp at hl
  | cons x xs ih =>
    intro dn hl
    cases dn with
    | nil => simp at hl
    | cons y ys =>
      simp only [List.length_cons, Nat.add_right_cancel_iff] at hl
      have := ih ys hl
      simp only [List.zipWith_cons_cons, List.sum_cons]
      have h1 := clamp0_ge (clamp0 x + y * wdt / 2)
      have h2 := clamp0_ge x
      linarith

/-- no non-negativity clamp engages in this call -/
structure NoClamp (i : In ℚ) : Prop where
  up : i.first = true → AllPairs (fun c p => ¬ (c - clampPe c p < 0)) i.c1 i.pe
  carr : AllTriples (fun a b w => w * i.dz * 100 ≠ 0 ∧ ¬ ((a + b * i.wdt / 2) / (w * i.dz * 100) < 0))
          ((phaseUptake i).map (·.1)) i.dn i.wg
  fin : AllPairs (fun c d => ¬ c < 0 ∧ ¬ (c + d * i.wdt / 2 < 0)) (step i).ck i.dn

/-- the amount of N taken up in this call (only the first sub-step of a day takes up) -/
def uptaken (i : In ℚ) : ℚ := if i.first then (step i).pe.sum else 0

theorem ck_length (i : In ℚ) (n : ℕ) (h : WF i n) : (step i).ck.length = n := by
  have hc := carr_length i n h
  show (zipWith3 (newC i.dz) (List.zipWith (· * ·) (step i).carr i.wg)
      (dispGo (i.dz * i.dz) none ((step i).carr.zip ((dbGo i.wdt i.dv i.d i.wg i.w (q1Of i)).map (·.2))))
      (konvGo i.dz i.qdrain i.draidep 1 0 (i.fluss0 * i.wdt) ((step i).carr.zip i.q))).length = n
  have hdb : ((dbGo i.wdt i.dv i.d i.wg i.w (q1Of i)).map (·.2)).length = n := by
    rw [List.length_map]
    exact dbGo_length _ _ _ _ _ _ n h.d h.wg h.w (by simp [q1Of, h.q])
  rw [zipWith3_length, dispGo_length, konvGo_length, List.length_zipWith, List.length_zip, List.length_zip, hc, hdb, h.wg, h.q]
  simp

theorem c1u_sum_ge (i : In ℚ) (n : ℕ) (h : WF i n) :
    i.c1.sum - uptaken i ≤ ((phaseUptake i).map (·.1)).sum := by
  unfold uptaken
  have hpe : (step i).pe = (phaseUptake i).map (·.2) := rfl
  rw [hpe]
  unfold phaseUptake
  by_cases hf : i.first = true
  · simp only [hf, if_true]
    have := uptake_sum_ge i.c1 i.pe
    rw [← h.c1.trans h.pe.symm, List.drop_length] at this
    simpa using this
  · have hff : i.first = false := by simpa using hf
    simp only [hff, Bool.false_eq_true, if_false]
    rw [zip_map_fst _ _ (h.c1.trans h.pe.symm)]; simp

theorem c1u_sum_eq (i : In ℚ) (n : ℕ) (h : WF i n)
    (hup : i.first = true → AllPairs (fun c p => ¬ (c - clampPe c p < 0)) i.c1 i.pe) :
    ((phaseUptake i).map (·.1)).sum = i.c1.sum - uptaken i := by
  unfold uptaken
  have hpe : (step i).pe = (phaseUptake i).map (·.2) := rfl
  rw [hpe]
  unfold phaseUptake
  by_cases hf : i.first = true
  · simp only [hf, if_true]
    exact uptake_sum_eq i.c1 i.pe (h.c1.trans h.pe.symm) (hup hf)
  · have hff : i.first = false := by simpa using hf
    simp only [hff, Bool.false_eq_true, if_false]
    rw [zip_map_fst _ _ (h.c1.trans h.pe.symm)]; simp

/-- **nmove balance without clamp** -/
theorem step_balance (i : In ℚ) (n : ℕ) (h : WF i n) (hdz : i.dz ≠ 0) (hc : NoClamp i) :
    (step i).c1.sum = i.c1.sum - uptaken i + i.wdt * i.dn.sum - 100 * (bottomFlux i + drainFlux i) := by
  have hck := step_ck_sum i n h hdz
  have hlen := ck_length i n h
  have hc1 : (step i).c1 = List.zipWith (fun c dn => clamp0 (clamp0 c + dn * i.wdt / 2)) (step i).ck i.dn := rfl
  have hcarr : (step i).carr = zipWith3 (conc i.dz i.wdt) ((phaseUptake i).map (·.1)) i.dn i.wg := rfl
  rw [hc1, fin_sum_eq i.wdt _ _ (hlen.trans h.dn.symm) hc.fin, hck, hcarr]
  have hul : ((phaseUptake i).map (·.1)).length = i.dn.length := by
    rw [List.length_map, phaseUptake_length i n h, h.dn]
  rw [carr_sum_eq i.dz i.wdt _ _ _ hul (by rw [h.dn, h.wg]; omega) hc.carr, c1u_sum_eq i n h hc.up]
  ring

/-- **the clamps only add** -/
theorem step_balance_ge (i : In ℚ) (n : ℕ) (h : WF i n) (hdz : 0 < i.dz)
    (hwg : AllTriples (fun _ _ w => 0 < w) ((phaseUptake i).map (·.1)) i.dn i.wg) :
    i.c1.sum - uptaken i + i.wdt * i.dn.sum - 100 * (bottomFlux i + drainFlux i) ≤ (step i).c1.sum := by
  have hck := step_ck_sum i n h (ne_of_gt hdz)
  have hlen := ck_length i n h
  have hc1 : (step i).c1 = List.zipWith (fun c dn => clamp0 (clamp0 c + dn * i.wdt / 2)) (step i).ck i.dn := rfl
  have hcarr : (step i).carr = zipWith3 (conc i.dz i.wdt) ((phaseUptake i).map (·.1)) i.dn i.wg := rfl
  have h1 := fin_sum_ge i.wdt _ _ (hlen.trans h.dn.symm)
  rw [← hc1, hck, hcarr] at h1
  have hul : ((phaseUptake i).map (·.1)).length = i.dn.length := by
    rw [List.length_map, phaseUptake_length i n h, h.dn]
  have h2 := carr_sum_ge i.dz i.wdt hdz _ _ _ hul (by rw [h.dn, h.wg]; omega) hwg
  have h3 := c1u_sum_ge i n h
  linarith

/-- later sub-steps touch neither the uptake counter nor the crop N -/
theorem step_later_counters (j : In ℚ) (o : Out ℚ) :
    (step (feed j o)).aufnasum = o.aufnasum ∧ (step (feed j o)).pesum = o.pesum :=
  ⟨rfl, rfl⟩

theorem runRest_aufnasum : ∀ (rest : List (In ℚ)) (o : Out ℚ), (runRest o rest).aufnasum = o.aufnasum := by
  intro rest
  induction rest with
  | nil => intro o; rfl
  | cons j tl ih => intro o; simp only [runRest]; rw [ih]; rfl

theorem runRest_pesum : ∀ (rest : List (In ℚ)) (o : Out ℚ), (runRest o rest).pesum = o.pesum := by
  intro rest
  induction rest with
  | nil => intro o; rfl
  | cons j tl ih => intro o; simp only [runRest]; rw [ih]; rfl

theorem sumFrom_eq (z : ℚ) : ∀ l : List ℚ, sumFrom z l = z + l.sum := by
  intro l
  induction l generalizing z with
  | nil => simp [sumFrom]
  | cons x xs ih => simp [sumFrom, ih]; ring

theorem step_first_counters (i : In ℚ) (hf : i.first = true) :
    (step i).aufnasum = i.aufnasum + (step i).pe.sum ∧
    (step i).pesum = i.pesum + (step i).pe.sum + (if i.inSeason then i.schnorr else 0) := by
  have h1 : (step i).aufnasum = sumFrom i.aufnasum (step i).pe := by
    show (if i.first then sumFrom i.aufnasum _ else i.aufnasum) = _
    rw [hf]; rfl
  have h2 : (step i).pesum = (if i.inSeason then sumFrom i.pesum (step i).pe + i.schnorr else sumFrom i.pesum (step i).pe) := by
    show (if i.first then (let p := sumFrom i.pesum _; if i.inSeason then p + i.schnorr else p) else i.pesum) = _
    rw [hf]; rfl
  constructor
  · rw [h1, sumFrom_eq]
  · rw [h2]; split <;> rw [sumFrom_eq] <;> ring

theorem drainSum_eq (qd : ℚ) (dd : ℕ) : ∀ (l : List (ℚ × ℚ)) (z : ℕ) (qTop : ℚ),
    drainSum qd dd z qTop l = qd * (if z ≤ dd then (l.map (·.1)).getD (dd - z) 0 else 0) := by
  intro l
  induction l with
  | nil => intro z qTop; simp [drainSum]
  | cons hd tl ih =>
    intro z qTop
    obtain ⟨c, q⟩ := hd
    simp only [drainSum, ih, drainTerm, List.map_cons]
    by_cases h1 : z = dd
    · subst h1; simp; ring
    · by_cases h2 : z < dd
      · have e : dd - z = (dd - (z + 1)) + 1 := by omega
        have hle : z ≤ dd := by omega
        have hle2 : z + 1 ≤ dd := by omega
        simp [h1, hle, hle2, e]
      · have hle : ¬ z ≤ dd := by omega
        have hle2 : ¬ z + 1 ≤ dd := by omega
        simp [h1, hle, hle2]

theorem carrGet_eq (carr : List ℚ) (dd : ℕ) :
    carrGet carr dd = if 1 ≤ dd then carr.getD (dd - 1) 0 else 0 := by
  unfold carrGet
  cases dd with
  | zero => simp
  | succ k => simp

/-- **what DRAINLOSS books is what the convection terms send to the drain** -/
theorem step_drainloss (i : In ℚ) (n : ℕ) (h : WF i n) (hdz : i.dz ≠ 0) :
    (step i).drainloss = i.drainloss + 100 * drainFlux i := by
  have hc := carr_length i n h
  show i.drainloss + i.qdrain * carrGet (step i).carr i.draidep / i.dz * 100 * i.dz = _
  unfold drainFlux
  rw [drainSum_eq, zip_map_fst _ _ (hc.trans h.q.symm), carrGet_eq]
  field_simp

/-- flux through the profile bottom in terms of the last layer -/
theorem bottomOut_eq : ∀ (l : List (ℚ × ℚ)), l ≠ [] →
    bottomOut l = if (l.getD (l.length - 1) (0, 0)).2 < 0 then 0
                  else (l.getD (l.length - 1) (0, 0)).1 * (l.getD (l.length - 1) (0, 0)).2 := by
  intro l
  induction l with
  | nil => intro h; exact absurd rfl h
  | cons hd tl ih =>
    intro _
    cases tl with
    | nil => obtain ⟨c, q⟩ := hd; simp [bottomOut]
    | cons hd2 tl2 =>
      have := ih (by simp)
      simp only [bottomOut, this, List.length_cons]
      simp

theorem zip_getD : ∀ (a b : List ℚ) (k : ℕ), a.length = b.length →
    (a.zip b).getD k (0, 0) = (a.getD k 0, b.getD k 0) := by
  intro a
  induction a with
  | nil => intro b k h; cases b with
    | nil => simp
    | cons y ys => simp at h
  | cons x xs ih =>
    intro b k h
    cases b with
    | nil => simp at h
    | cons y ys =>
      cases k with
      | zero => simp
      | succ m => simp at h; simpa using ih ys m h

/-- **what OUTSUM books is the flux through the profile bottom** (leaching depth = profile bottom) -/
theorem step_outsum (i : In ℚ) (n : ℕ) (h : WF i n) (hdz : i.dz ≠ 0) (hout : i.outn = n) :
    (step i).outsum = i.outsum + 100 * bottomFlux i := by
  have hc := carr_length i n h
  have hn : 1 ≤ n := le_trans (by norm_num) h.two
  have hlt : ¬ i.outn < i.c1.length := by rw [hout, h.c1]; omega
  have ho : (step i).outsum = leachAdd i.dz (i.outn < i.c1.length) i.outsum ((q1Of i).getD i.outn 0)
      (carrGet (step i).carr i.outn) (carrGet (step i).carr (i.outn + 1))
      (((dbGo i.wdt i.dv i.d i.wg i.w (q1Of i)).map (·.2)).getD (i.outn - 1) 0) := rfl
  rw [ho]
  unfold leachAdd bottomFlux
  simp only [hlt, decide_false, Bool.false_eq_true, if_false]
  have hzl : ((step i).carr.zip i.q).length = n := by rw [List.length_zip, hc, h.q]; simp
  rw [bottomOut_eq _ (by intro hh; rw [hh] at hzl; simp at hzl; omega), hzl,
    zip_getD _ _ _ (hc.trans h.q.symm), carrGet_eq, hout]
  have hq : (q1Of i).getD n 0 = i.q.getD (n - 1) 0 := by
    unfold q1Of
    obtain ⟨k, rfl⟩ : ∃ k, n = k + 1 := ⟨n - 1, by omega⟩
    simp
  rw [hq]
  simp only [hn, if_true]
  generalize i.q.getD (n - 1) 0 = qq
  generalize (step i).carr.getD (n - 1) 0 = cc
  rcases lt_trichotomy qq 0 with hneg | hz | hpos
  · have : ¬ 0 < qq := by linarith
    simp [hneg, this]
  · subst hz; simp
  · have : ¬ qq < 0 := by linarith
    simp only [hpos, this, if_true, if_false]
    field_simp

/-- one call: mineral N in the profile + leached + drained changes only by uptake and source -/
theorem step_total (i : In ℚ) (n : ℕ) (h : WF i n) (hdz : i.dz ≠ 0) (hout : i.outn = n) (hc : NoClamp i) :
    (step i).c1.sum + (step i).outsum + (step i).drainloss
      = i.c1.sum + i.outsum + i.drainloss - uptaken i + i.wdt * i.dn.sum := by
  rw [step_balance i n h hdz hc, step_outsum i n h hdz hout, step_drainloss i n h hdz]; ring

/-- the hypotheses of the balance for every later sub-step of a day, along the states the day
actually goes through -/
def DayOk (n : ℕ) : Out ℚ → List (In ℚ) → Prop
  | _, [] => True
  | o, j :: rest => WF (feed j o) n ∧ (feed j o).dz ≠ 0 ∧ (feed j o).outn = n ∧ NoClamp (feed j o)
      ∧ DayOk n (step (feed j o)) rest

theorem runRest_total (n : ℕ) : ∀ (rest : List (In ℚ)) (o : Out ℚ), DayOk n o rest →
    (runRest o rest).c1.sum + (runRest o rest).outsum + (runRest o rest).drainloss
      = o.c1.sum + o.outsum + o.drainloss + (rest.map (fun j => j.wdt * j.dn.sum)).sum := by
  intro rest
  induction rest with
  | nil => intro o _; simp [runRest]
  | cons j tl ih =>
    intro o hok
    obtain ⟨hwf, hdz, hout, hnc, hrest⟩ := hok
    simp only [runRest]
    rw [ih _ hrest, step_total (feed j o) n hwf hdz hout hnc]
    have hu : uptaken (feed j o) = 0 := by unfold uptaken; simp [feed]
    have h1 : (feed j o).c1 = o.c1 := rfl
    have h2 : (feed j o).outsum = o.outsum := rfl
    have h3 : (feed j o).drainloss = o.drainloss := rfl
    have h4 : (feed j o).wdt = j.wdt := rfl
    have h5 : (feed j o).dn = j.dn := rfl
    rw [hu, h1, h2, h3, h4, h5]
    simp only [List.map_cons, List.sum_cons]
    ring

end Hermes.Nitro
