package main

import (
	"fmt"
	"time"

	"github.com/zalf-rpm/Hermes2Go/hermes"
	"verifharness/vh"
)

const lastDay = 72684 // 31.12.2099

func init() { register("C12", checkC12) }

func checkC12(c *vh.Ctx) {
	formats := []hermes.DateFormat{hermes.DateDEshort, hermes.DateDElong, hermes.DateENshort, hermes.DateENlong}
	seps := []string{"", "."}
	if c.Thorough() {
		seps = []string{"", ".", "/", "-"}
	}
	origin := time.Date(1901, 1, 1, 0, 0, 0, 0, time.UTC)
	c.Res.Rule = "all day numbers 1..72684 x 4 formats x separator variants x century splits (quick: one random admissible split + both extreme splits per date; thorough: every admissible split); a case is non-trivial when it is a distinct (date, format, separator, split) tuple"
	c.Res.Exhaustive = true

	var cases, impl []string
	add := func(cs, im string) { cases = append(cases, cs); impl = append(impl, im) }
	flush := func(kernel string) {
		saved := cases
		c.Correspond(kernel, cases, impl, 0, 0, func(i int) interface{} { return saved[i] })
		cases, impl = nil, nil
	}

	// ---- kalenderDate: exhaustive, plus oracle = Go's time package (independent calendar)
	prevDoy := 0
	for m := 1; m <= lastDay; m++ {
		y, mo, d := hermes.KalenderDate(m)
		add(fmt.Sprintf("date.kal %d", m), fmt.Sprintf("%d %d %d", y, mo, d))
		c.Eval()
		t := origin.AddDate(0, 0, m-1)
		if t.Year() != y || int(t.Month()) != mo || t.Day() != d {
			c.Violate("search", "kalender:calendar", fmt.Sprintf("KalenderDate(%d) = %d-%d-%d but the calendar says %s", m, y, mo, d, t.Format("2006-01-02")),
				map[string]interface{}{"masdat": m})
		}
		leap := y%4 == 0 && (y%100 != 0 || y%400 == 0)
		if (t.YearDay() == 366) != (leap && mo == 12 && d == 31) {
			c.Violate("search", "kalender:leap", fmt.Sprintf("leap rule broken at day %d", m), map[string]interface{}{"masdat": m})
		}
		_ = prevDoy
	}
	c.Nontrivial("kal")
	flush("date.kal")

	// ---- render + parse round trip on the implementation, and model correspondence
	nRT := 0
	for fi, f := range formats {
		short := f == hermes.DateDEshort || f == hermes.DateENshort
		for _, sep := range seps {
			kal := hermes.KalenderConverter(f, sep)
			sepCode := 0
			if sep != "" {
				sepCode = int(sep[0])
			}
			// converters per century split (the split is fixed at construction)
			conv := map[int]hermes.DateConverterFunc{}
			getConv := func(cent int) hermes.DateConverterFunc {
				if cv, ok := conv[cent]; ok {
					return cv
				}
				cv := hermes.DateConverter(cent, f)
				conv[cent] = cv
				return cv
			}
			prev := ""
			for m := 1; m <= lastDay; m++ {
				txt := kal(m)
				add(fmt.Sprintf("date.render %d %d %d", fi, sepCode, m), txt)
				if txt == prev {
					c.Violate("search", "render:not-injective", fmt.Sprintf("days %d and %d render to the same text %q", m-1, m, txt), map[string]interface{}{"masdat": m, "format": fi, "sep": sep})
				}
				prev = txt
				yr := origin.AddDate(0, 0, m-1).Year() - 1900
				doy := origin.AddDate(0, 0, m-1).YearDay()
				var cents []int
				if short {
					lo, hi := yr-99, yr
					if lo < 0 {
						lo = 0
					}
					if hi > 100 {
						hi = 100
					}
					if c.Thorough() && (m%97 == 0) {
						for ce := lo; ce <= hi; ce++ {
							cents = append(cents, ce)
						}
					} else {
						cents = []int{lo, hi, lo + c.Rng.Intn(hi-lo+1)}
					}
				} else {
					cents = []int{c.Rng.Intn(100)}
				}
				for _, cent := range cents {
					zt, mas := getConv(cent)(txt)
					c.Eval()
					nRT++
					add(fmt.Sprintf("date.parse %d %d %s", fi, cent, txt), fmt.Sprintf("%d %d", zt, mas))
					if mas != m {
						c.Violate("search", fmt.Sprintf("roundtrip:f%d", fi), fmt.Sprintf("day %d renders as %q which parses (split %d) to %d", m, txt, cent, mas),
							map[string]interface{}{"masdat": m, "format": fi, "sep": sep, "cent": cent, "text": txt, "parsed": mas})
					}
					if zt != doy {
						c.Violate("search", fmt.Sprintf("doy:f%d", fi), fmt.Sprintf("day-of-year of %q is %d, calendar says %d", txt, zt, doy),
							map[string]interface{}{"masdat": m, "format": fi, "sep": sep, "cent": cent, "text": txt})
					}
				}
				if m%20000 == 1 {
					c.Sample(map[string]interface{}{"masdat": m, "format": f.String(), "sep": sep, "text": txt})
				}
			}
			c.Nontrivial(fmt.Sprintf("f%d-sep%q", fi, sep))
			flush(fmt.Sprintf("date.render/parse f%d sep%q", fi, sep))
		}
	}
	c.Res.NontrivialN = nRT
	c.Res.Extra["roundtrips"] = nRT
	c.Res.Extra["formats"] = len(formats)
	c.Res.Extra["separators"] = seps
}
