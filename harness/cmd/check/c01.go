package main

import (
	"fmt"
	"math"

	"verifharness/vh"
)

func init() { register("C01", checkC01) }

// waterKernelStage: correspondence of hermes.Water with the Lean model and the kernel-level
// predicates of C01 (mass balance) and C06 (bounds, finiteness) on the implementation.
func waterKernelStage(c *vh.Ctx, n int, balance, bounds bool) {
	var cases, impl []string
	var kept []waterCase
	for k := 0; k < n; k++ {
		wc := genWaterCase(c.Rng)
		o, pan := runWaterImpl(&wc)
		c.Eval()
		c.Count("water:" + wc.Branch)
		if wc.Draidep > 0 {
			c.Count("water:drain")
		}
		if wc.Grw < 30 {
			c.Count("water:groundwater")
		}
		c.Count(fmt.Sprintf("water:steps=%d", int(math.Round(1/wc.Wdt))))
		if pan != "" {
			c.Violate("search", "water:panic", "hermes.Water panicked: "+pan, wc)
			continue
		}
		c.Nontrivial(fmt.Sprintf("w%d", k))
		if k < 2 {
			c.Sample(wc)
		}
		cases = append(cases, wc.line())
		impl = append(impl, o.line())
		kept = append(kept, wc)
		// ---- search: the property predicates evaluated on the implementation's answer
		before, after, tpSum := 0.0, 0.0, 0.0
		scale := 1.0
		for i := 0; i < wc.N; i++ {
			before += wc.Wg[i] * wc.Dz
			after += o.Wg1[i] * wc.Dz
			tpSum += o.Tp[i]
			scale += math.Abs(wc.Wg[i]*wc.Dz) + math.Abs(o.Tp[i]*wc.Wdt)
		}
		scale += math.Abs(wc.Fluss0*wc.Wdt) + math.Abs(o.Q1[wc.N]) + math.Abs(o.Qdrain)
		if balance {
			rhs := before - wc.Wdt*tpSum + wc.Fluss0*wc.Wdt - o.Q1[wc.N] - o.Qdrain
			if d := math.Abs(after - rhs); !(d <= 1e-9*scale) {
				c.Violate("search", "water-kernel:balance:"+wc.Branch,
					fmt.Sprintf("water balance of one Water call does not close: storage after %.12g, expected %.12g (residual %.3g)", after, rhs, after-rhs), wc)
			}
			// reported quantities: dSICKER + dCAPSUM = 10*Q1[OUTN] - 10*GWAUF*wdt ; dDRAISUM = 10*QDRAIN
			rep := o.DSicker + o.DCapsum
			want := 10*o.Q1[wc.Outn] - 10*wc.Gwauf*wc.Wdt
			if d := math.Abs(rep - want); !(d <= 1e-9*(1+math.Abs(want))) {
				c.Violate("search", "water-kernel:reported", fmt.Sprintf("percolation/capillary counters %.12g differ from the boundary flux %.12g", rep, want), wc)
			}
			if d := math.Abs(o.DDraisum - 10*o.Qdrain); !(d <= 1e-9*(1+math.Abs(o.Qdrain))) {
				c.Violate("search", "water-kernel:drain-counter", "drain counter differs from drain flux", wc)
			}
		}
		if bounds {
			if !allFinite(o.Wg1...) || !allFinite(o.Q1...) || !allFinite(o.Qdrain, o.DSicker, o.DCapsum) {
				c.Violate("search", "water-kernel:nonfinite", "non-finite value after one Water call", wc)
			}
		}
	}
	saved := kept
	c.Correspond("water.step", cases, impl, 1e-9, 1e-12, func(i int) interface{} { return saved[i] })
	waterSrcImpStage(c, saved)
	if nc := minI(len(saved), 800); nc > 0 && len(impl) == len(saved) { // the same cases in 8 goroutines at once
		concurrentKernelStage(c, "water", impl[:nc], 8, 2, func(i int) string {
			wc := saved[i]
			o, pan := runWaterImpl(&wc)
			if pan != "" {
				return "panic " + pan
			}
			return o.line()
		}, func(i int, got string) {
			if i < 0 {
				c.Violate("search", "water-kernel:concurrent:panic", "hermes.Water panics when several simulations run at the same time: "+got, nil)
				return
			}
			wc := saved[i]
			if o, _ := runWaterImpl(&wc); o.line() != impl[i] {
				return
			}
			c.Violate("search", "water-kernel:concurrent:differs-from-sequential", fmt.Sprintf("hermes.Water on its own state gives another answer when other simulations call it at the same time (state shared between runs): sequential %.60s…, concurrent %.60s…", impl[i], got), wc)
		})
	}
}

func checkC01(c *vh.Ctx) {
	c.Res.Rule = "kernel: generated states of hermes.Water (1-20 layers, all three surface-flux branches, drains, groundwater, states above field capacity / below wilting point / exact ties, 1-93 sub-steps); non-trivial = distinct generated state. whole runs: see extra"
	waterKernelStage(c, c.N(4000, 60000), true, false)
	waterRunStage(c, c.N(48, 800))
}
