package proj

import "verifharness/vh"

// SetRotation replaces the crops grown after the pre-crop, moves the end date and regenerates what
// depends on them: the weather series (it must reach the end of the end year) and the tillage
// events (only in the gaps between harvest and the next sowing: the model rejects tillage under a
// crop). Fertiliser and irrigation events are kept.
func (p *Project) SetRotation(r *vh.Rng, entries []RotEntry, end Date) {
	p.Rot = append(p.Rot[:1:1], entries...)
	p.SetEnd(end)
	p.Til = nil
	for i := 1; i < len(p.Rot); i++ {
		from := p.Rot[i-1].Harvest.Z() + 2
		to := p.Rot[i].Sow.Z() - 2
		if to > from && r.Chance(0.6) {
			p.Til = append(p.Til, TilEv{Depth: r.Range(3, 35), Kind: r.Range(1, 2), Date: FromZ(r.Range(from, to))})
		}
	}
	p.WeatherDays = Date{end.Y + 1, 12, 31}.Z() - p.WeatherStart.Z() + 1
	p.GenWeather()
}

// Crop-credit rotations (property C07): situations in which crop N that is stale from an earlier
// crop or day, or uptake booked without a crop, becomes visible.
//
//	0  legume cut green in July while it still fixes N, then a winter cereal, then ≥ 1 year of fallow
//	1  legume cut green → another legume cut green → fallow tail
//	2  silage maize chopped in August (still taking up N on its harvest day) → ≥ 1 year of fallow
//	3  legume cut green → silage maize chopped in August → fallow tail
func CreditRotation(p *Project, r *vh.Rng, pattern int) {
	start := p.Start()
	legumes := []string{"SOY", "LUP"}
	y := start.Y + 1
	var rot []RotEntry
	legume := func(year int) RotEntry {
		code := legumes[r.Intn(len(legumes))]
		c := CalOf(code)
		sow := Date{year, c.SowM, c.SowD}.AddDays(r.Range(-8, 8))
		return RotEntry{Crop: code, Sow: sow, Harvest: Date{year, 7, r.Range(3, 26)}, Rex: r.Intn(100)}
	}
	maize := func(year int) RotEntry {
		c := CalOf("SM")
		return RotEntry{Crop: "SM", Sow: Date{year, c.SowM, c.SowD}.AddDays(r.Range(-8, 8)), Harvest: Date{year, 8, r.Range(8, 28)}, Rex: r.Intn(100)}
	}
	switch pattern % 4 {
	case 0:
		l := legume(y)
		c := CalOf("WW")
		ww := RotEntry{Crop: "WW", Sow: Date{y, c.SowM, c.SowD}.AddDays(r.Range(-8, 8)), Harvest: Date{y + 1, c.HarM, c.HarD}.AddDays(r.Range(-8, 8)), Rex: r.Intn(100)}
		rot = []RotEntry{l, ww}
	case 1:
		rot = []RotEntry{legume(y), legume(y + 1)}
	case 2:
		rot = []RotEntry{maize(y)}
	case 3:
		rot = []RotEntry{legume(y), maize(y + 1)}
	}
	last := rot[len(rot)-1].Harvest
	p.SetRotation(r, rot, last.AddDays(r.Range(380, 520)))
}

// LateMeasurements moves the first measurement (the only one the run uses: it overwrites mineral
// N and water and zeroes the fertiliser sums on its date) behind the start, puts ammonium-containing
// mineral fertiliser between the start and that date, and appends further measurement lines.
func LateMeasurements(p *Project, r *vh.Rng) {
	start := p.Start()
	first := start.AddDays(r.Range(100, 260))
	kinds := []string{"KAS", "AHL", "HAS"}
	var early []FertEv
	d := start.AddDays(r.Range(2, 15))
	for k := 0; k < r.Range(1, 3) && d.Z() < first.Z()-20; k++ {
		early = append(early, FertEv{Amount: r.Range(30, 120), Kind: kinds[r.Intn(len(kinds))], Date: d})
		d = d.AddDays(r.Range(10, 60))
	}
	var later []FertEv
	for _, e := range p.Fert {
		if e.Date.Z() > d.Z() {
			later = append(later, e)
		}
	}
	// a dressing shortly after the measurement date as well
	after := FertEv{Amount: r.Range(30, 120), Kind: kinds[r.Intn(len(kinds))], Date: first.AddDays(r.Range(3, 30))}
	p.Fert = append(early, mergeFert(later, after)...)
	m := p.Meas[0]
	m.Date = first
	p.Meas = []Measure{m}
	for k := 0; k < r.Range(0, 2); k++ {
		m2 := m
		m2.Date = p.Meas[len(p.Meas)-1].Date.AddDays(r.Range(60, 300))
		for i := range m2.Nmin {
			m2.Nmin[i] = r.Range(1, 60)
		}
		p.Meas = append(p.Meas, m2)
	}
}

func mergeFert(list []FertEv, e FertEv) []FertEv {
	out := make([]FertEv, 0, len(list)+1)
	done := false
	for _, x := range list {
		if !done && e.Date.Z() < x.Date.Z() {
			out = append(out, e)
			done = true
		}
		if x.Date.Z() != e.Date.Z() {
			out = append(out, x)
		}
	}
	if !done {
		out = append(out, e)
	}
	return out
}
