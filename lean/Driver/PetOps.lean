import HermesModel.Proto
import HermesModel.EvatraPet
open Hermes Hermes.Proto

namespace Hermes.Driver

/-- `<pin>` = `meth crop tagN ctrans co2meth` (ints) followed by 24 floats
`verd temp tmin tmax rad sund rh wind etnull lat alti windhi kcoa fkc fkb co2 mintmp alph satbeta dt
et0Prev rstomPrev satdefPrev radsumPrev` and `fkf[12] fku[12]`. -/
def popPIn (toks : Toks) : Option (EvatraPet.PIn Float × Toks) := do
  let (meth, r) ← popNat toks
  let (crop, r) ← popNat r
  let (tagN, r) ← popNat r
  let (ctrans, r) ← popNat r
  let (co2meth, r) ← popNat r
  let (sc, r) ← popFloats 24 r
  let (fkf, r) ← popFloats 12 r
  let (fku, r) ← popFloats 12 r
  match sc with
  | [verd, temp, tmin, tmax, rad, sund, rh, wind, etnull, lat, alti, windhi, kcoa, fkc, fkb, co2, mintmp, alph,
     satbeta, dt, et0Prev, rstomPrev, satdefPrev, radsumPrev] =>
    some ({ meth, crop := crop == 1, tagN, ctrans := ctrans == 1, co2meth, verd, temp, tmin, tmax, rad, sund, rh,
            wind, etnull, lat, alti, windhi, kcoa, fkc, fkb, co2, mintmp, alph, satbeta, dt, et0Prev, rstomPrev,
            satdefPrev, radsumPrev, fkf, fku }, r)
  | _ => none

/-- the values of the transcendental sites: `k v[k]`; fewer than all sites (first round) reads as zeros -/
def popTr (toks : Toks) : Option (EvatraPet.Tr Float × Toks) := do
  let (vals, r) ← popFloatList toks
  some (EvatraPet.Tr.ofList vals, r)

def fmtSites (l : List (String × Float)) : String :=
  " ".intercalate (l.map fun (n, x) => n ++ " " ++ fmtFloat x)

def fmtRes (o : EvatraPet.Res Float) : List Float :=
  [o.verdu0, o.et0, o.rstom, o.satdef, o.wind, o.sund, o.fkc, o.radsum]

/-- `pet.sites <pin> k v[k]` answers `name arg` for each of the 35 call sites -/
def petSites (toks : Toks) : Option String := do
  let (i, r) ← popPIn toks
  let (t, _) ← popTr r
  some (fmtSites (EvatraPet.sites i t))

/-- `pet.day <pin> k v[k] elai` answers `verdu0 et0 rstom satdef wind sund fkc radsum verdunst` -/
def petDay (toks : Toks) : Option String := do
  let (i, r) ← popPIn toks
  let (t, r) ← popTr r
  let (elai, _) ← popFloat r
  some (fmtFloats (fmtRes (EvatraPet.petRaw i t) ++ [EvatraPet.verdunst i t elai]))

/-- `pet.solar <pin> k v[k]` answers `DL DLE EXT RDN DRC DEC` of `CalculateDayLenght(TAG, LAT)` -/
def petSolar (toks : Toks) : Option String := do
  let (_, r) ← popPIn toks
  let (t, _) ← popTr r
  let s := EvatraPet.dayLength t
  some (fmtFloats [s.dl, s.dle, s.ext, s.rdn, s.drc, s.dec])

/-- `pet.fkm tag` (the month of the Haude factor alone, for a scan of every day of the year) -/
def petFkm (toks : Toks) : Option String := do
  let (tag, _) ← popNat toks
  some (toString (EvatraPet.fkm tag))

/-- `<full>` = `<pin> k v[k]  N dtIdx wurz lumday  dz dt regen w0 grw p0 p1 p2 g0 g1 g2 lukrit trrelPrev
etrelPrev lai prop elaiVal  wg[N] wmin[N] wnor[N] wudich[N] expcVal[N]` -/
def popFull (toks : Toks) : Option (EvatraPet.FIn Float × EvatraPet.Tr Float × Float × List Float) := do
  let (p, r) ← popPIn toks
  let (t, r) ← popTr r
  let (n, r) ← popNat r
  let (dtIdx, r) ← popNat r
  let (wurz, r) ← popNat r
  let (lumday, r) ← popNat r
  let (sc, r) ← popFloats 17 r
  let (wg, r) ← popFloats n r
  let (wmin, r) ← popFloats n r
  let (wnor, r) ← popFloats n r
  let (wudich, r) ← popFloats n r
  let (expc, _) ← popFloats n r
  match sc with
  | [dz, dt, regen, w0, grw, p0, p1, p2, g0, g1, g2, lukrit, trrelPrev, etrelPrev, lai, prop, elai] =>
    let part : Evatra.In Float :=
      { dz, dt, dtIdx, crop := p.crop, verdu0 := 0, elai := 0, regen, wg, w0, wmin, wnor, expc := [], wudich, wurz,
        grw, p0, p1, p2, g0, g1, g2, lukrit, lumday, trrelPrev, etrelPrev }
    some ({ p, part, lai, prop }, t, elai, expc)
  | _ => none

/-- `evatra.fullsites <full>`: the sites of `pet.sites`, then exp(−.5·LAI), then the N depth coefficients -/
def fullSites (toks : Toks) : Option String := do
  let (f, t, _, _) ← popFull toks
  let extra : List (String × Float) :=
    ("exp", EvatraPet.elaiArg f.lai) ::
      (EvatraPet.expcArgs f.prop f.part.dz f.part.wg.length).map fun a => ("exp", a)
  some (fmtSites (EvatraPet.sites f.p t ++ extra))

/-- `evatra.full <full>` answers the eight values of `pet.day` followed by the answer of `evatra.part` -/
def fullDay (toks : Toks) : Option String := do
  let (f, t, elai, expc) ← popFull toks
  let (r, o) := EvatraPet.full f t elai expc
  some (fmtFloats (fmtRes r ++ [o.verdu, o.eta, o.eva, o.fluss0] ++ o.ev ++ o.nfk ++ o.tp ++
    [o.gwauf, o.lured, o.etrel, o.trrel]) ++ s!" {o.lumday} {o.wurz}")

def petOps (toks : List String) : String :=
  match toks with
  | "pet.sites" :: rest => (petSites rest).getD "bad-op"
  | "pet.day" :: rest => (petDay rest).getD "bad-op"
  | "pet.solar" :: rest => (petSolar rest).getD "bad-op"
  | "pet.fkm" :: rest => (petFkm rest).getD "bad-op"
  | _ => "bad-op"

end Hermes.Driver
