package proj

import (
	"fmt"
	"math"
	"os"
	"path/filepath"
	"strings"

	"verifharness/vh"
)

// Weather layouts with the optional columns the evapotranspiration methods need:
// method 1 (Haude) the saturation deficit at 14h (mm Hg), method 5 the reference ET column (only
// the one-file-per-year layout has it), methods 2-4 optionally sunshine hours instead of radiation.

// ETWeather describes the extra columns. Slices are parallel to p.Weather (nil = column absent / none).
type ETWeather struct {
	ET0        []float64 // mm/d, NaN = the none-sentinel of the configuration
	YearFiles  bool      // one file per year (the only layout with an ET0 column)
	NoRadShare float64   // (informational) share of days with missing radiation
}

// SatDeficit14 (mm Hg) from the day's maximum temperature and relative humidity.
func SatDeficit14(tmax, rh float64) float64 {
	es := 0.6108 * math.Exp(17.27*tmax/(tmax+237.3)) // kPa
	return vh.RoundTo(math.Max(0, es*(1-rh/100)*7.50062*1.3), 1)
}

// RefET: a plausible grass reference ET (mm/d) for the synthetic ET0 column (Hargreaves-like).
func RefET(d WDay) float64 {
	rad := d.Rad
	if math.IsNaN(rad) || rad < 0 {
		rad = 8
	}
	return vh.RoundTo(math.Max(0, 0.0135*(d.Tavg+17.8)*rad*0.408*2.2), 1)
}

// FillET fills the saturation-deficit and sunshine columns of p.Weather and returns a synthetic ET0
// column. noRad: share of days whose radiation is replaced by the none-sentinel (sunshine hours are
// then the only radiation information). sentinelET0: share of days whose ET0 is the none-sentinel.
func (p *Project) FillET(r *vh.Rng, noRad, sentinelET0 float64) []float64 {
	et0 := make([]float64, len(p.Weather))
	for i := range p.Weather {
		d := &p.Weather[i]
		d.Verd = SatDeficit14(d.Tmax, d.RH)
		doy := float64(d.Date.DOY())
		season := -math.Cos((doy - 15) / 365 * 2 * math.Pi)
		maxSun := 8 + 7*season
		d.Sun = vh.RoundTo(math.Max(0, math.Min(maxSun, maxSun*(d.Rad/(11+9.5*season+2)))), 1)
		et0[i] = RefET(*d)
		if r.Chance(noRad) {
			d.Rad = math.NaN()
		}
		if r.Chance(sentinelET0) {
			et0[i] = math.NaN()
		}
	}
	return et0
}

// UseYearFiles switches the configuration to the one-file-per-year layout (three header lines).
func (p *Project) UseYearFiles() {
	p.WeatherFmt = 0
	p.Cfg["WeatherFileFormat"] = "0"
	p.Cfg["WeatherFile"] = ymlQuote("%s.")
	p.Cfg["WeatherNumHeader"] = "3"
}

// WriteWeatherET writes the weather in the csv layout (with verd and sunhours columns) or, with
// w.YearFiles, in the one-file-per-year layout (with ET0, saturation deficit, sunshine hours;
// radiation in MJ m-2 as the reader passes it on unconverted). Call it after p.Write.
func (p *Project) WriteWeatherET(root string, w ETWeather) error {
	dir := filepath.Join(root, "weather", "gen")
	if err := os.MkdirAll(dir, 0o755); err != nil {
		return err
	}
	none := strings.Trim(p.Cfg["WeatherNoneValue"], "\"")
	code := p.fcode()
	if !w.YearFiles {
		var b strings.Builder
		b.WriteString("iso-date,tmin,tavg,tmax,precip,globrad,wind,relhumid,sunhours,verd\n")
		b.WriteString("[],[°C],[°C],[°C],[mm],[MJ m-2],[m/s],[%],[h],[mmHg]\n")
		for _, d := range p.Weather {
			fmt.Fprintf(&b, "%s,%g,%g,%g,%g,%s,%g,%g,%s,%s\n", d.Date, d.Tmin, d.Tavg, d.Tmax, d.Precip, fnum(d.Rad, none), d.Wind, d.RH, fnum(d.Sun, none), fnum(d.Verd, none))
		}
		return os.WriteFile(filepath.Join(dir, code+".csv"), []byte(b.String()), 0o644)
	}
	byYear := map[int][]int{}
	for i, d := range p.Weather {
		byYear[d.Date.Y] = append(byYear[d.Date.Y], i)
	}
	for y, idx := range byYear {
		var b strings.Builder
		b.WriteString("tavg;tmin;tmax;ET0;relhumid;vapp14;wind;sundu;globrad;precip;jday\n")
		b.WriteString("C_deg;C_deg;C_deg;mm;%;mm_Hg;m/s;hours;MJ m-2 d-1;mm;\n")
		b.WriteString("50;2;-----;-----;-----;-----;-----;-----;------;-- -;-\n")
		for _, i := range idx {
			d := p.Weather[i]
			e := math.NaN()
			if w.ET0 != nil {
				e = w.ET0[i]
			}
			fmt.Fprintf(&b, "%g;%g;%g;%s;%g;%s;%g;%s;%s;%g;%d\n", d.Tavg, d.Tmin, d.Tmax, fnum(e, none), d.RH, fnum(d.Verd, none), d.Wind, fnum(d.Sun, none), fnum(d.Rad, none), d.Precip, d.Date.DOY())
		}
		if err := os.WriteFile(filepath.Join(dir, code+"."+YearExt(y)), []byte(b.String()), 0o644); err != nil {
			return err
		}
	}
	return nil
}

// SetGroundwaterPolygon: sinusoidal groundwater between hi and lo (dm below surface) with the
// given phase (GroundWaterFrom: polygonfile).
func (p *Project) SetGroundwaterPolygon(hi, lo, phase int) {
	p.Cfg["GroundWaterFrom"] = "polygonfile"
	p.Cfg["GroundWaterPhase"] = fmt.Sprint(phase)
	p.GH, p.GL = hi, lo
}

// SetGroundwaterSeries: measured time series (GroundWaterFrom: gwTimeSeries); points are drawn
// between the start and the end of the simulation, level between lo and hi (dm), with gaps.
func (p *Project) SetGroundwaterSeries(r *vh.Rng, lo, hi float64, points int) {
	p.Cfg["GroundWaterFrom"] = "gwTimeSeries"
	p.GWSerie = nil
	z0, z1 := p.Start().Z()-40, p.End().Z()+40
	z := z0
	lvl := r.Uni(lo, hi)
	for k := 0; k < points && z <= z1; k++ {
		p.GWSerie = append(p.GWSerie, GWPoint{Date: FromZ(z), Level: vh.RoundTo(lvl, 2)})
		z += 1 + r.Intn(maxInt(2, 2*(z1-z0)/maxInt(points, 1)))
		lvl += r.Uni(-1, 1) * (hi - lo) * 0.35
		if lvl < lo {
			lvl = lo + (lo - lvl)
		}
		if lvl > hi {
			lvl = hi - (lvl - hi)
		}
		lvl = math.Max(lo, math.Min(hi, lvl))
		if r.Chance(0.25) { // an unchanged stretch: the next measurement repeats this level exactly
			lvl = p.GWSerie[len(p.GWSerie)-1].Level
		}
	}
	// every other series: the table rests across the simulation start (the measurement before and the one after
	// the start date carry the same level, which differs from the first record of the file)
	if r.Chance(0.5) {
		s0 := p.Start().Z()
		for k := 1; k+1 < len(p.GWSerie); k++ {
			if p.GWSerie[k].Date.Z() <= s0 && p.GWSerie[k+1].Date.Z() > s0+3 {
				l := p.GWSerie[k].Level
				if l == p.GWSerie[0].Level {
					l = vh.RoundTo(math.Max(lo, math.Min(hi, l+0.37*(hi-lo)*r.Uni(0.3, 1))), 2)
					if l == p.GWSerie[0].Level {
						l = vh.RoundTo((lo+hi)/2, 2)
					}
					p.GWSerie[k].Level = l
				}
				p.GWSerie[k+1].Level = l
				break
			}
		}
	}
}
