package main

// C20 — the groundwater level follows the supplied series.
//
// Correspondence: hermes.GetGroundWaterLevel on generated series (ascending with arbitrary gaps —
// the property's quantifier — plus unsorted / repeated / zero-dated series the model follows the
// code on) against the Lean model `getLevel`, bit for bit; the daily level of whole runs (time
// series and polygon-file min/max + phase) against the model fed with what the run itself read.
// Search: the property evaluated directly on the implementation's answers with an independent
// oracle (exact rational interpolation, nearest value outside, interval / mean / phase of the
// sinusoid against the calendar day of the run).

import (
	"fmt"
	"math"
	"math/big"
	"path/filepath"
	"sort"
	"strings"

	"github.com/zalf-rpm/Hermes2Go/hermes"
	"verifharness/proj"
	"verifharness/vh"
)

func init() { register("C20", checkC20) }

type gwRec struct {
	Day   int     `json:"day"`
	Level float64 `json:"level"`
}

func gwCaseLine(date int, s []gwRec) string {
	var b strings.Builder
	fmt.Fprintf(&b, "groundwater.level %d %d", date, len(s))
	for _, r := range s {
		fmt.Fprintf(&b, " %d %s", r.Day, vh.FHex(r.Level))
	}
	return b.String()
}

func gwImpl(s []gwRec, date int) (float64, error) {
	g := hermes.NewGlobalVarsMain()
	g.GWTimeSeriesValues = make(map[int]float64)
	g.GWTimestamps = make([]int, 0, len(s))
	for _, r := range s {
		g.GWTimeSeriesValues[r.Day] = r.Level
		g.GWTimestamps = append(g.GWTimestamps, r.Day)
	}
	return hermes.GetGroundWaterLevel(&g, date)
}

// gwOracle: what the property demands for an ascending series of day numbers >= 1.
// kind: "exact", "before", "after", "between"; for "between" lo/hi are the neighbour values and
// want the exact rational interpolation rounded to float64.
func gwOracle(s []gwRec, date int) (kind string, want, lo, hi float64, p, n int) {
	i := sort.Search(len(s), func(i int) bool { return s[i].Day >= date })
	switch {
	case i < len(s) && s[i].Day == date:
		return "exact", s[i].Level, 0, 0, date, date
	case i == 0:
		return "before", s[0].Level, 0, 0, 0, s[0].Day
	case i == len(s):
		return "after", s[len(s)-1].Level, 0, 0, s[len(s)-1].Day, 0
	}
	a, b := s[i-1], s[i]
	ra, rb := new(big.Rat).SetFloat64(a.Level), new(big.Rat).SetFloat64(b.Level)
	if ra == nil || rb == nil {
		return "between", math.NaN(), a.Level, b.Level, a.Day, b.Day
	}
	w := big.NewRat(int64(date-a.Day), int64(b.Day-a.Day))
	v := new(big.Rat).Sub(rb, ra)
	v.Mul(v, w)
	v.Add(v, ra)
	f, _ := v.Float64()
	return "between", f, math.Min(a.Level, b.Level), math.Max(a.Level, b.Level), a.Day, b.Day
}

func genLevel(r *vh.Rng) float64 {
	switch r.Intn(6) {
	case 0:
		return float64(r.Range(0, 40))
	case 1:
		return vh.RoundTo(r.Uni(0, 40), 1)
	case 2:
		return vh.RoundTo(r.Uni(0, 99), 2)
	case 3:
		return r.Uni(-5, 120)
	case 4:
		return math.Float64frombits(math.Float64bits(r.Uni(1, 30)) + uint64(r.Intn(3))) // near-equal neighbours
	}
	return r.Uni(0, 30)
}

// genAscending: n records with strictly ascending day numbers >= 1 and arbitrary gaps.
func genAscending(r *vh.Rng, n int) []gwRec {
	s := make([]gwRec, 0, n)
	d := r.Range(1, 60000)
	if r.Chance(0.1) {
		d = 1
	}
	var prev float64
	for i := 0; i < n; i++ {
		l := genLevel(r)
		if i > 0 && r.Chance(0.1) {
			l = prev // flat stretch
		}
		s = append(s, gwRec{d, l})
		prev = l
		switch r.Intn(5) {
		case 0:
			d++ // consecutive days
		case 1:
			d += 2
		case 2:
			d += r.Range(3, 40)
		case 3:
			d += r.Range(41, 800)
		default:
			d += r.Range(1, 5000)
		}
	}
	return s
}

func gwQueries(r *vh.Rng, s []gwRec) []int {
	q := []int{r.Range(1, 72684)}
	if len(s) == 0 {
		return append(q, 1, 0)
	}
	first, last := s[0].Day, s[len(s)-1].Day
	q = append(q, first-1, first-r.Range(1, 400), last+1, last+r.Range(1, 4000), first, last)
	for i, rec := range s {
		q = append(q, rec.Day)
		if i+1 < len(s) {
			nx := s[i+1].Day
			q = append(q, rec.Day+1, nx-1, (rec.Day+nx)/2, r.Range(rec.Day, nx))
		}
	}
	out := q[:0]
	for _, d := range q {
		if d >= 0 {
			out = append(out, d)
		}
	}
	return out
}

func bitsEq(a, b float64) bool { return math.Float64bits(a) == math.Float64bits(b) }

// evalGwProperty evaluates the property on one implementation answer. where = "kernel" | "run".
func evalGwProperty(c *vh.Ctx, where string, s []gwRec, date int, got float64, gotErr error) {
	c.Eval()
	kind, want, lo, hi, p, n := gwOracle(s, date)
	payload := map[string]interface{}{"series": s, "date": date, "got": got, "want": want, "kind": kind, "prev": p, "next": n}
	if gotErr != nil {
		c.Violate("search", where+":gwlevel:"+kind+":error", fmt.Sprintf("GetGroundWaterLevel reports %q for date %d although the series has %d records (%s case)", gotErr, date, len(s), kind), payload)
		return
	}
	dist := ""
	if kind == "between" {
		switch {
		case date-p == 1 && n-date == 1:
			dist = ":gap2"
		case date-p == 1:
			dist = ":day-after-record"
		case n-date == 1:
			dist = ":day-before-record"
		default:
			dist = ":inner"
		}
	}
	c.Count(where + ":" + kind + dist)
	c.Nontrivial(fmt.Sprintf("%s:%s%s:n%d", where, kind, dist, minICfg(len(s), 6)))
	switch kind {
	case "exact", "before", "after":
		if !bitsEq(got, want) {
			what := map[string]string{"exact": "the series value of that date", "before": "the first series value", "after": "the last series value"}[kind]
			c.Violate("search", where+":gwlevel:"+kind, fmt.Sprintf("level of day %d is %v, %s is %v", date, got, what, want), payload)
		}
	case "between":
		tol := 1e-9 * (1 + math.Abs(lo) + math.Abs(hi))
		if !(math.Abs(got-want) <= tol) {
			c.Violate("search", where+":gwlevel:between"+dist, fmt.Sprintf("level of day %d between records of day %d and %d is %v, linear interpolation gives %v", date, p, n, got, want), payload)
		} else if got < lo || got > hi {
			// the interpolation itself is right to 1e-9; leaving the interval by rounding would still
			// contradict "hence between the two values"
			c.Violate("search", where+":gwlevel:between-bounds"+dist, fmt.Sprintf("level %v of day %d leaves the interval [%v, %v] of its neighbours", got, date, lo, hi), payload)
		}
	}
}

func minICfg(a, b int) int {
	if a < b {
		return a
	}
	return b
}

func checkC20(c *vh.Ctx) {
	c.Res.Rule = "kernel: GetGroundWaterLevel on generated ascending series (0-14 records, gaps 1 day … 13 years, flat stretches, near-equal neighbours) x queries on / next to / between / outside the records, plus unsorted, repeated and zero-dated series for the correspondence only; runs: whole simulations with a series file (records before, inside and after the simulated span, gaps) and with polygon-file min/max levels x phase, daily level through the day probe; a case is non-trivial when it is a distinct (stage, branch, distance-to-record class, series-size class)"

	// ------------------------------------------------------------ stage A: kernel
	var cases, impl []string
	var descr []interface{}
	nSeries := c.N(1500, 20000)
	for k := 0; k < nSeries; k++ {
		n := c.Rng.Range(0, 14)
		if c.Rng.Chance(0.1) {
			n = c.Rng.Range(0, 2)
		}
		s := genAscending(c.Rng, n)
		for _, d := range gwQueries(c.Rng, s) {
			got, err := gwImpl(s, d)
			cases = append(cases, gwCaseLine(d, s))
			if err != nil {
				impl = append(impl, "err")
			} else {
				impl = append(impl, vh.FHex(got))
			}
			descr = append(descr, map[string]interface{}{"series": s, "date": d})
			if len(s) == 0 {
				c.Eval()
				c.Count("kernel:empty")
				if err == nil {
					c.Violate("search", "kernel:gwlevel:empty-no-error", fmt.Sprintf("empty series gives level %v instead of an error", got), map[string]interface{}{"date": d})
				}
				continue
			}
			if d >= 1 {
				evalGwProperty(c, "kernel", s, d, got, err)
			}
		}
		if k < 2 {
			c.Sample(map[string]interface{}{"stage": "kernel", "series": s})
		}
	}
	// outside the quantifier (model follows the code): unsorted, repeated dates, date 0 as record
	for k := 0; k < c.N(150, 2000); k++ {
		s := genAscending(c.Rng, c.Rng.Range(1, 8))
		switch c.Rng.Intn(3) {
		case 0: // shuffle
			for i := len(s) - 1; i > 0; i-- {
				j := c.Rng.Intn(i + 1)
				s[i], s[j] = s[j], s[i]
			}
			c.Count("kernel:unsorted(corr-only)")
		case 1: // repeated date with another level
			i := c.Rng.Intn(len(s))
			s = append(s, gwRec{s[i].Day, genLevel(c.Rng)})
			c.Count("kernel:repeated(corr-only)")
		case 2:
			s = append([]gwRec{{0, genLevel(c.Rng)}}, s...)
			c.Count("kernel:day0(corr-only)")
		}
		for _, d := range gwQueries(c.Rng, s) {
			got, err := gwImpl(s, d)
			cases = append(cases, gwCaseLine(d, s))
			if err != nil {
				impl = append(impl, "err")
			} else {
				impl = append(impl, vh.FHex(got))
			}
			descr = append(descr, map[string]interface{}{"series": s, "date": d, "outside_quantifier": true})
		}
	}
	c.Correspond("groundwater.level", cases, impl, 0, 0, func(i int) interface{} { return descr[i] })

	// ------------------------------------------------------------ stage B: whole runs with a series file
	root := filepath.Join(c.Scratch, "runs")
	cases, impl, descr = nil, nil, nil
	nRuns := c.N(16, 150)
	for k := 0; k < nRuns; k++ {
		r := c.Rng.Fork()
		p := proj.Gen(r, fmt.Sprintf("gws%d", k), proj.Opt{Years: r.Range(1, 2), NoCrop: r.Chance(0.5), MinLayers: 8})
		p.Cfg["GroundWaterFrom"] = "gwTimeSeries"
		if r.Chance(0.5) { // the source of the groundwater given on the line (enumeration keys are numbers there)
			p.Cfg["GroundWaterFrom"] = "soilfile"
			p.Args = append(p.Args, "GroundWaterFrom=2")
		}
		start, end := p.Start().Z(), p.End().Z()
		// records: from before the start (or inside: level before the first record) to after the end
		// (or inside: level after the last record), arbitrary gaps
		d := start - r.Range(1, 200)
		if r.Chance(0.4) {
			d = start + r.Range(1, 120)
		}
		stop := end + r.Range(1, 200)
		if r.Chance(0.4) {
			stop = end - r.Range(1, 120)
		}
		endsBeforeStart := k%6 == 4
		if endsBeforeStart {
			// the whole series lies before the first simulated day and ends one to three days before it: every simulated day has
			// the last given value
			d, stop = start-r.Range(30, 400), start-r.Range(1, 3)
		}
		var s []gwRec
		for d <= stop || len(s) == 0 {
			lvl := vh.RoundTo(r.Uni(3, 30), r.Intn(3))
			s = append(s, gwRec{d, lvl})
			p.GWSerie = append(p.GWSerie, proj.GWPoint{Date: proj.FromZ(d), Level: lvl})
			switch r.Intn(4) {
			case 0:
				d++
			case 1:
				d += 2
			case 2:
				d += r.Range(3, 30)
			default:
				d += r.Range(31, 400)
			}
		}
		if endsBeforeStart {
			if last := s[len(s)-1]; last.Day != stop {
				lvl := vh.RoundTo(last.Level+r.Uni(2, 6), 1)
				s = append(s, gwRec{stop, lvl})
				p.GWSerie = append(p.GWSerie, proj.GWPoint{Date: proj.FromZ(stop), Level: lvl})
			}
			c.Count("run:series:ends-just-before-the-start")
		}
		if err := p.Write(root, c.Repo); err != nil {
			c.Violate("search", "harness:write", err.Error(), nil)
			continue
		}
		type dayObs struct {
			zeit int
			grw  float64
		}
		var obs []dayObs
		var read []gwRec
		res := proj.Run(root, p, &hermes.VerifProbes{
			DayStart: func(g *hermes.GlobalVarsMain, w *hermes.WaterSharedVars, n *hermes.NitroSharedVars, cr *hermes.CropSharedVars, zeit int, wdt float64) {
				if read == nil {
					for _, t := range g.GWTimestamps {
						read = append(read, gwRec{t, g.GWTimeSeriesValues[t]})
					}
				}
				obs = append(obs, dayObs{zeit, g.GRW})
			},
		})
		if res.Panic != "" || res.Err != nil || len(obs) == 0 {
			c.Count("run:series:failed")
			c.Note("series run %s did not complete: err=%v panic=%q days=%d", p.Name, res.Err, res.Panic, len(obs))
			continue
		}
		c.Count("run:series:ok")
		// the series the run has read is the one that was supplied
		same := len(read) == len(s)
		for i := 0; same && i < len(s); i++ {
			same = read[i].Day == s[i].Day && bitsEq(read[i].Level, s[i].Level)
		}
		c.Eval()
		if !same {
			c.Violate("search", "run:series:read", fmt.Sprintf("the series in memory (%d records) differs from the supplied file (%d records)", len(read), len(s)),
				map[string]interface{}{"project": p, "supplied": s, "read": read})
			continue
		}
		for _, o := range obs {
			evalGwProperty(c, "run", s, o.zeit, o.grw, nil)
			cases = append(cases, gwCaseLine(o.zeit, read))
			impl = append(impl, vh.FHex(o.grw))
			descr = append(descr, map[string]interface{}{"project": p.Name, "zeit": o.zeit, "series": s})
		}
		if k < 2 {
			c.Sample(map[string]interface{}{"stage": "run-series", "project": p.Name, "records": len(s), "days": len(obs), "first_record": s[0], "start": start, "end": end})
		}
	}
	c.Correspond("groundwater.level(run)", cases, impl, 0, 0, func(i int) interface{} { return descr[i] })

	// ------------------------------------------------------------ stage C: polygon-file min/max + phase
	var argCases, argImpl, sinCases, sinImpl []string
	var argDescr, sinDescr []interface{}
	nRuns = c.N(16, 150)
	for k := 0; k < nRuns; k++ {
		r := c.Rng.Fork()
		p := proj.Gen(r, fmt.Sprintf("gwp%d", k), proj.Opt{Years: r.Range(1, 2), NoCrop: r.Chance(0.5), MinLayers: 8})
		p.Cfg["GroundWaterFrom"] = "polygonfile"
		gh, gl := r.Range(1, 30), r.Range(1, 40)
		switch r.Intn(5) {
		case 0:
			gl = gh // no oscillation
		case 1:
			gh, gl = gl+r.Range(1, 10), gh // swapped: the first level is the deeper one
		case 2:
			gl = gh + 1
		}
		p.GH, p.GL = gh, gl
		phase := r.Range(-400, 400)
		switch r.Intn(4) {
		case 0:
			phase = 80
		case 1:
			phase = 0
		}
		if r.Chance(0.5) {
			p.Cfg["GroundWaterPhase"] = fmt.Sprint(phase)
		} else {
			p.Cfg["GroundWaterPhase"] = fmt.Sprint(r.Range(0, 360))
			p.Args = append(p.Args, fmt.Sprintf("GroundWaterPhase=%d", phase))
		}
		if err := p.Write(root, c.Repo); err != nil {
			c.Violate("search", "harness:write", err.Error(), nil)
			continue
		}
		type dayObs struct {
			zeit, grhi, grlo, phase int
			gw, ampl, grw, tag      float64
		}
		var obs []dayObs
		res := proj.Run(root, p, &hermes.VerifProbes{
			DayStart: func(g *hermes.GlobalVarsMain, w *hermes.WaterSharedVars, n *hermes.NitroSharedVars, cr *hermes.CropSharedVars, zeit int, wdt float64) {
				obs = append(obs, dayObs{zeit, g.GRHI, g.GRLO, g.GWPhase, g.GW, g.AMPL, g.GRW, g.TAG.Num})
			},
		})
		if res.Panic != "" || res.Err != nil || len(obs) == 0 {
			c.Count("run:minmax:failed")
			c.Note("min/max run %s did not complete: err=%v panic=%q days=%d", p.Name, res.Err, res.Panic, len(obs))
			continue
		}
		c.Count("run:minmax:ok")
		lo, hi := math.Min(float64(gh), float64(gl)), math.Max(float64(gh), float64(gl))
		mean := (float64(gh) + float64(gl)) / 2
		base := map[string]interface{}{"project": p, "GH": gh, "GL": gl, "phase": phase}
		pay := func(o dayObs) map[string]interface{} {
			m := map[string]interface{}{"zeit": o.zeit, "doy": proj.FromZ(o.zeit).DOY(), "GRW": o.grw, "GW": o.gw, "AMPL": o.ampl, "TAG": o.tag}
			for k, v := range base {
				m[k] = v
			}
			return m
		}
		sum, cnt := 0.0, 0
		for _, o := range obs {
			c.Eval()
			doy := proj.FromZ(o.zeit).DOY()
			if o.grhi != gh || o.grlo != gl || o.phase != phase {
				c.Violate("search", "run:minmax:inputs", fmt.Sprintf("the run uses GH=%d GL=%d phase=%d, supplied were %d %d %d", o.grhi, o.grlo, o.phase, gh, gl, phase), pay(o))
				break
			}
			if o.grw < lo || o.grw > hi {
				c.Violate("search", "run:minmax:interval", fmt.Sprintf("level %v of day %d (day of year %d) leaves [%v, %v]", o.grw, o.zeit, doy, lo, hi), pay(o))
			}
			if o.gw != mean {
				c.Violate("search", "run:minmax:mean", fmt.Sprintf("the oscillation is centred at %v, the mean of the two levels is %v", o.gw, mean), pay(o))
			}
			// the configured phase: level(day) = mean − (GL−GH)/2 · sin((day of year + phase)·π/180)
			want := mean - (float64(gl)-float64(gh))/2*math.Sin((float64(doy)+float64(phase))*math.Pi/180)
			if math.Abs(o.grw-want) > 1e-9*(1+hi) {
				c.Violate("search", "run:minmax:phase", fmt.Sprintf("level of day %d (day of year %d, phase %d) is %v, the sinusoid around the mean gives %v", o.zeit, doy, phase, o.grw, want), pay(o))
			}
			m := ((doy+phase)%360 + 360) % 360
			switch m {
			case 0, 180:
				c.Count("run:minmax:at-mean")
				c.Nontrivial(fmt.Sprintf("run:minmax:at-mean:%d", m))
				if math.Abs(o.grw-mean) > 1e-9*(1+hi) {
					c.Violate("search", "run:minmax:phase:mean-crossing", fmt.Sprintf("day of year %d + phase %d is a multiple of 180 but the level %v is not the mean %v", doy, phase, o.grw, mean), pay(o))
				}
			case 90:
				c.Count("run:minmax:at-GH")
				c.Nontrivial("run:minmax:at-GH")
				if math.Abs(o.grw-float64(gh)) > 1e-9*(1+hi) {
					c.Violate("search", "run:minmax:phase:GH", fmt.Sprintf("day of year %d + phase %d ≡ 90 (mod 360) but the level %v is not GH=%d", doy, phase, o.grw, gh), pay(o))
				}
			case 270:
				c.Count("run:minmax:at-GL")
				c.Nontrivial("run:minmax:at-GL")
				if math.Abs(o.grw-float64(gl)) > 1e-9*(1+hi) {
					c.Violate("search", "run:minmax:phase:GL", fmt.Sprintf("day of year %d + phase %d ≡ 270 (mod 360) but the level %v is not GL=%d", doy, phase, o.grw, gl), pay(o))
				}
			}
			sum += o.grw
			cnt++
			// model: the argument of the sine from (phase, TAG), then the level from (GH, GL, sin)
			arg := (o.tag + float64(o.phase)) * math.Pi / 180
			argCases = append(argCases, fmt.Sprintf("groundwater.sinarg %d %s %s", o.phase, vh.FHex(o.tag), vh.FHex(math.Pi)))
			argImpl = append(argImpl, vh.FHex(arg))
			argDescr = append(argDescr, pay(o))
			sinCases = append(sinCases, fmt.Sprintf("groundwater.sinus %d %d %s", o.grhi, o.grlo, vh.FHex(math.Sin(arg))))
			sinImpl = append(sinImpl, vh.FVals(o.gw, o.ampl, o.grw))
			sinDescr = append(sinDescr, pay(o))
		}
		c.Nontrivial(fmt.Sprintf("run:minmax:%s:phase%d", map[bool]string{true: "gh<=gl", false: "gh>gl"}[gh <= gl], minICfg(3, (phase+400)/200)))
		if k < 2 {
			c.Sample(map[string]interface{}{"stage": "run-minmax", "project": p.Name, "GH": gh, "GL": gl, "phase": phase, "days": len(obs), "mean_level_observed": sum / float64(cnt)})
		}
	}
	c.Correspond("groundwater.sinarg(run)", argCases, argImpl, 0, 0, func(i int) interface{} { return argDescr[i] })
	c.Correspond("groundwater.sinus(run)", sinCases, sinImpl, 0, 0, func(i int) interface{} { return sinDescr[i] })
	c.Res.Extra["series_runs"] = c.Res.Distribution["run:series:ok"]
	c.Res.Extra["minmax_runs"] = c.Res.Distribution["run:minmax:ok"]
}
