/-
Model of the crop-rotation state machine of HERMES (core Lean only, executable).

* rotation arrays after `Input` (input.go:354-590): `SAAT`, `SAAT1`, `SAAT2`, `ERNTE`, `ERNTE2`, the crop
  code per entry; `AKF` the current entry;
* automatic sowing trigger and forced sowing at the end of the window (run.go:532-573);
* sowing event, automatic / forced harvest inside `PhytoOut` (crop.go:61-64, 182-204, 549-555), which is
  only called between sowing and the latest harvest date (run.go:608-615);
* harvest and crop switch in `Nitro` (nitro.go:286-561): crop record, `AKF.Inc()`, the skipped-crop branch;
* automatic irrigation gate and cap (run.go:411-447); automatic N dose (nitro.go:118-124 etc.).

Weather- and state-dependent trigger conditions are inputs (arbitrary Booleans / numbers).
The Go arrays are fixed-size (300 cells) and zero-initialised: total functions `Nat → Nat`, updated with `upd`.
-/
namespace Hermes.Rotation

structure Cfg where
  automan : Bool   -- AutoSowingHarvest
  autohar : Bool   -- AutoHarvest
  deriving Repr, DecidableEq

abbrev Arr := Nat → Nat

/-- `a[i] = v` -/
def upd (a : Arr) (i v : Nat) : Arr := fun j => if j = i then v else a j

structure St where
  akf : Nat
  saat : Arr
  saat1 : Arr
  saat2 : Arr
  ernte : Arr
  ernte2 : Arr
  /-- crop records written so far: (rotation index, harvest day); index 0 = "SKIPPED" record -/
  records : List (Nat × Nat) := []
  /-- sowing events: (rotation index, day) -/
  sown : List (Nat × Nat) := []

def get (a : Arr) (i : Nat) : Nat := a i

def setSaat (s : St) (z : Nat) : St := { s with saat := upd s.saat s.akf z }

/-- run.go:533-534: `AUTOMAN && AKF.Num > 1`, `SAAT[AKF] == 0 && ZEIT >= SAAT1[AKF]` -/
def sowGate (c : Cfg) (zeit : Nat) (s : St) : Bool :=
  c.automan && decide (1 ≤ s.akf) && decide (s.saat s.akf = 0) && decide (s.saat1 s.akf ≤ zeit)

/-- run.go:543-563. `trig`: temperature-sum, sliding-temperature, moisture and rain conditions;
the sowing day must be more than four days after the harvest of the predecessor. -/
def trigSow (zeit : Nat) (trig : Bool) (s : St) : St :=
  if trig && decide (s.ernte (s.akf - 1) + 4 < zeit) then setSaat s zeit else s

/-- run.go:566-568: forced sowing on the last day of the window -/
def forcedSow (zeit : Nat) (s : St) : St :=
  if decide (zeit = s.saat2 s.akf) && decide (s.saat s.akf = 0) then setSaat s zeit else s

/-- run.go:532-573 -/
def sowingBlock (c : Cfg) (zeit : Nat) (trig : Bool) (s : St) : St :=
  if sowGate c zeit s then forcedSow zeit (trigSow zeit trig s) else s

/-- run.go:608-609: `PhytoOut` is called between sowing and the latest harvest date -/
def growing (zeit : Nat) (s : St) : Bool :=
  decide (1 ≤ s.akf) && decide (0 < s.saat s.akf) && decide (s.saat s.akf ≤ zeit) && decide (zeit ≤ s.ernte2 s.akf)

/-- crop.go:61-64 -/
def sowEvent (zeit : Nat) (s : St) : St :=
  if zeit = s.saat s.akf then { s with sown := s.sown ++ [(s.akf, zeit)] } else s

/-- crop.go:192-195 / 551-554: a fixed sowing date of the successor that has passed is moved behind the harvest -/
def pushNextSowing (zeit base : Nat) (s : St) : St :=
  if decide (0 < s.saat (s.akf + 1)) && decide (s.saat (s.akf + 1) < zeit)
  then { s with saat := upd s.saat (s.akf + 1) (base + 4), saat2 := upd s.saat2 (s.akf + 1) (base + 4) } else s

def setErnte (s : St) (z : Nat) : St := { s with ernte := upd s.ernte s.akf z }
def setErnteBoth (s : St) (z : Nat) : St := { s with ernte := upd s.ernte s.akf z, ernte2 := upd s.ernte2 s.akf z }

/-- crop.go:183-197. `harTrig`: ripeness, moisture and rain conditions of the automatic harvest. -/
def autoHarvest (zeit : Nat) (harTrig : Bool) (s : St) : St :=
  if harTrig then pushNextSowing zeit zeit (setErnteBoth s zeit) else s

/-- crop.go:200-202 -/
def forcedHarvest1 (zeit : Nat) (s : St) : St :=
  if decide (zeit + 1 = s.ernte2 s.akf) && decide (s.ernte s.akf = 0) then setErnte s (zeit + 1) else s

/-- crop.go:150,182-204. `emerged`: `SUM[0] >= TSUM[0]`, the block that contains the automatic harvest. -/
def harvestBlock (zeit : Nat) (emerged harTrig : Bool) (s : St) : St :=
  if emerged && decide (s.ernte s.akf = 0) then forcedHarvest1 zeit (autoHarvest zeit harTrig s) else s

/-- crop.go:549-555 -/
def forcedHarvest2 (zeit : Nat) (s : St) : St :=
  if decide (zeit + 1 = s.ernte2 s.akf) && decide (s.ernte s.akf = 0)
  then pushNextSowing zeit (zeit + 1) (setErnte s (zeit + 1)) else s

/-- `PhytoOut` as far as the rotation is concerned -/
def phyto (zeit : Nat) (emerged harTrig : Bool) (s : St) : St :=
  if growing zeit s then forcedHarvest2 zeit (harvestBlock zeit emerged harTrig (sowEvent zeit s)) else s

/-- nitro.go:286-497 as far as the rotation is concerned. `orgH`: organic fertiliser after harvest is
configured for the harvested crop (`ODU[AKF-1] == 1 && ORGTIME[AKF-1] == "H"`, evaluated after the
increment). Returns the state and whether a crop record is written. -/
def harvest (c : Cfg) (zeit : Nat) (orgH : Bool) (s : St) : St :=
  if zeit = s.ernte s.akf then
    if decide (s.saat2 (s.akf + 1) ≤ zeit) && c.automan && orgH then
      -- the next crop is skipped: its "SKIPPED" record replaces the record just filled (one line is written)
      { s with akf := s.akf + 2, records := s.records ++ [(0, zeit)] }
    else
      { s with akf := s.akf + 1, records := if 1 ≤ s.akf then s.records ++ [(s.akf, zeit)] else s.records }
  else s

/-- `Input`, behind the last line of the field: the placeholder entry after the last rotation entry gets the
sowing window `SAAT1 = SAAT2 =` one year after the last sowing; with automatic sowing `SAAT` of the last
entry is not yet set while the file is read, then the end of its window is taken (fix C16-1). -/
def placeholderWindow (saatLast saat2Last : Nat) : Nat :=
  (if saatLast = 0 then saat2Last else saatLast) + 365

/-- one simulated day: sowing block (before the sub-step loop), `PhytoOut` and `Nitro` of sub-step 1 -/
def day (c : Cfg) (zeit : Nat) (trig emerged harTrig orgH : Bool) (s : St) : St :=
  harvest c zeit orgH (phyto zeit emerged harTrig (sowingBlock c zeit trig s))

/-- inputs of one day -/
structure DayIn where
  trig : Bool
  emerged : Bool
  harTrig : Bool
  orgH : Bool
  deriving Repr, DecidableEq

def run (c : Cfg) : Nat → List DayIn → St → St
  | _, [], s => s
  | zeit, i :: r, s => run c (zeit + 1) r (day c zeit i.trig i.emerged i.harTrig i.orgH s)

/-! ### automatic irrigation and automatic N (numeric, polymorphic) -/

/-- run.go:412-414: a crop is sown, the day is after sowing, the development stage lies between the two
configured stages (`INTWICK.Num >= IRRST1 && INTWICK.Num < IRRST2+1`; stages are whole numbers). -/
def irrGate (saat zeit intwick irrst1 irrst2 : Nat) : Bool :=
  decide (0 < saat) && decide (saat < zeit) && decide (irrst1 ≤ intwick) && decide (intwick < irrst2 + 1)

section
variable {α : Type} [Add α] [Sub α] [Mul α] [Div α] [LT α] [DecidableLT α] [OfNat α 0] [OfNat α 1] [OfScientific α]

/-- Go `math.Min` / `math.Max` on ordinary numbers -/
def fmin (a b : α) : α := if b < a then b else a
def fmax (a b : α) : α := if a < b then b else a

/-- run.go:420-433: relative plant-available water and deficit of one layer (rain of the day added in
the first layer by the caller), clamped -/
def layerNfkDefz (wg w wmin : α) : α × α :=
  let nfk := (wg - wmin) / (w - wmin)
  let defz := (w - wg) * 100.0
  let nfk := if nfk < 0 then 0 else nfk
  if 1 < nfk then (1, 0) else (nfk, defz)

/-- run.go:441: the amount handed to `setIrrigation` (mm) -/
def irrAmount (defzsum irrmax : α) : α := fmin (defzsum * 0.9) irrmax

/-- nitro.go:122, 139, 161 …: the automatic N dose -/
def autoN (ndem nmin : α) : α := fmax (ndem - nmin) 0

end

end Hermes.Rotation
