/-
Lemmas about the saturated zone, the groundwater-change step and the layers of the table route
(model HermesModel/SoilParams.lean) over ℚ.
-/
import HermesProofs.SoilParams
import Mathlib.Tactic.Linarith

namespace Hermes.SoilParams

/-! ### layers of the table route (stone factor) -/

theorem tableLayer_ordered (cell : Cell ℚ) (s : ℚ) (h : CellOrdered cell) (hs0 : 0 ≤ s) (hs1 : s < 1) :
    Ordered (tableLayer cell s) := by
  obtain ⟨h1, h2, h3, h4⟩ := h
  unfold Ordered tableLayer
  norm_num
  have ht : 0 < 1 - s := by linarith
  have ht1 : 1 - s ≤ 1 := by linarith
  refine ⟨by positivity, by nlinarith, by nlinarith, by nlinarith⟩

theorem tableLayer_fc_gt_ps (cell : Cell ℚ) (s : ℚ) (h : cell.prges < cell.feldw) (hs1 : s < 1) :
    (tableLayer cell s).porges < (tableLayer cell s).w := by
  unfold tableLayer
  norm_num
  have ht : 0 < 1 - s := by linarith
  nlinarith

/-! ### saturated zone -/

theorem saturateFrom_length (frm : Nat) : ∀ (ls : List (Layer ℚ)) (l : Nat), (saturateFrom frm l ls).length = ls.length := by
  intro ls
  induction ls with
  | nil => intro l; simp [saturateFrom]
  | cons x xs ih => intro l; simp [saturateFrom, ih]

theorem setFcFrom_length (first : Nat) (fr : ℚ) : ∀ (ls : List (Layer ℚ)) (l : Nat), (setFcFrom first fr l ls).length = ls.length := by
  intro ls
  induction ls with
  | nil => intro l; simp [setFcFrom]
  | cons x xs ih => intro l; simp [setFcFrom, ih]

theorem setFieldCapacityWithGW_length (grw : ℚ) (ls : List (Layer ℚ)) : (setFieldCapacityWithGW grw ls).length = ls.length := by
  unfold setFieldCapacityWithGW
  exact setFcFrom_length _ _ _ _

theorem satInput_length (gw : ℚ) (n : Nat) (ls : List (Layer ℚ)) : (satInput gw n ls).length = ls.length := by
  unfold satInput
  split
  · exact saturateFrom_length _ _ _
  · rfl

/-- element-wise description of `setFcFrom` -/
theorem setFcFrom_getElem? (first : Nat) (fr : ℚ) : ∀ (ls : List (Layer ℚ)) (l i : Nat) (x : Layer ℚ),
    ls[i]? = some x →
    (setFcFrom first fr l ls)[i]? = some
      (if l + i = first then { x with w := (1.0 - fr) * x.porges + x.w * fr }
       else if first < l + i then { x with w := x.porges } else x) := by
  intro ls
  induction ls with
  | nil => intro l i x h; simp at h
  | cons y ys ih =>
    intro l i x h
    cases i with
    | zero =>
      simp at h
      subst h
      simp [setFcFrom]
    | succ j =>
      simp at h
      have := ih (l + 1) j x h
      simp only [setFcFrom, List.getElem?_cons_succ]
      rw [this]
      have e : l + 1 + j = l + (j + 1) := by omega
      rw [e]

theorem restoreN_eq (n : Nat) : ∀ (cur bak : List (Layer ℚ)), cur.length = n → bak.length = n → restoreN n cur bak = bak := by
  induction n with
  | zero =>
    intro cur bak h1 h2
    have : bak = [] := List.length_eq_zero_iff.mp h2
    have : cur = [] := List.length_eq_zero_iff.mp h1
    subst_vars
    simp [restoreN]
  | succ m ih =>
    intro cur bak h1 h2
    match cur, bak, h1, h2 with
    | c :: cs, b :: bs, h1, h2 =>
      simp only [restoreN]
      rw [ih cs bs (by simpa using h1) (by simpa using h2)]


theorem trunc_spec (x : ℚ) (hx : 0 ≤ x) :
    (Conv.ofNat (Conv.truncNat x) : ℚ) ≤ x ∧ x < (Conv.ofNat (Conv.truncNat x) : ℚ) + 1 := by
  show (((⌊x⌋).toNat : ℕ) : ℚ) ≤ x ∧ x < (((⌊x⌋).toNat : ℕ) : ℚ) + 1
  have h0 : 0 ≤ ⌊x⌋ := Int.floor_nonneg.mpr hx
  have hc : (((⌊x⌋).toNat : ℕ) : ℚ) = ((⌊x⌋ : ℤ) : ℚ) := by
    have : (((⌊x⌋).toNat : ℕ) : ℤ) = ⌊x⌋ := Int.toNat_of_nonneg h0
    exact_mod_cast this
  rw [hc]
  exact ⟨Int.floor_le x, Int.lt_floor_add_one x⟩

/-- what `setFieldCapacityWithGW` does to the layer with 0-based index `i` (1-based `i+1`, spanning
the depths `i … i+1` dm): below the table it gets the pore volume, the layer containing the table a
mixture, layers above are unchanged; in every case the new field capacity lies between the old one
and the pore volume. -/
theorem setFc_layer (grw : ℚ) (hg : 0 ≤ grw) (ls : List (Layer ℚ)) (i : Nat) (x : Layer ℚ) (hx : ls[i]? = some x) :
    ∃ y, (setFieldCapacityWithGW grw ls)[i]? = some y ∧ y.wmin = x.wmin ∧ y.porges = x.porges ∧ y.wnor = x.wnor ∧
      (grw ≤ (i : ℚ) → y.w = x.porges) ∧ (((i : ℚ) + 1 ≤ grw) → y.w = x.w) ∧
      (x.w ≤ x.porges → x.w ≤ y.w ∧ y.w ≤ x.porges) := by
  unfold setFieldCapacityWithGW
  have hs := trunc_spec (grw + 1.0) (by norm_num; linarith)
  set first := Conv.truncNat (grw + 1.0 : ℚ) with hfirst
  have hcast : (Conv.ofNat first : ℚ) = (first : ℚ) := rfl
  rw [hcast] at hs
  obtain ⟨hs1, hs2⟩ := hs
  norm_num at hs1 hs2
  refine ⟨_, setFcFrom_getElem? first _ ls 1 i x hx, ?_⟩
  rw [hcast]
  by_cases h1 : 1 + i = first
  · have hfi : (first : ℚ) = 1 + (i : ℚ) := by rw [← h1]; push_cast; ring
    simp only [h1, if_true]
    refine ⟨trivial, trivial, trivial, ?_, ?_, ?_⟩
    · intro hge
      have : grw = (i : ℚ) := by linarith
      norm_num
      rw [hfi, this]; ring
    · intro hle
      exfalso; linarith
    · intro hw
      norm_num
      rw [hfi]
      constructor <;> nlinarith
  · simp only [h1, if_false]
    by_cases h2 : first < 1 + i
    · simp only [h2, if_true]
      refine ⟨trivial, trivial, trivial, fun _ => trivial, ?_, fun hw => ⟨hw, le_refl _⟩⟩
      intro hle
      exfalso
      have : (first : ℚ) + 1 ≤ 1 + (i : ℚ) := by exact_mod_cast h2
      linarith
    · simp only [h2, if_false]
      refine ⟨trivial, trivial, trivial, ?_, fun _ => trivial, fun hw => ⟨le_refl _, hw⟩⟩
      intro hge
      exfalso
      have : 1 + i < first := by omega
      have : (1 : ℚ) + (i : ℚ) + 1 ≤ (first : ℚ) := by exact_mod_cast this
      linarith


/-! ### ordering is preserved by the saturated-zone rules -/

theorem getElem?_of_mem_same_length {β : Type} (l1 l2 : List β) (hl : l1.length = l2.length) (y : β) (hy : y ∈ l1) :
    ∃ (i : Nat) (x : β), l1[i]? = some y ∧ l2[i]? = some x := by
  obtain ⟨i, hi⟩ := List.mem_iff_getElem?.mp hy
  have hlt : i < l1.length := by
    by_contra hge
    have : l1[i]? = none := List.getElem?_eq_none (by omega)
    rw [this] at hi; simp at hi
  have hlt2 : i < l2.length := by omega
  exact ⟨i, l2[i], hi, List.getElem?_eq_getElem hlt2⟩

theorem setFc_mem_ordered (grw : ℚ) (hg : 0 ≤ grw) (ls : List (Layer ℚ)) (h : ∀ x ∈ ls, Ordered x) :
    ∀ y ∈ setFieldCapacityWithGW grw ls, Ordered y := by
  intro y hy
  obtain ⟨i, x, hi, hx⟩ := getElem?_of_mem_same_length _ ls (setFieldCapacityWithGW_length grw ls) y hy
  obtain ⟨y', hy', e1, e2, _, _, _, hb⟩ := setFc_layer grw hg ls i x hx
  rw [hi] at hy'
  have : y = y' := by simpa using hy'
  subst this
  obtain ⟨o1, o2, o3, o4⟩ := h x (List.mem_of_getElem? hx)
  obtain ⟨b1, b2⟩ := hb o3
  exact ⟨by rw [e1]; exact o1, by rw [e1]; linarith, by rw [e2]; exact b2, by rw [e2]; exact o4⟩

theorem saturateFrom_getElem? (frm : Nat) : ∀ (ls : List (Layer ℚ)) (l i : Nat) (x : Layer ℚ),
    ls[i]? = some x →
    (saturateFrom frm l ls)[i]? = some (if frm ≤ l + i then { x with w := x.porges } else x) := by
  intro ls
  induction ls with
  | nil => intro l i x h; simp at h
  | cons y ys ih =>
    intro l i x h
    cases i with
    | zero =>
      simp at h
      subst h
      simp [saturateFrom]
    | succ j =>
      simp at h
      have := ih (l + 1) j x h
      simp only [saturateFrom, List.getElem?_cons_succ]
      rw [this]
      have e : l + 1 + j = l + (j + 1) := by omega
      rw [e]

theorem satInput_mem_ordered (gw : ℚ) (n : Nat) (ls : List (Layer ℚ)) (h : ∀ x ∈ ls, Ordered x) :
    ∀ y ∈ satInput gw n ls, Ordered y := by
  intro y hy
  unfold satInput at hy
  split at hy
  · generalize Conv.roundNat (if gw < (1.0 : ℚ) then (1.0 : ℚ) else gw) = frm at hy
    obtain ⟨i, x, hi, hx⟩ := getElem?_of_mem_same_length _ ls (saturateFrom_length _ _ _) y hy
    rw [saturateFrom_getElem? frm ls 1 i x hx] at hi
    obtain ⟨o1, o2, o3, o4⟩ := h x (List.mem_of_getElem? hx)
    by_cases hc : frm ≤ 1 + i
    · rw [if_pos hc] at hi
      have : y = { x with w := x.porges } := by simpa using hi.symm
      subst this
      exact ⟨o1, by show x.wmin < x.porges; linarith, le_refl _, o4⟩
    · rw [if_neg hc] at hi
      have : y = x := by simpa using hi.symm
      subst this
      exact ⟨o1, o2, o3, o4⟩
  · exact h y hy

theorem mem_expand (f : Horizon ℚ → Layer ℚ) : ∀ (hs : List (Horizon ℚ)) (p : Nat) (l : Layer ℚ),
    l ∈ expand f p hs → ∃ h ∈ hs, l = f h := by
  intro hs
  induction hs with
  | nil => intro p l hl; simp [expand] at hl
  | cons h t ih =>
    intro p l hl
    simp only [expand, List.mem_append] at hl
    rcases hl with hl | hl
    · exact ⟨h, List.mem_cons_self, (List.mem_replicate.mp hl).2⟩
    · obtain ⟨h', hm, e⟩ := ih _ _ hl
      exact ⟨h', List.mem_cons_of_mem _ hm, e⟩

theorem expand_length (f g : Horizon ℚ → Layer ℚ) : ∀ (hs : List (Horizon ℚ)) (p : Nat),
    (expand f p hs).length = (expand g p hs).length := by
  intro hs
  induction hs with
  | nil => intro p; simp [expand]
  | cons h t ih => intro p; simp [expand, ih]

/-! ### the groundwater-change step: parameters are a function of (backups, level) -/

/-- what the groundwater step reads of a state besides the level -/
def SameStatic (n : Nat) (s t : St ℚ) : Prop :=
  s.bak = t.bak ∧ s.cappar = t.cappar ∧ s.cur.length = n ∧ t.cur.length = n ∧ s.bak.length = n

theorem gwStep_indep (k : Nat) (hs : List (Horizon ℚ)) (n : Nat) (s t : St ℚ) (g : ℚ) (h : SameStatic n s t)
    (hne : hs ≠ []) (hn : 0 < n) :
    (gwStep k hs n s g).cur = (gwStep k hs n t g).cur ∧ (gwStep k hs n s g).wred = (gwStep k hs n t g).wred ∧
    (gwStep k hs n s g).bak = s.bak ∧ (gwStep k hs n s g).cappar = s.cappar := by
  obtain ⟨hb, hc, l1, l2, l3⟩ := h
  unfold gwStep
  rw [← hc]
  split
  · refine ⟨rfl, ?_, rfl, rfl⟩
    cases hs with
    | nil => exact absurd rfl hne
    | cons h0 t0 => rfl
  · rw [restoreN_eq n s.cur s.bak l1 l3, restoreN_eq n t.cur t.bak l2 (by rw [← hb]; exact l3), ← hb]
    refine ⟨rfl, ?_, rfl, rfl⟩
    cases hbak : s.bak with
    | nil => rw [hbak] at l3; simp at l3; omega
    | cons b0 bs => rfl

theorem gwStep_sameStatic (k : Nat) (hs : List (Horizon ℚ)) (n : Nat) (s s0 : St ℚ) (g : ℚ)
    (hlen : ∀ f : Horizon ℚ → Layer ℚ, (expand f 0 hs).length = n) (h : SameStatic n s s0) :
    SameStatic n (gwStep k hs n s g) s0 := by
  obtain ⟨hb, hc, l1, l2, l3⟩ := h
  have hcur : (gwStep k hs n s g).cur.length = n := by
    unfold gwStep
    split
    · simp only [setFieldCapacityWithGW_length]; exact hlen _
    · simp only [setFieldCapacityWithGW_length]
      rw [restoreN_eq n s.cur s.bak l1 l3]; exact l3
  have hbak : (gwStep k hs n s g).bak = s.bak := by unfold gwStep; split <;> rfl
  have hcap : (gwStep k hs n s g).cappar = s.cappar := by unfold gwStep; split <;> rfl
  exact ⟨by rw [hbak]; exact hb, by rw [hcap]; exact hc, hcur, l2, by rw [hbak]; exact l3⟩

/-- After any sequence of groundwater changes, the parameters are what a single change to the last
level gives from the initial state: a function of (backups, static soil data, level) only. -/
theorem gw_history (k : Nat) (hs : List (Horizon ℚ)) (n : Nat) (hne : hs ≠ []) (hn : 0 < n)
    (hlen : ∀ f : Horizon ℚ → Layer ℚ, (expand f 0 hs).length = n) (s0 : St ℚ) :
    ∀ (gs : List ℚ) (s : St ℚ), SameStatic n s s0 → ∀ g : ℚ,
      ((gs ++ [g]).foldl (gwStep k hs n) s).cur = (gwStep k hs n s0 g).cur ∧
      ((gs ++ [g]).foldl (gwStep k hs n) s).wred = (gwStep k hs n s0 g).wred := by
  intro gs
  induction gs with
  | nil =>
    intro s h g
    obtain ⟨a, b, _, _⟩ := gwStep_indep k hs n s s0 g h hne hn
    exact ⟨a, b⟩
  | cons g1 t ih =>
    intro s h g
    simp only [List.cons_append, List.foldl_cons]
    exact ih _ (gwStep_sameStatic k hs n s s0 g1 hlen h) g

/-! ### the state the day loop works with -/

theorem inputState_static (k : Nat) (hs : List (Horizon ℚ)) (gw grwInit : ℚ) (n : Nat)
    (hlen : ∀ f : Horizon ℚ → Layer ℚ, (expand f 0 hs).length = n) :
    SameStatic n (initState (inputState k hs gw gw n) grwInit) (initState (inputState k hs gw gw n) grwInit) := by
  have h1 : (initState (inputState k hs gw gw n) grwInit).cur.length = n := by
    simp only [initState, inputState, setFieldCapacityWithGW_length, satInput_length]; exact hlen _
  have h2 : (initState (inputState k hs gw gw n) grwInit).bak.length = n := by
    simp only [initState, inputState]; exact hlen _
  exact ⟨rfl, rfl, h1, h1, h2⟩

theorem dayState_ordered (k : Nat) (hs : List (Horizon ℚ)) (n : Nat) (gw grwInit grw : ℚ) (changed : Bool)
    (hlen : ∀ f : Horizon ℚ → Layer ℚ, (expand f 0 hs).length = n)
    (hg0 : 0 ≤ grwInit) (hg : 0 ≤ grw)
    (hIn : ∀ h ∈ hs, Ordered (horizonLayer k h gw).1)
    (hTab : k = 0 → ∀ h ∈ hs, Ordered (tableLayer (hydro h.codes h.ld h.corg grw) h.stein)) :
    ∀ y ∈ (dayState k hs n gw grwInit changed grw).cur, Ordered y := by
  have hls : ∀ x ∈ expand (fun h => (horizonLayer k h gw).1) 0 hs, Ordered x := by
    intro x hx
    obtain ⟨h, hm, e⟩ := mem_expand _ _ _ _ hx
    rw [e]; exact hIn h hm
  have h0 : ∀ y ∈ (initState (inputState k hs gw gw n) grwInit).cur, Ordered y := by
    simp only [initState, inputState]
    exact setFc_mem_ordered grwInit hg0 _ (satInput_mem_ordered gw n _ hls)
  obtain ⟨_, _, l1, _, l3⟩ := inputState_static k hs gw grwInit n hlen
  unfold dayState
  cases changed with
  | false => simpa using h0
  | true =>
    simp only [if_true]
    unfold gwStep
    split
    · rename_i hc
      simp only
      apply setFc_mem_ordered grw hg
      intro x hx
      obtain ⟨h, hm, e⟩ := mem_expand _ _ _ _ hx
      rw [e]; exact hTab hc.1 h hm
    · simp only
      rw [restoreN_eq n _ _ l1 l3]
      apply setFc_mem_ordered grw hg
      simpa [initState, inputState] using hls

/-- every layer lying entirely below the groundwater table (0-based index `i ≥ level`) has field
capacity = pore volume, both before the first change (at the initial level) and after a change -/
theorem dayState_below_table (k : Nat) (hs : List (Horizon ℚ)) (n : Nat) (gw grwInit grw : ℚ) (changed : Bool)
    (hg0 : 0 ≤ grwInit) (hg : 0 ≤ grw) (i : Nat) (y : Layer ℚ)
    (hy : (dayState k hs n gw grwInit changed grw).cur[i]? = some y)
    (hbelow : (if changed then grw else grwInit) ≤ (i : ℚ)) : y.w = y.porges := by
  have key : ∀ (g : ℚ) (ls : List (Layer ℚ)), 0 ≤ g → (setFieldCapacityWithGW g ls)[i]? = some y → g ≤ (i : ℚ) →
      y.w = y.porges := by
    intro g ls hg' hy' hb
    have hlt : i < ls.length := by
      by_contra hge
      have : (setFieldCapacityWithGW g ls)[i]? = none :=
        List.getElem?_eq_none (by rw [setFieldCapacityWithGW_length]; omega)
      rw [this] at hy'; simp at hy'
    obtain ⟨y', e, _, e2, _, hw, _, _⟩ := setFc_layer g hg' ls i ls[i] (List.getElem?_eq_getElem hlt)
    rw [hy'] at e
    have : y = y' := by simpa using e
    subst this
    rw [hw hb, e2]
  unfold dayState at hy
  cases changed with
  | false =>
    simp only [Bool.false_eq_true, if_false] at hy hbelow
    exact key grwInit _ hg0 (by simpa [initState] using hy) hbelow
  | true =>
    simp only [if_true] at hy hbelow
    unfold gwStep at hy
    split at hy
    · exact key grw _ hg (by simpa using hy) hbelow
    · exact key grw _ hg (by simpa using hy) hbelow

/-! ### the threshold WRED in the state the day loop works with -/

theorem hydroWRed_scale (codes : List Nat) (cell : Cell ℚ) (s : ℚ) :
    hydroWRed codes cell s = (1 - s) * hydroWRed codes cell 0 := by
  unfold hydroWRed calcWRed
  cases isSand codes <;> norm_num <;> ring

theorem table_wred_between_cell (codes : List Nat) (cell : Cell ℚ) (s : ℚ)
    (h4 : cell.lim < hydroWRed codes cell 0) (h5 : hydroWRed codes cell 0 < cell.feldw) (hs1 : s < 1) :
    (tableLayer cell s).wmin < hydroWRed codes cell s ∧ hydroWRed codes cell s < (tableLayer cell s).w := by
  rw [hydroWRed_scale]
  unfold tableLayer
  norm_num
  have ht : 0 < 1 - s := by linarith
  constructor <;> nlinarith

theorem expand_head (f : Horizon ℚ → Layer ℚ) (h : Horizon ℚ) (t : List (Horizon ℚ)) (hl : 0 < h.lower) :
    ∃ rest, expand f 0 (h :: t) = f h :: rest := by
  obtain ⟨m, hm⟩ : ∃ m, h.lower = m + 1 := ⟨h.lower - 1, by omega⟩
  refine ⟨List.replicate m (f h) ++ expand f h.lower t, ?_⟩
  simp only [expand, Nat.sub_zero]
  rw [hm, List.replicate_succ]
  simp

theorem setFc_head (g : ℚ) (hg : 0 ≤ g) (x : Layer ℚ) (rest : List (Layer ℚ)) (hx : x.w ≤ x.porges) :
    ∃ y, (setFieldCapacityWithGW g (x :: rest))[0]? = some y ∧ y.wmin = x.wmin ∧ x.w ≤ y.w := by
  obtain ⟨y, hy, e1, _, _, _, _, hb⟩ := setFc_layer g hg (x :: rest) 0 x (by simp)
  exact ⟨y, hy, e1, (hb hx).1⟩

theorem satInput_head (gw : ℚ) (n : Nat) (x : Layer ℚ) (rest : List (Layer ℚ)) (hx : x.w ≤ x.porges) :
    ∃ x' rest', satInput gw n (x :: rest) = x' :: rest' ∧ x'.wmin = x.wmin ∧ x.w ≤ x'.w ∧ x'.w ≤ x'.porges := by
  unfold satInput
  split
  · generalize Conv.roundNat (if gw < (1.0 : ℚ) then (1.0 : ℚ) else gw) = frm
    simp only [saturateFrom]
    by_cases hc : frm ≤ 1
    · rw [if_pos hc]; exact ⟨_, _, rfl, rfl, hx, le_refl _⟩
    · rw [if_neg hc]; exact ⟨_, _, rfl, rfl, le_refl _, hx⟩
  · exact ⟨x, rest, rfl, rfl, le_refl _, hx⟩

/-- WRED lies strictly between the wilting point and the field capacity of the top layer in the state
the day loop works with — before the first groundwater change and after a change, on every route. -/
theorem dayState_wred_between (k : Nat) (h : Horizon ℚ) (t : List (Horizon ℚ)) (n : Nat) (gw grwInit grw : ℚ)
    (changed : Bool)
    (hlen : ∀ f : Horizon ℚ → Layer ℚ, (expand f 0 (h :: t)).length = n) (hl : 0 < h.lower)
    (hg0 : 0 ≤ grwInit) (hg : 0 ≤ grw)
    (hL : (horizonLayer k h gw).1.wmin < (horizonLayer k h gw).1.w ∧
          (horizonLayer k h gw).1.w ≤ (horizonLayer k h gw).1.porges)
    (hIn : (horizonLayer k h gw).1.wmin < wredInput k h gw ∧ wredInput k h gw < (horizonLayer k h gw).1.w)
    (hTab : k = 0 →
      (tableLayer (hydro h.codes h.ld h.corg grw) h.stein).wmin < hydroWRed h.codes (hydro h.codes h.ld h.corg grw) h.stein ∧
      hydroWRed h.codes (hydro h.codes h.ld h.corg grw) h.stein < (tableLayer (hydro h.codes h.ld h.corg grw) h.stein).w ∧
      (tableLayer (hydro h.codes h.ld h.corg grw) h.stein).w ≤ (tableLayer (hydro h.codes h.ld h.corg grw) h.stein).porges) :
    ∃ y, (dayState k (h :: t) n gw grwInit changed grw).cur[0]? = some y ∧
      y.wmin < (dayState k (h :: t) n gw grwInit changed grw).wred ∧
      (dayState k (h :: t) n gw grwInit changed grw).wred < y.w := by
  obtain ⟨rest, hrest⟩ := expand_head (fun h => (horizonLayer k h gw).1) h t hl
  obtain ⟨_, _, l1, _, l3⟩ := inputState_static k (h :: t) gw grwInit n hlen
  -- the state before the first change
  have h0 : ∃ y, (initState (inputState k (h :: t) gw gw n) grwInit).cur[0]? = some y ∧
      y.wmin < (initState (inputState k (h :: t) gw gw n) grwInit).wred ∧
      (initState (inputState k (h :: t) gw gw n) grwInit).wred < y.w := by
    simp only [initState, inputState, hrest]
    obtain ⟨x', rest', e, e1, e2, e3⟩ := satInput_head gw n _ rest hL.2
    rw [e]
    obtain ⟨y, hy, f1, f2⟩ := setFc_head grwInit hg0 x' rest' e3
    exact ⟨y, hy, by rw [f1, e1]; exact hIn.1, by linarith [hIn.2]⟩
  unfold dayState
  cases changed with
  | false => simpa using h0
  | true =>
    simp only [if_true]
    unfold gwStep
    split
    · rename_i hc
      obtain ⟨a1, a2, a3⟩ := hTab hc.1
      obtain ⟨rest2, hrest2⟩ := expand_head (fun h => tableLayer (hydro h.codes h.ld h.corg grw) h.stein) h t hl
      simp only [hrest2]
      obtain ⟨y, hy, f1, f2⟩ := setFc_head grw hg _ rest2 a3
      exact ⟨y, hy, by rw [f1]; exact a1, by linarith⟩
    · simp only
      rw [restoreN_eq n _ _ l1 l3]
      have hb : (initState (inputState k (h :: t) gw gw n) grwInit).bak = (horizonLayer k h gw).1 :: rest := by
        simp only [initState, inputState, hrest]
      rw [hb]
      simp only
      obtain ⟨y, hy, f1, f2⟩ := setFc_head grw hg _ rest hL.2
      have hw := calcWRed_of_percent (isSand h.codes) _ _ hL.1
      exact ⟨y, hy, by rw [f1]; exact hw.1, by linarith [hw.2]⟩


/-! ### witnesses used by the `…_fails_at` theorems -/

/-- a horizon with explicit values FC 30 ≤ PS 35 and a clay-rich triple (clay 50, silt 45, sand 5) -/
def witnessF16 : Horizon ℚ :=
  { codes := [76, 85, 32], ld := 3, lower := 3, corg := 0, stein := 0, fka := 30, wp := 12, gpv := 35,
    sand := 5, silt := 45, clay := 50 }

/-- a one-horizon soil of six layers with explicit values WP 12 < FC 30 ≤ PS 42 -/
def witnessF8 : Horizon ℚ :=
  { codes := [76, 85, 32], ld := 3, lower := 6, corg := 1, stein := 0, fka := 30, wp := 12, gpv := 42,
    sand := 20, silt := 60, clay := 20 }

end Hermes.SoilParams
