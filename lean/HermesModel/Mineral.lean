/-
Models of the pool bookkeeping of `mineral` (hermes/nitro.go:569-688), of the tillage mixing in
`Nitro` (nitro.go:245-281) and of the removal step of `Denitr` / `Denitmo` (hermes/denit.go).
Transcribed from the Go code as it is.  The rate constants `kt0`, `kt1` (Arrhenius terms) and the
moisture / temperature factors of the denitrification rate are inputs (they contain `exp`/`pow`).
-/
import HermesModel.Num
import HermesModel.Nitro
namespace Hermes.Mineral
open Hermes.Nitro (clamp0)

section
variable {α : Type} [Add α] [Sub α] [Mul α] [Div α] [Neg α] [LT α] [DecidableLT α]
  [OfNat α 0] [OfNat α 1] [OfNat α 2] [OfNat α 100] [OfNat α 1000] [OfNat α 1274] [OfNat α 4242] [OfNat α 74]
  [OfScientific α]

/-- nitro.go:604-618: moisture reduction of the mineralisation, soil warmer than 0 °C -/
def miredWarm (wg wnor wred wmin porges : α) : α :=
  let m := if ¬ (wnor < wg) ∧ ¬ (wg < wred) then 1
           else if wg < wred ∧ wmin < wg then (wg - wmin) / (wred - wmin)
           else if wnor < wg then (porges - wg) / (porges - wnor)
           else 0
  let m := if m < 0 then 0 else m
  if 1 < m then 1 else m

/-- nitro.go:657-670: the same for frozen soil (top layer only; no upper clamp in the code) -/
def miredCold (wg w wred wmin porges : α) : α :=
  let m := if wg < w ∧ wred < wg then 1
           else if wg < wred then (wg - wmin) / (wred - wmin)
           else if w + 0.01 < wg ∧ wg < porges then (porges - wg) / (porges - w)
           else if porges < wg then 0
           else 1
  if m < 0 then 0 else m

/-- nitro.go:641 / 681: N2O share of the nitrified amount -/
def fN2oNit (wg porges : α) : α := (0.4 * (wg / porges) - 1.04) / (wg / porges - 1.04) * 0.0016

/-- state of one mineralisation layer as read by `mineral` -/
structure Layer (α : Type) where
  tdUp : α                -- TD[z-1]
  tdLo : α                -- TD[z]
  kt0 : α                 -- 4e9·exp(−8400/(T+273.16))   (input)
  kt1 : α                 -- 5.6e12·exp(−9800/(T+273.16)) (input)
  wg : α
  wnor : α
  wmin : α
  porges : α
  w : α
  naos : α
  nfos : α
  minaos : α
  minfos : α

/-- accumulators that `mineral` updates layer after layer -/
structure Acc (α : Type) where
  ums : α
  nh4ums : α
  n2onitsum : α
  minsum : α

structure LayerOut (α : Type) where
  naos : α
  nfos : α
  minaos : α
  minfos : α
  dn : α
  dums : α
  dnh4 : α

/-- nitro.go:593-686 for one layer (`top` = (z == 1)) -/
def layer (top : Bool) (dsumm nh4sum wred : α) (L : Layer α) (a : Acc α) : LayerOut α × Acc α :=
  let tempbo := (L.tdLo + L.tdUp) / 2
  let fn := fN2oNit L.wg L.porges
  if 0 < tempbo then
    let mired := miredWarm L.wg L.wnor wred L.wmin L.porges
    let dtotal := clamp0 (L.kt0 * L.naos * mired)
    let dminfos := clamp0 (L.kt1 * L.nfos * mired)
    let dums := if top then 0.4 * mired * (dsumm - a.ums) else 0
    let dnh4 := if top then 0.4 * mired * (nh4sum - a.nh4ums) else 0
    let n2o := (dnh4 + dtotal + dminfos) * fn
    let dn := dtotal + dminfos + dums - n2o
    ({ naos := L.naos - dtotal, nfos := L.nfos - dminfos, minaos := L.minaos + dtotal,
       minfos := L.minfos + dminfos, dn := dn, dums := dums, dnh4 := dnh4 },
     { ums := a.ums + dums, nh4ums := a.nh4ums + dnh4, n2onitsum := a.n2onitsum + n2o,
       minsum := a.minsum + dn - dums })
  else
    let mired := miredCold L.wg L.w wred L.wmin L.porges
    let dums := if top then 0.4 * mired * (dsumm - a.ums) else 0
    let dnh4 := if top then 0.4 * mired * (nh4sum - a.nh4ums) else 0
    let n2o := dnh4 * fn
    ({ naos := L.naos, nfos := L.nfos, minaos := L.minaos, minfos := L.minfos,
       dn := dums - n2o, dums := dums, dnh4 := dnh4 },
     { ums := a.ums + dums, nh4ums := a.nh4ums + dnh4, n2onitsum := a.n2onitsum + n2o,
       minsum := a.minsum })

/-- nitro.go:590-687: the loop over the mineralisation layers -/
def go (dsumm nh4sum wred : α) : Bool → List (Layer α) → Acc α → List (LayerOut α) × Acc α
  | _, [], a => ([], a)
  | top, L :: rest, a =>
      let r := layer top dsumm nh4sum wred L a
      let s := go dsumm nh4sum wred false rest r.2
      (r.1 :: s.1, s.2)

def run (dsumm nh4sum wred : α) (ls : List (Layer α)) (a : Acc α) : List (LayerOut α) × Acc α :=
  go dsumm nh4sum wred true ls a

/-! ### tillage mixing (nitro.go:245-281) -/

/-- replace the first `m` entries by `v` -/
def setFirst (m : Nat) (v : α) : List α → List α
  | [] => []
  | x :: xs => match m with
    | 0 => x :: xs
    | k + 1 => v :: setFirst k v xs

structure TillOut (α : Type) where
  nfos : List α
  naos : List α
  minfos : List α
  minaos : List α
  c1 : List α

/-- Mixing over `m = int(round(EINT/DZ))` layers (`mNum` = the same number as a float) for `NFOS`,
`NAOS`, `C1`, and over `mc = min m (length of the counter arrays)` layers (`mcNum` as a float) for
`MINFOS`, `MINAOS` (nitro.go:245-288).  Total for `m ≤ 21` (the size of `NFOS`/`NAOS`/`C1`), i.e. for
every depth inside the largest profile. -/
def tillage (m : Nat) (mNum mcNum : α) (mix : Bool) (nfos naos minfos minaos c1 : List α) : TillOut α :=
  let mc := min m minfos.length
  if mix then
    { nfos := setFirst m (sumFrom 0 (nfos.take m) / mNum) nfos,
      naos := setFirst m (sumFrom 0 (naos.take m) / mNum) naos,
      minfos := setFirst mc (sumFrom 0 (minfos.take mc) / mcNum) minfos,
      minaos := setFirst mc (sumFrom 0 (minaos.take mc) / mcNum) minaos,
      c1 := setFirst m (clamp0 (sumFrom 0 (c1.take m) / mNum)) c1 }
  else { nfos := nfos, naos := naos, minfos := minfos, minaos := minaos, c1 := c1 }

/-- nitro.go:248: number of mixed layers -/
def mixLayers [Conv α] (eint dz : α) : Nat := Conv.roundNat (eint / dz)

/-! ### denitrification (denit.go) -/

/-- denit.go:45-50 (and 143-148 with vmax = 4242): Michaelis-Menten rate in kg N/ha/d -/
def denitRate (vmax n ftheta ftemp : α) : α := vmax * (n * n) / (n * n + 74) * ftheta * ftemp / 1000

/-- denit.go:52-59 / 192-199 for one layer: removal with the non-negativity clamp -/
def denitLayer (c frac denit : α) : α := if 0 < frac then clamp0 (c - denit * frac) else c

structure DenitOut (α : Type) where
  c : List α
  cumdenit : α
  denit : α

/-- `Denitr`: removal from the three top layers in proportion to their nitrate, counter update. -/
def denitr (c0 c1 c2 ftheta ftemp cumdenit : α) : DenitOut α :=
  let n := c0 + c1 + c2
  if 0 < n then
    let d := denitRate 1274 n ftheta ftemp
    { c := [denitLayer c0 (c0 / n) d, denitLayer c1 (c1 / n) d, denitLayer c2 (c2 / n) d],
      cumdenit := cumdenit + d, denit := d }
  else { c := [c0, c1, c2], cumdenit := cumdenit, denit := 0 }

/-- one 30 cm block of `Denitmo`; `swap` = the fractions of the 2nd and 3rd layer are exchanged
(denit.go:120-121, block 60-90 cm). Returns the new contents and the block's rate. -/
def denitmoBlock (swap : Bool) (c0 c1 c2 ftheta ftemp : α) : List α × α :=
  let n := c0 + c1 + c2
  let f0 := if 0 < n then c0 / n else 0
  let f1 := if 0 < n then (if swap then c2 / n else c1 / n) else 0
  let f2 := if 0 < n then (if swap then c1 / n else c2 / n) else 0
  let d := if 0 < n then denitRate 4242 n ftheta ftemp else 0
  ([denitLayer c0 f0 d, denitLayer c1 f1 d, denitLayer c2 f2 d], d)

end
end Hermes.Mineral
