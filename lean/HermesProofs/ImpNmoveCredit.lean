/-
Frame and crediting lemmas about the *translation of the current source* of `nmove` (hermes/nitro.go, regenerated into
`HermesModel/Generated/Impnmove.lean` on every run): which statements of `nmove` touch the crop-N counters.

* `key`     — what the crediting statement at the end of `nmove` reads, plus `PESUM − AUFNASUM`: no statement before the
              crediting statement changes it (the uptake loop adds the same clamped uptake to both counters);
* `later`   — `PESUM`, `AUFNASUM`, `PE`: untouched by a whole call that is not the first sub-step of the day.
-/
import HermesModel.Generated.Impnmove
import Mathlib.Tactic.Ring
import Mathlib.Tactic.SplitIfs

namespace Hermes.Generated.Imp.nmove
open Hermes.Imp

/-- what the crediting statement reads, and the difference of the two crop-N counters -/
def key (s : St ℚ) : ℚ × ℚ × List Int × List Int × Int × Int × Int :=
  (s.g_PESUM - s.g_AUFNASUM, s.g_SCHNORR, s.g_SAAT, s.g_ERNTE2, s.g_AKF_Index, s.p_zeit, s.p_subd)

/-- the crop-N counters and the uptake array -/
def later (s : St ℚ) : ℚ × ℚ × List ℚ × Int := (s.g_PESUM, s.g_AUFNASUM, s.g_PE, s.p_subd)

variable (m : MathFns ℚ)

theorem loop1_key (z : Int) (s : St ℚ) : key (loop1 m z s) = key s := by
  unfold loop1 key
  dsimp only
  split_ifs <;> simp only [Prod.mk.injEq, and_true] <;> ring

theorem loop1_later (z : Int) (s : St ℚ) (h : s.p_subd ≠ 1) : later (loop1 m z s) = later s := by
  unfold loop1 later
  dsimp only
  rw [if_neg h]
  split_ifs <;> rfl

theorem loop2_key (z : Int) (s : St ℚ) : key (loop2 m z s) = key s := by
  unfold loop2 key; dsimp only; split_ifs <;> rfl
theorem loop2_later (z : Int) (s : St ℚ) : later (loop2 m z s) = later s := by
  unfold loop2 later; dsimp only; split_ifs <;> rfl
theorem loop3_key (z : Int) (s : St ℚ) : key (loop3 m z s) = key s := by
  unfold loop3 key; dsimp only; split_ifs <;> rfl
theorem loop3_later (z : Int) (s : St ℚ) : later (loop3 m z s) = later s := by
  unfold loop3 later; dsimp only; split_ifs <;> rfl
theorem loop4_key (z : Int) (s : St ℚ) : key (loop4 m z s) = key s := by
  unfold loop4 key; dsimp only; split_ifs <;> rfl
theorem loop4_later (z : Int) (s : St ℚ) : later (loop4 m z s) = later s := by
  unfold loop4 later; dsimp only; split_ifs <;> rfl
theorem loop5_key (z : Int) (s : St ℚ) : key (loop5 m z s) = key s := by
  unfold loop5 key; dsimp only; split_ifs <;> rfl
theorem loop5_later (z : Int) (s : St ℚ) : later (loop5 m z s) = later s := by
  unfold loop5 later; dsimp only; split_ifs <;> rfl


/-- statements 1-10 of `nmove` (everything before the crediting statement) -/
def before (s : St ℚ) : St ℚ :=
  top10 m (top9 m (top8 m (top7 m (top6 m (top5 m (top4 m (top3 m (top2 m (top1 m s)))))))))

theorem run_eq (s : St ℚ) : run m s = top11 m (before m s) := rfl

theorem top2_key (s : St ℚ) : key (top2 m s) = key s :=
  loopUp_inv noBrk (loop1 m) (fun t => key t = key s) (fun i t h => (loop1_key m i t).trans h) _ _ s rfl
theorem top4_key (s : St ℚ) : key (top4 m s) = key s :=
  loopUp_inv noBrk (loop2 m) (fun t => key t = key s) (fun i t h => (loop2_key m i t).trans h) _ _ s rfl
theorem top5_key (s : St ℚ) : key (top5 m s) = key s :=
  loopUp_inv noBrk (loop3 m) (fun t => key t = key s) (fun i t h => (loop3_key m i t).trans h) _ _ s rfl
theorem top8_key (s : St ℚ) : key (top8 m s) = key s :=
  loopUp_inv noBrk (loop4 m) (fun t => key t = key s) (fun i t h => (loop4_key m i t).trans h) _ _ s rfl
theorem top10_key (s : St ℚ) : key (top10 m s) = key s :=
  loopUp_inv noBrk (loop5 m) (fun t => key t = key s) (fun i t h => (loop5_key m i t).trans h) _ _ s rfl
theorem top9_key (s : St ℚ) : key (top9 m s) = key s := by
  unfold top9 key; dsimp only; split_ifs <;> rfl

theorem before_key (s : St ℚ) : key (before m s) = key s := by
  unfold before
  rw [top10_key, top9_key, top8_key]
  show key (top6 m _) = _
  show key (top5 m _) = _
  rw [top5_key, top4_key]
  show key (top2 m _) = _
  rw [top2_key]
  rfl

theorem top2_later (s : St ℚ) (h : s.p_subd ≠ 1) : later (top2 m s) = later s :=
  loopUp_inv noBrk (loop1 m) (fun t => later t = later s)
    (fun i t ht => by
      have h1 : t.p_subd ≠ 1 := by
        have : t.p_subd = s.p_subd := congrArg (fun x => x.2.2.2) ht
        rw [this]; exact h
      exact (loop1_later m i t h1).trans ht) _ _ s rfl
theorem top4_later (s : St ℚ) : later (top4 m s) = later s :=
  loopUp_inv noBrk (loop2 m) (fun t => later t = later s) (fun i t h => (loop2_later m i t).trans h) _ _ s rfl
theorem top5_later (s : St ℚ) : later (top5 m s) = later s :=
  loopUp_inv noBrk (loop3 m) (fun t => later t = later s) (fun i t h => (loop3_later m i t).trans h) _ _ s rfl
theorem top8_later (s : St ℚ) : later (top8 m s) = later s :=
  loopUp_inv noBrk (loop4 m) (fun t => later t = later s) (fun i t h => (loop4_later m i t).trans h) _ _ s rfl
theorem top10_later (s : St ℚ) : later (top10 m s) = later s :=
  loopUp_inv noBrk (loop5 m) (fun t => later t = later s) (fun i t h => (loop5_later m i t).trans h) _ _ s rfl
theorem top9_later (s : St ℚ) : later (top9 m s) = later s := by
  unfold top9 later; dsimp only; split_ifs <;> rfl

theorem before_later (s : St ℚ) (h : s.p_subd ≠ 1) : later (before m s) = later s := by
  unfold before
  rw [top10_later, top9_later, top8_later]
  show later (top6 m _) = _
  show later (top5 m _) = _
  rw [top5_later, top4_later]
  show later (top2 m _) = _
  rw [top2_later m _ (by exact h)]
  rfl

end Hermes.Generated.Imp.nmove
