/-
Model of `Soiltemp` (hermes/soiltemp.go:8-69): one call = one simulated day of the soil
temperature routine, transcribed from the Go code as it is.

* nodes: `TSOIL[0][0..N]` — node 0 is the surface value, node N the fixed lower boundary
  (`TBASE`), nodes 1 … N−1 are the computed ones;
* layer parameters: `HEATCOND[i]`, `HEATCAP[i]` for i = 0 … N−1; node i (1 ≤ i ≤ N−1) uses the
  parameters of index i−1 (soiltemp.go:53) — the parameters of index N−1 are computed but never used;
* 24 explicit sub-steps (soiltemp.go:51-61); the *old* array is `TSOIL[0]`, the *new* one `TSOIL[1]`;
  `TSOIL[1][0]` (today's surface value) and `TSOIL[1][N]` (= TBASE) are set once before the loop, so the
  first sub-step still reads yesterday's surface value in `TSOIL[0][0]`;
* `TD[i]` = mean of the 24 new values, fed back as `TSOIL[0][i]` (soiltemp.go:62-68).

The transcendental values are inputs (computed on the Go side): `expNegLai = exp(−LAI)`,
`sq = sqrt(0.0003·radiat)`, and per layer `e = exp(−50·(WG/BD)^1.5)`.
Polymorphic in the arithmetic (see Num.lean); core Lean only.
-/
import HermesModel.Num
namespace Hermes.SoilTemp

section
variable {α : Type} [Add α] [Sub α] [Mul α] [Div α] [LT α] [DecidableLT α]
  [OfNat α 0] [OfNat α 1] [OfNat α 2] [OfNat α 3] [OfNat α 10] [OfNat α 24] [OfNat α 200]
  [OfNat α 833] [OfNat α 86400] [OfScientific α]

/-- soiltemp.go:27-36: net radiation term. `expNegLai` = `math.Exp(-g.LAI)`. -/
def radiat (lai expNegLai rad eta temp : α) : α :=
  if lai < 3 then
    let scov0 : α := 1 - expNegLai
    let scov : α := if scov0 < 0 then 0 else scov0
    rad * 200 * (1 - scov) - (eta * 10 * (2.498 - 0.00242 * temp) * 10)
  else 0

/-- soiltemp.go:38,41-45: today's surface value `TSOIL[1][0]`. `sq` = `math.Sqrt(0.0003*radiat)`,
`told` = `TSOIL[0][0]` (yesterday's surface value), albedo 0.31. -/
def surface (radiat sq tmin tmax told : α) : α :=
  if 833 < radiat then ((1 - 0.31) * (tmin + ((tmax - tmin) * sq))) + (0.31 * told)
  else (tmin + tmax) / 2

/-- soiltemp.go:47: heat conductivity; `e` = `math.Exp((-50)*math.Pow(WG/BD, 1.5))`. -/
def heatCond (bd e dt : α) : α :=
  ((3 * bd - 1.7) * 0.001) / (1.0 + (11.5 - 5.0 * bd) * e) * 86400 * dt * 4.189

/-- soiltemp.go:48: heat capacity. -/
def heatCap (wg bd hum : α) : α :=
  (wg * 1 * 1 + (1 - bd / 2.65 - wg) * 0.0013 * 0.23 + hum * 1.3 * 1.3 * 0.45
    + (bd / 2.65 - hum * 1.3) * 2.65 * 0.18) * 4.189

/-- one soil layer as `Soiltemp` sees it -/
structure Layer (α : Type) where
  bd : α     -- g.BD[i]
  wg : α     -- g.WG[0][i]
  hum : α    -- g.HUMUS[i]
  e : α      -- math.Exp((-50)*math.Pow(wg/bd, 1.5)), supplied by the caller

/-- soiltemp.go:53: `alpha := HEATCOND[i-1] / HEATCAP[i-1]` -/
def alpha (dt : α) (l : Layer α) : α := heatCond l.bd l.e dt / heatCap l.wg l.bd l.hum

/-- the diffusion number of the explicit step: `alpha·DT/24/DZ²` (soiltemp.go:54) -/
def diffNum (a dt dz2 : α) : α := a * dt / 24 / dz2

/-- soiltemp.go:54: new value of one node from the old values of the node above (`tm`), itself (`t`)
and the node below (`tp`). -/
def node (a dt dz2 tm t tp : α) : α := t + a * (tp - 2 * t + tm) * dt / 24 / dz2

/-- soiltemp.go:52-56: the loop `i = 1 … N−1`. `tm` is the old value of node i−1, the list holds the
old values of nodes i … N, `as` the alphas of index i−1 …; the last node (N) gets no new value. -/
def interior (dt dz2 : α) : α → List α → List α → List α
  | tm, t :: tp :: rest, a :: as => node a dt dz2 tm t tp :: interior dt dz2 t (tp :: rest) as
  | _, _, _ => []

/-- new values of nodes 1 … N−1 from the old profile `TSOIL[0][0..N]` -/
def interiorOf (dt dz2 : α) (as : List α) : List α → List α
  | t0 :: rest => interior dt dz2 t0 rest as
  | [] => []

/-- `TDSUM[i-1] += TSOIL[1][i]` -/
def addTo : List α → List α → List α
  | s :: ss, v :: vs => (s + v) :: addTo ss vs
  | _, _ => []

/-- soiltemp.go:51-61: `k` sub-steps. State: old profile `TSOIL[0][0..N]` and `TDSUM[0..N-2]`.
After each sub-step `TSOIL[0] := TSOIL[1]` = today's surface value, the new interior values, TBASE. -/
def steps (dt dz2 surf tbase : α) (as : List α) : Nat → List α → List α → List α × List α
  | 0, ts, sums => (ts, sums)
  | k + 1, ts, sums =>
    let inner := interiorOf dt dz2 as ts
    steps dt dz2 surf tbase as k (surf :: (inner ++ [tbase])) (addTo sums inner)

/-- soiltemp.go:39: `TSOIL[0][N] = TBASE` -/
def setLast (b : α) : List α → List α
  | [] => []
  | [_] => [b]
  | x :: y :: r => x :: setLast b (y :: r)

/-- inputs of one `Soiltemp` call that are not the temperature profile -/
structure DayIn (α : Type) where
  lai : α
  expNegLai : α
  rad : α        -- g.RAD[TAG]
  eta : α
  temp : α       -- g.TEMP[TAG]
  tmin : α
  tmax : α
  sq : α         -- math.Sqrt(0.0003*radiat)
  tbase : α
  dt : α         -- g.DT.Num
  dz : α         -- g.DZ.Num
  layers : List (Layer α)    -- N entries

structure DayOut (α : Type) where
  radiat : α
  surf : α            -- TSOIL[1][0]
  cond : List α       -- HEATCOND[0..N-1]
  cap : List α        -- HEATCAP[0..N-1]
  td : List α         -- TD[0..N]
  tsoil : List α      -- TSOIL[0][0..N] after the call: the surface value (left by the last sub-step)
                      -- and the daily means fed back (soiltemp.go:66-68)

/-- today's surface value as `Soiltemp` computes it; `told` = `TSOIL[0][0]` -/
def surfOf (i : DayIn α) (told : α) : α :=
  surface (radiat i.lai i.expNegLai i.rad i.eta i.temp) i.sq i.tmin i.tmax told

/-- `TD[0..N]` from the surface value, the sums of the interior nodes and TBASE
(soiltemp.go:57,62-65: `TD[0] = TSOIL[1][0]`, `TD[i] = TDSUM[i-1]/24`, `TD[N] = TSOIL[0][N]`). -/
def tdOf (surf tbase : α) (sums : List α) : List α :=
  surf :: (sums.map (fun s => s / 24) ++ [tbase])

/-- the profile and sums after the 24 sub-steps of a day with the given surface value -/
def daySteps (i : DayIn α) (surf : α) (tsoil : List α) : List α × List α :=
  steps i.dt (i.dz * i.dz) surf i.tbase (i.layers.map (alpha i.dt)) 24
    (setLast i.tbase tsoil) ((i.layers.drop 1).map (fun _ => (0 : α)))

/-- One call of `Soiltemp`. `tsoil` = `TSOIL[0][0..N]` before the call (N+1 entries). -/
def day (i : DayIn α) (tsoil : List α) : DayOut α :=
  let told : α := match tsoil with | t :: _ => t | [] => 0
  let surf := surfOf i told
  let r := daySteps i surf tsoil
  let td := tdOf surf i.tbase r.2
  { radiat := radiat i.lai i.expNegLai i.rad i.eta i.temp
    surf := surf
    cond := i.layers.map (fun l => heatCond l.bd l.e i.dt)
    cap := i.layers.map (fun l => heatCap l.wg l.bd l.hum)
    td := td
    tsoil := surf :: td.drop 1 }

/-- A run of days: every day starts from the `TSOIL[0]` profile the day before left (the daily means,
soiltemp.go:66-68; `TSOIL[0][0]` keeps the surface value). Returns the `TD` profiles day by day. -/
def run : List (DayIn α) → List α → List (List α)
  | [], _ => []
  | i :: rest, tsoil => (day i tsoil).td :: run rest (day i tsoil).tsoil

/-- the surface values imposed day by day in a run -/
def surfaces : List (DayIn α) → List α → List α
  | [], _ => []
  | i :: rest, tsoil => (day i tsoil).surf :: surfaces rest (day i tsoil).tsoil

end
end Hermes.SoilTemp
