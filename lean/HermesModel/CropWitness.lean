/-
Concrete records used by the counter-witness theorems and the non-vacuity examples of C13 and C18
(integers as the arithmetic, so that the kernel evaluates them).
-/
import HermesModel.CropOverride
namespace Hermes.CropParam

instance : TruncInt Int := ⟨id, id⟩

def witnessStage : StageTok Int :=
  { bbch := none, tsum := 148, bas := 3, vschwell := 0, dayl := 0, dlbas := 0, dryswell := 1,
    lukrit := 0, laifkt := 0, wgmax := 0, pro := [1, 0, 0, 0, 0], dead := [0, 0, 0, 0, 0], kc := 1 }

/-- sugar-beet-like record with N-content function 5 and no `org=` token -/
def witnessNoOrg : Classic Int :=
  { maxamax := 80, temptyp := 1, mintmp := 3, wumaxpf := 14, veloc := 200, ngefkt := 5,
    a := some 4, b := some 5, org := none, above := [2, 3], yorgan := 4, yifak := 1, initb := 800,
    initr := 200, nrkom := 4, dauer := false, legum := false, worg := [5, 10, 0, 0, 0],
    mairt := [1, 3, 0, 1, 0], kcini := 0, nrentw := 1, stages := [witnessStage] }

def zeroState : State Int :=
  { maxamax := 0, mintmp := 0, wumaxpf := 0, veloc := 0, rga := 0, rgb := 0, yifak := 0, gehob := 0,
    wugeh := 0, phyllo := 0, verntage := 0, trootsum := 0, kcini := 0, tendsum := 0, temptyp := 0,
    ngefkt := 0, subOrgan := 0, yorgan := 0, nrkom := 0, nrentw := 0, stageDays := [0, 0, 0, 0, 0],
    dauer := false, legum := false, useBBCH := false, above := [],
    worg := List.replicate 5 0, wdorg := List.replicate 10 0, mairt := List.replicate 10 0,
    sum := List.replicate 10 0, tsum := List.replicate 10 0, bas := List.replicate 10 0,
    vschwell := List.replicate 10 0, dayl := List.replicate 10 0, dlbas := List.replicate 10 0,
    dryswell := List.replicate 10 0, lukrit := List.replicate 10 0, laifkt := List.replicate 10 0,
    wgmax := List.replicate 10 0, kc := List.replicate 10 0, endbbch := List.replicate 10 0,
    dev := List.replicate 10 0, pro := List.replicate 10 (List.replicate 5 0),
    dead := List.replicate 10 (List.replicate 5 0) }

/-- the state a previous sugar-beet crop (`org=S4`) leaves behind -/
def afterBeet : State Int := { zeroState with ngefkt := 5, subOrgan := 4, rga := 4, rgb := 5 }


/-- two-stage record, temperature sums 100 and 200 -/
def tsumWitness : Classic Int :=
  { witnessNoOrg with ngefkt := 1, a := none, b := none, nrentw := 2, stages := [{ witnessStage with tsum := 100 }, { witnessStage with tsum := 200 }] }

end Hermes.CropParam
