/-
Model of src/calcHermesBatch/calchermesbatch.go (job-array size, printed line ranges, byte-level
line counter) and of the `-lines a-b` selection of src/hermes2go/hermes_main.go:99-131,202-209.
Core Lean only.
-/
namespace Hermes.Partition

/-- `-size`: calchermesbatch.go:47-53. -/
def size (lines nodes : Nat) : Nat := if lines / nodes = 0 then lines else nodes

/-- The loop of calchermesbatch.go:70-86: `i` runs from `i` to `nodes`, `last` is `lastSlice`. -/
def slices (sps rest nodes : Nat) : Nat → Nat → Nat → List (Nat × Nat)
  | 0, _, _ => []
  | fuel + 1, i, last =>
    if i > nodes then [] else
    if i ≤ rest then (last + 1, last + sps + 1) :: slices sps rest nodes fuel (i + 1) (last + sps + 1)
    else (last + 1, last + sps) :: slices sps rest nodes fuel (i + 1) (last + sps)

/-- `-list`: the ranges printed (calchermesbatch.go:55-89, after the repair of the
`lines < nodes` branch: one single-line range per line). -/
def ranges (lines nodes : Nat) : List (Nat × Nat) :=
  if lines / nodes = 0 then (List.range lines).map fun i => (i + 1, i + 1)
  else slices (lines / nodes) (lines % nodes) nodes nodes 1 0

/-- Behaviour of the pinned commit in the `lines < nodes` branch: the loop stopped at
`lines − 1` and the result string was never printed. Kept for the regression witness. -/
def rangesPinned (lines nodes : Nat) : List (Nat × Nat) :=
  if lines / nodes = 0 then []
  else slices (lines / nodes) (lines % nodes) nodes nodes 1 0

/-- hermes_main.go:99-131: `-lines a-b` gives start index `a − 1` and end line `b`;
202-209: the dispatch loop runs index `i` iff `startLine ≤ i` and (`endLine ≤ 0` or `i < endLine`).
Result: 0-based indices of the batch lines that are executed, in order. -/
def selected (a b n : Nat) : List Nat :=
  (List.range n).filter fun i => decide (a - 1 ≤ i) && (decide (b = 0) || decide (i < b))

/-! ### byte-level line counter (calchermesbatch.go:103-148) -/

structure CountState where
  count : Nat := 0
  carry : Nat := 0            -- distanceCarryForward
  prevNotCR : Bool := true    -- prevNotCarageReturn
  deriving Repr, DecidableEq

/-- position of the first `\n` (10) in a list, like bytes.Index -/
def indexLF : List Nat → Option Nat
  | [] => none
  | b :: rest => if b = 10 then some 0 else (indexLF rest).map (· + 1)

/-- The inner `for ok := true; ok; …` loop over one chunk `buf[0:c]`.
`crAt idx` abstracts which byte the code inspects to decide "previous byte is CR":
the repaired code looks at `buf[startIndex+index-1]`, the pinned commit at `buf[index-1]`. -/
def scanChunk (pinned : Bool) (buf : List Nat) : Nat → Nat → CountState → CountState
  | 0, _, st => st
  | fuel + 1, startIndex, st =>
    let c := buf.length
    match indexLF (buf.drop startIndex) with
    | some index =>
      let distance := st.carry + index + 1
      let look := if pinned then index - 1 else startIndex + index - 1
      let prevNotCR := if index > 0 then buf.getD look 0 != 13 else st.prevNotCR
      let cnt := if (distance > 1 && prevNotCR) || (distance > 2 && !prevNotCR)
                 then st.count + 1 else st.count
      let st' : CountState := { count := cnt, carry := 0, prevNotCR := prevNotCR }
      let start' := startIndex + index + 1
      if start' < c then scanChunk pinned buf fuel start' st' else st'
    | none =>
      { st with carry := (buf.drop startIndex).length, prevNotCR := buf.getD (c - 1) 0 != 13 }

/-- lineCounter over the sequence of chunks returned by `Read`; EOF adds one for a last line
without newline. Empty chunks are skipped (`c > 0`). -/
def lineCounter (pinned : Bool) (chunks : List (List Nat)) : Nat :=
  let st := chunks.foldl (fun st buf =>
    if buf.isEmpty then st else scanChunk pinned buf (buf.length + 1) 0 st) {}
  if st.carry > 0 then st.count + 1 else st.count

/-- What hermes2go executes: bufio.Scanner lines (split at `\n`, one trailing `\r` dropped, last
line without newline kept when non-empty) of length > 0 (hermes_main.go:62-68). -/
def splitLF : List Nat → List Nat → List (List Nat)
  | [], cur => if cur.isEmpty then [] else [cur.reverse]
  | b :: rest, cur => if b = 10 then cur.reverse :: splitLF rest [] else splitLF rest (b :: cur)

def dropCR (l : List Nat) : List Nat :=
  match l.reverse with
  | 13 :: r => r.reverse
  | _ => l

def scannerLines (bytes : List Nat) : List (List Nat) :=
  ((splitLF bytes []).map dropCR).filter fun l => !l.isEmpty

end Hermes.Partition
