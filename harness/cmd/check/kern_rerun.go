package main

// Re-run stage (C03 and C05): a plot is simulated twice into the SAME result folder — first the long
// configuration, then a configuration that writes less (earlier end date or a larger output interval) —
// with the real hermes2go binary and the real result-file generator (hermes/path.go, not the in-memory
// writers of the in-process runs).  The files left by the second run must be byte-identical to the files
// of the same second run into a clean folder: anything else is stale content of the earlier run (records
// after the end date, records on days that are not multiples of the interval, out of date order).

import (
	"fmt"
	"os"
	"path/filepath"
	"strings"
	"time"

	"verifharness/proj"
	"verifharness/vh"
)

func countLines(path string) int {
	b, err := os.ReadFile(path)
	if err != nil {
		return -1
	}
	return strings.Count(string(b), "\n")
}

func rerunStage(c *vh.Ctx, bin string, prop string) {
	batchStyleSeed = c.Seed
	n := c.N(3, 12)
	done := 0
	for k := 0; k < n; k++ {
		r := c.Rng.Fork()
		root := filepath.Join(c.Scratch, fmt.Sprintf("rerun%d", k))
		p := genShortProject(r, fmt.Sprintf("q%d", k))
		p.Cfg["OutputIntervall"] = "1"
		if err := writeRoot(c, root, []*proj.Project{p}); err != nil {
			c.Violate("correspondence", "harness:write-project", err.Error(), nil)
			return
		}
		long := &batchLine{Key: "long", Args: p.BatchArgs(), Class: "valid"}
		var extra, what string
		if k%2 == 0 {
			lo, hi := p.Start().Z()+60, p.End().Z()-200
			if hi <= lo {
				hi = lo + 1
			}
			extra = "EndDate=" + proj.FromZ(r.Range(lo, hi)).Fmt(p.DateFmt)
			what = "an earlier end date"
		} else {
			extra = fmt.Sprintf("OutputIntervall=%d", r.Range(5, 30))
			what = "a larger output interval"
		}
		short := &batchLine{Key: "short", Args: append(append([]string{}, p.BatchArgs()...), extra), Class: "valid"}
		run := func(l *batchLine, tag string) *batchOutcome {
			return runBatch(bin, root, []*batchLine{l}, 1, 0, nil, 60*time.Second, tag)
		}
		cleanResults(root)
		base := run(short, "clean")
		if base.TimedOut || !base.SummaryOK || len(base.ErrIDs) > 0 || len(base.Files) == 0 {
			c.Count("rerun:unusable")
			os.RemoveAll(root)
			continue
		}
		lines := map[string]int{}
		for f := range base.Files {
			lines[f] = countLines(filepath.Join(root, f))
		}
		cleanResults(root)
		first := run(long, "first")
		if first.TimedOut || !first.SummaryOK || len(first.ErrIDs) > 0 {
			c.Count("rerun:unusable")
			os.RemoveAll(root)
			continue
		}
		second := run(short, "second") // same folder, nothing removed in between
		done++
		c.Eval()
		c.Nontrivial("rerun:" + what)
		c.Count("rerun:" + what)
		replay := map[string]interface{}{"project": p, "first_line": long.Text(), "second_line": short.Text(),
			"how": "write the project (proj.Project JSON, Project.Write), run hermes2go -module batch with the first line, then — without removing the RESULT folder — with the second line; compare with the second line run into an empty RESULT folder"}
		for _, f := range sortedKeysS(base.Files) {
			h2, ok := second.Files[f]
			switch {
			case !ok:
				c.Violate("search", "rerun:file-missing:"+fileKind(f), fmt.Sprintf("re-run with %s into the same result folder: %s is not written (it is when the folder is empty)", what, f), replay)
			case h2 != base.Files[f]:
				c.Violate("search", "rerun:stale-content:"+fileKind(f), fmt.Sprintf("re-run with %s into a result folder that holds the files of an earlier, longer run: %s differs from the same run into an empty folder (%d lines instead of %d) — records of the earlier run survive, so the file no longer holds exactly the records of this run",
					what, f, countLines(filepath.Join(root, f)), lines[f]), replay)
			}
		}
		os.RemoveAll(root)
	}
	c.Res.Extra[prop+"_rerun_pairs"] = done
}
