/-
Driver ops `cropparam.*`: the crop-parameter readers and the converter on Float.
State line (input and output), in this order:
  14 floats  MAXAMAX MINTMP WUMAXPF VELOC RGA RGB YIFAK GEHOB WUGEH PHYLLO VERNTAGE TROOTSUM KcIni Tendsum
  14 ints    TempTyp NGEFKT SubOrgan YORGAN NRKOM NRENTW DOUBLE ASIP BLUET REIF ENDPRO DAUERKULT LEGUM UseBBCH
  n + n ints AboveGroundOrgans
  floats     WORG[5] WDORG[10] MAIRT[10]  SUM TSUM BAS VSCHWELL DAYL DLBAS DRYSWELL LUKRIT LAIFKT WGMAX Kc ENDBBCH (10 each)
  10 ints    DEV
  floats     PRO[10][5] DEAD[10][5]
-/
import HermesModel.Proto
import HermesModel.CropParam
open Hermes Hermes.Proto Hermes.CropParam

namespace Hermes.Driver

def popInts : Nat → Toks → Option (List Int × Toks)
  | 0, r => some ([], r)
  | n + 1, r => do
    let (x, r) ← popInt r
    let (xs, r) ← popInts n r
    pure (x :: xs, r)

def popIntList (r : Toks) : Option (List Int × Toks) := do
  let (n, r) ← popNat r
  popInts n r

def chunks5 : Nat → List Float → List (List Float)
  | 0, _ => []
  | n + 1, l => l.take 5 :: chunks5 n (l.drop 5)

def popRows (n : Nat) (r : Toks) : Option (List (List Float) × Toks) := do
  let (xs, r) ← popFloats (5 * n) r
  pure (chunks5 n xs, r)

def popState (r : Toks) : Option (State Float × Toks) := do
  let (f, r) ← popFloats 14 r
  let (i, r) ← popInts 14 r
  let (above, r) ← popIntList r
  let (worg, r) ← popFloats 5 r
  let (wdorg, r) ← popFloats 10 r
  let (mairt, r) ← popFloats 10 r
  let (sum, r) ← popFloats 10 r
  let (tsum, r) ← popFloats 10 r
  let (bas, r) ← popFloats 10 r
  let (vschwell, r) ← popFloats 10 r
  let (dayl, r) ← popFloats 10 r
  let (dlbas, r) ← popFloats 10 r
  let (dryswell, r) ← popFloats 10 r
  let (lukrit, r) ← popFloats 10 r
  let (laifkt, r) ← popFloats 10 r
  let (wgmax, r) ← popFloats 10 r
  let (kc, r) ← popFloats 10 r
  let (endbbch, r) ← popFloats 10 r
  let (dev, r) ← popInts 10 r
  let (pro, r) ← popRows 10 r
  let (dead, r) ← popRows 10 r
  match f, i with
  | [maxamax, mintmp, wumaxpf, veloc, rga, rgb, yifak, gehob, wugeh, phyllo, verntage, trootsum, kcini, tendsum],
    [temptyp, ngefkt, subOrgan, yorgan, nrkom, nrentw, d1, d2, d3, d4, d5, dauer, legum, useBBCH] =>
    some ({ maxamax, mintmp, wumaxpf, veloc, rga, rgb, yifak, gehob, wugeh, phyllo, verntage, trootsum, kcini,
            tendsum, temptyp, ngefkt, subOrgan, yorgan, nrkom := nrkom.toNat, nrentw := nrentw.toNat,
            stageDays := [d1, d2, d3, d4, d5], dauer := dauer == 1, legum := legum == 1, useBBCH := useBBCH == 1,
            above, worg, wdorg, mairt, sum, tsum, bas, vschwell, dayl, dlbas, dryswell, lukrit, laifkt, wgmax,
            kc, endbbch, dev, pro, dead }, r)
  | _, _ => none

def b2s_Cropparam (b : Bool) : String := if b then "1" else "0"
def fmtInts (xs : List Int) : String := " ".intercalate (xs.map toString)

def fmtState (s : State Float) : String :=
  let parts : List String :=
    [fmtFloats [s.maxamax, s.mintmp, s.wumaxpf, s.veloc, s.rga, s.rgb, s.yifak, s.gehob, s.wugeh, s.phyllo,
                s.verntage, s.trootsum, s.kcini, s.tendsum],
     fmtInts ([s.temptyp, s.ngefkt, s.subOrgan, s.yorgan, (s.nrkom : Int), (s.nrentw : Int)] ++ s.stageDays),
     b2s_Cropparam s.dauer, b2s_Cropparam s.legum, b2s_Cropparam s.useBBCH, toString s.above.length] ++
    (if s.above.isEmpty then [] else [fmtInts s.above]) ++
    [fmtFloats (s.worg ++ s.wdorg ++ s.mairt ++ s.sum ++ s.tsum ++ s.bas ++ s.vschwell ++ s.dayl ++ s.dlbas ++
                s.dryswell ++ s.lukrit ++ s.laifkt ++ s.wgmax ++ s.kc ++ s.endbbch),
     fmtInts s.dev, fmtFloats (s.pro.flatten ++ s.dead.flatten)]
  " ".intercalate parts

def popStageTok (r : Toks) : Option (StageTok Float × Toks) := do
  let (has, r) ← popNat r
  let (bv, r) ← popFloat r
  let (v, r) ← popFloats 9 r
  let (pro, r) ← popFloats 5 r
  let (dead, r) ← popFloats 5 r
  let (kc, r) ← popFloat r
  match v with
  | [tsum, bas, vschwell, dayl, dlbas, dryswell, lukrit, laifkt, wgmax] =>
    some ({ bbch := if has == 1 then some bv else none, tsum, bas, vschwell, dayl, dlbas, dryswell, lukrit,
            laifkt, wgmax, pro, dead, kc }, r)
  | _ => none

def popStageToks : Nat → Toks → Option (List (StageTok Float) × Toks)
  | 0, r => some ([], r)
  | n + 1, r => do
    let (x, r) ← popStageTok r
    let (xs, r) ← popStageToks n r
    pure (x :: xs, r)

def popClassic (r : Toks) : Option (Classic Float × Toks) := do
  let (maxamax, r) ← popFloat r
  let (temptyp, r) ← popInt r
  let (mintmp, r) ← popFloat r
  let (wumaxpf, r) ← popFloat r
  let (veloc, r) ← popFloat r
  let (ngefkt, r) ← popInt r
  let (hasA, r) ← popNat r
  let (a, r) ← popFloat r
  let (hasB, r) ← popNat r
  let (b, r) ← popFloat r
  let (hasOrg, r) ← popNat r
  let (org, r) ← popInt r
  let (above, r) ← popIntList r
  let (yorgan, r) ← popInt r
  let (yifak, r) ← popFloat r
  let (initb, r) ← popFloat r
  let (initr, r) ← popFloat r
  let (nrkom, r) ← popNat r
  let (dauer, r) ← popNat r
  let (legum, r) ← popNat r
  let (worg, r) ← popFloats 5 r
  let (mairt, r) ← popFloats 5 r
  let (kcini, r) ← popFloat r
  let (nrentw, r) ← popNat r
  let (stages, r) ← popStageToks nrentw r
  pure ({ maxamax, temptyp, mintmp, wumaxpf, veloc, ngefkt,
          a := if hasA == 1 then some a else none, b := if hasB == 1 then some b else none,
          org := if hasOrg == 1 then some org else none, above, yorgan, yifak, initb, initr, nrkom,
          dauer := dauer == 1, legum := legum == 1, worg, mairt, kcini, nrentw, stages }, r)

def popStageY (r : Toks) : Option (StageY Float × Toks) := do
  let (bbch, r) ← popInt r
  let (v, r) ← popFloats 9 r
  let (pro, r) ← popFloatList r
  let (dead, r) ← popFloatList r
  let (kc, r) ← popFloat r
  match v with
  | [tsum, bas, vschwell, dayl, dlbas, dryswell, lukrit, laifkt, wgmax] =>
    some ({ bbch, tsum, bas, vschwell, dayl, dlbas, dryswell, lukrit, laifkt, wgmax, pro, dead, kc }, r)
  | _ => none

def popStageYs : Nat → Toks → Option (List (StageY Float) × Toks)
  | 0, r => some ([], r)
  | n + 1, r => do
    let (x, r) ← popStageY r
    let (xs, r) ← popStageYs n r
    pure (x :: xs, r)

def popYml (r : Toks) : Option (Yml Float × Toks) := do
  let (maxamax, r) ← popFloat r
  let (temptyp, r) ← popInt r
  let (mintmp, r) ← popFloat r
  let (wumaxpf, r) ← popFloat r
  let (veloc, r) ← popFloat r
  let (ngefkt, r) ← popInt r
  let (rga, r) ← popFloat r
  let (rgb, r) ← popFloat r
  let (subOrgan, r) ← popInt r
  let (above, r) ← popIntList r
  let (yorgan, r) ← popInt r
  let (yifak, r) ← popFloat r
  let (initb, r) ← popFloat r
  let (initr, r) ← popFloat r
  let (nrkom, r) ← popNat r
  let (dauer, r) ← popNat r
  let (legum, r) ← popNat r
  let (worg, r) ← popFloatList r
  let (mairt, r) ← popFloatList r
  let (kcini, r) ← popFloat r
  let (nrentw, r) ← popNat r
  let (ns, r) ← popNat r
  let (stages, r) ← popStageYs ns r
  pure ({ maxamax, temptyp, mintmp, wumaxpf, veloc, ngefkt, rga, rgb, subOrgan, above, yorgan, yifak, initb,
          initr, nrkom, dauer := dauer == 1, legum := legum == 1, worg, mairt, kcini, nrentw, stages }, r)

def fmtFloatList (xs : List Float) : String :=
  if xs.isEmpty then "0" else toString xs.length ++ " " ++ fmtFloats xs

def fmtStageY (s : StageY Float) : String :=
  " ".intercalate [toString s.bbch,
    fmtFloats [s.tsum, s.bas, s.vschwell, s.dayl, s.dlbas, s.dryswell, s.lukrit, s.laifkt, s.wgmax],
    fmtFloatList s.pro, fmtFloatList s.dead, fmtFloat s.kc]

def fmtYml (y : Yml Float) : String :=
  let head : List String :=
    [fmtFloat y.maxamax, toString y.temptyp, fmtFloat y.mintmp, fmtFloat y.wumaxpf, fmtFloat y.veloc,
     toString y.ngefkt, fmtFloat y.rga, fmtFloat y.rgb, toString y.subOrgan, toString y.above.length] ++
    (if y.above.isEmpty then [] else [fmtInts y.above]) ++
    [toString y.yorgan, fmtFloat y.yifak, fmtFloat y.initb, fmtFloat y.initr, toString y.nrkom, b2s_Cropparam y.dauer,
     b2s_Cropparam y.legum, fmtFloatList y.worg, fmtFloatList y.mairt, fmtFloat y.kcini, toString y.nrentw,
     toString y.stages.length]
  " ".intercalate (head ++ y.stages.map fmtStageY)

def cropparamOps (toks : List String) : String :=
  match toks with
  | "cropparam.classic" :: rep :: rest =>
    (do
      let (s, r) ← popState rest
      let (t, _) ← popClassic r
      match applyClassic t (rep == "1") s with
      | some o => pure (fmtState o)
      | none => pure "fatal").getD "bad-op"
  | "cropparam.yml" :: rep :: rest =>
    (do
      let (s, r) ← popState rest
      let (y, _) ← popYml r
      match applyYml y (rep == "1") s with
      | some o => pure (fmtState o)
      | none => pure "fatal").getD "bad-op"
  | "cropparam.convert" :: rest =>
    (do
      let (t, _) ← popClassic rest
      pure (fmtYml (convert t))).getD "bad-op"
  | _ => "bad-op"

end Hermes.Driver
