/-
C16 (automatic N applications are never negative), C10 (each fertilisation carried out exactly once) and the
N-input side of C02 / C07 for the automatic-fertilisation branch of `Nitro` (hermes/nitro.go:71-229) and the
part of the automan.txt reader behind it (hermes/input.go:508-541, 556-569, 1550-1567).
Model: HermesModel/AutoFert.lean (`step` = one call in the first sub-step, `run` = the days of one rotation
entry), tied to the real `hermes.Nitro` by the correspondence stages "autofert.step", "autofert.run",
"autofert.row" of the C16 check.  Exact-arithmetic statements over ℚ.

Weather (five temperatures, three rain values), the mineral N of the layers, the development stage, the rooted
depth and the day of the year are inputs of every day: the statements hold for all of them.  The hypotheses are
named where a proof needs one:
* `Stable sa ds`   — `SAAT` of the current entry does not move once it is set (the sowing block only writes a 0 cell);
* `HasStage zeit ds` — on the days on which the entry is sown the crop has a development stage (`PhytoOut` sets
  stage 1 on the sowing day, before `Nitro`; confirmed for every rotation entry by the whole-run search);
* `TagsAscend t ds` — the days lie in one calendar year (the day of the year goes up by one per day).
-/
import HermesProofs.AutoFert
import Mathlib.Tactic.Linarith
import Mathlib.Tactic.NormNum
import Mathlib.Tactic.Ring

namespace Hermes.AutoFert
open Hermes.Rotation (autoN)

/-! ### amounts -/

/-- Every mineral dose of a call is ≥ 0 — for every state, row, weather and stage. -/
theorem C16_autofert_dose_nonneg (i : In ℚ) (s : St ℚ) (a : App ℚ) (ha : a ∈ (step i s).2)
    (hk : a.kind.isMineral = true) : 0 ≤ a.amount := by
  rcases mem_step_cases i s a ha with rfl | rfl | rfl | rfl | rfl
  · simp [Kind.isMineral] at hk
  · simp [Kind.isMineral] at hk
  · exact autoN_nonneg _ _
  · exact autoN_nonneg _ _
  · exact autoN_nonneg _ _

/-- … and never above its configured demand NDEMk, when the demand and the mineral N of the layers it is measured
against are not negative (C07: the pools are not negative; `C1[0]` may even start negative when the "S"
application of the same call clamps it). -/
theorem C16_autofert_dose_le_demand (i : In ℚ) (s : St ℚ) (a : App ℚ) (ha : a ∈ (step i s).2)
    (hk : a.kind.isMineral = true) (hc : 0 ≤ s.c10) (hr : ∀ x ∈ i.c1rest, 0 ≤ x) (hd : 0 ≤ demand i a.kind) :
    a.amount ≤ demand i a.kind := by
  have hn : ∀ k, 0 ≤ nminTop k (c10After i s) i.c1rest :=
    fun k => nminTop_nonneg k _ _ (c10After_nonneg i s hc) hr
  rcases mem_step_cases i s a ha with rfl | rfl | rfl | rfl | rfl
  · simp [Kind.isMineral] at hk
  · simp [Kind.isMineral] at hk
  · exact autoN_le _ _ hd (hn _)
  · exact autoN_le _ _ hd (hn _)
  · exact autoN_le _ _ hd (hn _)

/-- The same over all the days of a rotation entry: no mineral application of a run is negative. -/
theorem C16_autofert_run_doses_nonneg (ds : List (In ℚ)) (zeit : Nat) (s : St ℚ) (x : Nat × App ℚ)
    (hx : x ∈ (run zeit ds s).2) (hk : x.2.kind.isMineral = true) : 0 ≤ x.2.amount :=
  run_forall (fun a => a.kind.isMineral = true → 0 ≤ a.amount)
    (fun i s a ha hk => C16_autofert_dose_nonneg i s a ha hk) ds zeit s x hx hk

/-! ### the sums and the pools (N-input side of the balance) -/

/-- `NFERTSIM` never decreases in the branch; `DSUMM` neither when the mineral part of the organic fertiliser of
the previous entry is not negative. -/
theorem C16_autofert_sums_never_decrease (i : In ℚ) (s : St ℚ) :
    s.nfertsim ≤ (step i s).1.nfertsim ∧ (0 ≤ i.prev.ndir → s.dsumm ≤ (step i s).1.dsumm) := by
  constructor
  · simp only [step]
    exact le_trans (le_trans (addIf_ge _ _ _ (autoN_nonneg _ _)) (addIf_ge _ _ _ (autoN_nonneg _ _)))
      (addIf_ge _ _ _ (autoN_nonneg _ _))
  · intro h
    simp only [step]
    exact le_trans (le_trans (le_trans (addIf_ge _ _ _ h) (addIf_ge _ _ _ (autoN_nonneg _ _)))
      (addIf_ge _ _ _ (autoN_nonneg _ _))) (addIf_ge _ _ _ (autoN_nonneg _ _))

/-- … and over any number of days. -/
theorem C16_autofert_run_sums_never_decrease (ds : List (In ℚ)) (zeit : Nat) (s : St ℚ) :
    s.nfertsim ≤ (run zeit ds s).1.nfertsim ∧ ((∀ d ∈ ds, 0 ≤ d.prev.ndir) → s.dsumm ≤ (run zeit ds s).1.dsumm) := by
  constructor
  · exact run_mono St.nfertsim (fun _ => True) (fun i s _ => (C16_autofert_sums_never_decrease i s).1)
      (fun _ _ _ => trivial) ds zeit s (fun _ _ => trivial)
  · intro h
    exact run_mono St.dsumm (fun d => 0 ≤ d.prev.ndir) (fun i s hi => (C16_autofert_sums_never_decrease i s).2 hi)
      (fun _ _ hd => hd) ds zeit s h

/-- What one call books: `DSUMM` rises by the mineral N of every application except the "S" one, `NFERTSIM` by the
mineral doses, `NFOS[0]` / `NAOS[0]` by the fast / slow organic N of the applications. -/
theorem C16_autofert_booked_amounts (i : In ℚ) (s : St ℚ) :
    (step i s).1.dsumm = s.dsumm + sumAmount (fun k => k != Kind.orgS) (step i s).2 ∧
    (step i s).1.nfertsim = s.nfertsim + sumAmount Kind.isMineral (step i s).2 ∧
    (step i s).1.nfos0 = s.nfos0 + sumFast (step i s).2 ∧
    (step i s).1.naos0 = s.naos0 + sumSlow (step i s).2 := by
  simp only [step, sumAmount, sumFast, sumSlow]
  generalize trigH i = fH
  generalize firesS i s = tS
  generalize sown i = g
  generalize fire1 i s.ndoy1 = t1
  generalize fireK i s.ndoy2 = t2
  generalize fireK i s.ndoy3 = t3
  generalize dose1 i s = n1
  generalize dose2 i s = n2
  generalize dose3 i s = n3
  refine ⟨?_, ?_, ?_, ?_⟩ <;> cases fH <;> cases g <;> cases tS <;> cases t1 <;> cases t2 <;> cases t3 <;>
    simp [addIf, opt, Kind.isMineral] <;> ring

/-- The "S" application puts the mineral part straight into `C1[0]`, clamped at 0: afterwards `C1[0] ≥ 0`, the
clamp can only add (`C1[0]' ≥ C1[0] + NDIR`), and it adds nothing when `C1[0] + NDIR ≥ 0`; without the "S"
application of the call `C1[0]` is untouched. -/
theorem C16_autofert_S_clamp (i : In ℚ) (s : St ℚ) :
    (flag .orgS i s = true → 0 ≤ (step i s).1.c10 ∧ s.c10 + i.cur.ndir ≤ (step i s).1.c10 ∧
      (0 ≤ s.c10 + i.cur.ndir → (step i s).1.c10 = s.c10 + i.cur.ndir)) ∧
    (flag .orgS i s = false → (step i s).1.c10 = s.c10) := by
  have hc : (step i s).1.c10 = c10S i (flag .orgS i s) s.c10 := rfl
  rw [hc]
  constructor
  · intro h
    rw [h]
    simp only [c10S, if_true]
    exact ⟨clamp0_nonneg _, clamp0_ge _, clamp0_of_nonneg _⟩
  · intro h
    rw [h]; simp [c10S]

/-! ### nothing before sowing -/

/-- Before the sowing day (or without a sown entry: `SAAT = 0`) the only thing a call can do is the organic
fertiliser of the PREVIOUS entry: no other application, and `NDOY1..3`, `ZTDG`, `C1[0]`, `NFERTSIM` untouched. -/
theorem C16_autofert_nothing_before_sowing (i : In ℚ) (s : St ℚ) (h : i.saat = 0 ∨ i.zeit < i.saat) :
    (∀ a ∈ (step i s).2, a.kind = Kind.orgH) ∧
    (step i s).1.ndoy1 = s.ndoy1 ∧ (step i s).1.ndoy2 = s.ndoy2 ∧ (step i s).1.ndoy3 = s.ndoy3 ∧
    (step i s).1.ztdg = s.ztdg ∧ (step i s).1.c10 = s.c10 ∧ (step i s).1.nfertsim = s.nfertsim := by
  have hg : sown i = false := by
    simp only [sown, Bool.and_eq_false_iff, decide_eq_false_iff_not]
    rcases h with h | h
    · left; omega
    · right; omega
  refine ⟨?_, ?_⟩
  · intro a ha
    have := mem_step_kind i s a ha
    cases hk : a.kind <;> simp [hk, flag, firesS, hg] at this ⊢
  · simp [step, hg, addIf, c10After, firesS, c10S]

/-! ### organic fertiliser of the previous entry ("H") -/

/-- The "H" application is made exactly when the previous entry has organic fertiliser with time code "H" and the
day is `ZTDG` of the previous entry; it carries that entry's amounts and fertiliser name. -/
theorem C16_autofert_orgH_on_ztdg_of_previous (i : In ℚ) (s : St ℚ) :
    ((∃ a ∈ (step i s).2, a.kind = Kind.orgH) ↔
      (1 ≤ i.akf ∧ i.prev.odu = true ∧ i.prev.orgtime = OrgTime.H ∧ i.zeit = i.ztdgPrev)) ∧
    (∀ a ∈ (step i s).2, a.kind = Kind.orgH →
      a.amount = i.prev.ndir ∧ a.fast = i.prev.nsas ∧ a.slow = i.prev.nlas ∧ a.name = i.prev.dgart) := by
  constructor
  · constructor
    · rintro ⟨a, ha, hk⟩
      have := mem_step_kind i s a ha
      rw [hk] at this
      simpa [flag, trigH, and_assoc] using this
    · intro h
      refine ⟨⟨Kind.orgH, i.prev.ndir, i.prev.nsas, i.prev.nlas, i.prev.dgart⟩, ?_, rfl⟩
      have ht : trigH i = true := by simp [trigH, h.1, h.2.1, h.2.2.1, h.2.2.2]
      simp [step, ht, opt]
  · intro a ha hk
    rcases mem_step_cases i s a ha with rfl | rfl | rfl | rfl | rfl <;> first | exact ⟨rfl, rfl, rfl, rfl⟩ | cases hk

/-- Over the days `zeit, zeit+1, …` of an entry whose predecessor has organic fertiliser with time code "H": the
application is made exactly once when `ZTDG` of the predecessor is one of the days, otherwise not at all. -/
theorem C16_autofert_orgH_exactly_once (ds : List (In ℚ)) (zeit z : Nat) (s : St ℚ)
    (h : ∀ d ∈ ds, 1 ≤ d.akf ∧ d.prev.odu = true ∧ d.prev.orgtime = OrgTime.H ∧ d.ztdgPrev = z) :
    fired .orgH (run zeit ds s).2 = if zeit ≤ z ∧ z < zeit + ds.length then 1 else 0 :=
  orgH_count ds zeit z s h

/-! ### at most once -/

/-- Dose 1 is applied at most once per rotation entry over any sequence of days, for every trigger kind
(sowing day, stage, day of the year), every stage history and all weather — given that `SAAT` of the entry does
not move once set.  In particular a dose fired at a stage (`NDOY1 := 0`) does not fire again "at sowing", and the
day-of-year dose (`NDOY1 := 370`) is applied once per entry, not once per year. -/
theorem C16_autofert_dose1_at_most_once (ds : List (In ℚ)) (zeit sa : Nat) (s : St ℚ) (h : Stable sa ds) :
    fired .min1 (run zeit ds s).2 ≤ 1 := dose1_once ds zeit sa s h

/-- `NDOY1 = 0`: dose 1 is applied on the sowing day only. -/
theorem C16_autofert_dose1_at_sowing_only (i : In ℚ) (s : St ℚ) (h0 : s.ndoy1 = 0)
    (a : App ℚ) (ha : a ∈ (step i s).2) (hk : a.kind = Kind.min1) : i.zeit = i.saat ∧ 0 < i.saat := by
  have := mem_step_kind i s a ha
  rw [hk] at this
  simp only [flag, sown, fire1, h0, Bool.and_eq_true, decide_eq_true_eq] at this
  exact ⟨by simpa using this.2, this.1.1⟩

/-- The hypothesis is needed: were `SAAT` rewritten to a later day after a stage-triggered dose 1, the dose would
be applied again on that day. -/
theorem C16_autofert_dose1_refires_if_sowing_day_moves :
    ∃ (ds : List (In ℚ)) (s : St ℚ), fired .min1 (run 100 ds s).2 = 2 := by
  let r : Row ℚ := ⟨false, .other, 0, 0, 0, 0, 0, 50, 0, 0⟩
  let d (saat intwick : Nat) : In ℚ := ⟨0, 120, intwick, 1, 1, saat, 0, r, r, [], 0, 0, 0, 0, 0, 0, 0, 0⟩
  refine ⟨[d 90 2, d 101 2], ⟨2, 0, 0, 0, 0, 0, 0, 0, 0, 0, 0, 0, 0, 0⟩, ?_⟩
  simp only [fired_run_cons, fired_run_nil]
  decide

/-- A stage-triggered dose 2 or 3 (`NDOYk < 10`) is applied at most once per rotation entry over any sequence of
days, provided the crop has a development stage on every day on which the entry is sown (`HasStage`: what
`PhytoOut` establishes on the sowing day for every entry it is called for). -/
theorem C16_autofert_stage_dose_at_most_once_partial (ds : List (In ℚ)) (zeit : Nat) (s : St ℚ)
    (hi : HasStage zeit ds) :
    (s.ndoy2 < 10 → fired .min2 (run zeit ds s).2 ≤ 1) ∧ (s.ndoy3 < 10 → fired .min3 (run zeit ds s).2 ≤ 1) :=
  ⟨fun h => doseK_stage_once doseK2 ds zeit s h hi, fun h => doseK_stage_once doseK3 ds zeit s h hi⟩

/-- Without that: after firing the code re-arms with `NDOYk := 0`, which equals the stage number 0 of "no crop";
a sown entry whose stage stays 0 gets the dose on every day.  In whole runs only the reader's placeholder entry
behind the last rotation entry reaches that state (force-sown at the end of its window, no latest harvest date, never
handed to `PhytoOut`; its `NDEMk` are 0, so the doses are 0 kg N/ha): no rotation entry does. -/
theorem C16_autofert_stage_dose_at_most_once_fails_at :
    ∃ (ds : List (In ℚ)) (s : St ℚ), s.ndoy2 < 10 ∧ fired .min2 (run 100 ds s).2 = 3 := by
  let r : Row ℚ := ⟨false, .other, 0, 0, 0, 0, 0, 0, 0, 0⟩
  let d : In ℚ := ⟨0, 120, 0, 0, 1, 100, 0, r, r, [], 0, 0, 0, 0, 0, 0, 0, 0⟩
  refine ⟨[d, d, d], ⟨0, 0, 0, 0, 0, 0, 0, 0, 0, 0, 0, 0, 0, 0⟩, by decide, ?_⟩
  simp only [fired_run_cons, fired_run_nil]
  decide

/-- A day-of-year dose 2 or 3 (`NDOYk ≥ 10`) is applied at most once in a calendar year (it is not re-armed: an
entry standing over two years gets it in each). -/
theorem C16_autofert_doy_dose_once_per_year (ds : List (In ℚ)) (zeit t : Nat) (s : St ℚ) (ht : TagsAscend t ds) :
    (10 ≤ s.ndoy2 → fired .min2 (run zeit ds s).2 ≤ 1) ∧ (10 ≤ s.ndoy3 → fired .min3 (run zeit ds s).2 ≤ 1) :=
  ⟨fun h => doseK_doy_once doseK2 ds zeit t s h ht, fun h => doseK_doy_once doseK3 ds zeit t s h ht⟩

/-- … and exactly on the configured day of the year, from the sowing day on. -/
theorem C16_autofert_doy_dose_on_its_day (i : In ℚ) (s : St ℚ) (a : App ℚ) (ha : a ∈ (step i s).2) :
    (a.kind = Kind.min2 → 10 ≤ s.ndoy2 → i.tag = s.ndoy2 ∧ 0 < i.saat ∧ i.saat ≤ i.zeit) ∧
    (a.kind = Kind.min3 → 10 ≤ s.ndoy3 → i.tag = s.ndoy3 ∧ 0 < i.saat ∧ i.saat ≤ i.zeit) := by
  have := mem_step_kind i s a ha
  constructor <;> intro hk h10 <;> rw [hk] at this <;>
    simp only [flag, sown, fireK, Bool.and_eq_true, decide_eq_true_eq] at this
  · have h : ¬ s.ndoy2 < 10 := by omega
    simp only [h, if_false, decide_eq_true_eq] at this
    exact ⟨this.2, this.1.1, this.1.2⟩
  · have h : ¬ s.ndoy3 < 10 := by omega
    simp only [h, if_false, decide_eq_true_eq] at this
    exact ⟨this.2, this.1.1, this.1.2⟩

/-! ### organic fertiliser at sowing ("S") -/

/-- The "S" application of a rotation entry is made at most once. -/
theorem C16_autofert_orgS_at_most_once (ds : List (In ℚ)) (zeit sa : Nat) (s : St ℚ) (h : Stable sa ds) :
    fired .orgS (run zeit ds s).2 ≤ 1 := orgS_once ds zeit sa s h

/-- It is made for an entry with organic fertiliser and time code "S" only, from the sowing day on, on the day
`ZTDG` of the entry; on the sowing day `ZTDG` is set to sowing day + ORGDOY first. -/
theorem C16_autofert_orgS_day (i : In ℚ) (s : St ℚ) (h : flag .orgS i s = true) :
    i.cur.odu = true ∧ i.cur.orgtime = OrgTime.S ∧ i.zeit = (step i s).1.ztdg ∧
    (i.zeit = i.saat → (step i s).1.ztdg = i.saat + i.cur.orgdoy) := by
  simp only [flag, firesS, trigS, condS, Bool.and_eq_true, decide_eq_true_eq] at h
  obtain ⟨hg, ⟨ho, hp⟩, hz⟩ := h
  refine ⟨ho, hp, ?_, ?_⟩
  · rw [step_ztdg, hg]; simpa using hz
  · intro he
    rw [step_ztdg, hg]
    simp [ztdgS, condS, ho, hp, he]

/-- The time code that decides is the one of the entry being sown (nitro.go:92 after the fix): the "S" application
is made exactly for an entry with organic fertiliser and time code "S", sown, on its day — whatever the previous
entry carries. -/
theorem C16_autofert_orgS_time_code (i : In ℚ) (s : St ℚ) :
    flag .orgS i s = true ↔
      (i.cur.odu = true ∧ i.cur.orgtime = OrgTime.S ∧ 0 < i.saat ∧ i.saat ≤ i.zeit ∧ i.zeit = ztdgS i s.ztdg) := by
  simp only [flag, firesS, sown, trigS, condS, Bool.and_eq_true, decide_eq_true_eq]
  constructor
  · rintro ⟨⟨a, b⟩, ⟨c, d⟩, e⟩; exact ⟨c, d, a, b, e⟩
  · rintro ⟨c, d, a, b, e⟩; exact ⟨⟨a, b⟩, ⟨c, d⟩, e⟩

/-- An entry whose time code is not "S" (after harvest, or no organic fertiliser) never gets the application at
sowing, over any days: the fertiliser of an "H" entry is applied once, by the "H" branch of the next entry. -/
theorem C16_autofert_orgS_only_for_code_S (ds : List (In ℚ)) (zeit : Nat) (s : St ℚ)
    (h : ∀ d ∈ ds, d.cur.orgtime ≠ OrgTime.S) : fired .orgS (run zeit ds s).2 = 0 := orgS_never ds zeit s h

/-- Exactly once: an entry with organic fertiliser and time code "S", sown on the first day of the list, gets the
application exactly once when the list reaches sowing day + ORGDOY — whatever time code the previous entry has. -/
theorem C16_autofert_orgS_exactly_once (d : In ℚ) (ds : List (In ℚ)) (zeit : Nat) (s : St ℚ)
    (ho : d.cur.odu = true) (hc : d.cur.orgtime = OrgTime.S) (hs : d.saat = zeit) (hz : 0 < zeit)
    (hst : Stable 0 (d :: ds)) (hsame : ∀ x ∈ ds, x.cur = d.cur) (hlen : d.cur.orgdoy ≤ ds.length) :
    fired .orgS (run zeit (d :: ds) s).2 = 1 :=
  orgS_exactly_once d ds zeit s ho hc hs hz hst hsame hlen

/-! regression examples on the inputs that were counter-witnesses before the fix of nitro.go:92 -/

/-- formerly `C16_autofert_orgS_lost_fails_at`: entry with code "S" behind an entry without organic fertiliser — the
application is made, once, five days after sowing -/
example :
    let cur : Row ℚ := ⟨true, .S, 5, 20, 30, 10, 1, 100, 0, 0⟩
    let prev : Row ℚ := ⟨false, .other, 0, 0, 0, 0, 0, 0, 0, 0⟩
    let d : In ℚ := ⟨0, 120, 1, 1, 1, 200, 0, cur, prev, [], 0, 0, 0, 0, 0, 0, 0, 0⟩
    fired .orgS (run 200 [d, d, d, d, d, d, d] ⟨400, 400, 400, 0, 0, 0, 0, 0, 0, 0, 0, 0, 0, 0⟩).2 = 1 := by
  simp only [fired_run_cons, fired_run_nil]
  decide

/-- formerly `C16_autofert_orgH_doubled_fails_at`: entry with code "H" behind an entry with code "S" — no application
at sowing -/
example :
    let cur : Row ℚ := ⟨true, .H, 0, 20, 30, 10, 1, 100, 0, 0⟩
    let prev : Row ℚ := ⟨true, .S, 0, 0, 0, 0, 2, 0, 0, 0⟩
    let i : In ℚ := ⟨200, 120, 1, 1, 2, 200, 0, cur, prev, [], 0, 0, 0, 0, 0, 0, 0, 0⟩
    flag .orgS i ⟨0, 0, 0, 0, 0, 0, 0, 0, 0, 0, 0, 0, 0, 0⟩ = false := by
  decide

/-! ### the reader -/

/-- For a rotation entry behind the pre-crop the amounts are the split of FERTILIZ.TXT applied to the amount column:
none of them negative and together the total N of the fertiliser, for table fractions in [0, 1] with
`Nfst + Nslo = 1`. -/
theorem C16_autofert_reader_amounts (dgmg : ℚ) (t : Schedule.FertRow ℚ) (resid : ℚ × ℚ × ℚ)
    (hq : 0 ≤ dgmg) (hn : 0 ≤ t.ntot) (hd : 0 ≤ t.ndir ∧ t.ndir ≤ 1) (hf : 0 ≤ t.nfst) (hs : 0 ≤ t.nslo)
    (h4 : 0 ≤ t.nh4 ∧ t.nh4 ≤ 1) (hl : 0 ≤ t.loss ∧ t.loss ≤ 1) :
    let r := orgAmounts false true dgmg (some t) resid
    0 ≤ r.1 ∧ 0 ≤ r.2.1 ∧ 0 ≤ r.2.2 ∧ (t.nfst + t.nslo = 1 → r.1 + r.2.1 + r.2.2 ≤ dgmg * t.ntot) := by
  simp only [orgAmounts, Schedule.dueng, mul_one]
  have hN : 0 ≤ dgmg * t.ntot := mul_nonneg hq hn
  have hD : 0 ≤ dgmg * t.ntot * t.ndir := mul_nonneg hN hd.1
  have hD1 : dgmg * t.ntot * t.ndir ≤ dgmg * t.ntot := by nlinarith
  have hx : 0 ≤ t.nh4 * t.loss := mul_nonneg h4.1 hl.1
  have hx1 : t.nh4 * t.loss ≤ 1 := by nlinarith
  have hnd : 0 ≤ dgmg * t.ntot * t.ndir - dgmg * t.ntot * t.ndir * t.nh4 * t.loss := by nlinarith
  have hnd1 : dgmg * t.ntot * t.ndir - dgmg * t.ntot * t.ndir * t.nh4 * t.loss ≤ dgmg * t.ntot := by nlinarith
  refine ⟨mul_nonneg (by linarith) hf, mul_nonneg (by linarith) hs, hnd, ?_⟩
  intro h1
  nlinarith

/-- Known finding, kept: the pre-crop (first entry of the field) — the reader calls `dueng` with the one-based index
(input.go:562) and `residi` (input.go:701) then fills the cells with the harvest residues: the organic fertiliser
configured for the pre-crop never reaches the amounts; the "H" application of the first crop applies the residues
under the fertiliser's name. -/
theorem C16_autofert_reader_precrop_fails_at :
    ∃ (dgmg : ℚ) (t : Schedule.FertRow ℚ) (resid : ℚ × ℚ × ℚ),
      orgAmounts true true dgmg (some t) resid ≠ orgAmounts false true dgmg (some t) resid := by
  refine ⟨200, ⟨6 / 10, 15 / 100, 2 / 10, 8 / 10, 1, 4 / 10⟩, (5, 17, 0), ?_⟩
  simp only [orgAmounts, Schedule.dueng]
  norm_num

/-! ### non-vacuity -/
example : ndoyOfField "S3 ".toList = some 3 ∧ ndoyOfField "S0 ".toList = some 0 ∧ ndoyOfField "59 ".toList = some 59 ∧
    ndoyOfField "060".toList = some 60 ∧ ndoyOfField "0  ".toList = some 0 ∧ ndoyOfField "   ".toList = none := by decide
example : orgTimeOfRow true 'H' = .H ∧ orgTimeOfRow true 'S' = .S ∧ orgTimeOfRow false 'H' = .other := by decide
example : autoN (120 : ℚ) (nminTop 3 10 [20, 15, 99]) = 75 := by norm_num [autoN, Rotation.fmax, nminTop, sumFrom]
/-- `Stable`, `TagsAscend` and "the crop has a stage" are satisfiable by a non-trivial list of days: unsown, then
sown on day 101 -/
example : ∃ ds : List (In ℚ), ds.length = 3 ∧ Stable 0 ds ∧ TagsAscend 120 ds ∧ (∀ d ∈ ds, d.intwick ≠ 0) := by
  let r : Row ℚ := ⟨false, .other, 0, 0, 0, 0, 0, 50, 0, 0⟩
  let d (saat tag : Nat) : In ℚ := ⟨0, tag, 1, 1, 1, saat, 0, r, r, [], 0, 0, 0, 0, 0, 0, 0, 0⟩
  refine ⟨[d 0 120, d 101 121, d 101 122], rfl, ?_, ?_, ?_⟩
  · simp [Stable, d]
  · simp [TagsAscend, d]
  · intro x hx; simp at hx; rcases hx with rfl | rfl | rfl <;> simp [d]
example : HasStage 100 ([⟨0, 120, 0, 0, 1, 0, 0, ⟨false, .other, 0, 0, 0, 0, 0, 0, 0, 0⟩, ⟨false, .other, 0, 0, 0, 0, 0, 0, 0, 0⟩, [], 0, 0, 0, 0, 0, 0, 0, 0⟩,
    ⟨0, 121, 1, 1, 1, 101, 0, ⟨false, .other, 0, 0, 0, 0, 0, 0, 0, 0⟩, ⟨false, .other, 0, 0, 0, 0, 0, 0, 0, 0⟩, [], 0, 0, 0, 0, 0, 0, 0, 0⟩] : List (In ℚ)) := by
  simp [HasStage]

end Hermes.AutoFert
