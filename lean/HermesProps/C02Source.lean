/-
C02 — soil mineral-N balance: the denitrification step, theorems about the SOURCE.

`HermesModel/Generated/ImpDenitr.lean` is the Lean translation of the current Go source of `hermes.Denitr` (hermes/denit.go:6-84),
regenerated on every run (translator v2, DESIGN §4.3) and validated against the compiled function by the `srcimp.Denitr`
correspondence.  `HermesProofs/ImpDenitr.lean` proves that it refines the model `Mineral.denitr` for every state and every
behaviour of the `math` functions; the theorems below restate the removal law of C02 about the translated source.
-/
import HermesProofs.ImpDenitr
import HermesProps.C02

namespace Hermes.Props.C02Source
open Hermes.Imp Hermes.Mineral Hermes.ImpDenitr
open Hermes.Generated.Imp.Denitr (St)

/-- **The source refines the model**: `C1[0..2]` and `CUMDENIT` after `Denitr` are the model's, nitrate below 30 cm is untouched. -/
theorem C02_source_denitr_refines_model (m : MathFns ℚ) (s : St ℚ) (h3 : 3 ≤ s.g_C1.length) :
    [rd (Generated.Imp.Denitr.run m s).g_C1 0, rd (Generated.Imp.Denitr.run m s).g_C1 1, rd (Generated.Imp.Denitr.run m s).g_C1 2]
        = (denitr (rd s.g_C1 0) (rd s.g_C1 1) (rd s.g_C1 2) (fthetaOf m s) (ftempOf m s) s.g_CUMDENIT).c ∧
      (Generated.Imp.Denitr.run m s).g_CUMDENIT
        = (denitr (rd s.g_C1 0) (rd s.g_C1 1) (rd s.g_C1 2) (fthetaOf m s) (ftempOf m s) s.g_CUMDENIT).cumdenit ∧
      (∀ j : Nat, 3 ≤ j → rd (Generated.Imp.Denitr.run m s).g_C1 (j : Int) = rd s.g_C1 (j : Int)) ∧
      (Generated.Imp.Denitr.run m s).g_C1.length = s.g_C1.length :=
  denitr_refines m s h3

/-- the moisture and temperature factors of the source lie in [0, 1] when `exp` maps non-positive numbers into (0, 1] and
`pow` of a non-negative base is non-negative (true of Go's `math.Exp`, `math.Pow`) and the relative water content is ≥ 0 -/
theorem factors_unit (m : MathFns ℚ) (s : St ℚ)
    (hexp : ∀ x : ℚ, x ≤ 0 → 0 ≤ m.exp x ∧ m.exp x ≤ 1) (hpow : ∀ x y : ℚ, 0 ≤ x → 0 ≤ m.pow x y)
    (hrel : 0 ≤ thetarelOf s) :
    0 ≤ fthetaOf m s ∧ fthetaOf m s ≤ 1 ∧ 0 ≤ ftempOf m s ∧ ftempOf m s ≤ 1 := by
  have ht : 0 ≤ tempOf s := by
    unfold tempOf; split
    · exact le_refl _
    · linarith
  have h1 := hexp ((-1) * m.pow (thetarelOf s / 0.766) 6)
    (by have := hpow (thetarelOf s / 0.766) 6 (div_nonneg hrel (by norm_num)); linarith)
  have h2 := hexp ((-1) * m.pow (tempOf s / 15.5) 4.6)
    (by have := hpow (tempOf s / 15.5) 4.6 (div_nonneg ht (by norm_num)); linarith)
  unfold fthetaOf ftempOf
  exact ⟨by linarith [h1.2], by linarith [h1.1], by linarith [h2.2], by linarith [h2.1]⟩

/-- **Denitrification in the source removes exactly what it books, never more than is present**: for non-negative nitrate in the
three top layers the top-30-cm nitrate after the call equals the nitrate before minus ΔCUMDENIT, and CUMDENIT does not
decrease — for every state and every `exp`/`pow` with the two sign properties above. -/
theorem C02_source_denitr_removes_exactly (m : MathFns ℚ) (s : St ℚ) (h3 : 3 ≤ s.g_C1.length)
    (h0 : 0 ≤ rd s.g_C1 0) (h1 : 0 ≤ rd s.g_C1 1) (h2 : 0 ≤ rd s.g_C1 2)
    (hexp : ∀ x : ℚ, x ≤ 0 → 0 ≤ m.exp x ∧ m.exp x ≤ 1) (hpow : ∀ x y : ℚ, 0 ≤ x → 0 ≤ m.pow x y)
    (hrel : 0 ≤ thetarelOf s) :
    rd (Generated.Imp.Denitr.run m s).g_C1 0 + rd (Generated.Imp.Denitr.run m s).g_C1 1 + rd (Generated.Imp.Denitr.run m s).g_C1 2
        = rd s.g_C1 0 + rd s.g_C1 1 + rd s.g_C1 2 - ((Generated.Imp.Denitr.run m s).g_CUMDENIT - s.g_CUMDENIT) ∧
      s.g_CUMDENIT ≤ (Generated.Imp.Denitr.run m s).g_CUMDENIT := by
  obtain ⟨hc, hcum, _, _⟩ := denitr_refines m s h3
  obtain ⟨f1, f2, f3, f4⟩ := factors_unit m s hexp hpow hrel
  obtain ⟨hs, hle⟩ := Hermes.Nitro.C02_denit_removes_exactly (rd s.g_C1 0) (rd s.g_C1 1) (rd s.g_C1 2)
    (fthetaOf m s) (ftempOf m s) s.g_CUMDENIT h0 h1 h2 f1 f2 f3 f4
  rw [← hc, ← hcum] at hs
  rw [← hcum] at hle
  refine ⟨?_, hle⟩
  simpa [add_assoc] using hs

theorem denitLayer_nonneg (c frac d : ℚ) (hc : 0 ≤ c) : 0 ≤ denitLayer c frac d := by
  unfold denitLayer Nitro.clamp0
  split
  · split
    · exact le_refl _
    · linarith
  · exact hc

/-- **C07, nitrate stays non-negative through denitrification, for the source**: for every state with non-negative nitrate in the
three top layers, whatever the rate (any `exp`/`pow`), the nitrate the translated `Denitr` leaves in those layers is ≥ 0. -/
theorem C07_source_denitr_nonneg (m : MathFns ℚ) (s : St ℚ) (h3 : 3 ≤ s.g_C1.length)
    (h0 : 0 ≤ rd s.g_C1 0) (h1 : 0 ≤ rd s.g_C1 1) (h2 : 0 ≤ rd s.g_C1 2) :
    0 ≤ rd (Generated.Imp.Denitr.run m s).g_C1 0 ∧ 0 ≤ rd (Generated.Imp.Denitr.run m s).g_C1 1 ∧
      0 ≤ rd (Generated.Imp.Denitr.run m s).g_C1 2 := by
  obtain ⟨hc, _, _, _⟩ := denitr_refines m s h3
  unfold denitr at hc
  by_cases hn : 0 < rd s.g_C1 0 + rd s.g_C1 1 + rd s.g_C1 2
  · simp only [hn, if_true, List.cons.injEq, and_true] at hc
    obtain ⟨e0, e1, e2⟩ := hc
    rw [e0, e1, e2]
    exact ⟨denitLayer_nonneg _ _ _ h0, denitLayer_nonneg _ _ _ h1, denitLayer_nonneg _ _ _ h2⟩
  · simp only [hn, if_false, List.cons.injEq, and_true] at hc
    obtain ⟨e0, e1, e2⟩ := hc
    rw [e0, e1, e2]
    exact ⟨h0, h1, h2⟩

/-- non-vacuity: a concrete state -/
def demoState : St ℚ :=
  { p_thetasatFromPorges := true, g_WG_1 := [0.3, 0.3, 0.3], v_thetasat := 0, g_PORGES := [0.4, 0.4, 0.4], g_C1 := [10, 5, 2, 7],
    v_layerFraction := [], v_tempOb30 := 0, g_TSOIL_0 := [12, 11, 10, 9], v_DENIT := 0, v_FN := 0, g_N2OdenDaily := 0,
    g_N2Odencum := 0, g_CUMDENIT := 3 }

example : 3 ≤ demoState.g_C1.length ∧ 0 ≤ rd demoState.g_C1 0 ∧ 0 ≤ thetarelOf demoState := by
  refine ⟨by simp [demoState], by simp [demoState, rd], ?_⟩
  simp [thetarelOf, thetasatOf, demoState, rd]
  norm_num

end Hermes.Props.C02Source
