package vh

import (
	"bytes"
	"fmt"
	"os"
	"os/exec"
	"path/filepath"
	"strings"
	"sync"
	"time"
)

// BuildTool builds one of the command-line tools of /repo/src (workspace mode, tag verif) into the
// scratch directory and returns the path of the binary.
func (c *Ctx) BuildTool(name string, extra ...string) (string, error) {
	out := filepath.Join(c.Scratch, name)
	if len(extra) > 0 {
		out += "-" + strings.Join(extra, "")
		out = strings.ReplaceAll(out, "-race", "race")
	}
	args := append([]string{"build", "-tags", "verif"}, extra...)
	args = append(args, "-o", out, ".")
	cmd := exec.Command("go", args...)
	cmd.Dir = filepath.Join(c.Repo, "src", name)
	env := []string{}
	for _, e := range os.Environ() {
		if strings.HasPrefix(e, "GOFLAGS=") || strings.HasPrefix(e, "GOWORK=") {
			continue
		}
		env = append(env, e)
	}
	env = append(env, "GOPROXY=off", "GOSUMDB=off", "GOTOOLCHAIN=local")
	cmd.Env = env
	var buf bytes.Buffer
	cmd.Stdout = &buf
	cmd.Stderr = &buf
	if err := cmd.Run(); err != nil {
		return "", fmt.Errorf("go build %s failed: %v\n%s", name, err, buf.String())
	}
	return out, nil
}

// RunTool runs a binary with a timeout; returns stdout, stderr, exit error.
func RunTool(timeout time.Duration, dir, bin string, args ...string) (string, string, error) {
	cmd := exec.Command(bin, args...)
	cmd.Dir = dir
	var so, se bytes.Buffer
	cmd.Stdout = &so
	cmd.Stderr = &se
	if err := cmd.Start(); err != nil {
		return "", "", err
	}
	done := make(chan error, 1)
	go func() { done <- cmd.Wait() }()
	select {
	case err := <-done:
		return so.String(), se.String(), err
	case <-time.After(timeout):
		cmd.Process.Kill()
		<-done
		return so.String(), se.String(), fmt.Errorf("timeout after %v", timeout)
	}
}

// Parallel runs f(i) for i in [0,n) on `workers` goroutines.
func Parallel(n, workers int, f func(i int)) {
	var wg sync.WaitGroup
	ch := make(chan int)
	for w := 0; w < workers; w++ {
		wg.Add(1)
		go func() {
			defer wg.Done()
			for i := range ch {
				f(i)
			}
		}()
	}
	for i := 0; i < n; i++ {
		ch <- i
	}
	close(ch)
	wg.Wait()
}
