/-
`#audit_prefix "C12_"` prints, for every theorem whose last name component starts with the
prefix, one line `AUDIT <name> [axioms…]`.  bin/run_check.py counts these lines (obligations) and
checks that only propext / Classical.choice / Quot.sound occur.
-/
import Lean
open Lean Elab Command

elab "#audit_prefix " s:str : command => do
  let env ← getEnv
  let pre := s.getString
  let mut names : Array Name := #[]
  for (n, ci) in env.constants.toList do
    match n with
    | .str _ last =>
      if last.startsWith pre then
        match ci with
        | .thmInfo _ => names := names.push n
        | _ => pure ()
    | _ => pure ()
  let sorted := names.qsort (fun a b => a.toString < b.toString)
  for n in sorted do
    let axs ← Lean.collectAxioms n
    let axs := axs.qsort (fun a b => a.toString < b.toString)
    -- one unbroken line per theorem (a MessageData list would be wrapped for long names)
    logInfo (s!"AUDIT {n} [{", ".intercalate (axs.toList.map (fun a => a.toString))}]")
