import HermesModel.Proto
import HermesModel.AutoFert
open Hermes Hermes.Proto

namespace Hermes.Driver
open Hermes.AutoFert

def popNatsAF : Nat → Toks → Option (List Nat × Toks)
  | 0, r => some ([], r)
  | n + 1, r => do
    let (x, r) ← popNat r
    let (xs, r) ← popNatsAF n r
    pure (x :: xs, r)

def orgTimeOfNatAF : Nat → OrgTime
  | 1 => .H
  | 2 => .S
  | _ => .other

def natOfOrgTimeAF : OrgTime → Nat
  | .other => 0
  | .H => 1
  | .S => 2

def natOfKindAF : Kind → Nat
  | .orgH => 0
  | .orgS => 1
  | .min1 => 2
  | .min2 => 3
  | .min3 => 4

/-- row: nats `odu orgtime orgdoy dgart`, floats `nsas nlas ndir ndem1 ndem2 ndem3` -/
def mkRowAF (ns : List Nat) (fs : List Float) : Option (Row Float) :=
  match ns, fs with
  | [odu, ot, od, dg], [nsas, nlas, ndir, d1, d2, d3] =>
    some { odu := odu == 1, orgtime := orgTimeOfNatAF ot, orgdoy := od, nsas, nlas, ndir, dgart := dg,
           ndem1 := d1, ndem2 := d2, ndem3 := d3 }
  | _, _ => none

/-- state: nats `ndoy1 ndoy2 ndoy3 ztdg dungart`, floats `nfos0 naos0 c10 dsumm nfertsim domeng1 dmeng1 dmeng2 dmeng3` -/
def mkStAF (ns : List Nat) (fs : List Float) : Option (St Float) :=
  match ns, fs with
  | [n1, n2, n3, z, dg], [nfos0, naos0, c10, dsumm, nfertsim, domeng1, dmeng1, dmeng2, dmeng3] =>
    some { ndoy1 := n1, ndoy2 := n2, ndoy3 := n3, ztdg := z, nfos0, naos0, c10, dsumm, nfertsim,
           dungart := dg, domeng1, dmeng1, dmeng2, dmeng3 }
  | _, _ => none

def fmtStAF (s : St Float) : String :=
  s!"{s.ndoy1} {s.ndoy2} {s.ndoy3} {s.ztdg} {s.dungart} " ++
  fmtFloats [s.nfos0, s.naos0, s.c10, s.dsumm, s.nfertsim, s.domeng1, s.dmeng1, s.dmeng2, s.dmeng3]

/-- what a call shows of its applications: did an organic application happen (`ln.DODAT` written), which of the
mineral doses (`ln.DDATk` written), and the management events (fertiliser name id, `Ndirect`) in order -/
def isOrgAF (k : Kind) : Bool := k == Kind.orgH || k == Kind.orgS

def b01AF (b : Bool) : Nat := if b then 1 else 0

def fmtFlagsAF (apps : List (App Float)) : String :=
  s!"{b01AF (apps.any fun a => isOrgAF a.kind)} {b01AF (apps.any fun a => a.kind == Kind.min1)} " ++
  s!"{b01AF (apps.any fun a => a.kind == Kind.min2)} {b01AF (apps.any fun a => a.kind == Kind.min3)}"

def fmtEventAF (a : App Float) : String := s!"{a.name} {fmtFloat a.amount}"

def fmtEventsAF (apps : List (App Float)) : String :=
  let evs := apps.filter fun a => a.kind.hasEvent
  s!"{evs.length}" ++ String.join (evs.map fun a => " " ++ fmtEventAF a)

/-- day: nats `tag intwick wurz saat`, floats `n C1[1..n]`, `t0 t1 t2 t3 t4 rain0 rain1 rainNext` -/
def popDayAF (zeit akf ztdgPrev : Nat) (cur prev : Row Float) (r : Toks) : Option (In Float × Toks) := do
  let (ns, r) ← popNatsAF 4 r
  let (rest, r) ← popFloatList r
  let (w, r) ← popFloats 8 r
  match ns, w with
  | [tag, intwick, wurz, saat], [t0, t1, t2, t3, t4, rain0, rain1, rainNext] =>
    pure ({ zeit, tag, intwick, wurz, akf, saat, ztdgPrev, cur, prev, c1rest := rest,
            t0, t1, t2, t3, t4, rain0, rain1, rainNext }, r)
  | _, _ => none

/-- entry: nats `akf ztdgPrev` + cur row nats + prev row nats, floats cur row + prev row -/
def popEntryAF (r : Toks) : Option ((Nat × Nat × Row Float × Row Float) × Toks) := do
  let (e, r) ← popNatsAF 2 r
  let (cn, r) ← popNatsAF 4 r
  let (pn, r) ← popNatsAF 4 r
  let (cf, r) ← popFloats 6 r
  let (pf, r) ← popFloats 6 r
  let cur ← mkRowAF cn cf
  let prev ← mkRowAF pn pf
  match e with
  | [akf, ztdgPrev] => pure ((akf, ztdgPrev, cur, prev), r)
  | _ => none

def popStateAF (r : Toks) : Option (St Float × Toks) := do
  let (sn, r) ← popNatsAF 5 r
  let (sf, r) ← popFloats 9 r
  let s ← mkStAF sn sf
  pure (s, r)

/-- `autofert.step zeit entry state day` → `ok state orgAny min1 min2 min3 nEvents (name amount)*` -/
def afStep (toks : Toks) : Option String := do
  let (zeit, r) ← popNat toks
  let ((akf, ztdgPrev, cur, prev), r) ← popEntryAF r
  let (s, r) ← popStateAF r
  let (i, _) ← popDayAF zeit akf ztdgPrev cur prev r
  let (s', apps) := step i s
  some (s!"ok {fmtStAF s'} {fmtFlagsAF apps} {fmtEventsAF apps}")

def popDaysAF (akf ztdgPrev : Nat) (cur prev : Row Float) : Nat → Toks → Option (List (In Float) × Toks)
  | 0, r => some ([], r)
  | n + 1, r => do
    let (d, r) ← popDayAF 0 akf ztdgPrev cur prev r
    let (ds, r) ← popDaysAF akf ztdgPrev cur prev n r
    pure (d :: ds, r)

/-- applications of a run grouped by day (days without application dropped) -/
def groupDaysAF : List (Nat × App Float) → List (Nat × List (App Float))
  | [] => []
  | (z, a) :: r =>
    match groupDaysAF r with
    | (z', as) :: g => if z = z' then (z, a :: as) :: g else (z, [a]) :: (z', as) :: g
    | [] => [(z, [a])]

/-- `autofert.run zeit0 entry state n day*n` → `state nEvents (zeit name amount)* nDays (zeit orgAny min1 min2 min3)*
fired[orgH orgS min1 min2 min3]` -/
def afRun (toks : Toks) : Option String := do
  let (zeit, r) ← popNat toks
  let ((akf, ztdgPrev, cur, prev), r) ← popEntryAF r
  let (s, r) ← popStateAF r
  let (n, r) ← popNat r
  let (ds, _) ← popDaysAF akf ztdgPrev cur prev n r
  let (s', out) := run zeit ds s
  let cnt := [Kind.orgH, Kind.orgS, Kind.min1, Kind.min2, Kind.min3].map fun k => toString (fired k out)
  let evs := out.filter fun x => x.2.kind.hasEvent
  let days := groupDaysAF out
  some (s!"{fmtStAF s'} {evs.length}" ++ String.join (evs.map fun x => s!" {x.1} " ++ fmtEventAF x.2) ++
    s!" {days.length}" ++ String.join (days.map fun d => s!" {d.1} " ++ fmtFlagsAF d.2) ++ " " ++ " ".intercalate cnt)

def popCharsAF (n : Nat) (r : Toks) : Option (List Char × Toks) := do
  let (xs, r) ← popNatsAF n r
  pure (xs.map Char.ofNat, r)

def fmtOptNatAF : Option Nat → String
  | some n => toString n
  | none => "none"

/-- `autofert.row first odu c*3 c*3 c*3 orgtimeChar hasRow dgmg ntot ndir nfst nslo nh4 loss residNsas residNlas residNdir` →
`ndoy1 ndoy2 ndoy3 orgtime nsas nlas ndir` -/
def afRow (toks : Toks) : Option String := do
  let (fo, r) ← popNatsAF 2 toks
  let (f1, r) ← popCharsAF 3 r
  let (f2, r) ← popCharsAF 3 r
  let (f3, r) ← popCharsAF 3 r
  let (oc, r) ← popNat r
  let (hasRow, r) ← popNat r
  let (fs, _) ← popFloats 10 r
  match fo, fs with
  | [first, odu], [dgmg, ntot, ndir, nfst, nslo, nh4, loss, r1, r2, r3] =>
    let t : Option (Schedule.FertRow Float) := if hasRow == 1 then some { ntot, ndir, nfst, nslo, nh4, loss } else none
    let (a, b, c) := orgAmounts (first == 1) (odu == 1) dgmg t (r1, r2, r3)
    some (s!"{fmtOptNatAF (ndoyOfField f1)} {fmtOptNatAF (ndoyOfField f2)} {fmtOptNatAF (ndoyOfField f3)} " ++
      s!"{natOfOrgTimeAF (orgTimeOfRow (odu == 1) (Char.ofNat oc))} " ++ fmtFloats [a, b, c])
  | _, _ => none

def autofertOps (toks : List String) : String :=
  match toks with
  | "autofert.step" :: rest => (afStep rest).getD "bad-op"
  | "autofert.run" :: rest => (afRun rest).getD "bad-op"
  | "autofert.row" :: rest => (afRow rest).getD "bad-op"
  | _ => "bad-op"

end Hermes.Driver
