/-
Helper lemmas for the calendar model (used by HermesProps/C12.lean, C04, C05, C20).
Core Lean only.
-/
import HermesModel.Calendar
namespace Hermes.Calendar

/-- representative year offsets: 4 (leap) and 1 (non-leap) -/
def rep (yr : Nat) : Nat := if yr % 4 = 0 then 4 else 1

theorem monthOffset_rep (yr mon : Nat) : monthOffset yr mon = monthOffset (rep yr) mon := by
  unfold monthOffset rep; by_cases h : yr % 4 = 0 <;> simp [h]
theorem daysInMonth_rep (yr mon : Nat) : daysInMonth yr mon = daysInMonth (rep yr) mon := by
  unfold daysInMonth rep; by_cases h : yr % 4 = 0 <;> simp [h]

def searchOk (y mon tg : Nat) : Bool :=
  let d := monthOffset y mon + tg
  monthSearch d (korr (y - 1) d) mtEnd 1 0 == some (mon, if mon > 1 then monthOffset y mon else 0)

def tableOk : Bool :=
  [1, 4].all fun y => (List.range 13).all fun mon => (List.range 32).all fun tg =>
    !(1 ≤ mon && 1 ≤ tg && tg ≤ daysInMonth y mon) || searchOk y mon tg

theorem tableOk_true : tableOk = true := by decide

theorem search_spec (y mon tg : Nat) (hy : y = 1 ∨ y = 4) (hm1 : 1 ≤ mon) (hm2 : mon ≤ 12)
    (ht1 : 1 ≤ tg) (ht2 : tg ≤ daysInMonth y mon) : searchOk y mon tg = true := by
  have h := tableOk_true
  unfold tableOk at h
  rw [List.all_eq_true] at h
  have h1 := h y (by rcases hy with h | h <;> simp [h])
  rw [List.all_eq_true] at h1
  have h2 := h1 mon (by simp; omega)
  rw [List.all_eq_true] at h2
  have ht : tg < 32 := by
    have : daysInMonth y mon ≤ 31 := by unfold daysInMonth; split <;> (try split) <;> omega
    omega
  have h3 := h2 tg (by simp; omega)
  simp [hm1, ht1, ht2] at h3
  simpa using h3

theorem yearIdx_spec (y d : Nat) (hy : y ≤ 198) (hd1 : 1 ≤ d)
    (hd2 : d ≤ 365 + (if (y + 1) % 4 = 0 then 1 else 0)) :
    yearIdx (y * 365 + y / 4 + d) = y := by
  unfold yearIdx
  split at hd2 <;> split <;> omega

theorem dayOfYear_spec (y d : Nat) (hy : y ≤ 198) (hd1 : 1 ≤ d)
    (hd2 : d ≤ 365 + (if (y + 1) % 4 = 0 then 1 else 0)) :
    dayOfYear (y * 365 + y / 4 + d) = d := by
  unfold dayOfYear
  rw [yearIdx_spec y d hy hd1 hd2]; omega

theorem doy_bound (yr mon tg : Nat) (hm1 : 1 ≤ mon) (hm2 : mon ≤ 12)
    (ht1 : 1 ≤ tg) (ht2 : tg ≤ daysInMonth yr mon) :
    1 ≤ monthOffset yr mon + tg ∧
    monthOffset yr mon + tg ≤ 365 + (if yr % 4 = 0 then 1 else 0) := by
  have hmon : mon = 1 ∨ mon = 2 ∨ mon = 3 ∨ mon = 4 ∨ mon = 5 ∨ mon = 6 ∨ mon = 7 ∨ mon = 8 ∨
      mon = 9 ∨ mon = 10 ∨ mon = 11 ∨ mon = 12 := by omega
  by_cases hl : yr % 4 = 0 <;>
  rcases hmon with h | h | h | h | h | h | h | h | h | h | h | h <;>
  subst h <;> simp [daysInMonth, hl] at ht2 <;> simp [monthOffset, mtStart, hl] <;> omega

theorem kalender_masdat_core (yr mon tg : Nat) (hy1 : 1 ≤ yr) (hy2 : yr ≤ 199)
    (hm1 : 1 ≤ mon) (hm2 : mon ≤ 12) (ht1 : 1 ≤ tg) (ht2 : tg ≤ daysInMonth yr mon) :
    kalenderDate (masdat yr mon tg) = some (yr + 1900, mon, tg) := by
  obtain ⟨hd1, hd2⟩ := doy_bound yr mon tg hm1 hm2 ht1 ht2
  have hyy : (yr - 1 + 1) = yr := by omega
  have hm : masdat yr mon tg = (yr - 1) * 365 + (yr - 1) / 4 + (monthOffset yr mon + tg) := by
    unfold masdat; omega
  have hd2' : monthOffset yr mon + tg ≤ 365 + (if (yr - 1 + 1) % 4 = 0 then 1 else 0) := by
    rw [hyy]; exact hd2
  have hY := yearIdx_spec (yr - 1) _ (by omega) hd1 hd2'
  have hD := dayOfYear_spec (yr - 1) _ (by omega) hd1 hd2'
  have hs := search_spec (rep yr) mon tg (by unfold rep; split <;> simp) hm1 hm2 ht1
    (by rw [← daysInMonth_rep]; exact ht2)
  unfold searchOk at hs
  rw [← monthOffset_rep] at hs
  have hk : korr (rep yr - 1) (monthOffset yr mon + tg) = korr (yr - 1) (monthOffset yr mon + tg) := by
    unfold korr rep; by_cases h : yr % 4 = 0 <;> simp [h, hyy] <;> omega
  simp only [beq_iff_eq] at hs
  rw [hk] at hs
  simp only [kalenderDate, hm, hY, hD, hs]
  by_cases h1 : mon > 1
  · simp [h1]; omega
  · have : mon = 1 := by omega
    subst this
    simp [monthOffset, mtStart]; omega
theorem digitVal_digit_lt : ∀ j, j < 10 → digitVal? (Char.ofNat (48 + j)) = some j := by decide

theorem digitVal_digit (k : Nat) : digitVal? (digit k) = some (k % 10) := by
  unfold digit
  have := digitVal_digit_lt (k % 10) (Nat.mod_lt _ (by omega))
  simpa using this

theorem parse_d2 (n : Nat) (h : n < 100) : parseNat? (d2 n) = some n := by
  simp [parseNat?, d2, digitVal_digit]; omega

theorem parse_d4 (n : Nat) (h : n < 10000) : parseNat? (d4 n) = some n := by
  simp [parseNat?, d4, digitVal_digit]; omega

/-- A calendar date of the range the property quantifies over, as (year offset, month, day). -/
def ValidDate (yr mon tg : Nat) : Prop :=
  1 ≤ yr ∧ yr ≤ 199 ∧ 1 ≤ mon ∧ mon ≤ 12 ∧ 1 ≤ tg ∧ tg ≤ daysInMonth yr mon

/-- The next calendar day. -/
def nextDate (d : Nat × Nat × Nat) : Nat × Nat × Nat :=
  let (yr, mon, tg) := d
  if tg < daysInMonth yr mon then (yr, mon, tg + 1)
  else if mon < 12 then (yr, mon + 1, 1) else (yr + 1, 1, 1)

theorem nextDate_cases (yr mon tg : Nat) :
    (tg < daysInMonth yr mon ∧ nextDate (yr, mon, tg) = (yr, mon, tg + 1)) ∨
    (¬ tg < daysInMonth yr mon ∧ mon < 12 ∧ nextDate (yr, mon, tg) = (yr, mon + 1, 1)) ∨
    (¬ tg < daysInMonth yr mon ∧ ¬ mon < 12 ∧ nextDate (yr, mon, tg) = (yr + 1, 1, 1)) := by
  unfold nextDate
  by_cases h1 : tg < daysInMonth yr mon <;> by_cases h2 : mon < 12 <;> simp [h1, h2]

theorem monthOffset_succ (yr mon : Nat) (hm1 : 1 ≤ mon) (hm2 : mon < 12) :
    monthOffset yr (mon + 1) = monthOffset yr mon + daysInMonth yr mon := by
  have hmon : mon = 1 ∨ mon = 2 ∨ mon = 3 ∨ mon = 4 ∨ mon = 5 ∨ mon = 6 ∨ mon = 7 ∨ mon = 8 ∨
      mon = 9 ∨ mon = 10 ∨ mon = 11 := by omega
  by_cases hl : yr % 4 = 0 <;>
  rcases hmon with h | h | h | h | h | h | h | h | h | h | h <;>
  subst h <;> simp [monthOffset, mtStart, daysInMonth, hl]

theorem monthOffset_dec (yr : Nat) :
    monthOffset yr 12 + daysInMonth yr 12 = 365 + (if yr % 4 = 0 then 1 else 0) := by
  by_cases hl : yr % 4 = 0 <;> simp [monthOffset, mtStart, daysInMonth, hl]

theorem monthOffset_jan (yr : Nat) : monthOffset yr 1 = 0 := by
  simp [monthOffset, mtStart]

theorem masdat_next (yr mon tg a b c : Nat) (h : ValidDate yr mon tg)
    (hn : nextDate (yr, mon, tg) = (a, b, c)) : masdat a b c = masdat yr mon tg + 1 := by
  obtain ⟨hy1, hy2, hm1, hm2, ht1, ht2⟩ := h
  rcases nextDate_cases yr mon tg with ⟨h1, he⟩ | ⟨h1, h2, he⟩ | ⟨h1, h2, he⟩ <;>
    rw [he] at hn <;> simp only [Prod.mk.injEq] at hn <;> obtain ⟨rfl, rfl, rfl⟩ := hn
  · unfold masdat; omega
  · unfold masdat; rw [monthOffset_succ yr mon hm1 h2]; omega
  · have : mon = 12 := by omega
    subst this
    have hd := monthOffset_dec yr
    unfold masdat; rw [monthOffset_jan]
    by_cases hl : yr % 4 = 0 <;> simp [hl] at hd <;> omega

theorem nextDate_valid (yr mon tg a b c : Nat) (h : ValidDate yr mon tg)
    (hlast : ¬ (yr = 199 ∧ mon = 12 ∧ tg = 31))
    (hn : nextDate (yr, mon, tg) = (a, b, c)) : ValidDate a b c := by
  obtain ⟨hy1, hy2, hm1, hm2, ht1, ht2⟩ := h
  have hpos : ∀ m, 1 ≤ m → m ≤ 12 → 1 ≤ daysInMonth yr m := by
    intro m h1 h2
    have hmon : m = 1 ∨ m = 2 ∨ m = 3 ∨ m = 4 ∨ m = 5 ∨ m = 6 ∨ m = 7 ∨ m = 8 ∨
      m = 9 ∨ m = 10 ∨ m = 11 ∨ m = 12 := by omega
    rcases hmon with h | h | h | h | h | h | h | h | h | h | h | h <;> subst h <;>
      simp [daysInMonth] <;> split <;> omega
  rcases nextDate_cases yr mon tg with ⟨h1, he⟩ | ⟨h1, h2, he⟩ | ⟨h1, h2, he⟩ <;>
    rw [he] at hn <;> simp only [Prod.mk.injEq] at hn <;> obtain ⟨rfl, rfl, rfl⟩ := hn
  · exact ⟨hy1, hy2, hm1, hm2, by omega, by omega⟩
  · exact ⟨hy1, hy2, by omega, by omega, by omega, hpos _ (by omega) (by omega)⟩
  · have : mon = 12 := by omega
    subst this
    have : daysInMonth yr 12 = 31 := by simp [daysInMonth]
    exact ⟨by omega, by omega, by omega, by omega, by omega, by simp [daysInMonth]⟩

/-- Every day number of the range is the day number of a valid date. -/
theorem masdat_surj (m : Nat) (h1 : 1 ≤ m) (h2 : m ≤ 72684) :
    ∃ yr mon tg, ValidDate yr mon tg ∧ masdat yr mon tg = m := by
  induction m with
  | zero => omega
  | succ k ih =>
    by_cases hk : k = 0
    · subst hk; exact ⟨1, 1, 1, by simp [ValidDate, daysInMonth], by simp [masdat, monthOffset, mtStart]⟩
    · obtain ⟨yr, mon, tg, hv, hm⟩ := ih (by omega) (by omega)
      have hlast : ¬ (yr = 199 ∧ mon = 12 ∧ tg = 31) := by
        rintro ⟨rfl, rfl, rfl⟩
        simp [masdat, monthOffset, mtStart] at hm; omega
      rcases hn : nextDate (yr, mon, tg) with ⟨a, b, c⟩
      exact ⟨a, b, c, nextDate_valid yr mon tg a b c hv hlast hn,
        by rw [masdat_next yr mon tg a b c hv hn, hm]⟩

end Hermes.Calendar
