package main

// C04 — every simulated day is driven by the weather record of exactly that date; uncovered days,
// gaps and missing year files end the run with an error.
//
// Stages: (1) reader / LoadYear / normalisation kernels against the Lean model (kern_weather.go),
// (2) whole runs with windows inside the covered period: every day's values are the normalised
// record of that calendar date and (ZEIT, J, TAG) stay in lock-step with the calendar, the stream
// is compared with the Lean day-loop model, (3) error stream in a child process: windows partly
// outside the covered period, gaps, missing / empty year files, short last year must end with an
// error; what the code does (error or not, and the day stream if not) is compared with the Lean
// model of the code as it is.

import (
	"encoding/json"
	"fmt"
	"math"
	"os"
	"os/exec"
	"path/filepath"
	"strconv"
	"strings"

	"github.com/zalf-rpm/Hermes2Go/hermes"
	"verifharness/proj"
	"verifharness/vh"
)

func init() { register("C04", checkC04) }

// violate04 is c.Violate with a higher cap on distinct signatures (the error stream alone has one
// signature per defect kind and layout; all of them must reach the decision stage).
func violate04(c *vh.Ctx, stage, sig, what string, replay interface{}) {
	for _, v := range c.Res.Violations {
		if v.Signature == sig && v.Stage == stage {
			return
		}
	}
	if len(c.Res.Violations) >= 80 {
		return
	}
	c.Res.Violations = append(c.Res.Violations, vh.Violation{Signature: sig, What: what, Stage: stage, Replay: replay})
}

type runSpec struct {
	Kind         string    `json:"kind"`
	Layout       int       `json:"layout"`
	Name         string    `json:"name"`
	Start        string    `json:"sim_start"`
	End          string    `json:"sim_end"`
	FileStart    string    `json:"file_first_record"`
	FileEnd      string    `json:"file_last_record"`
	Dropped      string    `json:"dropped_records,omitempty"`
	MissingYears []int     `json:"missing_year_files,omitempty"`
	EmptyYears   []int     `json:"empty_year_files,omitempty"`
	Preco        []float64 `json:"preco,omitempty"`
	SunCol       bool      `json:"sun_column"`
	VerdCol      bool      `json:"verd_column"`
	NumHeader    int       `json:"num_header"`
	Sep          string    `json:"separator"`
	StartYear    int       `json:"start_year_on_batch_line,omitempty"`
	BadDateLine  string    `json:"line_with_unparsable_date,omitempty"`
	BlankOptionalYear int  `json:"year_file_with_optional_columns_blank,omitempty"`
	BlankOptionalCols string `json:"optional_columns_blank_in_that_year,omitempty"` // SUND, VERD or SUND+VERD
	ExtraDay     string    `json:"extra_line,omitempty"`
}

type runCase struct {
	Spec      runSpec
	P         *proj.Project
	S         *wxSeries
	ByDate    map[proj.Date]*wxRec
	ByID      map[int]*wxRec
	LastDoy   map[int]int // year → last day of the year the input holds for it
	StartYear int         // configured StartYear (batch line); 0 = the year of the first simulated day
}

func (rc *runCase) startYear() int {
	if rc.StartYear != 0 {
		return rc.StartYear
	}
	return rc.P.Start().Y
}

// setStartYear puts StartYear on the batch line (it overrides config.yml, which proj.Write fills
// with the year of the first harvest)
func (rc *runCase) setStartYear(y int) {
	rc.StartYear = y
	rc.P.Args = append(rc.P.Args, fmt.Sprintf("StartYear=%d", y))
	rc.Spec.StartYear = y
}

var validKinds = []string{"valid"}
var errorKinds = []string{"missing-year-file", "empty-year-file", "ends-early", "closing-day-uncovered", "short-last-year", "starts-late-same-year", "starts-late-next-year", "gap", "gap-1day", "gap-year-end", "bad-date-line", "extra-day-366"}

// kindApplies: year-file defects exist in layout 0 only; an unparsable date token in layouts 1, 2
// only (the day column of a year file goes through ValAsInt: log.Fatal, the process ends)
func kindApplies(kind string, layout int) bool {
	switch kind {
	case "missing-year-file", "empty-year-file", "extra-day-366":
		return layout == 0
	case "bad-date-line":
		return layout != 0
	}
	return true
}

func posClass(d proj.Date) string {
	switch {
	case d.M == 1 && d.D == 1:
		return "jan1"
	case d.M == 12 && d.D == 31:
		return "dec31"
	case d.M == 2 && d.D == 29:
		return "feb29"
	case isLeap(d.Y) && d.M > 2:
		return "leap-after-feb"
	}
	return "plain"
}

// genRunCase draws a project and a weather series of the given kind and layout.
func genRunCase(r *vh.Rng, name, kind string, layout int, fixed *[4]proj.Date) *runCase {
	years := r.Range(1, 3)
	noCrop := r.Chance(0.5) || fixed != nil
	p := proj.Gen(r.Fork(), name, proj.Opt{Years: years, NoCrop: noCrop})
	setWindow := func(s, e proj.Date) {
		p.Rot[0].Harvest = s
		p.Meas[0].Date = s
		p.SetEnd(e)
	}
	if fixed != nil {
		setWindow(fixed[0], fixed[1])
	} else if noCrop && r.Chance(0.7) {
		y0 := []int{1995, 1996, 1999, 2000, 2003, 2004, 2039, r.Range(1950, 2090)}[r.Intn(8)]
		s := proj.Date{Y: y0, M: r.Range(1, 12), D: r.Range(1, 28)}
		switch r.Intn(6) {
		case 0:
			s = proj.Date{Y: y0, M: 1, D: 1}
		case 1:
			s = proj.Date{Y: y0, M: 12, D: 31}
		case 2:
			s = proj.Date{Y: y0, M: 3, D: 1}.AddDays(-1) // 28 or 29 February
		case 3:
			s = proj.Date{Y: y0, M: 3, D: 1}
		}
		e := proj.Date{Y: s.Y + years, M: r.Range(1, 12), D: r.Range(1, 28)}
		switch r.Intn(6) {
		case 0:
			e = proj.Date{Y: s.Y + years, M: 12, D: 31}
		case 1:
			e = proj.Date{Y: s.Y + years, M: 1, D: 1}
		case 2:
			e = proj.Date{Y: s.Y + years, M: 3, D: 1}.AddDays(-1)
		}
		setWindow(s, e)
	}
	p.Cfg["AutoIrrigation"] = "0"
	if fixed != nil || r.Chance(0.5) { // keep the configured end date the last simulated day
		e := p.End()
		a := e.AddDays(-r.Range(1, 200))
		if a.Y != e.Y {
			a = proj.Date{Y: e.Y, M: 1, D: 1}
			if e.M == 1 && e.D == 1 {
				a = proj.Date{Y: e.Y, M: 12, D: 30} // annual output after the end: ENDE stays only if OUTY < ENDE; use the extension instead
			}
		}
		p.Cfg["AnnualOutputDate"] = fmt.Sprintf("\"%02d%02d\"", a.D, a.M)
	}
	if kind == "closing-day-uncovered" {
		// the annual output on the configured end date 31.12. moves the last simulated day to 1 January of the next year
		// (run.go:133-140); the weather input ends on 31.12.: the closing day has no record and the run must say so
		e := p.End()
		p.SetEnd(proj.Date{Y: e.Y, M: 12, D: 31})
		p.Cfg["AnnualOutputDate"] = "\"3112\""
	}
	start, end := p.Start(), effEnd(p)
	rc := &runCase{P: p, Spec: runSpec{Kind: kind, Layout: layout, Name: name, Start: start.String(), End: end.String()}}

	// ---- covered period
	fs := proj.Date{Y: start.Y, M: 1, D: 1}
	fe := proj.Date{Y: end.Y, M: 12, D: 31}
	switch r.Intn(4) {
	case 1:
		fs = proj.Date{Y: start.Y - r.Range(1, 2), M: 1, D: 1}
	case 2:
		fs = start.AddDays(-r.Range(0, 150))
	case 3:
		fs = start
	}
	if layout == 0 {
		// a year file starts with day 1 (WetterK takes any other first day for a gap)
		fs = proj.Date{Y: fs.Y, M: 1, D: 1}
	}
	switch r.Intn(4) {
	case 1:
		fe = proj.Date{Y: end.Y + 1, M: 12, D: 31}
	case 2:
		fe = end.AddDays(r.Range(0, 90))
	case 3:
		fe = end
	}
	drop := map[int]bool{} // day numbers Z
	badZ, extraYear := 0, 0
	missing, empty := map[int]bool{}, map[int]bool{}
	switch kind {
	case "missing-year-file":
		missing[r.Range(start.Y, end.Y)] = true
	case "empty-year-file":
		empty[r.Range(start.Y, end.Y)] = true
	case "ends-early":
		fe = proj.Date{Y: r.Range(start.Y, end.Y-1), M: 12, D: 31}
	case "closing-day-uncovered":
		fe = proj.Date{Y: end.Y - 1, M: 12, D: 31}
	case "short-last-year":
		fe = proj.FromZ(r.Range(start.Z(), end.Z()-1))
		if fe.M == 12 && fe.D == 31 {
			fe = fe.AddDays(-1)
		}
		if fe.Z() < fs.Z() {
			fs = fe
		}
	case "starts-late-same-year":
		last := proj.Date{Y: start.Y, M: 12, D: 31}.Z()
		if end.Z() < last {
			last = end.Z()
		}
		fs = proj.FromZ(r.Range(start.Z()+1, last))
		if fs.M == 1 && fs.D == 1 {
			fs = fs.AddDays(1)
		}
	case "starts-late-next-year":
		fs = proj.Date{Y: start.Y + 1, M: 1, D: 1}
	case "gap", "gap-1day":
		k := r.Range(2, 30)
		if kind == "gap-1day" {
			k = 1
		}
		a := r.Range(start.Z()+1, end.Z()-k)
		if r.Chance(0.3) { // around a year end (the day after the gap must not be a 1 January)
			a = proj.Date{Y: r.Range(start.Y, end.Y-1), M: 12, D: 31}.Z() - r.Intn(k)
			if kind == "gap-1day" && r.Chance(0.5) {
				a = proj.Date{Y: r.Range(start.Y+1, end.Y), M: 1, D: 1}.Z()
			}
			if a <= start.Z() || a+k > end.Z() {
				a = r.Range(start.Z()+1, end.Z()-k)
			}
		}
		if nx := proj.FromZ(a + k); nx.M == 1 && nx.D == 1 {
			a--
		}
		for i := 0; i < k; i++ {
			drop[a+i] = true
		}
		rc.Spec.Dropped = fmt.Sprintf("%v … %v", proj.FromZ(a), proj.FromZ(a+k-1))
	case "bad-date-line":
		badZ = r.Range(start.Z()+1, end.Z())
		if d := proj.FromZ(badZ); d.M == 1 && d.D == 1 {
			badZ++
			if badZ > end.Z() {
				badZ -= 2
			}
		}
	case "extra-day-366":
		for y := start.Y; y < end.Y; y++ {
			if !isLeap(y) {
				extraYear = y
				if r.Chance(0.5) {
					break
				}
			}
		}
		if extraYear == 0 { // no complete non-leap year inside the window
			kind = "missing-year-file"
			missing[r.Range(start.Y, end.Y)] = true
		}
	case "drop-dec31-leap", "drop-dec31-nonleap": // exactly the last day of the start year (see exactDayCases)
		z := proj.Date{Y: start.Y, M: 12, D: 31}.Z()
		drop[z] = true
		rc.Spec.Dropped = proj.FromZ(z).String()
	case "drop-last2-leap":
		z := proj.Date{Y: start.Y, M: 12, D: 31}.Z()
		drop[z], drop[z-1] = true, true
		rc.Spec.Dropped = fmt.Sprintf("%v … %v", proj.FromZ(z-1), proj.FromZ(z))
	case "drop-jan1":
		z := proj.Date{Y: start.Y + 1, M: 1, D: 1}.Z()
		drop[z] = true
		rc.Spec.Dropped = proj.FromZ(z).String()
	case "drop-feb29":
		y := start.Y
		if !isLeap(y) {
			y++
		}
		z := proj.Date{Y: y, M: 3, D: 1}.Z() - 1
		drop[z] = true
		rc.Spec.Dropped = proj.FromZ(z).String()
	case "gap-year-end":
		y := r.Range(start.Y, end.Y-1)
		if (proj.Date{Y: y, M: 12, D: 31}).Z() <= start.Z() { // the run starts on that 31 December: nothing to drop there
			y++
		}
		ye := proj.Date{Y: y, M: 12, D: 31}.Z()
		if ye >= end.Z() { // no year end strictly inside the window: let the series end early instead
			kind = "short-last-year"
			fe = proj.FromZ(r.Range(start.Z(), end.Z()-1))
			if fe.M == 12 && fe.D == 31 {
				fe = fe.AddDays(-1)
			}
			if fe.Z() < fs.Z() {
				fs = fe
			}
			break
		}
		k := r.Range(1, 40)
		lo := ye - k + 1
		if lo <= start.Z() {
			lo = start.Z() + 1
		}
		for z := lo; z <= ye; z++ {
			drop[z] = true
		}
		rc.Spec.Dropped = fmt.Sprintf("%v … %v", proj.FromZ(lo), proj.FromZ(ye))
	}
	rc.Spec.Kind = kind
	if fixed != nil {
		fs, fe = fixed[2], fixed[3]
	}
	if fe.Z() < fs.Z() {
		fe = fs
	}
	rc.Spec.FileStart, rc.Spec.FileEnd = fs.String(), fe.String()

	// ---- values: the project's climate generator, then date code, sentinels, low wind
	p.WeatherStart = fs
	p.WeatherDays = fe.Z() - fs.Z() + 1
	p.GenWeather()
	s := &wxSeries{Layout: layout, NumHeader: r.Range(1, 2), Sep: []string{",", ";", "\t"}[r.Intn(3)], SunCol: r.Chance(0.6) || fixed != nil, VerdCol: r.Chance(0.4) || fixed != nil,
		MissingYears: missing, EmptyYears: empty}
	if layout == 2 {
		s.Sep = []string{" ", ",", "\t", ";"}[r.Intn(4)]
	}
	if layout == 0 {
		s.Sep = []string{",", ";"}[r.Intn(2)]
		s.NumHeader = r.Range(2, 3)
	}
	if r.Chance(0.4) || fixed != nil {
		for m := 0; m < 12; m++ {
			s.Preco = append(s.Preco, vh.RoundTo(1.01+0.03*float64(m)+r.Uni(0, 0.01), 2))
		}
	}
	for _, w := range p.Weather {
		if drop[w.Date.Z()] {
			continue
		}
		rec := wxRec{Date: w.Date, Tmin: w.Tmin, Tavg: w.Tavg, Tmax: w.Tmax, Precip: w.Precip, Rad: w.Rad, Wind: w.Wind, Sun: wxNone, Verd: wxNone}
		if layout == 0 {
			rec.Rad = vh.RoundTo(w.Rad*100, 0)
		}
		if layout == 2 {
			rec.Tavg = (rec.Tmax + rec.Tmin) / 2
		}
		if fixed != nil && rec.Precip == 0 {
			rec.Precip = vh.RoundTo(r.Uni(0.1, 9), 1)
		}
		pc := posClass(w.Date)
		special := pc == "jan1" || pc == "dec31" || pc == "feb29"
		if r.Chance(0.08) || (special && r.Chance(0.3)) {
			rec.Wind = []float64{0, 0.1, 0.2, 0.4, 0.49, 0.5}[r.Intn(6)]
		}
		if s.SunCol || layout == 0 {
			if s.SunCol {
				rec.Sun = vh.RoundTo(r.Uni(0, 7.5), 1)
			}
			if s.SunCol && (r.Chance(0.05) || (special && (r.Chance(0.5) || fixed != nil))) {
				rec.Sun = wxNone
			}
		}
		if s.VerdCol {
			rec.Verd = vh.RoundTo(r.Uni(0.1, 9), 1)
			if r.Chance(0.05) || (special && (r.Chance(0.5) || fixed != nil)) {
				rec.Verd = wxNone
			}
		}
		if layout != 2 && fixed == nil && r.Chance(0.03) {
			if n := len(s.Recs); n > 0 && s.Recs[n-1].Tavg != wxNone {
				rec.Tavg = wxNone // the mean temperature is an optional value too: mean of the adjacent days
			}
		}
		if w.Date.Z() == badZ {
			rec.BadDate = true
			rc.Spec.BadDateLine = w.Date.String()
		}
		s.Recs = append(s.Recs, rec)
		if extraYear != 0 && w.Date.Y == extraYear && w.Date.M == 12 && w.Date.D == 31 {
			x := rec
			x.Extra, x.ExtraYear, x.ExtraDoy = true, extraYear, 366
			x.Date = w.Date.AddDays(1)
			s.Recs = append(s.Recs, x)
			rc.Spec.ExtraDay = fmt.Sprintf("day 366 in the file of %d", extraYear)
		}
	}
	// runs of two and three missing values in the optional columns (no valid adjacent day on one side)
	if n := len(s.Recs); n > 12 {
		for k := 0; k < 1+n/400; k++ {
			i := r.Range(3, n-6)
			if s.SunCol {
				s.Recs[i].Sun, s.Recs[i+1].Sun = wxNone, wxNone
			}
			if s.VerdCol {
				j := r.Range(3, n-6)
				s.Recs[j].Verd, s.Recs[j+1].Verd = wxNone, wxNone
				if r.Chance(0.5) {
					s.Recs[j+2].Verd = wxNone
				}
			}
		}
	}
	// one-file-per-year layout: an optional column that has values in the file of one year and only the missing-value
	// code in the file of a later year (the reader's has-column flags and LoadYear's "copy only if present" meet here)
	if layout == 0 && fixed == nil && (s.SunCol || s.VerdCol) && r.Chance(0.4) {
		y0, y1 := s.Recs[0].fileYear(), s.Recs[len(s.Recs)-1].fileYear()
		if y1 > y0 {
			y := r.Range(y0+1, y1)
			blankSun, blankVerd := s.SunCol && (!s.VerdCol || r.Chance(0.6)), s.VerdCol && (!s.SunCol || r.Chance(0.6))
			for i := range s.Recs {
				if s.Recs[i].fileYear() == y {
					if blankSun {
						s.Recs[i].Sun = wxNone
					}
					if blankVerd {
						s.Recs[i].Verd = wxNone
					}
				}
			}
			rc.Spec.BlankOptionalYear = y
			if blankSun {
				rc.Spec.BlankOptionalCols = "SUND"
			}
			if blankVerd {
				rc.Spec.BlankOptionalCols += "+VERD"
			}
		}
	}
	p.Weather = nil
	s.renumber()
	rc.S = s
	rc.ByDate, rc.ByID, rc.LastDoy = map[proj.Date]*wxRec{}, map[int]*wxRec{}, map[int]int{}
	for i := range s.Recs {
		d := &s.Recs[i]
		rc.ByID[d.ID] = d
		if d.BadDate {
			continue // the record is unusable: its day is not covered
		}
		if t := d.fileDoy(); t > rc.LastDoy[d.fileYear()] {
			rc.LastDoy[d.fileYear()] = t
		}
		if !d.Extra {
			rc.ByDate[d.Date] = d
		}
	}
	rc.Spec.Preco, rc.Spec.SunCol, rc.Spec.VerdCol, rc.Spec.NumHeader, rc.Spec.Sep = s.Preco, s.SunCol, s.VerdCol, s.NumHeader, s.Sep
	for y := range missing {
		rc.Spec.MissingYears = append(rc.Spec.MissingYears, y)
	}
	for y := range empty {
		rc.Spec.EmptyYears = append(rc.Spec.EmptyYears, y)
	}
	// ---- configuration of the layout
	p.Cfg["WeatherFileFormat"] = strconv.Itoa(layout)
	p.Cfg["WeatherFolder"] = "wx_" + name
	p.Cfg["WeatherNumHeader"] = strconv.Itoa(s.NumHeader)
	p.Cfg["WeatherNoneValue"] = ff(wxNone)
	if layout == 0 {
		p.Cfg["WeatherFile"] = "\"%s.\""
	}
	if s.Preco != nil {
		p.Cfg["CorrectionPrecipitation"] = "1"
	}
	return rc
}

// effEnd: the last simulated day. run.go:133-140 moves ENDE to the day after the annual output date
// of the end year when that date is not before the configured end date.
func effEnd(p *proj.Project) proj.Date {
	end := p.End()
	a := strings.Trim(p.Cfg["AnnualOutputDate"], "\"'")
	var d, m int
	if _, err := fmt.Sscanf(a, "%2d%2d", &d, &m); err == nil && m >= 1 && m <= 12 {
		out := proj.Date{Y: end.Y, M: m, D: d}
		if out.Z() >= end.Z() {
			return out.AddDays(1)
		}
	}
	return end
}

type dayObs struct {
	Zeit, J, Tag, Jtag                            int
	Temp, Tmin, Tmax, RH, Rad, Wind, Regen        float64
	Sund, Verd                                    float64
	TempD, TminD, TmaxD, RHD, RadD, WindD, RegenD float64
	Irr, WindHi                                   float64
}

type runOut struct {
	Obs   []dayObs
	Err   string
	Panic string
}

func (rc *runCase) run(root, repo string) (*runOut, error) {
	if err := rc.P.Write(root, repo); err != nil {
		return nil, err
	}
	if err := rc.S.write(filepath.Join(root, "weather", "wx_"+rc.P.Name), "w"+rc.P.Name); err != nil {
		return nil, err
	}
	out := &runOut{}
	res := proj.Run(root, rc.P, &hermes.VerifProbes{
		DayStart: func(g *hermes.GlobalVarsMain, w *hermes.WaterSharedVars, n *hermes.NitroSharedVars, cr *hermes.CropSharedVars, zeit int, wdt float64) {
			t := g.TAG.Index
			o := dayObs{Zeit: zeit, J: g.J, Tag: t, Jtag: g.JTAG, TempD: g.TEMPdaily, TminD: g.TMINdaily, TmaxD: g.TMAXdaily, RHD: g.RHdaily,
				RadD: g.RADdaily, WindD: g.WINDdaily, RegenD: g.REGENdaily, Irr: g.EffectiveIRRIG, WindHi: g.WINDHI}
			if t >= 0 && t < 366 {
				o.Temp, o.Tmin, o.Tmax, o.RH, o.Rad, o.Wind, o.Regen, o.Sund, o.Verd = g.TEMP[t], g.TMIN[t], g.TMAX[t], g.RH[t], g.RAD[t], g.WIND[t], g.REGEN[t], g.SUND[t], g.VERD[t]
			}
			out.Obs = append(out.Obs, o)
		}})
	if res.Err != nil {
		out.Err = res.Err.Error()
	}
	out.Panic = res.Panic
	os.RemoveAll(filepath.Join(root, "weather", "wx_"+rc.P.Name))
	os.RemoveAll(filepath.Join(root, "project", rc.P.Name))
	return out, nil
}

// modelLine: the driver line of the Lean day-loop model for the run.
func (rc *runCase) modelLine() string {
	start, end := rc.P.Start(), effEnd(rc.P)
	ndays := end.Z() - start.Z() + 1
	var b strings.Builder
	if rc.S.Layout == 0 {
		// one entry per year file, in the order of the records (ids are global line numbers). The
		// records of a missing or header-only file are numbered too: they are listed under year 0,
		// which is never requested.
		type yf struct {
			y    int
			doys []int
		}
		var files []yf
		for i := range rc.S.Recs {
			d := &rc.S.Recs[i]
			if len(files) == 0 || files[len(files)-1].y != d.fileYear() {
				files = append(files, yf{y: d.fileYear()})
			}
			files[len(files)-1].doys = append(files[len(files)-1].doys, d.fileDoy())
		}
		var entries []yf
		seen := map[int]bool{}
		for _, f := range files {
			seen[f.y] = true
			switch {
			case rc.S.MissingYears[f.y]:
				entries = append(entries, yf{0, f.doys})
			case rc.S.EmptyYears[f.y]:
				entries = append(entries, yf{0, f.doys}, yf{f.y, nil})
			default:
				entries = append(entries, f)
			}
		}
		for y := range rc.S.EmptyYears {
			if !seen[y] && !rc.S.MissingYears[y] {
				entries = append(entries, yf{y, nil})
			}
		}
		fmt.Fprintf(&b, "dayloop.peryear %d %d %d %d %d", rc.startYear(), start.Z(), start.DOY(), ndays, len(entries))
		for _, f := range entries {
			fmt.Fprintf(&b, " %d %d", f.y, len(f.doys))
			for _, t := range f.doys {
				fmt.Fprintf(&b, " %d", t)
			}
		}
		return b.String()
	}
	cap := end.Y - rc.startYear() + 1
	fmt.Fprintf(&b, "dayloop.multi %d %d %d %d %d %d", rc.startYear(), cap, start.Z(), start.DOY(), ndays, len(rc.S.Recs))
	for i := range rc.S.Recs {
		y, t := rc.S.Recs[i].modelYD()
		fmt.Fprintf(&b, " %d %d", y, t)
	}
	return b.String()
}

func (o *runOut) implLine() string {
	if o.Err != "" || o.Panic != "" {
		return "err"
	}
	var b strings.Builder
	for i, d := range o.Obs {
		if i > 0 {
			b.WriteByte(' ')
		}
		fmt.Fprintf(&b, "%d %d %d %d %d", d.Zeit, d.J, d.Tag+1, d.Jtag, idOfRH(d.RH))
	}
	return b.String()
}

func near(a, b float64) bool { return a == b || math.Abs(a-b) <= 1e-12*(1+math.Abs(b)) }

// monthOf day-of-year boundaries of a non-leap year (what getCorrValue uses for every year)
func nonLeapMonth(doy int) int {
	ends := []int{31, 59, 90, 120, 151, 181, 212, 243, 273, 304, 334, 365}
	for m, e := range ends {
		if doy <= e {
			return m + 1
		}
	}
	return 12
}

// checkDays evaluates the property on the observed days of a run that ended without error.
// It reports through viol(signature-suffix, text). Returns the number of days that used the
// record of their own date.
func (rc *runCase) checkDays(o *runOut, viol func(sig, what string)) (aligned int) {
	L := rc.S.Layout
	start, end := rc.P.Start(), effEnd(rc.P)
	if want := end.Z() - start.Z() + 1; len(o.Obs) != want {
		viol(fmt.Sprintf("days:count:fmt%d", L), fmt.Sprintf("%d simulated days observed, window %v … %v has %d", len(o.Obs), start, end, want))
	}
	for _, d := range o.Obs {
		date := proj.FromZ(d.Zeit)
		pc := posClass(date)
		if 1900+d.J != date.Y || d.Tag+1 != date.DOY() {
			viol(fmt.Sprintf("lockstep:fmt%d:%s", L, pc), fmt.Sprintf("on %v (ZEIT %d) the day counters are J=%d TAG=%d, i.e. day %d of %d", date, d.Zeit, d.J, d.Tag, d.Tag+1, 1900+d.J))
		}
		// JTAG is the length of the loaded year: the last day the input holds for the calendar year of
		// ZEIT (365/366 for every complete year). A value left over from another year is wrong even
		// before the year change shows it.
		if want := rc.LastDoy[date.Y]; want != 0 && d.Jtag != want {
			viol(fmt.Sprintf("jtag:fmt%d:%s", L, pc), fmt.Sprintf("on %v JTAG = %d, the input holds %d days of %d", date, d.Jtag, want, date.Y))
		}
		rec := rc.ByDate[date]
		if rec == nil {
			viol(fmt.Sprintf("uncovered-day-simulated:fmt%d", L), fmt.Sprintf("%v is not covered by the weather input but was simulated (record used: %s)", date, rc.describeID(idOfRH(d.RH))))
			continue
		}
		if id := idOfRH(d.RH); id != rec.ID {
			viol(fmt.Sprintf("record:fmt%d:%s", L, pc), fmt.Sprintf("%v is driven by %s instead of its own record", date, rc.describeID(id)))
			continue
		}
		aligned++
		chk := func(name string, got, want float64) {
			if !near(got, want) {
				viol(fmt.Sprintf("value:%s:fmt%d:%s", name, L, pc), fmt.Sprintf("%v: %s = %v, the record of that date gives %v", date, name, got, want))
			}
		}
		if rec.Tavg != wxNone {
			chk("TEMP", d.Temp, rec.Tavg)
			chk("TEMPdaily", d.TempD, rec.Tavg)
		}
		chk("TMIN", d.Tmin, rec.Tmin)
		chk("TMINdaily", d.TminD, rec.Tmin)
		chk("TMAX", d.Tmax, rec.Tmax)
		chk("TMAXdaily", d.TmaxD, rec.Tmax)
		chk("RHdaily", d.RHD, rec.RH)
		chk("RAD", d.Rad, rec.Rad/2)
		chk("RADdaily", d.RadD, rec.Rad/2)
		cor := 1.0
		if rc.S.Preco != nil {
			cor = rc.S.Preco[date.M-1]
		}
		wantRain := rec.Precip / 10 * cor
		if !near(d.RegenD, wantRain) {
			cls := pc
			if rc.S.Preco != nil && isLeap(date.Y) && nonLeapMonth(date.DOY()) != date.M && near(d.RegenD, rec.Precip/10*rc.S.Preco[nonLeapMonth(date.DOY())-1]) {
				cls = "preco-month-of-nonleap-calendar"
			}
			viol(fmt.Sprintf("value:REGENdaily:fmt%d:%s", L, cls), fmt.Sprintf("%v: REGENdaily = %v, expected %v mm /10 · %v = %v", date, d.RegenD, rec.Precip, cor, wantRain))
		} else {
			chk("REGEN", d.Regen, wantRain+d.Irr)
		}
		// wind: raw or floored (both readings of the documented floor are accepted)
		floor := math.Max(rec.Wind, 0.5)
		if d.WindHi == 2 || d.WindHi == 0 {
			if !(d.WindD == rec.Wind || d.WindD == floor) {
				viol(fmt.Sprintf("value:WINDdaily:fmt%d:%s", L, pc), fmt.Sprintf("%v: WINDdaily = %v, record %v", date, d.WindD, rec.Wind))
			}
			if !(d.Wind == rec.Wind || d.Wind == floor) {
				viol(fmt.Sprintf("value:WIND:fmt%d:%s", L, pc), fmt.Sprintf("%v: WIND = %v, record %v", date, d.Wind, rec.Wind))
			}
		}
		// optional columns
		opt := func(name string, has bool, got float64, val func(*wxRec) float64) {
			if !has {
				return
			}
			v := val(rec)
			if v != wxNone {
				chk(name, got, v)
				return
			}
			pv, nx := rc.ByDate[date.AddDays(-1)], rc.ByDate[date.AddDays(1)]
			if pv == nil || nx == nil || val(pv) == wxNone || val(nx) == wxNone {
				// no valid adjacent day on one side: the property does not say what to use instead — but
				// the missing-value code itself must not be consumed as a measurement
				if got == wxNone {
					viol(fmt.Sprintf("value:%s-sentinel-consumed:fmt%d", name, L), fmt.Sprintf("%v: %s is missing in the input on this and an adjacent day; the day consumes the missing-value code %v itself", date, name, got))
				} else if got != 0 && L == 0 && rc.Spec.BlankOptionalYear == date.Y && strings.Contains(rc.Spec.BlankOptionalCols, name) {
					// the year file of this date has no value of this column at all: whatever drives the day comes
					// from the record of another date
					src := "no record of this year file"
					for dy := 1; dy <= 3; dy++ {
						if o := rc.ByDate[proj.Date{Y: date.Y - dy, M: date.M, D: date.D}]; o != nil && val(o) != wxNone && near(got, val(o)) {
							src = fmt.Sprintf("the record of %v", o.Date)
							break
						}
					}
					viol(fmt.Sprintf("value:%s-of-another-date:fmt%d", name, L), fmt.Sprintf("%v: the year file of %d has no %s value; the day is driven by %v, the value of %s", date, date.Y, name, got, src))
				}
				return
			}
			if L == 0 && (pv.Date.Y != date.Y || nx.Date.Y != date.Y) {
				return // adjacent day is in another file
			}
			if pv.Date.Y < start.Y || nx.Date.Y > end.Y {
				return // adjacent day is outside the years that are read
			}
			want := (val(pv) + val(nx)) / 2
			if !near(got, want) {
				viol(fmt.Sprintf("value:%s-sentinel-mean:fmt%d:%s", name, L, pc), fmt.Sprintf("%v: %s is missing in the input; used %v, mean of the adjacent days (%v, %v) is %v", date, name, got, val(pv), val(nx), want))
			}
		}
		if rec.Tavg == wxNone {
			opt("TEMP", true, d.Temp, func(r *wxRec) float64 { return r.Tavg })
			opt("TEMPdaily", true, d.TempD, func(r *wxRec) float64 { return r.Tavg })
		}
		opt("SUND", rc.S.SunCol, d.Sund, func(r *wxRec) float64 { return r.Sun })
		opt("VERD", rc.S.VerdCol, d.Verd, func(r *wxRec) float64 { return r.Verd })
	}
	return aligned
}

func (rc *runCase) describeID(id int) string {
	if id == 0 {
		return "no record (zero-initialised slot)"
	}
	if r := rc.ByID[id]; r != nil {
		return fmt.Sprintf("the record of %v", r.Date)
	}
	return fmt.Sprintf("an unknown record (code %d)", id)
}

func (rc *runCase) replay(extra map[string]interface{}) map[string]interface{} {
	m := map[string]interface{}{"spec": rc.Spec, "project": rc.P}
	for k, v := range extra {
		m[k] = v
	}
	return m
}

// ---------------------------------------------------------------- stages

func validRunStage(c *vh.Ctx, n int) {
	root := filepath.Join(c.Scratch, "runs")
	var cases, impl []string
	var kept []*runCase
	d := func(y, m, dd int) proj.Date { return proj.Date{Y: y, M: m, D: dd} }
	focus := [][4]proj.Date{
		{d(1995, 10, 1), d(1997, 3, 1), d(1995, 1, 1), d(1997, 12, 31)},    // across the leap year 1996, both year ends
		{d(1999, 12, 31), d(2001, 1, 1), d(1998, 1, 1), d(2001, 12, 31)},   // 1999/2000/2001, file starts before the start year
		{d(1981, 1, 1), d(1982, 3, 1), d(1981, 1, 1), d(1982, 12, 31)},     // first simulated day 1 January
		{d(1996, 2, 29), d(1997, 3, 5), d(1996, 1, 1), d(1997, 12, 31)},    // first simulated day 29 February
		{d(2003, 12, 31), d(2004, 12, 31), d(2003, 1, 1), d(2004, 12, 31)}, // first day 31 December before a leap year, last day 31 December
	}
	for k := 0; k < n+3*len(focus); k++ {
		layout := k % 3
		var fixed *[4]proj.Date
		if k >= n {
			fixed = &focus[(k-n)/3]
		}
		rc := genRunCase(c.Rng, fmt.Sprintf("v%d", k), "valid", layout, fixed)
		o, err := rc.run(root, c.Repo)
		if err != nil {
			panic(err)
		}
		c.Count(fmt.Sprintf("run:valid:fmt%d", layout))
		if os.Getenv("VERIF_C04_DEBUG") == rc.P.Name {
			fmt.Fprintf(os.Stderr, "DEBUG %s err=%q panic=%q n=%d end=%v endZ=%d cfg=%s\n", rc.P.Name, o.Err, o.Panic, len(o.Obs), rc.P.End(), rc.P.End().Z(), rc.P.Cfg["EndDate"])
			for i, d := range o.Obs {
				if i < 3 || i > len(o.Obs)-4 || (i > 0 && d.Zeit != o.Obs[i-1].Zeit+1) {
					fmt.Fprintf(os.Stderr, "  %d %v zeit=%d J=%d TAG=%d JTAG=%d id=%d\n", i, proj.FromZ(d.Zeit), d.Zeit, d.J, d.Tag, d.Jtag, idOfRH(d.RH))
				}
			}
		}
		if o.Err != "" || o.Panic != "" {
			violate04(c, "search", fmt.Sprintf("valid-window-rejected:fmt%d", layout), fmt.Sprintf("a run whose window %s … %s lies inside the covered period %s … %s ended with: %s %s", rc.Spec.Start, rc.Spec.End, rc.Spec.FileStart, rc.Spec.FileEnd, o.Err, o.Panic), rc.replay(nil))
			continue
		}
		nViol := 0
		aligned := rc.checkDays(o, func(sig, what string) {
			nViol++
			violate04(c, "search", "valid:"+sig, what, rc.replay(map[string]interface{}{"what": what}))
		})
		c.Res.Evaluations += len(o.Obs)
		for _, d := range o.Obs {
			c.Nontrivial(fmt.Sprintf("%s-%d", rc.P.Name, d.Zeit))
		}
		c.Count(fmt.Sprintf("days:aligned:fmt%d", layout))
		_ = aligned
		if k < 3 {
			c.Sample(map[string]interface{}{"spec": rc.Spec, "days": len(o.Obs), "first_day": o.Obs[0]})
		}
		cases = append(cases, rc.modelLine())
		impl = append(impl, o.implLine())
		kept = append(kept, rc)
		normRunCollect(c, rc, o) // the same run with the record values: normalisation passes in place (c04_norm.go)
	}
	c.Correspond("dayloop(valid runs)", cases, impl, 0, 0, func(i int) interface{} { return kept[i].replay(nil) })
	normRunFlush(c)
}

// StartYear ≠ year of the first simulated day. The arrays loaded before the loop are those of
// StartYear; the run must either end with an error (the unchanged code: "start year … does not match
// beginn year") or be driven, every day, by the record of that day's date — never run on the
// records of another year. Weather covers StartYear and the whole window in every case.
func startYearCases(r *vh.Rng, extra int) []*runCase {
	var out []*runCase
	d := func(y, m, dd int) proj.Date { return proj.Date{Y: y, M: m, D: dd} }
	type sy struct {
		first proj.Date // first simulated day
		start int       // StartYear
	}
	base := []sy{
		{d(1997, 9, 12), 1996}, // StartYear a leap year, first simulated year not
		{d(1996, 10, 3), 1995}, // the reverse
		{d(1999, 3, 1), 1997},  // two years before
		{d(2003, 7, 20), 2000}, // three years before
		{d(1987, 8, 15), 1988}, // one year after the first simulated day (a leap year)
		{d(1990, 1, 1), 1989},  // first simulated day 1 January, StartYear the year before
		{d(1991, 12, 31), 1990},
		{d(2000, 2, 29), 1999},
	}
	for k := 0; k < extra; k++ {
		y := r.Range(1955, 2085)
		off := []int{-1, -2, -3, 1}[r.Intn(4)]
		base = append(base, sy{d(y, r.Range(1, 12), r.Range(1, 28)), y + off})
	}
	for i, b := range base {
		for layout := 0; layout < 3; layout++ {
			end := b.first.AddDays(r.Range(380, 800))
			lo := b.start
			if b.first.Y < lo {
				lo = b.first.Y
			}
			w := [4]proj.Date{b.first, end, d(lo, 1, 1), d(end.Y, 12, 31)}
			kind := "start-year-before"
			if b.start > b.first.Y {
				kind = "start-year-after"
			}
			rc := genRunCase(r, fmt.Sprintf("s%d_%d", i, layout), kind, layout, &w)
			rc.setStartYear(b.start)
			out = append(out, rc)
		}
	}
	return out
}

func startYearStage(c *vh.Ctx, extra int) {
	root := filepath.Join(c.Scratch, "syruns")
	var cases, impl []string
	var kept []*runCase
	for _, rc := range startYearCases(c.Rng, extra) {
		o, err := rc.run(root, c.Repo)
		if err != nil {
			panic(err)
		}
		kind, L := rc.Spec.Kind, rc.Spec.Layout
		c.Eval()
		c.Nontrivial("sy-" + rc.P.Name)
		cases = append(cases, rc.modelLine())
		impl = append(impl, o.implLine())
		kept = append(kept, rc)
		if o.Err != "" || o.Panic != "" {
			c.Count(fmt.Sprintf("start-year:%s:fmt%d:ended-with-error", kind, L))
			continue
		}
		bad, first := 0, ""
		rc.checkDays(o, func(sig, what string) {
			bad++
			if first == "" {
				first = sig + ": " + what
			}
		})
		c.Res.Evaluations += len(o.Obs)
		if bad == 0 {
			c.Count(fmt.Sprintf("start-year:%s:fmt%d:ran-on-the-right-records", kind, L))
			continue
		}
		c.Count(fmt.Sprintf("start-year:%s:fmt%d:SILENT", kind, L))
		violate04(c, "search", fmt.Sprintf("start-year-mismatch:%s:fmt%d", strings.TrimPrefix(kind, "start-year-"), L),
			fmt.Sprintf("StartYear %d, first simulated day %s (layout %d, weather %s … %s): the run ended WITHOUT an error and %d day statements are wrong, first: %s",
				rc.StartYear, rc.Spec.Start, L, rc.Spec.FileStart, rc.Spec.FileEnd, bad, first),
			rc.replay(map[string]interface{}{"wrong_day_statements": bad, "first": first}))
	}
	c.Correspond("dayloop(start year)", cases, impl, 0, 0, func(i int) interface{} { return kept[i].replay(nil) })
}

// Exactly one (or two) days missing at the places where "year complete" is decided, with the run
// going on at least 30 days into the following year and ending well before the end of the last
// loaded year (so that no "year not loaded" error can hide a wrong year switch): the last day of a
// leap year, the last day of a non-leap year, a 1 January, a 29 February, the last two days of a
// leap year. All must end with an error.
var exactKinds = []string{"drop-dec31-leap", "drop-dec31-nonleap", "drop-jan1", "drop-feb29", "drop-last2-leap"}

func exactDayCases(r *vh.Rng, reps int) []*runCase {
	var out []*runCase
	d := func(y, m, dd int) proj.Date { return proj.Date{Y: y, M: m, D: dd} }
	leaps := []int{1976, 1996, 2000, 2004, 2028, 2040}
	for rep := 0; rep < reps; rep++ {
		for ki, kind := range exactKinds {
			for layout := 0; layout < 3; layout++ {
				L := leaps[r.Intn(len(leaps))]
				y := L // the year whose end (or whose successor's 1 January) is damaged
				switch kind {
				case "drop-dec31-nonleap":
					y = L + r.Range(1, 3)
				case "drop-jan1":
					y = L - r.Intn(2) // the missing 1 January follows a leap or a non-leap year
				}
				start := d(y, r.Range(3, 11), r.Range(1, 28))
				if kind == "drop-feb29" {
					start = d(L-1, r.Range(6, 12), r.Range(1, 28))
					if r.Chance(0.3) {
						start = d(L, 1, r.Range(1, 31))
					}
				}
				lastYear := y + 1
				if kind == "drop-feb29" {
					lastYear = L + 1
				}
				end := d(lastYear, 1, 1).AddDays(r.Range(30, 300))
				fs := d(start.Y, 1, 1)
				if layout != 0 && r.Chance(0.5) {
					fs = start.AddDays(-r.Range(0, 40))
				}
				w := [4]proj.Date{start, end, fs, d(lastYear, 12, 31)}
				out = append(out, genRunCase(r, fmt.Sprintf("x%d_%d_%d", rep, ki, layout), kind, layout, &w))
			}
		}
	}
	return out
}

// the fixed witnesses of HermesProps/C04.lean, replayed on the real code: the `…_fails_at` witness
// that is still violated (series starts after the first simulated day, inside the start year) and
// the former witnesses of the repaired defects (they must end with an error now)
func witnessCases(r *vh.Rng) []*runCase {
	var out []*runCase
	d := func(y, m, dd int) proj.Date { return proj.Date{Y: y, M: m, D: dd} }
	for layout := 0; layout < 3; layout++ {
		w := [4]proj.Date{d(1981, 1, 1), d(1981, 1, 5), d(1981, 1, 1), d(1981, 1, 3)}
		out = append(out, genRunCase(r, fmt.Sprintf("w%d", layout), "short-last-year", layout, &w))
		w2 := [4]proj.Date{d(1981, 1, 1), d(1981, 1, 3), d(1981, 1, 3), d(1981, 1, 5)}
		out = append(out, genRunCase(r, fmt.Sprintf("x%d", layout), "starts-late-same-year", layout, &w2))
		w3 := [4]proj.Date{d(1981, 1, 1), d(1981, 1, 2), d(1982, 1, 1), d(1982, 1, 3)}
		out = append(out, genRunCase(r, fmt.Sprintf("y%d", layout), "starts-late-next-year", layout, &w3))
	}
	return out
}

func errorStreamStage(c *vh.Ctx, n, reps int) {
	root := filepath.Join(c.Scratch, "eruns")
	r := vh.NewRng(c.Seed*1000003 + 77)
	progress := os.Getenv("VERIF_C04_PROGRESS")
	exclude := map[int]bool{}
	for _, s := range strings.Split(os.Getenv("VERIF_C04_EXCLUDE"), ",") {
		if v, err := strconv.Atoi(s); err == nil {
			exclude[v] = true
		}
	}
	var all []*runCase
	all = append(all, witnessCases(r)...)
	all = append(all, exactDayCases(r, reps)...)
	k := 0
	for _, kind := range errorKinds { // every defect kind in every layout it applies to
		for layout := 0; layout < 3; layout++ {
			if !kindApplies(kind, layout) {
				continue
			}
			all = append(all, genRunCase(r, fmt.Sprintf("e%d", k), kind, layout, nil))
			k++
		}
	}
	for ; k < n; k++ {
		layout := k % 3
		kind := errorKinds[r.Intn(len(errorKinds))]
		for !kindApplies(kind, layout) {
			kind = errorKinds[r.Intn(len(errorKinds))]
		}
		all = append(all, genRunCase(r, fmt.Sprintf("e%d", k), kind, layout, nil))
	}
	var cases, impl []string
	var kept []*runCase
	for i, rc := range all {
		if exclude[i] {
			c.Count("error-stream:process-killed:" + rc.Spec.Kind)
			c.Note("error-stream case %d (%s, layout %d) ended the whole process (log.Fatal): not silent, counted as ended", i, rc.Spec.Kind, rc.Spec.Layout)
			continue
		}
		if progress != "" {
			os.WriteFile(progress, []byte(strconv.Itoa(i)), 0o644)
		}
		o, err := rc.run(root, c.Repo)
		if err != nil {
			panic(err)
		}
		kind, L := rc.Spec.Kind, rc.Spec.Layout
		c.Eval()
		c.Nontrivial("err-" + rc.P.Name)
		cases = append(cases, rc.modelLine())
		impl = append(impl, o.implLine())
		kept = append(kept, rc)
		if o.Err != "" {
			c.Count(fmt.Sprintf("error-stream:%s:fmt%d:ended-with-error", kind, L))
			continue
		}
		if o.Panic != "" {
			c.Count(fmt.Sprintf("error-stream:%s:fmt%d:panic", kind, L))
			c.Note("error-stream %s layout %d ended with a panic: %s", kind, L, o.Panic)
			continue
		}
		c.Count(fmt.Sprintf("error-stream:%s:fmt%d:SILENT", kind, L))
		// what did the run use instead?
		first := ""
		bad := 0
		rc.checkDays(o, func(sig, what string) {
			if strings.HasPrefix(sig, "lockstep") || strings.HasPrefix(sig, "record") || strings.HasPrefix(sig, "uncovered") {
				bad++
				if first == "" {
					first = what
				}
			}
		})
		violate04(c, "search", fmt.Sprintf("error-path:%s:fmt%d", kind, L),
			fmt.Sprintf("weather input defect '%s' (layout %d): the run %s … %s ended WITHOUT an error (file covers %s … %s, dropped %q, missing year files %v, empty %v); %d day statements wrong, first: %s",
				kind, L, rc.Spec.Start, rc.Spec.End, rc.Spec.FileStart, rc.Spec.FileEnd, rc.Spec.Dropped, rc.Spec.MissingYears, rc.Spec.EmptyYears, bad, first),
			rc.replay(map[string]interface{}{"wrong_day_statements": bad, "first": first}))
	}
	c.Correspond("dayloop(error stream)", cases, impl, 0, 0, func(i int) interface{} { return kept[i].replay(nil) })
}

// runs the error stream in a child process (a log.Fatal inside hermes must not kill the check)
func errorStreamViaChild(c *vh.Ctx) {
	exe, err := os.Executable()
	if err != nil {
		panic(err)
	}
	var exclude []string
	for attempt := 0; attempt < 6; attempt++ {
		out := filepath.Join(c.Scratch, fmt.Sprintf("child-%d.json", attempt))
		prog := filepath.Join(c.Scratch, "child-progress")
		os.Remove(prog)
		cmd := exec.Command(exe, "-prop", "C04", "-tier", c.Tier, "-seed", strconv.FormatUint(c.Seed, 10), "-out", out)
		cmd.Env = append(os.Environ(), "VERIF_C04_CHILD=1", "VERIF_C04_PROGRESS="+prog, "VERIF_C04_EXCLUDE="+strings.Join(exclude, ","))
		cmd.Stdout, cmd.Stderr = nil, nil
		runErr := cmd.Run()
		b, rerr := os.ReadFile(out)
		if rerr != nil {
			pb, _ := os.ReadFile(prog)
			if len(pb) == 0 {
				c.Violate("correspondence", "error-stream:child-crash", fmt.Sprintf("error-stream child ended without result: %v", runErr), nil)
				return
			}
			exclude = append(exclude, strings.TrimSpace(string(pb)))
			continue
		}
		var res vh.Result
		if err := json.Unmarshal(b, &res); err != nil {
			c.Violate("correspondence", "error-stream:child-result", err.Error(), nil)
			return
		}
		c.Res.Evaluations += res.Evaluations
		for i := 0; i < res.NontrivialN; i++ {
			c.Nontrivial(fmt.Sprintf("err-child-%d", i))
		}
		c.Res.CorrCases += res.CorrCases
		c.Res.CorrBitExact += res.CorrBitExact
		c.Res.CorrDisagree += res.CorrDisagree
		for k, v := range res.Distribution {
			c.Res.Distribution[k] += v
		}
		c.Res.Notes = append(c.Res.Notes, res.Notes...)
		for _, v := range res.Violations {
			violate04(c, v.Stage, v.Signature, v.What, v.Replay)
		}
		return
	}
	c.Violate("correspondence", "error-stream:child-crash", "error-stream child kept crashing", exclude)
}

// path.go: the year file of J = year − 1900 has the extension 9yy / 0yy
func pathStage(c *vh.Ctx) {
	seen := map[string]int{}
	for y := 1901; y <= 2099; y++ {
		got := hermes.VerifVWdat("x.", y-1900)
		want := "x." + proj.YearExt(y)
		c.Eval()
		if y >= 1910 && got != want {
			c.Violate("search", "path:year-extension", fmt.Sprintf("year file of %d is %q, expected %q", y, got, want), y)
		}
		if o, dup := seen[got]; dup {
			c.Violate("search", "path:year-extension-collision", fmt.Sprintf("the years %d and %d share the year file %q", o, y, got), y)
		}
		seen[got] = y
	}
	c.Nontrivial("path")
}

func checkC04(c *vh.Ctx) {
	if os.Getenv("VERIF_C04_CHILD") != "" {
		errorStreamStage(c, c.N(60, 500), c.N(1, 12))
		return
	}
	c.Res.Rule = "kernels: generated date sequences (valid, early / mid-year start, over capacity, gaps, year jumps, short years) through the real readers of all three layouts, LoadYear on generated tables, replaceMissingValues / transformWeatherData on generated grids — each compared with the Lean model; whole runs: generated projects x 3 layouts with windows inside the covered period (every simulated day is one evaluation: values = normalised record of the calendar date, counters in lock-step) and the error stream (windows partly outside, gaps, missing / empty year files, short last year; must end with an error); non-trivial = distinct simulated day / distinct generated case"
	pathStage(c)
	readerKernelStage(c, c.N(240, 2500))
	yearFileKernelStage(c, c.N(100, 1000))
	loadYearKernelStage(c, c.N(500, 8000))
	numericKernelStage(c, c.N(250, 3000))
	validRunStage(c, c.N(72, 600))
	startYearStage(c, c.N(4, 60))
	errorStreamViaChild(c)
	// readers + normalisation passes slot by slot (c04_norm.go); after the older stages so that their random streams are unchanged
	normReaderKernelStage(c, c.N(60, 600))
	normYearKernelStage(c, c.N(60, 600))
}
