package main

// C04, the normalisation passes in place: the Lean model HermesModel/WeatherNorm.lean (`normalise`
// = replaceMissingValues + transformWeatherData on the per-year arrays, `runMultiN` / `runPerYearN`
// = whole run with them, driver ops `wxnorm.*`) against the real readers and real runs; it is what
// `C04_weather_of_day_normalised` talks about.
//
//   normReaderKernelStage  ReadWeatherCSV / ReadWeatherCZ on generated gap-free files whose optional and
//                          required columns carry missing-value codes (isolated, in runs, at year ends,
//                          on the first / last day), with and without the precipitation correction
//                          file: every slot of every year array after the reader returns.
//   normYearKernelStage    the same for WetterK (one year file).
//   normRunCollect/Flush   the valid whole runs of validRunStage: the values the day loop hands to the
//                          model on every simulated day (TEMP, VERD, SUND, RAD, REGEN, WIND at TAG).
// Everything is compared bit for bit (no transcendental function is involved).

import (
	"fmt"
	"os"
	"path/filepath"
	"strings"

	"github.com/zalf-rpm/Hermes2Go/hermes"
	"verifharness/proj"
	"verifharness/vh"
)

// rawDay: the six entries the reader stores for a line, before the passes (what the model is fed).
func rawDay(layout int, s *wxSeries, d *wxRec) [6]float64 {
	tmp := d.Tavg
	if layout == 2 {
		tmp = (d.Tmax + d.Tmin) / 2 // ReadWeatherCZ computes the mean itself
	}
	verd, sund := d.Verd, d.Sun
	// a column the file does not have: ReadWeatherCSV starts from the missing-value code, ReadWeatherCZ
	// from the zero value (year files always have both columns)
	absent := wxNone
	if layout == 2 {
		absent = 0
	}
	if layout != 0 {
		if !s.VerdCol {
			verd = absent
		}
		if !s.SunCol {
			sund = absent
		}
	}
	return [6]float64{tmp, verd, sund, d.Rad, d.Precip, d.Wind}
}

func corrOf(s *wxSeries) []float64 {
	c := make([]float64, 12)
	for m := range c {
		c[m] = 1
		if s.Preco != nil {
			c[m] = s.Preco[m]
		}
	}
	return c
}

// sprinkle missing-value codes over a series: isolated, consecutive, first / last line, year ends.
func sprinkleNone(r *vh.Rng, s *wxSeries, required bool) {
	n := len(s.Recs)
	if n == 0 {
		return
	}
	set := func(i int, what int) {
		if i < 0 || i >= n {
			return
		}
		switch what {
		case 0:
			s.Recs[i].Sun = wxNone
		case 1:
			s.Recs[i].Verd = wxNone
		case 2:
			if required {
				s.Recs[i].Rad = wxNone
			}
		case 3:
			if required {
				s.Recs[i].Precip = wxNone
			}
		case 4:
			if required && s.Layout != 2 {
				s.Recs[i].Tavg = wxNone
			}
		}
	}
	for k := 0; k < 3+n/40; k++ {
		i := r.Intn(n)
		w := r.Intn(5)
		set(i, w)
		if r.Chance(0.3) {
			set(i+1, w) // two in a row: the second sees a filled previous neighbour, the first a missing next one
		}
	}
	for i := range s.Recs {
		d := s.Recs[i].Date
		if (d.M == 12 && d.D == 31) || (d.M == 1 && d.D == 1) {
			if r.Chance(0.5) {
				set(i, r.Intn(2))
			}
		}
	}
	if r.Chance(0.5) {
		set(0, r.Intn(2))
	}
	if r.Chance(0.5) {
		set(n-1, r.Intn(2))
	}
	// wind below, at and above the floor
	for k := 0; k < 4; k++ {
		s.Recs[r.Intn(n)].Wind = []float64{0, 0.4, 0.5, 0.6}[r.Intn(4)]
	}
}

func genPreco(r *vh.Rng) []float64 {
	if r.Chance(0.4) {
		return nil
	}
	var p []float64
	for m := 0; m < 12; m++ {
		p = append(p, vh.RoundTo(0.85+0.04*float64(m)+r.Uni(0, 0.02), 2))
	}
	return p
}

func sixOf(sh *hermes.WeatherDataShared, i, t int) []float64 {
	return []float64{sh.TMP[i][t], sh.VERD[i][t], sh.SUND[i][t], sh.RADI[i][t], sh.REG[i][t], sh.WIN[i][t]}
}

func normReaderKernelStage(c *vh.Ctx, n int) {
	var cases, impl []string
	var kept []*seqCase
	dir := filepath.Join(c.Scratch, "normreaders")
	classes := []string{"valid", "valid-early-start", "valid-midyear-start", "over-capacity", "short-last"}
	for k := 0; k < n; k++ {
		layout := 1 + c.Rng.Intn(2)
		var sc *seqCase
		for {
			sc = genSeq(c.Rng, layout)
			ok := false
			for _, cl := range classes {
				if sc.Class == cl {
					ok = true
				}
			}
			if ok {
				break
			}
		}
		ser := seriesOfDates(c.Rng, layout, sc.Dates)
		ser.Preco = genPreco(c.Rng)
		sprinkleNone(c.Rng, ser, true)
		fcode := fmt.Sprintf("n%d", k)
		if err := ser.write(dir, fcode); err != nil {
			panic(err)
		}
		env := newWxEnv(dir, ser.NumHeader, ser.Preco != nil)
		sh := hermes.NewWeatherDataShared(sc.Cap, 360)
		file := filepath.Join(dir, fcode+".csv")
		var err error
		if layout == 1 {
			err = hermes.ReadWeatherCSV(file, sc.StartYear, env.g, &sh, &env.hp, &env.cfg)
		} else {
			err = hermes.ReadWeatherCZ(file, sc.StartYear, env.g, &sh, &env.hp, &env.cfg)
		}
		env.g.Session.Close()
		os.Remove(file)
		c.Eval()
		c.Count(fmt.Sprintf("norm-reader:fmt%d:%s", layout, sc.Class))
		c.Nontrivial(fmt.Sprintf("nr%d", k))
		var b strings.Builder
		fmt.Fprintf(&b, "wxnorm.multi %d %d %s %s %d", sc.StartYear, sc.Cap, vh.FVals(wxNone), vh.FVals(corrOf(ser)...), len(ser.Recs))
		for i := range ser.Recs {
			y, t := ser.Recs[i].modelYD()
			raw := rawDay(layout, ser, &ser.Recs[i])
			fmt.Fprintf(&b, " %d %d %s", y, t, vh.FVals(raw[:]...))
		}
		cases = append(cases, b.String())
		kept = append(kept, sc)
		if err != nil {
			impl = append(impl, "err")
			violate04(c, "search", fmt.Sprintf("reader:rejects-gap-free:fmt%d:%s", layout, sc.Class), "reader returns an error for a gap-free series with missing-value codes: "+err.Error(), sc)
			continue
		}
		var o strings.Builder
		fmt.Fprintf(&o, "%d", yrzOf(&sh))
		for i := 0; i < sc.Cap; i++ {
			fmt.Fprintf(&o, " %d %d", sh.JAR[i], sh.MaxYearDays[i])
			var all []float64
			for t := 0; t < sh.MaxYearDays[i]; t++ {
				all = append(all, sixOf(&sh, i, t)...)
			}
			if len(all) > 0 {
				o.WriteByte(' ')
				o.WriteString(vh.FVals(all...))
			}
		}
		impl = append(impl, o.String())
	}
	saved := kept
	c.Correspond("wxnorm.multi", cases, impl, 0, 0, func(i int) interface{} { return saved[i] })
}

func normYearKernelStage(c *vh.Ctx, n int) {
	var cases, impl []string
	var kept []interface{}
	dir := filepath.Join(c.Scratch, "normyears")
	for k := 0; k < n; k++ {
		y := c.Rng.Range(1950, 2090)
		if c.Rng.Chance(0.4) {
			y = []int{1999, 2000, 1996, 2003, 2004}[c.Rng.Intn(5)]
		}
		nd := daysIn(y)
		if c.Rng.Chance(0.3) {
			nd = c.Rng.Range(1, nd)
		}
		var dates []proj.Date
		for t := 1; t <= nd; t++ {
			dates = append(dates, proj.Date{Y: y, M: 1, D: 1}.AddDays(t-1))
		}
		ser := seriesOfDates(c.Rng, 0, dates)
		ser.Preco = genPreco(c.Rng)
		sprinkleNone(c.Rng, ser, true)
		fcode := fmt.Sprintf("q%d", k)
		if err := ser.write(dir, fcode); err != nil {
			panic(err)
		}
		env := newWxEnv(dir, ser.NumHeader, ser.Preco != nil)
		sh := hermes.NewWeatherDataShared(1, 360)
		file := hermes.VerifVWdat(filepath.Join(dir, fcode+"."), y-1900)
		err := hermes.WetterK(file, y, env.g, &sh, &env.hp, &env.cfg)
		env.g.Session.Close()
		os.Remove(file)
		c.Eval()
		c.Count("norm-yearfile")
		c.Nontrivial(fmt.Sprintf("ny%d", k))
		var b strings.Builder
		fmt.Fprintf(&b, "wxnorm.year %d %s %s %d", y, vh.FVals(wxNone), vh.FVals(corrOf(ser)...), len(ser.Recs))
		for i := range ser.Recs {
			raw := rawDay(0, ser, &ser.Recs[i])
			fmt.Fprintf(&b, " %d %s", ser.Recs[i].fileDoy(), vh.FVals(raw[:]...))
		}
		cases = append(cases, b.String())
		kept = append(kept, map[string]interface{}{"year": y, "lines": nd, "preco": ser.Preco})
		if err != nil {
			impl = append(impl, "err")
			violate04(c, "search", "yearfile:rejects-gap-free", "WetterK returns an error for a year file with the lines 1 … n: "+err.Error(), kept[len(kept)-1])
			continue
		}
		var all []float64
		for t := 0; t < nd; t++ {
			all = append(all, sixOf(&sh, 0, t)...)
		}
		impl = append(impl, vh.FVals(all...))
	}
	saved := kept
	c.Correspond("wxnorm.year", cases, impl, 0, 0, func(i int) interface{} { return saved[i] })
}

// ---------------------------------------------------------------- whole runs

var normRunCases, normRunImpl []string
var normRunKept []*runCase

// normRunCollect: one valid whole run (no error) as a case of the normalised run model.
func normRunCollect(c *vh.Ctx, rc *runCase, o *runOut) {
	if o.Err != "" || o.Panic != "" || len(o.Obs) == 0 {
		return
	}
	L := rc.S.Layout
	start, end := rc.P.Start(), effEnd(rc.P)
	ndays := end.Z() - start.Z() + 1
	// which entries of the day arrays are comparable
	mask := 1 | 8 | 16
	anyVerd, anySun := false, false // layout 0: the flags are part of the model (runPerYearL)
	for i := range rc.S.Recs {
		d := &rc.S.Recs[i]
		if d.Date.Y < rc.startYear() {
			continue
		}
		raw := rawDay(L, rc.S, d)
		if raw[1] != wxNone && (L == 0 || raw[1] > 0) {
			anyVerd = true
		}
		_ = anySun
	}
	// LoadYear copies VERD / SUND only when the reader has seen the column (layouts 1, 2: hasSUND with the
	// column, hasVERD with a positive value; layout 0: any value that is not the missing-value code)
	// (layout 0: the model carries the flags itself, year by year — runPerYearL)
	if (L != 0 && rc.S.VerdCol && anyVerd) || L == 0 {
		mask |= 2
	}
	if (L != 0 && rc.S.SunCol) || L == 0 {
		mask |= 4
	}
	windOK := true
	for _, d := range o.Obs {
		if !(d.WindHi == 2 || d.WindHi == 0) {
			windOK = false // Evatra rescales WIND[TAG] to 2 m before the probe
		}
	}
	if windOK {
		mask |= 32
	}
	var b strings.Builder
	head := fmt.Sprintf("%d %s %s", mask, vh.FVals(wxNone), vh.FVals(corrOf(rc.S)...))
	if L == 0 {
		type yf struct {
			y    int
			recs []*wxRec
		}
		var files []yf
		for i := range rc.S.Recs {
			d := &rc.S.Recs[i]
			if len(files) == 0 || files[len(files)-1].y != d.fileYear() {
				files = append(files, yf{y: d.fileYear()})
			}
			files[len(files)-1].recs = append(files[len(files)-1].recs, d)
		}
		fmt.Fprintf(&b, "wxnorm.runyears %d %d %d %d %s %d", rc.startYear(), start.Z(), start.DOY(), ndays, head, len(files))
		for _, f := range files {
			fmt.Fprintf(&b, " %d %d", f.y, len(f.recs))
			for _, d := range f.recs {
				raw := rawDay(0, rc.S, d)
				fmt.Fprintf(&b, " %d %s", d.fileDoy(), vh.FVals(raw[:]...))
			}
		}
	} else {
		cap := end.Y - rc.startYear() + 1
		fmt.Fprintf(&b, "wxnorm.runmulti %d %d %d %d %d %s %d", rc.startYear(), cap, start.Z(), start.DOY(), ndays, head, len(rc.S.Recs))
		for i := range rc.S.Recs {
			y, t := rc.S.Recs[i].modelYD()
			raw := rawDay(L, rc.S, &rc.S.Recs[i])
			fmt.Fprintf(&b, " %d %d %s", y, t, vh.FVals(raw[:]...))
		}
	}
	var ob strings.Builder
	for i, d := range o.Obs {
		if i > 0 {
			ob.WriteByte(' ')
		}
		fmt.Fprintf(&ob, "%d %d %d %d", d.Zeit, d.J, d.Tag+1, d.Jtag)
		six := []float64{d.Temp, d.Verd, d.Sund, d.Rad, d.RegenD, d.Wind}
		var sel []float64
		for k, x := range six {
			if mask&(1<<uint(k)) != 0 {
				sel = append(sel, x)
			}
		}
		ob.WriteByte(' ')
		ob.WriteString(vh.FVals(sel...))
	}
	c.Count(fmt.Sprintf("norm-run:fmt%d:mask=%d", L, mask))
	normRunCases = append(normRunCases, b.String())
	normRunImpl = append(normRunImpl, ob.String())
	normRunKept = append(normRunKept, rc)
}

func normRunFlush(c *vh.Ctx) {
	kept := normRunKept
	c.Correspond("wxnorm.run(valid runs)", normRunCases, normRunImpl, 0, 0, func(i int) interface{} { return kept[i].replay(nil) })
	normRunCases, normRunImpl, normRunKept = nil, nil, nil
}
