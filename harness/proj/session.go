package proj

import (
	"fmt"
	"sync"
	"time"

	"github.com/zalf-rpm/Hermes2Go/hermes"

	"verifharness/vh"
)

// RunSession executes several batch lines in ONE hermes session (shared file pool and whatever else
// a session shares), sequentially or overlapping in time, without probes. All result files are
// captured in one MemOut; give the lines different poligonID / plotNr values to tell them apart.
func RunSession(root string, lines [][]string, concurrent bool) (*MemOut, []*RunResult) {
	runMu.Lock()
	defer runMu.Unlock()
	hermes.VerifProbe = nil
	vh.Crumb("session-run", map[string]interface{}{"root": root, "lines": lines, "concurrent": concurrent})
	session := hermes.NewHermesSession()
	defer session.Close()
	mo := &MemOut{}
	session.HermesOutWriter = mo.Gen
	results := make([]*RunResult, len(lines))
	one := func(i int) {
		res := &RunResult{Out: mo}
		out := make(chan *hermes.RunReturn, 1)
		logs := make(chan string, 4096)
		done := make(chan struct{})
		go func() {
			for l := range logs {
				res.Log = append(res.Log, l)
			}
			close(done)
		}()
		t0 := time.Now()
		func() {
			defer func() {
				if r := recover(); r != nil {
					res.Panic = fmt.Sprint(r)
				}
			}()
			session.Run(root, lines[i], fmt.Sprintf("line%d", i), out, logs)
		}()
		res.Elapsed = time.Since(t0)
		close(logs)
		<-done
		select {
		case rr := <-out:
			res.Err = rr.Err
		default:
			if res.Panic == "" {
				res.Panic = "no result returned"
			}
		}
		results[i] = res
	}
	if concurrent {
		var wg sync.WaitGroup
		for i := range lines {
			wg.Add(1)
			go func(i int) { defer wg.Done(); one(i) }(i)
		}
		wg.Wait()
	} else {
		for i := range lines {
			one(i)
		}
	}
	return mo, results
}
