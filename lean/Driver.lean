import Driver.WaterOps
