/-
Model of the schedule readers of hermes/input.go (irrigation 308-324, tillage 654-673,
fertiliser 683-…, rotation 413-…): an outer loop over the lines of the file and an inner
`for ok := …; ok; ok = SCHLAG == g.PKT && valid` loop over the consecutive lines of the run's field,
both driven by `NextLineInut` (helper.go:29-41).  The loops are transcribed with explicit fuel
(`none` = fuel exhausted), so that "the reader terminates" is a theorem — every iteration consumes
a line — and not a property of how the model happens to be written.  Core Lean only.
-/
namespace Hermes.Readers

/-- one record line: field id and an abstract payload -/
structure Rec where
  id : Nat
  payload : Nat
  deriving DecidableEq, Repr

/-- A line of the file as `NextLineInut` sees it: `none` = fewer tokens than the id column needs
(`valid = false`, e.g. a blank line or the closing `end`-less tail). -/
abbrev Line := Option Rec

/-- `NextLineInut` (helper.go:29-41): at end of file `scanner.Scan()` is false, `valid = false`. -/
def nextLine : List Line → Line × List Line
  | [] => (none, [])
  | x :: r => (x, r)

/-- The inner loop: `for ok := SCHLAG == PKT; ok; ok = SCHLAG == PKT && valid { use the line;
SCHLAG, tokens, valid = NextLineInut(…) }`. Returns the line it stopped at, the unread rest and the
records used. -/
def inner (pkt : Nat) : Nat → Line → List Line → List Rec → Option (Line × List Line × List Rec)
  | 0, _, _, _ => none
  | fuel + 1, cur, rest, acc =>
    match cur with
    | none => some (cur, rest, acc)
    | some r =>
      if r.id = pkt then inner pkt fuel (nextLine rest).1 (nextLine rest).2 (acc ++ [r])
      else some (cur, rest, acc)

/-- The outer loop: `for SCHLAG, tokens, valid := NextLineInut(…); valid; SCHLAG, tokens, valid =
NextLineInut(…) { inner loop }`. -/
def outer (pkt : Nat) : Nat → Line → List Line → List Rec → Option (List Rec)
  | 0, _, _, _ => none
  | fuel + 1, cur, rest, acc =>
    match cur with
    | none => some acc
    | some _ =>
      match inner pkt fuel cur rest acc with
      | none => none
      | some (_, rest', acc') => outer pkt fuel (nextLine rest').1 (nextLine rest').2 acc'

/-- A reader: header lines are skipped with `LineInut` before, then the loops run. -/
def readSchedule (pkt : Nat) (fuel : Nat) (lines : List Line) : Option (List Rec) :=
  outer pkt fuel (nextLine lines).1 (nextLine lines).2 []

end Hermes.Readers
