package main

import (
	"fmt"
	"os"
	"path/filepath"
	"regexp"
	"sort"
	"strconv"
	"strings"
	"time"

	"verifharness/vh"
)

// c17EndToEnd: the property end to end on batch files of every shape — the ranges the calculator
// prints for the file, each handed to the simulator's -lines option on the SAME file, must together
// execute every non-empty batch line exactly once. A line is identified by its CONTENT (the k-th
// non-empty line fails fast with an error naming L<k>), not by the position the tools assign to it,
// so the two tools must agree on what "line k" means also with blank lines, CRLF endings and a
// missing final newline.
func c17EndToEnd(c *vh.Ctx, calc, h2g string) {
	type e2e struct {
		n, nodes        int
		crlf, final     bool
		blanks          string
		bytes           []byte
		size, list, err string
		executed        []int
	}
	nCases := c.N(36, 400)
	cases := make([]e2e, nCases)
	for i := range cases {
		r := c.Rng
		cs := &cases[i]
		cs.n = r.Range(1, 14)
		cs.nodes = r.Range(1, 9)
		cs.crlf = r.Chance(0.5)
		cs.final = r.Chance(0.6)
		// "whitespace": lines of blanks / tabs only between the lines (not empty: both tools count them, the simulator
		// runs them and reports the missing arguments); "mixed-eol": LF and CRLF in one file, empty lines between;
		// "tokens": tabs and several blanks between the tokens, leading and trailing blanks
		cs.blanks = []string{"none", "between", "leading", "trailing", "many", "whitespace", "mixed-eol", "tokens"}[i%8]
		rx := vh.NewRng(c.Seed ^ uint64(i+1)*0x9e3779b97f4a7c15 ^ 0xe2e17) // the added shapes draw from their own generator
		eol1 := "\n"
		if cs.crlf {
			eol1 = "\r\n"
		}
		eol := func() string {
			if cs.blanks == "mixed-eol" && rx.Chance(0.5) {
				return map[string]string{"\n": "\r\n", "\r\n": "\n"}[eol1]
			}
			return eol1
		}
		sep, lead, trail := " ", "", ""
		var sb strings.Builder
		if cs.blanks == "leading" || cs.blanks == "many" {
			sb.WriteString(eol())
		}
		if cs.blanks == "whitespace" && rx.Chance(0.4) {
			sb.WriteString(" " + eol())
		}
		for k := 1; k <= cs.n; k++ {
			if cs.blanks == "tokens" {
				sep = []string{"\t", "  ", " \t ", "    "}[rx.Intn(4)]
				lead, trail = []string{"", " ", "\t"}[rx.Intn(3)], []string{"", " ", " \t"}[rx.Intn(3)]
			}
			fmt.Fprintf(&sb, "%sproject=p%splotNr=1%sCropFile=none%sc_L%d=1%s", lead, sep, sep, sep, k, trail)
			if k < cs.n || cs.final {
				sb.WriteString(eol())
			}
			if k < cs.n && (cs.blanks == "between" && r.Chance(0.4) || cs.blanks == "many" && r.Chance(0.7)) {
				sb.WriteString(eol())
				if r.Chance(0.3) {
					sb.WriteString(eol())
				}
			}
			if k < cs.n && cs.blanks == "mixed-eol" && rx.Chance(0.4) {
				sb.WriteString(eol())
			}
			if k < cs.n && cs.blanks == "whitespace" && rx.Chance(0.5) {
				sb.WriteString([]string{" ", "\t", "   ", " \t"}[rx.Intn(4)] + eol())
				if rx.Chance(0.3) {
					sb.WriteString(eol()) // and an empty one
				}
			}
		}
		if cs.final && (cs.blanks == "trailing" || cs.blanks == "many") {
			sb.WriteString(eol())
		}
		if cs.final && cs.blanks == "whitespace" && rx.Chance(0.4) {
			sb.WriteString("\t") // the file ends with a line of one tab, no line end
		}
		cs.bytes = []byte(sb.String())
	}
	nameRe := regexp.MustCompile(`invalid crop parameter name: L(\d+)`)
	vh.Parallel(nCases, 12, func(i int) {
		cs := &cases[i]
		dir := filepath.Join(c.Scratch, fmt.Sprintf("e2e%d", i))
		os.MkdirAll(dir, 0o755)
		defer os.RemoveAll(dir)
		p := filepath.Join(dir, "batch.txt")
		os.WriteFile(p, cs.bytes, 0o644)
		so, se, err := vh.RunTool(20*time.Second, dir, calc, optionOrder(i, []string{"-size", strconv.Itoa(cs.nodes)}, []string{"-batch", p})...)
		if err != nil {
			cs.err = fmt.Sprintf("calcHermesBatch -size: %v %s", err, se)
			return
		}
		cs.size = strings.TrimSpace(so)
		so, se, err = vh.RunTool(20*time.Second, dir, calc, optionOrder(i/2, []string{"-list", strconv.Itoa(cs.nodes)}, []string{"-batch", p})...)
		if err != nil {
			cs.err = fmt.Sprintf("calcHermesBatch -list: %v %s", err, se)
			return
		}
		cs.list = strings.TrimSpace(so)
		for _, rg := range strings.Fields(cs.list) {
			so, se, err := vh.RunTool(60*time.Second, dir, h2g, optionOrder(cs.nodes+len(cs.executed)+len(rg), []string{"-module", "batch"}, []string{"-concurrent", "2"}, []string{"-batch", p}, []string{"-lines", rg})...)
			if err != nil {
				cs.err = fmt.Sprintf("hermes2go -lines %s: %v %s", rg, err, se)
				return
			}
			for _, m := range nameRe.FindAllStringSubmatch(so+se, -1) {
				v, _ := strconv.Atoi(m[1])
				cs.executed = append(cs.executed, v)
			}
		}
		sort.Ints(cs.executed)
	})
	for i := range cases {
		cs := &cases[i]
		c.Eval()
		shape := fmt.Sprintf("crlf=%v:blanks=%s:final=%v", cs.crlf, cs.blanks, cs.final)
		c.Count("e2e:blanks=" + cs.blanks)
		c.Nontrivial(fmt.Sprintf("e2e:%d/%d:%s", cs.n, cs.nodes, shape))
		replay := map[string]interface{}{"non_empty_lines": cs.n, "nodes": cs.nodes, "file_quoted": strconv.Quote(string(cs.bytes)), "size": cs.size, "list": cs.list, "executed_line_numbers": cs.executed,
			"how": "calcHermesBatch -size/-list <nodes> -batch file; hermes2go -module batch -batch file -lines <each range>; executed lines read from 'invalid crop parameter name: L<k>'"}
		if cs.err != "" {
			c.Violate("search", "e2e:crash:blanks="+cs.blanks, cs.err, replay)
			continue
		}
		var missing, twice []int
		cnt := map[int]int{}
		for _, v := range cs.executed {
			cnt[v]++
		}
		for k := 1; k <= cs.n; k++ {
			if cnt[k] == 0 {
				missing = append(missing, k)
			} else if cnt[k] > 1 {
				twice = append(twice, k)
			}
		}
		if len(missing) > 0 {
			c.Violate("search", "e2e:line-never-executed:blanks="+cs.blanks, fmt.Sprintf("%d non-empty lines, %d nodes (%s): ranges %q execute lines %v — never executed: %v", cs.n, cs.nodes, shape, cs.list, cs.executed, missing), replay)
		}
		if len(twice) > 0 {
			c.Violate("search", "e2e:line-executed-twice:blanks="+cs.blanks, fmt.Sprintf("%d non-empty lines, %d nodes (%s): ranges %q execute lines %v — more than once: %v", cs.n, cs.nodes, shape, cs.list, cs.executed, twice), replay)
		}
		if nr := len(strings.Fields(cs.list)); strconv.Itoa(nr) != cs.size {
			c.Violate("search", "e2e:size-vs-ranges:blanks="+cs.blanks, fmt.Sprintf("%d ranges printed, job-array size reported %s (%s)", nr, cs.size, shape), replay)
		}
	}
}
