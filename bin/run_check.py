#!/usr/bin/env python3
"""run_check.py <Cxx> <quick|thorough> [--replay file]

One check run (DESIGN.md §3.1):
  1. regenerate the facts extracted from /repo, rebuild the Go harness against /repo (-tags verif),
     build the Lean theorems of the property and the model driver;
  2. proof stage: theorems build, axiom audit, forbidden-token scan (thorough: leanchecker);
  3.+4. correspondence and search stages (harness/bin/check, which calls the real code and the
     Lean model driver on the same cases and evaluates the property on the implementation);
  5. decision, VIOLATION / KNOWN-FINDING lines, exit code;  6. evidence file.
"""
import fcntl
import json
import os
import re
import subprocess
import sys
import time

VERIF = os.environ.get("VERIF_DIR", "/verif")
REPO = os.environ.get("VERIF_REPO", "/repo")
LEAN = os.path.join(VERIF, "lean")
HARNESS = os.path.join(VERIF, "harness")
ALLOWED_AXIOMS = {"propext", "Classical.choice", "Quot.sound"}
FORBIDDEN = re.compile(r"\bsorry\b|\badmit\b|^\s*axiom\s|native_decide|bv_decide|implemented_by|\bunsafe\s|maxHeartbeats\s+0\b", re.M)

GOENV = dict(os.environ, GOWORK="off", GOFLAGS="-mod=mod", GOPROXY="off", GOSUMDB="off", GOTOOLCHAIN="local")



def load_props(prop):
    return json.load(open(os.path.join(VERIF, "bin", "props", prop + ".json")))


def sh(cmd, cwd=None, env=None, timeout=None):
    p = subprocess.run(cmd, cwd=cwd, env=env, stdout=subprocess.PIPE, stderr=subprocess.STDOUT, text=True, timeout=timeout)
    return p.returncode, p.stdout


def strip_comments(src):
    src = re.sub(r"/-.*?-/", "", src, flags=re.S)
    src = re.sub(r"--.*", "", src)
    return src


class Lock:
    def __init__(self, path):
        self.path = path

    def __enter__(self):
        self.f = open(self.path, "w")
        fcntl.flock(self.f, fcntl.LOCK_EX)

    def __exit__(self, *a):
        fcntl.flock(self.f, fcntl.LOCK_UN)
        self.f.close()


def load_known():
    known, fixed = [], []
    p = os.path.join(VERIF, "known_findings.txt")
    if os.path.exists(p):
        for line in open(p):
            line = line.strip()
            m = re.match(r"known:\s+property=(\S+)\s+signature=(\S+)\s+(.*)", line)
            if m:
                known.append({"property": m.group(1), "signature": m.group(2), "what": m.group(3)})
            m = re.match(r"fixed:\s+property=(\S+)\s+(\S+)\s+(.*)", line)
            if m:
                fixed.append({"property": m.group(1), "commit": m.group(2), "what": m.group(3)})
    return known, fixed


def sig_matches(entry_sig, sig):
    if entry_sig.startswith("re:"):
        return re.fullmatch(entry_sig[3:], sig) is not None
    return entry_sig == sig


def main():
    if len(sys.argv) < 3:
        print(__doc__)
        sys.exit(2)
    prop, tier = sys.argv[1], sys.argv[2]
    replay_in = None
    if "--replay" in sys.argv:
        replay_in = sys.argv[sys.argv.index("--replay") + 1]
    if tier not in ("quick", "thorough"):
        tier = os.environ.get("VERIF_TIER", "quick")
    seed = int(os.environ.get("VERIF_SEED", "1") or "1")
    if replay_in:
        # a replay re-runs the check deterministically with the seed and tier recorded in the replay file:
        # every generated case derives from that one PRNG state, so the failing input is regenerated exactly
        try:
            rj = json.load(open(replay_in))
            seed = int(rj.get("seed", seed))
            tier = rj.get("tier", tier)
        except Exception as e:  # noqa: BLE001
            print("cannot read replay file %s: %s" % (replay_in, e))
            sys.exit(2)
    cfg = load_props(prop)
    t0 = time.time()
    os.makedirs(os.path.join(VERIF, "evidence"), exist_ok=True)
    os.makedirs(os.path.join(VERIF, "replays"), exist_ok=True)
    evidence_path = os.path.join(VERIF, "evidence", prop + ".json")
    try:
        os.remove(evidence_path)
    except FileNotFoundError:
        pass

    failures = []  # (stage, signature, what, replay-payload)  for proof / build / correspondence
    proof = {"obligations": 0, "discharged": 0, "theorems": [], "axioms": [], "leanchecker": None, "extracted_facts": None}

    # ------------------------------------------------------------------ 1. regenerate + build
    with Lock(os.path.join(VERIF, ".build.lock")):
        # Go harness against /repo's working tree, hooks on
        rc, out = sh(["cp", os.path.join(REPO, "hermes", "go.sum"), os.path.join(HARNESS, "go.sum")])
        rc, out = sh(["go", "build", "-tags", "verif", "-o", os.path.join(HARNESS, "bin", "check"), "./cmd/check"], cwd=HARNESS, env=GOENV, timeout=900)
        harness_ok = rc == 0
        if not harness_ok:
            failures.append(("correspondence", "build:harness", "the harness no longer builds against /repo (hooks or exported API changed):\n" + out[-3000:], None))
        rc, out = sh(["go", "build", "-o", os.path.join(HARNESS, "bin", "extract"), "./cmd/extract"], cwd=HARNESS, env=GOENV, timeout=900)
        if rc != 0:
            failures.append(("proof", "build:extract", "fact extractor does not build:\n" + out[-2000:], None))
        else:
            gen_dir = os.path.join(LEAN, "HermesModel", "Generated")
            rc, out = sh([os.path.join(HARNESS, "bin", "extract"), "-repo", REPO, "-out", gen_dir, "-facts", os.path.join(VERIF, "evidence", "facts.json")], timeout=300)
            if rc != 0:
                failures.append(("proof", "extract:failed", "fact extraction from /repo failed (source shape changed):\n" + out[-3000:], None))
            else:
                proof["extracted_facts"] = out.strip().splitlines()[-1] if out.strip() else "ok"
        # Lean: root files / driver dispatch from the directory listing, property theorems + driver
        sh([sys.executable, os.path.join(VERIF, "bin", "gen_roots.py")], env=dict(os.environ, VERIF_DIR=VERIF))
        targets = list(cfg["lean_modules"]) + ["HermesProps.AuditCmd", "hermes_driver"]
        rc, out = sh(["lake", "build"] + targets, cwd=LEAN, timeout=3000)
        lean_ok = rc == 0
        driver_ok = lean_ok
        if not lean_ok:
            errs = [l for l in out.splitlines() if "error" in l.lower()]
            failures.append(("proof", "lean:build", "Lean build failed — a theorem (or a regenerated fact it depends on) no longer checks:\n" + "\n".join(errs[:40]),
                             {"theorem_or_module": errs[:10], "log_tail": out[-4000:]}))
            # the model driver needs the models only: if it still builds, the failing-input search on the
            # implementation (and the correspondence) run although a theorem no longer checks
            rc2, out2 = sh(["lake", "build", "hermes_driver"], cwd=LEAN, timeout=3000)
            driver_ok = rc2 == 0

    # ------------------------------------------------------------------ 2. proof stage
    declared = []
    for mod in cfg["lean_modules"]:
        path = os.path.join(LEAN, mod.replace(".", "/") + ".lean")
        src = strip_comments(open(path).read())
        declared += re.findall(r"^theorem\s+(" + prop + r"_\w+)", src, flags=re.M)
    proof["obligations"] = len(declared)
    if lean_ok:
        audit_src = "import HermesProps.AuditCmd\n" + "".join("import %s\n" % m for m in cfg["lean_modules"]) + '#audit_prefix "%s_"\n' % prop
        audit_file = os.path.join(LEAN, ".lake", "audit_%s_%d.lean" % (prop, os.getpid()))
        open(audit_file, "w").write(audit_src)
        rc, out = sh(["lake", "env", "lean", audit_file], cwd=LEAN, timeout=1200)
        os.remove(audit_file)
        seen = {}
        for line in out.splitlines():
            m = re.search(r"AUDIT (\S+) \[(.*)\]", line)
            if m:
                axs = [a.strip() for a in m.group(2).split(",") if a.strip()]
                seen[m.group(1).split(".")[-1]] = axs
        for name in declared:
            if name not in seen:
                failures.append(("proof", "lean:missing:" + name, "theorem %s is declared but was not found by the audit" % name, {"theorem": name}))
                continue
            bad = [a for a in seen[name] if a not in ALLOWED_AXIOMS]
            if bad:
                failures.append(("proof", "lean:axioms:" + name, "theorem %s depends on axioms outside the trusted base: %s" % (name, bad), {"theorem": name, "axioms": bad}))
            else:
                proof["discharged"] += 1
            proof["theorems"].append(name)
            for a in seen[name]:
                if a not in proof["axioms"]:
                    proof["axioms"].append(a)
        # forbidden tokens anywhere in the Lean sources
        for root, _, files in os.walk(LEAN):
            if ".lake" in root:
                continue
            for fn in files:
                if fn.endswith(".lean"):
                    src = strip_comments(open(os.path.join(root, fn)).read())
                    m = FORBIDDEN.search(src)
                    if m:
                        failures.append(("proof", "lean:forbidden:" + fn, "forbidden token %r in %s" % (m.group(0), fn), {"file": fn}))
        if tier == "thorough":
            for mod in cfg["lean_modules"]:
                rc, out = sh(["lake", "env", "leanchecker", mod], cwd=LEAN, timeout=3000)
                proof["leanchecker"] = "ok" if rc == 0 else out[-500:]
                if rc != 0:
                    failures.append(("proof", "leanchecker:" + mod, "leanchecker rejects %s: %s" % (mod, out[-1500:]), {"module": mod}))

    # ------------------------------------------------------------------ 3+4. harness
    res = None
    if harness_ok and driver_ok:
        res_path = os.path.join(VERIF, "evidence", ".%s_%d.harness.json" % (prop, os.getpid()))
        cmd = [os.path.join(HARNESS, "bin", "check"), "-prop", prop, "-tier", tier, "-seed", str(seed), "-out", res_path]
        if replay_in:
            cmd += ["-replay", replay_in]
        env = dict(os.environ, VERIF_DIR=VERIF, VERIF_REPO=REPO)
        try:
            rc, out = sh(cmd, cwd=HARNESS, env=env, timeout=cfg.get("timeout_" + tier, 3000))
        except subprocess.TimeoutExpired:
            rc, out = 124, "timeout"
        if os.path.exists(res_path):
            try:
                res = json.load(open(res_path))
            except Exception as e:  # noqa: BLE001
                failures.append(("search", "harness:result-unreadable", "the harness result cannot be read (%s):\n%s" % (e, out[-2000:]), {"output_tail": out[-2000:]}))
            os.remove(res_path)
        else:
            failures.append(("search", "harness:crash", "the harness did not finish (exit %s):\n%s" % (rc, out[-3000:]), {"output_tail": out[-3000:]}))

    # ------------------------------------------------------------------ 5. decision
    known, fixed = load_known()
    known = [k for k in known if k["property"] == prop]
    viol_lines, known_lines = [], []
    search_viol, other_viol = [], []
    for v in (res or {}).get("violations") or []:
        (search_viol if v["stage"] == "search" else other_viol).append(v)
    for st, sig, what, payload in failures:
        other_viol.append({"stage": st, "signature": sig, "what": what, "replay": payload})
    n = 0
    reported = []
    known_hit = set()
    for v in search_viol:
        k = next((k for k in known if sig_matches(k["signature"], v["signature"])), None)
        if k:
            if k["signature"] not in known_hit:
                known_hit.add(k["signature"])
                known_lines.append("KNOWN-FINDING: property=%s %s [%s]" % (prop, k["what"], v["signature"]))
            continue
        n += 1
        rp = os.path.join(VERIF, "replays", "%s-%s-%d-%d.json" % (prop, tier, seed, n))
        json.dump({"property": prop, "tier": tier, "seed": seed, "stage": v["stage"], "signature": v["signature"], "what": v["what"],
                   "replay": v["replay"], "replay_cmd": "bin/run_check.sh %s %s --replay %s" % (prop, tier, rp)}, open(rp, "w"), indent=1)
        viol_lines.append("VIOLATION property=%s replay=%s" % (prop, rp))
        reported.append(v)
    if not viol_lines and other_viol:
        # proof or correspondence broke and the search found no failing input on the implementation
        rp = os.path.join(VERIF, "replays", "%s-%s-%d-unproved.json" % (prop, tier, seed))
        json.dump({"property": prop, "tier": tier, "seed": seed,
                   "no_longer_checks": [{"stage": v["stage"], "what": v["what"], "signature": v["signature"], "detail": v["replay"]} for v in other_viol],
                   "note": "the property is no longer shown to hold: the named theorem / correspondence fails; the failing-input search on the implementation found nothing"},
                  open(rp, "w"), indent=1)
        viol_lines.append("VIOLATION property=%s replay=%s no-failing-input-found" % (prop, rp))
    elif viol_lines and other_viol:
        pass  # the concrete violations are the report; proof/correspondence failures are in the evidence

    # ------------------------------------------------------------------ 6. evidence
    wall = time.time() - t0
    cov = {
        "obligations": max(proof["obligations"], 1),
        "discharged": proof["discharged"],
        "checker_cmd": "cd lean && lake build %s && lake env lean <audit: #audit_prefix \"%s_\">%s" % (" ".join(cfg["lean_modules"]), prop, " && lake env leanchecker " + " ".join(cfg["lean_modules"]) if tier == "thorough" else ""),
        "trusted_base": ["Lean 4.33.0 kernel", "axioms used: " + ", ".join(sorted(proof["axioms"])) if proof["axioms"] else "axioms used: none",
                         "hand-written Lean model tied to /repo by the correspondence check (harness/cmd/check) and by facts regenerated from the source (harness/cmd/extract)",
                         "Go harness, comparison rules, driver parser"] + cfg.get("trusted", []),
        "theorems": proof["theorems"],
        "leanchecker": proof["leanchecker"],
        "extracted_facts": proof["extracted_facts"],
        "evaluations": (res or {}).get("evaluations", 0),
        "distinct_nontrivial": (res or {}).get("distinct_nontrivial", 0),
        "rule": (res or {}).get("rule", ""),
        "samples": (res or {}).get("samples") or [{"note": "harness did not run"}],
        "exhaustive": bool((res or {}).get("exhaustive", False)),
        "correspondence_cases": (res or {}).get("corr_cases", 0),
        "correspondence_bit_exact": (res or {}).get("corr_bit_exact", 0),
        "correspondence_disagreements": (res or {}).get("corr_disagreements", 0),
        "input_distribution": (res or {}).get("distribution", {}),
        "extra": (res or {}).get("extra", {}),
        "notes": (res or {}).get("notes") or [],
        "known_findings_reproduced": sorted(known_hit),
        "known_findings_stale": sorted(k["signature"] for k in known if k["signature"] not in known_hit),
        "proof_or_correspondence_failures": [{"stage": v["stage"], "signature": v["signature"], "what": v["what"][:500]} for v in other_viol],
    }
    ev = {
        "property_id": prop, "tier": tier, "seed": seed, "level": cfg.get("level", "proof"),
        "coverage": cov, "assumptions": cfg.get("assumptions", []), "wall_s": round(wall, 2),
        "violations": len(reported) + (1 if (not reported and other_viol) else 0),
    }
    json.dump(ev, open(evidence_path, "w"), indent=1)

    for l in known_lines:
        print(l)
    for l in viol_lines:
        print(l)
    if viol_lines:
        for v in (reported or other_viol)[:5]:
            print("  [%s] %s: %s" % (v["stage"], v["signature"], v["what"][:400].replace("\n", " | ")))
        sys.exit(1)
    print("OK property=%s tier=%s seed=%d theorems=%d/%d evaluations=%d corr=%d wall=%.1fs" % (
        prop, tier, seed, proof["discharged"], proof["obligations"], cov["evaluations"], cov["correspondence_cases"], wall))
    sys.exit(0)


if __name__ == "__main__":
    main()
