/-
Model of the assignment of the soil hydraulic parameters (property C15), a transcription of the Go
code as it is:

* the four pedotransfer functions `PTF1..4`            hermes/input.go:1107-1144
* the explicit route and the table route per layer     hermes/input.go:192-273
* `Hydro` (HYPAR.TRU row × density class, organic-matter and groundwater corrections)
                                                       hermes/input.go:1184-1208, 1210-1408
* `calcWRed`, `setFieldCapacityWithGW`                 hermes/init.go:90-109
* backups and the saturated zone at input time         hermes/input.go:274-290
* the groundwater-change step of the day loop          hermes/run.go:359-409

Polymorphic in the arithmetic (see Num.lean): instantiated at `Float` in the driver and at `ℚ` in
the proofs.  Every numeric constant is written as a decimal literal (`OfScientific`), so the two
interpretations need no other literal class.  The HYPAR.TRU rows come from the regenerated
`Generated/HyparFacts.lean`; texture names are lists of character codes.

`math.Pow(x,2)`, `math.Pow(x,3)` (PTF4): Go's `Pow` with an integral exponent multiplies the
mantissas by repeated squaring, which for the exponents 2 and 3 is exactly `x*x` and `x*(x*x)` in
IEEE arithmetic; the correspondence check compares bit patterns, so this reading is tested.

Not transcribed (outside C15): CAPS from PARCAP.TRU, IZM, PROP, WUMAX; the `FELDW == 0` fallback to
the previous horizon (input.go:198-200) — unreachable for density classes 1-5 because every cell of
the table has a non-zero corrected field capacity (proved as part of the table theorem).
-/
import HermesModel.Num
import HermesModel.Generated.HyparFacts
namespace Hermes.SoilParams

section
variable {α : Type} [Add α] [Sub α] [Mul α] [Div α] [Neg α] [LT α] [DecidableLT α]
  [OfScientific α] [Conv α]

/-! ### pedotransfer functions (input.go:1107-1144) -/

/-- `PTF1` (Toth 2015): (field capacity, wilting point) from C_org, clay, silt in percent. -/
def ptf1 (c ton sluf : α) : α × α :=
  let u : α := 1.0 / (c + 1.0)
  (0.2449 - 0.1887 * u + 0.004527 * ton + 0.001535 * sluf + 0.001442 * sluf * u
      - 0.0000511 * sluf * ton + 0.0008676 * ton * u,
   0.09878 + 0.002127 * ton - 0.0008366 * sluf - 0.0767 * u + 0.00003853 * sluf * ton
      + 0.00233 * ton * u + 0.0009498 * sluf * u)

/-- `PTF2` (Batjes, pF 2.5) -/
def ptf2 (c ton sluf : α) : α × α :=
  ((0.46 * ton + 0.3045 * sluf + 2.0703 * c) / 100.0,
   (0.3624 * ton + 0.117 * sluf + 1.6054 * c) / 100.0)

/-- `PTF3` (Batjes, pF 1.7) -/
def ptf3 (c ton sluf : α) : α × α :=
  ((0.6681 * ton + 0.2614 * sluf + 2.215 * c) / 100.0,
   (0.3624 * ton + 0.117 * sluf + 1.6054 * c) / 100.0)

/-- `math.Pow(x, 2)` -/
def pow2 (x : α) : α := x * x
/-- `math.Pow(x, 3)` -/
def pow3 (x : α) : α := x * (x * x)

/-- the polynomial of `PTF4` for the field capacity, in the scaled variables -/
def ptf4FcPoly (ix ix2 ix3 yps yps2 yps3 zet zet2 zet3 : α) : α :=
  (29.7528 + 10.3544 * (0.0461615 + 0.290955 * ix - 0.0496845 * ix2 + 0.00704802 * ix3 + 0.269101 * yps
    - 0.176528 * ix * yps + 0.0543138 * ix2 * yps + 0.1982 * yps2 - 0.060699 * yps3 - 0.320249 * zet
    - 0.0111693 * ix2 * zet + 0.14104 * yps * zet + 0.0657345 * ix * yps * zet - 0.102026 * yps2 * zet
    - 0.04012 * zet2 + 0.160838 * ix * zet2 - 0.121392 * yps * zet2 - 0.061667 * zet3)) / 100.0

/-- the polynomial of `PTF4` for the wilting point — note the product `0.104875*zet2*0.0159857*ix*zet2`
(input.go:1142 has `*` where the published regression has `+`); the model follows the code. -/
def ptf4WpPoly (ix ix2 ix3 yps yps2 yps3 zet zet2 zet3 : α) : α :=
  (14.2568 + 7.36318 * (0.06865 + 0.108713 * ix - 0.0157225 * ix2 + 0.00102805 * ix3 + 0.886569 * yps
    - 0.223581 * ix * yps + 0.0126379 * ix2 * yps + 0.0135266 * ix * yps2 - 0.0334434 * yps3
    - 0.0535182 * zet - 0.0354271 * ix * zet - 0.00261313 * ix2 * zet - 0.154563 * yps * zet
    - 0.0160219 * ix * yps * zet - 0.0400606 * yps2 * zet - 0.104875 * zet2 * 0.0159857 * ix * zet2
    - 0.0671656 * yps * zet2 - 0.0260699 * zet3)) / 100.0

/-- `PTF4` (Rawls et al. 2003, pF 2.5): from C_org, clay, sand in percent. -/
def ptf4 (c ton ssand : α) : α × α :=
  let ix : α := -0.837531 + 0.430183 * c
  let yps : α := -1.40744 + 0.0661969 * ton
  let zet : α := -1.51866 + 0.0393284 * ssand
  (ptf4FcPoly ix (pow2 ix) (pow3 ix) yps (pow2 yps) (pow3 yps) zet (pow2 zet) (pow3 zet),
   ptf4WpPoly ix (pow2 ix) (pow3 ix) yps (pow2 yps) (pow3 yps) zet (pow2 zet) (pow3 zet))

/-- dispatch of input.go:248-262; `x` is silt for PTF 1-3 and sand for PTF 4.  Any other selector
leaves W and WMIN at their zero values. -/
def ptf (k : Nat) (c ton sluf ssand : α) : α × α :=
  if k = 1 then ptf1 c ton sluf
  else if k = 2 then ptf2 c ton sluf
  else if k = 3 then ptf3 c ton sluf
  else if k = 4 then ptf4 c ton ssand
  else (0.0, 0.0)

/-! ### the threshold helper (init.go:100-109) -/

/-- `calcWRed`: expects percent values; `sand` = first character of the top texture is `S`. -/
def calcWRed (sand : Bool) (wp fc : α) : α :=
  (if sand then wp + 0.6 * (fc - wp) else wp + 0.66 * (fc - wp)) / 100.0

/-! ### `Hydro` (input.go:1184-1408) -/

/-- texture classes `Hydro` distinguishes when it corrects the table values -/
inductive TexClass where
  | sLight   -- S*: "SL2", second letter U, "SG ", "SM ", "SF "  (input.go:1227)
  | sOther   -- every other S*
  | u        -- U*
  | l        -- L*
  | tPure    -- "T  ", " T ", "  T"
  | tu23     -- "TU2", "TU3"
  | tu4      -- "TU4"
  | tOther   -- every other T*
  | h        -- H*
  | other
  deriving DecidableEq, Repr

/-- character codes: S 83, U 85, L 76, T 84, H 72, G 71, M 77, F 70, space 32, '2' 50, '3' 51, '4' 52,
lower-case u 117 -/
def texClass : List Nat → TexClass
  | [83, b, c] =>
    if (b = 76 ∧ c = 50) ∨ b = 85 ∨ (b = 71 ∧ c = 32) ∨ (b = 77 ∧ c = 32) ∨ (b = 70 ∧ c = 32) then .sLight
    else .sOther
  | [85, _, _] => .u
  | [76, _, _] => .l
  | [84, b, c] =>
    if b = 32 ∧ c = 32 then .tPure
    else if b = 85 ∨ b = 117 then
      (if c = 50 ∨ c = 51 then .tu23 else if c = 52 then .tu4 else .tOther)
    else .tOther
  | [32, 84, 32] => .tPure
  | [32, 32, 84] => .tPure
  | [72, _, _] => .h
  | _ => .other

/-- first character of the texture is `S` (init.go:103, on the top horizon) -/
def isSand : List Nat → Bool
  | 83 :: _ => true
  | _ => false

/-- column group of the density class (input.go:1189-1201); none for classes outside 1-5 -/
def ldColumn (ld : Nat) : Option Nat :=
  if ld = 1 ∨ ld = 2 then some 0 else if ld = 3 then some 1 else if ld = 4 ∨ ld = 5 then some 2 else none

/-- groundwater part of the field-capacity correction KRR (percent by volume) -/
def krrGw (cl : TexClass) (grw : α) : α :=
  match cl with
  | .sLight | .sOther =>
    if grw < 9.0 then 2.0
    else if ¬ (grw < 20.0) ∧ grw < 30.0 then -1.0
    else if ¬ (grw < 30.0) then -2.0
    else 0.0
  | .u => if grw < 8.0 then 1.0 else if 35.0 < grw then -1.0 else 0.0
  | .l | .tPure | .tu23 | .tu4 | .tOther => if grw < 8.0 then 1.0 else 0.0
  | .h | .other => 0.0

/-- organic-matter part of KRR -/
def krrCorg (cl : TexClass) (c : α) : α :=
  match cl with
  | .sLight => if 4.6 < c then 10.0 else if 2.3 < c then 7.5 else if 1.16 < c then 3.5 else 0.0
  | .sOther => if 4.6 < c then 11.5 else if 2.3 < c then 8.0 else if 1.16 < c then 3.5
               else if 0.58 < c then 1.5 else 0.0
  | .u => if 5.2 < c then 12.0 else if 4.6 < c then 7.0 else if 3.5 < c then 5.0 else if 2.3 < c then 1.0 else 0.0
  | .l => if 4.6 < c then 7.0 else if 3.5 < c then 4.0 else if 2.3 < c then 1.0 else 0.0
  | .tu23 => if 4.6 < c then 4.0 else if 3.5 < c then 2.0 else 0.0
  | .tu4 => if 4.6 < c then 7.0 else if 3.5 < c then 4.0 else if 2.3 < c then 1.0 else 0.0
  | .tPure | .tOther | .h | .other => 0.0

/-- organic-matter correction of the pore volume KRG (only for S*) -/
def krgCorg (cl : TexClass) (c : α) : α :=
  match cl with
  | .sLight => if 4.6 < c then 10.0 else if 2.3 < c then 6.5 else if 1.16 < c then 2.5 else 0.0
  | .sOther => if 4.6 < c then 14.0 else if 2.3 < c then 10.0 else if 1.16 < c then 4.5
               else if 0.58 < c then 1.5 else 0.0
  | _ => 0.0

/-- AD (input.go:1210-1400), returned by `Hydro` -/
def adOf (cl : TexClass) : α :=
  match cl with
  | .sLight | .sOther => 0.004
  | .u => 0.002
  | .l => 0.005
  | .tPure | .tu23 | .tu4 | .tOther => 0.001
  | .h => 0.001
  | .other => 0.002

/-- what one call of `Hydro` leaves for a horizon -/
structure Cell (α : Type) where
  fk : α       -- local.FK   uncorrected field capacity (fraction)
  lim : α      -- g.LIM      wilting point
  prges : α    -- g.PRGES    pore volume incl. KRG
  feldw : α    -- g.FELDW    corrected field capacity
  normfk : α   -- g.NORMFK

/-- `KRR = KRR + …` (input.go:1229 …): the groundwater term first, then the organic-matter term -/
def krr (cl : TexClass) (c grw : α) : α := krrGw cl grw + krrCorg cl c

/-- `Hydro` for a table row `vals` (see `Generated.hyparRows`), the texture class, the density class,
C_org and the groundwater level. -/
def hydroRow (cl : TexClass) (vals : List Nat) (ld : Nat) (c grw : α) : Cell α :=
  match ldColumn ld with
  | none => { fk := 0.0, lim := 0.0, prges := 0.0 + krgCorg cl c / 100.0, feldw := 0.0 + krr cl c grw / 100.0, normfk := 0.0 }
  | some col =>
    let fk : α := Conv.ofNat (vals.getD col 0) / 100.0
    let lim : α := fk - Conv.ofNat (vals.getD (3 + col) 0) / 100.0
    let ps : α := Conv.ofNat (vals.getD (6 + col) 0) / 100.0
    { fk := fk, lim := lim, prges := ps + krgCorg cl c / 100.0, feldw := fk + krr cl c grw / 100.0, normfk := fk }

/-- first row of the regenerated table with that texture name -/
def lookupRow (codes : List Nat) : List (List Nat × List Nat) → Option (List Nat)
  | [] => none
  | (n, v) :: rest => if n = codes then some v else lookupRow codes rest

/-- `Hydro` by texture name -/
def hydro (codes : List Nat) (ld : Nat) (c grw : α) : Cell α :=
  hydroRow (texClass codes) ((lookupRow codes Generated.hyparRows).getD []) ld c grw

/-- WRED as `Hydro` sets it for horizon 1 (input.go:1204-1207): from the uncorrected table values of
the horizon, in percent, with the stone factor of the horizon -/
def hydroWRed (codes : List Nat) (cell : Cell α) (stein : α) : α :=
  calcWRed (isSand codes) (cell.lim * 100.0 * (1.0 - stein)) (cell.fk * 100.0 * (1.0 - stein))

/-! ### per-layer assignment (input.go:192-273) -/

/-- the four parameters of one 10 cm layer -/
structure Layer (α : Type) where
  w : α        -- field capacity W
  wmin : α     -- wilting point WMIN
  porges : α   -- pore volume PORGES
  wnor : α     -- uncorrected field capacity WNOR

/-- one horizon of the soil file -/
structure Horizon (α : Type) where
  codes : List Nat    -- texture
  ld : Nat
  lower : Nat         -- UKT: lower boundary in dm
  corg : α
  stein : α           -- stone fraction (file value / 100)
  fka : α             -- explicit field capacity, percent (0 = not given)
  wp : α
  gpv : α
  sand : α
  silt : α
  clay : α

/-- explicit route (input.go:206-214) -/
def explicitLayer (fka wp gpv : α) : Layer α :=
  { w := fka / 100.0, wmin := wp / 100.0, porges := gpv / 100.0, wnor := fka / 100.0 }

/-- table route (input.go:222-229 and run.go:384-387) -/
def tableLayer (cell : Cell α) (stein : α) : Layer α :=
  { w := cell.feldw * (1.0 - stein), wmin := cell.lim * (1.0 - stein),
    porges := cell.prges * (1.0 - stein), wnor := cell.normfk * (1.0 - stein) }

/-- pedotransfer route (input.go:248-264): pore volume still from the soil file -/
def ptfLayer (k : Nat) (h : Horizon α) : Layer α :=
  let r := ptf k h.corg h.clay h.silt h.sand
  { w := r.1, wmin := r.2, porges := h.gpv / 100.0, wnor := r.1 }

/-- the layer parameters of a horizon at input time and the CAPPAR flag it sets -/
def horizonLayer (k : Nat) (h : Horizon α) (grw : α) : Layer α × Nat :=
  if k = 0 then
    if 0.0 < h.fka then (explicitLayer h.fka h.wp h.gpv, 1)
    else (tableLayer (hydro h.codes h.ld h.corg grw) h.stein, 0)
  else (ptfLayer k h, 1)

/-- `for LT := UKT[L-1]+1; LT <= UKT[L]` : the horizon's layer repeated over its 10 cm layers -/
def expand (f : Horizon α → Layer α) : Nat → List (Horizon α) → List (Layer α)
  | _, [] => []
  | prev, h :: hs => List.replicate (h.lower - prev) (f h) ++ expand f h.lower hs

/-- CAPPAR after the loop: the flag of the last horizon that has at least one layer -/
def capparOf (k : Nat) (grw : α) : Nat → Nat → List (Horizon α) → Nat
  | acc, _, [] => acc
  | acc, prev, h :: hs =>
    capparOf k grw (if prev < h.lower then (horizonLayer k h grw).2 else acc) h.lower hs

/-- WRED after `Input`: `Hydro` sets it for horizon 1 from the table; the explicit route overwrites
it with the percent values of the soil file (input.go:216), the pedotransfer routes with the percent
values of their result (input.go:267-268).  Both overwrites happen inside the layer loop, i.e. only if
horizon 1 has a layer. -/
def wredInput (k : Nat) (h : Horizon α) (grw : α) : α :=
  let tab := hydroWRed h.codes (hydro h.codes h.ld h.corg grw) h.stein
  if h.lower = 0 then tab
  else if k = 0 then (if 0.0 < h.fka then calcWRed (isSand h.codes) h.wp h.fka else tab)
  else
    let l := ptfLayer k h
    calcWRed (isSand h.codes) (l.wmin * 100.0) (l.w * 100.0)

/-! ### saturated zone -/

/-- `W[l-1] = PORGES[l-1]` for the 1-based layers `l ≥ from` -/
def saturateFrom (frm : Nat) : Nat → List (Layer α) → List (Layer α)
  | _, [] => []
  | l, x :: xs => (if frm ≤ l then { x with w := x.porges } else x) :: saturateFrom frm (l + 1) xs

/-- input.go:284-290: `if GW < N { for l := round(max(GW,1)) … N { W = PORGES } }` -/
def satInput (gw : α) (n : Nat) (ls : List (Layer α)) : List (Layer α) :=
  if gw < Conv.ofNat n then
    saturateFrom (Conv.roundNat (if gw < 1.0 then 1.0 else gw)) 1 ls
  else ls

/-- init.go:90-98 for the layers `l, l+1, …`: the layer `first = int(GRW+1)` is mixed with the
fraction `fr = mod(GRW+1, 1)`, the layers below it get the pore volume -/
def setFcFrom (first : Nat) (fr : α) : Nat → List (Layer α) → List (Layer α)
  | _, [] => []
  | l, x :: xs =>
    (if l = first then { x with w := (1.0 - fr) * x.porges + x.w * fr }
     else if first < l then { x with w := x.porges } else x) :: setFcFrom first fr (l + 1) xs

/-- `setFieldCapacityWithGW` (GRW ≥ 0): `int(GRW+1)` and `math.Mod(GRW+1, 1)` -/
def setFieldCapacityWithGW (grw : α) (ls : List (Layer α)) : List (Layer α) :=
  let first := Conv.truncNat (grw + 1.0)
  setFcFrom first ((grw + 1.0) - Conv.ofNat first) 1 ls

/-! ### state, input, groundwater change -/

structure St (α : Type) where
  cur : List (Layer α)     -- W, WMIN, PORGES, WNOR
  bak : List (Layer α)     -- W_Backup …
  wred : α
  cappar : Nat

/-- `for i < N { X[i] = X_Backup[i] }` (run.go:393-398) -/
def restoreN : Nat → List (Layer α) → List (Layer α) → List (Layer α)
  | n + 1, _ :: cs, b :: bs => b :: restoreN n cs bs
  | _, cur, _ => cur

/-- the state after `Input` (input.go:192-290); `grw` is the level `Hydro` sees, `gw` the level of
the saturated-zone rule -/
def inputState (k : Nat) (hs : List (Horizon α)) (gw grw : α) (n : Nat) : St α :=
  let ls := expand (fun h => (horizonLayer k h grw).1) 0 hs
  { cur := satInput gw n ls, bak := ls,
    wred := match hs with | [] => 0.0 | h :: _ => wredInput k h grw,
    cappar := capparOf k grw 0 0 hs }

/-- `Init` (init.go:22) -/
def initState (s : St α) (grw : α) : St α := { s with cur := setFieldCapacityWithGW grw s.cur }

/-- run.go:372-401, taken when the level changed: rebuild from the table (all horizons, whatever
their route at input time) or restore the backups and recompute WRED from the restored top layer
(in percent, run.go:399-400); then the saturated zone for the new level. -/
def gwStep (k : Nat) (hs : List (Horizon α)) (n : Nat) (s : St α) (grw : α) : St α :=
  if k = 0 ∧ s.cappar = 0 then
    let ls := expand (fun h => tableLayer (hydro h.codes h.ld h.corg grw) h.stein) 0 hs
    { s with cur := setFieldCapacityWithGW grw ls,
             wred := match hs with | [] => s.wred | h :: _ => hydroWRed h.codes (hydro h.codes h.ld h.corg grw) h.stein }
  else
    let ls := restoreN n s.cur s.bak
    { s with cur := setFieldCapacityWithGW grw ls,
             wred := match ls with
                     | [] => s.wred
                     | l0 :: _ => calcWRed (match hs with | [] => false | h :: _ => isSand h.codes) (l0.wmin * 100.0) (l0.w * 100.0) }

/-- the parameters the day loop works with on a day: never changed so far → `Input` (where GRW = GW
in all three groundwater modes, input.go:71-72, 86, 154-155) then `Init` at the initial level;
otherwise the groundwater step at today's level (from whatever state). -/
def dayState (k : Nat) (hs : List (Horizon α)) (n : Nat) (gw grwInit : α) (changed : Bool) (grw : α) : St α :=
  let s0 := initState (inputState k hs gw gw n) grwInit
  if changed then gwStep k hs n s0 grw else s0

end
end Hermes.SoilParams
