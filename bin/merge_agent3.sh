#!/bin/sh
# usage: bin/merge_agent3.sh <name> <base-commit> [apply]
# Three-way merge of an agent workspace /tmp/vw-<name> (created from /verif at <base-commit>) into /verif:
# NEW files are copied; files the agent changed and /verif did not are copied; files both changed are merged with
# `git merge-file` (conflicts are reported and left for manual work); files only /verif changed are left alone.
N="$1"; BASE="$2"; MODE="$3"
VW=/tmp/vw-$N
cd $VW || exit 2
find . -type f | grep -v -E '^./(lean/.lake|harness/bin|replays|evidence|seeded|\.git)/|__pycache__|\.build\.lock|lean/(HermesModel|HermesProofs|HermesProps|Driver)\.lean$|lean/Driver/Dispatch.lean|MANIFEST.json|harness/go.mod|harness/go.sum|lean/lake-manifest|lean/HermesModel/Generated/' | while read f; do
  f=${f#./}
  if ! git -C /verif cat-file -e "$BASE:$f" 2>/dev/null; then
    if [ ! -f /verif/$f ]; then echo "NEW       $f"; [ "$MODE" = apply ] && mkdir -p /verif/$(dirname $f) && cp $f /verif/$f
    elif ! cmp -s $f /verif/$f; then echo "NEW-BOTH  $f (exists in /verif too, differs) — manual"; fi
    continue
  fi
  git -C /verif show "$BASE:$f" > /tmp/.base.$$ 2>/dev/null
  if cmp -s $f /tmp/.base.$$; then continue; fi          # agent did not change it
  if cmp -s /verif/$f /tmp/.base.$$; then echo "AGENT     $f"; [ "$MODE" = apply ] && cp $f /verif/$f; continue; fi
  if cmp -s $f /verif/$f; then continue; fi
  cp /verif/$f /tmp/.mine.$$
  if git merge-file -q /tmp/.mine.$$ /tmp/.base.$$ $f 2>/dev/null; then echo "MERGED    $f"; [ "$MODE" = apply ] && cp /tmp/.mine.$$ /verif/$f
  else echo "CONFLICT  $f — manual"; fi
done
rm -f /tmp/.base.$$ /tmp/.mine.$$
echo "--- repo worktree /tmp/rw-$N"; git -C /tmp/rw-$N status --short | grep -v "test_data\|^?? src/.*/[a-z_]*$"
