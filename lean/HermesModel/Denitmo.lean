/-
Model of `Denitmo` (hermes/denit.go:87-212), the denitrification of marsh-land (peat) soils, as a
function of the whole array `C1`, as the code is: three 30 cm blocks — array entries 0-2, 3-5, 6-8,
whatever the number of layers of the profile — each with its own Michaelis-Menten rate
(`Mineral.denitRate 4242`), removal from every entry in proportion to its share of the block's
nitrate with the non-negativity clamp (`Mineral.denitLayer`), the shares of the second and third
entry of the third block exchanged (denit.go:120-121: `layerFraction90[1] = C1[8]/…`,
`layerFraction90[2] = C1[7]/…`), entries from 9 on untouched, `CUMDENIT += Denit1 + Denit2 + Denit3`.
The moisture and temperature factors (`exp`/`pow`) are inputs.  Core Lean only; polymorphic in the
arithmetic; executable (driver ops `denitmo.*`).
-/
import HermesModel.Mineral
namespace Hermes.Mineral

section
variable {α : Type} [Add α] [Sub α] [Mul α] [Div α] [Neg α] [LT α] [DecidableLT α]
  [OfNat α 0] [OfNat α 1] [OfNat α 2] [OfNat α 100] [OfNat α 1000] [OfNat α 1274] [OfNat α 4242] [OfNat α 74]
  [OfScientific α]

/-- `Denitmo` on the array `c` = `g.C1[0 …]` (at least nine entries, as the Go array always has). -/
def denitmo (c : List α) (ft1 ft2 ft3 fm1 fm2 fm3 cum : α) : DenitOut α :=
  let b1 := denitmoBlock false (c.getD 0 0) (c.getD 1 0) (c.getD 2 0) ft1 fm1
  let b2 := denitmoBlock false (c.getD 3 0) (c.getD 4 0) (c.getD 5 0) ft2 fm2
  let b3 := denitmoBlock true (c.getD 6 0) (c.getD 7 0) (c.getD 8 0) ft3 fm3
  { c := b1.1 ++ b2.1 ++ b3.1 ++ c.drop 9, cumdenit := cum + b1.2 + b2.2 + b3.2, denit := b1.2 + b2.2 + b3.2 }

/-- the values before the non-negativity clamp of one block (entry − rate · share) -/
def denitmoBlockPre (swap : Bool) (c0 c1 c2 ftheta ftemp : α) : List α :=
  let n := c0 + c1 + c2
  let f0 := if 0 < n then c0 / n else 0
  let f1 := if 0 < n then (if swap then c2 / n else c1 / n) else 0
  let f2 := if 0 < n then (if swap then c1 / n else c2 / n) else 0
  let d := if 0 < n then denitRate 4242 n ftheta ftemp else 0
  [c0 - d * f0, c1 - d * f1, c2 - d * f2]

/-- the nine values `Denitmo` compares with 0 (`if *c1Val < 0`) -/
def denitmoPre (c : List α) (ft1 ft2 ft3 fm1 fm2 fm3 : α) : List α :=
  denitmoBlockPre false (c.getD 0 0) (c.getD 1 0) (c.getD 2 0) ft1 fm1 ++
  denitmoBlockPre false (c.getD 3 0) (c.getD 4 0) (c.getD 5 0) ft2 fm2 ++
  denitmoBlockPre true (c.getD 6 0) (c.getD 7 0) (c.getD 8 0) ft3 fm3

end
end Hermes.Mineral
