/-
Lemmas about the dispatcher transition system, the file pool, the day-length search loops and the
day loop header (HermesModel/Dispatch.lean, HermesModel/LangTag.lean).  Used by HermesProps/C03.lean
and HermesProps/C11.lean.  Core Lean only.
-/
import HermesModel.Dispatch
import HermesModel.LangTag

namespace Hermes.Dispatch

variable {Line Result : Type}

/-! ### termination measure -/

def weight : Phase → Nat
  | .computing => 3
  | .sendLog => 2
  | .sendResult => 1

def wsum : List (Job Line) → Nat
  | [] => 0
  | j :: l => weight j.phase + wsum l

theorem wsum_append (a b : List (Job Line)) : wsum (a ++ b) = wsum a + wsum b := by
  induction a with
  | nil => simp [wsum]
  | cons j a ih => simp [wsum, ih]; omega

/-- Every transition strictly decreases this number. -/
def measure (s : State Line Result) : Nat :=
  4 * s.pending.length + wsum s.active + (if s.dead then 0 else 1)

theorem weight_sendPhase_lt (M : Cfg Line Result) (r : Result) : weight (sendPhase M r) < 3 := by
  unfold sendPhase; split <;> simp [weight]

theorem step_measure {M : Cfg Line Result} {s s' : State Line Result} (h : Step M s s') :
    measure s' < measure s := by
  have w3 : weight Phase.computing = 3 := rfl
  have w2 : weight Phase.sendLog = 2 := rfl
  have w1 : weight Phase.sendResult = 1 := rfl
  cases h with
  | start i l rest hd hp hlt =>
    simp only [measure, hp, hd, wsum_append, wsum, w3, List.length_cons, Bool.false_eq_true, if_false]
    omega
  | compute pre post j r hd ha hph hr =>
    have := weight_sendPhase_lt M r
    simp only [measure, ha, hd, wsum_append, wsum, hph, w3, Bool.false_eq_true, if_false]
    omega
  | die pre post j hd ha hph hr =>
    simp only [measure, hd, Bool.false_eq_true, if_false, if_true]
    omega
  | recvLog pre post j hd ha hph hrc =>
    simp only [measure, ha, hd, wsum_append, wsum, hph, w2, w1, Bool.false_eq_true, if_false]
    omega
  | recvResult pre post j r hd ha hph hr hrc =>
    simp only [measure, ha, hd, wsum_append, wsum, hph, w1, Bool.false_eq_true, if_false]
    omega

theorem exec_bound {M : Cfg Line Result} {s s' : State Line Result} {n : Nat} (h : Exec M s n s') :
    n + measure s' ≤ measure s := by
  induction h with
  | refl s => simp
  | step hs _ ih => have := step_measure hs; omega

theorem measure_init (sel : List (Nat × Line)) :
    measure (init sel : State Line Result) = 4 * sel.length + 1 := by
  simp [measure, init, wsum]

theorem exec_trans {M : Cfg Line Result} {a b c : State Line Result} {n m : Nat}
    (h₁ : Exec M a n b) (h₂ : Exec M b m c) : Exec M a (n + m) c := by
  induction h₁ with
  | refl s => simpa using h₂
  | @step s s' s'' k hs _ ih =>
    have := Exec.step hs (ih h₂)
    have e : k + 1 + m = k + m + 1 := by omega
    rw [e]; exact this

/-! ### the invariant -/

/-- tag of a finished entry / of a job / of a pending line: (id, outcome of the line's run) -/
def finTag (p : Nat × Result) : Nat × Option Result := (p.1, some p.2)
def jobTag (M : Cfg Line Result) (j : Job Line) : Nat × Option Result := (j.id, M.run j.line)
def lineTag (M : Cfg Line Result) (p : Nat × Line) : Nat × Option Result := (p.1, M.run p.2)

structure Inv (M : Cfg Line Result) (sel : List (Nat × Line)) (s : State Line Result) : Prop where
  alive : s.dead = false
  count : s.activeRuns = s.active.length
  bound : s.activeRuns ≤ M.conc
  perm : List.Perm (s.finished.map finTag ++ (s.active.map (jobTag M) ++ s.pending.map (lineTag M)))
            (sel.map (lineTag M))
  summ : s.errSummary = s.finished.filter (fun p => M.failed p.2)
  sres : s.summaryResult = if s.finished.isEmpty then none else some s.errSummary
  phase : ∀ j ∈ s.active, j.phase = .sendLog → ∃ r, M.run j.line = some r ∧ M.failed r = true

theorem inv_init (M : Cfg Line Result) (sel : List (Nat × Line)) : Inv M sel (init sel) := by
  refine ⟨rfl, rfl, Nat.zero_le _, ?_, rfl, rfl, ?_⟩
  · simp [init]
  · intro j hj; simp [init] at hj

/-- no selected line ends in log.Fatal / panic -/
def NoFatal (M : Cfg Line Result) (sel : List (Nat × Line)) : Prop :=
  ∀ p ∈ sel, ∃ r, M.run p.2 = some r

theorem Inv.run_some {M : Cfg Line Result} {sel : List (Nat × Line)} {s : State Line Result}
    (h : Inv M sel s) (hok : NoFatal M sel) {j : Job Line} (hj : j ∈ s.active) :
    ∃ r, M.run j.line = some r := by
  have hm : jobTag M j ∈ s.finished.map finTag ++ (s.active.map (jobTag M) ++ s.pending.map (lineTag M)) := by
    apply List.mem_append_right
    apply List.mem_append_left
    exact List.mem_map.mpr ⟨j, hj, rfl⟩
  have := (h.perm.mem_iff).mp hm
  obtain ⟨p, hp, hpe⟩ := List.mem_map.mp this
  obtain ⟨r, hr⟩ := hok p hp
  refine ⟨r, ?_⟩
  have : M.run p.2 = M.run j.line := by
    have := congrArg Prod.snd hpe
    simpa [lineTag, jobTag] using this
  rw [← this]; exact hr

theorem filter_append_singleton {α : Type} (p : α → Bool) (l : List α) (a : α) :
    (l ++ [a]).filter p = if p a then l.filter p ++ [a] else l.filter p := by
  rw [List.filter_append]
  by_cases h : p a <;> simp [h]

theorem step_inv {M : Cfg Line Result} {sel : List (Nat × Line)} {s s' : State Line Result}
    (hok : NoFatal M sel) (h : Inv M sel s) (hs : Step M s s') : Inv M sel s' := by
  cases hs with
  | start i l rest hd hp hlt =>
    refine ⟨h.alive, ?_, ?_, ?_, h.summ, h.sres, ?_⟩
    · simp [h.count]
    · show s.activeRuns + 1 ≤ M.conc; omega
    · have := h.perm
      rw [hp] at this
      simpa [jobTag, lineTag, List.map_append, List.append_assoc] using this
    · intro j hj hph
      simp only [List.mem_append, List.mem_singleton] at hj
      rcases hj with hj | hj
      · exact h.phase j hj hph
      · subst hj; cases hph
  | compute pre post j r hd ha hph hr =>
    refine ⟨h.alive, ?_, h.bound, ?_, h.summ, h.sres, ?_⟩
    · show s.activeRuns = (pre ++ _ :: post).length
      rw [h.count, ha]; simp
    · have := h.perm
      rw [ha] at this
      simpa [jobTag, List.map_append] using this
    · intro j' hj' hph'
      simp only [List.mem_append, List.mem_cons] at hj'
      have old : ∀ x, x ∈ pre ∨ x ∈ post → x ∈ s.active := by
        intro x hx; rw [ha]; simp only [List.mem_append, List.mem_cons]
        rcases hx with hx | hx
        · exact Or.inl hx
        · exact Or.inr (Or.inr hx)
      rcases hj' with hj' | hj' | hj'
      · exact h.phase j' (old j' (Or.inl hj')) hph'
      · subst hj'
        refine ⟨r, hr, ?_⟩
        simp only [sendPhase] at hph'
        by_cases hf : M.failed r = true
        · exact hf
        · simp [hf] at hph'
      · exact h.phase j' (old j' (Or.inr hj')) hph'
  | die pre post j hd ha hph hr =>
    exfalso
    have hj : j ∈ s.active := by rw [ha]; simp
    obtain ⟨r, hr'⟩ := h.run_some hok hj
    rw [hr] at hr'; cases hr'
  | recvLog pre post j hd ha hph hrc =>
    refine ⟨h.alive, ?_, h.bound, ?_, h.summ, h.sres, ?_⟩
    · show s.activeRuns = (pre ++ _ :: post).length
      rw [h.count, ha]; simp
    · have := h.perm
      rw [ha] at this
      simpa [jobTag, List.map_append] using this
    · intro j' hj' hph'
      simp only [List.mem_append, List.mem_cons] at hj'
      have old : ∀ x, x ∈ pre ∨ x ∈ post → x ∈ s.active := by
        intro x hx; rw [ha]; simp only [List.mem_append, List.mem_cons]
        rcases hx with hx | hx
        · exact Or.inl hx
        · exact Or.inr (Or.inr hx)
      rcases hj' with hj' | hj' | hj'
      · exact h.phase j' (old j' (Or.inl hj')) hph'
      · subst hj'; cases hph'
      · exact h.phase j' (old j' (Or.inr hj')) hph'
  | recvResult pre post j r hd ha hph hr hrc =>
    have hlen : s.active.length = pre.length + post.length + 1 := by rw [ha]; simp; omega
    refine ⟨h.alive, ?_, ?_, ?_, ?_, ?_, ?_⟩
    · show s.activeRuns - 1 = (pre ++ post).length
      rw [h.count, hlen]; simp
    · show s.activeRuns - 1 ≤ M.conc
      have := h.bound; omega
    · have hperm := h.perm
      rw [ha] at hperm
      refine List.Perm.trans ?_ hperm
      show List.Perm ((s.finished ++ [(j.id, r)]).map finTag ++ ((pre ++ post).map (jobTag M) ++ s.pending.map (lineTag M)))
        (s.finished.map finTag ++ ((pre ++ j :: post).map (jobTag M) ++ s.pending.map (lineTag M)))
      have e : jobTag M j = finTag (j.id, r) := by simp [jobTag, finTag, hr]
      simp only [List.map_append, List.map_cons, List.map_nil, List.append_assoc, e]
      apply List.Perm.append_left
      exact (List.perm_middle (l₁ := pre.map (jobTag M))).symm
    · show addSummary M s.errSummary j.id r = (s.finished ++ [(j.id, r)]).filter (fun p => M.failed p.2)
      rw [filter_append_singleton, ← h.summ]
      rfl
    · show some (addSummary M s.errSummary j.id r) =
        if (s.finished ++ [(j.id, r)]).isEmpty then none else some (addSummary M s.errSummary j.id r)
      simp
    · intro j' hj' hph'
      have : j' ∈ s.active := by
        rw [ha]; simp only [List.mem_append, List.mem_cons]
        simp only [List.mem_append] at hj'
        rcases hj' with hj' | hj'
        · exact Or.inl hj'
        · exact Or.inr (Or.inr hj')
      exact h.phase j' this hph'

theorem exec_inv {M : Cfg Line Result} {sel : List (Nat × Line)} {s s' : State Line Result} {n : Nat}
    (hok : NoFatal M sel) (he : Exec M s n s') (h : Inv M sel s) : Inv M sel s' := by
  induction he with
  | refl s => exact h
  | step hs _ ih => exact ih (step_inv hok h hs)

/-! ### progress -/

theorem progress {M : Cfg Line Result} {sel : List (Nat × Line)} {s : State Line Result}
    (hc : 1 ≤ M.conc) (hok : NoFatal M sel) (h : Inv M sel s) (hnf : ¬ Final s) :
    ∃ s', Step M s s' := by
  -- either a line can be started, or the dispatcher is receiving and some run exists
  by_cases hstart : ∃ i l rest, s.pending = (i, l) :: rest ∧ s.activeRuns < M.conc
  · obtain ⟨i, l, rest, hp, hlt⟩ := hstart
    exact ⟨_, Step.start s i l rest h.alive hp hlt⟩
  · have hrecv : receiving M s = true ∧ s.active ≠ [] := by
      cases hp : s.pending with
      | nil =>
        have hne : s.active ≠ [] := fun ha => hnf ⟨hp, ha⟩
        have : 0 < s.activeRuns := by
          rw [h.count]; exact List.length_pos_iff.mpr hne
        exact ⟨by simp [receiving, hp, this], hne⟩
      | cons p rest =>
        have hnlt : ¬ s.activeRuns < M.conc := fun hlt => hstart ⟨p.1, p.2, rest, by rw [hp], hlt⟩
        have heq : s.activeRuns = M.conc := by have := h.bound; omega
        have hne : s.active ≠ [] := by
          intro ha
          have := h.count; rw [ha] at this; simp at this; omega
        exact ⟨by simp [receiving, hp, heq], hne⟩
    obtain ⟨hrc, hne⟩ := hrecv
    cases ha : s.active with
    | nil => exact absurd ha hne
    | cons j post =>
      have hj : j ∈ s.active := by rw [ha]; simp
      have ha' : s.active = [] ++ j :: post := by simpa using ha
      cases hph : j.phase with
      | computing =>
        obtain ⟨r, hr⟩ := h.run_some hok hj
        exact ⟨_, Step.compute s [] post j r h.alive ha' hph hr⟩
      | sendLog => exact ⟨_, Step.recvLog s [] post j h.alive ha' hph hrc⟩
      | sendResult =>
        obtain ⟨r, hr⟩ := h.run_some hok hj
        exact ⟨_, Step.recvResult s [] post j r h.alive ha' hph hr hrc⟩

/-- a state without successor -/
def Stuck (M : Cfg Line Result) (s : State Line Result) : Prop := ∀ s', ¬ Step M s s'

theorem stuck_final {M : Cfg Line Result} {sel : List (Nat × Line)} {s : State Line Result}
    (hc : 1 ≤ M.conc) (hok : NoFatal M sel) (h : Inv M sel s) (hst : Stuck M s) : Final s := by
  apply Classical.byContradiction
  intro hnf
  obtain ⟨s', hs⟩ := progress hc hok h hnf
  exact hst s' hs

theorem final_finished {M : Cfg Line Result} {sel : List (Nat × Line)} {s : State Line Result}
    (h : Inv M sel s) (hf : Final s) : List.Perm (s.finished.map finTag) (sel.map (lineTag M)) := by
  have := h.perm
  rw [hf.1, hf.2] at this
  simpa using this

/-- inverse of `finTag` on its image -/
def unTag (p : Nat × Option Result) : Option (Nat × Result) := p.2.map fun r => (p.1, r)

theorem filterMap_unTag (l : List (Nat × Result)) : (l.map finTag).filterMap unTag = l := by
  induction l with
  | nil => rfl
  | cons a l ih => simp [finTag, unTag, ih]

theorem perm_of_perm_finTag {l₁ l₂ : List (Nat × Result)}
    (h : List.Perm (l₁.map finTag) (l₂.map finTag)) : List.Perm l₁ l₂ := by
  have := h.filterMap unTag
  rwa [filterMap_unTag, filterMap_unTag] at this

/-! ### the executable successor enumeration is exactly `Step` -/

theorem mem_splits {α : Type} (l : List α) (pre : List α) (x : α) (post : List α) :
    (pre, x, post) ∈ splits l ↔ l = pre ++ x :: post := by
  induction l generalizing pre with
  | nil => simp [splits]
  | cons a l ih =>
    simp only [splits, List.mem_cons, List.mem_map]
    constructor
    · rintro (h | ⟨t, ht, he⟩)
      · cases h; rfl
      · obtain ⟨p, y, q⟩ := t
        cases he
        have := (ih p).mp ht
        rw [this]; rfl
    · intro h
      cases pre with
      | nil => left; simp at h; obtain ⟨h1, h2⟩ := h; subst h1; subst h2; rfl
      | cons b pre =>
        right
        simp at h
        obtain ⟨h1, h2⟩ := h
        subst h1
        exact ⟨(pre, x, post), (ih pre).mpr h2, rfl⟩

theorem mem_successors_iff (M : Cfg Line Result) (s s' : State Line Result) :
    s' ∈ successors M s ↔ Step M s s' := by
  constructor
  · intro h
    unfold successors at h
    by_cases hd : s.dead = true
    · simp [hd] at h
    · have hd' : s.dead = false := by simpa using hd
      simp only [hd', Bool.false_eq_true, if_false, List.mem_append, List.mem_filterMap] at h
      rcases h with h | ⟨t, ht, hj⟩
      · unfold startSucc at h
        cases hp : s.pending with
        | nil => simp [hp] at h
        | cons p rest =>
          obtain ⟨i, l⟩ := p
          simp only [hp] at h
          by_cases hlt : s.activeRuns < M.conc
          · simp only [hlt, if_true, List.mem_singleton] at h
            subst h
            exact Step.start s i l rest hd' hp hlt
          · simp [hlt] at h
      · obtain ⟨pre, j, post⟩ := t
        have ha := (mem_splits _ _ _ _).mp ht
        unfold jobSucc at hj
        simp only at hj
        cases hph : j.phase with
        | computing =>
          cases hr : M.run j.line with
          | none =>
            simp only [hph, hr, Option.some.injEq] at hj
            subst hj
            exact Step.die s pre post j hd' ha hph hr
          | some r =>
            simp only [hph, hr, Option.some.injEq] at hj
            subst hj
            exact Step.compute s pre post j r hd' ha hph hr
        | sendLog =>
          simp only [hph] at hj
          by_cases hrc : receiving M s = true
          · simp only [hrc, if_true, Option.some.injEq] at hj
            subst hj
            exact Step.recvLog s pre post j hd' ha hph hrc
          · simp [hrc] at hj
        | sendResult =>
          cases hr : M.run j.line with
          | none => simp [hph, hr] at hj
          | some r =>
            simp only [hph, hr] at hj
            by_cases hrc : receiving M s = true
            · simp only [hrc, if_true, Option.some.injEq] at hj
              subst hj
              exact Step.recvResult s pre post j r hd' ha hph hr hrc
            · simp [hrc] at hj
  · intro h
    unfold successors
    cases h with
    | start i l rest hd hp hlt =>
      simp only [hd, Bool.false_eq_true, if_false, List.mem_append]
      left
      simp [startSucc, hp, hlt, hd]
    | compute pre post j r hd ha hph hr =>
      simp only [hd, Bool.false_eq_true, if_false, List.mem_append, List.mem_filterMap]
      right
      exact ⟨(pre, j, post), (mem_splits _ _ _ _).mpr ha, by simp [jobSucc, hph, hr, hd]⟩
    | die pre post j hd ha hph hr =>
      simp only [hd, Bool.false_eq_true, if_false, List.mem_append, List.mem_filterMap]
      right
      exact ⟨(pre, j, post), (mem_splits _ _ _ _).mpr ha, by simp [jobSucc, hph, hr]⟩
    | recvLog pre post j hd ha hph hrc =>
      simp only [hd, Bool.false_eq_true, if_false, List.mem_append, List.mem_filterMap]
      right
      exact ⟨(pre, j, post), (mem_splits _ _ _ _).mpr ha, by simp [jobSucc, hph, hrc, hd]⟩
    | recvResult pre post j r hd ha hph hr hrc =>
      simp only [hd, Bool.false_eq_true, if_false, List.mem_append, List.mem_filterMap]
      right
      exact ⟨(pre, j, post), (mem_splits _ _ _ _).mpr ha, by simp [jobSucc, hph, hr, hrc, hd]⟩

/-- The driver's schedule runner only takes real transitions. -/
theorem runSchedule_exec (M : Cfg Line Result) (cs : List Nat) (s : State Line Result) :
    ∃ n, Exec M s n (runSchedule M s cs) := by
  induction cs generalizing s with
  | nil => exact ⟨0, Exec.refl s⟩
  | cons c cs ih =>
    unfold runSchedule
    cases hsucc : (successors M s)[c % (successors M s).length]? with
    | none => exact ⟨0, Exec.refl s⟩
    | some t =>
      simp only
      have hmem : t ∈ successors M s := List.mem_of_getElem? hsucc
      obtain ⟨n, hn⟩ := ih t
      exact ⟨n + 1, Exec.step ((mem_successors_iff M s _).mp hmem) hn⟩

/-! ### concrete configurations used by the non-vacuity examples and witnesses of HermesProps -/

/-- lines are numbers; a run succeeds iff its line is even; concurrency 2 -/
def exCfg : Cfg Nat Bool := { run := fun l => some (l % 2 == 0), failed := fun r => !r, conc := 2 }

/-- valid lines and one (99) whose run ends in log.Fatal (`none`); concurrency 1 -/
def fatalCfg : Cfg Nat Bool := { run := fun l => if l = 99 then none else some true, failed := fun r => !r, conc := 1 }

end Hermes.Dispatch

/-! ## file pool -/
namespace Hermes.FilePool

variable {Path Content : Type} [DecidableEq Path]

theorem get_spec (fs : Path → Content) (pool : Pool Path Content) (p : Path) (h : Inv fs pool) :
    (get fs pool p).2 = fs p ∧ Inv fs (get fs pool p).1 := by
  cases hl : lookup p (pool.list.getD []) with
  | some c =>
    simp only [get, hl]
    exact ⟨h p c hl, fun q d hq => h q d (by simpa using hq)⟩
  | none =>
    simp only [get, hl]
    refine ⟨trivial, ?_⟩
    intro q d hq
    simp only [Option.getD_some, lookup] at hq
    by_cases hqp : q = p
    · subst hqp; simp at hq; exact hq.symm
    · simp only [hqp, if_false] at hq
      exact h q d hq

theorem inv_empty (fs : Path → Content) : Inv fs (⟨none⟩ : Pool Path Content) := by
  intro p c h; simp [lookup] at h

theorem inv_close (fs : Path → Content) (pool : Pool Path Content) : Inv fs (close pool) :=
  inv_empty fs

theorem getAll_spec (fs : Path → Content) (calls : List (Nat × Path)) :
    ∀ pool : Pool Path Content, Inv fs pool →
      (getAll fs pool calls).2 = calls.map (fun x => (x.1, fs x.2)) ∧ Inv fs (getAll fs pool calls).1 := by
  induction calls with
  | nil => intro pool h; exact ⟨rfl, h⟩
  | cons x rest ih =>
    intro pool h
    obtain ⟨r, p⟩ := x
    have hg := get_spec fs pool p h
    have := ih (get fs pool p).1 hg.2
    simp only [getAll, List.map_cons]
    exact ⟨by rw [this.1, hg.1], this.2⟩

omit [DecidableEq Path] in
theorem callsOf_tag (r : Nat) (l : List Path) : callsOf r (l.map fun p => (r, p)) = l := by
  induction l with
  | nil => rfl
  | cons a l ih =>
    simp only [callsOf] at ih ⊢
    simp [ih]

omit [DecidableEq Path] in
theorem view_map (fs : Path → Content) (r : Nat) (calls : List (Nat × Path)) :
    view r (calls.map (fun x => (x.1, fs x.2))) = (callsOf r calls).map fs := by
  induction calls with
  | nil => rfl
  | cons x rest ih =>
    simp only [view, callsOf] at ih ⊢
    by_cases hx : (x.1 == r) = true
    · simp [hx, ih]
    · simp [hx, ih]

end Hermes.FilePool

/-! ## day-length search loops -/
namespace Hermes.LangTag

variable {α : Type} [LT α] [DecidableLT α]

theorem searchPinned_some {dl : Nat → α} {thr : α} :
    ∀ fuel tag r, searchPinned dl thr fuel tag = some r →
      tag < r ∧ r ≤ tag + fuel ∧ thr < dl r ∧ ∀ t, tag < t → t < r → ¬ thr < dl t := by
  intro fuel
  induction fuel with
  | zero => intro tag r h; simp [searchPinned] at h
  | succ f ih =>
    intro tag r h
    simp only [searchPinned] at h
    by_cases hc : thr < dl (tag + 1)
    · simp only [hc, if_true, Option.some.injEq] at h
      subst h
      exact ⟨by omega, by omega, hc, fun t h1 h2 => by omega⟩
    · simp only [hc, if_false] at h
      obtain ⟨h1, h2, h3, h4⟩ := ih (tag + 1) r h
      refine ⟨by omega, by omega, h3, ?_⟩
      intro t ht1 ht2
      by_cases e : t = tag + 1
      · subst e; exact hc
      · exact h4 t (by omega) ht2

theorem searchPinned_none {dl : Nat → α} {thr : α} :
    ∀ fuel tag, searchPinned dl thr fuel tag = none ↔ ∀ t, tag < t → t ≤ tag + fuel → ¬ thr < dl t := by
  intro fuel
  induction fuel with
  | zero => intro tag; simp [searchPinned]; intro t h1 h2; omega
  | succ f ih =>
    intro tag
    simp only [searchPinned]
    by_cases hc : thr < dl (tag + 1)
    · simp only [hc, if_true]
      constructor
      · intro h; cases h
      · intro h; exact absurd hc (h (tag + 1) (by omega) (by omega))
    · simp only [hc, if_false, ih]
      constructor
      · intro h t h1 h2
        by_cases e : t = tag + 1
        · subst e; exact hc
        · exact h t (by omega) (by omega)
      · intro h t h1 h2
        exact h t (by omega) (by omega)

/-- The loop terminates iff some later day exceeds the threshold. -/
theorem searchPinned_terminates_iff (dl : Nat → α) (thr : α) (tag : Nat) :
    (∃ fuel r, searchPinned dl thr fuel tag = some r) ↔ ∃ t, tag < t ∧ thr < dl t := by
  constructor
  · rintro ⟨fuel, r, h⟩
    obtain ⟨h1, _, h3, _⟩ := searchPinned_some fuel tag r h
    exact ⟨r, h1, h3⟩
  · rintro ⟨t, h1, h2⟩
    cases hs : searchPinned dl thr (t - tag) tag with
    | some r => exact ⟨t - tag, r, hs⟩
    | none =>
      exact absurd h2 ((searchPinned_none (t - tag) tag).mp hs t h1 (by omega))


/-! ### the repaired, bounded search -/

/-- The result of the scan is the running maximum's day or one of the `fuel` inspected days. -/
theorem scan_range {dl : Nat → α} {thr : α} :
    ∀ fuel tag longest ld, scan dl thr fuel tag longest ld = ld ∨
      (tag ≤ scan dl thr fuel tag longest ld ∧ scan dl thr fuel tag longest ld < tag + fuel) := by
  intro fuel
  induction fuel with
  | zero => intro tag longest ld; left; rfl
  | succ f ih =>
    intro tag longest ld
    simp only [scan]
    by_cases h1 : thr < dl tag
    · simp only [h1, if_true]; right; omega
    · simp only [h1, if_false]
      by_cases h2 : longest < dl tag
      · simp only [h2, if_true]
        rcases ih (tag + 1) (dl tag) tag with h | h
        · right; rw [h]; omega
        · right; omega
      · simp only [h2, if_false]
        rcases ih (tag + 1) longest ld with h | h
        · left; exact h
        · right; omega

theorem firstDayLongerThan_range (dl : Nat → α) (thr zero : α) (frm : Nat) :
    frm < firstDayLongerThan dl thr zero frm ∧ firstDayLongerThan dl thr zero frm ≤ frm + 365 := by
  unfold firstDayLongerThan
  rcases scan_range (dl := dl) (thr := thr) 365 (frm + 1) zero (frm + 1) with h | h
  · rw [h]; omega
  · omega

/-- Where the pinned loop finds a day within the window, the bounded search returns the same day. -/
theorem scan_eq_pinned {dl : Nat → α} {thr : α} :
    ∀ fuel tag r longest ld, searchPinned dl thr fuel tag = some r →
      scan dl thr fuel (tag + 1) longest ld = r := by
  intro fuel
  induction fuel with
  | zero => intro tag r longest ld h; simp [searchPinned] at h
  | succ f ih =>
    intro tag r longest ld h
    simp only [searchPinned] at h
    simp only [scan]
    by_cases h1 : thr < dl (tag + 1)
    · simp only [h1, if_true, Option.some.injEq] at h ⊢
      exact h
    · simp only [h1, if_false] at h ⊢
      by_cases h2 : longest < dl (tag + 1)
      · simp only [h2, if_true]; exact ih (tag + 1) r _ _ h
      · simp only [h2, if_false]; exact ih (tag + 1) r _ _ h

/-- If no inspected day exceeds the threshold, none is returned as "long": the result is a day of the
window that does not exceed it (the fallback). -/
theorem scan_fallback {dl : Nat → α} {thr : α} :
    ∀ fuel tag longest ld, (∀ t, tag ≤ t → t < tag + fuel → ¬ thr < dl t) → ¬ thr < dl ld →
      ¬ thr < dl (scan dl thr fuel tag longest ld) := by
  intro fuel
  induction fuel with
  | zero => intro tag longest ld _ h; exact h
  | succ f ih =>
    intro tag longest ld hall hld
    simp only [scan]
    have h1 : ¬ thr < dl tag := hall tag (Nat.le_refl _) (by omega)
    simp only [h1, if_false]
    by_cases h2 : longest < dl tag
    · simp only [h2, if_true]
      exact ih (tag + 1) _ tag (fun t a b => hall t (by omega) (by omega)) h1
    · simp only [h2, if_false]
      exact ih (tag + 1) _ ld (fun t a b => hall t (by omega) (by omega)) hld

omit [LT α] [DecidableLT α] in
theorem periodic_shift {dl : Nat → α} {P : Nat} (hper : ∀ t, 1 ≤ t → dl (t + P) = dl t) (t k : Nat)
    (ht : 1 ≤ t) : dl (t + k * P) = dl t := by
  induction k with
  | zero => simp
  | succ k ih =>
    have : t + (k + 1) * P = (t + k * P) + P := by rw [Nat.succ_mul]; omega
    rw [this, hper _ (by omega), ih]

omit [DecidableLT α] in
/-- With a day-length function of period `P` (days are numbered from 1) a day above the threshold
exists after any `tag` iff one exists among the days 1…P. -/
theorem periodic_exists_iff {dl : Nat → α} {thr : α} {P : Nat} (hP : 0 < P)
    (hper : ∀ t, 1 ≤ t → dl (t + P) = dl t) (tag : Nat) :
    (∃ t, tag < t ∧ thr < dl t) ↔ ∃ t, 1 ≤ t ∧ t ≤ P ∧ thr < dl t := by
  constructor
  · rintro ⟨t, h1, h2⟩
    refine ⟨(t - 1) % P + 1, by omega, ?_, ?_⟩
    · have := Nat.mod_lt (t - 1) hP; omega
    · have e : t = ((t - 1) % P + 1) + ((t - 1) / P) * P := by
        have := Nat.div_add_mod (t - 1) P
        have hc : P * ((t - 1) / P) = ((t - 1) / P) * P := Nat.mul_comm _ _
        omega
      have := periodic_shift hper ((t - 1) % P + 1) ((t - 1) / P) (by omega)
      rw [← e] at this
      rw [← this]; exact h2
  · rintro ⟨t, h1, _, h3⟩
    refine ⟨t + tag * P, ?_, ?_⟩
    · have : tag ≤ tag * P := Nat.le_mul_of_pos_right tag hP
      omega
    · rw [periodic_shift hper _ _ h1]; exact h3

omit [LT α] [DecidableLT α] in
/-- the list-given day-length function is periodic (days numbered from 1) -/
theorem periodic_period (seq : List α) (dflt : α) (t : Nat) (h1 : 1 ≤ t) :
    periodic seq dflt (t + seq.length) = periodic seq dflt t := by
  unfold periodic
  have : (t + seq.length - 1) = (t - 1) + seq.length := by omega
  rw [this, Nat.add_mod_right]

end Hermes.LangTag

/-! ## day loop -/
namespace Hermes.RunLoop

variable {σ ε : Type}

/-- If the body never moves `g.ENDE` beyond `B`, the loop ends within `B + 1 − ZEIT` iterations. -/
theorem loop_terminates (body : σ → Nat → Nat → Except ε (σ × Nat)) (dt B : Nat) (hdt : 1 ≤ dt)
    (hB : ∀ s z e s' e', body s z e = .ok (s', e') → e' ≤ B) :
    ∀ fuel zeit ende s, ende ≤ B → B + 1 - zeit < fuel → loop body dt fuel zeit ende s ≠ none := by
  intro fuel
  induction fuel with
  | zero => intro zeit ende s _ h; omega
  | succ f ih =>
    intro zeit ende s he hf
    simp only [loop]
    by_cases hz : zeit > ende
    · simp [hz]
    · simp only [hz, if_false]
      cases hb : body s zeit ende with
      | error e => simp
      | ok p =>
        obtain ⟨s', e'⟩ := p
        simp only
        by_cases heq : zeit = e'
        · simp [heq]
        · simp only [heq, if_false]
          have he' := hB s zeit ende s' e' hb
          exact ih (zeit + dt) e' s' he' (by omega)

end Hermes.RunLoop
