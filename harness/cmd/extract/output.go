package main

// Facts for C05 (record loop and record writer), regenerated from the source on every run:
//   * the case types of the type switch of (*OutputConfig).WriteLine (output_fmt.go) and whether
//     each case / the default clause adds a text to the output line;
//   * the conditions that guard the three WriteLine calls and the loop bookkeeping in run.go,
//     and the harvest branch of nitro.go, as normalised expression texts.
// They go to evidence/facts.json; harness/cmd/check/c05.go compares them with what the Lean model
// transcribes (correspondence stage), so a changed switch or condition is reported even when no
// generated input distinguishes it — without blocking the failing-input search.

import (
	"fmt"
	"go/ast"
	"go/types"
	"path/filepath"
)

func init() { registerExtractor(extractOutput) }

func callsAdd(stmts []ast.Stmt) int {
	n := 0
	for _, s := range stmts {
		ast.Inspect(s, func(nd ast.Node) bool {
			if ce, ok := nd.(*ast.CallExpr); ok {
				if se, ok := ce.Fun.(*ast.SelectorExpr); ok && se.Sel.Name == "Add" {
					n++
				}
			}
			return true
		})
	}
	return n
}

// condTexts collects the normalised texts of all `if` conditions and `for` conditions of a function.
func condTexts(fd ast.Node) (ifs map[string]int, fors map[string]int) {
	ifs, fors = map[string]int{}, map[string]int{}
	ast.Inspect(fd, func(n ast.Node) bool {
		switch s := n.(type) {
		case *ast.IfStmt:
			ifs[types.ExprString(s.Cond)]++
		case *ast.ForStmt:
			if s.Cond != nil {
				fors[types.ExprString(s.Cond)]++
			}
		}
		return true
	})
	return
}

func extractOutput(repo, outDir string, fc *facts) {
	// ---- WriteLine type switch
	of := parseFile(filepath.Join(repo, "hermes", "output_fmt.go"))
	var wl *ast.FuncDecl
	for _, d := range of.Decls {
		if fd, ok := d.(*ast.FuncDecl); ok && fd.Name.Name == "WriteLine" && fd.Recv != nil {
			wl = fd
		}
	}
	must(wl != nil, "method WriteLine in output_fmt.go")
	var cases []string
	var adds []string
	defaultAdds := -1
	nSwitch := 0
	ast.Inspect(wl, func(n ast.Node) bool {
		ts, ok := n.(*ast.TypeSwitchStmt)
		if !ok {
			return true
		}
		nSwitch++
		for _, st := range ts.Body.List {
			cc := st.(*ast.CaseClause)
			if cc.List == nil {
				defaultAdds = callsAdd(cc.Body)
				continue
			}
			for _, e := range cc.List {
				cases = append(cases, types.ExprString(e))
				adds = append(adds, fmt.Sprint(callsAdd(cc.Body)))
			}
		}
		return false
	})
	must(nSwitch == 1, "exactly one type switch in WriteLine")
	fc.Strs["WriteLine.cases"] = cases
	fc.Strs["WriteLine.case_adds"] = adds
	fc.Scalars["WriteLine.default_adds"] = fmt.Sprint(defaultAdds)

	// ---- run.go: loop and trigger conditions
	rf := parseFile(filepath.Join(repo, "hermes", "run.go"))
	ifs, fors := condTexts(rf)
	nf := parseFile(filepath.Join(repo, "hermes", "nitro.go"))
	nifs, _ := condTexts(findFunc(nf, "Nitro"))
	present := func(m map[string]int, k string) string {
		return fmt.Sprintf("%s #%d", k, m[k])
	}
	rets := map[string]int{}
	if fd := findFunc(rf, "isAnnualOutputDay"); fd != nil {
		ast.Inspect(fd, func(n ast.Node) bool {
			if r, ok := n.(*ast.ReturnStmt); ok && len(r.Results) == 1 {
				rets[types.ExprString(r.Results[0])]++
			}
			return true
		})
	}
	shape := []string{
		"for " + present(fors, "ZEIT <= g.ENDE"),
		"if " + present(ifs, "OUTY >= g.ENDE"),
		"if " + present(ifs, "OUTINT > 0"),
		"if " + present(ifs, "(ZEIT % OUTINT) == 0"),
		"if " + present(ifs, "isAnnualOutputDay(ZEIT, outMonth, outDayOfMonth)"),
		"if " + present(ifs, "finished"),
		"if " + present(ifs, "month == outMonth && day == outDayOfMonth"),
		"return " + present(rets, "outMonth == 2 && outDayOfMonth == 29 && month == 3 && day == 1 && year % 4 != 0"),
		"nitro if " + present(nifs, "zeit == g.ERNTE[g.AKF.Index] && subd == 1"),
		"nitro if " + present(nifs, "g.AKF.Num > 1"),
	}
	fc.Strs["RecordLoop.shape"] = shape

	_ = outDir
}
