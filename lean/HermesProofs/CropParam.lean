/-
Lemmas about the crop-parameter readers and the converter (HermesModel/CropParam.lean):
the YAML reader applied to the converter's output stores exactly what the classic reader stores.
The statements hold for every arithmetic `α` (they only compare which expression is stored where).
-/
import HermesModel.CropParam
set_option linter.unusedSectionVars false
namespace Hermes.CropParam

section
variable {α : Type} [Add α] [Div α] [LT α] [LE α] [DecidableLT α] [DecidableLE α]
  [OfNat α 0] [OfNat α 100] [OfNat α 200] [TruncInt α]

theorem overlay_take (n : Nat) (l old : List α) : overlay n (l.take n) old = overlay n l old := by
  simp [overlay, List.take_take]

theorem bbch_convert_eq_classic (t : Option α)
    (h : ∀ v, t = some v → (0 : α) ≤ v ∧ v < (100 : α)) : bbchConvert t = bbchClassic t := by
  cases t with
  | none => rfl
  | some v =>
    have := h v rfl
    simp [bbchConvert, bbchClassic, this]

theorem stage_yml_convert (n i : Nat) (st : StageTok α) (s : State α)
    (h : ∀ v, st.bbch = some v → (0 : α) ≤ v ∧ v < (100 : α)) :
    stageYml n i (convertStage n st) s = stageClassic n i st s := by
  simp only [stageYml, stageClassic, convertStage, overlay_take, bbch_convert_eq_classic st.bbch h]

theorem stages_yml_convert (n : Nat) (l : List (StageTok α))
    (h : ∀ st ∈ l, ∀ v, st.bbch = some v → (0 : α) ≤ v ∧ v < (100 : α)) :
    ∀ (i : Nat) (s : State α), stagesYml n (l.map (convertStage n)) i s = stagesClassic n l i s := by
  induction l with
  | nil => intro i s; rfl
  | cons st rest ih =>
    intro i s
    simp only [List.map_cons, stagesYml, stagesClassic]
    rw [stage_yml_convert n i st s (h st (List.mem_cons_self ..))]
    exact ih (fun st' hm => h st' (List.mem_cons_of_mem _ hm)) (i + 1) _

/-- Core equality: the YAML reader on the converter's output and the classic reader store the same
state, from every prior state. -/
theorem yml_convert_eq_classic_core (t : Classic α) (rep : Bool) (s : State α)
    (hb : ∀ st ∈ t.stages, ∀ v, st.bbch = some v → (0 : α) ≤ v ∧ v < (100 : α)) :
    applyYmlCore (convert t) rep s = applyClassicCore t rep s := by
  have hstages : ((List.map (convertStage t.nrkom) (List.take t.nrentw t.stages)).take t.nrentw) =
      List.map (convertStage t.nrkom) (List.take t.nrentw t.stages) := by
    rw [← List.map_take, List.take_take, Nat.min_self]
  have hb' : ∀ st ∈ t.stages.take t.nrentw, ∀ v, st.bbch = some v → (0 : α) ≤ v ∧ v < (100 : α) :=
    fun st hm => hb st (List.mem_of_mem_take hm)
  simp only [applyYmlCore, applyClassicCore, convert, hstages, overlay_take,
    stages_yml_convert t.nrkom _ hb']
  congr 1
  by_cases hd : t.dauer = true <;> simp [reset, hd]

end
end Hermes.CropParam
