import HermesModel.Proto
import HermesModel.LangTag
import Driver.DispatchOps
open Hermes Hermes.Proto

/-!
Driver operations `langtag.*` (C11):

* `langtag.search P t14 t16 v₁…v_P` — `LangTag` of longday.go (bounded searches, fallback to the
  longest day) over the periodic day-length sequence given by one period. Day lengths and the two
  thresholds travel as the IEEE-754 bit patterns of the non-negative float64 values, read as
  natural numbers (order-preserving, so every comparison of the Go code is reproduced exactly).
  Answer `TAG P1 P2` (before the year offsets and the +20 days of P1).
* `langtag.table45` — the witness table of HermesModel/LangTag.lean.
-/
namespace Hermes.Driver

def langtagSearch (toks : Toks) : Option String := do
  let (p, r) ← popNat toks
  let (t14, r) ← popNat r
  let (t16, r) ← popNat r
  let (vals, _) ← popNats_Dispatch p r
  if p == 0 then none
  let dl := LangTag.periodic vals 0
  let (tag, p1, p2) := LangTag.langTag dl t14 t16 0
  pure s!"{tag} {p1} {p2}"

def langtagOps (toks : List String) : String :=
  match toks with
  | "langtag.search" :: rest => (langtagSearch rest).getD "bad-op"
  | ["langtag.table45"] => " ".intercalate (LangTag.dl45.map toString)
  | _ => "bad-op"

end Hermes.Driver
