package main

import (
	"fmt"
	"math"

	"verifharness/proj"
	"verifharness/vh"
)

func init() { register("C02", checkC02) }

// Signatures (kind of failing input, stable across seeds):
//   nmove:balance:lost:<flow class>            one nmove call removes N that no counter books
//   nmove:balance:created:<flow class>         one nmove call creates N although no clamp engaged
//   nmove:balance:drainloss-booked-without-removal   QDRAIN > 0 while Q1[DRAIDEP] < 0 (capillary rise
//                                              through the drain layer): DRAINLOSS grows, nothing leaves
//                                              (defect F2, repaired: the signature is kept so that a regression is named)
//   nmove:instability-flag                     flag differs from "some pre-clamp value below threshold"
//   nmove:dispersion-sum                       Σ DISP ≠ 0
//   mineral:source-bookkeeping                 Σ DN ≠ ΔMINAOS + ΔMINFOS + ΔUMS − ΔN2onitsum
//   denitr:balance / denitmo:balance           removal differs from ΔCUMDENIT (clamp may only add)
//   run:balance:…                              the same on whole simulated days

// nmoveKernelStage: correspondence of nmove with the Lean model + the C02 (balance) and C07
// (non-negativity, crediting) predicates on the implementation's answer.
func nmoveKernelStage(c *vh.Ctx, n int, prop string) {
	var cases, impl []string
	var kept []nmoveCase
	for k := 0; k < n; k++ {
		nc := genNmoveCase(c.Rng, c.Rng.Chance(0.7))
		evalNmoveCase(c, &nc, prop, &cases, &impl, &kept, fmt.Sprintf("n%d", k))
	}
	saved := kept
	c.Correspond("nitro.nmove", cases, impl, 1e-9, 1e-12, func(i int) interface{} { return saved[i] })
	nmoveSrcImpStage(c, saved)
	nmoveConcurrent(c, saved)
}

func evalNmoveCase(c *vh.Ctx, nc *nmoveCase, prop string, cases, impl *[]string, kept *[]nmoveCase, key string) {
	o, pan := runNmoveImpl(nc)
	c.Eval()
	c.Count("nmove:" + nc.Class)
	c.Count(fmt.Sprintf("nmove:first=%v", nc.First))
	if pan != "" {
		c.Violate("search", "nmove:panic", "nmove panicked: "+pan, nc)
		return
	}
	nc.D = o.D
	c.Nontrivial(key)
	if len(c.Res.Samples) < 2 {
		c.Sample(*nc)
	}
	v := evalNmove(nc, &o)
	c1u := make([]float64, nc.N)
	for z := range c1u {
		c1u[z] = nc.C1[z]
		if nc.First {
			c1u[z] = math.Max(0, nc.C1[z]-o.Pe[z])
		}
	}
	*cases = append(*cases, nc.line())
	*impl = append(*impl, o.line(nc, nc.carr(c1u)))
	*kept = append(*kept, *nc)
	if v.Clamp {
		c.Count("nmove:clamp-engaged")
	}
	if v.DrainUp {
		c.Count("nmove:drain-with-upward-flux")
	}
	if prop == "C02" && nc.N >= 2 && nc.Outn == nc.N {
		switch {
		case v.NonFinite:
			// reported by C07
		case v.Residual < -v.Tol:
			c.Violate("search", "nmove:balance:lost:"+nc.Class,
				fmt.Sprintf("one nmove call loses %.6g kg N/ha that no counter books (ΣC1 after − expected; tolerance %.2g)", -v.Residual, v.Tol), nc)
		case v.Residual > v.Tol && !v.Clamp:
			sig := "nmove:balance:created:" + nc.Class
			what := fmt.Sprintf("one nmove call creates %.6g kg N/ha although no non-negativity clamp engaged (tolerance %.2g)", v.Residual, v.Tol)
			if v.DrainUp {
				sig = "nmove:balance:drainloss-booked-without-removal"
				what = fmt.Sprintf("DRAINLOSS grows by %.6g kg N/ha while the flux at the drain layer is upward (Q1[DRAIDEP] = %.4g < 0, QDRAIN = %.4g): nothing leaves the profile, balance residual %.6g", o.Drainl-nc.Drainl, nc.Q[nc.Draidep-1], nc.Qdrain, v.Residual)
			}
			c.Violate("search", sig, what, nc)
		}
		if o.Unstable != v.BelowStab {
			c.Violate("search", "nmove:instability-flag", fmt.Sprintf("instability flag %v but pre-clamp value below threshold: %v", o.Unstable, v.BelowStab), nc)
		}
		if nc.N >= 2 && math.Abs(v.DispSum) > 1e-9*(v.DispScale+1e-300) && math.Abs(v.DispSum) > 1e-15 {
			c.Violate("search", "nmove:dispersion-sum", fmt.Sprintf("dispersion terms sum to %.3g (scale %.3g), not 0", v.DispSum, v.DispScale), nc)
		}
	}
	if prop == "C07" {
		if v.NonFinite {
			c.Violate("search", "nmove:nonfinite", "non-finite value after one nmove call", nc)
		}
		if v.NegAfter {
			c.Violate("search", "nmove:negative", "negative mineral N or uptake after one nmove call", nc)
		}
		dA := o.Aufnasum - nc.Aufnasum
		dP := o.Pesum - nc.Pesum
		tol := relTol(nc.Aufnasum, nc.Pesum, v.UptakeSum)
		if nc.First {
			if math.Abs(dA-v.UptakeSum) > tol {
				c.Violate("search", "nmove:uptake-credit:first-substep", fmt.Sprintf("AUFNASUM grows by %.9g, uptake of the layers is %.9g", dA, v.UptakeSum), nc)
			}
			want := v.UptakeSum
			if nc.InSeason {
				want += nc.Schnorr
			}
			if math.Abs(dP-want) > tol+1e-9*math.Abs(nc.Schnorr) {
				sig := "nmove:cropN-credit:first-substep"
				if nc.NotSown {
					sig += ":not-sown-yet" // SAAT = 0 (automatic sowing pending): no crop, the stale SCHNORR of the harvested crop must not be credited
				}
				c.Violate("search", sig, fmt.Sprintf("PESUM grows by %.9g, uptake + fixation is %.9g", dP, want), nc)
			}
		} else {
			if dA != 0 {
				c.Violate("search", "nmove:uptake-credit:later-substep", fmt.Sprintf("AUFNASUM grows by %.9g in a sub-step after the first", dA), nc)
			}
			if math.Abs(dP) > tol {
				sig := "nmove:cropN-credit:later-substep"
				if nc.InSeason && nc.Schnorr != 0 && math.Abs(dP-nc.Schnorr) <= tol {
					sig = "fixation:credited-in-every-substep"
				}
				c.Violate("search", sig, fmt.Sprintf("PESUM grows by %.9g kg N/ha in a sub-step after the first (N fixation of the day = %.9g is added again)", dP, nc.Schnorr), nc)
			}
			for z := 0; z < nc.N; z++ {
				if o.Pe[z] != nc.Pe[z] {
					c.Violate("search", "nmove:uptake-changed:later-substep", "PE changed in a sub-step after the first", nc)
					break
				}
			}
		}
	}
}

// chainStage: reachable flux patterns — the real Water routine produces Q1 / QDRAIN (drain layer,
// shallow groundwater with capillary rise decided on the moisture of the morning, heavy rain),
// the real nmove transports on them.
func chainStage(c *vh.Ctx, n int, prop string) {
	var cases, impl []string
	var kept []nmoveCase
	for k := 0; k < n; k++ {
		r := c.Rng
		wc := genWaterCase(r)
		for wc.N < 2 {
			wc = genWaterCase(r)
		}
		wc.Branch = "infiltration"
		wc.Fluss0 = vh.RoundTo(r.Uni(1, 30), 2)
		wc.Draidep = r.Range(1, wc.N)
		wc.Draifak = vh.RoundTo(r.Uni(0.3, 1), 2)
		if r.Chance(0.3) {
			wc.Draifak = 1
		}
		wc.Outn = wc.N
		wc.Grw = vh.RoundTo(float64(wc.Draidep)+r.Uni(0, 4), 1)
		wc.First = r.Chance(0.3)
		caplay := r.Range(1, wc.Draidep)
		for i := 0; i < wc.N; i++ {
			// wet profile: infiltration passes; moisture index of the morning (stale in later sub-steps)
			wc.Wg[i] = vh.RoundTo(wc.W[i]-r.Uni(0, 0.01), 4)
			wc.Tp[i] = 0
			wc.Nfk[i] = 0.9
			if i < caplay {
				wc.Nfk[i] = vh.RoundTo(r.Uni(0.2, 0.69), 2)
			}
		}
		wo, pan := runWaterImpl(&wc)
		if pan != "" {
			continue
		}
		nc := genNmoveCase(r, true)
		nc.N = wc.N
		nc.Wdt, nc.First, nc.Fluss0, nc.Draidep, nc.Outn = wc.Wdt, wc.First, wc.Fluss0, wc.Draidep, wc.N
		nc.Qdrain = wo.Qdrain
		nc.Q = append([]float64{}, wo.Q1[1:wc.N+1]...)
		nc.Wg = append(append([]float64{}, wc.Wg...), wc.Wg[wc.N-1])
		nc.W = append(append([]float64{}, wc.W...), wc.W[wc.N-1])
		for len(nc.C1) < nc.N {
			nc.C1 = append(nc.C1, vh.RoundTo(r.Uni(0, 60), 3))
			nc.Pe = append(nc.Pe, 0)
			nc.Dn = append(nc.Dn, 0)
			nc.Ad = append(nc.Ad, 0.003)
		}
		nc.C1, nc.Pe, nc.Dn, nc.Ad = nc.C1[:nc.N], nc.Pe[:nc.N], nc.Dn[:nc.N], nc.Ad[:nc.N]
		nc.Class = "water-chain/" + flowClass(nc.Fluss0, nc.Q)
		if nc.Qdrain > 0 {
			c.Count("chain:drain-flux")
		}
		evalNmoveCase(c, &nc, prop, &cases, &impl, &kept, fmt.Sprintf("ch%d", k))
	}
	saved := kept
	c.Correspond("nitro.nmove", cases, impl, 1e-9, 1e-12, func(i int) interface{} { return saved[i] })
}

func mineralKernelStage(c *vh.Ctx, n int, prop string) {
	var cases, impl []string
	var kept []mineralCase
	for k := 0; k < n; k++ {
		mc := genMineralCase(c.Rng)
		o, pan := runMineralImpl(&mc)
		c.Eval()
		c.Count("mineral:" + mc.Class)
		if pan != "" {
			c.Violate("search", "mineral:panic", "mineral panicked: "+pan, mc)
			continue
		}
		c.Nontrivial(fmt.Sprintf("m%d", k))
		cases = append(cases, mc.line())
		impl = append(impl, o.line())
		kept = append(kept, mc)
		dnSum, dA, dF := 0.0, 0.0, 0.0
		terms := []float64{mc.Ums, o.Ums, mc.N2onitsum, o.N2onitsum}
		for z := 0; z < mc.Num; z++ {
			dnSum += o.Dn[z]
			dA += o.Minaos[z] - mc.L[z].Minaos
			dF += o.Minfos[z] - mc.L[z].Minfos
			terms = append(terms, o.Dn[z], o.Minaos[z], o.Minfos[z])
			if prop == "C07" {
				x := mc.L[z]
				tolA := relTol(x.Naos, x.Minaos)
				tolF := relTol(x.Nfos, x.Minfos)
				if d := (o.Naos[z] + o.Minaos[z]) - (x.Naos + x.Minaos); math.Abs(d) > tolA {
					c.Violate("search", "mineral:pool-conservation:slow", fmt.Sprintf("NAOS+MINAOS of layer %d changes by %.6g in mineral", z+1, d), mc)
				}
				if d := (o.Nfos[z] + o.Minfos[z]) - (x.Nfos + x.Minfos); math.Abs(d) > tolF {
					c.Violate("search", "mineral:pool-conservation:fast", fmt.Sprintf("NFOS+MINFOS of layer %d changes by %.6g in mineral", z+1, d), mc)
				}
				if o.Naos[z] < 0 || o.Nfos[z] < 0 || o.Minaos[z] < 0 || o.Minfos[z] < 0 {
					c.Violate("search", "mineral:negative-pool", fmt.Sprintf("negative organic pool or counter in layer %d after mineral", z+1), mc)
				}
				if o.Minaos[z] < x.Minaos || o.Minfos[z] < x.Minfos {
					c.Violate("search", "mineral:counter-decreases", "a mineralised-amount counter decreases in mineral", mc)
				}
				if !allFinite(o.Naos[z], o.Nfos[z], o.Minaos[z], o.Minfos[z], o.Dn[z]) {
					c.Violate("search", "mineral:nonfinite", "non-finite pool after mineral", mc)
				}
			}
		}
		if prop == "C02" {
			want := dA + dF + (o.Ums - mc.Ums) - (o.N2onitsum - mc.N2onitsum)
			if math.Abs(dnSum-want) > relTol(terms...) {
				c.Violate("search", "mineral:source-bookkeeping", fmt.Sprintf("source term ΣDN = %.9g but counters say ΔMINAOS+ΔMINFOS+ΔUMS−ΔN2onitsum = %.9g", dnSum, want), mc)
			}
		}
		if prop == "C07" {
			// UMS ≤ DSUMM, NH4UMS ≤ NH4Sum stay invariant (states with the invariant at entry)
			if o.Ums > mc.Dsumm+relTol(mc.Dsumm) {
				c.Violate("search", "mineral:dissolved-exceeds-applied:"+mc.Class, fmt.Sprintf("UMS = %.9g exceeds DSUMM = %.9g after mineral", o.Ums, mc.Dsumm), mc)
			}
			if o.Nh4ums > mc.Nh4sum+relTol(mc.Nh4sum) {
				c.Violate("search", "mineral:nitrified-exceeds-applied:"+mc.Class, fmt.Sprintf("NH4UMS = %.9g exceeds NH4Sum = %.9g after mineral", o.Nh4ums, mc.Nh4sum), mc)
			}
			if o.Ums < mc.Ums || o.Nh4ums < mc.Nh4ums || o.N2onitsum < mc.N2onitsum-relTol(mc.N2onitsum)*1e-3 {
				c.Violate("search", "mineral:counter-decreases", "UMS / NH4UMS / N2onitsum decreases in mineral", mc)
			}
			if !allFinite(o.Ums, o.Nh4ums, o.N2onitsum, o.Minsum) {
				c.Violate("search", "mineral:nonfinite", "non-finite counter after mineral", mc)
			}
		}
	}
	saved := kept
	c.Correspond("nitro.mineral", cases, impl, 1e-9, 1e-12, func(i int) interface{} { return saved[i] })
	mineralSrcImpStage(c, saved)
}

func denitKernelStage(c *vh.Ctx, n int, prop string) {
	var cases, impl []string
	var kept []denitCase
	for k := 0; k < n; k++ {
		dc := genDenitCase(c.Rng, c.Rng.Chance(0.3))
		o, pan := runDenitImpl(&dc)
		c.Eval()
		c.Count("denit:" + dc.Class)
		if pan != "" {
			c.Violate("search", "denit:panic", "denitrification panicked: "+pan, dc)
			continue
		}
		c.Nontrivial(fmt.Sprintf("d%d", k))
		cases = append(cases, dc.line())
		impl = append(impl, o.line())
		kept = append(kept, dc)
		before, after := sum(dc.C), sum(o.C)
		booked := o.Cumdenit - dc.Cumdenit
		tol := relTol(before, after, dc.Cumdenit, o.Cumdenit)
		name := "denitr"
		if dc.Marsh {
			name = "denitmo"
		}
		clamp := false
		for _, x := range o.C {
			if x == 0 {
				clamp = true
			}
			if prop == "C07" && (x < 0 || !allFinite(x)) {
				c.Violate("search", name+":negative-or-nonfinite", "negative or non-finite nitrate after denitrification", dc)
			}
		}
		if prop == "C02" {
			removed := before - after
			switch {
			case removed > booked+tol:
				c.Violate("search", name+":balance:removes-more-than-booked", fmt.Sprintf("denitrification removes %.9g kg N/ha but books %.9g", removed, booked), dc)
			case removed < booked-tol && !clamp:
				c.Violate("search", name+":balance:books-more-than-removed", fmt.Sprintf("denitrification books %.9g kg N/ha but removes %.9g although no clamp engaged", booked, removed), dc)
			case removed < booked-tol:
				c.Count(name + ":clamp-added")
			}
			if booked < 0 {
				c.Violate("search", name+":negative-rate", "negative denitrification booked", dc)
			}
		}
	}
	saved := kept
	c.Correspond("nitro.denit", cases, impl, 1e-9, 1e-12, func(i int) interface{} { return saved[i] })
	denitrSrcImpStage(c, saved)
}

// nitroProjects: the whole-simulation inputs of C02/C07 — moderate and extreme weather, drains with
// shallow groundwater, management schedules, legumes; leaching depth at the profile bottom.
func nitroProject(c *vh.Ctx, k int, legumes bool) *proj.Project {
	r := c.Rng.Fork()
	o := proj.Opt{Management: true, MinLayers: 3, Legumes: legumes}
	class := k % 5
	switch class {
	case 1:
		o.Extreme = true
	case 2:
		o.Extreme, o.Drain, o.ShallowGW = true, true, true
	case 3:
		o.Drain, o.ShallowGW = true, true
	case 4:
		o.Extreme = true
		o.MaxLayers = 6
	}
	if r.Chance(0.1) {
		o.MinLayers = 2
		o.MaxLayers = 3
	}
	p := proj.Gen(r, fmt.Sprintf("n%d", k), o)
	if class == 2 {
		// drain that takes (nearly) all excess water, groundwater close below the drain
		p.DrainPct = r.Range(70, 100)
		if p.DrainDep < 2 && p.N() > 2 {
			p.DrainDep = r.Range(2, p.N())
		}
		p.GW = p.DrainDep + r.Range(0, 3)
	}
	steerNitroProject(p, false)
	if class == 1 && k%2 == 1 && p.N() < 20 {
		// drain pipes below the simulated profile (e.g. 12 dm under a 10-layer profile): no layer is the drain layer, nothing
		// may be drained or booked as drain loss (derived from k: the random stream of the other classes is unchanged)
		p.DrainDep = p.N() + 1 + k%2
		if p.DrainDep > 21 {
			p.DrainDep = 21
		}
		if p.DrainPct == 0 {
			p.DrainPct = 60
		}
	}
	nitroVariant(c, r, p, k, legumes) // configuration values, irrigation N, automatic management (run_nitro_auto.go); draws after everything else
	return p
}

// balanceOfDay evaluates the C02 statement on one simulated day from the probe snapshots.
func c02Day(c *vh.Ctx, run *nRun, i int) {
	d := run.Days[i]
	if !d.HaveEnd {
		return
	}
	n := run.N
	var prev *nDay
	if i > 0 {
		prev = run.Days[i-1]
	}
	// excluded days: measurement overwrite (MZ advanced before the sub-step loop), day after the
	// annual output date (counters were reset after yesterday's day end)
	if prev == nil {
		if d.Start.MZ > 1 {
			c.Count("run:day-excluded:measurement")
			return
		}
	} else {
		if d.Start.MZ != prev.End.MZ {
			c.Count("run:day-excluded:measurement")
			return
		}
		reset := func(now, before float64) bool { return now == 0 && before != 0 }
		if reset(d.Start.Outsum, prev.End.Outsum) || reset(d.Start.Cumdenit, prev.End.Cumdenit) || reset(d.Start.N2onitsum, prev.End.N2onitsum) {
			c.Count("run:day-excluded:after-annual-output")
			return
		}
	}
	c.Eval()
	payload := func() interface{} {
		return map[string]interface{}{"project": run.P, "date": d.Date, "zeit": d.Zeit, "substeps": len(d.Subs), "layers": n}
	}
	// (A) inputs between yesterday's end and the sub-step loop: deposition + irrigation N
	if prev != nil && prev.HaveEnd {
		got := d.Start.SumC1 - prev.End.SumC1
		want := d.Depo + d.IrrN
		if math.Abs(got-want) > relTol(d.Start.SumC1, prev.End.SumC1, want) {
			c.Violate("search", "run:balance:day-inputs", fmt.Sprintf("%s: mineral N changes by %.9g before the sub-step loop, deposition + irrigation N = %.9g", d.Date, got, want), payload())
		}
	}
	// (B) the day itself
	s, e := d.Start, d.End
	dMin := (sum4(e.Minaos, n) - sum4(s.Minaos, n)) + (sum4(e.Minfos, n) - sum4(s.Minfos, n))
	dUms := e.Ums - s.Ums
	dN2o := e.N2onitsum - s.N2onitsum
	dUp := e.Aufnasum - s.Aufnasum
	dOut := e.Outsum - s.Outsum
	dDrain := e.Drainloss - s.Drainloss
	dDen := e.Cumdenit - s.Cumdenit
	want := dMin + dUms - dN2o - dUp - dOut - dDrain - dDen
	got := e.SumC1 - s.SumC1
	res := got - want
	tol := relTol(s.SumC1, e.SumC1, dMin, dUms, dN2o, dUp, dOut, dDrain, dDen, s.Outsum, s.Drainloss, s.Aufnasum, s.Cumdenit, sum4(s.Minaos, n), sum4(s.Minfos, n))
	// day input inside the sub-step loop: mineral part of an automatic organic fertilisation at sowing (exactly one application or none)
	if dn := c02DirectN(c, run, d, res, tol); dn != 0 {
		want += dn
		res -= dn
	}
	clamp, drainUp, unstable := false, false, false
	drainUpBooked := 0.0 // drain loss booked in sub-steps whose flux at the drain layer is upward
	lastDrain := s.Drainloss
	for _, sb := range d.Subs {
		clamp = clamp || sb.ClampEvidence
		unstable = unstable || sb.Unstable
		if sb.Qdrain > 0 && sb.Q1Drain < 0 {
			drainUp = true
			drainUpBooked += sb.Drainloss - lastDrain
		}
		lastDrain = sb.Drainloss
	}
	denitLayers := 3
	if run.P.Soil[0].Texture[0] == 'H' {
		denitLayers = 9 // marsh land soil: Denitmo works on three 30 cm blocks
		c.Count("run:day-with-Denitmo")
	}
	for z := 0; z < denitLayers && z < n; z++ {
		if e.C1[z] == 0 {
			clamp = true // clamp of Denitr / Denitmo
		}
	}
	if len(d.Subs) > 1 {
		c.Nontrivial(fmt.Sprintf("%s:%d", run.P.Name, d.Zeit))
		c.Count("run:multi-substep-day")
	}
	if drainUp {
		c.Count("run:day-with-drain-and-upward-flux")
	}
	if dDrain != 0 {
		c.Count("run:day-with-drain-loss")
	}
	if d.Start.NTIL != d.End.NTIL {
		c.Count("run:tillage-day")
	}
	if d.Start.NDG != d.End.NDG {
		c.Count("run:fertiliser-day")
	}
	if d.IrrN > 0 {
		c.Count("run:irrigation-N-day")
	}
	layers := "layers>=3"
	if n < 3 {
		layers = "layers<3"
	}
	switch {
	case math.IsNaN(res) || math.IsInf(res, 0):
		if d.UnstableSoFar {
			c.Count("run:day-skipped:nonfinite-after-flagged-instability") // finiteness is C07's statement
		} else {
			c.Violate("search", "run:balance:nonfinite", d.Date+": non-finite N balance although the run was never flagged unstable", payload())
		}
	case res < -tol:
		c.Violate("search", "run:balance:lost:"+layers, fmt.Sprintf("%s: %.6g kg N/ha disappear from the profile without being booked (ΔΣC1 = %.9g, booked %.9g, %d sub-steps)", d.Date, -res, got, want, len(d.Subs)), payload())
	case res > tol && drainUp && math.Abs(res-drainUpBooked) <= tol && (!clamp || !unstable):
		// (on a day of flagged instability the clamp gives back what the drain term over-draws: not this defect)
		c.Violate("search", "run:balance:drainloss-booked-without-removal", fmt.Sprintf("%s: %.6g kg N/ha of drain loss are booked in sub-steps whose flux at the drain layer is upward (capillary rise): nothing leaves the profile, the balance residual is exactly that amount (%.6g)", d.Date, drainUpBooked, res), payload())
	case res > tol && !clamp:
		c.Violate("search", "run:balance:created:"+layers, fmt.Sprintf("%s: %.6g kg N/ha appear in the profile although no clamp engaged (ΔΣC1 = %.9g, booked %.9g, %d sub-steps)", d.Date, res, got, want, len(d.Subs)), payload())
	case res > tol:
		c.Count("run:clamp-added-N")
		if res > 1.5*float64(n)*float64(len(d.Subs))+tol && !unstable {
			// every clamp that adds more than the threshold must raise the flag; n·steps clamps of at most
			// the threshold each are the most an unflagged day can add
			c.Violate("search", "run:clamp-without-instability-flag", fmt.Sprintf("%s: clamps added %.6g kg N/ha but the run was not flagged unstable", d.Date, res), payload())
		}
	}
}

func wholeRunStage(c *vh.Ctx, runs int, legumes bool, eval func(c *vh.Ctx, run *nRun, i int)) {
	failed := 0
	for k := 0; k < runs; k++ {
		p := nitroProject(c, k, legumes)
		run := runNitroObserved(c, p)
		c.Count("run:simulations")
		if run.Res.Panic != "" {
			c.Violate("search", panicSignature(run.Res.Panic), "simulation panicked: "+run.Res.Panic, map[string]interface{}{"project": p})
			continue
		}
		if run.Res.Err != nil {
			failed++
			c.Count("run:input-rejected")
			continue
		}
		if _, ok := nitroSameDayIrrConc[p]; ok {
			c.Count("run:schedule-with-two-irrigation-lines-on-one-day")
			if run.SameDayIrrDays > 0 {
				c.Count("run:schedule-with-two-irrigation-lines-on-one-day:water-applied-that-day")
			}
		}
		if k < 1 {
			c.Sample(map[string]interface{}{"project": p.Name, "layers": run.N, "days": len(run.Days), "substep_histogram": run.Steps})
		}
		for n, cnt := range run.Steps {
			b := "1"
			switch {
			case n >= 100:
				b = "100+"
			case n >= 20:
				b = "20-99"
			case n >= 5:
				b = "5-19"
			case n >= 2:
				b = "2-4"
			}
			c.Res.Distribution["run:days-with-substeps="+b] += cnt
		}
		for i := range run.Days {
			eval(c, run, i)
		}
	}
	if failed*2 > runs {
		c.Violate("search", "run:generator", fmt.Sprintf("%d of %d generated simulations were rejected by the model", failed, runs), nil)
	}
}

// peatRuns: whole simulations on organic soils (first horizon HN / HH1-4), where run.go calls
// Denitmo instead of Denitr.
func peatRuns(c *vh.Ctx, runs int, legumes bool, eval func(c *vh.Ctx, run *nRun, i int)) {
	for k := 0; k < runs; k++ {
		r := c.Rng.Fork()
		p := proj.Gen(r, fmt.Sprintf("pt%d", k), proj.Opt{Management: true, MinLayers: 9, ShallowGW: k%2 == 0, Legumes: legumes})
		if !proj.MakePeat(p, r) {
			continue
		}
		steerNitroProject(p, false)
		run := runNitroObserved(c, p)
		c.Count("run:peat-simulations")
		if run.Res.Panic != "" {
			c.Violate("search", panicSignature(run.Res.Panic), "simulation on a peat soil panicked: "+run.Res.Panic, map[string]interface{}{"project": p})
			continue
		}
		if run.Res.Err != nil {
			c.Count("run:input-rejected")
			continue
		}
		for i := range run.Days {
			eval(c, run, i)
		}
	}
}

func checkC02(c *vh.Ctx) {
	c.Res.Rule = "kernel: generated states of nmove (2-20 layers, all sign patterns of the fluxes, drain layer, 1-50 sub-steps, with and without clamps), of mineral, Denitr/Denitmo, and nmove on fluxes produced by the real Water routine; whole runs: every simulated day that the property does not exclude; non-trivial = distinct kernel state or simulated multi-sub-step day"
	nmoveKernelStage(c, c.N(2500, 40000), "C02")
	chainStage(c, c.N(1500, 20000), "C02")
	mineralKernelStage(c, c.N(1000, 15000), "C02")
	denitKernelStage(c, c.N(1000, 15000), "C02")
	wholeRunStage(c, c.N(40, 500), false, c02Day)
	peatRuns(c, c.N(4, 40), false, c02Day)
	tillKernelStage(c, c.N(800, 10000)) // complete mixing only moves mineral N between the tilled layers (any depth, incl. deeper than the four counter slots)
	deepTillageRuns(c, c.N(4, 40), c02Day)
	lateMeasureRuns(c, c.N(4, 40), c02Day) // the overwrite day in the middle of a run is excluded, the days around it are not
	// Denitmo on the whole array (c02_denitmo.go); after the older stages so that their random streams are unchanged
	denitmoKernelStage(c, c.N(1500, 20000))
	denitmoRunStage(c, c.N(4, 30), 9, 20)
	denitmoRunStage(c, c.N(6, 30), 2, 8) // peat profiles shallower than the three 30 cm blocks
}

// nmoveConcurrent: the nmove cases in 8 goroutines at once must give the sequential answers (see kern_concurrent.go)
func nmoveConcurrent(c *vh.Ctx, saved []nmoveCase) {
	nc := minI(len(saved), 600)
	if nc == 0 {
		return
	}
	render := func(i int) string {
		cs := saved[i]
		o, pan := runNmoveImpl(&cs)
		if pan != "" {
			return "panic " + pan
		}
		return fmt.Sprint(o.C1, o.Unstable, o.Outsum, o.Drainl, o.Pesum, o.Aufnasum, o.Disp, o.Konv)
	}
	want := make([]string, nc)
	for i := range want {
		want[i] = render(i)
	}
	concurrentKernelStage(c, "nmove", want, 8, 2, render, func(i int, got string) {
		if i < 0 {
			c.Violate("search", "nmove:concurrent:panic", "nmove panics when several simulations run at the same time: "+got, nil)
			return
		}
		if render(i) != want[i] {
			return
		}
		c.Violate("search", "nmove:concurrent:differs-from-sequential", fmt.Sprintf("nmove on its own state gives another answer when other simulations call it at the same time (state shared between runs): sequential %.80s…, concurrent %.80s…", want[i], got), saved[i])
	})
}
