package main

import (
	"encoding/json"
	"fmt"
	"math"
	"os"
	"path/filepath"
	"strings"

	"github.com/zalf-rpm/Hermes2Go/hermes"
	"verifharness/proj"
	"verifharness/vh"
)

// C08, potential-ET part: correspondence of hermes.Evatra with the Lean model of the five
// potential-ET methods, stomat and CalculateDayLenght (lean/HermesModel/EvatraPet.lean; driver ops
// pet.sites / pet.day / pet.fkm and the composition evatra.full / evatra.fullsites), and the C08
// predicates evaluated on the answers of the real code.
//
// The model contains no transcendental function: every call site of Go's math package is an input.
// The harness is only an oracle for them: the driver is asked for the argument of every site
// (pet.sites), the harness applies Go's own function, and the round is repeated until the values
// no longer change (the sites depend on each other: declination -> day length -> clear-day
// radiation -> assimilation -> ...). No formula of the implementation is repeated on this side.

// ---------------------------------------------------------------------------- snapshots

// petSnap: the state right before one call of hermes.Evatra.
type petSnap struct {
	g    *hermes.GlobalVarsMain
	l    *hermes.WaterSharedVars
	zeit int
	desc interface{} // replay payload
	cls  string      // input class (signature part)
}

func clonePetState(s *petSnap) (*hermes.GlobalVarsMain, *hermes.WaterSharedVars) {
	g := *s.g
	l := *s.l
	return &g, &l
}

// normalise: accumulators the call only adds to start at zero (so that the day's increment can be
// read exactly); LURED is written before it is read under a crop and left alone on bare soil (the
// model reports 1 there).
func (s *petSnap) normalise() {
	s.g.VERDUNST, s.g.ETC0 = 0, 0
	s.g.LURED = 1
}

type petImpl struct {
	Verdu0, Et0, Rstom, Satdef, Wind, Sund, Fkc, Radsum float64
	o                                                evOut
	Panic                                            string
}

func petScaleKc(g *hermes.GlobalVarsMain, f float64) {
	g.FKC *= f
	g.FKB *= f
	for m := 0; m < 12; m++ {
		g.FKF[m] *= f
		g.FKU[m] *= f
	}
}

// runPetSnap calls the real Evatra on copies of the snapshot: with every crop / bare-soil coefficient
// scaled by ±2^-12 (exact; shows the raw potential ET of the method, which the floor and the cap
// hide), then as it is.
func runPetSnap(s *petSnap) (r petImpl) {
	defer func() {
		if x := recover(); x != nil {
			r.Panic = fmt.Sprint(x)
		}
	}()
	ti := s.g.TAG.Index
	n := s.g.N
	gs, ls := clonePetState(s)
	petScaleKc(gs, evScale)
	hermes.Evatra(ls, gs, nil, s.zeit)
	r.Verdu0 = gs.VERDUNST / evScale
	if gs.VERDUNST == 0 {
		gn, ln := clonePetState(s)
		petScaleKc(gn, -evScale)
		hermes.Evatra(ln, gn, nil, s.zeit)
		if gn.VERDUNST > 0 {
			r.Verdu0 = -(gn.VERDUNST / evScale)
		}
	}
	g, l := clonePetState(s)
	hermes.Evatra(l, g, nil, s.zeit)
	r.Et0, r.Rstom, r.Satdef, r.Wind, r.Sund, r.Fkc, r.Radsum = g.ET0, g.RSTOM, l.SATDEF, g.WIND[ti], g.SUND[ti], g.FKC, g.RADSUM
	o := &r.o
	o.Verdu = g.VERDUNST
	o.Eta, o.Eva, o.Fluss0, o.Gwauf = g.ETA, l.EVA[ti], g.FLUSS0, l.GWAUF
	o.Lured, o.Etrel, o.Trrel, o.Lumday, o.Wurz = g.LURED, g.ETREL, g.TRREL, g.LUMDAY, g.WURZ
	o.Ev = append(o.Ev, l.EV[:n]...)
	o.Nfk = append(o.Nfk, l.NFK[:n]...)
	o.Tp = append(o.Tp, g.TP[:n]...)
	hermes.Water(1, 1, s.zeit, g, l)
	o.TpLimited = append(o.TpLimited, g.TP[:n]...)
	return
}

// pinTokens: the `<pin>` part of the driver lines, read from the state before the call.
func pinTokens(s *petSnap) string {
	g, l := s.g, s.l
	ti := g.TAG.Index
	var sb strings.Builder
	fmt.Fprintf(&sb, "%d %d %d %d %d ", g.ETMETH, b2i(cropActive(g, s.zeit)), int(g.TAG.Num), b2i(g.CTRANS), g.CO2METH)
	sb.WriteString(vh.FVals(g.VERD[ti], g.TEMP[ti], g.TMIN[ti], g.TMAX[ti], g.RAD[ti], g.SUND[ti], g.RH[ti], g.WIND[ti], g.ETNULL[ti],
		g.LAT, g.ALTI, g.WINDHI, g.KCOA, g.FKC, g.FKB, g.CO2KONZ, g.MINTMP, g.ALPH, g.SATBETA, g.DT.Num,
		g.ET0, g.RSTOM, l.SATDEF, g.RADSUM))
	sb.WriteByte(' ')
	sb.WriteString(vh.FVals(g.FKF[:]...))
	sb.WriteByte(' ')
	sb.WriteString(vh.FVals(g.FKU[:]...))
	return sb.String()
}

// partTokens: the partition part of an evatra.full line (without the trailing depth coefficients).
func partTokens(s *petSnap, elai float64) string {
	g := s.g
	ti := g.TAG.Index
	n := g.N
	wg0 := g.WG[0]
	if s.zeit > g.BEGINN { // water.go:20-27
		for i := 0; i < n; i++ {
			wg0[i] = g.WG[1][i]
		}
		wg0[n] = g.WG[1][n-1]
	}
	lukrit := 0.0
	if k := g.INTWICK.Index; k >= 0 && k < len(g.LUKRIT) { // read by Evatra only under a crop (stage >= 2)
		lukrit = g.LUKRIT[k]
	}
	var sb strings.Builder
	fmt.Fprintf(&sb, "%d %d %d %d %s", n, g.DT.Index, g.WURZ, g.LUMDAY,
		vh.FVals(g.DZ.Num, g.DT.Num, g.REGEN[ti], g.W[0], g.GRW, g.PORGES[0], g.PORGES[1], g.PORGES[2], wg0[0], wg0[1], wg0[2],
			lukrit, g.TRREL, g.ETREL, g.LAI, g.PROP, elai))
	for _, xs := range [][]float64{wg0[:n], g.WMIN[:n], g.WNOR[:n], g.WUDICH[:n]} {
		sb.WriteByte(' ')
		sb.WriteString(vh.FVals(xs...))
	}
	return sb.String()
}

// ---------------------------------------------------------------------------- the libm oracle

func petOracle(kind string, x float64) (float64, bool) {
	switch kind {
	case "sin":
		return math.Sin(x), true
	case "cos":
		return math.Cos(x), true
	case "tan":
		return math.Tan(x), true
	case "asin":
		return math.Asin(x), true
	case "acos":
		return math.Acos(x), true
	case "exp":
		return math.Exp(x), true
	case "log":
		return math.Log(x), true
	case "sqrt":
		return math.Sqrt(x), true
	case "pow2":
		return math.Pow(x, 2), true
	case "pow4":
		return math.Pow(x, 4), true
	case "pow5.26":
		return math.Pow(x, 5.26), true
	case "2pow":
		return math.Pow(2, x), true
	}
	return 0, false
}

func petSameBits(a, b float64) bool {
	return math.Float64bits(a) == math.Float64bits(b) || (a != a && b != b)
}

const petSites = 35

// resolveSites: fixpoint of (model: arguments of the sites given the values) ∘ (Go: values of the
// arguments). line(i, vals) builds the driver line of case i. Returns the values per case and the
// site kinds and arguments of the last round.
func resolveSites(c *vh.Ctx, kernel string, n int, line func(i int, vals []float64) string) (vals [][]float64, args [][]float64, kinds [][]string, ok bool) {
	vals = make([][]float64, n)
	args = make([][]float64, n)
	kinds = make([][]string, n)
	todo := make([]int, n)
	for i := range todo {
		todo[i] = i
	}
	for round := 0; round < 14 && len(todo) > 0; round++ {
		lines := make([]string, len(todo))
		for k, i := range todo {
			lines[k] = line(i, vals[i])
		}
		out, err := c.RunDriver(lines)
		if err != nil {
			c.Violate("correspondence", kernel+":driver", err.Error(), nil)
			return nil, nil, nil, false
		}
		var next []int
		for k, i := range todo {
			toks := strings.Fields(out[k])
			if len(toks) == 0 || len(toks)%2 != 0 {
				c.Violate("correspondence", kernel+":driver-answer", "unexpected answer of the model driver: "+out[k], map[string]interface{}{"case_line": lines[k]})
				return nil, nil, nil, false
			}
			m := len(toks) / 2
			nv := make([]float64, m)
			na := make([]float64, m)
			nk := make([]string, m)
			changed := len(vals[i]) != m
			for j := 0; j < m; j++ {
				_, a, okTok := vh.ParseTok(toks[2*j+1])
				v, okKind := petOracle(toks[2*j], a)
				if !okTok || !okKind {
					c.Violate("correspondence", kernel+":driver-answer", "unknown site kind or argument: "+toks[2*j]+" "+toks[2*j+1], nil)
					return nil, nil, nil, false
				}
				nv[j], na[j], nk[j] = v, a, toks[2*j]
				if !changed && !petSameBits(v, vals[i][j]) {
					changed = true
				}
			}
			vals[i], args[i], kinds[i] = nv, na, nk
			if changed {
				next = append(next, i)
			}
		}
		c.Count(fmt.Sprintf("%s:oracle-round-%02d", kernel, round+1))
		todo = next
	}
	if len(todo) > 0 {
		c.Violate("correspondence", kernel+":sites-not-converging", fmt.Sprintf("the transcendental sites of %d cases did not reach a fixpoint in 14 rounds", len(todo)), map[string]interface{}{"case_line": line(todo[0], vals[todo[0]])})
		return vals, args, kinds, false
	}
	return vals, args, kinds, true
}

// ---------------------------------------------------------------------------- generated states

type petCase struct {
	evCase
	Mintmp, Alph, Satbeta                      float64
	Et0Prev, RstomPrev, SatdefPrev, RadsumPrev float64
	Fkf, Fku                                   [12]float64
	PetClass                                   string `json:"pet_class"`
}

// solstice-biased day index for polar latitudes
func polarDay(r *vh.Rng) int {
	centre := []int{171, 354, 80, 265}[r.Intn(4)] // solstices, equinoxes
	d := centre + r.Range(-25, 25)
	return ((d % 365) + 365) % 365
}

func genPetCase(r *vh.Rng, small bool) petCase {
	ec := genEvCase(r)
	if small && r.Chance(0.8) {
		// weather-centred cases: a short column keeps the lines small
		n := r.Range(1, 3)
		ec.N = n
		ec.W, ec.Wmin, ec.Wnor, ec.Porges, ec.Wg = genSoilColumn(r, n)
		ec.Wudich = ec.Wudich[:0]
		for i := 0; i < n; i++ {
			ec.Wudich = append(ec.Wudich, vh.RoundTo(r.Uni(0, 4), 3))
		}
		if ec.Wurz > n {
			ec.Wurz = n
		}
		if ec.Grw < 99 && ec.Grw > float64(n)+1.5 {
			ec.Grw = 99
		}
	}
	pc := petCase{evCase: ec, Mintmp: 2, Alph: 40, Satbeta: 2.5, RstomPrev: 100}
	c := &pc.evCase
	cls := []string{}
	// temperature: the ordinary envelope -40 … 45 °C, biased to the break points of the formulas (the
	// corner up to 50 °C is a small share, see below)
	switch r.Intn(8) {
	case 0:
		c.Temp = vh.RoundTo(r.Uni(-40, 45), 1)
	case 1:
		c.Temp = []float64{-40, -22, -21.9, -22.1, 0, 2, 9.9, 10, 15, 25, 34.9, 35, 45}[r.Intn(13)]
		cls = append(cls, "temp-breakpoint")
	case 2:
		c.Temp = vh.RoundTo(r.Uni(30, 45), 1)
	case 3:
		c.Temp = vh.RoundTo(r.Uni(-40, -15), 1)
	}
	dtr := r.Uni(0, 16)
	c.Tmin, c.Tmax = vh.RoundTo(c.Temp-dtr/2, 1), vh.RoundTo(c.Temp+dtr/2, 1)
	if r.Chance(0.05) {
		c.Tmin, c.Tmax = c.Temp, c.Temp
	}
	// humidity 0 … 100 %
	c.Rh = vh.RoundTo(r.Uni(0, 100), 0)
	if r.Chance(0.15) {
		c.Rh = []float64{0, 100, 99, 1}[r.Intn(4)]
	}
	// wind, often below the floor of 0.5 m/s
	c.Wind = vh.RoundTo(r.Uni(0, 12), 1)
	if r.Chance(0.25) {
		c.Wind = []float64{0, 0.1, 0.4, 0.49, 0.5, 0.51}[r.Intn(6)]
		cls = append(cls, "calm")
	}
	c.Windhi = []float64{2, 2, 2, 10, 10, 0.5, 1, 3, 30}[r.Intn(9)]
	// latitude -90 … 90
	c.Lat = vh.RoundTo(r.Uni(-90, 90), 2)
	switch r.Intn(8) {
	case 0:
		c.Lat = []float64{90, -90, 89.9, -89.9, 66.56, -66.56, 0, 78.2, -78.2, 23.44, -23.44}[r.Intn(11)]
		c.Tag = polarDay(r)
		cls = append(cls, "lat-special")
	case 1:
		c.Lat = vh.RoundTo(r.Uni(60, 90), 1) * []float64{1, -1}[r.Intn(2)]
		c.Tag = polarDay(r)
		cls = append(cls, "polar")
	case 2:
		c.Lat = vh.RoundTo(r.Uni(-25, 25), 1)
	}
	if r.Chance(0.02) {
		c.Tag = 365 // 31 December of a leap year
	}
	c.Alti = vh.RoundTo(r.Uni(-100, 4000), 0)
	// radiation or sunshine hours
	c.Rad = vh.RoundTo(r.Uni(0.01, 17), 2)
	c.Sund = vh.RoundTo(r.Uni(0, 18), 1)
	if r.Chance(0.1) {
		c.Sund = []float64{0, 24, 12}[r.Intn(3)]
	}
	if r.Chance(0.4) {
		c.Rad = 0
		cls = append(cls, "sunshine")
	} else {
		cls = append(cls, "radiation")
		if r.Chance(0.1) {
			c.Rad = []float64{0.01, 0.001, 30}[r.Intn(3)]
		}
	}
	// CO2 250 … 900 ppm
	c.Co2 = vh.RoundTo(r.Uni(250, 900), 0)
	if r.Chance(0.1) {
		c.Co2 = []float64{250, 280, 350, 900}[r.Intn(4)]
	}
	c.Co2meth = r.Range(1, 3)
	c.Ctrans = r.Chance(0.5)
	// ET0 column incl. sentinels
	c.Etnull = vh.RoundTo(r.Uni(0, 12), 1)
	if r.Chance(0.15) {
		c.Etnull = []float64{0, -99.9, -999, -1}[r.Intn(4)]
	}
	c.Verd = vh.RoundTo(r.Uni(0, 40), 1)
	if r.Chance(0.1) {
		c.Verd = 0
	}
	if r.Chance(0.02) {
		c.Method = []int{0, 6}[r.Intn(2)] // a method number the dispatch does not know
		cls = append(cls, "unknown-method")
	}
	pc.Mintmp = []float64{2, 2, 0, 4, 5, 6, 8, 10}[r.Intn(8)]
	if r.Chance(0.1) {
		pc.Alph, pc.Satbeta = vh.RoundTo(r.Uni(10, 80), 0), vh.RoundTo(r.Uni(1, 5), 1)
	}
	pc.Et0Prev = vh.RoundTo(r.Uni(0, 9), 2)
	pc.RstomPrev = vh.RoundTo(r.Uni(40, 400), 1)
	pc.SatdefPrev = vh.RoundTo(r.Uni(0, 3), 3)
	pc.RadsumPrev = vh.RoundTo(r.Uni(0, 2000), 1)
	for m := 0; m < 12; m++ { // distinct per month, so that the month selection shows
		pc.Fkf[m] = vh.RoundTo(c.Fk*(1+0.07*float64(m)), 4)
		pc.Fku[m] = vh.RoundTo(c.Fk*(0.5+0.03*float64(m)), 4)
	}
	// the extreme corner (daily mean 45 … 50 °C, CO2 down to 250 ppm), at most 2 % of the cases; part of it
	// is the region in which the CO2 compensation point of stomat reaches the CO2 concentration
	if r.Chance(0.018) {
		cls = append(cls, "extreme-heat")
		c.Temp = vh.RoundTo(r.Uni(45, 50), 1)
		if r.Chance(0.2) {
			c.Temp = 50
		}
		c.Tmin, c.Tmax = c.Temp-3, c.Temp+3
		if r.Chance(0.7) {
			c.Co2 = vh.RoundTo(r.Uni(250, 300), 0)
		}
		if r.Chance(0.6) {
			c.Method, c.Crop, c.BareWhy, c.Intw = 3, true, "", r.Range(1, 5)
			c.Co2meth = 1
			if math.Abs(c.Lat) > 55 {
				c.Lat = vh.RoundTo(r.Uni(-50, 50), 1)
			}
		}
	}
	pc.PetClass = strings.Join(cls, ",")
	return pc
}

func (pc *petCase) snap() *petSnap {
	g, l := buildEvState(&pc.evCase, 1)
	g.MINTMP, g.ALPH, g.SATBETA = pc.Mintmp, pc.Alph, pc.Satbeta
	g.ET0, g.RSTOM, l.SATDEF, g.RADSUM = pc.Et0Prev, pc.RstomPrev, pc.SatdefPrev, pc.RadsumPrev
	g.FKF, g.FKU = pc.Fkf, pc.Fku
	s := &petSnap{g: g, l: l, zeit: evZeit, desc: *pc, cls: "generated"}
	s.normalise()
	return s
}

// ---------------------------------------------------------------------------- predicates on the real code

// co2Region: the input class of a Penman-Monteith day under a crop with respect to stomat's CO2
// compensation point (water.go:687-689).
func co2Region(g *hermes.GlobalVarsMain) string {
	if g.CO2METH == 1 {
		cocomp := 17.5 * math.Pow(2, (g.TEMP[g.TAG.Index]-10)/10)
		if g.CO2KONZ <= cocomp {
			return "co2<=compensation-point"
		}
	}
	return "co2>compensation-point"
}

// physicalDay: the input ranges under which the theorems C08_*_denominators / C08_stomat_* are
// stated (everything outside is only counted).
func physicalDay(g *hermes.GlobalVarsMain) bool {
	ti := g.TAG.Index
	in := func(x, lo, hi float64) bool { return x >= lo && x <= hi }
	return in(g.TEMP[ti], -60, 60) && in(g.TMIN[ti], -80, 70) && in(g.TMAX[ti], -80, 70) && in(g.RH[ti], 0, 100) &&
		g.WIND[ti] >= 0 && g.SUND[ti] >= 0 && g.RAD[ti] >= 0 && in(g.LAT, -90, 90) && in(g.ALTI, -500, 9000) &&
		g.WINDHI >= 0.5 && g.CO2KONZ > 80 && g.ALPH > 0 && g.SATBETA > 0
}

// petPredicates: what C08 says about the potential-ET part, evaluated on the answers of the real
// Evatra. kernel = "pet-kernel" | "pet-run".
func petPredicates(c *vh.Ctx, kernel string, s *petSnap, r *petImpl) {
	g := s.g
	m := etMethodName[g.ETMETH]
	if m == "" {
		m = "unknown-method"
	}
	crop := cropActive(g, s.zeit)
	veg, capV := "bare", 0.6
	if crop {
		veg, capV = "crop", 0.65
	}
	region := "any"
	if g.ETMETH == 3 && crop {
		region = co2Region(g)
	}
	if !physicalDay(g) {
		region += ":outside-physical-ranges"
	}
	report := func(sig, what string) { c.Violate("search", kernel+":"+sig, what, s.desc) }
	ti := g.TAG.Index
	ctx := fmt.Sprintf("method %s, %s, TEMP %.1f, RH %.0f, RAD %.2f, SUND %.1f, LAT %.2f, day %d, CO2 %.0f ppm (CO2 method %d, stomata influence %v)", m, veg, g.TEMP[ti], g.RH[ti], g.RAD[ti], g.SUND[ti], g.LAT, int(g.TAG.Num), g.CO2KONZ, g.CO2METH, g.CTRANS)
	v := r.o.Verdu
	if v != v || math.IsInf(v, 0) {
		report("pet-nonfinite:"+m+":"+veg+":"+region, fmt.Sprintf("potential ET of the day is %v: the floor at zero and the daily cap do not catch it (%s)", v, ctx))
	} else {
		if v < 0 {
			report("pet-negative:"+m+":"+veg, fmt.Sprintf("potential ET of the day is negative: %.9g cm (%s)", v, ctx))
		}
		if v > capV {
			report("pet-above-cap:"+m+":"+veg, fmt.Sprintf("potential ET of the day %.9g cm exceeds the cap %.2g cm (%s)", v, capV, ctx))
		}
		tol := 1e-9 * (1 + v)
		if allFinite(r.o.Eta) && allFinite(r.o.Tp...) && r.o.Eta+sum(r.o.Tp) > v+tol {
			report("eta-above-pet:"+m+":"+veg, fmt.Sprintf("actual evaporation %.9g + uptake %.9g exceeds the potential ET %.9g of the chosen method (%s)", r.o.Eta, sum(r.o.Tp), v, ctx))
		}
	}
	if g.ETMETH == 3 || g.ETMETH == 4 {
		if r.Et0 != r.Et0 || math.IsInf(r.Et0, 0) {
			report("et0-nonfinite:"+m+":"+veg+":"+region, fmt.Sprintf("reference ET is %v (%s)", r.Et0, ctx))
		} else if r.Et0 < 0 {
			report("et0-negative:"+m+":"+veg, fmt.Sprintf("reference ET is negative: %.9g mm (%s)", r.Et0, ctx))
		}
	}
	if g.ETMETH == 3 {
		if !(r.Wind >= 0.5) {
			report("wind-below-floor:"+veg, fmt.Sprintf("wind speed used by Penman-Monteith is %v m/s, below the floor of 0.5 (%s)", r.Wind, ctx))
		}
		if crop {
			// canopy resistance: positive and finite
			if r.Rstom != r.Rstom || math.IsInf(r.Rstom, 0) {
				report("rstom-nonfinite:"+region, fmt.Sprintf("canopy resistance computed by stomat is %v (%s)", r.Rstom, ctx))
			} else if !(r.Rstom > 0) {
				report("rstom-not-positive:"+region, fmt.Sprintf("canopy resistance computed by stomat is %.9g s/m (%s)", r.Rstom, ctx))
			}
			if g.RAD[ti] == 0 && r.Sund > s.g.SUND[ti] {
				report("sund-increased", fmt.Sprintf("stomat raised the sunshine hours from %v to %v", s.g.SUND[ti], r.Sund))
			}
		}
	}
}

// ---------------------------------------------------------------------------- kernels

func implPetLine(r *petImpl) string {
	return vh.FVals(r.Verdu0, r.Et0, r.Rstom, r.Satdef, r.Wind, r.Sund, r.Fkc, r.Radsum, r.o.Verdu)
}

func implFullLine(r *petImpl) string {
	return vh.FVals(r.Verdu0, r.Et0, r.Rstom, r.Satdef, r.Wind, r.Sund, r.Fkc, r.Radsum) + " " + r.o.line()
}

func countPetSnap(c *vh.Ctx, kernel string, s *petSnap, r *petImpl) {
	g := s.g
	ti := g.TAG.Index
	crop := cropActive(g, s.zeit)
	veg := "bare"
	if crop {
		veg = "crop"
	}
	m := etMethodName[g.ETMETH]
	if m == "" {
		m = "unknown-method"
	}
	c.Count(kernel + ":method=" + m + ":" + veg)
	if g.RAD[ti] > 0 {
		c.Count(kernel + ":radiation-given")
	} else {
		c.Count(kernel + ":sunshine-hours")
	}
	if math.Abs(g.LAT) > 66.5 {
		c.Count(kernel + ":polar-latitude")
	}
	if r.Verdu0 < 0 {
		c.Count(kernel + ":floor-engaged:" + m)
	}
	if (crop && r.Verdu0 > 0.65) || (!crop && r.Verdu0 > 0.6) {
		c.Count(kernel + ":cap-engaged:" + m)
	}
	if g.ETMETH == 3 {
		if g.WIND[ti] < 0.5 {
			c.Count(kernel + ":wind-below-floor")
		}
		if g.WINDHI != 2 {
			c.Count(kernel + ":wind-height-converted")
		}
		if crop && r.Rstom != 100 {
			c.Count(fmt.Sprintf("%s:stomat-ran:co2meth=%d:ctrans=%v", kernel, g.CO2METH, g.CTRANS))
		}
		if crop && r.Rstom == 100 {
			c.Count(kernel + ":stomat-returned-early(polar-night)")
		}
		if crop && g.RAD[ti] == 0 && r.Sund < g.SUND[ti] {
			c.Count(kernel + ":sunshine-clamped-to-day-length")
		}
	}
	if (g.ETMETH == 3 || g.ETMETH == 4) && r.Et0 == 0 {
		c.Count(kernel + ":et0-floored-or-zero")
	}
	if !physicalDay(g) {
		c.Count(kernel + ":outside-physical-ranges")
	}
	if g.ETMETH == 3 || g.ETMETH == 4 {
		if _, _, _, ext, _, _, _ := hermes.CalculateDayLenght(g.TAG.Num, g.LAT); !(ext > 0) && g.RAD[ti] > 0 {
			c.Count(kernel + ":polar-night-with-radiation(RS0=0)") // RAD*2/RS0 = +Inf, clipped to 1
		}
	}
}

// petKernels: `pet.day` and `evatra.full` on the snapshots. withFull: also the composed kernel.
func petKernels(c *vh.Ctx, tag string, snaps []*petSnap, withFull bool) {
	if len(snaps) == 0 {
		return
	}
	kDay, kFull := "pet.day"+tag, "evatra.full"+tag
	impls := make([]petImpl, len(snaps))
	pins := make([]string, len(snaps))
	kept := snaps[:0:0]
	var keptImpl []petImpl
	for i, s := range snaps {
		vh.Crumb("pet-kernel", s.desc)
		impls[i] = runPetSnap(s)
		c.Eval()
		if impls[i].Panic != "" {
			c.Violate("search", "pet-kernel:panic", "hermes.Evatra panicked: "+impls[i].Panic, s.desc)
			continue
		}
		pins[len(kept)] = pinTokens(s)
		kept = append(kept, s)
		keptImpl = append(keptImpl, impls[i])
	}
	snaps, impls = kept, keptImpl
	searchKernel := "pet-kernel"
	if tag != "" {
		searchKernel = "pet-run"
	}
	for i, s := range snaps {
		countPetSnap(c, kDay, s, &impls[i])
		petPredicates(c, searchKernel, s, &impls[i])
		if withFull { // the partition predicates of the existing stage on the same answers
			if pc, ok := s.desc.(petCase); ok {
				ec := pc.evCase
				evatraPredicates(&ec, impls[i].Verdu0, &impls[i].o, func(sig, what string) {
					if strings.HasPrefix(sig, "nonfinite:") {
						return // reported above with the input region in the signature
					}
					c.Violate("search", "evatra-kernel:"+sig, what, pc)
				})
			}
		}
	}
	describe := func(i int) interface{} { return snaps[i].desc }
	// pet.day
	vals, _, _, ok := resolveSites(c, kDay, len(snaps), func(i int, v []float64) string {
		return "pet.sites " + pins[i] + " " + vh.FList(v)
	})
	if !ok {
		return
	}
	var cases, impl []string
	for i, s := range snaps {
		elai := math.Exp(-.5 * s.g.LAI)
		cases = append(cases, "pet.day "+pins[i]+" "+vh.FList(vals[i])+" "+vh.FHex(elai))
		impl = append(impl, implPetLine(&impls[i]))
		c.Nontrivial(fmt.Sprintf("%s-%d", kDay, i))
	}
	petCorrespond(c, kDay, cases, impl, describe)
	if !withFull {
		return
	}
	// evatra.full
	fullLine := func(op string, i int, v []float64) string {
		s := snaps[i]
		n := s.g.N
		pv := make([]float64, 0, petSites)
		elai := 0.0
		expc := make([]float64, n)
		if len(v) == petSites+1+n {
			pv = v[:petSites]
			elai = v[petSites]
			expc = v[petSites+1:]
		}
		return op + " " + pins[i] + " " + vh.FList(pv) + " " + partTokens(s, elai) + " " + vh.FVals(expc...)
	}
	fvals, _, _, ok := resolveSites(c, kFull, len(snaps), func(i int, v []float64) string { return fullLine("evatra.fullsites", i, v) })
	if !ok {
		return
	}
	cases, impl = nil, nil
	for i := range snaps {
		if len(fvals[i]) != petSites+1+snaps[i].g.N {
			c.Violate("correspondence", kFull+":site-count", fmt.Sprintf("the model lists %d sites for %d layers", len(fvals[i]), snaps[i].g.N), snaps[i].desc)
			continue
		}
		cases = append(cases, fullLine("evatra.full", i, fvals[i]))
		impl = append(impl, implFullLine(&impls[i]))
		c.Nontrivial(fmt.Sprintf("%s-%d", kFull, i))
	}
	petCorrespond(c, kFull, cases, impl, describe)
}

// petCorrespond: c.Correspond plus the bit-exact share of this kernel in the evidence.
func petCorrespond(c *vh.Ctx, kernel string, cases, impl []string, describe func(i int) interface{}) {
	n0, b0 := c.Res.CorrCases, c.Res.CorrBitExact
	c.Correspond(kernel, cases, impl, 1e-9, 1e-12, describe)
	c.Res.Distribution[kernel+":cases"] += c.Res.CorrCases - n0
	c.Res.Distribution[kernel+":bit-exact"] += c.Res.CorrBitExact - b0
	if os.Getenv("VERIF_PET_DEBUG") != "" {
		model, err := c.RunDriver(cases)
		if err != nil {
			return
		}
		shown := 0
		for i := range cases {
			a, b := strings.Fields(impl[i]), strings.Fields(model[i])
			for j := range a {
				if j < len(b) && a[j] != b[j] && shown < 12 {
					_, x, _ := vh.ParseTok(a[j])
					_, y, _ := vh.ParseTok(b[j])
					fmt.Fprintf(os.Stderr, "%s case %d token %d: impl %v model %v\n", kernel, i, j, x, y)
					shown++
				}
			}
		}
	}
}

// petMonthScan: the month of the Haude factor for every day number, read from the real code through
// a Haude day with FKF[m] = FKU[m] = m+1 (VERD = 1 hPa: VERDU = FK·0.1·2^-12 exactly below the cap).
func petMonthScan(c *vh.Ctx) {
	var cases, impl []string
	for tag := 1; tag <= 366; tag++ {
		for _, crop := range []bool{true, false} {
			ec := evCase{N: 1, Method: 1, Crop: crop, Tag: tag - 1, Intw: 2, Grw: 99, Verd: 1, Kcoa: 1, Windhi: 2, Fk: 1,
				Wg: []float64{0.2}, W: []float64{0.3}, Wmin: []float64{0.1}, Wnor: []float64{0.3}, Porges: []float64{0.4}, Wudich: []float64{1}}
			if !crop {
				ec.BareWhy = "before-sowing"
			}
			g, l := buildEvState(&ec, 1)
			for m := 0; m < 12; m++ {
				g.FKF[m], g.FKU[m] = float64(m+1)/1024, float64(m+1)/1024
			}
			hermes.Evatra(l, g, nil, evZeit)
			c.Eval()
			month := int(math.Round(g.VERDUNST * 1024 * 10))
			cases = append(cases, fmt.Sprintf("pet.fkm %d", tag))
			impl = append(impl, fmt.Sprint(month))
			if month < 1 || month > 12 {
				c.Violate("search", "pet-kernel:haude-month-outside-1..12", fmt.Sprintf("day %d selects Haude factor %d", tag, month), ec)
			}
		}
	}
	c.Correspond("pet.fkm", cases, impl, 0, 0, nil)
}

// petSolarGrid: CalculateDayLenght (exported) on a latitude × day grid against the model's
// `dayLength` (kernel pet.solar), and on the real answers the facts the canopy-resistance theorems
// assume about a day (hypotheses dl / drc / ssl of StomatOk) and the ranges of C08_daylength_range.
func petSolarGrid(c *vh.Ctx) {
	var lats []float64
	step := 5.0
	if c.Thorough() {
		step = 0.5
	}
	for la := -90.0; la <= 90; la += step {
		lats = append(lats, la)
	}
	lats = append(lats, 66.56, -66.56, 66.0, 67.0, -66.0, -67.0, 89.99, -89.99, 23.44, -23.44, 0.01, 52.52, 82.0, -82.0)
	dstep := 4
	if c.Thorough() {
		dstep = 1
	}
	type pt struct {
		tag int
		lat float64
	}
	var pts []pt
	for _, la := range lats {
		for tag := 1 + c.Rng.Intn(dstep); tag <= 366; tag += dstep {
			pts = append(pts, pt{tag, la})
		}
		for _, tag := range []int{1, 80, 172, 173, 266, 355, 356, 365, 366} {
			pts = append(pts, pt{tag, la})
		}
	}
	pins := make([]string, len(pts))
	impl := make([]string, len(pts))
	for k, p := range pts {
		g := hermes.NewGlobalVarsMain()
		g.TAG.SetByIndex(p.tag - 1)
		g.LAT = p.lat
		s := &petSnap{g: &g, l: &hermes.WaterSharedVars{}, zeit: evZeit}
		pins[k] = pinTokens(s)
		DL, DLE, _, EXT, RDN, DRC, DEC := hermes.CalculateDayLenght(float64(p.tag), p.lat)
		impl[k] = vh.FVals(DL, DLE, EXT, RDN, DRC, DEC)
		c.Eval()
		desc := map[string]interface{}{"day_of_year": p.tag, "latitude": p.lat, "DL": DL, "DLE": DLE, "EXT": EXT, "RDN": RDN, "DRC": DRC, "DEC": DEC}
		band := "mid-latitude"
		if math.Abs(p.lat) > 66.5 {
			band = "polar"
		}
		viol := func(sig, what string) {
			c.Violate("search", "solar:"+sig+":"+band, fmt.Sprintf("%s (day %d, latitude %.2f)", what, p.tag, p.lat), desc)
		}
		if !allFinite(DL, DLE, EXT, RDN, DRC, DEC) {
			viol("nonfinite", "CalculateDayLenght returned a non-finite value")
			continue
		}
		if DL < 0 || DL > 24+1e-9 || DLE < 0 || DLE > 24+1e-9 {
			viol("daylength-outside-0..24", fmt.Sprintf("day length %.6g h / effective %.6g h outside [0, 24]", DL, DLE))
		}
		if DLE > DL+1e-9 {
			viol("effective-day-longer", fmt.Sprintf("effective day length %.6g h exceeds the astronomical %.6g h", DLE, DL))
		}
		if EXT < -1e-9 {
			viol("ext-negative", fmt.Sprintf("extraterrestrial radiation %.6g MJ/m2 negative", EXT))
		}
		if DLE > 0 {
			c.Count("pet.solar:sun-above-8-degrees")
			if !(DRC > 0) || !(RDN > 0) {
				viol("clear-day-radiation-not-positive", fmt.Sprintf("DLE = %.6g h > 0 but RDN = %.6g, DRC = %.6g", DLE, RDN, DRC))
			}
			if ssl := math.Sin((90. + DEC - p.lat) * math.Pi / 180.); !(ssl > 0 && ssl <= 1) {
				viol("noon-elevation-sine-outside-(0,1]", fmt.Sprintf("DLE = %.6g h > 0 but the sine of the noon elevation is %.6g", DLE, ssl))
			}
		} else {
			c.Count("pet.solar:sun-below-8-degrees-all-day")
		}
		if DL <= 0 {
			c.Count("pet.solar:polar-night")
		}
		if DL >= 24 {
			c.Count("pet.solar:polar-day")
		}
	}
	vals, _, _, ok := resolveSites(c, "pet.solar", len(pts), func(i int, v []float64) string {
		return "pet.sites " + pins[i] + " " + vh.FList(v)
	})
	if !ok {
		return
	}
	cases := make([]string, len(pts))
	for k := range pts {
		cases[k] = "pet.solar " + pins[k] + " " + vh.FList(vals[k])
		c.Nontrivial(fmt.Sprintf("pet.solar-%d", k))
	}
	petCorrespond(c, "pet.solar", cases, impl, func(i int) interface{} {
		return map[string]interface{}{"day_of_year": pts[i].tag, "latitude": pts[i].lat}
	})
}

// petWitness: the counter-witness of C08_stomat_log_argument_fails_at (50 °C, 250 ppm, first CO2 method)
// on the real code; it is reported with the signature of the input region it lies in.
func petWitness(c *vh.Ctx) {
	pc := genPetCase(vh.NewRng(11), true)
	ec := &pc.evCase
	ec.Method, ec.Crop, ec.BareWhy, ec.Intw, ec.Tag = 3, true, "", 2, 189
	ec.Temp, ec.Tmin, ec.Tmax, ec.Rad, ec.Sund, ec.Rh, ec.Wind = 50, 47, 53, 12, 10, 30, 2
	ec.Lat, ec.Alti, ec.Windhi, ec.Kcoa, ec.Fkc, ec.Fkb = 30, 100, 2, 1, 1, 0.4
	ec.Co2, ec.Co2meth, ec.Ctrans = 250, 1, true
	pc.Mintmp, pc.Alph, pc.Satbeta = 2, 40, 2.5
	pc.PetClass = "witness:C08_stomat_log_argument_fails_at"
	s := pc.snap()
	r := runPetSnap(s)
	if r.Panic == "" && allFinite(r.o.Verdu, r.Rstom) {
		c.Count("pet-witness:stomat-log-argument:no-longer-reproduces")
	} else {
		c.Count("pet-witness:stomat-log-argument:reproduces")
	}
	petKernels(c, "", []*petSnap{s}, true)
}

// petExcluded: days outside the ranges of the denominator theorems (air temperature at the poles of
// the formulas). They are run on the real code and only counted: what the code does there.
func petExcluded(c *vh.Ctx) {
	type ex struct {
		name   string
		method int
		temp   float64
		rad    float64
		windhi float64
	}
	for _, e := range []ex{
		{"turc:TEMP=-123", 2, -123, 5, 2}, {"turc-sunshine-crop:TEMP=-122", 2, -122, 0, 2},
		{"penman:TEMP=-237.3", 3, -237.3, 5, 2}, {"penman:TEMP=-273", 3, -273, 5, 2},
		{"priestley:TEMP=-237.3", 4, -237.3, 5, 2}, {"penman:WINDHI=0.0947(log=0)", 3, 15, 5, (1 + 5.42) / 67.8},
		{"penman:WINDHI=0.05(log-of-negative)", 3, 15, 5, 0.05},
	} {
		for _, crop := range []bool{true, false} {
			pc := genPetCase(vh.NewRng(7), true)
			ec := &pc.evCase
			ec.Method, ec.Temp, ec.Tmin, ec.Tmax, ec.Rad, ec.Windhi, ec.Crop, ec.BareWhy, ec.Intw = e.method, e.temp, e.temp-2, e.temp+2, e.rad, e.windhi, crop, "", 2
			ec.Lat, ec.Tag, ec.Co2meth, ec.Co2 = 50, 180, 2, 400
			if !crop {
				ec.BareWhy = "before-sowing"
			}
			s := pc.snap()
			r := runPetSnap(s)
			c.Eval()
			kind := "finite"
			if r.Panic != "" {
				kind = "panic"
			} else if !allFinite(r.o.Verdu) {
				kind = "nonfinite"
			}
			veg := "bare"
			if crop {
				veg = "crop"
			}
			c.Count("pet-excluded:" + e.name + ":" + veg + ":" + kind)
		}
	}
}

// ---------------------------------------------------------------------------- day states of whole runs

// petRunStage: whole generated simulations; at the day-start probe (right after the run's own call of
// Evatra) the state is copied and Evatra is called again on the copy — for the same day (the weather
// of the day as Evatra left it: wind already at 2 m) or for the next day of the weather record
// (untouched weather) — and compared with evatra.full.
func petRunStage(c *vh.Ctx, nRuns, perRun int) {
	root := filepath.Join(c.Scratch, "petruns")
	type job struct {
		vi   int
		seed uint64
	}
	var jobs []job
	if vi, seed, ok := etReplay(); ok {
		jobs = append(jobs, job{vi, seed})
	} else {
		for k := 0; k < nRuns; k++ {
			jobs = append(jobs, job{(k*4 + int(c.Seed)) % len(etVariants), c.Rng.U64()})
		}
	}
	var snaps []*petSnap
	total := 0
	for k, j := range jobs {
		name := fmt.Sprintf("p%d", k)
		p, w, v := buildETProject(j.vi, j.seed, name)
		pick := vh.NewRng(j.seed ^ 0x9e3779b97f4a7c15)
		// the CO2 response of stomat: all three methods, 280 … 800 ppm (a function of the run seed)
		p.Cfg["CO2method"] = fmt.Sprint(pick.Range(1, 3))
		p.Cfg["CO2concentration"] = fmt.Sprint([]int{280, 360, 420, 550, 800}[pick.Intn(5)])
		if err := p.Write(root, c.Repo); err != nil {
			c.Note("cannot write project %s: %v", name, err)
			continue
		}
		if w != nil {
			if err := p.WriteWeatherET(root, *w); err != nil {
				c.Note("cannot write weather %s: %v", name, err)
				continue
			}
		}
		days, taken := 0, 0
		var got []*petSnap
		probes := &hermes.VerifProbes{
			DayStart: func(g *hermes.GlobalVarsMain, wv *hermes.WaterSharedVars, ns *hermes.NitroSharedVars, cs *hermes.CropSharedVars, zeit int, wdt float64) {
				days++
				// reservoir-free sampling: roughly perRun states per run, more often under a crop
				pr := 0.004
				if cropActive(g, zeit) {
					pr = 0.012
				}
				next := false
				if rz, rnext, ok := petReplayDay(); ok { // replay: exactly the recorded day
					if !(zeit == rz && !rnext) && !(zeit+1 == rz && rnext) {
						return
					}
					next = rnext
				} else {
					if taken >= perRun || !pick.Chance(pr*float64(perRun)/4) {
						return
					}
					next = pick.Chance(0.5) && g.TAG.Index+1 < 365
				}
				gc, lc := *g, *wv
				z := zeit
				if next {
					gc.TAG.Inc()
					z = zeit + 1
				}
				if z == gc.SAAT[gc.AKF.Index] || z <= gc.BEGINN {
					return // the sowing day reads the crop's Haude factors from a file (verdun)
				}
				taken++
				desc := map[string]interface{}{"variant": v.Name, "variant_index": j.vi, "run_seed": fmt.Sprint(j.seed), "zeit": z,
					"day": proj.FromZ(z).String(), "next_day_weather": next, "method": gc.ETMETH, "TEMP": gc.TEMP[gc.TAG.Index], "LAT": gc.LAT, "CO2": gc.CO2KONZ}
				s := &petSnap{g: &gc, l: &lc, zeit: z, desc: desc, cls: "run:" + v.Name}
				s.normalise()
				got = append(got, s)
			},
		}
		res := proj.Run(root, p, probes)
		os.RemoveAll(filepath.Join(root, "project", name))
		os.RemoveAll(filepath.Join(root, "weather"))
		if res.Panic != "" || res.Err != nil {
			c.Count("pet.run:rejected-or-panicked") // the whole-run stage of C08 reports these
			continue
		}
		c.Count("pet.run:variant=" + v.Name)
		snaps = append(snaps, got...)
		total += len(got)
		if len(snaps) >= 400 {
			petKernels(c, "@run", snaps, true)
			snaps = nil
		}
	}
	c.Res.Extra["pet_run_states"] = total
	petKernels(c, "@run", snaps, true)
}

// ---------------------------------------------------------------------------- replay and entry

// petReplayDay: the day of a replayed probe state ({"replay":{"zeit":..,"next_day_weather":..}}; a
// correspondence replay wraps it in "input").
func petReplayDay() (zeit int, next bool, ok bool) {
	f := os.Getenv("VERIF_REPLAY")
	if f == "" {
		return
	}
	b, err := os.ReadFile(f)
	if err != nil {
		return
	}
	type day struct {
		Zeit *int  `json:"zeit"`
		Next *bool `json:"next_day_weather"`
	}
	var doc struct {
		Replay struct {
			day
			Input day `json:"input"`
		} `json:"replay"`
	}
	if json.Unmarshal(b, &doc) != nil {
		return
	}
	d := doc.Replay.day
	if d.Zeit == nil || d.Next == nil {
		d = doc.Replay.Input
	}
	if d.Zeit == nil || d.Next == nil {
		return
	}
	return *d.Zeit, *d.Next, true
}

func replayPetCase(c *vh.Ctx) bool {
	f := os.Getenv("VERIF_REPLAY")
	if f == "" {
		return false
	}
	b, err := os.ReadFile(f)
	if err != nil {
		return false
	}
	var doc struct {
		Replay json.RawMessage `json:"replay"`
	}
	if json.Unmarshal(b, &doc) != nil {
		return false
	}
	var probe struct {
		PetClass *string         `json:"pet_class"`
		Input    json.RawMessage `json:"input"`
	}
	if json.Unmarshal(doc.Replay, &probe) != nil {
		return false
	}
	raw := doc.Replay
	if probe.PetClass == nil && probe.Input != nil { // a correspondence replay wraps the case
		if json.Unmarshal(probe.Input, &probe) != nil || probe.PetClass == nil {
			return false
		}
		raw = probe.Input
	}
	if probe.PetClass == nil {
		return false
	}
	var pc petCase
	if json.Unmarshal(raw, &pc) != nil || pc.N == 0 || len(pc.Wg) != pc.N {
		return false
	}
	petKernels(c, "", []*petSnap{pc.snap()}, true)
	c.Note("replayed one generated state of the potential-ET stage from %s", f)
	return true
}

// petStage: called from checkC08.
func petStage(c *vh.Ctx) {
	petMonthScan(c)
	petSolarGrid(c)
	petExcluded(c)
	petWitness(c)
	// in slices, to bound the memory held by the copied states (165 kB each)
	for k, n := 0, c.N(2500, 40000); k < n; {
		var snaps []*petSnap
		for ; k < n && len(snaps) < 500; k++ {
			pc := genPetCase(c.Rng, true)
			if k < 1 {
				c.Sample(pc)
			}
			snaps = append(snaps, pc.snap())
		}
		petKernels(c, "", snaps, true)
	}
	petRunStage(c, c.N(8, 80), c.N(40, 60))
}
