/-
Refinement of the regenerated translation of `hermes.Water` — part C: the no-flux branch (water.go:899-903), the overflow pass
(water.go:906-913, surplus handed to the next layer) and the search of the capillary-rise layer (water.go:924-933).
-/
import HermesProofs.ImpWaterB

namespace Hermes.ImpWater
open Hermes.Imp Hermes.Water
open Hermes.ImpSoiltemp (vw vw_length vw_getElem rd_wr_nat getD_of_lt vw_getD)
open Hermes.Generated.Imp.Water

/-! ### no surface flux: the profile is copied (water.go:899-903) -/

theorem loop7_spec (m : MathFns ℚ) (t : St ℚ) (N : Nat) (hN : t.g_N = (N : Int))
    (lW1 : N ≤ t.v_WATER_1.length) (lQ : N + 1 ≤ t.g_Q1.length) :
    ∃ A Q, loopUp noBrk 0 t.g_N (loop7 m) t = { t with v_WATER_1 := A, g_Q1 := Q } ∧
      A.length = t.v_WATER_1.length ∧ Q.length = t.g_Q1.length ∧
      (∀ j : Nat, rd A (j : Int) = if j < N then rd t.v_WATER_0 (j : Int) else rd t.v_WATER_1 (j : Int)) ∧
      (∀ j : Nat, rd Q (j : Int) = if 1 ≤ j ∧ j ≤ N then 0 else rd t.g_Q1 (j : Int)) := by
  obtain ⟨A, Q, e, lA, lQ', p1, p2⟩ := loop6_spec m 0 t N 0 hN lW1 lQ
  refine ⟨A, Q, ?_, lA, lQ', ?_, ?_⟩
  · have : loopUp noBrk 0 t.g_N (loop7 m) t = loopUp noBrk ((0 : Nat) : Int) t.g_N (loop6 m 0) t := rfl
    exact this.trans e
  · intro j; simpa using p1 j
  · intro j; simpa using p2 j

/-! ### the overflow pass (water.go:906-913) -/

theorem overflow_fold (dz c wa0 w q : ℚ) (rest : List (ℚ × ℚ × ℚ)) :
    overflow dz (some c) ((wa0, w, q) :: rest) = overflow dz none ((wa0 + c, w, q) :: rest) := by
  unfold overflow
  rfl

/-- (WATER1[i], W[i], Q1[i+1]) of the layers i, …, N−1 as the state holds them -/
def ovRest (t : St ℚ) (i N : Nat) : List (ℚ × ℚ × ℚ) :=
  (List.range (N - i)).map (fun (d : Nat) =>
    (rd t.v_WATER_1 ((i + d : Nat) : Int), rd t.g_W ((i + d : Nat) : Int), rd t.g_Q1 ((i + d + 1 : Nat) : Int)))

theorem ovRest_nil (t : St ℚ) (N : Nat) : ovRest t N N = [] := by simp [ovRest]

theorem ovRest_cons (t : St ℚ) (i N : Nat) (h : i < N) :
    ovRest t i N = (rd t.v_WATER_1 (i : Int), rd t.g_W (i : Int), rd t.g_Q1 ((i + 1 : Nat) : Int)) :: ovRest t (i + 1) N := by
  unfold ovRest
  have e : N - i = (N - (i + 1)) + 1 := by omega
  rw [e, List.range_succ_eq_map, List.map_cons, List.map_map]
  simp only [Nat.add_zero, List.cons.injEq, true_and]
  apply List.map_congr_left
  intro d _
  simp only [Function.comp]
  have : i + (d + 1) = i + 1 + d := by omega
  rw [this]

/-- the remaining layers seen from the state after one iteration: the surplus is already in `WATER1[i+1]` -/
theorem overflow_after (t t' : St ℚ) (i N : Nat) (c : Option ℚ) (hi : i + 1 < N)
    (hdz : t'.g_DZ_Num = t.g_DZ_Num) (hW : t'.g_W = t.g_W)
    (h1 : rd t'.v_WATER_1 ((i + 1 : Nat) : Int) = addOpt (rd t.v_WATER_1 ((i + 1 : Nat) : Int)) c)
    (h2 : ∀ j : Nat, i + 2 ≤ j → rd t'.v_WATER_1 (j : Int) = rd t.v_WATER_1 (j : Int))
    (h3 : ∀ j : Nat, i + 2 ≤ j → rd t'.g_Q1 (j : Int) = rd t.g_Q1 (j : Int)) :
    overflow t'.g_DZ_Num none (ovRest t' (i + 1) N) = overflow t.g_DZ_Num c (ovRest t (i + 1) N) := by
  have hr : ovRest t' (i + 1 + 1) N = ovRest t (i + 1 + 1) N := by
    unfold ovRest
    apply List.map_congr_left
    intro d _
    rw [hW, h2 (i + 1 + 1 + d) (by omega), h3 (i + 1 + 1 + d + 1) (by omega)]
  rw [ovRest_cons t' (i + 1) N hi, ovRest_cons t (i + 1) N hi, hr, hdz, hW, h1, h3 (i + 1 + 1) (by omega)]
  cases c with
  | none => simp [addOpt]
  | some c => rw [overflow_fold]; simp [addOpt]

theorem overflow_loop (m : MathFns ℚ) (N : Nat) : ∀ (n i : Nat) (t : St ℚ), i + n = N → t.g_N = (N : Int) →
    N + 1 ≤ t.v_WATER_1.length → N + 1 ≤ t.g_Q1.length →
    ∃ A Q, loopUpN noBrk (loop8 m) n (i : Int) t = { t with v_WATER_1 := A, g_Q1 := Q } ∧
      A.length = t.v_WATER_1.length ∧ Q.length = t.g_Q1.length ∧
      (∀ j : Nat, rd A (j : Int) = if i ≤ j ∧ j < N then
          ((overflow t.g_DZ_Num none (ovRest t i N)).1.map (·.1)).getD (j - i) 0
        else if j = N then addOpt (rd t.v_WATER_1 (N : Int)) (overflow t.g_DZ_Num none (ovRest t i N)).2
        else rd t.v_WATER_1 (j : Int)) ∧
      (∀ j : Nat, rd Q (j : Int) = if i + 1 ≤ j ∧ j ≤ N then
          ((overflow t.g_DZ_Num none (ovRest t i N)).1.map (·.2)).getD (j - (i + 1)) 0
        else rd t.g_Q1 (j : Int)) := by
  intro n
  induction n with
  | zero =>
    intro i t hin hN lW1 lQ
    have hi : i = N := by omega
    subst hi
    refine ⟨t.v_WATER_1, t.g_Q1, rfl, rfl, rfl, ?_, ?_⟩
    · intro j
      have : ¬ (i ≤ j ∧ j < i) := by omega
      simp only [this, if_false, ovRest_nil, overflow, addOpt]
      by_cases hj : j = i
      · subst hj; simp
      · simp [hj]
    · intro j
      have : ¬ (i + 1 ≤ j ∧ j ≤ i) := by omega
      simp [this]
  | succ n ih =>
    intro i t hin hN lW1 lQ
    have hiN : i < N := by omega
    have e1 : (i : Int) + 1 = ((i + 1 : Nat) : Int) := by push_cast; ring
    have li : i < t.v_WATER_1.length := by omega
    have li1 : i + 1 < t.v_WATER_1.length := by omega
    have lq : i + 1 < t.g_Q1.length := by omega
    rw [loopUpN_noBrk_succ, ovRest_cons t i N hiN, e1]
    -- the state after the iteration
    have hstate : ∃ t' : St ℚ, t' = loop8 m (i : Int) t := ⟨_, rfl⟩
    obtain ⟨t', ht'⟩ := hstate
    rw [← ht']
    by_cases hov : rd t.g_W (i : Int) < rd t.v_WATER_1 (i : Int) / t.g_DZ_Num
    · -- surplus above field capacity is handed to the next layer
      have hW1i : rd (wr t.v_WATER_1 (i : Int) (rd t.g_W (i : Int) * t.g_DZ_Num)) ((i + 1 : Nat) : Int)
          = rd t.v_WATER_1 ((i + 1 : Nat) : Int) := by
        rw [rd_wr_nat _ i (i + 1) _ li]; have : ¬ (i = i + 1) := by omega
        simp [this]
      have hbody : t' = { t with v_WATER_1 := wr (wr t.v_WATER_1 (i : Int) (rd t.g_W (i : Int) * t.g_DZ_Num)) ((i + 1 : Nat) : Int) (rd t.v_WATER_1 ((i + 1 : Nat) : Int) + (rd t.v_WATER_1 (i : Int) - rd t.g_W (i : Int) * t.g_DZ_Num)), g_Q1 := wr t.g_Q1 ((i + 1 : Nat) : Int) (rd t.g_Q1 ((i + 1 : Nat) : Int) + (rd t.v_WATER_1 (i : Int) - rd t.g_W (i : Int) * t.g_DZ_Num)) } := by
        rw [ht']
        simp only [loop8, hov, ↓reduceIte, e1, hW1i]
      have fN : t'.g_N = (N : Int) := by rw [hbody]; exact hN
      have fdz : t'.g_DZ_Num = t.g_DZ_Num := by rw [hbody]
      have fW : t'.g_W = t.g_W := by rw [hbody]
      have fW1 : t'.v_WATER_1 = wr (wr t.v_WATER_1 (i : Int) (rd t.g_W (i : Int) * t.g_DZ_Num)) ((i + 1 : Nat) : Int) (rd t.v_WATER_1 ((i + 1 : Nat) : Int) + (rd t.v_WATER_1 (i : Int) - rd t.g_W (i : Int) * t.g_DZ_Num)) := by rw [hbody]
      have fQ : t'.g_Q1 = wr t.g_Q1 ((i + 1 : Nat) : Int) (rd t.g_Q1 ((i + 1 : Nat) : Int) + (rd t.v_WATER_1 (i : Int) - rd t.g_W (i : Int) * t.g_DZ_Num)) := by rw [hbody]
      obtain ⟨A, Q, e, lA, lQ', p1, p2⟩ := ih (i + 1) t' (by omega) fN
        (by rw [fW1]; simp only [length_wr]; exact lW1) (by rw [fQ]; simp only [length_wr]; exact lQ)
      rw [e]
      set sink := rd t.v_WATER_1 (i : Int) - rd t.g_W (i : Int) * t.g_DZ_Num with hsink
      have g1 : rd t'.v_WATER_1 ((i + 1 : Nat) : Int) = addOpt (rd t.v_WATER_1 ((i + 1 : Nat) : Int)) (some sink) := by
        rw [fW1, rd_wr_nat _ (i + 1) (i + 1) _ (by simp only [length_wr]; exact li1)]; simp [addOpt]
      have g2 : ∀ j : Nat, i + 2 ≤ j → rd t'.v_WATER_1 (j : Int) = rd t.v_WATER_1 (j : Int) := by
        intro j hj
        rw [fW1, rd_wr_nat _ (i + 1) j _ (by simp only [length_wr]; exact li1)]
        have : ¬ (i + 1 = j) := by omega
        simp only [this, if_false]
        rw [rd_wr_nat _ i j _ li]
        have : ¬ (i = j) := by omega
        simp [this]
      have g3 : ∀ j : Nat, i + 2 ≤ j → rd t'.g_Q1 (j : Int) = rd t.g_Q1 (j : Int) := by
        intro j hj
        rw [fQ, rd_wr_nat _ (i + 1) j _ lq]
        have : ¬ (i + 1 = j) := by omega
        simp [this]
      have g0 : rd t'.v_WATER_1 (i : Int) = rd t.g_W (i : Int) * t.g_DZ_Num := by
        rw [fW1, rd_wr_nat _ (i + 1) i _ (by simp only [length_wr]; exact li1)]
        have : ¬ (i + 1 = i) := by omega
        simp only [this, if_false]
        rw [rd_wr_nat _ i i _ li]; simp
      have gq : rd t'.g_Q1 ((i + 1 : Nat) : Int) = rd t.g_Q1 ((i + 1 : Nat) : Int) + sink := by
        rw [fQ, rd_wr_nat _ (i + 1) (i + 1) _ lq]; simp
      have glow : ∀ j : Nat, j < i → rd t'.v_WATER_1 (j : Int) = rd t.v_WATER_1 (j : Int) := by
        intro j hj
        rw [fW1, rd_wr_nat _ (i + 1) j _ (by simp only [length_wr]; exact li1)]
        have : ¬ (i + 1 = j) := by omega
        simp only [this, if_false]
        rw [rd_wr_nat _ i j _ li]
        have : ¬ (i = j) := by omega
        simp [this]
      have gqlow : ∀ j : Nat, j ≤ i → rd t'.g_Q1 (j : Int) = rd t.g_Q1 (j : Int) := by
        intro j hj
        rw [fQ, rd_wr_nat _ (i + 1) j _ lq]
        have : ¬ (i + 1 = j) := by omega
        simp [this]
      have hr : i + 1 < N → overflow t'.g_DZ_Num none (ovRest t' (i + 1) N)
          = overflow t.g_DZ_Num (some sink) (ovRest t (i + 1) N) :=
        fun h => overflow_after t t' i N (some sink) h fdz fW g1 g2 g3
      refine ⟨A, Q, by rw [hbody], by rw [lA, fW1]; simp, by rw [lQ', fQ]; simp, ?_, ?_⟩
      · intro j
        rw [p1 j]
        simp only [overflow, hov, ↓reduceIte, ← hsink]
        by_cases hj : i + 1 ≤ j ∧ j < N
        · have hj' : i ≤ j ∧ j < N := by omega
          have hd' : j - i = (j - (i + 1)) + 1 := by omega
          simp only [hj, hj', and_self, if_true, List.map_cons]
          rw [hd', List.getD_cons_succ, hr (by omega)]
        · simp only [hj, if_false]
          by_cases hji : j = i
          · subst hji
            have hj' : j ≤ j ∧ j < N := by omega
            have hjN : ¬ (j = N) := by omega
            simp only [hj', and_self, if_true, Nat.sub_self, List.map_cons, List.getD_cons_zero, hjN, if_false]
            exact g0
          · have hj' : ¬ (i ≤ j ∧ j < N) := by omega
            simp only [hj', if_false]
            by_cases hjN : j = N
            · subst hjN
              simp only [if_true]
              by_cases hlast : i + 1 = j
              · have hnil : ovRest t' (i + 1) j = [] := by rw [hlast]; exact ovRest_nil t' j
                have hnil2 : ovRest t (i + 1) j = [] := by rw [hlast]; exact ovRest_nil t j
                rw [hnil, hnil2]
                simp only [overflow, addOpt]
                rw [← hlast]
                exact g1
              · rw [hr (by omega), g2 j (by omega)]
            · simp only [hjN, if_false]
              by_cases hlow : j < i
              · exact glow j hlow
              · exact g2 j (by omega)
      · intro j
        rw [p2 j]
        simp only [overflow, hov, ↓reduceIte, ← hsink]
        by_cases hj : i + 1 + 1 ≤ j ∧ j ≤ N
        · have hj' : i + 1 ≤ j ∧ j ≤ N := by omega
          have hd' : j - (i + 1) = (j - (i + 1 + 1)) + 1 := by omega
          simp only [hj, hj', and_self, if_true, List.map_cons]
          rw [hd', List.getD_cons_succ, hr (by omega)]
        · simp only [hj, if_false]
          by_cases hji : j = i + 1
          · subst hji
            have hj' : i + 1 ≤ i + 1 ∧ i + 1 ≤ N := by omega
            simp only [hj', and_self, if_true, Nat.sub_self, List.map_cons, List.getD_cons_zero]
            exact gq
          · have hj' : ¬ (i + 1 ≤ j ∧ j ≤ N) := by omega
            simp only [hj', if_false]
            by_cases hlow : j ≤ i
            · exact gqlow j hlow
            · exact g3 j (by omega)
    · -- nothing to hand down
      have hbody : t' = t := by
        rw [ht']
        simp only [loop8, hov, ↓reduceIte]
      rw [hbody]
      obtain ⟨A, Q, e, lA, lQ', p1, p2⟩ := ih (i + 1) t (by omega) hN lW1 lQ
      rw [e]
      refine ⟨A, Q, rfl, lA, lQ', ?_, ?_⟩
      · intro j
        rw [p1 j]
        simp only [overflow, hov, ↓reduceIte]
        by_cases hj : i + 1 ≤ j ∧ j < N
        · have hj' : i ≤ j ∧ j < N := by omega
          have hd' : j - i = (j - (i + 1)) + 1 := by omega
          simp only [hj, hj', and_self, if_true, List.map_cons]
          rw [hd', List.getD_cons_succ]
        · simp only [hj, if_false]
          by_cases hji : j = i
          · subst hji
            have hj' : j ≤ j ∧ j < N := by omega
            have hjN : ¬ (j = N) := by omega
            simp only [hj', and_self, if_true, Nat.sub_self, List.map_cons, List.getD_cons_zero, hjN, if_false]
          · have hj' : ¬ (i ≤ j ∧ j < N) := by omega
            simp only [hj', if_false]
      · intro j
        rw [p2 j]
        simp only [overflow, hov, ↓reduceIte]
        by_cases hj : i + 1 + 1 ≤ j ∧ j ≤ N
        · have hj' : i + 1 ≤ j ∧ j ≤ N := by omega
          have hd' : j - (i + 1) = (j - (i + 1 + 1)) + 1 := by omega
          simp only [hj, hj', and_self, if_true, List.map_cons]
          rw [hd', List.getD_cons_succ]
        · simp only [hj, if_false]
          by_cases hji : j = i + 1
          · subst hji
            have hj' : i + 1 ≤ i + 1 ∧ i + 1 ≤ N := by omega
            simp only [hj', and_self, if_true, Nat.sub_self, List.map_cons, List.getD_cons_zero]
          · have hj' : ¬ (i + 1 ≤ j ∧ j ≤ N) := by omega
            simp only [hj', if_false]


/-! ### the layer that receives capillary rise (water.go:924-933) -/

/-- the deepest layer (1-based) among the first `n` with nFK < 0.7, 0 if there is none -/
def deepest (t : St ℚ) : Nat → Nat
  | 0 => 0
  | k + 1 => if rd t.l_NFK (k : Int) < 0.7 then k + 1 else deepest t k

theorem deepest_le (t : St ℚ) : ∀ n, deepest t n ≤ n := by
  intro n
  induction n with
  | zero => simp [deepest]
  | succ k ih => unfold deepest; split <;> omega

theorem deepest_pos (t : St ℚ) : ∀ n, 0 < deepest t n → rd t.l_NFK ((deepest t n - 1 : Nat) : Int) < 0.7 := by
  intro n
  induction n with
  | zero => intro h; simp [deepest] at h
  | succ k ih =>
    intro h
    unfold deepest at h ⊢
    split
    · rename_i hc; simpa using hc
    · rename_i hc; simp only [hc, if_false] at h; exact ih h

theorem loop9_spec (m : MathFns ℚ) : ∀ (n : Nat) (t : St ℚ),
    ∃ c : Int, loopDownN noBrk (loop9 m) n (n : Int) t = { t with v_caplay := c } ∧
      c = if t.v_caplay = 0 then ((deepest t n : Nat) : Int) else t.v_caplay := by
  intro n
  induction n with
  | zero =>
    intro t
    refine ⟨t.v_caplay, rfl, ?_⟩
    by_cases h : t.v_caplay = 0
    · simp [h, deepest]
    · simp [h]
  | succ k ih =>
    intro t
    have e1 : ((k + 1 : Nat) : Int) - 1 = (k : Int) := by push_cast; ring
    simp only [loopDownN, noBrk, Bool.false_eq_true, ↓reduceIte, e1]
    by_cases hc : t.v_caplay = 0
    · by_cases hf : rd t.l_NFK (k : Int) < 0.7
      · have hbody : loop9 m ((k + 1 : Nat) : Int) t = { t with v_caplay := ((k + 1 : Nat) : Int) } := by
          simp only [loop9, hc, e1, hf, ↓reduceIte]
        rw [hbody]
        obtain ⟨c, e, hcv⟩ := ih { t with v_caplay := ((k + 1 : Nat) : Int) }
        rw [e]
        refine ⟨c, rfl, ?_⟩
        rw [hcv]
        have : ¬ (((k + 1 : Nat) : Int) = 0) := by omega
        simp only [this, if_false, hc, if_true, deepest, hf]
      · have hbody : loop9 m ((k + 1 : Nat) : Int) t = t := by
          simp only [loop9, hc, e1, hf, ↓reduceIte]
        rw [hbody]
        obtain ⟨c, e, hcv⟩ := ih t
        rw [e]
        refine ⟨c, rfl, ?_⟩
        rw [hcv]
        simp only [hc, if_true, deepest, hf, if_false]
    · have hbody : loop9 m ((k + 1 : Nat) : Int) t = t := by
        simp only [loop9, hc, ↓reduceIte]
      rw [hbody]
      obtain ⟨c, e, hcv⟩ := ih t
      rw [e]
      exact ⟨c, rfl, by rw [hcv]; simp [hc]⟩

/-- the model's `capLayer` on the NFK array of the state -/
theorem capLayer_eq_deepest (t : St ℚ) : ∀ N, capLayer (vw t.l_NFK N) = deepest t N := by
  intro N
  induction N with
  | zero => simp [capLayer, vw, deepest]
  | succ k ih =>
    have hv : vw t.l_NFK (k + 1) = vw t.l_NFK k ++ [rd t.l_NFK (k : Int)] := by
      simp [vw, List.range_succ]
    have hcl : capLayer (vw t.l_NFK k ++ [rd t.l_NFK (k : Int)])
        = (if rd t.l_NFK (k : Int) < 0.7 then Nat.max (capLayer (vw t.l_NFK k)) (k + 1) else capLayer (vw t.l_NFK k)) := by
      unfold capLayer
      simp only [List.zipIdx_append, List.filter_append, List.map_append, List.foldl_append, vw_length, Nat.zero_add]
      by_cases hf : rd t.l_NFK (k : Int) < 0.7
      · simp [hf, List.zipIdx]
      · simp [hf, List.zipIdx]
    rw [hv, hcl, ih]
    by_cases hf : rd t.l_NFK (k : Int) < 0.7
    · have hle := deepest_le t k
      simp only [hf, if_true, deepest]
      exact Nat.max_eq_right (by omega)
    · simp only [hf, if_false, deepest]

end Hermes.ImpWater
