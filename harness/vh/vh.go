// Package vh: shared machinery of the verification harness — PRNG, case files, model-driver
// runner, comparison of implementation and model answers, result records.
package vh

import (
	"bufio"
	"encoding/json"
	"fmt"
	"math"
	"os"
	"os/exec"
	"path/filepath"
	"sort"
	"strconv"
	"strings"
)

// ---------------------------------------------------------------- PRNG (splitmix64)

type Rng struct{ s uint64 }

// NewRng scrambles the seed (splitmix64 finaliser) so that the streams of neighbouring seeds are
// not shifted copies of each other.
func NewRng(seed uint64) *Rng {
	z := seed*0x9E3779B97F4A7C15 + 0x1234567
	z = (z ^ (z >> 30)) * 0xBF58476D1CE4E5B9
	z = (z ^ (z >> 27)) * 0x94D049BB133111EB
	return &Rng{s: z ^ (z >> 31)}
}
func (r *Rng) U64() uint64 {
	r.s += 0x9E3779B97F4A7C15
	z := r.s
	z = (z ^ (z >> 30)) * 0xBF58476D1CE4E5B9
	z = (z ^ (z >> 27)) * 0x94D049BB133111EB
	return z ^ (z >> 31)
}
func (r *Rng) Intn(n int) int {
	if n <= 0 {
		return 0
	}
	return int(r.U64() % uint64(n))
}
func (r *Rng) Range(a, b int) int { return a + r.Intn(b-a+1) } // inclusive
func (r *Rng) F() float64         { return float64(r.U64()>>11) / float64(1<<53) }
func (r *Rng) Uni(a, b float64) float64 {
	return a + (b-a)*r.F()
}
func (r *Rng) Chance(p float64) bool { return r.F() < p }
func (r *Rng) Fork() *Rng            { return NewRng(r.U64()) }

// Round to d decimals (makes replay files readable and hits exact ties more often).
func RoundTo(x float64, d int) float64 {
	p := math.Pow(10, float64(d))
	return math.Round(x*p) / p
}

// ---------------------------------------------------------------- protocol encoding

func FHex(f float64) string { return fmt.Sprintf("x%016x", math.Float64bits(f)) }
func FList(xs []float64) string {
	var b strings.Builder
	b.WriteString(strconv.Itoa(len(xs)))
	for _, x := range xs {
		b.WriteByte(' ')
		b.WriteString(FHex(x))
	}
	return b.String()
}
func FVals(xs ...float64) string {
	parts := make([]string, len(xs))
	for i, x := range xs {
		parts[i] = FHex(x)
	}
	return strings.Join(parts, " ")
}
func ParseTok(tok string) (isFloat bool, f float64, ok bool) {
	if len(tok) == 17 && tok[0] == 'x' {
		u, err := strconv.ParseUint(tok[1:], 16, 64)
		if err != nil {
			return false, 0, false
		}
		return true, math.Float64frombits(u), true
	}
	return false, 0, true
}

// ---------------------------------------------------------------- results

type Violation struct {
	Signature string      `json:"signature"` // identity used for known-findings matching
	What      string      `json:"what"`
	Stage     string      `json:"stage"` // "search" (impl violates property), "correspondence", "proof"
	Replay    interface{} `json:"replay"`
}

type Result struct {
	Property      string                 `json:"property"`
	Tier          string                 `json:"tier"`
	Seed          uint64                 `json:"seed"`
	Evaluations   int                    `json:"evaluations"`
	Nontrivial    map[string]bool        `json:"-"`
	NontrivialN   int                    `json:"distinct_nontrivial"`
	Rule          string                 `json:"rule"`
	Samples       []interface{}          `json:"samples"`
	CorrCases     int                    `json:"corr_cases"`
	CorrBitExact  int                    `json:"corr_bit_exact"`
	CorrDisagree  int                    `json:"corr_disagreements"`
	Distribution  map[string]int         `json:"distribution"`
	Extra         map[string]interface{} `json:"extra"`
	Violations    []Violation            `json:"violations"`
	Exhaustive    bool                   `json:"exhaustive"`
	Notes         []string               `json:"notes"`
	maxViolations int
}

type Ctx struct {
	Prop    string
	Tier    string
	Seed    uint64
	Rng     *Rng
	Driver  string // path of hermes_driver
	Scratch string // scratch dir (removed by the caller)
	Repo    string
	Verif   string
	Res     *Result
}

func NewCtx(prop, tier string, seed uint64) *Ctx {
	verif := os.Getenv("VERIF_DIR")
	if verif == "" {
		verif = "/verif"
	}
	repo := os.Getenv("VERIF_REPO")
	if repo == "" {
		repo = "/repo"
	}
	drv := os.Getenv("VERIF_DRIVER")
	if drv == "" {
		drv = filepath.Join(verif, "lean/.lake/build/bin/hermes_driver")
	}
	scratch, err := os.MkdirTemp("", "verif-"+prop+"-")
	if err != nil {
		panic(err)
	}
	return &Ctx{Prop: prop, Tier: tier, Seed: seed, Rng: NewRng(seed), Driver: drv, Scratch: scratch,
		Repo: repo, Verif: verif,
		Res: &Result{Property: prop, Tier: tier, Seed: seed, Nontrivial: map[string]bool{},
			Distribution: map[string]int{}, Extra: map[string]interface{}{}, maxViolations: 400}}
}

func (c *Ctx) Thorough() bool { return c.Tier == "thorough" }

// N picks the case count by tier.
func (c *Ctx) N(quick, thorough int) int {
	if c.Thorough() {
		return thorough
	}
	return quick
}

func (c *Ctx) Count(key string) { c.Res.Distribution[key]++ }
func (c *Ctx) Eval()            { c.Res.Evaluations++ }
func (c *Ctx) Nontrivial(key string) {
	c.Res.Nontrivial[key] = true
}
func (c *Ctx) Sample(s interface{}) {
	if len(c.Res.Samples) < 5 {
		c.Res.Samples = append(c.Res.Samples, s)
	}
}
func (c *Ctx) Note(format string, a ...interface{}) {
	c.Res.Notes = append(c.Res.Notes, fmt.Sprintf(format, a...))
}
// RunContext tags the search-stage violations of whole runs ("run:<context>:…") while it is non-empty; set by the
// in-process runner (proj.Run) for a run that raised the model's own transport-instability flag.
var RunContext string

func (c *Ctx) Violate(stage, sig, what string, replay interface{}) {
	if RunContext != "" && stage == "search" && strings.HasPrefix(sig, "run:") && !strings.HasPrefix(sig, "run:"+RunContext+":") {
		sig = "run:" + RunContext + ":" + sig[4:]
		what = "[after the run raised its transport-instability flag] " + what
	}
	for _, v := range c.Res.Violations {
		if v.Signature == sig && v.Stage == stage {
			return // one replay per signature
		}
	}
	if len(c.Res.Violations) >= c.Res.maxViolations {
		return
	}
	c.Res.Violations = append(c.Res.Violations, Violation{Signature: sig, What: what, Stage: stage, Replay: replay})
}

func (c *Ctx) Finish(outPath string) {
	if len(c.Res.Nontrivial) > c.Res.NontrivialN {
		c.Res.NontrivialN = len(c.Res.Nontrivial)
	}
	// NaN / Inf inside a payload cannot be encoded as JSON: such payloads are kept as text
	for i := range c.Res.Violations {
		c.Res.Violations[i].Replay = jsonSafe(c.Res.Violations[i].Replay)
	}
	for i := range c.Res.Samples {
		c.Res.Samples[i] = jsonSafe(c.Res.Samples[i])
	}
	for k, v := range c.Res.Extra {
		c.Res.Extra[k] = jsonSafe(v)
	}
	b, err := json.MarshalIndent(c.Res, "", " ")
	if err != nil {
		fmt.Fprintln(os.Stderr, "cannot encode result:", err)
		os.Exit(3)
	}
	if err := os.WriteFile(outPath, b, 0o644); err != nil {
		fmt.Fprintln(os.Stderr, "cannot write result:", err)
		os.Exit(3)
	}
	os.RemoveAll(c.Scratch)
}

// ---------------------------------------------------------------- model driver

// RunDriver pipes the case lines to the Lean model driver and returns its answers.
func (c *Ctx) RunDriver(cases []string) ([]string, error) {
	in := filepath.Join(c.Scratch, fmt.Sprintf("cases-%d.txt", c.Rng.U64()))
	f, err := os.Create(in)
	if err != nil {
		return nil, err
	}
	w := bufio.NewWriterSize(f, 1<<20)
	for _, l := range cases {
		w.WriteString(l)
		w.WriteByte('\n')
	}
	w.Flush()
	f.Close()
	defer os.Remove(in)
	fin, _ := os.Open(in)
	defer fin.Close()
	cmd := exec.Command(c.Driver)
	cmd.Stdin = fin
	cmd.Stderr = os.Stderr
	out, err := cmd.Output()
	if err != nil {
		return nil, fmt.Errorf("model driver failed: %v", err)
	}
	lines := strings.Split(strings.TrimRight(string(out), "\n"), "\n")
	if len(cases) == 0 {
		return nil, nil
	}
	if len(lines) != len(cases) {
		return nil, fmt.Errorf("model driver answered %d lines for %d cases", len(lines), len(cases))
	}
	return lines, nil
}

// CompareLine compares an implementation answer with a model answer token-wise: floats within
// rel/abs tolerance (bit-equality recorded), everything else exactly.
func CompareLine(impl, model string, rel, abs float64) (ok bool, bitExact bool, why string) {
	a := strings.Fields(impl)
	b := strings.Fields(model)
	if len(a) != len(b) {
		return false, false, fmt.Sprintf("token count %d vs %d", len(a), len(b))
	}
	bitExact = true
	for i := range a {
		fa, va, oka := ParseTok(a[i])
		fb, vb, okb := ParseTok(b[i])
		if !oka || !okb {
			return false, false, fmt.Sprintf("token %d unparsable", i)
		}
		if fa != fb {
			return false, false, fmt.Sprintf("token %d kind differs: %s vs %s", i, a[i], b[i])
		}
		if !fa {
			if a[i] != b[i] {
				return false, false, fmt.Sprintf("token %d: impl %s model %s", i, a[i], b[i])
			}
			continue
		}
		if a[i] == b[i] {
			continue
		}
		bitExact = false
		if math.IsNaN(va) && math.IsNaN(vb) {
			continue
		}
		d := math.Abs(va - vb)
		if d <= abs || d <= rel*math.Max(math.Abs(va), math.Abs(vb)) {
			continue
		}
		return false, false, fmt.Sprintf("token %d: impl %v model %v", i, va, vb)
	}
	return true, bitExact, ""
}

// Correspond runs the model on the cases and compares with the implementation answers.
// describe(i) gives the replay payload of case i.
func (c *Ctx) Correspond(kernel string, cases, impl []string, rel, abs float64, describe func(i int) interface{}) {
	model, err := c.RunDriver(cases)
	if err != nil {
		c.Violate("correspondence", kernel+":driver", err.Error(), nil)
		return
	}
	for i := range cases {
		c.Res.CorrCases++
		ok, bit, why := CompareLine(impl[i], model[i], rel, abs)
		if ok {
			if bit {
				c.Res.CorrBitExact++
			}
			continue
		}
		c.Res.CorrDisagree++
		var payload interface{}
		if describe != nil {
			payload = describe(i)
		}
		c.Violate("correspondence", kernel+":disagree",
			fmt.Sprintf("model and implementation disagree on kernel %s: %s", kernel, why),
			map[string]interface{}{"kernel": kernel, "case_line": cases[i], "impl": impl[i], "model": model[i], "input": payload})
	}
}

func SortedKeys(m map[string]int) []string {
	ks := make([]string, 0, len(m))
	for k := range m {
		ks = append(ks, k)
	}
	sort.Strings(ks)
	return ks
}

// ---------------------------------------------------------------- breadcrumbs

// Crumb records the case that is about to be executed in-process (path from VERIF_CRUMB). When the
// implementation ends the process (log.Fatal, fatal runtime error) the parent of the check binary
// reads the last crumb and reports that case as the input on which the run died.
var crumbFile *os.File

func Crumb(class string, payload interface{}) {
	path := os.Getenv("VERIF_CRUMB")
	if path == "" {
		return
	}
	if crumbFile == nil {
		f, err := os.OpenFile(path, os.O_CREATE|os.O_RDWR|os.O_TRUNC, 0o644)
		if err != nil {
			return
		}
		crumbFile = f
	}
	b, err := json.Marshal(map[string]interface{}{"class": class, "case": payload})
	if err != nil {
		b, _ = json.Marshal(map[string]interface{}{"class": class, "case": fmt.Sprint(payload)})
	}
	crumbFile.Truncate(0)
	crumbFile.WriteAt(b, 0)
}

// jsonSafe returns v if it can be encoded as JSON, otherwise its textual form (NaN, Inf, cycles …).
func jsonSafe(v interface{}) interface{} {
	if v == nil {
		return nil
	}
	if _, err := json.Marshal(v); err == nil {
		return v
	}
	t := fmt.Sprintf("%+v", v)
	if len(t) > 20000 {
		t = t[:20000] + "…"
	}
	return map[string]interface{}{"not_json_encodable": t}
}
