/-
C07 — Nitrogen pools stay non-negative and organic/fertiliser bookkeeping is exact.
Models: HermesModel/Mineral.lean (`mineral` nitro.go:576-705, tillage mixing nitro.go:245-288,
denitrification removal), HermesModel/Nitro.lean (`nmove`: uptake and fixation crediting,
nitro.go:730-744, 849-852).  Exact-arithmetic statements over ℚ.
-/
import HermesProofs.Nitro
import HermesProofs.Mineral
namespace Hermes.Mineral
open Hermes.Nitro

/-- **What mineralisation removes from an organic pool is exactly what the mineralised-amount
counter gains**: pool + counter of every layer is unchanged by `mineral`, for both pools, in the
warm and in the frozen branch, for every state. -/
theorem C07_mineral_pool_conserved (top : Bool) (dsumm nh4sum wred : ℚ) (L : Layer ℚ) (a : Acc ℚ) :
    (layer top dsumm nh4sum wred L a).1.naos + (layer top dsumm nh4sum wred L a).1.minaos = L.naos + L.minaos ∧
    (layer top dsumm nh4sum wred L a).1.nfos + (layer top dsumm nh4sum wred L a).1.minfos = L.nfos + L.minfos := by
  unfold layer
  by_cases h : 0 < (L.tdLo + L.tdUp) / 2
  · simp only [h, if_true]; constructor <;> ring
  · simp [h]

/-- **Pools stay non-negative, counters only grow**, when the rate constants are in [0,1]
(numerically: soil temperature below ≈ 60 °C): the moisture factor of the warm branch is in [0,1]
by its clamps. -/
theorem C07_pools_nonneg (top : Bool) (dsumm nh4sum wred : ℚ) (L : Layer ℚ) (a : Acc ℚ)
    (hk0 : 0 ≤ L.kt0) (hk0' : L.kt0 ≤ 1) (hk1 : 0 ≤ L.kt1) (hk1' : L.kt1 ≤ 1)
    (hn : 0 ≤ L.naos) (hf : 0 ≤ L.nfos) :
    0 ≤ (layer top dsumm nh4sum wred L a).1.naos ∧ 0 ≤ (layer top dsumm nh4sum wred L a).1.nfos ∧
    L.minaos ≤ (layer top dsumm nh4sum wred L a).1.minaos ∧ L.minfos ≤ (layer top dsumm nh4sum wred L a).1.minfos := by
  unfold layer
  by_cases h : 0 < (L.tdLo + L.tdUp) / 2
  · simp only [h, if_true]
    obtain ⟨m0, m1⟩ := miredWarm_unit L.wg L.wnor wred L.wmin L.porges
    generalize miredWarm L.wg L.wnor wred L.wmin L.porges = m at m0 m1
    have a1 : 0 ≤ L.kt0 * L.naos * m := by positivity
    have a2 : L.kt0 * L.naos * m ≤ L.naos := by nlinarith [mul_nonneg hk0 hn, mul_nonneg (mul_nonneg hk0 hn) m0]
    have b1 : 0 ≤ L.kt1 * L.nfos * m := by positivity
    have b2 : L.kt1 * L.nfos * m ≤ L.nfos := by nlinarith [mul_nonneg hk1 hf, mul_nonneg (mul_nonneg hk1 hf) m0]
    rw [clamp0_of_nonneg _ (not_lt.mpr a1), clamp0_of_nonneg _ (not_lt.mpr b1)]
    refine ⟨by linarith, by linarith, by linarith, by linarith⟩
  · simp only [h, if_false]
    exact ⟨hn, hf, le_refl _, le_refl _⟩

example : (0 : ℚ) ≤ (1 / 100) ∧ (1 / 100 : ℚ) ≤ 1 := by norm_num

/-- **Dissolved fertiliser never exceeds fertiliser applied** (soil warmer than 0 °C, where the
moisture factor is clamped to [0,1]): the invariants UMS ≤ DSUMM and NH4UMS ≤ NH4Sum are preserved.
In the frozen branch the factor has no upper clamp (nitro.go:657-670); there the statement needs
0.4·MIRED ≤ 1, which the search stage checks on the implementation. -/
theorem C07_dissolved_le_applied_partial (top : Bool) (dsumm nh4sum wred : ℚ) (L : Layer ℚ) (a : Acc ℚ)
    (hwarm : 0 < (L.tdLo + L.tdUp) / 2) (h1 : a.ums ≤ dsumm) (h2 : a.nh4ums ≤ nh4sum) :
    (layer top dsumm nh4sum wred L a).2.ums ≤ dsumm ∧ a.ums ≤ (layer top dsumm nh4sum wred L a).2.ums ∧
    (layer top dsumm nh4sum wred L a).2.nh4ums ≤ nh4sum := by
  unfold layer
  simp only [hwarm, if_true]
  obtain ⟨m0, m1⟩ := miredWarm_unit L.wg L.wnor wred L.wmin L.porges
  generalize miredWarm L.wg L.wnor wred L.wmin L.porges = m at m0 m1
  cases top
  · simp; exact ⟨h1, h2⟩
  · simp only [if_true]
    have e1 : (0.4 : ℚ) * m * (dsumm - a.ums) ≤ dsumm - a.ums := by nlinarith
    have e2 : (0 : ℚ) ≤ 0.4 * m * (dsumm - a.ums) := by
      have : (0 : ℚ) ≤ 0.4 * m := by positivity
      exact mul_nonneg this (by linarith)
    have e3 : (0.4 : ℚ) * m * (nh4sum - a.nh4ums) ≤ nh4sum - a.nh4ums := by nlinarith
    refine ⟨by linarith, by linarith, by linarith⟩

/-- **Tillage mixing preserves the profile sums** of every pool for every mixing depth inside the
profile (m ≤ number of layers of the pool arrays, also deeper than the four layers of the
mineralised-amount counters, which are mixed over the layers they have); the clamp of `C1` can
only add. -/
theorem C07_tillage_preserves_sums (m : ℕ) (mix : Bool) (nfos naos minfos minaos c1 : List ℚ)
    (h1 : m ≤ nfos.length) (h2 : m ≤ naos.length) (h3 : m ≤ c1.length) (h4 : minaos.length = minfos.length) :
    (tillage m (m : ℚ) ((min m minfos.length : ℕ) : ℚ) mix nfos naos minfos minaos c1).nfos.sum = nfos.sum ∧
    (tillage m (m : ℚ) ((min m minfos.length : ℕ) : ℚ) mix nfos naos minfos minaos c1).naos.sum = naos.sum ∧
    (tillage m (m : ℚ) ((min m minfos.length : ℕ) : ℚ) mix nfos naos minfos minaos c1).minfos.sum = minfos.sum ∧
    (tillage m (m : ℚ) ((min m minfos.length : ℕ) : ℚ) mix nfos naos minfos minaos c1).minaos.sum = minaos.sum ∧
    c1.sum ≤ (tillage m (m : ℚ) ((min m minfos.length : ℕ) : ℚ) mix nfos naos minfos minaos c1).c1.sum := by
  unfold tillage
  cases mix
  · simp
  · simp only [if_true]
    refine ⟨mix_sum' _ _ h1, mix_sum' _ _ h2, mix_sum' _ _ (Nat.min_le_right _ _), ?_, mix_sum_clamp _ _ h3⟩
    exact mix_sum' _ _ (by rw [h4]; exact Nat.min_le_right _ _)

/-- the input class of the former defect F12: five mixed layers, four counter slots -/
example : (tillage 5 (5 : ℚ) ((min 5 4 : ℕ) : ℚ) true [1, 2, 3, 4, 5, 6] [6, 5, 4, 3, 2, 1] [1, 0, 3, 0] [4, 2, 0, 2]
    [7, 1, 1, 1, 0, 9]).minfos = [1, 1, 1, 1] := by
  simp [tillage, setFirst, sumFrom]; norm_num

end Hermes.Mineral

namespace Hermes.Nitro

/-- **Uptake is credited exactly once per day**, however many sub-steps follow the first: the
uptake counter ends the day at its start value plus the (clamped) uptake of the layers taken in
the first sub-step. -/
theorem C07_uptake_credited_once (i : In ℚ) (rest : List (In ℚ)) :
    (runDay i rest).aufnasum = i.aufnasum + (step { i with first := true }).pe.sum := by
  unfold runDay
  rw [runRest_aufnasum]
  exact (step_first_counters { i with first := true } rfl).1

/-- **Fixation is credited exactly once per day**, however many sub-steps follow the first: the
crop N ends the day at its start value plus the uptake of the layers plus (inside the season) the
day's N fixation. -/
theorem C07_fixation_credited_once (i : In ℚ) (rest : List (In ℚ)) :
    (runDay i rest).pesum = i.pesum + (step { i with first := true }).pe.sum + (if i.inSeason then i.schnorr else 0) := by
  unfold runDay
  rw [runRest_pesum]
  exact (step_first_counters { i with first := true } rfl).2

/-- the input class of the former defect F13: two sub-steps, fixation 1 kg N/ha -/
def fixWitness : In ℚ :=
  { dz := 10, wdt := 1 / 2, dv := 0, first := true, fluss0 := 0, q := [0, 0], qdrain := 0, draidep := 0, outn := 2,
    wg := [1 / 5, 1 / 5, 1 / 5], w := [3 / 10, 3 / 10, 3 / 10], d := [0, 0], c1 := [10, 10], pe := [0, 0], dn := [0, 0],
    stab := -3 / 2, inSeason := true, afterSow := true, schnorr := 1, pesum := 50, aufnasum := 0, outsum := 0,
    nleag := 0, drainloss := 0 }

example : (runDay fixWitness [fixWitness, fixWitness]).pesum
    = 50 + (step { fixWitness with first := true }).pe.sum + 1 := by
  rw [C07_fixation_credited_once]; simp [fixWitness]

end Hermes.Nitro
