/-
C16 — Crop rotation is followed and automatic management respects its windows.
Model: HermesModel/Rotation.lean (run.go:411-447, 532-573, 608-615; crop.go:61-64, 150, 182-204, 549-555;
nitro.go:118-124, 286-497; input.go:354-590 for the arrays).

Weather- and state-dependent trigger conditions are arbitrary Booleans, so every statement holds for all
weather. The property's premise ("sowing windows open after the latest harvest date of the preceding
crop") appears as the hypotheses `ERNTE2[i] < SAAT1[i+1]`, `SAAT1 ≤ SAAT2`.
-/
import HermesProofs.Rotation
import HermesProofs.RatInst
import Mathlib.Tactic.Linarith

namespace Hermes.Rotation

/-! ### automatic sowing -/

/-- Automatic sowing inside the window. If the crop is not yet sown and the end of its window has not
passed, the sowing block either leaves it unsown or sows it today, with SAAT1 ≤ today ≤ SAAT2 — for every
value of the weather trigger. -/
theorem C16_auto_sowing_in_window (c : Cfg) (zeit : Nat) (trig : Bool) (s : St)
    (h0 : s.saat s.akf = 0) (hwin : zeit ≤ s.saat2 s.akf) :
    (sowingBlock c zeit trig s).saat s.akf = 0 ∨
    ((sowingBlock c zeit trig s).saat s.akf = zeit ∧ s.saat1 s.akf ≤ zeit ∧ zeit ≤ s.saat2 s.akf) := by
  unfold sowingBlock
  split
  · rename_i hg
    simp only [sowGate, Bool.and_eq_true, decide_eq_true_eq] at hg
    have h1 : s.saat1 s.akf ≤ zeit := hg.2
    unfold forcedSow trigSow
    split <;> split <;> simp_all [setSaat]
  · left; exact h0

/-- Forced sowing at the end of the window: on the day SAAT2 an unsown current crop is sown whatever the
weather, so while the crop stays unsown the end of its window still lies ahead on the next day (the
hypothesis `zeit ≤ SAAT2` of the previous theorem is re-established). -/
theorem C16_forced_sowing_at_window_end (c : Cfg) (zeit : Nat) (trig : Bool) (s : St)
    (hc : c.automan = true) (ha : 1 ≤ s.akf) (h0 : s.saat s.akf = 0) (hwin : zeit ≤ s.saat2 s.akf)
    (h12 : s.saat1 s.akf ≤ s.saat2 s.akf) (hz : 0 < zeit) :
    (sowingBlock c zeit trig s).saat s.akf = 0 → zeit + 1 ≤ s.saat2 s.akf := by
  unfold sowingBlock
  by_cases hg : sowGate c zeit s = true
  · simp only [hg, if_true]
    unfold forcedSow trigSow
    split <;> split <;> simp_all [setSaat] <;> omega
  · simp only [hg]
    simp only [sowGate, hc, ha, h0, decide_true, Bool.true_and, decide_eq_true_eq] at hg
    intro _; omega

/-- Automatic sowing is after the previous harvest under the property's premise (the window opens after
the harvest of the predecessor); the weather-triggered branch even keeps four days of distance. -/
theorem C16_auto_sowing_after_previous_harvest (c : Cfg) (zeit : Nat) (trig : Bool) (s : St)
    (h0 : s.saat s.akf = 0) (hprem : s.ernte (s.akf - 1) < s.saat1 s.akf) :
    (sowingBlock c zeit trig s).saat s.akf ≠ 0 → s.ernte (s.akf - 1) < (sowingBlock c zeit trig s).saat s.akf := by
  unfold sowingBlock
  split
  · rename_i hg
    simp only [sowGate, Bool.and_eq_true, decide_eq_true_eq] at hg
    have h1 : s.saat1 s.akf ≤ zeit := hg.2
    unfold forcedSow trigSow
    split <;> split <;> simp_all [setSaat] <;> omega
  · intro h; exact absurd h0 h

/-- At the crop switch the premise hands the invariant on: the successor becomes current on a day before
its window opens. -/
theorem C16_window_ahead_at_crop_switch (c : Cfg) (zeit : Nat) (s : St)
    (hinv : HarvInv s) (hz : 0 < zeit)
    (hprem : s.ernte2 s.akf < s.saat1 (s.akf + 1)) (h12 : s.saat1 (s.akf + 1) ≤ s.saat2 (s.akf + 1)) :
    (harvest c zeit false s).akf ≠ s.akf →
    (harvest c zeit false s).akf = s.akf + 1 ∧ zeit < (harvest c zeit false s).saat1 (s.akf + 1) ∧
    zeit ≤ (harvest c zeit false s).saat2 (s.akf + 1) := by
  unfold harvest
  split
  · rename_i he
    intro _
    simp only [Bool.and_false, Bool.false_eq_true, if_false]
    have : zeit ≤ s.ernte2 s.akf := by
      rcases hinv with h | h <;> omega
    refine ⟨trivial, ?_, ?_⟩ <;> omega
  · intro h; exact absurd rfl h

/-! ### harvest -/

/-- The latest-harvest invariant `ERNTE = 0 ∨ ERNTE ≤ ERNTE2` of the current crop is kept by the sowing
block and by `PhytoOut` (automatic harvest sets both to today, forced harvest sets ERNTE to ERNTE2), for
every trigger value. -/
theorem C16_latest_harvest_invariant (c : Cfg) (zeit : Nat) (trig em ht : Bool) (s : St) (h : HarvInv s) :
    HarvInv (phyto zeit em ht (sowingBlock c zeit trig s)) := by
  apply harvInv_phyto
  have hc := core_sowingBlock c zeit trig s
  have he : (sowingBlock c zeit trig s).ernte = s.ernte ∧ (sowingBlock c zeit trig s).ernte2 = s.ernte2 := by
    unfold sowingBlock forcedSow trigSow
    split
    · split <;> split <;> simp [setSaat]
    · simp
  unfold HarvInv
  rw [hc.1, he.1, he.2]
  exact h

/-- The crop switch happens exactly on the day ERNTE of the current crop; with the invariant the harvest
is therefore not later than the configured latest harvest date. -/
theorem C16_harvest_le_latest (c : Cfg) (zeit : Nat) (orgH : Bool) (s : St) (hinv : HarvInv s) (hz : 0 < zeit) :
    (harvest c zeit orgH s).akf ≠ s.akf → zeit = s.ernte s.akf ∧ zeit ≤ s.ernte2 s.akf := by
  intro hne
  by_cases he : zeit = s.ernte s.akf
  · refine ⟨he, ?_⟩
    rcases hinv with h | h <;> omega
  · exfalso; apply hne; unfold harvest; simp [he]

/-- With fixed dates nothing moves: without AutoSowingHarvest the sowing block is the identity, and for a
crop with a fixed harvest date (ERNTE ≠ 0) `PhytoOut` leaves the rotation arrays untouched; the sowing
event is written exactly on the day SAAT, the crop switch happens exactly on the day ERNTE. -/
theorem C16_fixed_dates_exact (c : Cfg) (zeit : Nat) (trig em ht orgH : Bool) (s : St)
    (hman : c.automan = false) (hfix : s.ernte s.akf ≠ 0) :
    sowingBlock c zeit trig s = s ∧
    (phyto zeit em ht s).saat = s.saat ∧ (phyto zeit em ht s).ernte = s.ernte ∧ (phyto zeit em ht s).ernte2 = s.ernte2 ∧
    ((phyto zeit em ht s).sown ≠ s.sown → zeit = s.saat s.akf) ∧
    ((harvest c zeit orgH s).akf ≠ s.akf ↔ zeit = s.ernte s.akf) := by
  refine ⟨by simp [sowingBlock, sowGate, hman], ?_⟩
  have hse : (sowEvent zeit s).ernte = s.ernte ∧ (sowEvent zeit s).ernte2 = s.ernte2 ∧ (sowEvent zeit s).saat = s.saat ∧
      (sowEvent zeit s).akf = s.akf ∧ ((sowEvent zeit s).sown ≠ s.sown → zeit = s.saat s.akf) := by
    unfold sowEvent; split <;> simp_all
  have hfix' : (sowEvent zeit s).ernte (sowEvent zeit s).akf ≠ 0 := by rw [hse.1, hse.2.2.2.1]; exact hfix
  have hhb : harvestBlock zeit em ht (sowEvent zeit s) = sowEvent zeit s := by
    unfold harvestBlock; simp [hfix']
  have hf2 : forcedHarvest2 zeit (sowEvent zeit s) = sowEvent zeit s := by
    unfold forcedHarvest2; simp [hfix']
  have hph : phyto zeit em ht s = sowEvent zeit s ∨ phyto zeit em ht s = s := by
    unfold phyto; split
    · left; rw [hhb, hf2]
    · right; rfl
  refine ⟨?_, ?_, ?_, ?_, ?_⟩
  · rcases hph with h | h <;> rw [h]; exact hse.2.2.1
  · rcases hph with h | h <;> rw [h]; exact hse.1
  · rcases hph with h | h <;> rw [h]; exact hse.2.1
  · rcases hph with h | h <;> rw [h]
    · exact hse.2.2.2.2
    · intro h'; exact absurd rfl h'
  · unfold harvest
    simp only [hman, Bool.and_false, Bool.false_and, Bool.false_eq_true, if_false]
    split <;> simp_all

/-- On the eve of the latest harvest date a standing crop without a harvest date gets one, whether it has
emerged or not and whatever the trigger says (the test behind the emerged-crop branch, crop.go:549-555, is
what covers a crop that has not emerged): the rotation cannot get stuck on a crop sown shortly before its
latest harvest date. -/
theorem C16_harvest_date_set_on_eve_of_latest_date (zeit : Nat) (em ht : Bool) (s : St)
    (hg : growing zeit s = true) (h0 : s.ernte s.akf = 0) (he : zeit + 1 = s.ernte2 s.akf) :
    (phyto zeit em ht s).ernte s.akf = zeit ∨ (phyto zeit em ht s).ernte s.akf = zeit + 1 := by
  have hse : (sowEvent zeit s).ernte = s.ernte ∧ (sowEvent zeit s).ernte2 = s.ernte2 ∧ (sowEvent zeit s).akf = s.akf := by
    unfold sowEvent; split <;> simp
  obtain ⟨e1, e2, e3⟩ := hse
  have key : ∀ t : St, t.ernte t.akf = 0 → zeit + 1 = t.ernte2 t.akf →
      ((forcedHarvest2 zeit (harvestBlock zeit em ht t)).ernte t.akf = zeit ∨
       (forcedHarvest2 zeit (harvestBlock zeit em ht t)).ernte t.akf = zeit + 1) := by
    intro t ht0 hte
    unfold forcedHarvest2 harvestBlock forcedHarvest1 autoHarvest pushNextSowing
    cases em <;> cases ht <;> simp [ht0, hte, setErnte, setErnteBoth, upd] <;> (repeat' split) <;> simp_all [upd]
  have := key (sowEvent zeit s) (by rw [e1, e3]; exact h0) (by rw [e2, e3]; exact he)
  unfold phyto
  simp only [hg, if_true]
  rw [e3] at this
  exact this

/-! ### rotation order and crop records -/

/-- One harvest step without the skipped-crop branch: the record written carries the index of the
harvested rotation entry (hence its crop code) and the harvest day (hence its year), and the next entry
becomes current. -/
theorem C16_record_carries_entry (c : Cfg) (zeit : Nat) (s : St) (ha : 1 ≤ s.akf) (he : zeit = s.ernte s.akf) :
    (harvest c zeit false s).akf = s.akf + 1 ∧
    (harvest c zeit false s).records = s.records ++ [(s.akf, zeit)] := by
  unfold harvest
  simp [he, ha]

/-- Crops are grown in rotation order: over any number of days, for every weather / trigger history
without the skipped-crop branch, the records written are those of the entries 1, 2, …, AKF−1 in order. -/
theorem C16_crops_in_rotation_order (c : Cfg) : ∀ (ins : List DayIn) (zeit : Nat) (s : St),
    (∀ i ∈ ins, i.orgH = false) → s.records.map (·.1) = List.range' 1 (s.akf - 1) →
    (run c zeit ins s).records.map (·.1) = List.range' 1 ((run c zeit ins s).akf - 1) := by
  intro ins
  induction ins with
  | nil => intro zeit s _ h; simpa [run] using h
  | cons i r ih =>
    intro zeit s hi h
    simp only [run]
    apply ih
    · intro j hj; exact hi j (by simp [hj])
    · have ho : i.orgH = false := hi i (by simp)
      simp only [day, ho]
      have hq := (core_sowingBlock c zeit i.trig s).trans (core_phyto zeit i.emerged i.harTrig _)
      generalize phyto zeit i.emerged i.harTrig (sowingBlock c zeit i.trig s) = q at hq
      obtain ⟨hqa, hqr, _⟩ := hq
      unfold harvest
      simp only [Bool.and_false, Bool.false_eq_true, if_false]
      split
      · by_cases ha : 1 ≤ q.akf
        · have hs1 : 1 ≤ s.akf := by omega
          have e : s.akf + 1 - 1 = (s.akf - 1) + 1 := by omega
          have e2 : 1 + (s.akf - 1) = s.akf := by omega
          simp only [ha, if_true, List.map_append, List.map_cons, List.map_nil, hqr, h, hqa]
          rw [e, List.range'_concat]
          simp [e2, hs1, h]
        · have h0 : s.akf = 0 := by omega
          simp [ha, hqr, h, hqa, h0]
      · simp [hqr, hqa, h]

/-! ### automatic irrigation and automatic N -/

/-- Automatic irrigation only for a sown crop, after the sowing day, between the configured stages. -/
theorem C16_irrigation_only_between_stages (saat zeit intwick st1 st2 : Nat)
    (h : irrGate saat zeit intwick st1 st2 = true) :
    0 < saat ∧ saat < zeit ∧ st1 ≤ intwick ∧ intwick ≤ st2 := by
  simp only [irrGate, Bool.and_eq_true, decide_eq_true_eq] at h
  omega

/-- The daily amount never exceeds the configured maximum. -/
theorem C16_irrigation_le_max (defzsum irrmax : ℚ) : irrAmount defzsum irrmax ≤ irrmax := by
  unfold irrAmount fmin
  split <;> linarith

/-- The deficit of a layer is not negative when field capacity lies above the wilting point (C15's
ordering), hence neither is the sum … -/
theorem C16_layer_deficit_nonneg (wg w wmin : ℚ) (hw : wmin < w) : 0 ≤ (layerNfkDefz wg w wmin).2 := by
  have hpos : 0 < w - wmin := by linarith
  have h100 : ((100.0 : ℚ)) = 100 := by norm_num
  unfold layerNfkDefz
  simp only [h100]
  by_cases hneg : (wg - wmin) / (w - wmin) < 0
  · have hlt : wg - wmin < 0 := by
      by_contra hc
      exact absurd (div_nonneg (not_lt.mp hc) hpos.le) (not_le.mpr hneg)
    have h10 : ¬ ((1 : ℚ) < 0) := by norm_num
    simp only [hneg, if_true, h10, if_false]
    nlinarith
  · simp only [hneg, if_false]
    by_cases h1 : 1 < (wg - wmin) / (w - wmin)
    · simp [h1]
    · simp only [h1, if_false]
      have h2 : (wg - wmin) / (w - wmin) ≤ 1 := not_lt.mp h1
      have h3 : wg - wmin ≤ w - wmin := by rwa [div_le_one hpos] at h2
      nlinarith

/-- … and the automatic irrigation amount is not negative for a non-negative deficit sum and maximum. -/
theorem C16_irrigation_nonneg (defzsum irrmax : ℚ) (hd : 0 ≤ defzsum) (hm : 0 ≤ irrmax) :
    0 ≤ irrAmount defzsum irrmax := by
  unfold irrAmount fmin
  have h09 : ((0.9 : ℚ)) = 9 / 10 := by norm_num
  rw [h09]
  split
  · exact hm
  · nlinarith

/-- Automatic N applications are never negative. -/
theorem C16_auto_n_nonneg (ndem nmin : ℚ) : 0 ≤ autoN ndem nmin := by
  unfold autoN fmax
  split
  · exact le_refl _
  · rename_i h; linarith

/-! ### the last rotation entry -/

/-- The crop record of a harvested entry is written and the next entry becomes current — the skipped-crop
branch does not fire — whenever the sowing window of the successor has not ended, for every setting of the
switches and of the organic-fertiliser flag. -/
theorem C16_record_kept_when_successor_window_ahead (c : Cfg) (zeit : Nat) (orgH : Bool) (s : St)
    (ha : 1 ≤ s.akf) (he : zeit = s.ernte s.akf) (hw : zeit < s.saat2 (s.akf + 1)) :
    (harvest c zeit orgH s).akf = s.akf + 1 ∧
    (harvest c zeit orgH s).records = s.records ++ [(s.akf, zeit)] := by
  have hn : ¬ s.saat2 (s.akf + 1) ≤ s.ernte s.akf := by omega
  unfold harvest
  simp [he, ha, hn]

/-- The placeholder entry behind the last rotation entry: its window lies one year after the sowing (fixed
date) or after the end of the sowing window (automatic sowing) of the last entry, so a last crop harvested
within a year of that day is never taken for "successor skipped": its record is kept. -/
theorem C16_last_entry_not_skipped (c : Cfg) (zeit saatLast : Nat) (orgH : Bool) (s : St)
    (ha : 1 ≤ s.akf) (he : zeit = s.ernte s.akf)
    (hph : s.saat2 (s.akf + 1) = placeholderWindow saatLast (s.saat2 s.akf))
    (hyear : zeit < (if saatLast = 0 then s.saat2 s.akf else saatLast) + 365) :
    (harvest c zeit orgH s).akf = s.akf + 1 ∧
    (harvest c zeit orgH s).records = s.records ++ [(s.akf, zeit)] := by
  apply C16_record_kept_when_successor_window_ahead c zeit orgH s ha he
  rw [hph]
  exact hyear

/-! ### non-vacuity -/
example : placeholderWindow 0 50400 = 50765 ∧ placeholderWindow 50390 50400 = 50755 := by decide
example : irrGate 100 120 3 2 5 = true := by decide
example : irrAmount (30 : ℚ) 25 = 25 := by norm_num [irrAmount, fmin]
example : autoN (120 : ℚ) 45 = 75 := by norm_num [autoN, fmax]
example : (sowingBlock ⟨true, false⟩ 130 false
    { akf := 1, saat := fun _ => 0, saat1 := fun _ => 100, saat2 := fun _ => 130, ernte := fun _ => 50, ernte2 := fun _ => 50 }).saat 1 = 130 := by
  decide
example : (day ⟨false, false⟩ 200 false true false false
    { akf := 1, saat := fun _ => 120, saat1 := fun _ => 0, saat2 := fun _ => 0, ernte := fun _ => 200, ernte2 := fun _ => 200 }).akf = 2 := by
  decide

end Hermes.Rotation
