package main

// C15 — soil hydraulic parameters are physically ordered for every parameter source.
//
// correspondence (Lean model HermesModel/SoilParams.lean vs the real code):
//   soilparams.ptf    hermes.PTF1..4 on generated and boundary triples                (bit-exact)
//   soilparams.hydro  hermes.Hydro on every cell of HYPAR.TRU x density class x C_org x level
//   soilparams.wred   calcWRed (wrapper)          soilparams.setfc  setFieldCapacityWithGW (wrapper)
//   soilparams.day    the parameters the day loop works with (W, WMIN, PORGES, WNOR per layer, WRED),
//                     observed by the DayStart probe in whole runs, against Input+Init / the
//                     groundwater-change step of the model
// search (the property evaluated on the implementation): ordering per layer, WRED between wilting
// point and field capacity of the top layer, W = PORGES below the table, same level => same
// parameters; on the kernels and on whole runs over all parameter sources and groundwater modes.

import (
	"fmt"
	"math"
	"sort"
	"strconv"
	"strings"

	"github.com/zalf-rpm/Hermes2Go/hermes"
	"verifharness/proj"
	"verifharness/vh"
)

func init() { register("C15", checkC15) }

type c15 struct {
	c        *vh.Ctx
	vs       *violationSet
	textures []string // present in both tables, 3 characters
}

func checkC15(c *vh.Ctx) {
	c.Res.Rule = "kernels: PTF1-4 on triples of the stated triangle (>=5 % each, sand <= 85 %, C_org 0-6; boundaries and vertices), Hydro on EVERY cell texture x density class x C_org bracket (thresholds and next floats) x groundwater bracket, calcWRed, setFieldCapacityWithGW; whole runs: generated soils over all sources (table, explicit, PTF 1-4, mixed) x groundwater modes (soil file, polygon min/max, time series with plateaus and returns), every day observed by the DayStart probe; non-trivial = distinct kernel case / distinct (run, parameter state)"
	hy, pc, err := readTextureTables(c.Repo)
	if err != nil {
		c.Violate("correspondence", "c15:tables", "cannot read the parameter tables: "+err.Error(), nil)
		return
	}
	k := &c15{c: c, vs: newViolationSet()}
	for _, t := range hy {
		if pc[t] {
			k.textures = append(k.textures, t)
		}
	}
	c.Res.Extra["textures_in_both_tables"] = len(k.textures)
	k.ptfStage()
	k.hydroStage()
	k.wredStage()
	k.setFcStage()
	k.runStage()
	k.vs.flush(c)
}

// ---------------------------------------------------------------- PTF

type ptfCase struct {
	K                      int
	Corg, Clay, Silt, Sand float64
}

func callPTF(k int, c, clay, silt, sand float64) (float64, float64) {
	switch k {
	case 1:
		return hermes.PTF1(c, clay, silt)
	case 2:
		return hermes.PTF2(c, clay, silt)
	case 3:
		return hermes.PTF3(c, clay, silt)
	}
	return hermes.PTF4(c, clay, sand)
}

func (k *c15) ptfStage() {
	c := k.c
	var cases, impl []string
	var kept []ptfCase
	minMargin := [5]float64{9, 9, 9, 9, 9}
	one := func(pc ptfCase) {
		fc, wp := callPTF(pc.K, pc.Corg, pc.Clay, pc.Silt, pc.Sand)
		c.Eval()
		cases = append(cases, fmt.Sprintf("soilparams.ptf %d %s", pc.K, vh.FVals(pc.Corg, pc.Clay, pc.Silt, pc.Sand)))
		impl = append(impl, vh.FVals(fc, wp))
		kept = append(kept, pc)
		if !(0 < wp && wp < fc && fc < 1) || !finiteHy(fc, wp) {
			k.vs.add(fmt.Sprintf("ptf:order:ptf=%d", pc.K),
				fmt.Sprintf("PTF%d(C_org=%g, clay=%g, silt=%g, sand=%g) = (FC %g, WP %g) is not 0 < WP < FC < 1", pc.K, pc.Corg, pc.Clay, pc.Silt, pc.Sand, fc, wp), pc)
		}
		if fc-wp < minMargin[pc.K] {
			minMargin[pc.K] = fc - wp
		}
	}
	r := c.Rng
	n := c.N(1500, 40000)
	for p := 1; p <= 4; p++ {
		// vertices and edge mid-points of the admissible triangle x {0, 6}
		for _, cs := range [][2]float64{{5, 85}, {10, 85}, {5, 5}, {90, 5}, {5, 45}, {47.5, 47.5}, {50, 5}, {7.5, 85}, {58, 5}} {
			for _, co := range []float64{0, 6, 3, 0.5} {
				one(ptfCase{p, co, cs[0], 100 - cs[0] - cs[1], cs[1]})
			}
		}
		for i := 0; i < n; i++ {
			clay := r.Uni(5, 90)
			sand := r.Uni(5, math.Min(85, 95-clay))
			switch r.Intn(9) {
			case 0:
				clay = 5
				sand = r.Uni(5, 85)
			case 1:
				sand = 5
			case 2:
				sand = math.Min(85, 95-clay)
			case 3: // whole numbers, as the soil file usually has them
				clay = float64(r.Range(5, 90))
				sand = float64(r.Range(5, int(math.Min(85, 95-clay))))
			}
			co := r.Uni(0, 6)
			switch r.Intn(6) {
			case 0:
				co = 0
			case 1:
				co = 6
			}
			one(ptfCase{p, co, clay, 100 - clay - sand, sand})
			c.Nontrivial(fmt.Sprintf("ptf%d-%d", p, i))
		}
		if c.Thorough() { // the whole 1 % grid x C_org in steps of 0.5 (enumeration)
			for clay := 5; clay <= 90; clay++ {
				for sand := 5; sand <= 85 && clay+sand <= 95; sand++ {
					for ci := 0; ci <= 12; ci++ {
						one(ptfCase{p, float64(ci) / 2, float64(clay), float64(100 - clay - sand), float64(sand)})
					}
				}
			}
		}
		c.Count(fmt.Sprintf("ptf%d", p))
	}
	c.Res.Extra["ptf_min_margin_fc_minus_wp"] = map[string]float64{"ptf1": minMargin[1], "ptf2": minMargin[2], "ptf3": minMargin[3], "ptf4": minMargin[4]}
	c.Sample(kept[len(kept)-1])
	saved := kept
	c.Correspond("soilparams.ptf", cases, impl, 1e-9, 1e-12, func(i int) interface{} { return saved[i] })
}

// ---------------------------------------------------------------- Hydro (exhaustive over the table)

type hydroCase struct {
	Texture          string
	LD               int
	Corg, Grw, Stone float64
}

func (k *c15) hydroStage() {
	c := k.c
	session := hermes.NewHermesSession()
	defer session.Close()
	hp := hermes.VerifHydroPaths(c.Repo+"/examples/parameter/HYPAR.TRU", c.Repo+"/examples/parameter/PARCAP.TRU")
	corgs := []float64{0, 0.3}
	for _, t := range corgThresholds {
		corgs = append(corgs, t, math.Nextafter(t, 10), t+0.05)
	}
	corgs = append(corgs, 6)
	grws := []float64{0, 5, math.Nextafter(8, 0), 8, 8.5, math.Nextafter(9, 0), 9, 15, math.Nextafter(20, 0), 20, 25, math.Nextafter(30, 0), 30, 33, 35, math.Nextafter(35, 99), 36, 99}
	stones := []float64{0.01, 0.05, 0.1, 0.2, 0.3, 0.5, 0.8, 0.99}
	var cases, impl []string
	var kept []hydroCase
	cells, badCells, rot := 0, 0, 0
	for _, tex := range k.textures {
		for ld := 1; ld <= 5; ld++ {
			for _, co := range corgs {
				for _, grw := range grws {
					// every cell without stones, and with one stone content (rotating through the list;
					// thorough: with all of them)
					sts := []float64{0, stones[rot%len(stones)]}
					rot++
					if c.Thorough() {
						sts = append([]float64{0}, stones...)
					}
					for si, st := range sts {
						hc := hydroCase{tex, ld, co, grw, st}
						o := hermes.VerifHydro(session, hp, tex, ld, co, st, grw, 1, 1, 10)
						c.Eval()
						if o.Err != "" {
							k.vs.add("table:error:tex="+strings.TrimSpace(tex), "Hydro failed: "+o.Err, hc)
							continue
						}
						cases = append(cases, fmt.Sprintf("soilparams.hydro %s %d %s", texCodes(tex), ld, vh.FVals(co, st, grw)))
						impl = append(impl, vh.FVals(o.FK, o.FELDW, o.LIM, o.PRGES, o.NORMFK, o.WRED, o.AD))
						kept = append(kept, hc)
						// WRED as Hydro leaves it for the top horizon vs W[0], WMIN[0] (input.go:225-228)
						w0, wmin0 := o.FELDW*(1-st), o.LIM*(1-st)
						if !(wmin0 < o.WRED && o.WRED < w0) {
							key := "wred:stone-free-values:input.go:1205"
							if st == 0 {
								key = cellSig("wred-not-between:stone=0", tex, ld, co, grw)
							}
							k.vs.add(key, fmt.Sprintf("table route, top horizon %s density class %d C_org %g level %g, stones %g %%: WRED %.4f is not strictly between WMIN[0] %.4f and W[0] %.4f", strings.TrimSpace(tex), ld, co, grw, st*100, o.WRED, wmin0, w0), hc)
						}
						if si > 0 {
							continue
						}
						// ---- the ordering on this cell (the stone factor does not change it)
						cells++
						c.Nontrivial(fmt.Sprintf("cell-%s-%d-%d-%d", tex, ld, corgBracket(co), gwBracket(grw)))
						if !(0 < o.LIM) {
							k.vs.add(cellSig("wp<=0", tex, ld, co, grw), fmt.Sprintf("wilting point %g is not positive", o.LIM), hc)
						}
						if !(o.LIM < o.FELDW) {
							k.vs.add(cellSig("wp>=fc", tex, ld, co, grw), fmt.Sprintf("wilting point %g is not below field capacity %g", o.LIM, o.FELDW), hc)
						}
						if !(o.PRGES < 1) {
							k.vs.add(cellSig("ps>=1", tex, ld, co, grw), fmt.Sprintf("pore volume %g is not below 1", o.PRGES), hc)
						}
						if !(o.FELDW <= o.PRGES*(1+1e-12)) {
							badCells++
							k.vs.add(cellSig("fc>ps", tex, ld, co, grw),
								fmt.Sprintf("texture %s density class %d C_org %g groundwater %g dm: corrected field capacity %.4f exceeds the pore volume %.4f (table FK %.2f + correction %.3f)", strings.TrimSpace(tex), ld, co, grw, o.FELDW, o.PRGES, o.FK, o.FELDW-o.FK), hc)
						}
					}
				}
			}
		}
	}
	c.Res.Extra["hydro_cells_checked"] = cells
	c.Res.Extra["hydro_cells_fc_gt_ps"] = badCells
	c.Count("hydro")
	if len(kept) > 0 {
		c.Sample(kept[len(kept)/2])
	}
	saved := kept
	c.Correspond("soilparams.hydro", cases, impl, 1e-9, 1e-12, func(i int) interface{} { return saved[i] })
}

// ---------------------------------------------------------------- calcWRed

func (k *c15) wredStage() {
	c := k.c
	r := c.Rng
	var cases, impl []string
	type wc struct {
		Top    string
		WP, FC float64
	}
	var kept []wc
	n := c.N(800, 20000)
	for i := 0; i < n; i++ {
		top := k.textures[r.Intn(len(k.textures))]
		wp := r.Uni(0.5, 40)
		fc := wp + r.Uni(0.01, 45)
		if r.Chance(0.3) {
			wp = float64(r.Range(1, 40))
			fc = wp + float64(r.Range(1, 40))
		}
		got := hermes.VerifCalcWRed(wp, fc, top)
		c.Eval()
		sand := 0
		if top[0] == 'S' {
			sand = 1
		}
		cases = append(cases, fmt.Sprintf("soilparams.wred %d %s", sand, vh.FVals(wp, fc)))
		impl = append(impl, vh.FVals(got))
		kept = append(kept, wc{top, wp, fc})
		c.Nontrivial(fmt.Sprintf("wred-%d", i))
		// fed percent values, the threshold is a fraction strictly between the two
		if !(wp/100 < got && got < fc/100) {
			k.vs.add("wred:helper:percent-input", fmt.Sprintf("calcWRed(%g %%, %g %%) = %g is not strictly between %g and %g", wp, fc, got, wp/100, fc/100), wc{top, wp, fc})
		}
	}
	c.Count("wred")
	saved := kept
	c.Correspond("soilparams.wred", cases, impl, 1e-9, 1e-12, func(i int) interface{} { return saved[i] })
}

// ---------------------------------------------------------------- setFieldCapacityWithGW

func (k *c15) setFcStage() {
	c := k.c
	r := c.Rng
	type sc struct {
		N      int
		Grw    float64
		W, Por []float64
	}
	var cases, impl []string
	var kept []sc
	n := c.N(800, 20000)
	for i := 0; i < n; i++ {
		s := sc{N: r.Range(1, 20)}
		s.Grw = r.Uni(0, float64(s.N)+3)
		switch r.Intn(4) {
		case 0:
			s.Grw = float64(r.Range(0, s.N+2))
		case 1:
			s.Grw = float64(r.Range(0, 2*s.N+2)) / 2
		}
		for z := 0; z < s.N; z++ {
			wp := r.Uni(0.02, 0.3)
			w := wp + r.Uni(0.02, 0.3)
			s.W = append(s.W, w)
			s.Por = append(s.Por, w+r.Uni(0, 0.2))
		}
		got := hermes.VerifSetFieldCapacityWithGW(s.Grw, s.N, s.W, s.Por)
		c.Eval()
		cases = append(cases, fmt.Sprintf("soilparams.setfc %d %s %s %s", s.N, vh.FHex(s.Grw), vh.FVals(s.W...), vh.FVals(s.Por...)))
		impl = append(impl, vh.FVals(got...))
		kept = append(kept, s)
		c.Nontrivial(fmt.Sprintf("setfc-%d", i))
		for z := 1; z <= s.N; z++ {
			if float64(z-1) >= s.Grw && got[z-1] != s.Por[z-1] {
				k.vs.add("gw:below-table:w!=porges:helper", fmt.Sprintf("setFieldCapacityWithGW at level %g dm: layer %d lies below the table but W %g != PORGES %g", s.Grw, z, got[z-1], s.Por[z-1]), s)
			}
			if float64(z) <= s.Grw && got[z-1] != s.W[z-1] {
				k.vs.add("gw:above-table:w-changed:helper", fmt.Sprintf("setFieldCapacityWithGW at level %g dm: layer %d lies above the table but W changed from %g to %g", s.Grw, z, s.W[z-1], got[z-1]), s)
			}
			if !(got[z-1] <= s.Por[z-1]*(1+1e-12)) {
				k.vs.add("gw:helper:w>porges", fmt.Sprintf("setFieldCapacityWithGW at level %g dm: layer %d W %g > PORGES %g", s.Grw, z, got[z-1], s.Por[z-1]), s)
			}
		}
	}
	c.Count("setfc")
	saved := kept
	c.Correspond("soilparams.setfc", cases, impl, 1e-9, 1e-12, func(i int) interface{} { return saved[i] })
	// the same states through the Lean translation of the current source of setFieldCapacityWithGW (translator v2)
	var sic []srcImpCase
	for i := range kept {
		if i >= c.N(1500, 20000) {
			break
		}
		s := kept[i]
		g := hermes.NewGlobalVarsMain()
		g.GRW, g.N = s.Grw, s.N
		for z := 0; z < s.N; z++ {
			g.W[z], g.PORGES[z] = s.W[z], s.Por[z]
		}
		gg := &g
		sic = append(sic, srcImpCase{Recv: map[string]interface{}{"g": gg}, Params: map[string]interface{}{}, Call: func() { hermes.VerifSetFieldCapacityWithGWOn(gg) }, Desc: s})
	}
	correspondSrcImp(c, "setFieldCapacityWithGW", sic, 1e-9, 1e-12)
}

// ---------------------------------------------------------------- whole runs

type daySnap struct {
	Zeit                  int
	Grw                   float64
	W, Wmin, Porges, Wnor []float64
	Wred                  float64
	Changed               bool // a groundwater change has happened on or before this day
}

type c15Run struct {
	P       *proj.Project `json:"project"`
	Route   string        `json:"route"`
	GWMode  string        `json:"gw_mode"`
	PTF     int           `json:"ptf"`
	GW      float64       `json:"gw_input"`
	GrwInit float64       `json:"grw_init"`
	N       int           `json:"n"`
}

func parsedCorg(h proj.Horizon) float64 {
	v, _ := strconv.ParseFloat(fmt.Sprintf("%.2f", h.Corg), 64)
	return v
}

func (k *c15) genSoil(r *vh.Rng, route string, n int) []proj.Horizon {
	nh := 1 + r.Intn(minIHy(8, n))
	// distinct lower boundaries
	cut := map[int]bool{n: true}
	for len(cut) < nh {
		cut[r.Range(1, n)] = true
	}
	lows := make([]int, 0, nh)
	for l := range cut {
		lows = append(lows, l)
	}
	sort.Ints(lows)
	var hs []proj.Horizon
	for i, low := range lows {
		h := proj.Horizon{Texture: strings.TrimSpace(k.textures[r.Intn(len(k.textures))]), Lower: low, LD: r.Range(1, 5)}
		h.Corg = vh.RoundTo(r.Uni(0, 6), 2)
		switch r.Intn(5) {
		case 0:
			h.Corg = []float64{0, 0.58, 1.16, 2.3, 3.5, 4.6, 5.2, 6}[r.Intn(8)]
		case 1:
			h.Corg = vh.RoundTo([]float64{0.58, 1.16, 2.3, 3.5, 4.6, 5.2}[r.Intn(6)]+0.01, 2)
		}
		if r.Chance(0.4) {
			h.Stone = r.Range(1, 60)
			if r.Chance(0.15) {
				h.Stone = r.Range(60, 99)
			}
		}
		explicit := route == "explicit" || strings.HasPrefix(route, "ptf") || (route == "mixed" && (i%2 == 0) == (lows[0]%2 == 0))
		if route == "mixed" && nh == 1 {
			explicit = r.Chance(0.5)
		}
		if explicit {
			h.WP = r.Range(2, 30)
			h.FC = h.WP + r.Range(1, 30)
			h.PV = h.FC + r.Intn(26)
			if r.Chance(0.15) {
				h.PV = h.FC // FC = PS is allowed
			}
			if h.PV > 95 {
				h.PV = 95
			}
			// a measured bulk density beside the explicit values (optional CSV column): it feeds the heat scheme only, the
			// water parameters stay the ones of the file (derived without touching the random stream)
			if route == "explicit" && (h.WP+h.FC+h.PV)%3 == 0 {
				h.Bulk = 1.05 + float64((h.WP*7+h.FC*3+h.PV)%80)/100
			}
		}
		if strings.HasPrefix(route, "ptf") {
			h.PV = r.Range(35, 70) // the pore volume the pedotransfer routes still read from the soil file
		}
		if !explicit && !strings.HasPrefix(route, "ptf") && (low*7+nh+i)%3 == 0 {
			// texture-table route with a measured pore volume in the file (as the shipped soil 075a: 0,0,38): without field
			// capacity the table supplies all three values (derived without touching the random stream)
			h.PV = 30 + (low*11+i*5)%31
		}
		// a triple of the stated triangle (whole percents)
		h.Clay = r.Range(5, 90)
		h.Sand = r.Range(5, minIHy(85, 95-h.Clay))
		h.Silt = 100 - h.Clay - h.Sand
		hs = append(hs, h)
	}
	return hs
}

func minIHy(a, b int) int {
	if a < b {
		return a
	}
	return b
}

func (k *c15) genRun(r *vh.Rng, idx int, route, gwMode string) *c15Run {
	n := r.Range(1, 20)
	if gwMode != "soilfile" {
		n = r.Range(4, 20)
	}
	years := 1
	if gwMode != "soilfile" {
		years = 2
	}
	p := proj.Gen(r.Fork(), fmt.Sprintf("h%d", idx), proj.Opt{NoCrop: true, Years: years, MinLayers: n, MaxLayers: n})
	p.Soil = k.genSoil(r, route, n)
	p.RootDepth = r.Range(1, maxI(1, minIHy(n, 15)))
	p.Fert, p.Irr, p.Til = nil, nil, nil
	run := &c15Run{P: p, Route: route, GWMode: gwMode, N: n}
	p.Cfg["PTF"] = "0"
	if strings.HasPrefix(route, "ptf") {
		run.PTF = int(route[3] - '0')
		p.Cfg["PTF"] = fmt.Sprint(run.PTF)
	}
	start := p.Start()
	switch gwMode {
	case "soilfile":
		p.Cfg["GroundWaterFrom"] = "soilfile"
		p.GW = r.Range(1, n+4)
		if r.Chance(0.25) {
			p.GW = 99
		}
		if r.Chance(0.1) {
			p.GW = n
		}
		p.SetEnd(start.AddDays(r.Range(5, 25)))
	case "polygon":
		p.Cfg["GroundWaterFrom"] = "polygonfile"
		p.Cfg["GroundWaterPhase"] = fmt.Sprint(r.Range(0, 364))
		p.GH = r.Range(1, minIHy(n+2, 28))
		p.GL = p.GH + r.Range(0, 12)
		if r.Chance(0.1) {
			p.GL = p.GH // no amplitude: static
		}
		p.SetEnd(start.AddDays(r.Range(380, 500)))
	case "timeseries":
		p.Cfg["GroundWaterFrom"] = "gwTimeSeries"
		levels := []float64{float64(r.Range(1, n)), float64(r.Range(1, n)) + 0.5, vh.RoundTo(r.Uni(0.5, float64(n)+2), 2), float64(r.Range(2, n+3)), vh.RoundTo(r.Uni(0.5, float64(n)+2), 1)}
		d := start.AddDays(r.Range(-40, 30))
		cur := levels[r.Intn(len(levels))]
		if r.Chance(0.35) {
			// the table rests across the simulation start at a level that is not the one of the first record:
			// the saturated zone of the first days is the work of Input (first record) and Init (level of the start day)
			l0, l1 := levels[r.Intn(len(levels))], levels[r.Intn(len(levels))]
			if l0 == l1 {
				l1 = l0 + 3.5
			}
			p.GWSerie = append(p.GWSerie, proj.GWPoint{Date: start.AddDays(-r.Range(30, 50)), Level: l0},
				proj.GWPoint{Date: start.AddDays(-r.Range(3, 20)), Level: l1})
			d = start.AddDays(r.Range(4, 20))
			cur = l1
		}
		for i := 0; i < r.Range(4, 14); i++ {
			p.GWSerie = append(p.GWSerie, proj.GWPoint{Date: d, Level: cur})
			d = d.AddDays(r.Range(2, 40))
			if r.Chance(0.6) {
				cur = levels[r.Intn(len(levels))]
			}
		}
		last := p.GWSerie[len(p.GWSerie)-1].Date
		end := last.AddDays(r.Range(3, 30))
		if end.Z() < start.Z()+20 {
			end = start.AddDays(20)
		}
		p.SetEnd(end)
	}
	// weather has to cover the (possibly later) end year
	need := proj.Date{Y: p.End().Y + 1, M: 12, D: 31}.Z() - p.WeatherStart.Z() + 1
	if need > p.WeatherDays {
		p.WeatherDays = need
		p.GenWeather()
	}
	return run
}

func maxI(a, b int) int {
	if a > b {
		return a
	}
	return b
}

func horizonOfLayer(p *proj.Project, z int) int { // z 1-based
	for i, h := range p.Soil {
		if z <= h.Lower {
			return i
		}
	}
	return len(p.Soil) - 1
}

// routeOfHorizon: which source the layer's parameters come from at input time
func routeOfHorizon(run *c15Run, h proj.Horizon) string {
	if run.PTF > 0 {
		return fmt.Sprintf("ptf%d", run.PTF)
	}
	if h.FC > 0 {
		return "explicit"
	}
	return "table"
}

func (k *c15) dayLine(run *c15Run, s *daySnap) (string, string) {
	p := run.P
	var b strings.Builder
	ch := 0
	if s.Changed {
		ch = 1
	}
	fmt.Fprintf(&b, "soilparams.day %d %d %d %d %s", run.PTF, ch, run.N, len(p.Soil), vh.FVals(run.GW, run.GrwInit, s.Grw))
	for _, h := range p.Soil {
		fmt.Fprintf(&b, " %s %d %d %s", texCodes(pad3(h.Texture)), h.LD, h.Lower,
			vh.FVals(parsedCorg(h), float64(h.Stone)/100, float64(h.FC), float64(h.WP), float64(h.PV), float64(h.Sand), float64(h.Silt), float64(h.Clay)))
	}
	all := append(append(append(append([]float64{}, s.W...), s.Wmin...), s.Porges...), s.Wnor...)
	all = append(all, s.Wred)
	return b.String(), vh.FVals(all...)
}

func (k *c15) runStage() {
	c := k.c
	root := c.Scratch + "/runs"
	routes := []string{"table", "table", "explicit", "ptf1", "ptf2", "ptf3", "ptf4", "mixed"}
	modes := []string{"soilfile", "soilfile", "polygon", "timeseries", "timeseries"}
	nRuns := c.N(80, 1200)
	var cases, impl []string
	var keptRuns []*c15Run
	var keptDay []int
	states := 0
	for idx := 0; idx < nRuns; idx++ {
		route := routes[idx%len(routes)]
		mode := modes[(idx/len(routes)+idx)%len(modes)]
		run := k.genRun(c.Rng.Fork(), idx, route, mode)
		p := run.P
		if err := p.Write(root, c.Repo); err != nil {
			c.Note("cannot write project: %v", err)
			continue
		}
		var snaps []*daySnap
		first := true
		var prevGrw float64
		changed := false
		probe := &hermes.VerifProbes{DayStart: func(g *hermes.GlobalVarsMain, w *hermes.WaterSharedVars, nn *hermes.NitroSharedVars, cc *hermes.CropSharedVars, zeit int, wdt float64) {
			if first {
				first = false
				run.GW = g.GW
				switch mode {
				case "polygon":
					run.GrwInit = g.GW - (g.AMPL * math.Sin((float64(g.ITAG-1)+float64(g.GWPhase))*math.Pi/180))
				case "timeseries":
					run.GrwInit, _ = hermes.GetGroundWaterLevel(g, g.BEGINN-2)
				default:
					run.GrwInit = g.GRW
				}
				prevGrw = run.GrwInit
				if g.N != run.N {
					c.Note("run %s: N=%d expected %d", p.Name, g.N, run.N)
				}
			}
			if g.GRW != prevGrw {
				changed = true
			}
			prevGrw = g.GRW
			n := g.N
			s := &daySnap{Zeit: zeit, Grw: g.GRW, Wred: g.WRED, Changed: changed,
				W: append([]float64{}, g.W[:n]...), Wmin: append([]float64{}, g.WMIN[:n]...),
				Porges: append([]float64{}, g.PORGES[:n]...), Wnor: append([]float64{}, g.WNOR[:n]...)}
			snaps = append(snaps, s)
		}}
		res := proj.Run(root, p, probe)
		c.Count("run:" + route + ":" + mode)
		if res.Panic != "" || res.Err != nil {
			k.vs.add("run:failed:route="+route+":gw="+mode, fmt.Sprintf("generated valid project did not run: err=%v panic=%s", res.Err, res.Panic), run)
			continue
		}
		if len(snaps) == 0 {
			c.Note("run %s: no day observed", p.Name)
			continue
		}
		mixed := false
		for _, h := range p.Soil {
			if routeOfHorizon(run, h) != routeOfHorizon(run, p.Soil[0]) {
				mixed = true
			}
		}
		// ---- the property on every observed day
		seenLevel := map[uint64]int{}
		var lastKey string
		for di, s := range snaps {
			c.Eval()
			key := fmt.Sprint(s.Grw, s.W, s.Wmin, s.Porges, s.Wnor, s.Wred)
			newState := key != lastKey
			lastKey = key
			if newState {
				states++
				c.Nontrivial(fmt.Sprintf("run%d-state%d", idx, di))
				k.checkDay(run, s, mixed)
			}
			// same level => same parameters
			bits := math.Float64bits(s.Grw)
			if j, ok := seenLevel[bits]; ok {
				e := snaps[j]
				for z := 0; z < run.N; z++ {
					if e.W[z] != s.W[z] || e.Wmin[z] != s.Wmin[z] || e.Porges[z] != s.Porges[z] || e.Wnor[z] != s.Wnor[z] {
						sig := "gw:return:differs-from-state-after-a-change:gw=" + mode
						if !e.Changed {
							sig = "gw:return:differs-from-state-before-first-change:gw=" + mode
						}
						if mixed {
							sig += ":mixed-routes"
						}
						k.vs.add(sig, fmt.Sprintf("groundwater back at %g dm (day %d, first seen day %d): layer %d has W %g WMIN %g PORGES %g WNOR %g, had W %g WMIN %g PORGES %g WNOR %g", s.Grw, s.Zeit, e.Zeit, z+1, s.W[z], s.Wmin[z], s.Porges[z], s.Wnor[z], e.W[z], e.Wmin[z], e.Porges[z], e.Wnor[z]),
							map[string]interface{}{"run": run, "day": s.Zeit, "earlier_day": e.Zeit, "layer": z + 1})
						break
					}
				}
			} else {
				seenLevel[bits] = di
			}
		}
		// ---- correspondence of the observed states with the model: day 1, the first changed day,
		// a few random days
		pick := map[int]bool{0: true, len(snaps) - 1: true}
		for di, s := range snaps {
			if s.Changed {
				pick[di] = true
				break
			}
		}
		for j := 0; j < 5; j++ {
			pick[c.Rng.Intn(len(snaps))] = true
		}
		idxs := make([]int, 0, len(pick))
		for di := range pick {
			idxs = append(idxs, di)
		}
		sort.Ints(idxs)
		for _, di := range idxs {
			cl, il := k.dayLine(run, snaps[di])
			cases = append(cases, cl)
			impl = append(impl, il)
			keptRuns = append(keptRuns, run)
			keptDay = append(keptDay, snaps[di].Zeit)
		}
		if idx < 2 {
			c.Sample(map[string]interface{}{"route": route, "gw": mode, "soil": p.Soil, "days": len(snaps)})
		}
	}
	c.Res.Extra["whole_runs"] = nRuns
	c.Res.Extra["distinct_parameter_states_observed"] = states
	c.Correspond("soilparams.day", cases, impl, 1e-9, 1e-12, func(i int) interface{} {
		return map[string]interface{}{"run": keptRuns[i], "day": keptDay[i]}
	})
}

// checkDay evaluates the per-layer ordering, the threshold and the saturated zone on one observed state.
func (k *c15) checkDay(run *c15Run, s *daySnap, mixed bool) {
	p := run.P
	payload := func(z int) interface{} {
		return map[string]interface{}{"run": run, "day": s.Zeit, "layer": z, "grw": s.Grw, "W": s.W, "WMIN": s.Wmin, "PORGES": s.Porges, "WNOR": s.Wnor, "WRED": s.Wred}
	}
	rebuiltFromTable := s.Changed && run.PTF == 0 && routeOfHorizon(run, p.Soil[len(p.Soil)-1]) == "table"
	for z := 1; z <= run.N; z++ {
		h := p.Soil[horizonOfLayer(p, z)]
		route := routeOfHorizon(run, h)
		if rebuiltFromTable {
			route = "table"
		}
		w, wmin, por := s.W[z-1], s.Wmin[z-1], s.Porges[z-1]
		if !finiteHy(w, wmin, por, s.Wnor[z-1]) {
			k.vs.add("run:nonfinite:route="+route, "non-finite hydraulic parameter", payload(z))
		}
		tag := func(kind string) string {
			if route == "table" {
				// the cell is the one Hydro last computed: at input time with g.GRW = g.GW (mean / first record), and again
				// with the level of the day on every day the table moves when the whole profile is on the table route (run.go:388-409)
				gwOfCell := run.GW
				if rebuiltFromTable { // otherwise the input-time values are restored from the backups (run.go:411-…)
					gwOfCell = s.Grw
				}
				return cellSig(kind, pad3(h.Texture), h.LD, parsedCorg(h), gwOfCell)
			}
			return "run:" + kind + ":route=" + route
		}
		if !(0 < wmin) {
			k.vs.add(tag("wp<=0"), fmt.Sprintf("layer %d: wilting point %g is not positive", z, wmin), payload(z))
		}
		if run.PTF > 0 && !(wmin < por) {
			// the pedotransfer wilting point itself is not below the pore volume of the soil file; in
			// the saturated zone (W = PORGES) this shows as WMIN >= W
			k.vs.add(fmt.Sprintf("ptf:wp>=ps:ptf=%d:supplied-pore-volume", run.PTF), fmt.Sprintf("layer %d (%s): wilting point %g is not below the pore volume %g read from the soil file", z, route, wmin, por), payload(z))
		} else if !(wmin < w) {
			k.vs.add(tag("wp>=fc"), fmt.Sprintf("layer %d: wilting point %g is not below field capacity %g", z, wmin, w), payload(z))
		}
		if !(por < 1) {
			k.vs.add(tag("ps>=1"), fmt.Sprintf("layer %d: pore volume %g is not below 1", z, por), payload(z))
		}
		if !(w <= por*(1+1e-12)) {
			sig := tag("fc>ps")
			if run.PTF > 0 {
				sig = fmt.Sprintf("ptf:fc>ps:ptf=%d:supplied-pore-volume", run.PTF)
			}
			k.vs.add(sig, fmt.Sprintf("layer %d (%s, horizon texture %s): field capacity %g exceeds pore volume %g", z, route, h.Texture, w, por), payload(z))
		}
		if float64(z-1) >= s.Grw && w != por {
			st := "after-change"
			if !s.Changed {
				st = "before-first-change"
			}
			k.vs.add("gw:below-table:w!=porges:"+st, fmt.Sprintf("layer %d lies below the groundwater table (%g dm) but W %g != PORGES %g", z, s.Grw, w, por), payload(z))
		}
	}
	// the threshold of the top layer
	if !(s.Wmin[0] < s.Wred && s.Wred < s.W[0]) {
		h := p.Soil[0]
		route := routeOfHorizon(run, h)
		var sig string
		switch {
		case run.PTF > 0 && !(s.Wmin[0] < s.Porges[0]):
			// consequence of the pedotransfer wilting point not being below the supplied pore volume
			sig = fmt.Sprintf("ptf:wp>=ps:ptf=%d:supplied-pore-volume", run.PTF)
		case run.PTF > 0 && s.Wnor[0] > s.Porges[0] && s.Wmin[0] < s.Wred && s.Wred < s.Wnor[0]:
			// WRED is fine relative to the pedotransfer field capacity (WNOR), but that field capacity
			// exceeds the pore volume of the soil file and the top layer is saturated (W = PORGES)
			sig = fmt.Sprintf("ptf:fc>ps:ptf=%d:supplied-pore-volume", run.PTF)
		case s.Changed && !rebuiltFromTable:
			sig = "wred:fraction-callsite:run.go:399"
		case !s.Changed && run.PTF > 0:
			sig = "wred:fraction-callsite:input.go:267"
		case (route == "table" || rebuiltFromTable) && h.Stone > 0:
			sig = "wred:stone-free-values:input.go:1205"
		case route == "table" || rebuiltFromTable:
			sig = cellSig("wred-not-between:stone=0", pad3(h.Texture), h.LD, parsedCorg(h), s.Grw)
		default:
			sig = "wred:not-between:route=" + route
		}
		k.vs.add(sig, fmt.Sprintf("top layer: WRED %g is not strictly between WMIN[0] %g and W[0] %g (route %s, groundwater changed so far: %v)", s.Wred, s.Wmin[0], s.W[0], route, s.Changed), payload(1))
	}
}
