/-
Model of the date arithmetic of hermes/helper.go (DateConverter, extractDate, KalenderDate,
KalenderConverter).  Core Lean only; executable (used by the driver) and the subject of the
theorems in HermesProps/C12.lean.

Go `int` is modelled by `Nat`: every quantity is non-negative for year offsets YR ≥ 1 and day
numbers MASDAT ≥ 1, which is what the readers produce for dates from 1901 on (the long formats
`log.Fatal` below 1901; the model returns `none` there).
-/
namespace Hermes.Calendar

/-- `MT` of DateConverter (helper.go:119): cumulated days before each month, non-leap year. -/
def mtStart : List Nat := [0, 31, 59, 90, 120, 151, 181, 212, 243, 273, 304, 334]

/-- `MT` of KalenderDate (helper.go:263): cumulated days up to the end of each month. -/
def mtEnd : List Nat := [31, 59, 90, 120, 151, 181, 212, 243, 273, 304, 334, 365]

/-- Offset of month `mon` (1-based) in year offset `yr` after the leap loop of helper.go:158-164. -/
def monthOffset (yr mon : Nat) : Nat :=
  let b := mtStart.getD (mon - 1) 0
  if yr % 4 == 0 && mon ≥ 3 then b + 1 else b

/-- `masDat` of DateConverter for year offset `yr = year − 1900`. -/
def masdat (yr mon tg : Nat) : Nat :=
  (yr - 1) * 365 + (yr - 1) / 4 + monthOffset yr mon + tg

/-- `ztDat` (day of year) of DateConverter. -/
def ztdat (yr mon tg : Nat) : Nat := monthOffset yr mon + tg

/-- The month search loop of KalenderDate (helper.go:279-289): walk the table, adding `korr`
to every entry but the first, stop at the first entry `≥ tg`.  Running off the table is the
index-out-of-range panic of the Go code (`none`). Returns (MOZ, entry before MOZ as mutated). -/
def monthSearch (tg korr : Nat) : List Nat → Nat → Nat → Option (Nat × Nat)
  | [], _, _ => none
  | m :: rest, moz, prev =>
    let m' := if moz > 1 then m + korr else m
    if tg ≤ m' then some (moz, prev) else monthSearch tg korr rest (moz + 1) m'

/-- Year offset `YR` after the estimate and leap correction of helper.go:264-267. -/
def yearIdx (m : Nat) : Nat :=
  if m % 365 ≤ m / 365 / 4 then m / 365 - 1 else m / 365

/-- `TG` of helper.go:268: day of the year. -/
def dayOfYear (m : Nat) : Nat := m - yearIdx m * 365 - yearIdx m / 4

/-- `KORR` of helper.go:269-279. -/
def korr (yr tg : Nat) : Nat := if (yr + 1) % 4 = 0 then (if tg > 59 then 1 else 0) else 0

/-- KalenderDate (helper.go:262-299): (year, month, day) of a day number. -/
def kalenderDate (m : Nat) : Option (Nat × Nat × Nat) :=
  let yr := yearIdx m
  let tg := dayOfYear m
  match monthSearch tg (korr yr tg) mtEnd 1 0 with
  | none => none
  | some (moz, prev) =>
    let day := if moz > 1 then tg - prev else tg
    some (yr + 1900 + 1, moz, day)

/-! ### text layer -/

inductive DateFormat | deShort | deLong | enShort | enLong
  deriving DecidableEq, Repr

def DateFormat.ofCode : Nat → DateFormat
  | 0 => .deShort | 1 => .deLong | 2 => .enShort | _ => .enLong

def DateFormat.isShort : DateFormat → Bool
  | .deShort | .enShort => true
  | _ => false

def digit (k : Nat) : Char := Char.ofNat (48 + k % 10)

/-- `%02d` for n < 100 (and, like Go, wider when n ≥ 100: not needed for valid dates). -/
def d2 (n : Nat) : List Char := [digit (n / 10), digit n]
/-- `%d` for a four digit year. -/
def d4 (n : Nat) : List Char := [digit (n / 1000), digit (n / 100), digit (n / 10), digit n]

/-- KalenderConverter (helper.go:230-259) for a day number, with separator `sep`. -/
def render (f : DateFormat) (sep : List Char) (m : Nat) : Option (List Char) :=
  match kalenderDate m with
  | none => none
  | some (year, month, day) =>
    let yr := year - 1900
    let yy := if yr > 99 then yr - 100 else yr
    some <| match f with
      | .deLong => d2 day ++ sep ++ d2 month ++ sep ++ d4 year
      | .deShort => d2 day ++ sep ++ d2 month ++ sep ++ d2 yy
      | .enLong => d2 month ++ sep ++ d2 day ++ sep ++ d4 year
      | .enShort => d2 month ++ sep ++ d2 day ++ sep ++ d2 yy

def digitVal? (c : Char) : Option Nat :=
  if '0' ≤ c ∧ c ≤ '9' then some (c.toNat - 48) else none

/-- strconv.ParseInt restricted to unsigned decimal digit strings (what dates contain); anything
else is the `log.Fatal` of ValAsInt (`none`). -/
def parseNat? (cs : List Char) : Option Nat :=
  if cs.isEmpty then none else
  cs.foldl (fun acc c => match acc, digitVal? c with
    | some a, some d => some (a * 10 + d)
    | _, _ => none) (some 0)

def slice (cs : List Char) (a b : Nat) : List Char := (cs.drop a).take (b - a)

/-- extractDate (helper.go:172-203). -/
def extractDate (cs : List Char) (short : Bool) : Option (Nat × Nat × Nat) :=
  let n := cs.length
  let pick (a b c d e f : Nat) : Option (Nat × Nat × Nat) :=
    match parseNat? (slice cs a b), parseNat? (slice cs c d), parseNat? (slice cs e f) with
    | some x, some y, some z => some (x, y, z)
    | _, _, _ => none
  if short then
    if n == 6 then pick 0 2 2 4 4 6
    else if n == 8 then pick 0 2 3 5 6 8
    else none
  else
    if n == 8 then pick 0 2 2 4 4 8
    else if n == 10 then pick 0 2 3 5 6 10
    else none

/-- DateConverter (helper.go:113-169): (ztDat, masDat) of a date text; `none` where the Go code
ends the process (`log.Fatal`) or would index the month table out of range. -/
def parse (f : DateFormat) (cent : Nat) (cs : List Char) : Option (Nat × Nat) :=
  match extractDate cs f.isShort with
  | none => none
  | some (a, b, y) =>
    let (tg, mon) := match f with
      | .deShort | .deLong => (a, b)
      | .enShort | .enLong => (b, a)
    let yr? : Option Nat :=
      if f.isShort then some (if y < cent then y + 100 else y)
      else if y < 1901 then none else some (y - 1900)
    match yr? with
    | none => none
    | some yr =>
      if mon < 1 ∨ mon > 12 ∨ yr < 1 then none
      else some (ztdat yr mon tg, masdat yr mon tg)

/-- Days in month `mon` of year offset `yr` (true Gregorian calendar for 1901…2099). -/
def daysInMonth (yr mon : Nat) : Nat :=
  match mon with
  | 1 => 31 | 2 => if yr % 4 == 0 then 29 else 28 | 3 => 31 | 4 => 30 | 5 => 31 | 6 => 30
  | 7 => 31 | 8 => 31 | 9 => 30 | 10 => 31 | 11 => 30 | 12 => 31 | _ => 0

end Hermes.Calendar
