/-
Model of the bookkeeping of mineral fertiliser over a run, as the code is: the sums applied
(`DSUMM`, `NH4Sum`) and the parts already dissolved / nitrified (`UMS`, `NH4UMS`).

Three things touch these four variables (hermes/nitro.go, hermes/run.go):
* a fertiliser application (nitro.go:58-63, first sub-step of the day after the event date):
  `DSUMM += NDIR`, `NH4Sum += NH4N` (the automatic options nitro.go:82-221, 476 add to `DSUMM` only:
  the same event with `nh4n = 0`);
* the call of `mineral` in the first sub-step of every day (nitro.go:289-292), which dissolves a
  share of `DSUMM − UMS` and of `NH4Sum − NH4UMS` in the top mineralisation layer
  (`Mineral.run`, HermesModel/Mineral.lean);
* a measurement day inside the run (run.go:500-501): `DSUMM = 0`, `UMS = 0` (the ammonium pair is
  not reset).
Core Lean only; polymorphic in the arithmetic; executable (driver ops `fertpool.*`).
-/
import HermesModel.Mineral
namespace Hermes.FertPool
open Hermes.Mineral

section
variable {α : Type} [Add α] [Sub α] [Mul α] [Div α] [Neg α] [LT α] [DecidableLT α]
  [OfNat α 0] [OfNat α 1] [OfNat α 2] [OfNat α 100] [OfNat α 1000] [OfNat α 1274] [OfNat α 4242] [OfNat α 74]
  [OfScientific α]

/-- `DSUMM`, `NH4Sum` and the accumulators `mineral` updates (`UMS`, `NH4UMS`, `N2onitsum`, `MINSUM`) -/
structure Pool (α : Type) where
  dsumm : α
  nh4sum : α
  acc : Acc α

inductive Ev (α : Type) where
  /-- fertiliser application: `DSUMM += ndir`, `NH4Sum += nh4n` -/
  | fert (ndir nh4n : α)
  /-- one call of `mineral` on the given mineralisation layers -/
  | mineral (wred : α) (layers : List (Layer α))
  /-- measurement day: `DSUMM = 0`, `UMS = 0` -/
  | measure

def apply (p : Pool α) : Ev α → Pool α
  | .fert nd nh => { p with dsumm := p.dsumm + nd, nh4sum := p.nh4sum + nh }
  | .mineral wred ls => { p with acc := (run p.dsumm p.nh4sum wred ls p.acc).2 }
  | .measure => { p with dsumm := 0, acc := { p.acc with ums := 0 } }

/-- any sequence of applications, `mineral` calls and measurement days -/
def runEvs (p : Pool α) : List (Ev α) → Pool α
  | [] => p
  | e :: es => runEvs (apply p e) es

/-- the pools after every event (what the correspondence compares) -/
def trace (p : Pool α) : List (Ev α) → List (Pool α)
  | [] => []
  | e :: es => apply p e :: trace (apply p e) es

end
end Hermes.FertPool
