/-
Model of the command-line crop-parameter override (hermes/crop_calibration.go): the entries
`c_<NAME>[_<stage>[_<organ>]]=<value>` after ParseCropOverwrites, the range validation
(isValidCropOverwrite, 184-305), the application (OverwriteCropParameters, 67-181) and `edit`,
the same change made in the token record of the classic crop file.  Core Lean only.
-/
import HermesModel.CropParam
import HermesModel.Num
namespace Hermes.CropOverride
open Hermes.CropParam

/-- the names isValidCropParameter accepts (crop_calibration.go:45-53) -/
inductive PName
  | MAXAMAX | MINTMP | WUMAXPF | VELOC | YIFAK | INITCONCNBIOM | INITCONCNROOT
  | TSUM | BAS | VSCHWELL | DAYL | DLBAS | DRYSWELL | LUKRIT | LAIFKT | WGMAX | KC
  | PRO | DEAD
  deriving DecidableEq, Repr

def PName.ofCode : Nat → Option PName
  | 0 => some .MAXAMAX | 1 => some .MINTMP | 2 => some .WUMAXPF | 3 => some .VELOC | 4 => some .YIFAK
  | 5 => some .INITCONCNBIOM | 6 => some .INITCONCNROOT | 7 => some .TSUM | 8 => some .BAS
  | 9 => some .VSCHWELL | 10 => some .DAYL | 11 => some .DLBAS | 12 => some .DRYSWELL
  | 13 => some .LUKRIT | 14 => some .LAIFKT | 15 => some .WGMAX | 16 => some .KC | 17 => some .PRO
  | 18 => some .DEAD | _ => none

/-- One parsed argument. The number of `_`-separated indices decides the map it lands in
(crop_calibration.go:339-378), whatever the name. -/
inductive Entry (α : Type)
  | base (n : PName) (v : α)
  | stage (n : PName) (stage : Nat) (v : α)
  | part (n : PName) (stage organ : Nat) (v : α)

/-- ParseCropOverwrites: index limits of the parser (stage 1…9, organ 1…5); `none` = the run ends
with an error before it starts. -/
def parseOk {α : Type} : Entry α → Bool
  | .base _ _ => true
  | .stage _ st _ => decide (1 ≤ st ∧ st ≤ 9)
  | .part _ st o _ => decide (1 ≤ st ∧ st ≤ 9) && decide (1 ≤ o ∧ o ≤ 5)

section
variable {α : Type} [Add α] [Div α] [Neg α] [LT α] [LE α] [DecidableLT α] [DecidableLE α]
  [OfNat α 0] [OfNat α 1] [OfNat α 10] [OfNat α 20] [OfNat α 24] [OfNat α 30] [OfNat α 40] [OfNat α 50]
  [OfNat α 100] [OfNat α 200] [OfNat α 10000] [TruncInt α]

/-- range test of one value, per map (crop_calibration.go:188-204, 212-274, 287-301).
`none` = "invalid crop parameter name" (a name that does not belong to the map). -/
def baseRangeOk (n : PName) (v : α) : Bool :=
  match n with
  | .MAXAMAX => !(decide (v ≤ 0) || decide ((100 : α) < v))
  | .MINTMP => !(decide (v ≤ -(30 : α)) || decide ((50 : α) ≤ v))
  | .WUMAXPF => !(decide (v ≤ 0) || decide ((20 : α) < v))
  | .VELOC => !(decide (v ≤ 0) || decide ((1 : α) < v))
  | .YIFAK => !(decide (v < 0) || decide ((1 : α) < v))
  | .INITCONCNBIOM => !(decide (v < 0) || decide ((100 : α) < v))
  | .INITCONCNROOT => !(decide (v < 0) || decide ((100 : α) < v))
  | _ => true     -- a per-stage name given without index: not tested, and never applied

def stageRangeOk (n : PName) (v : α) : Bool :=
  match n with
  | .TSUM => !(decide (v < 0) || decide ((10000 : α) < v))
  | .BAS => !(decide (v < -(10 : α)) || decide ((40 : α) < v))
  | .VSCHWELL => !(decide (v < 0) || decide ((100 : α) < v))
  | .DAYL => !(decide (v < -(24 : α)) || decide ((24 : α) < v))
  | .DLBAS => !(decide (v < -(24 : α)) || decide ((24 : α) < v))
  | .DRYSWELL => !(decide (v < 0) || decide ((1 : α) < v))
  | .LUKRIT => !(decide (v < 0) || decide ((1 : α) < v))
  | .LAIFKT => !(decide (v < 0) || decide ((100 : α) < v))
  | .WGMAX => !(decide (v < 0) || decide ((100 : α) < v))
  | .KC => !(decide (v ≤ 0))
  | _ => false    -- invalid crop parameter name

def partRangeOk (n : PName) (v : α) : Bool :=
  match n with
  | .PRO => !(decide (v < 0) || decide ((1 : α) < v))
  | .DEAD => !(decide (v < 0) || decide ((1 : α) < v))
  | _ => false

def entryOk (nrkom nrentw : Nat) : Entry α → Bool
  | .base n v => baseRangeOk n v
  | .stage n st v => decide (1 ≤ st ∧ st ≤ nrentw) && stageRangeOk n v
  | .part n st o v => decide (1 ≤ st ∧ st ≤ nrentw) && decide (1 ≤ o ∧ o ≤ nrkom) && partRangeOk n v

/-- isValidCropOverwrite: every test of every entry must pass (the Go code returns `false` at the
first failing one; the verdict does not depend on the iteration order of the maps). -/
def isValid (nrkom nrentw : Nat) (o : List (Entry α)) : Bool := o.all (entryOk nrkom nrentw)

def setCell (m : List (List α)) (i j : Nat) (v : α) : List (List α) :=
  m.set i ((m.getD i []).set j v)

/-- one assignment of OverwriteCropParameters (crop_calibration.go:83-180). `rep` as in
`applyClassic`. -/
def applyEntry (rep : Bool) (s : State α) : Entry α → State α
  | .base .MAXAMAX v => { s with maxamax := v }
  | .base .MINTMP v => { s with mintmp := v }
  | .base .WUMAXPF v => { s with wumaxpf := v }
  | .base .VELOC v => { s with veloc := v / 200 }
  | .base .YIFAK v => { s with yifak := v }
  | .base .INITCONCNBIOM v => if s.dauer && rep then s else { s with gehob := v / 100 }
  | .base .INITCONCNROOT v => if s.dauer && rep then s else { s with wugeh := v / 100 }
  | .base _ _ => s
  | .stage .TSUM st v =>
    -- crop_calibration.go: after the TSUM entries the total temperature sum is derived again
    { s with tsum := s.tsum.set (st - 1) v,
             tendsum := sumFrom 0 ((s.tsum.set (st - 1) v).take s.nrentw) }
  | .stage .BAS st v => { s with bas := s.bas.set (st - 1) v }
  | .stage .VSCHWELL st v => { s with vschwell := s.vschwell.set (st - 1) v }
  | .stage .DAYL st v => { s with dayl := s.dayl.set (st - 1) v }
  | .stage .DLBAS st v => { s with dlbas := s.dlbas.set (st - 1) v }
  | .stage .DRYSWELL st v => { s with dryswell := s.dryswell.set (st - 1) v }
  | .stage .LUKRIT st v => { s with lukrit := s.lukrit.set (st - 1) v }
  | .stage .LAIFKT st v => { s with laifkt := s.laifkt.set (st - 1) v }
  | .stage .WGMAX st v => { s with wgmax := s.wgmax.set (st - 1) v }
  | .stage .KC st v => { s with kc := s.kc.set (st - 1) v }
  | .stage _ _ _ => s
  | .part .PRO st o v => { s with pro := setCell s.pro (st - 1) (o - 1) v }
  | .part .DEAD st o v => { s with dead := setCell s.dead (st - 1) (o - 1) v }
  | .part _ _ _ _ => s

/-- OverwriteCropParameters: nothing happens for another crop file; nothing happens when any test
fails; otherwise every entry is applied. -/
def overwrite (fileMatches rep : Bool) (o : List (Entry α)) (s : State α) : State α :=
  if !fileMatches then s
  else if !isValid s.nrkom s.nrentw o then s
  else o.foldl (applyEntry rep) s

def modifyAt {β : Type} (l : List β) (i : Nat) (f : β → β) : List β :=
  match l[i]? with
  | some x => l.set i (f x)
  | none => l

/-- the same change written into the token record of the classic crop file -/
def edit (t : Classic α) : Entry α → Classic α
  | .base .MAXAMAX v => { t with maxamax := v }
  | .base .MINTMP v => { t with mintmp := v }
  | .base .WUMAXPF v => { t with wumaxpf := v }
  | .base .VELOC v => { t with veloc := v }
  | .base .YIFAK v => { t with yifak := v }
  | .base .INITCONCNBIOM v => { t with initb := v }
  | .base .INITCONCNROOT v => { t with initr := v }
  | .base _ _ => t
  | .stage .TSUM st v => { t with stages := modifyAt t.stages (st - 1) fun x => { x with tsum := v } }
  | .stage .BAS st v => { t with stages := modifyAt t.stages (st - 1) fun x => { x with bas := v } }
  | .stage .VSCHWELL st v => { t with stages := modifyAt t.stages (st - 1) fun x => { x with vschwell := v } }
  | .stage .DAYL st v => { t with stages := modifyAt t.stages (st - 1) fun x => { x with dayl := v } }
  | .stage .DLBAS st v => { t with stages := modifyAt t.stages (st - 1) fun x => { x with dlbas := v } }
  | .stage .DRYSWELL st v => { t with stages := modifyAt t.stages (st - 1) fun x => { x with dryswell := v } }
  | .stage .LUKRIT st v => { t with stages := modifyAt t.stages (st - 1) fun x => { x with lukrit := v } }
  | .stage .LAIFKT st v => { t with stages := modifyAt t.stages (st - 1) fun x => { x with laifkt := v } }
  | .stage .WGMAX st v => { t with stages := modifyAt t.stages (st - 1) fun x => { x with wgmax := v } }
  | .stage .KC st v => { t with stages := modifyAt t.stages (st - 1) fun x => { x with kc := v } }
  | .stage _ _ _ => t
  | .part .PRO st o v => { t with stages := modifyAt t.stages (st - 1) fun x => { x with pro := x.pro.set (o - 1) v } }
  | .part .DEAD st o v => { t with stages := modifyAt t.stages (st - 1) fun x => { x with dead := x.dead.set (o - 1) v } }
  | .part _ _ _ _ => t

/-- the overridable parameters: a name used with the number of indices of its kind -/
def Entry.overridable : Entry α → Bool
  | .base n _ => match n with
    | .MAXAMAX | .MINTMP | .WUMAXPF | .VELOC | .YIFAK | .INITCONCNBIOM | .INITCONCNROOT => true
    | _ => false
  | .stage n _ _ => match n with
    | .TSUM | .BAS | .VSCHWELL | .DAYL | .DLBAS | .DRYSWELL | .LUKRIT | .LAIFKT | .WGMAX | .KC => true
    | _ => false
  | .part n _ _ _ => match n with
    | .PRO | .DEAD => true
    | _ => false

end
end Hermes.CropOverride
