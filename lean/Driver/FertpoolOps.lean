import HermesModel.Proto
import HermesModel.FertPool
import Driver.NitroOps
open Hermes Hermes.Proto

namespace Hermes.Driver
open Hermes.FertPool

/-- events: `0 ndir nh4n` | `1 wred num (13 floats per layer)` | `2` -/
def popEvs : Nat → Toks → Option (List (Ev Float) × Toks)
  | 0, r => some ([], r)
  | k + 1, r => do
    let (kind, r) ← popNat r
    match kind with
    | 0 =>
      let (x, r) ← popFloats 2 r
      let (es, r) ← popEvs k r
      match x with
      | [nd, nh] => pure (Ev.fert nd nh :: es, r)
      | _ => none
    | 1 =>
      let (wred, r) ← popFloat r
      let (num, r) ← popNat r
      let (ls, r) ← popLayers num r
      let (es, r) ← popEvs k r
      pure (Ev.mineral wred ls :: es, r)
    | 2 =>
      let (es, r) ← popEvs k r
      pure (Ev.measure :: es, r)
    | _ => none

def isFert : Ev Float → Bool
  | .fert _ _ => true
  | _ => false

/-- `fertpool.seq dsumm nh4sum ums nh4ums n2onitsum minsum  n ev*n` → `dsumm nh4sum ums nh4ums` after
every `mineral` call and every measurement day (an application is executed by the same call of
`Nitro` as the `mineral` that follows it: there is no observation in between) -/
def fertpoolSeq (toks : List String) : Option String := do
  let (sc, r) ← popFloats 6 toks
  let (n, r) ← popNat r
  let (evs, _) ← popEvs n r
  match sc with
  | [dsumm, nh4sum, ums, nh4ums, n2onitsum, minsum] =>
    let p : Pool Float := { dsumm, nh4sum, acc := { ums, nh4ums, n2onitsum, minsum } }
    let tr := (evs.zip (trace p evs)).filter (fun x => !isFert x.1)
    some (fmtFloats (tr.foldr (fun (x : Ev Float × Pool Float) acc =>
      [x.2.dsumm, x.2.nh4sum, x.2.acc.ums, x.2.acc.nh4ums] ++ acc) []))
  | _ => none

def fertpoolOps (toks : List String) : String :=
  match toks with
  | "fertpool.seq" :: rest => (fertpoolSeq rest).getD "bad-op"
  | _ => "bad-op"

end Hermes.Driver
