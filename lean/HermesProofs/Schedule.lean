/-
Lemmas about the schedule model (HermesModel/Schedule.lean): the reading loop keeps exactly the
in-period lines of the field, the same-day shift on well-spaced schedules, and the generic cursor
theorem (a cursor over strictly ascending execution days fires every slot exactly once, in order, on
its day).
-/
import HermesModel.Schedule
import Mathlib.Tactic.Linarith

namespace Hermes.Schedule

/-! ### reading -/

/-- the lines the property calls "scheduled inside the simulated period" as far as the start is
concerned: lines of the field dated on or after the start day, in file order -/
def inPeriod (beginn : Nat) (ls : List Ev) : List Ev :=
  ls.filter fun e => e.own && decide (beginn ≤ e.date)

theorem readLoop_kept (b : Nat) (ls : List Ev) (st : ReadSt) :
    (readLoop b ls st).kept = st.kept ++ inPeriod b ls := by
  induction ls generalizing st with
  | nil => simp [readLoop, inPeriod]
  | cons e r ih =>
    unfold readLoop
    by_cases ho : e.own
    · by_cases hd : e.date < b
      · have hnb : ¬ b ≤ e.date := Nat.not_le.mpr hd
        simp only [ho, hd, Bool.not_true, Bool.false_eq_true, if_false, if_true]
        rw [ih]
        simp [inPeriod, List.filter_cons, ho, hnb]
      · have hb : b ≤ e.date := Nat.le_of_not_lt hd
        simp only [ho, hd, Bool.not_true, Bool.false_eq_true, if_false]
        rw [ih]
        simp [inPeriod, List.filter_cons, ho, hb]
    · simp only [ho, Bool.not_false, if_true]
      rw [ih]
      simp [inPeriod, List.filter_cons, ho]

theorem read_kept (b : Nat) (ls : List Ev) : (read b ls).kept = inPeriod b ls := by
  simp [read, readLoop_kept]

/-- no dropped event is left in the slot behind the kept ones when the last line of the field is
in-period (in particular for files with ascending dates that contain an in-period event) -/
def lastOwnInPeriod (b : Nat) (ls : List Ev) : Bool :=
  match (ls.filter (·.own)).getLast? with
  | some e => decide (b ≤ e.date)
  | none => true

/-! ### the cursor -/

theorem getD_eq_headD_drop (ds : List Nat) (k : Nat) : ds.getD k 0 = (ds.drop k).headD 0 := by
  induction ds generalizing k with
  | nil => simp
  | cons d r ih =>
    cases k with
    | zero => simp
    | succ k => simpa using ih k

theorem runCursor_stuck (ds : List Nat) (k : Nat) : ∀ (n b : Nat), ds.getD k 0 < b →
    runCursor ds k (daysFrom b n) = [] := by
  intro n
  induction n with
  | zero => intro b _; simp [daysFrom, runCursor]
  | succ n ih =>
    intro b h
    have hne : ¬ b = ds.getD k 0 := by omega
    simp only [daysFrom, runCursor, hne, if_false]
    exact ih (b + 1) (by omega)

/-- Generic cursor theorem. If from slot `k` on the array holds strictly ascending execution days
`good`, none before the first simulated day `b`, followed by a cell that can never match (unwritten =
0, or a day before `b`), then running the cursor over the days `b … b+n-1` fires exactly the slots
whose day lies in the period, each once, in order, each on its day. -/
theorem runCursor_spec (ds : List Nat) : ∀ (n k b : Nat) (good tail : List Nat),
    ds.drop k = good ++ tail → good.Pairwise (· < ·) → (∀ d ∈ good, b ≤ d) →
    tail.headD 0 < b →
    runCursor ds k (daysFrom b n) = (good.takeWhile (fun d => decide (d < b + n))).zipIdx k := by
  intro n
  induction n with
  | zero =>
    intro k b good tail _ _ hge _
    simp only [daysFrom, runCursor, Nat.add_zero]
    cases good with
    | nil => simp
    | cons d r =>
      have : b ≤ d := hge d (by simp)
      have hd : ¬ d < b := by omega
      simp [List.takeWhile, hd]
  | succ n ih =>
    intro k b good tail hdrop hasc hge htail
    cases good with
    | nil =>
      have hk : ds.getD k 0 < b := by
        rw [getD_eq_headD_drop, hdrop]; simpa using htail
      rw [runCursor_stuck ds k (n + 1) b hk]
      simp
    | cons d r =>
      have hgd : ds.getD k 0 = d := by
        rw [getD_eq_headD_drop, hdrop]; simp
      have hbd : b ≤ d := hge d (by simp)
      have hdrop' : ds.drop (k + 1) = r ++ tail := by
        have : ds.drop (k + 1) = (ds.drop k).tail := by
          rw [List.tail_drop]
        rw [this, hdrop]; simp
      have hr : r.Pairwise (· < ·) := (List.pairwise_cons.mp hasc).2
      have hdr : ∀ x ∈ r, d < x := (List.pairwise_cons.mp hasc).1
      simp only [daysFrom, runCursor, hgd]
      by_cases hEq : b = d
      · subst hEq
        simp only [if_true]
        have hlt : b < b + (n + 1) := by omega
        rw [List.takeWhile_cons_of_pos (by simpa using hlt), List.zipIdx_cons]
        congr 1
        have := ih (k + 1) (b + 1) r tail hdrop' hr (fun x hx => by have := hdr x hx; omega) (by omega)
        rw [this]
        have e : b + 1 + n = b + (n + 1) := by omega
        rw [e]
      · simp only [hEq, if_false]
        have := ih k (b + 1) (d :: r) tail hdrop hasc
          (fun x hx => by
            rcases List.mem_cons.mp hx with rfl | hx
            · omega
            · have := hdr x hx; omega) (by omega)
        rw [this]
        have e : b + 1 + n = b + (n + 1) := by omega
        rw [e]

/-! ### the same-day shift on well-spaced schedules -/

/-- A schedule (ascending day numbers, at most two per day) on which the same-day shift cannot collide
with a neighbour: after a same-day pair the next event is at least two days later.
`spaced p second ds`: `p` is the date of the predecessor, `second` tells that the predecessor was the
second of a pair. -/
def spaced : Nat → Bool → List Nat → Bool
  | _, _, [] => true
  | p, second, d :: r =>
    if second then decide (p + 2 ≤ d) && spaced d false r
    else if d = p then spaced d true r
    else decide (p < d) && spaced d false r

/-- the slot dates the property asks for: the date itself, one day later for the second of a pair -/
def expectShift : Nat → List Nat → List Nat
  | _, [] => []
  | p, d :: r => (if d = p then d + 1 else d) :: expectShift d r

theorem shiftFrom_spaced : ∀ (ds : List Nat) (p : Nat) (second : Bool), spaced p second ds = true →
    shiftFrom (if second then p + 1 else p) ds = expectShift p ds := by
  intro ds
  induction ds with
  | nil => intro p second _; simp [shiftFrom, expectShift]
  | cons d r ih =>
    intro p second h
    cases second with
    | true =>
      simp only [spaced, if_true, Bool.and_eq_true, decide_eq_true_eq] at h
      obtain ⟨hpd, hr⟩ := h
      have h1 : ¬ d ≤ p + 1 := by omega
      have h2 : ¬ d = p := by omega
      have e := ih d false hr
      simp only [Bool.false_eq_true, if_false] at e
      simp only [shiftFrom, expectShift, if_true, h1, h2, if_false]
      rw [e]
    | false =>
      by_cases hdp : d = p
      · subst hdp
        simp only [spaced, Bool.false_eq_true, if_false, if_true] at h
        have e := ih d true h
        simp only [if_true] at e
        simp only [shiftFrom, expectShift, Bool.false_eq_true, if_false, if_true, Nat.le_refl]
        rw [e]
      · simp only [spaced, Bool.false_eq_true, if_false, hdp, Bool.and_eq_true, decide_eq_true_eq] at h
        obtain ⟨hpd, hr⟩ := h
        have h1 : ¬ d ≤ p := by omega
        have e := ih d false hr
        simp only [Bool.false_eq_true, if_false] at e
        simp only [shiftFrom, expectShift, Bool.false_eq_true, if_false, hdp, h1]
        rw [e]

/-- after the shift the slot dates are strictly ascending and after the predecessor — for every input -/
theorem shiftFrom_strict : ∀ (ds : List Nat) (p : Nat),
    (shiftFrom p ds).Pairwise (· < ·) ∧ ∀ x ∈ shiftFrom p ds, p < x := by
  intro ds
  induction ds with
  | nil => intro p; simp [shiftFrom]
  | cons d r ih =>
    intro p
    simp only [shiftFrom]
    have hd : p < (if d ≤ p then p + 1 else d) := by split <;> omega
    obtain ⟨hp, hx⟩ := ih (if d ≤ p then p + 1 else d)
    refine ⟨List.pairwise_cons.mpr ⟨hx, hp⟩, ?_⟩
    intro x hxm
    rcases List.mem_cons.mp hxm with rfl | hxm
    · exact hd
    · have := hx x hxm; omega

/-- no slot date is before the date of its line, position by position -/
theorem shiftFrom_ge : ∀ (ds : List Nat) (p : Nat), List.Forall₂ (· ≤ ·) ds (shiftFrom p ds) := by
  intro ds
  induction ds with
  | nil => intro p; simp [shiftFrom]
  | cons d r ih =>
    intro p
    simp only [shiftFrom]
    refine List.Forall₂.cons ?_ (ih _)
    split <;> omega

theorem shiftList_strict (ds : List Nat) (b : Nat) (hge : ∀ d ∈ ds, b ≤ d) :
    (shiftList ds).Pairwise (· < ·) ∧ (∀ x ∈ shiftList ds, b ≤ x) ∧ List.Forall₂ (· ≤ ·) ds (shiftList ds) := by
  cases ds with
  | nil => simp [shiftList]
  | cons d r =>
    simp only [shiftList]
    obtain ⟨hp, hx⟩ := shiftFrom_strict r d
    have hd : b ≤ d := hge d (by simp)
    refine ⟨List.pairwise_cons.mpr ⟨hx, hp⟩, ?_, List.Forall₂.cons (Nat.le_refl _) (shiftFrom_ge r d)⟩
    intro x hxm
    rcases List.mem_cons.mp hxm with rfl | hxm
    · exact hd
    · have := hx x hxm; omega

/-- the irrigation events kept after the start is known are the in-period lines of the field -/
theorem irrKept_eq (b : Nat) (ls : List Ev) : irrKept b ls = inPeriod b ls := by
  unfold irrKept
  rw [read_kept]
  simp only [inPeriod, irrBeginnAtRead, List.filter_filter]
  congr 1
  funext e
  simp [Bool.and_comm]

theorem map_succ_pairwise {l : List Nat} (h : l.Pairwise (· < ·)) : (l.map (· + 1)).Pairwise (· < ·) := by
  induction l with
  | nil => simp
  | cons a r ih =>
    obtain ⟨h1, h2⟩ := List.pairwise_cons.mp h
    simp only [List.map_cons]
    refine List.pairwise_cons.mpr ⟨?_, ih h2⟩
    intro x hx
    obtain ⟨y, hy, rfl⟩ := List.mem_map.mp hx
    have := h1 y hy
    omega

end Hermes.Schedule
