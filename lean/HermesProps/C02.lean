/-
C02 — Soil mineral nitrogen mass balance closes on every simulated day.
Models: HermesModel/Nitro.lean (`nmove`, hermes/nitro.go:708-853), HermesModel/Mineral.lean
(`mineral` bookkeeping nitro.go:569-688, `Denitr`/`Denitmo` removal denit.go), HermesModel/Denitmo.lean
(`Denitmo` on the whole array C1, denit.go:87-212).  Exact-arithmetic
statements over ℚ for every number of layers ≥ 2, every flux pattern and every sub-step length;
round-off is measured by the search stage of the check.
-/
import HermesProofs.Nitro
import HermesProofs.Mineral
import HermesProofs.Denitmo
namespace Hermes.Nitro
open Hermes.Mineral

/-- **Dispersion only moves N between layers.** For every profile of at least two layers the
dispersion terms of one `nmove` call sum to zero, whatever the concentrations and dispersion
coefficients (difference of interface fluxes, zero flux at the bottom). -/
theorem C02_disp_telescopes (dz2 : ℚ) (l : List (ℚ × ℚ)) (h : 2 ≤ l.length) :
    (dispGo dz2 none l).sum = 0 := dispGo_none_sum dz2 l h

example : (dispGo (100 : ℚ) none [(0.3, 2), (0.1, 1), (0.2, 5)]).sum = 0 :=
  C02_disp_telescopes _ _ (by simp)

/-- **The same concentration is used on both sides of every layer interface**, in all four sign
combinations: the flux a layer loses (gains) through its lower boundary is the flux the layer
below gains (loses) through its upper boundary; nothing enters with the rain (the concentration
above the profile is 0), nothing leaves with evaporation, inflow from below the profile carries
concentration 0.  (`konvLayer_eq` shows that the code's four-case formula is
(bottom term + drain term − top term)/dz with exactly these terms; the drain layer loses
`c·QDRAIN` in every sign case.) -/
theorem C02_konv_interfaces_agree (cAbove cBelow q : ℚ) :
    topTerm false cAbove cBelow q = botTerm cAbove cBelow q ∧
    topTerm true 0 cBelow q = 0 ∧
    (q < 0 → botTerm cAbove 0 q = 0) := by
  refine ⟨?_, ?_, ?_⟩
  · simp [topTerm, botTerm]
  · simp [topTerm]
  · intro h; simp [botTerm, h]

/-- the code's convection term is exactly bottom + drain − top -/
theorem C02_konv_layer_is_flux_difference (dz qd : ℚ) (top drain : Bool) (cUp c cDown qTop qBot : ℚ) :
    konvLayer dz qd top drain cUp c cDown qTop qBot
      = (botTerm c cDown qBot + drainTerm qd drain c - topTerm top cUp c qTop) / dz :=
  konvLayer_eq dz qd top drain cUp c cDown qTop qBot

/-- **What the counters book is what leaves.** In one `nmove` call the drain counter grows by
exactly what the convection terms take out of the drain layer — in all sign cases of the fluxes,
also with capillary rise through the drain layer — and, with the leaching depth at the profile
bottom, the leaching counter grows by exactly the flux through the bottom (percolation carries the
concentration of the last layer, inflow from below carries none). -/
theorem C02_counters_book_boundary_fluxes (i : In ℚ) (n : ℕ) (h : WF i n) (hdz : i.dz ≠ 0) :
    (step i).drainloss = i.drainloss + 100 * drainFlux i ∧
    (i.outn = n → (step i).outsum = i.outsum + 100 * bottomFlux i) :=
  ⟨step_drainloss i n h hdz, step_outsum i n h hdz⟩

/-- **nmove balance.** If no non-negativity clamp engages, one call changes the mineral N of the
profile by exactly: − uptake (first sub-step only) + wdt·ΣDN − ΔOUTSUM − ΔDRAINLOSS.  Every n ≥ 2,
every sign pattern of the fluxes, drain at any layer, leaching depth at the profile bottom. -/
theorem C02_nmove_balance (i : In ℚ) (n : ℕ) (h : WF i n) (hdz : i.dz ≠ 0) (hout : i.outn = n) (hc : NoClamp i) :
    (step i).c1.sum = i.c1.sum - uptaken i + i.wdt * i.dn.sum
      - ((step i).outsum - i.outsum) - ((step i).drainloss - i.drainloss) := by
  have := step_total i n h hdz hout hc
  linarith

/-- **The clamps only add.** With any clamp engagement (uptake, concentration, post-transport,
post-source), positive layer thickness and water contents, the profile ends with at least the
balanced amount: the clamps never remove N. -/
theorem C02_nmove_clamp_only_adds (i : In ℚ) (n : ℕ) (h : WF i n) (hdz : 0 < i.dz) (hout : i.outn = n)
    (hwg : AllTriples (fun _ _ w => 0 < w) ((phaseUptake i).map (·.1)) i.dn i.wg) :
    i.c1.sum - uptaken i + i.wdt * i.dn.sum - ((step i).outsum - i.outsum) - ((step i).drainloss - i.drainloss)
      ≤ (step i).c1.sum := by
  have h1 := step_balance_ge i n h hdz hwg
  have h2 := step_outsum i n h (ne_of_gt hdz) hout
  have h3 := step_drainloss i n h (ne_of_gt hdz)
  linarith

/-- **Day balance for any number of sub-steps.** `runDay` runs the first sub-step with the uptake
block and feeds C1, PE and the counters into the following sub-steps (fluxes, water contents,
coefficients and lengths of the sub-steps arbitrary).  If no clamp engages on the way, the mineral N
of the profile changes over the day by − uptake (once) + Σₖ wdtₖ·ΣDNₖ − ΔOUTSUM − ΔDRAINLOSS; with
n equal sub-steps of length 1/n and the day's source term DN this is + ΣDN. -/
theorem C02_nitro_day_balance (i : In ℚ) (rest : List (In ℚ)) (n : ℕ)
    (h : WF { i with first := true } n) (hdz : i.dz ≠ 0) (hout : i.outn = n) (hc : NoClamp { i with first := true })
    (hrest : DayOk n (step { i with first := true }) rest) :
    (runDay i rest).c1.sum = i.c1.sum - (step { i with first := true }).pe.sum
      + (i.wdt * i.dn.sum + (rest.map (fun j => j.wdt * j.dn.sum)).sum)
      - ((runDay i rest).outsum - i.outsum) - ((runDay i rest).drainloss - i.drainloss) := by
  unfold runDay
  have h1 := runRest_total n rest _ hrest
  have h2 := step_total { i with first := true } n h hdz hout hc
  have hu : uptaken { i with first := true } = (step { i with first := true }).pe.sum := by simp [uptaken]
  rw [hu] at h2
  have e1 : ({ i with first := true } : In ℚ).c1 = i.c1 := rfl
  have e2 : ({ i with first := true } : In ℚ).outsum = i.outsum := rfl
  have e3 : ({ i with first := true } : In ℚ).drainloss = i.drainloss := rfl
  have e4 : ({ i with first := true } : In ℚ).wdt = i.wdt := rfl
  have e5 : ({ i with first := true } : In ℚ).dn = i.dn := rfl
  rw [e1, e2, e3, e4, e5] at h2
  linarith

/-- **Instability flag.** The flag is raised iff some pre-clamp value is below the threshold. -/
theorem C02_instability_flag_iff (i : In ℚ) :
    (step i).unstable = true ↔ ∃ x ∈ (step i).ck, x < i.stab := by
  have : (step i).unstable = (step i).ck.any (fun x => decide (x < i.stab)) := rfl
  rw [this, List.any_eq_true]
  simp

/-- a two-layer state with drain flux in layer 1 while the flux through the lower boundary of
that layer is upward (capillary rise) — the input class of the former defect F2 -/
def drainWitness : In ℚ :=
  { dz := 10, wdt := 1, dv := 0, first := false, fluss0 := 1, q := [-1, 0], qdrain := 1, draidep := 1, outn := 2,
    wg := [1 / 1000, 1 / 1000, 1 / 1000], w := [1, 1, 1], d := [0, 0], c1 := [1, 1], pe := [0, 0], dn := [0, 0],
    stab := -3 / 2, inSeason := false, afterSow := false, schnorr := 0, pesum := 0, aufnasum := 0, outsum := 0,
    nleag := 0, drainloss := 0 }

/-- on that state the drain counter grows by 100 kg N/ha and the convection terms take exactly
that out of the drain layer (before the repair they took nothing) -/
example : (step drainWitness).drainloss - drainWitness.drainloss = 100 ∧ 100 * drainFlux drainWitness = 100 := by
  have hw : WF drainWitness 2 := by constructor <;> simp [drainWitness]
  have h := (C02_counters_book_boundary_fluxes drainWitness 2 hw (by simp [drainWitness])).1
  have hcarr : (step drainWitness).carr = [1, 1] := by
    show zipWith3 (conc 10 1) [1, 1] [0, 0] [1 / 1000, 1 / 1000, 1 / 1000] = [1, 1]
    simp [zipWith3, conc, clamp0]; norm_num
  have hf : drainFlux drainWitness = 1 := by
    unfold drainFlux
    rw [hcarr]
    simp [drainWitness, drainSum, drainTerm]
  rw [h, hf]; simp [drainWitness]

/-- **Source term bookkeeping.** In every layer the source term handed to the transport equals
what the mineralised-amount counters and the dissolved-fertiliser counter gain minus the N2O loss
booked. -/
theorem C02_mineral_source_bookkeeping (top : Bool) (dsumm nh4sum wred : ℚ) (L : Layer ℚ) (a : Acc ℚ) :
    (layer top dsumm nh4sum wred L a).1.dn =
      ((layer top dsumm nh4sum wred L a).1.minaos - L.minaos) + ((layer top dsumm nh4sum wred L a).1.minfos - L.minfos)
        + ((layer top dsumm nh4sum wred L a).2.ums - a.ums) - ((layer top dsumm nh4sum wred L a).2.n2onitsum - a.n2onitsum) := by
  unfold layer
  by_cases h : 0 < (L.tdLo + L.tdUp) / 2
  · simp only [h, if_true]; ring
  · simp only [h, if_false]; ring

/-- **Denitrification removes exactly what it books and never more than present** (`Denitr`): with
moisture and temperature factors in [0,1] and non-negative nitrate the clamp is dead code
(1.274·N ≤ N² + 74 for every N) and the three layers lose exactly ΔCUMDENIT. -/
theorem C02_denit_removes_exactly (c0 c1 c2 ft fm cum : ℚ) (h0 : 0 ≤ c0) (h1 : 0 ≤ c1) (h2 : 0 ≤ c2)
    (hft0 : 0 ≤ ft) (hft : ft ≤ 1) (hfm0 : 0 ≤ fm) (hfm : fm ≤ 1) :
    (denitr c0 c1 c2 ft fm cum).c.sum = c0 + c1 + c2 - ((denitr c0 c1 c2 ft fm cum).cumdenit - cum) ∧
    cum ≤ (denitr c0 c1 c2 ft fm cum).cumdenit := by
  unfold denitr
  by_cases hn : 0 < c0 + c1 + c2
  · simp only [hn, if_true]
    obtain ⟨hd, hd0⟩ := denitRate_le 1274 (c0 + c1 + c2) ft fm hn (by norm_num) (by norm_num) hft0 hft hfm0 hfm
    rw [denitLayer_eq c0 _ _ h0 hn (by linarith) hd0 hd, denitLayer_eq c1 _ _ h1 hn (by linarith) hd0 hd,
      denitLayer_eq c2 _ _ h2 hn (by linarith) hd0 hd]
    constructor
    · simp only [List.sum_cons, List.sum_nil]
      have hne : c0 + c1 + c2 ≠ 0 := ne_of_gt hn
      field_simp
      ring
    · linarith
  · simp only [hn, if_false]
    constructor
    · simp; ring
    · exact le_refl _

example : (denitr (10 : ℚ) 5 0 (1 / 2) 1 3).c.sum = 10 + 5 + 0 - ((denitr (10 : ℚ) 5 0 (1 / 2) 1 3).cumdenit - 3) :=
  (C02_denit_removes_exactly 10 5 0 (1 / 2) 1 3 (by norm_num) (by norm_num) (by norm_num) (by norm_num)
    (by norm_num) (by norm_num) (by norm_num)).1

/-! ### `Denitmo` (peat soils, denit.go:87-212) -/

/-- **`Denitmo` removes exactly what it books** when no clamp engages — for profiles of at least nine
layers: for a profile of `9 + k` layers (every k) the mineral N of the profile drops by exactly the
amount added to the denitrification counter, ΣC1' = ΣC1 − ΔCUMDENIT. "No clamp engages" = none of
the nine values `C1[i] − Denit·share` that the code compares with 0 is negative (`denitmoPre`).
Partial: the three 30 cm blocks are the array entries 0 … 8 whatever the number of layers; for a
profile of fewer than nine layers the statement is false of the code
(`C02_denitmo_removes_exactly_fails_at`). -/
theorem C02_denitmo_removes_exactly_partial (c : List ℚ) (ft1 ft2 ft3 fm1 fm2 fm3 cum : ℚ) (k : ℕ)
    (h : DenitmoIn c ft1 ft2 ft3 fm1 fm2 fm3) (hnc : ∀ p ∈ denitmoPre c ft1 ft2 ft3 fm1 fm2 fm3, 0 ≤ p) :
    ((denitmo c ft1 ft2 ft3 fm1 fm2 fm3 cum).c.take (9 + k)).sum =
      (c.take (9 + k)).sum - ((denitmo c ft1 ft2 ft3 fm1 fm2 fm3 cum).cumdenit - cum) := by
  obtain ⟨_, hd, _, _, _, hex, _, _, _⟩ := denitmo_spec' h cum
  have := take_sum_shift c _ hd k
  have := hex hnc
  linarith

/-- **Violated for peat profiles of fewer than nine layers.** `Denitmo` reads and charges the array
entries 0 … 8 regardless of `N`. Witness: a profile of 8 layers with 5 kg N/ha in layers 7 and 8 and
10 kg N/ha in the array entry below the profile bottom (`C1[N]`, which the transport routine
maintains): no clamp engages anywhere, the counter books the whole rate of the third block, the
profile loses only three quarters of it — a quarter of the booked denitrification never left the
profile (the day balance shows N appearing). -/
theorem C02_denitmo_removes_exactly_fails_at :
    ∃ c : List ℚ, DenitmoIn c 1 1 1 1 1 1 ∧ (∀ p ∈ denitmoPre c 1 1 1 1 1 1, 0 ≤ p) ∧
      (c.take 8).sum - ((denitmo c 1 1 1 1 1 1 0).cumdenit - 0) < ((denitmo c 1 1 1 1 1 1 0).c.take 8).sum := by
  refine ⟨[0, 0, 0, 0, 0, 0, 5, 5, 10], ⟨by simp, by simp, by norm_num, by norm_num, by norm_num, by norm_num,
    by norm_num, by norm_num⟩, ?_, ?_⟩
  · intro p hp
    simp only [denitmoPre, denitmoBlockPre, List.getD_cons_zero, List.getD_cons_succ, List.mem_append, List.mem_cons,
      List.mem_nil_iff, or_false] at hp
    rcases hp with ((rfl | rfl | rfl) | (rfl | rfl | rfl)) | (rfl | rfl | rfl) <;> norm_num [denitRate]
  · norm_num [denitmo, denitmoBlock, denitLayer, denitRate, clamp0]

/-- **The clamp of `Denitmo` can only add N, never remove it** — every number of layers `n` (also
fewer than nine): with any clamp engagement the profile ends with at least ΣC1 − ΔCUMDENIT; the
counter never decreases and never books more than the nitrate of the nine block entries. -/
theorem C02_denitmo_clamp_only_adds (c : List ℚ) (ft1 ft2 ft3 fm1 fm2 fm3 cum : ℚ) (n : ℕ)
    (h : DenitmoIn c ft1 ft2 ft3 fm1 fm2 fm3) :
    (c.take n).sum - ((denitmo c ft1 ft2 ft3 fm1 fm2 fm3 cum).cumdenit - cum)
      ≤ ((denitmo c ft1 ft2 ft3 fm1 fm2 fm3 cum).c.take n).sum ∧
    cum ≤ (denitmo c ft1 ft2 ft3 fm1 fm2 fm3 cum).cumdenit ∧
    (denitmo c ft1 ft2 ft3 fm1 fm2 fm3 cum).cumdenit - cum ≤ (c.take 9).sum := by
  obtain ⟨_, hd, hm, hle, hge, _, _, hshort, _⟩ := denitmo_spec' h cum
  refine ⟨?_, hm, hle⟩
  by_cases hn : n < 9
  · exact hshort n hn
  · obtain ⟨k, rfl⟩ : ∃ k, n = 9 + k := ⟨n - 9, by omega⟩
    have := take_sum_shift c _ hd k
    linarith

/-- **Removal per layer never exceeds the nitrate present**: every block layer ends between 0 and its
old content (when the clamp engages the removal is exactly the content), the layers below 90 cm are
untouched and the array keeps its length. -/
theorem C02_denitmo_removal_le_present (c : List ℚ) (ft1 ft2 ft3 fm1 fm2 fm3 cum : ℚ)
    (h : DenitmoIn c ft1 ft2 ft3 fm1 fm2 fm3) :
    (∀ i, i < 9 → 0 ≤ (denitmo c ft1 ft2 ft3 fm1 fm2 fm3 cum).c.getD i 0 ∧
      (denitmo c ft1 ft2 ft3 fm1 fm2 fm3 cum).c.getD i 0 ≤ c.getD i 0) ∧
    (denitmo c ft1 ft2 ft3 fm1 fm2 fm3 cum).c.drop 9 = c.drop 9 ∧
    (denitmo c ft1 ft2 ft3 fm1 fm2 fm3 cum).c.length = c.length := by
  obtain ⟨hl, hd, _, _, _, _, hb, _, _⟩ := denitmo_spec' h cum
  exact ⟨hb, hd, hl⟩

/-- **In the blocks 0-30 and 30-60 cm the clamp is dead code** (as in `Denitr`: 4.242·N ≤ N² + 74):
the six upper layers lose exactly the two rates booked for them, whatever the state. Only the
block 60-90 cm, whose shares of the second and third layer are exchanged, can clamp. -/
theorem C02_denitmo_upper_blocks_exact (c : List ℚ) (ft1 ft2 ft3 fm1 fm2 fm3 cum : ℚ)
    (h : DenitmoIn c ft1 ft2 ft3 fm1 fm2 fm3) :
    ((denitmo c ft1 ft2 ft3 fm1 fm2 fm3 cum).c.take 6).sum = (c.take 6).sum -
      ((denitmoBlock false (c.getD 0 0) (c.getD 1 0) (c.getD 2 0) ft1 fm1).2 +
       (denitmoBlock false (c.getD 3 0) (c.getD 4 0) (c.getD 5 0) ft2 fm2).2) :=
  (denitmo_spec' h cum).2.2.2.2.2.2.2.2

/-- The exchanged shares of layers 8 and 9 (denit.go:120-121) do engage the clamp: nitrate 10 in
layer 8, none in layer 9 — layer 9 is charged layer 8's share and clamped at 0, layer 8 is charged
layer 9's share (nothing): the counter books a positive amount, the profile loses nothing. (With
the shares in place the same state loses exactly what is booked.) -/
theorem C02_denitmo_swapped_shares_engage_clamp :
    ∃ c : List ℚ, DenitmoIn c 1 1 1 1 1 1 ∧
      (denitmo c 1 1 1 1 1 1 0).c = c ∧ 0 < (denitmo c 1 1 1 1 1 1 0).cumdenit ∧
      ¬ (∀ p ∈ denitmoPre c 1 1 1 1 1 1, 0 ≤ p) ∧
      ((denitmoBlock false 0 10 0 1 1).1).sum = 10 - (denitmoBlock false 0 10 0 1 1).2 := by
  refine ⟨[0, 0, 0, 0, 0, 0, 0, 10, 0, 5], ⟨by simp, by simp, by norm_num, by norm_num, by norm_num, by norm_num,
    by norm_num, by norm_num⟩, ?_, ?_, ?_, ?_⟩
  · norm_num [denitmo, denitmoBlock, denitLayer, denitRate, clamp0]
  · norm_num [denitmo, denitmoBlock, denitRate]
  · intro hp
    have := hp (0 - denitRate 4242 (0 + 10 + 0) 1 1 * (10 / (0 + 10 + 0))) (by simp [denitmoPre, denitmoBlockPre])
    norm_num [denitRate] at this
  · norm_num [denitmoBlock, denitLayer, denitRate, clamp0]

/-- a ten-layer peat profile -/
def peatC1 : List ℚ := [12, 8, 5, 3, 2, 2, 1, 2, 3, 7]

-- the hypotheses are satisfiable, with no clamp engaged
example : DenitmoIn peatC1 (1 / 2) (3 / 4) 1 (1 / 2) (1 / 2) (1 / 3) ∧
    ∀ p ∈ denitmoPre peatC1 (1 / 2) (3 / 4) 1 (1 / 2) (1 / 2) (1 / 3), 0 ≤ p := by
  refine ⟨⟨by simp [peatC1], by simp [peatC1], by norm_num, by norm_num, by norm_num, by norm_num, by norm_num, by norm_num⟩, ?_⟩
  intro p hp
  simp only [peatC1, denitmoPre, denitmoBlockPre, List.getD_cons_zero, List.getD_cons_succ, List.mem_append, List.mem_cons,
    List.mem_nil_iff, or_false] at hp
  rcases hp with ((rfl | rfl | rfl) | (rfl | rfl | rfl)) | (rfl | rfl | rfl) <;> norm_num [denitRate]

/-! ### non-vacuity of the nmove theorems: a well-formed three-layer state -/

def exampleIn : In ℚ :=
  { dz := 10, wdt := 1 / 2, dv := 49 / 10, first := true, fluss0 := 1 / 5, q := [1 / 20, -1 / 50, -1 / 100], qdrain := 0,
    draidep := 2, outn := 3, wg := [3 / 10, 1 / 4, 1 / 5, 1 / 5], w := [3 / 10, 3 / 10, 3 / 10, 3 / 10],
    d := [1 / 2, 1 / 2, 1 / 2], c1 := [20, 10, 5], pe := [1, 0, 0], dn := [1 / 5, 1 / 10, 0], stab := -3 / 2,
    inSeason := true, afterSow := true, schnorr := 0, pesum := 0, aufnasum := 0, outsum := 0, nleag := 0, drainloss := 0 }

example : WF exampleIn 3 := by constructor <;> simp [exampleIn]


/-- a state in which no clamp engages (hypotheses of `C02_nmove_balance` are satisfiable) -/
def calmIn : In ℚ :=
  { dz := 10, wdt := 1, dv := 0, first := false, fluss0 := 0, q := [0, 0], qdrain := 0, draidep := 0, outn := 2,
    wg := [1 / 1000, 1 / 1000, 1 / 1000], w := [1, 1, 1], d := [0, 0], c1 := [3, 1], pe := [0, 0], dn := [0, 0],
    stab := -3 / 2, inSeason := false, afterSow := false, schnorr := 0, pesum := 0, aufnasum := 0, outsum := 0,
    nleag := 0, drainloss := 0 }

example : WF calmIn 2 ∧ NoClamp calmIn := by
  refine ⟨by constructor <;> simp [calmIn], ?_⟩
  have hck : (step calmIn).ck = [3, 1] := by
    simp [step, calmIn, phaseUptake, carrOf, zipWith3, conc, clamp0, q1Of, dbGo, poreV, dbCoef, absG, dispGo, konvGo,
      konvLayer, newC]
    norm_num
  constructor
  · intro h; simp [calmIn] at h
  · simp [calmIn, phaseUptake, AllTriples]; norm_num
  · rw [hck]; simp [calmIn, AllPairs]

/-- positive water contents (hypothesis of `C02_nmove_clamp_only_adds`) -/
example : AllTriples (fun _ _ w => (0 : ℚ) < w) ((phaseUptake calmIn).map (·.1)) calmIn.dn calmIn.wg := by
  simp [calmIn, phaseUptake, AllTriples]

/-- the hypotheses of `C02_nitro_day_balance` are satisfiable: a day of two sub-steps on `calmIn` -/
example : DayOk 2 (step { calmIn with first := true }) [calmIn] := by
  have hc1 : (step { calmIn with first := true }).c1 = [3, 1] := by
    simp [step, calmIn, phaseUptake, uptake, clampPe, takeUp, carrOf, zipWith3, conc, clamp0, q1Of, dbGo, poreV, dbCoef,
      absG, dispGo, konvGo, konvLayer, newC]
    norm_num
  have hpe : (step { calmIn with first := true }).pe = [0, 0] := by
    simp [step, calmIn, phaseUptake, uptake, clampPe]
    norm_num
  generalize hs : step { calmIn with first := true } = o at hc1 hpe
  have hck : (step (feed calmIn o)).ck = [3, 1] := by
    simp [step, feed, hc1, hpe, calmIn, phaseUptake, carrOf, zipWith3, conc, clamp0, q1Of, dbGo, poreV, dbCoef, absG, dispGo,
      konvGo, konvLayer, newC]
    norm_num
  refine ⟨?_, ?_, ?_, ?_, trivial⟩
  · constructor <;> simp [feed, hc1, hpe, calmIn]
  · simp [feed, calmIn]
  · simp [feed, calmIn]
  · constructor
    · intro h; simp [feed] at h
    · simp [feed, hc1, hpe, calmIn, phaseUptake, AllTriples]; norm_num
    · rw [hck]; simp [feed, calmIn, AllPairs]

end Hermes.Nitro
