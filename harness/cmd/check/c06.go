package main

import (
	"encoding/json"
	"fmt"
	"math"
	"os"

	"github.com/zalf-rpm/Hermes2Go/hermes"
	"verifharness/vh"
)

func init() { register("C06", checkC06) }

// dayCase: one simulated day at kernel level — Evatra, the sub-step selection of run.go:494-524 /
// 576-581 (copied here; the whole-run stage observes the real one) and STEPS calls of Water.
type dayCase struct {
	Ev    evCase    `json:"evatra_state"`
	Caps  []float64 `json:"caps"`
	Drain int       `json:"draidep"`
	Fak   float64   `json:"draifak"`
	Steps int       `json:"sub_steps"`
	// Directed: drawn from the region excluded by the hypothesis of C06_lower_bound_day_partial
	Directed bool `json:"directed"`
}

func genDayCase(r *vh.Rng) dayCase {
	d := dayCase{Ev: genEvCase(r)}
	ec := &d.Ev
	// valid soil for C06: 0 < WMIN < WNOR <= W <= PORGES, start within [WMIN/3, PORGES]
	for i := 0; i < ec.N; i++ {
		if ec.Wg[i] < ec.Wmin[i]/3 {
			ec.Wg[i] = ec.Wmin[i] / 3
		}
	}
	switch r.Intn(4) {
	case 0: // heavy rain: many sub-steps
		ec.Regen = vh.RoundTo(r.Uni(2, 40), 1)
	case 1: // evaporative demand above 5 mm: two sub-steps on an evaporation day
		ec.Regen = 0
		ec.Fkc, ec.Fkb, ec.Fk = 2.5, 2.5, 1
		ec.Temp, ec.Tmin, ec.Tmax = 30, 22, 38
		ec.Rad, ec.Rh, ec.Wind, ec.Verd, ec.Etnull = 15, 25, 6, 28, 11
		ec.Wg[0] = ec.W[0]
		if r.Chance(0.5) {
			ec.Lai = vh.RoundTo(r.Uni(0, 1.5), 2)
		}
	}
	if ec.N >= 3 && r.Chance(0.12) {
		// the region the day-level lower-bound theorem excludes: a layer that starts above field capacity
		// (after a groundwater drop or a measurement overwrite) carries all the roots, the layers above
		// absorb a heavy rain in many sub-steps
		d.Directed = true
		j := r.Range(2, ec.N-1) // 0-based index of the rooted layer
		stone := r.Uni(0.6, 0.95)
		for i := 0; i < ec.N; i++ {
			ec.Wudich[i] = 0
		}
		for i := 0; i < j; i++ {
			ec.W[i], ec.Wmin[i], ec.Wnor[i], ec.Porges[i] = 0.35, 0.12, 0.35, 0.45
			ec.Wg[i] = vh.RoundTo(r.Uni(0.13, 0.2), 3)
		}
		ec.W[0], ec.Wmin[0], ec.Wnor[0], ec.Porges[0] = 0.012, 0.006, 0.012, 0.02
		ec.Wg[0] = 0.008
		ec.W[j] = vh.RoundTo(0.25*(1-stone), 4)
		ec.Wmin[j] = vh.RoundTo(0.15*(1-stone), 4)
		ec.Wnor[j] = ec.W[j]
		ec.Porges[j] = vh.RoundTo(0.5*(1-stone), 4)
		ec.Wg[j] = ec.Porges[j]
		ec.Wudich[j] = 3
		ec.Wurz = j + 1
		ec.Grw = 99
		ec.Crop, ec.BareWhy, ec.Intw = true, "", 3
		ec.Lai = 6
		ec.Lukrit = 0
		ec.Fkc, ec.Fkb, ec.Fk = 2.5, 2.5, 1
		ec.Temp, ec.Tmin, ec.Tmax = 28, 20, 36
		ec.Rad, ec.Rh, ec.Wind, ec.Verd, ec.Etnull = 14, 30, 5, 28, 11
		ec.Regen = vh.RoundTo(r.Uni(1, 4), 1)
	}
	base := r.Uni(0.05, 0.6)
	for i := 0; i < 21; i++ {
		d.Caps = append(d.Caps, vh.RoundTo(base*math.Exp(-float64(i)*r.Uni(0.2, 0.4)), 4))
	}
	if r.Chance(0.3) {
		d.Drain = r.Range(1, ec.N)
		d.Fak = vh.RoundTo(r.F(), 2)
	}
	return d
}

type dayOut struct {
	Wg     []float64
	CapInc []float64
	Fluss0 float64
	Steps  int
	Tp     []float64
}

func runDayImpl(d *dayCase) (o dayOut, panicked string) {
	defer func() {
		if r := recover(); r != nil {
			panicked = fmt.Sprint(r)
		}
	}()
	ec := &d.Ev
	g, l := buildEvState(ec, 1)
	for i := 0; i < 21; i++ {
		g.CAPS[i] = d.Caps[i]
	}
	g.DRAIDEP, g.DRAIFAK = d.Drain, d.Fak
	hermes.Evatra(l, g, nil, evZeit)
	// sub-step selection (run.go:494-524, 576-581)
	zsr := 1.0
	pri := math.Abs(g.FLUSS0 * g.DZ.Num)
	f := 1.0
	if pri <= 5 {
		f = 1
	} else if pri <= 10 {
		f = 0.5
	} else if pri <= 15 {
		f = 0.25
	} else {
		f = 0.125
	}
	zsr = 1 / f
	fscs := 0.0
	reg := g.REGEN[g.TAG.Index]
	for i := 0; i < g.N; i++ {
		fscs += (g.W[i] - g.WG[0][i]) * g.DZ.Num
		if reg-fscs > g.W[i]*g.DZ.Num/3 {
			zsr = math.Max(zsr, (reg-fscs)/(g.W[i]*g.DZ.Num/3))
		}
	}
	wdt := 1 / math.Ceil(zsr)
	steps := 1.0
	if wdt < g.DT.Num {
		steps = math.Round(g.DT.Num / wdt)
	} else {
		steps, wdt = 1, 1
	}
	o.CapInc = make([]float64, g.N)
	for s := 1; s <= int(steps); s++ {
		hermes.Water(wdt, s, evZeit, g, l)
		caplay := 0
		for i := g.N; i >= 1; i-- {
			if l.NFK[i-1] < 0.7 {
				caplay = i
				break
			}
		}
		if caplay > 0 {
			gwdist := g.GRW + 1 - float64(caplay)
			if gwdist < 21 {
				if gwdist < 0 {
					gwdist = 0
				}
				if gwdist > .9 {
					o.CapInc[caplay-1] += g.CAPS[int(math.Round(math.Max(gwdist, 1)))-1] * wdt
				}
			}
		}
	}
	o.Steps = int(steps)
	o.Fluss0 = g.FLUSS0
	o.Wg = append(o.Wg, g.WG[1][:g.N]...)
	o.Tp = append(o.Tp, g.TP[:g.N]...)
	return
}

func fluxKind(f float64) string {
	if f < 0 {
		return "evaporation"
	}
	if f == 0 {
		return "zero-flux"
	}
	return "infiltration"
}

// dayKernelStage: the C06 bounds on whole days at kernel level (Evatra + STEPS × Water on the real code).
func dayKernelStage(c *vh.Ctx, n int) {
	for k := 0; k < n; k++ {
		d := genDayCase(c.Rng)
		checkDayCase(c, &d, k)
	}
}

func checkDayCase(c *vh.Ctx, dp *dayCase, k int) {
	{
		d := *dp
		o, pan := runDayImpl(&d)
		c.Eval()
		if pan != "" {
			c.Violate("search", "day-kernel:panic", "Evatra/Water panicked: "+pan, d)
			return
		}
		d.Steps = o.Steps
		kind := "one-step"
		if o.Steps > 1 {
			kind = "multi-step"
		}
		c.Count("day:" + fluxKind(o.Fluss0) + ":" + kind)
		if d.Directed {
			c.Count("day:directed-excluded-region:" + kind)
		}
		c.Nontrivial(fmt.Sprintf("d%d", k))
		for i := 0; i < d.Ev.N; i++ {
			x := o.Wg[i]
			if math.IsNaN(x) || math.IsInf(x, 0) {
				c.Violate("search", "day-kernel:wg-nonfinite", fmt.Sprintf("water content of layer %d is %v after the day", i+1, x), d)
				continue
			}
			lim := d.Ev.Wmin[i] / 3
			if d.Ev.Wg[i] >= lim && x < lim-1e-9*(1+lim) {
				start := "started-within-capacity"
				if d.Ev.Wg[i] > d.Ev.W[i] {
					start = "started-above-field-capacity"
				}
				c.Violate("search", "day-kernel:wg-below-dryness-limit:"+fluxKind(o.Fluss0)+":"+kind+":"+start,
					fmt.Sprintf("layer %d ends the day at %.9g, below a third of the wilting point (%.9g), although it started at %.9g (%d sub-steps, FLUSS0 %.4g, uptake %.4g)", i+1, x, lim, d.Ev.Wg[i], o.Steps, o.Fluss0, o.Tp[i]), d)
			}
			if up := d.Ev.W[i] + o.CapInc[i]; x > up+1e-9*(1+up) {
				c.Violate("search", "day-kernel:wg-above-capacity",
					fmt.Sprintf("layer %d ends the day at %.9g above field capacity %.9g + capillary increment %.9g", i+1, x, d.Ev.W[i], o.CapInc[i]), d)
			}
		}
	}
}

// replayDayCase: a replay file whose payload is a day-kernel state is re-evaluated alone.
func replayDayCase(c *vh.Ctx) bool {
	f := os.Getenv("VERIF_REPLAY")
	if f == "" {
		return false
	}
	b, err := os.ReadFile(f)
	if err != nil {
		return false
	}
	var doc struct {
		Replay json.RawMessage `json:"replay"`
	}
	if json.Unmarshal(b, &doc) != nil {
		return false
	}
	var d dayCase
	if json.Unmarshal(doc.Replay, &d) != nil || d.Ev.N == 0 || len(d.Caps) != 21 {
		return false
	}
	checkDayCase(c, &d, 0)
	c.Sample(d)
	c.Note("replayed one day-kernel state from %s", f)
	return true
}

func checkC06(c *vh.Ctx) {
	if replayDayCase(c) {
		return
	}
	if _, _, ok := etReplay(); ok {
		etWholeRuns(c, 1, false, true)
		return
	}
	c.Res.Rule = "kernel: generated states of hermes.Water (as C01) with the finiteness predicate; whole days at kernel level (Evatra + sub-step loop, 1-120 sub-steps) with the per-layer bounds; non-trivial = distinct generated state. whole runs: every layer every day through the probes, every state variable and every daily record finite; see extra"
	waterKernelStage(c, c.N(3000, 40000), false, true)
	dayKernelStage(c, c.N(6000, 150000))
	etWholeRuns(c, c.N(60, 600), false, true)
}
