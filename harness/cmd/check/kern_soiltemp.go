package main

import (
	"fmt"
	"math"
	"strings"

	"github.com/zalf-rpm/Hermes2Go/hermes"
	"verifharness/vh"
)

// soilTempCase: inputs of one call of hermes.Soiltemp (see lean/HermesModel/SoilTemp.lean, DayIn).
// The transcendental values (ExpNegLai, Sq, E) are computed here with Go's math package and passed
// to the model, so that everything after them is compared exactly.
type soilTempCase struct {
	N     int       `json:"N"`
	Lai   float64   `json:"lai"`
	Rad   float64   `json:"rad"` // g.RAD[TAG] (PAR, MJ m-2)
	Sund  float64   `json:"sunshine_hours,omitempty"` // g.SUND[TAG]: weather without a radiation column (RAD = 0) but with sunshine hours
	Eta   float64   `json:"eta"`
	Temp  float64   `json:"temp"`
	Tmin  float64   `json:"tmin"`
	Tmax  float64   `json:"tmax"`
	Tbase float64   `json:"tbase"`
	Tsoil []float64 `json:"tsoil"` // TSOIL[0][0..N]
	Bd    []float64 `json:"bd"`
	Wg    []float64 `json:"wg"`
	Hum   []float64 `json:"humus"`
	Dz    int       `json:"dz"`
	Class string    `json:"density_class"` // class-density | measured-0.567-2.3 | measured-below-0.567 | measured-above-2.3
	Shape string    `json:"shape"`
	// derived
	ExpNegLai float64   `json:"-"`
	Radiat    float64   `json:"radiat"`
	Sq        float64   `json:"-"`
	E         []float64 `json:"-"`
}

type soilTempOut struct {
	Surf      float64
	Td, Tsoil []float64 // [0..N]
	Cond, Cap []float64 // [0..N-1]
}

var classDensities = []float64{1.1, 1.3, 1.5, 1.7, 1.85}

// density classes of the generator. The admissible range of the theorems is the class densities
// and measured values in [1.7/3, 2.3]; below 0.567 (peat horizons, textures HN/HH*) the property text
// still applies ("all bulk densities (class or measured value)"); above 2.3 nothing is a soil and the
// results are only recorded (search beyond the admissible range).
const (
	dcClass = "class-density"
	dcMid   = "measured-0.567-2.3"
	dcLow   = "measured-below-0.567"
	dcHigh  = "measured-above-2.3"
)

func densityClassOf(bds []float64) string {
	cls := dcClass
	for _, b := range bds {
		isClass := false
		for _, c := range classDensities {
			if b == c {
				isClass = true
			}
		}
		switch {
		case 3*b < 1.7:
			return dcLow
		case b > 2.3:
			cls = dcHigh
		case !isClass && cls != dcHigh:
			cls = dcMid
		}
	}
	return cls
}

// radiatOf mirrors soiltemp.go:27-36 only to supply sqrt(0.0003*radiat) to the model; a change of
// those lines in the repo makes the model's surface value differ from the implementation's.
func radiatOf(lai, rad, eta, temp float64) (expNegLai, radiat float64) {
	expNegLai = math.Exp(-lai)
	if lai < 3 {
		scov := 1 - expNegLai
		if scov < 0 {
			scov = 0
		}
		radiat = rad*200*(1-scov) - (eta * 10 * (2.498 - 0.00242*temp) * 10)
	} else {
		radiat = 0
	}
	return
}

func (c *soilTempCase) derive() {
	c.ExpNegLai, c.Radiat = radiatOf(c.Lai, c.Rad, c.Eta, c.Temp)
	c.Sq = math.Sqrt(0.0003 * c.Radiat)
	c.E = make([]float64, c.N)
	for i := 0; i < c.N; i++ {
		c.E[i] = math.Exp((-50) * math.Pow((c.Wg[i]/c.Bd[i]), 1.5))
	}
	c.Class = densityClassOf(c.Bd)
}

// genSoilTempCase draws a state. mode: 0 class densities, 1 measured admissible, 2 measured low
// (peat), 3 measured high (beyond any soil).
func genSoilTempCase(r *vh.Rng, mode int) soilTempCase {
	n := r.Range(1, 20)
	if r.Chance(0.2) {
		n = []int{1, 2, 3, 20}[r.Intn(4)]
	}
	c := soilTempCase{N: n, Dz: 10}
	// ---- weather of the day
	c.Tmin = vh.RoundTo(r.Uni(-35, 40), 1)
	c.Tmax = vh.RoundTo(math.Min(45, c.Tmin+r.Uni(0, 22)), 1)
	if r.Chance(0.1) {
		c.Tmax = c.Tmin
	}
	c.Temp = vh.RoundTo((c.Tmin+c.Tmax)/2+r.Uni(-1, 1), 1)
	c.Tbase = vh.RoundTo(r.Uni(-5, 28), 1)
	switch r.Intn(6) {
	case 0:
		c.Lai = 0
	case 1:
		c.Lai = 3 // branch boundary: not < 3
	case 2:
		c.Lai = vh.RoundTo(r.Uni(3, 8), 2)
	default:
		c.Lai = vh.RoundTo(r.Uni(0, 3), 3)
	}
	c.Rad = vh.RoundTo(r.Uni(0, 17), 2)
	if r.Chance(0.15) {
		c.Rad = vh.RoundTo(r.Uni(16, 21), 2) // beyond 16.67 the radiation coefficient exceeds 1
	}
	c.Eta = vh.RoundTo(r.Uni(0, 0.7), 3)
	if r.Chance(0.3) {
		c.Eta = 0
	}
	if r.Chance(0.08) {
		// radiat exactly at / next to the threshold 833 (bare soil, no ET)
		c.Lai, c.Eta = 0, 0
		c.Rad = []float64{4.165, 4.17, 4.16}[r.Intn(3)]
	}
	if r.Chance(0.1) {
		// no radiation record, sunshine hours present (Soiltemp reads RAD only: the radiation term is 0)
		c.Rad = 0
		c.Sund = vh.RoundTo(r.Uni(1, 15), 1)
	}
	// ---- profile
	shape := r.Intn(5)
	c.Shape = []string{"rough", "linear", "flat", "spike", "sawtooth"}[shape]
	t0 := vh.RoundTo(r.Uni(-35, 45), 1)
	for i := 0; i <= n; i++ {
		var t float64
		switch shape {
		case 0:
			t = vh.RoundTo(r.Uni(-35, 45), 1)
		case 1:
			t = t0 - (t0-c.Tbase)/float64(n)*float64(i) // init.go:16-20
		case 2:
			t = t0
		case 3:
			t = t0
			if i == 1+r.Intn(n) {
				t = vh.RoundTo(r.Uni(-35, 45), 1)
			}
		default:
			t = t0
			if i%2 == 1 {
				t = vh.RoundTo(math.Max(-35, math.Min(45, t0+20)), 1)
			}
		}
		c.Tsoil = append(c.Tsoil, t)
	}
	if shape == 2 && r.Chance(0.5) {
		// completely constant state: must be reproduced exactly
		c.Tmin, c.Tmax, c.Tbase, c.Temp = t0, t0, t0, t0
	}
	// ---- layers, horizon-wise
	i := 0
	for i < n {
		h := 1 + r.Intn(n-i)
		var bd float64
		switch mode {
		case 0:
			bd = classDensities[r.Intn(5)]
		case 1:
			bd = vh.RoundTo(r.Uni(0.57, 2.3), 2)
			if r.Chance(0.2) {
				bd = []float64{0.57, 2.3, 0.6, 2.2, 2.29}[r.Intn(5)]
			}
		case 2:
			bd = vh.RoundTo(r.Uni(0.1, 0.56), 2)
			if r.Chance(0.5) {
				bd = classDensities[r.Intn(5)] // mineral horizons above/below the peat
			}
		default:
			bd = vh.RoundTo(r.Uni(2.31, 2.6), 2)
			if r.Chance(0.5) {
				bd = classDensities[r.Intn(5)]
			}
		}
		corg := r.Uni(0, 6)
		if r.Chance(0.1) {
			corg = r.Uni(6, 15)
		}
		if bd < 0.57 {
			corg = r.Uni(15, 50)
		}
		if r.Chance(0.1) {
			corg = 0
		}
		hum := vh.RoundTo(corg, 2) * 1.72 / 100 // soil.go:624
		wmin := vh.RoundTo(r.Uni(0.01, 0.35), 3)
		sat := vh.RoundTo(wmin+r.Uni(0.05, 0.3), 3)
		if bd < 0.57 {
			sat = vh.RoundTo(r.Uni(0.6, 0.95), 3)
		}
		for k := 0; k < h; k++ {
			var wg float64
			switch r.Intn(6) {
			case 0:
				wg = wmin / 3 // dryness limit (water.go)
			case 1:
				wg = sat
			default:
				wg = vh.RoundTo(r.Uni(wmin/3, sat), 4)
			}
			c.Bd = append(c.Bd, bd)
			c.Hum = append(c.Hum, hum)
			c.Wg = append(c.Wg, wg)
		}
		i += h
	}
	// make sure a low/high case really contains such a layer among the ones the scheme uses
	if mode == 2 && n >= 2 && densityClassOf(c.Bd[:n-1]) != dcLow {
		c.Bd[r.Intn(n-1)] = vh.RoundTo(r.Uni(0.1, 0.56), 2)
	}
	if mode == 3 && n >= 2 && densityClassOf(c.Bd[:n-1]) != dcHigh {
		c.Bd[r.Intn(n-1)] = vh.RoundTo(r.Uni(2.31, 2.6), 2)
	}
	c.derive()
	return c
}

func (c *soilTempCase) line() string {
	var sb strings.Builder
	fmt.Fprintf(&sb, "soiltemp.day %d %s", c.N,
		vh.FVals(c.Lai, c.ExpNegLai, c.Rad, c.Eta, c.Temp, c.Tmin, c.Tmax, c.Sq, c.Tbase, 1, float64(c.Dz)))
	for _, l := range [][]float64{c.Tsoil, c.Bd, c.Wg, c.Hum, c.E} {
		sb.WriteByte(' ')
		sb.WriteString(vh.FVals(l...))
	}
	return sb.String()
}

// newSoilTempState builds the GlobalVarsMain a Soiltemp call reads; everything the routine must not
// read (the "new" array, TD, TDSUM, HEATCOND, HEATCAP) is poisoned.
func newSoilTempState(c *soilTempCase) *hermes.GlobalVarsMain {
	g := hermes.NewGlobalVarsMain()
	g.N = c.N
	g.DZ = hermes.NewDualType(c.Dz, 0)
	g.DT = hermes.NewDualType(1, 0)
	g.TAG = hermes.NewDualType(200, 1)
	idx := g.TAG.Index
	g.LAI = c.Lai
	g.ETA = c.Eta
	g.RAD[idx] = c.Rad
	g.SUND[idx] = c.Sund
	g.LAT = 52.5
	g.TEMP[idx] = c.Temp
	g.TMIN[idx] = c.Tmin
	g.TMAX[idx] = c.Tmax
	g.TBASE = c.Tbase
	for i := 0; i <= c.N; i++ {
		g.TSOIL[0][i] = c.Tsoil[i]
		g.TSOIL[1][i] = 777
		g.TD[i] = -555
	}
	for i := 0; i < c.N; i++ {
		g.BD[i] = c.Bd[i]
		g.WG[0][i] = c.Wg[i]
		g.WG[1][i] = -7
		g.HUMUS[i] = c.Hum[i]
		g.HEATCOND[i] = 1e30
		g.HEATCAP[i] = 1e-30
		if i < len(g.TDSUM) {
			g.TDSUM[i] = 1e6
		}
	}
	return &g
}

func readSoilTempOut(g *hermes.GlobalVarsMain, n int) soilTempOut {
	var o soilTempOut
	o.Surf = g.TSOIL[1][0]
	o.Td = append(o.Td, g.TD[:n+1]...)
	o.Tsoil = append(o.Tsoil, g.TSOIL[0][:n+1]...)
	o.Cond = append(o.Cond, g.HEATCOND[:n]...)
	o.Cap = append(o.Cap, g.HEATCAP[:n]...)
	return o
}

// runSoilTempImpl calls the real hermes.Soiltemp once.
func runSoilTempImpl(c *soilTempCase) (o soilTempOut, g *hermes.GlobalVarsMain, panicked string) {
	defer func() {
		if r := recover(); r != nil {
			panicked = fmt.Sprint(r)
		}
	}()
	g = newSoilTempState(c)
	hermes.Soiltemp(g)
	return readSoilTempOut(g, c.N), g, ""
}

// line: radiat is not observable on the implementation (a local); the harness value is sent on both
// sides' first slot only on the model side, so the implementation line starts with the model-independent
// recomputation — a difference in the formula shows up in `surf`.
func (o *soilTempOut) line(c *soilTempCase) string {
	all := []float64{c.Radiat, o.Surf}
	all = append(all, o.Td...)
	all = append(all, o.Tsoil...)
	all = append(all, o.Cond...)
	all = append(all, o.Cap...)
	return vh.FVals(all...)
}

// diffusion number of layer i as the scheme uses it (soiltemp.go:53-54)
func diffNumOf(cond, cap float64, dz int) float64 {
	return cond / cap * 1 / 24 / math.Pow(float64(dz), 2)
}

func minMax(xs ...float64) (lo, hi float64) {
	lo, hi = math.Inf(1), math.Inf(-1)
	for _, x := range xs {
		if x < lo {
			lo = x
		}
		if x > hi {
			hi = x
		}
	}
	return
}
