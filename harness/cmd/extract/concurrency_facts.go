package main

// Concurrency facts (C03 / C11), regenerated from the repo's source on every check run:
//
//  * every package-level `var` of package hermes, and every write to one outside `init` and outside
//    its declaration (assignment, ++/--, delete(), address taken);
//  * every access to `FilePool.list` with whether it lies inside the `mux.Lock()` … `Unlock()` span;
//  * the allocation sites of the per-run state in `(*HermesSession).Run`;
//  * every `range` over a map, with whether the loop body writes output;
//  * every `log.Fatal*` / `panic` call site with its enclosing function, and every `fmt.Errorf` /
//    `errors.New` site (the returned-error classes);
//  * the shape of the dispatcher loop of src/hermes2go/hermes_main.go (counter updates, go statement,
//    selects);
//  * every assignment to g.ENDE and every change of the time step g.DT (the bound of the day loop).
//
// They are written to lean/HermesModel/Generated/ConcurrencyFacts.lean (consumed by the model driver,
// op dispatch.facts) and to facts.json, and compared by the harness with the hand-written
// expectation of harness/cmd/check/c03_expect.go: they discharge the hypothesis
// `runs_share_only_pool` of the dispatcher theorems, which Lean cannot prove.

import (
	"bytes"
	"fmt"
	"go/ast"
	"go/token"
	"os"
	"path/filepath"
	"sort"
	"strconv"
	"strings"
)

func init() { registerExtractor(extractConcurrencyFacts) }

type cfFile struct {
	name  string
	f     *ast.File
	verif bool // file carries the build constraint `verif`
}

func exprString(e ast.Expr) string {
	switch x := e.(type) {
	case *ast.Ident:
		return x.Name
	case *ast.SelectorExpr:
		return exprString(x.X) + "." + x.Sel.Name
	case *ast.StarExpr:
		return "*" + exprString(x.X)
	case *ast.ParenExpr:
		return exprString(x.X)
	case *ast.IndexExpr:
		return exprString(x.X) + "[]"
	case *ast.CallExpr:
		return exprString(x.Fun) + "()"
	case *ast.UnaryExpr:
		return x.Op.String() + exprString(x.X)
	case *ast.ArrayType:
		return "[]" + exprString(x.Elt)
	case *ast.MapType:
		return "map"
	case *ast.BasicLit:
		return x.Value
	case *ast.BinaryExpr:
		return exprString(x.X) + x.Op.String() + exprString(x.Y)
	}
	return "?"
}

// rootIdent strips selectors, indices, stars and parentheses.
func rootIdent(e ast.Expr) *ast.Ident {
	for {
		switch x := e.(type) {
		case *ast.Ident:
			return x
		case *ast.SelectorExpr:
			e = x.X
		case *ast.IndexExpr:
			e = x.X
		case *ast.StarExpr:
			e = x.X
		case *ast.ParenExpr:
			e = x.X
		case *ast.SliceExpr:
			e = x.X
		default:
			return nil
		}
	}
}

func leanStrList(xs []string) string {
	parts := make([]string, len(xs))
	for i, x := range xs {
		parts[i] = strconv.Quote(x)
	}
	return "[" + strings.Join(parts, ", ") + "]"
}

func extractConcurrencyFacts(repo, outDir string, fc *facts) {
	dir := filepath.Join(repo, "hermes")
	entries, err := os.ReadDir(dir)
	must(err == nil, "directory hermes")
	var files []cfFile
	for _, e := range entries {
		n := e.Name()
		if e.IsDir() || !strings.HasSuffix(n, ".go") || strings.HasSuffix(n, "_test.go") {
			continue
		}
		src, err := os.ReadFile(filepath.Join(dir, n))
		must(err == nil, n)
		head := string(src)
		if i := strings.Index(head, "\npackage "); i >= 0 {
			head = head[:i]
		}
		if strings.Contains(head, "//go:build !verif") {
			continue // not part of the verification build
		}
		files = append(files, cfFile{name: n, f: parseFile(filepath.Join(dir, n)), verif: strings.Contains(head, "//go:build verif")})
	}

	// ---------------------------------------------------------------- package-level variables
	pkgVars := map[string]string{}     // name -> "file:name:kind"
	pkgVarSpec := map[*ast.ValueSpec]bool{}
	mapFields := map[string]bool{} // struct field names of map type
	var varList []string
	for _, cf := range files {
		for _, d := range cf.f.Decls {
			gd, ok := d.(*ast.GenDecl)
			if !ok {
				continue
			}
			if gd.Tok == token.VAR {
				for _, sp := range gd.Specs {
					vs := sp.(*ast.ValueSpec)
					pkgVarSpec[vs] = true
					for i, nm := range vs.Names {
						kind := "other"
						if vs.Type != nil {
							if _, ok := vs.Type.(*ast.MapType); ok {
								kind = "map"
							} else {
								kind = exprString(vs.Type)
							}
						} else if i < len(vs.Values) {
							if cl, ok := vs.Values[i].(*ast.CompositeLit); ok {
								if _, ok := cl.Type.(*ast.MapType); ok {
									kind = "map"
								} else {
									kind = exprString(cl.Type)
								}
							} else {
								kind = exprString(vs.Values[i])
							}
						}
						tag := ""
						if cf.verif {
							tag = "verif:"
						}
						pkgVars[nm.Name] = kind
						varList = append(varList, fmt.Sprintf("%s%s:%s:%s", tag, cf.name, nm.Name, kind))
					}
				}
			}
			if gd.Tok == token.TYPE {
				for _, sp := range gd.Specs {
					ts := sp.(*ast.TypeSpec)
					if st, ok := ts.Type.(*ast.StructType); ok {
						for _, fl := range st.Fields.List {
							if _, ok := fl.Type.(*ast.MapType); ok {
								for _, nm := range fl.Names {
									mapFields[nm.Name] = true
								}
							}
						}
					}
				}
			}
		}
	}
	sort.Strings(varList)

	isPkgVar := func(id *ast.Ident) bool {
		if id == nil || id.Name == "_" {
			return false
		}
		if id.Obj != nil {
			if vs, ok := id.Obj.Decl.(*ast.ValueSpec); ok {
				return pkgVarSpec[vs]
			}
			return false // resolved to a local declaration
		}
		_, ok := pkgVars[id.Name]
		return ok
	}

	// ---------------------------------------------------------------- walks over function bodies
	writes, poolAcc, mapRanges, mapRangesOut, fatal, errSites, runAlloc := []string{}, []string{}, []string{}, []string{}, []string{}, []string{}, []string{}
	outputCall := map[string]bool{"Write": true, "WriteString": true, "WriteBytes": true, "WriteRune": true, "WriteError": true,
		"Fprintf": true, "Fprint": true, "Fprintln": true, "Printf": true, "Println": true, "Print": true, "WriteLine": true, "WriteHeader": true}
	endeSites := []string{} // assignments to g.ENDE and changes of the time step g.DT (day loop bound, C11 run_loop_terminates)
	ordinal := map[string]int{}
	site := func(base string) string {
		ordinal[base]++
		return fmt.Sprintf("%s#%d", base, ordinal[base])
	}
	for _, cf := range files {
		for _, d := range cf.f.Decls {
			fd, ok := d.(*ast.FuncDecl)
			if !ok || fd.Body == nil {
				continue
			}
			fname := fd.Name.Name
			if fd.Recv != nil && len(fd.Recv.List) > 0 {
				fname = strings.TrimPrefix(exprString(fd.Recv.List[0].Type), "*") + "." + fname
			}
			where := cf.name + ":" + fname
			isInit := fd.Recv == nil && fd.Name.Name == "init"

			// local variables of map type (declared or made in this function)
			localMaps := map[string]bool{}
			ast.Inspect(fd.Body, func(n ast.Node) bool {
				switch x := n.(type) {
				case *ast.AssignStmt:
					for i, r := range x.Rhs {
						if i >= len(x.Lhs) {
							break
						}
						id, ok := x.Lhs[i].(*ast.Ident)
						if !ok {
							continue
						}
						switch v := r.(type) {
						case *ast.CallExpr:
							if fn, ok := v.Fun.(*ast.Ident); ok && fn.Name == "make" && len(v.Args) > 0 {
								if _, ok := v.Args[0].(*ast.MapType); ok {
									localMaps[id.Name] = true
								}
							}
						case *ast.CompositeLit:
							if _, ok := v.Type.(*ast.MapType); ok {
								localMaps[id.Name] = true
							}
						}
					}
				case *ast.ValueSpec:
					if _, ok := x.Type.(*ast.MapType); ok {
						for _, nm := range x.Names {
							localMaps[nm.Name] = true
						}
					}
				}
				return true
			})
			if fd.Type.Params != nil {
				for _, p := range fd.Type.Params.List {
					if _, ok := p.Type.(*ast.MapType); ok {
						for _, nm := range p.Names {
							localMaps[nm.Name] = true
						}
					}
				}
			}

			// lock spans for FilePool.list
			var lockPos, unlockPos []token.Pos
			ast.Inspect(fd.Body, func(n ast.Node) bool {
				switch x := n.(type) {
				case *ast.DeferStmt:
					return false // a deferred Unlock keeps the span open until the function returns
				case *ast.CallExpr:
					s := exprString(x.Fun)
					if strings.HasSuffix(s, "mux.Lock") {
						lockPos = append(lockPos, x.Pos())
					}
					if strings.HasSuffix(s, "mux.Unlock") {
						unlockPos = append(unlockPos, x.Pos())
					}
				}
				return true
			})
			locked := func(p token.Pos) bool {
				var last token.Pos = token.NoPos
				for _, l := range lockPos {
					if l < p && l > last {
						last = l
					}
				}
				if last == token.NoPos {
					return false
				}
				for _, u := range unlockPos {
					if u > last && u < p {
						return false
					}
				}
				return true
			}

			ast.Inspect(fd.Body, func(n ast.Node) bool {
				switch x := n.(type) {
				case *ast.AssignStmt:
					if x.Tok == token.DEFINE {
						// := declares; only flag LHS that are existing package vars when not all new (rare): skip
						return true
					}
					for i, l := range x.Lhs {
						if id := rootIdent(l); isPkgVar(id) && !isInit {
							writes = append(writes, fmt.Sprintf("%s:%s:assign", where, id.Name))
						}
						if sel, ok := l.(*ast.SelectorExpr); ok && sel.Sel.Name == "ENDE" {
							rhs := "?"
							if len(x.Rhs) == len(x.Lhs) {
								rhs = exprString(x.Rhs[i])
							} else if len(x.Rhs) == 1 {
								rhs = exprString(x.Rhs[0])
							}
							endeSites = append(endeSites, fmt.Sprintf("%s:%s%s%s", where, exprString(l), x.Tok.String(), rhs))
						}
					}
				case *ast.ExprStmt:
					if ce, ok := x.X.(*ast.CallExpr); ok {
						f := exprString(ce.Fun)
						if strings.Contains(f, ".DT.Set") || strings.Contains(f, ".DT.Add") || strings.Contains(f, ".DT.Inc") {
							arg := ""
							if len(ce.Args) > 0 {
								arg = exprString(ce.Args[0])
							}
							endeSites = append(endeSites, fmt.Sprintf("%s:%s(%s)", where, f, arg))
						}
					}
				case *ast.IncDecStmt:
					if sel, ok := x.X.(*ast.SelectorExpr); ok && sel.Sel.Name == "ENDE" {
						endeSites = append(endeSites, fmt.Sprintf("%s:%s%s", where, exprString(x.X), x.Tok.String()))
					}
					if id := rootIdent(x.X); isPkgVar(id) && !isInit {
						writes = append(writes, fmt.Sprintf("%s:%s:incdec", where, id.Name))
					}
				case *ast.UnaryExpr:
					if x.Op == token.AND {
						if id := rootIdent(x.X); isPkgVar(id) && !isInit {
							writes = append(writes, fmt.Sprintf("%s:%s:address-taken", where, id.Name))
						}
					}
				case *ast.CallExpr:
					fun := exprString(x.Fun)
					if fun == "delete" && len(x.Args) > 0 {
						if id := rootIdent(x.Args[0]); isPkgVar(id) && !isInit {
							writes = append(writes, fmt.Sprintf("%s:%s:delete", where, id.Name))
						}
					}
					if strings.HasPrefix(fun, "log.Fatal") || strings.HasPrefix(fun, "log.Panic") || fun == "panic" || fun == "os.Exit" {
						fatal = append(fatal, site(where+":"+fun))
					}
					if fun == "fmt.Errorf" || fun == "errors.New" {
						msg := "?"
						if len(x.Args) > 0 {
							if bl, ok := x.Args[0].(*ast.BasicLit); ok {
								if s, err := strconv.Unquote(bl.Value); err == nil {
									msg = s
								}
							}
						}
						errSites = append(errSites, where+":"+msg)
					}
				case *ast.SelectorExpr:
					if x.Sel.Name == "list" {
						st := "UNLOCKED"
						if locked(x.Pos()) {
							st = "locked"
						}
						poolAcc = append(poolAcc, site(fmt.Sprintf("%s:%s:%s", where, exprString(x), st)))
					}
				case *ast.RangeStmt:
					isMap := false
					desc := exprString(x.X)
					switch v := x.X.(type) {
					case *ast.Ident:
						if v.Obj == nil || isPkgVar(v) {
							if k, ok := pkgVars[v.Name]; ok && k == "map" && isPkgVar(v) {
								isMap = true
							}
						}
						if localMaps[v.Name] && !isPkgVar(v) {
							isMap = true
						}
					case *ast.SelectorExpr:
						if mapFields[v.Sel.Name] {
							isMap = true
						}
					}
					if isMap {
						out := false
						ast.Inspect(x.Body, func(m ast.Node) bool {
							switch c := m.(type) {
							case *ast.CallExpr:
								f := exprString(c.Fun)
								if i := strings.LastIndex(f, "."); i >= 0 {
									f = f[i+1:]
								}
								if outputCall[f] {
									out = true
								}
							case *ast.SendStmt:
								out = true
							}
							return true
						})
						e := fmt.Sprintf("%s:%s", where, desc)
						mapRanges = append(mapRanges, site(e))
						if out {
							mapRangesOut = append(mapRangesOut, e)
						}
					}
				}
				return true
			})

			// per-run state of Run
			if fname == "HermesSession.Run" {
				ast.Inspect(fd.Body, func(n ast.Node) bool {
					switch x := n.(type) {
					case *ast.DeclStmt:
						if gd, ok := x.Decl.(*ast.GenDecl); ok && gd.Tok == token.VAR {
							for _, sp := range gd.Specs {
								vs := sp.(*ast.ValueSpec)
								if vs.Type == nil {
									continue
								}
								t := exprString(vs.Type)
								if strings.HasSuffix(t, "SharedVars") || strings.HasSuffix(t, "OutputVars") || strings.HasPrefix(t, "*") || t == "OutputConfig" || t == "WeatherDataShared" {
									for _, nm := range vs.Names {
										runAlloc = append(runAlloc, nm.Name+":"+t)
									}
								}
							}
						}
					case *ast.AssignStmt:
						if x.Tok == token.DEFINE && len(x.Lhs) == 1 && len(x.Rhs) == 1 {
							if id, ok := x.Lhs[0].(*ast.Ident); ok {
								r := exprString(x.Rhs[0])
								if id.Name == "g" || id.Name == "herPath" || id.Name == "driConfig" || id.Name == "argValues" {
									runAlloc = append(runAlloc, id.Name+":="+r)
								}
							}
						}
					}
					return true
				})
			}
		}
	}
	sort.Strings(writes)
	sort.Strings(poolAcc)
	sort.Strings(mapRanges)
	sort.Strings(mapRangesOut)
	sort.Strings(fatal)
	sort.Strings(errSites)
	sort.Strings(runAlloc)
	sort.Strings(endeSites)
	unlocked := []string{}
	for _, a := range poolAcc {
		if strings.Contains(a, ":UNLOCKED") {
			unlocked = append(unlocked, a)
		}
	}

	// ---------------------------------------------------------------- dispatcher shape (package main)
	mainFile := parseFile(filepath.Join(repo, "src", "hermes2go", "hermes_main.go"))
	disp := findFunc(mainFile, "doConcurrentBatchRun")
	must(disp != nil, "func doConcurrentBatchRun")
	shape := map[string]int{}
	ast.Inspect(disp.Body, func(n ast.Node) bool {
		switch x := n.(type) {
		case *ast.IncDecStmt:
			shape[exprString(x.X)+x.Tok.String()]++
		case *ast.AssignStmt:
			for _, l := range x.Lhs {
				if id := rootIdent(l); id != nil && id.Name == "activeRuns" {
					shape["activeRuns"+x.Tok.String()]++
				}
			}
		case *ast.GoStmt:
			shape["go "+exprString(x.Call.Fun)]++
		case *ast.SelectStmt:
			shape["select"]++
		case *ast.CommClause:
			if x.Comm == nil {
				shape["select-default"]++
			}
		case *ast.CallExpr:
			f := exprString(x.Fun)
			if f == "errorSummary" || f == "make" {
				if f == "make" && len(x.Args) > 0 {
					if _, ok := x.Args[0].(*ast.ChanType); ok {
						shape[fmt.Sprintf("make-chan/%d", len(x.Args)-1)]++
					}
				} else if f == "errorSummary" {
					shape[f]++
				}
			}
		case *ast.BinaryExpr:
			if id, ok := x.X.(*ast.Ident); ok && id.Name == "activeRuns" {
				shape["activeRuns"+x.Op.String()+exprString(x.Y)]++
			}
		}
		return true
	})
	var shapeList []string
	for k, v := range shape {
		shapeList = append(shapeList, fmt.Sprintf("%s:%d", k, v))
	}
	sort.Strings(shapeList)

	fc.Strs["concurrency.package_vars"] = varList
	fc.Strs["concurrency.package_var_writes"] = writes
	fc.Strs["concurrency.pool_list_accesses"] = poolAcc
	fc.Strs["concurrency.run_state_allocations"] = runAlloc
	fc.Strs["concurrency.map_ranges"] = mapRanges
	fc.Strs["concurrency.map_ranges_writing_output"] = mapRangesOut
	fc.Strs["concurrency.fatal_sites"] = fatal
	fc.Strs["concurrency.returned_error_sites"] = errSites
	fc.Strs["concurrency.dispatcher_shape"] = shapeList
	fc.Strs["concurrency.day_loop_bound_sites"] = endeSites

	var lean bytes.Buffer
	lean.WriteString("/- GENERATED by harness/cmd/extract/concurrency_facts.go from the repo's source — do not edit.\n")
	lean.WriteString("   Shared-state facts of package hermes and of the dispatcher; consumed by Driver/DispatchOps.lean\n")
	lean.WriteString("   (op dispatch.facts) and compared with harness/cmd/check/c03_expect.go. -/\n")
	lean.WriteString("namespace Hermes.Generated.Concurrency\n\n")
	fmt.Fprintf(&lean, "/-- package-level variables of package hermes (file:name:kind) -/\ndef packageVars : List String := %s\n\n", leanStrList(varList))
	fmt.Fprintf(&lean, "/-- writes to a package-level variable outside `init` and declarations -/\ndef packageVarWrites : List String := %s\n\n", leanStrList(writes))
	fmt.Fprintf(&lean, "/-- accesses to FilePool.list with their lock status -/\ndef poolListAccesses : List String := %s\n\n", leanStrList(poolAcc))
	fmt.Fprintf(&lean, "def poolListUnlocked : List String := %s\n\n", leanStrList(unlocked))
	fmt.Fprintf(&lean, "/-- per-run state allocated inside (*HermesSession).Run -/\ndef runStateAllocations : List String := %s\n\n", leanStrList(runAlloc))
	fmt.Fprintf(&lean, "/-- `range` over a map whose body writes output -/\ndef mapRangesWritingOutput : List String := %s\n\n", leanStrList(mapRangesOut))
	fmt.Fprintf(&lean, "def mapRangeCount : Nat := %d\n\n", len(mapRanges))
	fmt.Fprintf(&lean, "/-- log.Fatal* / panic / os.Exit call sites (file:function:call#ordinal) -/\ndef fatalSites : List String := %s\n\n", leanStrList(fatal))
	fmt.Fprintf(&lean, "/-- shape of doConcurrentBatchRun -/\ndef dispatcherShape : List String := %s\n\n", leanStrList(shapeList))
	fmt.Fprintf(&lean, "/-- assignments to g.ENDE and changes of the time step g.DT (file:function:statement) -/\ndef dayLoopBoundSites : List String := %s\n\n", leanStrList(endeSites))
	lean.WriteString("end Hermes.Generated.Concurrency\n")
	if outDir != "" {
		writeIfChanged(filepath.Join(outDir, "ConcurrencyFacts.lean"), lean.Bytes())
	}
}
