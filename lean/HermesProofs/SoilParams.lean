/-
Lemmas about the assignment of the soil hydraulic parameters (model HermesModel/SoilParams.lean) over ℚ.
-/
import HermesProofs.RatInst
import HermesModel.SoilParams
import Mathlib.Tactic.Linarith
import Mathlib.Tactic.NormNum
import Mathlib.Tactic.Positivity
import Mathlib.Tactic.SplitIfs
import Mathlib.Tactic.Ring

namespace Hermes.SoilParams

/-- the ordering the property asks of one layer -/
def Ordered (l : Layer ℚ) : Prop := 0 < l.wmin ∧ l.wmin < l.w ∧ l.w ≤ l.porges ∧ l.porges < 1

/-- the same ordering on what `Hydro` leaves for a horizon -/
def CellOrdered (c : Cell ℚ) : Prop := 0 < c.lim ∧ c.lim < c.feldw ∧ c.feldw ≤ c.prges ∧ c.prges < 1

/-! ### the threshold helper -/

theorem calcWRed_between (s : Bool) (wp fc : ℚ) (h : wp < fc) :
    wp / 100 < calcWRed s wp fc ∧ calcWRed s wp fc < fc / 100 := by
  unfold calcWRed
  cases s <;> norm_num <;> constructor <;> linarith

/-- the helper is homogeneous: scaling both percent values by `t` scales the threshold by `t` -/
theorem calcWRed_scale (s : Bool) (wp fc t : ℚ) : calcWRed s (wp * t) (fc * t) = t * calcWRed s wp fc := by
  unfold calcWRed
  cases s <;> norm_num <;> ring

/-- fed the percent values `100·wmin`, `100·w` of a layer given in fractions, the threshold lies strictly
between the two fractions (input.go:267-268, run.go:399-400) -/
theorem calcWRed_of_percent (s : Bool) (wmin w : ℚ) (h : wmin < w) :
    wmin < calcWRed s (wmin * 100.0) (w * 100.0) ∧ calcWRed s (wmin * 100.0) (w * 100.0) < w := by
  have := calcWRed_between s (wmin * 100.0) (w * 100.0) (by norm_num; linarith)
  norm_num at this ⊢
  exact this

/-! ### explicit route -/

theorem explicitLayer_ordered (fka wp gpv : ℚ) (h0 : 0 < wp) (h1 : wp < fka) (h2 : fka ≤ gpv) (h3 : gpv < 100) :
    Ordered (explicitLayer fka wp gpv) := by
  unfold Ordered explicitLayer
  norm_num
  refine ⟨by linarith, by linarith, by linarith, by linarith⟩

/-! ### linear pedotransfer functions -/

theorem ptf2_ordered (c ton sluf : ℚ) (hc0 : 0 ≤ c) (hc6 : c ≤ 6) (ht : 5 ≤ ton) (hs : 5 ≤ sluf)
    (hsum : ton + sluf ≤ 95) :
    0 < (ptf2 c ton sluf).2 ∧ (ptf2 c ton sluf).2 < (ptf2 c ton sluf).1 ∧ (ptf2 c ton sluf).1 < 1 := by
  unfold ptf2
  norm_num
  refine ⟨?_, ?_, ?_⟩ <;> linarith

theorem ptf3_ordered (c ton sluf : ℚ) (hc0 : 0 ≤ c) (hc6 : c ≤ 6) (ht : 5 ≤ ton) (hs : 5 ≤ sluf)
    (hsum : ton + sluf ≤ 95) :
    0 < (ptf3 c ton sluf).2 ∧ (ptf3 c ton sluf).2 < (ptf3 c ton sluf).1 ∧ (ptf3 c ton sluf).1 < 1 := by
  unfold ptf3
  norm_num
  refine ⟨?_, ?_, ?_⟩ <;> linarith

/-! ### the table route: brackets of the corrections -/

/-- index of the organic-carbon bracket between the thresholds 0.58, 1.16, 2.3, 3.5, 4.6, 5.2 -/
def corgBr (c : ℚ) : Nat :=
  if 5.2 < c then 6 else if 4.6 < c then 5 else if 3.5 < c then 4 else if 2.3 < c then 3
  else if 1.16 < c then 2 else if 0.58 < c then 1 else 0

/-- a representative of each organic-carbon bracket -/
def corgRep : Nat → ℚ
  | 0 => 0 | 1 => 0.6 | 2 => 1.2 | 3 => 2.4 | 4 => 3.6 | 5 => 4.7 | _ => 5.3

/-- index of the groundwater bracket: <8, [8,9), [9,20), [20,30), [30,35], >35 (dm) -/
def gwBr (g : ℚ) : Nat :=
  if g < 8 then 0 else if g < 9 then 1 else if g < 20 then 2 else if g < 30 then 3
  else if 35 < g then 5 else 4

def gwRep : Nat → ℚ
  | 0 => 0 | 1 => 8 | 2 => 9 | 3 => 20 | 4 => 30 | _ => 36

theorem corgBr_lt (c : ℚ) : corgBr c < 7 := by unfold corgBr; split_ifs <;> omega
theorem gwBr_lt (g : ℚ) : gwBr g < 6 := by unfold gwBr; split_ifs <;> omega

/-- every threshold comparison of `Hydro` gives the same answer at `c` and at the representative -/
theorem corg_cmp (c : ℚ) :
    ((0.58 : ℚ) < c ↔ (0.58 : ℚ) < corgRep (corgBr c)) ∧ ((1.16 : ℚ) < c ↔ (1.16 : ℚ) < corgRep (corgBr c)) ∧
    ((2.3 : ℚ) < c ↔ (2.3 : ℚ) < corgRep (corgBr c)) ∧ ((3.5 : ℚ) < c ↔ (3.5 : ℚ) < corgRep (corgBr c)) ∧
    ((4.6 : ℚ) < c ↔ (4.6 : ℚ) < corgRep (corgBr c)) ∧ ((5.2 : ℚ) < c ↔ (5.2 : ℚ) < corgRep (corgBr c)) := by
  unfold corgBr
  split_ifs with h1 h2 h3 h4 h5 h6 <;> simp only [corgRep] <;> norm_num at * <;>
    (refine ⟨?_, ?_, ?_, ?_, ?_, ?_⟩ <;> linarith)

theorem gw_cmp (g : ℚ) :
    (g < (8.0 : ℚ) ↔ gwRep (gwBr g) < (8.0 : ℚ)) ∧ (g < (9.0 : ℚ) ↔ gwRep (gwBr g) < (9.0 : ℚ)) ∧
    (g < (20.0 : ℚ) ↔ gwRep (gwBr g) < (20.0 : ℚ)) ∧ (g < (30.0 : ℚ) ↔ gwRep (gwBr g) < (30.0 : ℚ)) ∧
    ((35.0 : ℚ) < g ↔ (35.0 : ℚ) < gwRep (gwBr g)) := by
  unfold gwBr
  split_ifs with h1 h2 h3 h4 h5 <;> simp only [gwRep] <;> norm_num at * <;>
    (refine ⟨?_, ?_, ?_, ?_, ?_⟩ <;> linarith)

theorem krrCorg_rep (cl : TexClass) (c : ℚ) : krrCorg cl c = krrCorg cl (corgRep (corgBr c)) := by
  obtain ⟨a1, a2, a3, a4, a5, a6⟩ := corg_cmp c
  cases cl <;> simp only [krrCorg, a1, a2, a3, a4, a5, a6]

set_option linter.unusedSimpArgs false in
theorem krgCorg_rep (cl : TexClass) (c : ℚ) : krgCorg cl c = krgCorg cl (corgRep (corgBr c)) := by
  obtain ⟨a1, a2, a3, a4, a5, a6⟩ := corg_cmp c
  cases cl <;> simp only [krgCorg, a1, a2, a3, a4, a5, a6]

set_option linter.unusedSimpArgs false in
theorem krrGw_rep (cl : TexClass) (g : ℚ) : krrGw cl g = krrGw cl (gwRep (gwBr g)) := by
  obtain ⟨a1, a2, a3, a4, a5⟩ := gw_cmp g
  cases cl <;> simp only [krrGw, a1, a2, a3, a4, a5]

/-- `Hydro` depends on C_org and on the groundwater level only through their brackets. -/
theorem hydroRow_rep (cl : TexClass) (vals : List Nat) (ld : Nat) (c g : ℚ) :
    hydroRow cl vals ld c g = hydroRow cl vals ld (corgRep (corgBr c)) (gwRep (gwBr g)) := by
  have h1 := krrCorg_rep cl c
  have h2 := krgCorg_rep cl c
  have h3 := krrGw_rep cl g
  unfold hydroRow krr
  rw [← h1, ← h2, ← h3]

/-! ### the table route: the whole regenerated table, decided by the kernel -/

/-- Cells in which the organic-matter correction lifts the field capacity above the pore volume
(finding F17), as data: (texture, density class, for each groundwater bracket the first organic-carbon
bracket from which FC > PS; 7 = never).  Cells not listed here are ordered. -/
def fcGtPsFrom : List (List Nat × Nat × List Nat) := [
  ([85, 85, 32], 1, [5, 5, 5, 5, 5, 6]), -- UU 
  ([85, 85, 32], 2, [5, 5, 5, 5, 5, 6]), -- UU 
  ([85, 85, 32], 3, [4, 4, 4, 4, 4, 4]), -- UU 
  ([85, 85, 32], 4, [4, 4, 4, 4, 4, 4]), -- UU 
  ([85, 85, 32], 5, [4, 4, 4, 4, 4, 4]), -- UU 
  ([85, 83, 32], 1, [5, 6, 6, 6, 6, 6]), -- US 
  ([85, 83, 32], 2, [5, 6, 6, 6, 6, 6]), -- US 
  ([85, 83, 32], 3, [4, 5, 5, 5, 5, 5]), -- US 
  ([85, 83, 32], 4, [5, 6, 6, 6, 6, 6]), -- US 
  ([85, 83, 32], 5, [5, 6, 6, 6, 6, 6]), -- US 
  ([85, 84, 50], 1, [6, 6, 6, 6, 6, 6]), -- UT2
  ([85, 84, 50], 2, [6, 6, 6, 6, 6, 6]), -- UT2
  ([85, 84, 50], 3, [4, 4, 4, 4, 4, 5]), -- UT2
  ([85, 84, 50], 4, [4, 4, 4, 4, 4, 4]), -- UT2
  ([85, 84, 50], 5, [4, 4, 4, 4, 4, 4]), -- UT2
  ([85, 84, 51], 1, [6, 6, 6, 6, 6, 6]), -- UT3
  ([85, 84, 51], 2, [6, 6, 6, 6, 6, 6]), -- UT3
  ([85, 84, 51], 3, [4, 5, 5, 5, 5, 5]), -- UT3
  ([85, 84, 51], 4, [4, 4, 4, 4, 4, 4]), -- UT3
  ([85, 84, 51], 5, [4, 4, 4, 4, 4, 4]), -- UT3
  ([85, 84, 52], 1, [6, 6, 6, 6, 6, 6]), -- UT4
  ([85, 84, 52], 2, [6, 6, 6, 6, 6, 6]), -- UT4
  ([85, 84, 52], 3, [5, 5, 5, 5, 5, 6]), -- UT4
  ([85, 84, 52], 4, [4, 4, 4, 4, 4, 4]), -- UT4
  ([85, 84, 52], 5, [4, 4, 4, 4, 4, 4]), -- UT4
  ([85, 84, 83], 1, [6, 6, 6, 6, 6, 6]), -- UTS
  ([85, 84, 83], 2, [6, 6, 6, 6, 6, 6]), -- UTS
  ([85, 84, 83], 3, [5, 6, 6, 6, 6, 6]), -- UTS
  ([85, 84, 83], 4, [4, 4, 4, 4, 4, 5]), -- UTS
  ([85, 84, 83], 5, [4, 4, 4, 4, 4, 5]), -- UTS
  ([85, 76, 83], 1, [6, 6, 6, 6, 6, 6]), -- ULS
  ([85, 76, 83], 2, [6, 6, 6, 6, 6, 6]), -- ULS
  ([85, 76, 83], 3, [5, 6, 6, 6, 6, 6]), -- ULS
  ([85, 76, 83], 4, [4, 4, 4, 4, 4, 5]), -- ULS
  ([85, 76, 83], 5, [4, 4, 4, 4, 4, 5]), -- ULS
  ([76, 83, 50], 4, [5, 5, 5, 5, 5, 5]), -- LS2
  ([76, 83, 50], 5, [5, 5, 5, 5, 5, 5]), -- LS2
  ([76, 83, 51], 3, [5, 7, 7, 7, 7, 7]), -- LS3
  ([76, 83, 51], 4, [5, 5, 5, 5, 5, 5]), -- LS3
  ([76, 83, 51], 5, [5, 5, 5, 5, 5, 5]), -- LS3
  ([76, 83, 52], 4, [5, 5, 5, 5, 5, 5]), -- LS4
  ([76, 83, 52], 5, [5, 5, 5, 5, 5, 5]), -- LS4
  ([76, 85, 32], 3, [5, 5, 5, 5, 5, 5]), -- LU 
  ([76, 85, 32], 4, [5, 5, 5, 5, 5, 5]), -- LU 
  ([76, 85, 32], 5, [5, 5, 5, 5, 5, 5]), -- LU 
  ([76, 84, 50], 3, [5, 5, 5, 5, 5, 5]), -- LT2
  ([76, 84, 50], 4, [4, 4, 4, 4, 4, 4]), -- LT2
  ([76, 84, 50], 5, [4, 4, 4, 4, 4, 4]), -- LT2
  ([76, 84, 51], 1, [5, 7, 7, 7, 7, 7]), -- LT3
  ([76, 84, 51], 2, [5, 7, 7, 7, 7, 7]), -- LT3
  ([76, 84, 51], 3, [4, 4, 4, 4, 4, 4]), -- LT3
  ([76, 84, 51], 4, [4, 4, 4, 4, 4, 4]), -- LT3
  ([76, 84, 51], 5, [4, 4, 4, 4, 4, 4]), -- LT3
  ([76, 84, 85], 3, [5, 7, 7, 7, 7, 7]), -- LTU
  ([76, 84, 85], 4, [4, 5, 5, 5, 5, 5]), -- LTU
  ([76, 84, 85], 5, [4, 5, 5, 5, 5, 5]), -- LTU
  ([76, 84, 83], 1, [5, 5, 5, 5, 5, 5]), -- LTS
  ([76, 84, 83], 2, [5, 5, 5, 5, 5, 5]), -- LTS
  ([76, 84, 83], 3, [5, 5, 5, 5, 5, 5]), -- LTS
  ([76, 84, 83], 4, [4, 5, 5, 5, 5, 5]), -- LTS
  ([76, 84, 83], 5, [4, 5, 5, 5, 5, 5]), -- LTS
  ([84, 85, 50], 1, [5, 7, 7, 7, 7, 7]), -- TU2
  ([84, 85, 50], 2, [5, 7, 7, 7, 7, 7]), -- TU2
  ([84, 85, 50], 3, [5, 5, 5, 5, 5, 5]), -- TU2
  ([84, 85, 50], 4, [5, 5, 5, 5, 5, 5]), -- TU2
  ([84, 85, 50], 5, [5, 5, 5, 5, 5, 5]), -- TU2
  ([84, 85, 51], 4, [5, 7, 7, 7, 7, 7]), -- TU3
  ([84, 85, 51], 5, [5, 7, 7, 7, 7, 7]), -- TU3
  ([84, 85, 52], 1, [5, 7, 7, 7, 7, 7]), -- TU4
  ([84, 85, 52], 2, [5, 7, 7, 7, 7, 7]), -- TU4
  ([84, 85, 52], 3, [5, 5, 5, 5, 5, 5]), -- TU4
  ([84, 85, 52], 4, [4, 5, 5, 5, 5, 5]), -- TU4
  ([84, 85, 52], 5, [4, 5, 5, 5, 5, 5]), -- TU4
  ([85, 78, 49], 3, [6, 6, 6, 6, 6, 7]), -- UN1
  ([85, 78, 49], 4, [5, 6, 6, 6, 6, 6]), -- UN1
  ([85, 78, 49], 5, [5, 6, 6, 6, 6, 6]), -- UN1
  ([85, 78, 50], 3, [6, 6, 6, 6, 6, 7]), -- UN2
  ([85, 78, 50], 4, [6, 7, 7, 7, 7, 7]), -- UN2
  ([85, 78, 50], 5, [6, 7, 7, 7, 7, 7]), -- UN2
  ([85, 78, 51], 3, [6, 6, 6, 6, 6, 6]), -- UN3
  ([85, 78, 51], 4, [5, 6, 6, 6, 6, 6]), -- UN3
  ([85, 78, 51], 5, [5, 6, 6, 6, 6, 6]) -- UN3
]

def lookupExcl (codes : List Nat) (ld : Nat) : List (List Nat × Nat × List Nat) → Option (List Nat)
  | [] => none
  | (n, l, ms) :: rest => if n = codes ∧ l = ld then some ms else lookupExcl codes ld rest

/-- `true` on exactly the listed cells: texture, density class, C_org bracket `i`, groundwater bracket `j` -/
def fcGtPs (codes : List Nat) (ld i j : Nat) : Bool :=
  match lookupExcl codes ld fcGtPsFrom with
  | none => false
  | some ms => decide (ms.getD j 7 ≤ i)

/-- what is checked on one cell: 0 < WP < FC, PS < 1, WP < WRED < FC (WRED as `Hydro` computes it for a
top horizon without stones; `hydroWRed_scale` carries it to every stone fraction) always; FC ≤ PS on the unlisted cells and PS < FC on the listed ones -/
noncomputable def cellCheck (codes : List Nat) (excl : Bool) (cell : Cell ℚ) : Bool :=
  decide (0 < cell.lim) && decide (cell.lim < cell.feldw) && decide (cell.prges < 1) &&
    decide (cell.lim < hydroWRed codes cell 0) && decide (hydroWRed codes cell 0 < cell.feldw) &&
    (if excl then decide (cell.prges < cell.feldw) else decide (cell.feldw ≤ cell.prges))

/-- the whole table: every row whose texture `Input` accepts × density classes 1-5 × the seven C_org
brackets × the six groundwater brackets -/
noncomputable def tableCheck : Bool :=
  Generated.hyparRows.all fun row =>
    !(Generated.parcapTextures.contains row.1) ||
    [1, 2, 3, 4, 5].all fun ld => (List.range 7).all fun i => (List.range 6).all fun j =>
      cellCheck row.1 (fcGtPs row.1 ld i j) (hydroRow (texClass row.1) row.2 ld (corgRep i) (gwRep j))

set_option maxRecDepth 100000 in
theorem tableCheck_true : tableCheck = true := by decide +kernel

theorem cellCheck_of_table (row : List Nat × List Nat) (hrow : row ∈ Generated.hyparRows)
    (hvalid : row.1 ∈ Generated.parcapTextures) (ld : Nat) (hld : 1 ≤ ld ∧ ld ≤ 5) (c g : ℚ) :
    cellCheck row.1 (fcGtPs row.1 ld (corgBr c) (gwBr g)) (hydroRow (texClass row.1) row.2 ld c g) = true := by
  have h := tableCheck_true
  unfold tableCheck at h
  rw [List.all_eq_true] at h
  have h1 := h row hrow
  have hc : Generated.parcapTextures.contains row.1 = true := List.contains_iff_mem.mpr hvalid
  rw [hc] at h1
  simp only [Bool.not_true, Bool.false_or] at h1
  rw [List.all_eq_true] at h1
  have hldm : ld ∈ [1, 2, 3, 4, 5] := by
    obtain ⟨a, b⟩ := hld
    simp only [List.mem_cons, List.not_mem_nil, or_false]
    omega
  have h2 := h1 ld hldm
  rw [List.all_eq_true] at h2
  have h3 := h2 (corgBr c) (List.mem_range.mpr (corgBr_lt c))
  rw [List.all_eq_true] at h3
  have h4 := h3 (gwBr g) (List.mem_range.mpr (gwBr_lt g))
  rw [hydroRow_rep]
  exact h4

/-- the facts the kernel decided, for an arbitrary C_org and groundwater level -/
theorem cell_facts (row : List Nat × List Nat) (hrow : row ∈ Generated.hyparRows)
    (hvalid : row.1 ∈ Generated.parcapTextures) (ld : Nat) (hld : 1 ≤ ld ∧ ld ≤ 5) (c g : ℚ) :
    0 < (hydroRow (texClass row.1) row.2 ld c g).lim ∧
    (hydroRow (texClass row.1) row.2 ld c g).lim < (hydroRow (texClass row.1) row.2 ld c g).feldw ∧
    (hydroRow (texClass row.1) row.2 ld c g).prges < 1 ∧
    (hydroRow (texClass row.1) row.2 ld c g).lim < hydroWRed row.1 (hydroRow (texClass row.1) row.2 ld c g) 0 ∧
    hydroWRed row.1 (hydroRow (texClass row.1) row.2 ld c g) 0 < (hydroRow (texClass row.1) row.2 ld c g).feldw ∧
    (fcGtPs row.1 ld (corgBr c) (gwBr g) = false →
      (hydroRow (texClass row.1) row.2 ld c g).feldw ≤ (hydroRow (texClass row.1) row.2 ld c g).prges) ∧
    (fcGtPs row.1 ld (corgBr c) (gwBr g) = true →
      (hydroRow (texClass row.1) row.2 ld c g).prges < (hydroRow (texClass row.1) row.2 ld c g).feldw) := by
  have h := cellCheck_of_table row hrow hvalid ld hld c g
  unfold cellCheck at h
  simp only [Bool.and_eq_true, decide_eq_true_eq] at h
  obtain ⟨⟨⟨⟨⟨h1, h2⟩, h3⟩, h4⟩, h5⟩, h6⟩ := h
  refine ⟨h1, h2, h3, h4, h5, ?_, ?_⟩
  · intro he; rw [he] at h6; simpa using h6
  · intro he; rw [he] at h6; simpa using h6

end Hermes.SoilParams
