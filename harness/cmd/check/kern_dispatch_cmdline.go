package main

// How a batch reaches the binary (C03 / C11 / C17): the shape of the batch file and of the command
// line, and the command-line forms of hermes2go beside `-module batch -batch <file>`.
//
//   * renderBatchFile: the same lines written with blanks / tabs / several blanks between the tokens,
//     leading and trailing blanks, LF, CRLF or mixed line ends, empty lines between the lines and with or
//     without the final newline. hermes_main.go reads the file with bufio.Scanner, drops empty lines and
//     splits with strings.Fields: none of this may change which run a line describes.
//   * batchCommand: the options in every order, `-workingdir` given or omitted (the batch file lies in
//     the root and the process starts there), the batch file by absolute or relative path, `-logoutput`,
//     a stray `-locid`.
//   * cmdlineStage: extra `key=value` arguments on the command line of a batch run (0, 2, 3, 9, 10 of
//     them, concurrency 1 and above), a run described by arguments only (no batch file), `-module single`
//     with project/modinp.txt (with and without `-locid`), `-lines N` and `-lines a-end` — every result
//     file byte-identical to the run of the same line alone through a one-line batch file with the same
//     extra arguments.
//
// Every choice is derived from the check's seed and the batch itself (tag, lines, concurrency), not from
// the shared random stream, so that the draws of the checks do not move.

import (
	"fmt"
	"hash/fnv"
	"os"
	"path/filepath"
	"strconv"
	"strings"
	"sync"
	"time"

	"verifharness/proj"
	"verifharness/vh"
)

// batchStyleSeed is set by the checks (c.Seed) before the first batch.
var batchStyleSeed uint64

func styleRng(parts ...string) *vh.Rng {
	h := fnv.New64a()
	for _, p := range parts {
		h.Write([]byte(p))
		h.Write([]byte{0})
	}
	return vh.NewRng(h.Sum64() ^ batchStyleSeed ^ 0x5ba7c4f11e5)
}

// renderBatchFile writes the lines in one of the shapes a batch file may have.
func renderBatchFile(r *vh.Rng, lines []*batchLine) (content, desc string) {
	eolMode := []string{"lf", "lf", "crlf", "mixed"}[r.Intn(4)]
	sepMode := []string{"blank", "tab", "blanks", "mixed"}[r.Intn(4)]
	lead, trail := r.Chance(0.3), r.Chance(0.3)
	empty := r.Chance(0.4)
	final := r.Chance(0.7)
	eol := func() string {
		switch eolMode {
		case "crlf":
			return "\r\n"
		case "mixed":
			if r.Chance(0.5) {
				return "\r\n"
			}
		}
		return "\n"
	}
	sep := func() string {
		switch sepMode {
		case "tab":
			return "\t"
		case "blanks":
			return strings.Repeat(" ", r.Range(2, 4))
		case "mixed":
			return []string{" ", "\t", "   ", " \t", "\t "}[r.Intn(5)]
		}
		return " "
	}
	var sb strings.Builder
	if empty && r.Chance(0.3) {
		sb.WriteString(eol()) // the file begins with an empty line
	}
	for i, l := range lines {
		if lead && r.Chance(0.6) {
			sb.WriteString(sep())
		}
		for k, a := range l.Args {
			if k > 0 {
				sb.WriteString(sep())
			}
			sb.WriteString(a)
		}
		if trail && r.Chance(0.6) {
			sb.WriteString(sep())
		}
		if i < len(lines)-1 || final {
			sb.WriteString(eol())
		}
		if empty && (i < len(lines)-1 || final) && r.Chance(0.35) {
			sb.WriteString(eol()) // an empty line (line end only): not a batch line
			if r.Chance(0.3) {
				sb.WriteString(eol())
			}
		}
	}
	return sb.String(), fmt.Sprintf("eol=%s sep=%s leading=%v trailing=%v empty-lines=%v final-newline=%v", eolMode, sepMode, lead, trail, empty, final)
}

// optionGroups splits extra command-line arguments into units that may move freely: an option with
// its value, a flag, or a bare argument.
func optionGroups(args []string) [][]string {
	var out [][]string
	for i := 0; i < len(args); i++ {
		switch args[i] {
		case "-lines", "-locid", "-module", "-batch", "-workingdir", "-concurrent":
			if i+1 < len(args) {
				out = append(out, []string{args[i], args[i+1]})
				i++
				continue
			}
		}
		out = append(out, []string{args[i]})
	}
	return out
}

// batchCommand builds the argument list of one batch run.
func batchCommand(r *vh.Rng, root, batchFile string, conc int, extraArgs []string) []string {
	bf := batchFile
	if r.Chance(0.3) {
		if rel, err := filepath.Rel(root, batchFile); err == nil {
			bf = rel // relative to the directory the process starts in
			if r.Chance(0.5) {
				bf = "./" + rel
			}
		}
	}
	groups := [][]string{{"-module", "batch"}, {"-batch", bf}, {"-concurrent", strconv.Itoa(conc)}}
	if r.Chance(0.6) {
		groups = append(groups, []string{"-workingdir", root})
	} // else: the directory of the batch file (the root) is the working directory
	if r.Chance(0.15) {
		groups = append(groups, []string{"-logoutput"})
	}
	if r.Chance(0.1) {
		groups = append(groups, []string{"-locid", "nowhere"}) // read in single mode only
	}
	groups = append(groups, optionGroups(extraArgs)...)
	n := 1
	for k := 2; k <= len(groups) && n < 1<<40; k++ {
		n *= k
	}
	return optionOrder(int(r.U64()%uint64(n)), groups...)
}

// countBatchShape records the shape of one batch run in the input distribution of the evidence.
func countBatchShape(c *vh.Ctx, o *batchOutcome) {
	if o == nil {
		return
	}
	for _, f := range strings.Fields(o.BatchShape) {
		if strings.HasPrefix(f, "eol=") || strings.HasPrefix(f, "sep=") || strings.HasSuffix(f, "=true") {
			c.Count("batch-file:" + f)
		}
	}
	wd, rel := false, false
	for i, a := range o.Cmd {
		switch a {
		case "-workingdir":
			wd = true
		case "-logoutput":
			c.Count("command:-logoutput")
		case "-batch":
			rel = i+1 < len(o.Cmd) && !filepath.IsAbs(o.Cmd[i+1])
			if i == 1 {
				c.Count("command:-batch-first")
			} else if i+2 == len(o.Cmd) {
				c.Count("command:-batch-last")
			}
		}
	}
	if !wd {
		c.Count("command:no-workingdir")
	}
	if rel {
		c.Count("command:relative-batch-path")
	}
}

// ---------------------------------------------------------------- direct forms of the command line

// runCommand runs the binary with the given arguments from the root and collects what runBatch collects.
func runCommand(bin, root string, args []string, gomaxprocs int, timeout time.Duration) *batchOutcome {
	return execOutcome(bin, root, args, gomaxprocs, nil, timeout)
}

// cmdExtraPool: configuration keys every generated project accepts on the command line with a value that is
// valid for all of them (hermes/config.go commandlineOverride); distinct keys, so their order carries no meaning.
func cmdExtras(r *vh.Rng, n int) []string {
	pool := []string{
		"Latitude=" + strconv.Itoa(r.Range(40, 60)),
		"NDeposition=" + strconv.Itoa(r.Range(0, 50)),
		"KcFactorBareSoil=0." + strconv.Itoa(r.Range(3, 9)),
		"CoastDistance=" + strconv.Itoa(r.Range(1, 400)),
		"Altitude=" + strconv.Itoa(r.Range(0, 600)),
		"CO2concentration=" + strconv.Itoa(r.Range(330, 480)),
		"AnnualAverageTemperature=" + strconv.Itoa(r.Range(6, 12)),
		"Fertilization=" + strconv.Itoa(r.Range(50, 120)),
		"OrganicMatterMineralProportion=0.1" + strconv.Itoa(r.Range(0, 9)),
		"GroundWaterPhase=" + strconv.Itoa(r.Range(30, 120)),
		"CO2method=" + strconv.Itoa(r.Range(1, 3)),
		"CO2StomataInfluence=" + strconv.Itoa(r.Intn(2)),
	}
	for i := len(pool) - 1; i > 0; i-- {
		j := r.Intn(i + 1)
		pool[i], pool[j] = pool[j], pool[i]
	}
	return pool[:n]
}

// noFcodeProject: a project whose weather lies in a folder of its own under the name the run looks for when
// the line carries no fcode (`fmt.Sprintf(WeatherFile, "")`, run.go:192), so that `project=<p> plotNr=<n>`
// alone — the line `-module single` builds from modinp.txt — is a complete description of the run.
func noFcodeProject(r *vh.Rng, name string) *proj.Project {
	p := genShortProject(r, name)
	p.Cfg["WeatherFolder"] = "wx_" + name
	return p
}

func placeNoFcodeWeather(root string, p *proj.Project) error {
	src := filepath.Join(root, "weather", "gen")
	dst := filepath.Join(root, "weather", "wx_"+p.Name)
	if err := os.MkdirAll(dst, 0o755); err != nil {
		return err
	}
	es, err := os.ReadDir(src)
	if err != nil {
		return err
	}
	code := "w" + p.Name
	n := 0
	for _, e := range es {
		if !strings.HasPrefix(e.Name(), code+".") {
			continue
		}
		b, err := os.ReadFile(filepath.Join(src, e.Name()))
		if err != nil {
			return err
		}
		if err := os.WriteFile(filepath.Join(dst, strings.TrimPrefix(e.Name(), code)), b, 0o644); err != nil {
			return err
		}
		n++
	}
	if n == 0 {
		return fmt.Errorf("no weather file of %s found in %s", p.Name, src)
	}
	return nil
}

func withoutKeys(args []string, keys ...string) []string {
	var out []string
next:
	for _, a := range args {
		for _, k := range keys {
			if strings.HasPrefix(a, k+"=") {
				continue next
			}
		}
		out = append(out, a)
	}
	return out
}

func withID(args []string, id string) []string {
	a := append([]string{}, args...)
	for k := range a {
		if strings.HasPrefix(a[k], "poligonID=") {
			a[k] = "poligonID=" + id
		}
	}
	return a
}

type cmdCase struct {
	kind     string // signature component
	what     string
	lines    []*batchLine // what is written into the batch file (nil: no batch file)
	expect   []*batchLine // the lines whose files must appear, each as in its solo run
	args     []string     // extra arguments (or the whole command when lines == nil)
	conc     int
	procs    int
	bare     bool // run args as they are (no batch file)
	race     bool // -race build (thorough tier)
	refExtra int  // index of the extras set the expected lines were run alone with
	out      *batchOutcome
}

// cmdlineStage: see the head of the file.
func cmdlineStage(c *vh.Ctx, bin, raceBin string) {
	r := vh.NewRng(c.Seed ^ 0xc0dd11e5a465)
	nRoots := 4
	// ---- projects: three ordinary ones, two that need neither poligonID nor fcode
	var ps []*proj.Project
	for i := 0; i < 3; i++ {
		ps = append(ps, genShortProject(r.Fork(), fmt.Sprintf("k%d", i)))
	}
	nf := []*proj.Project{noFcodeProject(r.Fork(), "n0"), noFcodeProject(r.Fork(), "n1")}
	ps = append(ps, nf...)
	roots := make([]string, nRoots)
	for i := range roots {
		roots[i] = filepath.Join(c.Scratch, fmt.Sprintf("croot%d", i))
		for _, p := range ps {
			if err := p.Write(roots[i], c.Repo); err != nil {
				c.Violate("correspondence", "harness:write-project", err.Error(), nil)
				return
			}
		}
		for _, p := range nf {
			if err := placeNoFcodeWeather(roots[i], p); err != nil {
				c.Violate("correspondence", "harness:write-project", err.Error(), nil)
				return
			}
		}
	}
	// distinct lines; every line owns its files
	var base []*batchLine
	for _, p := range ps[:3] {
		base = append(base, &batchLine{Key: p.Name, Args: p.BatchArgs(), Class: "valid"})
		base = append(base, &batchLine{Key: p.Name + "/rep", Args: withID(p.BatchArgs(), "R"+p.Name), Class: "valid"})
	}
	base = append(base, &batchLine{Key: ps[0].Name + "/noid", Args: withoutKeys(ps[0].BatchArgs(), "poligonID"), Class: "valid"})
	var bare []*batchLine // project=<p> plotNr=<n> only
	for _, p := range nf {
		l := &batchLine{Key: p.Name + "/bare", Args: withoutKeys(p.BatchArgs(), "poligonID", "fcode"), Class: "valid"}
		bare = append(bare, l)
		base = append(base, l)
	}
	// ---- extras sets; the lines alone under every set
	counts := []int{0, 2, 3, 9, 10}
	extras := make([][]string, len(counts))
	for i, n := range counts {
		extras[i] = cmdExtras(r, n)
	}
	type ref struct {
		set   int
		lines []*batchLine
	}
	refs := make([]*ref, len(counts))
	for i := range refs {
		refs[i] = &ref{set: i}
		for _, l := range base {
			refs[i].lines = append(refs[i].lines, &batchLine{Key: l.Key, Args: l.Args, Class: l.Class})
		}
	}
	soloWith := func(root string, ls []*batchLine, ex []string) {
		cleanResults(root)
		seen := map[string]bool{}
		for i, l := range ls {
			o := runBatchCanonical(bin, root, []*batchLine{l}, 60*time.Second, fmt.Sprintf("xsolo%d-%d", len(ex), i), ex...)
			l.Solo = map[string]string{}
			for f, h := range o.Files {
				if !seen[f] {
					l.Solo[f] = h
					seen[f] = true
				}
			}
			l.SoloErr = ""
			l.SoloStderr = tail(o.Stderr, 2000)
			switch {
			case o.TimedOut:
				l.SoloErr = "TIMEOUT"
			case !o.SummaryOK || !o.Finished:
				l.SoloErr = "DIED: " + firstLineDsp(o.Stderr)
			case len(o.ErrIDs) > 0:
				l.SoloErr = o.ErrMsg[o.ErrIDs[0]]
			}
		}
		cleanResults(root)
	}
	t0 := time.Now()
	{
		type job struct {
			set int
			ls  []*batchLine
		}
		var jobs []job
		for i, rf := range refs {
			h := len(rf.lines) / 2
			jobs = append(jobs, job{i, rf.lines[:h]}, job{i, rf.lines[h:]})
		}
		// a root serves one job at a time
		rootFree := make(chan string, nRoots)
		for _, rt := range roots {
			rootFree <- rt
		}
		vh.Parallel(len(jobs), nRoots, func(i int) {
			root := <-rootFree
			defer func() { rootFree <- root }()
			soloWith(root, jobs[i].ls, extras[jobs[i].set])
		})
	}
	usable := true
	for i, rf := range refs {
		for _, l := range rf.lines {
			c.Eval()
			c.Nontrivial(fmt.Sprintf("cmdline-solo:%s|x%d", l.Key, counts[i]))
			if l.SoloErr != "" || len(l.Solo) == 0 {
				usable = false
				cls := "valid-line"
				if strings.HasSuffix(l.Key, "/bare") {
					cls = "line-without-poligonID-and-fcode"
				} else if strings.HasSuffix(l.Key, "/noid") {
					cls = "line-without-poligonID"
				}
				c.Violate("search", fmt.Sprintf("cmdline:line-fails-alone:%s:extra-arguments=%d", cls, counts[i]),
					fmt.Sprintf("the line %q does not complete when run alone through a one-line batch file with %d extra key=value argument(s) on the command line: %s (%d files)", l.Text(), counts[i], l.SoloErr, len(l.Solo)),
					map[string]interface{}{"batch_line": l.Text(), "extra_arguments": extras[i], "projects": ps, "stderr_tail": l.SoloStderr})
			}
		}
	}
	if !usable {
		return
	}
	byKey := func(set int, key string) *batchLine {
		for _, l := range refs[set].lines {
			if l.Key == key {
				return l
			}
		}
		return nil
	}
	// what the current semantics of the extra arguments is (observed, never an expectation): do they change the runs?
	for i := range refs {
		if i == 0 {
			continue
		}
		same := true
		for k, l := range refs[i].lines {
			for f, h := range l.Solo {
				if refs[0].lines[k].Solo[f] != h {
					same = false
				}
			}
		}
		if same {
			c.Count("cmdline:extra-arguments:no-effect-on-batch-lines")
		} else {
			c.Count("cmdline:extra-arguments:change-the-runs")
		}
	}

	// ---- cases
	var cases []*cmdCase
	shuffled := func(set int, n int, dup bool) []*batchLine {
		ls := append([]*batchLine{}, refs[set].lines...)
		for i := len(ls) - 1; i > 0; i-- {
			j := r.Intn(i + 1)
			ls[i], ls[j] = ls[j], ls[i]
		}
		if n < len(ls) {
			ls = ls[:n]
		}
		if dup {
			ls = append(ls, ls[r.Intn(len(ls))], ls[r.Intn(len(ls))])
		}
		return ls
	}
	for i := range counts {
		for k, conc := range []int{1, 2, 3, 8} {
			ls := shuffled(i, len(base), k == 3)
			cases = append(cases, &cmdCase{kind: fmt.Sprintf("extra-arguments=%d", counts[i]), what: fmt.Sprintf("%d extra key=value argument(s) on the command line of a batch run", counts[i]),
				lines: ls, expect: ls, args: extras[i], conc: conc, procs: []int{1, 2, 16, 0}[(i+k)%4], refExtra: i, race: raceBin != "" && conc > 1 && k%2 == 1})
		}
	}
	// -lines N / a-end / a-b with real lines (set 0: no extras)
	for k := 0; k < 6; k++ {
		ls := shuffled(0, len(base), false)
		n := len(ls)
		var opt string
		var sel []*batchLine
		switch k % 3 {
		case 0:
			m := r.Range(1, n)
			opt, sel = strconv.Itoa(m), ls[:m]
		case 1:
			a := r.Range(1, n)
			opt, sel = fmt.Sprintf("%d-end", a), ls[a-1:]
		default:
			a := r.Range(1, n)
			b := r.Range(a, n+2)
			opt = fmt.Sprintf("%d-%d", a, b)
			if b > n {
				b = n
			}
			sel = ls[a-1 : b]
		}
		form := []string{"N", "a-end", "a-b"}[k%3]
		cases = append(cases, &cmdCase{kind: "lines-option:" + form, what: "-lines " + opt + " on a batch of " + strconv.Itoa(n) + " lines", lines: ls, expect: sel,
			args: []string{"-lines", opt}, conc: []int{1, 2, 4}[k%3], procs: []int{1, 2, 16}[k%3]})
	}
	// -logoutput
	{
		ls := shuffled(0, len(base), true)
		cases = append(cases, &cmdCase{kind: "logoutput", what: "-logoutput", lines: ls, expect: ls, args: []string{"-logoutput"}, conc: 3, procs: 2})
	}
	// a run described by arguments only
	for k, l := range []*batchLine{byKey(0, ps[1].Name), byKey(0, ps[2].Name+"/rep"), byKey(0, nf[0].Name+"/bare"), byKey(0, ps[0].Name+"/noid")} {
		groups := [][]string{{"-module", "batch"}}
		for _, a := range l.Args {
			groups = append(groups, []string{a})
		}
		what := "a run described by arguments only (`hermes2go -module batch project=… plotNr=…`, started in the root)"
		if k%2 == 0 {
			groups = append(groups, []string{"-workingdir", "@ROOT@"})
			what = "a run described by arguments only (`hermes2go -module batch -workingdir <root> project=… plotNr=…`)"
		}
		cases = append(cases, &cmdCase{kind: "arguments-only", what: what, expect: []*batchLine{l}, args: optionOrder(r.Intn(5040), groups...), bare: true})
	}
	// -module single
	single := []struct {
		args   []string
		expect []*batchLine
		kind   string
	}{
		{nil, []*batchLine{byKey(0, nf[0].Name+"/bare"), byKey(0, nf[1].Name+"/bare")}, "single-mode:default"},
		{[]string{"-module", "single"}, []*batchLine{byKey(0, nf[0].Name+"/bare"), byKey(0, nf[1].Name+"/bare")}, "single-mode"},
		{[]string{"-workingdir", "@ROOT@", "-module", "single"}, []*batchLine{byKey(0, nf[0].Name+"/bare"), byKey(0, nf[1].Name+"/bare")}, "single-mode:workingdir"},
		{[]string{"-locid", nf[1].Name}, []*batchLine{byKey(0, nf[1].Name+"/bare")}, "single-mode:locid"},
		{[]string{"-module", "single", "-locid", nf[0].Name}, []*batchLine{byKey(0, nf[0].Name+"/bare")}, "single-mode:locid"},
	}
	for _, s := range single {
		cases = append(cases, &cmdCase{kind: s.kind, what: "`hermes2go " + strings.Join(s.args, " ") + "` started in the root, project/modinp.txt naming the two projects " + nf[0].Name + " and " + nf[1].Name,
			expect: s.expect, args: s.args, bare: true})
	}
	modinp := fmt.Sprintf("%s %s\n%s\t%s\n", nf[0].Name, nf[0].Plot, nf[1].Name, nf[1].Plot)

	rootFree := make(chan string, nRoots)
	for _, rt := range roots {
		rootFree <- rt
	}
	var mu sync.Mutex
	vh.Parallel(len(cases), nRoots, func(i int) {
		cs := cases[i]
		root := <-rootFree
		defer func() { rootFree <- root }()
		cleanResults(root)
		var o *batchOutcome
		if cs.bare {
			args := make([]string, len(cs.args))
			for k, a := range cs.args {
				args[k] = strings.ReplaceAll(a, "@ROOT@", root)
			}
			mp := filepath.Join(root, "project", "modinp.txt")
			if strings.HasPrefix(cs.kind, "single-mode") {
				os.WriteFile(mp, []byte(modinp), 0o644)
			}
			o = runCommand(bin, root, args, cs.procs, 90*time.Second)
			os.Remove(mp)
		} else {
			use, to := bin, 90*time.Second
			var env []string
			if cs.race {
				use, to, env = raceBin, 400*time.Second, []string{"GORACE=halt_on_error=0"}
			}
			o = runBatch(use, root, cs.lines, cs.conc, cs.procs, env, to, fmt.Sprintf("x%d", i), cs.args...)
		}
		mu.Lock()
		cs.out = o
		mu.Unlock()
	})
	c.Res.Extra["cmdline_cases"] = len(cases)
	c.Res.Extra["cmdline_wall_s"] = float64(int(time.Since(t0).Seconds()*100)) / 100

	for _, cs := range cases {
		o := cs.out
		c.Count("cmdline:" + cs.kind)
		if !cs.bare {
			countBatchShape(c, o)
		}
		for range cs.expect {
			c.Eval()
		}
		c.Nontrivial(fmt.Sprintf("cmdline:%s|c%d|p%d|n%d", cs.kind, cs.conc, cs.procs, len(cs.lines)))
		bl := make([]string, len(cs.lines))
		for i, l := range cs.lines {
			bl[i] = l.Text()
		}
		el := make([]string, len(cs.expect))
		for i, l := range cs.expect {
			el[i] = l.Text()
		}
		payload := map[string]interface{}{"projects": ps, "batch_lines": bl, "lines_expected_to_run": el, "command": o.Cmd, "batch_file_quoted": strconv.Quote(o.BatchText), "batch_file_shape": o.BatchShape,
			"concurrent": cs.conc, "GOMAXPROCS": cs.procs, "stdout_tail": tail(o.Stdout, 1500), "stderr_tail": tail(o.Stderr, 2500),
			"how": "harness/cmd/check/kern_dispatch_cmdline.go cmdlineStage: proj.Write the projects (replay.projects; the projects n0, n1 read their weather from weather/wx_<name>/.csv, the name a line without fcode looks for) into one root, start the binary IN the root with replay.command (a batch file, if any, holds replay.batch_file_quoted; single mode: project/modinp.txt = \"n0 <plot>\\nn1 <plot>\\n\"); reference: every expected line alone through a one-line batch file in the canonical form (one blank between the tokens, LF; `-module batch -batch <file> -workingdir <root> -concurrent 1` followed by the same extra key=value arguments)"}
		if cs.bare && strings.HasPrefix(cs.kind, "single-mode") {
			payload["modinp_txt_quoted"] = strconv.Quote(modinp)
		}
		if strings.Contains(o.Stderr, "DATA RACE") {
			c.Violate("search", "race:"+raceSignature(o.Stderr), cs.what+": the race detector reports a data race: "+raceSummary(o.Stderr), payload)
		}
		if o.TimedOut {
			c.Violate("search", "cmdline:"+cs.kind+":timeout", cs.what+": the process did not terminate in time", payload)
			continue
		}
		died := !o.Finished || o.Err != nil
		if !cs.bare {
			died = died || !o.SummaryOK
		}
		if died {
			c.Violate("search", "cmdline:"+cs.kind+":died", fmt.Sprintf("%s: the process does not end normally (%v: %s) although every line completes alone", cs.what, o.Err, firstLineDsp(o.Stderr)), payload)
			continue
		}
		if !cs.bare && (len(o.ErrIDs) != 0 || o.Count != 0) {
			c.Violate("search", "cmdline:"+cs.kind+":valid-line-failed", fmt.Sprintf("%s: lines that succeed alone are reported as failed: ids %v (%s)", cs.what, o.ErrIDs, o.ErrMsg[firstOr(o.ErrIDs)]), payload)
		}
		missing, differs, foreign := compareWithSolo(o, cs.expect, nil)
		if len(differs) > 0 {
			payload["differing_files"] = differs
			c.Violate("search", "cmdline:"+cs.kind+":result-differs-from-solo", fmt.Sprintf("%s (concurrency %d, GOMAXPROCS %d): %d result file(s) differ from the run of the same line alone, first %s", cs.what, cs.conc, cs.procs, len(differs), differs[0]), payload)
		}
		if len(missing) > 0 {
			payload["missing_files"] = missing
			c.Violate("search", "cmdline:"+cs.kind+":result-missing", fmt.Sprintf("%s (concurrency %d, GOMAXPROCS %d): %d result file(s) the lines write alone are missing, first %s", cs.what, cs.conc, cs.procs, len(missing), missing[0]), payload)
		}
		if len(foreign) > 0 {
			payload["foreign_files"] = foreign
			c.Violate("search", "cmdline:"+cs.kind+":foreign-file", fmt.Sprintf("%s: %d file(s) written that no executed line writes alone, first %s", cs.what, len(foreign), foreign[0]), payload)
		}
	}
	if len(cases) > 0 {
		cs := cases[len(counts)*4-1]
		c.Sample(map[string]interface{}{"cmdline_case": cs.kind, "command": cs.out.Cmd, "batch_file_shape": cs.out.BatchShape, "files_compared": len(cs.out.Files)})
	}
}
