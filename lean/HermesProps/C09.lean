/-
C09 — Crop state stays valid and development never runs backwards.
Model: HermesModel/Crop.lean (the stage machine, the increment formula with its factors, the organ /
LAI update with its floors, REDUK, N concentrations, rooting depth of `PhytoOut`, hermes/crop.go).
The theorems are exact-arithmetic statements over ℚ.  Partial property (DESIGN §8): what depends on the
magnitudes produced by the photosynthesis formulas (`radia`: GPHOT, MAINT), on `exp` and on the N uptake
is proved only relative to named hypotheses (`…_partial`, `C09_gehob_nonneg`); those magnitudes are observed by the search
stage on whole simulations.  Reading of the phenology clause: the recorded day of a stage is the label
of the day on which the stage index was incremented; the theorem is stated for any strictly increasing
labelling of the days between sowing and harvest (the day number ZEIT, i.e. dates) — the day-of-year
columns of the crop result file wrap at a year change and are compared as dates by the check.
-/
import HermesProofs.Crop
namespace Hermes.Crop

/-! ### development stage -/

/-- One call of the stage machine, for any increments: the stage index stays or grows by exactly one;
when it grows, the day is written into the slot of the new stage and no other slot changes. -/
theorem C09_stage_step_monotone (nrentw day : ℕ) (tsum : List ℚ) (e : Option ℚ) (d : ℕ → Option ℚ) (s : Stage ℚ) :
    s.intwick ≤ (stageStep nrentw day tsum e d s).1.intwick ∧
    (stageStep nrentw day tsum e d s).1.intwick ≤ s.intwick + 1 ∧
    ((stageStep nrentw day tsum e d s).2 = true ↔ (stageStep nrentw day tsum e d s).1.intwick = s.intwick + 1) ∧
    ((stageStep nrentw day tsum e d s).2 = false → (stageStep nrentw day tsum e d s).1.dev = s.dev) := by
  rcases stageStep_cases nrentw day tsum e d s with ⟨h1, h2, h3⟩ | ⟨_, h1, _, h3⟩
  · refine ⟨by omega, by omega, ?_, fun _ => h2⟩
    rw [h3, h1]; simp
  · refine ⟨by omega, by omega, ?_, ?_⟩
    · rw [h3, h1]; simp
    · rw [h3]; simp

/-- The stage part of a day of `PhytoOut` as coded (increment formulas, vernalisation, photoperiod,
stress acceleration inside) is the stage machine applied to that day's increments. -/
theorem C09_stage_day_is_step (i : DayIn ℚ) (s : Stage ℚ) :
    (stageDay i s).st =
      (stageStep i.nrentw i.doy i.tsum
        (if s.intwick = 0 then emergInc i.temp (i.bas.getD 0 0) i.wg0 i.w0 i.wmin0 i.dt else none)
        (fun k => dayIncrement i.temp (i.bas.getD k 0) (vernFactor i.verntage (i.vschwell.getD k 0) i.temp i.dt).2
          (fpFactor i.dlp (i.dayl.getD k 0) (i.dlbas.getD k 0))
          (devProg i.noNAccel i.reduk i.trrel (i.dryswell.getD k 0) i.lured) i.dt) s).1 := by
  simp only [stageDay, stageStep]
  split_ifs <;> rfl

/-- **Development never runs backwards.** Over the days between sowing and harvest (any number of
days, labelled by strictly increasing day numbers ≥ the sowing day ≥ 1 and ≤ the harvest day), for
every sequence of daily increments whatsoever, starting in the first stage: the stage index never
decreases, it advances at most once per day, every recorded stage day lies between sowing and harvest,
and the recorded days increase strictly with the stage — so sowing ≤ emergence (stage 1) ≤ anthesis
(stage 4) ≤ maturity (stage 5) ≤ harvest. -/
theorem C09_stage_monotone (nrentw sow harvest : ℕ) (tsum : List ℚ)
    (days : List (ℕ × Option ℚ × (ℕ → Option ℚ))) (s0 : Stage ℚ)
    (hlen : nrentw ≤ s0.dev.length) (h0 : s0.intwick = 0) (hsow : 1 ≤ sow)
    (hdays : ∀ x ∈ days, sow ≤ x.1 ∧ x.1 ≤ harvest) (hinc : days.Pairwise (fun a b => a.1 < b.1)) :
    (run nrentw tsum days s0).intwick ≤ days.length ∧
    (∀ i, 1 ≤ i → i ≤ (run nrentw tsum days s0).intwick →
        sow ≤ (run nrentw tsum days s0).dev.getD i 0 ∧ (run nrentw tsum days s0).dev.getD i 0 ≤ harvest) ∧
    (∀ i j, 1 ≤ i → i < j → j ≤ (run nrentw tsum days s0).intwick →
        (run nrentw tsum days s0).dev.getD i 0 < (run nrentw tsum days s0).dev.getD j 0) := by
  have hrec0 : Recorded s0 sow 0 := by
    constructor
    · intro i h1 h2; omega
    · intro i j h1 h2 h3; omega
  have hR := run_recorded nrentw sow (max harvest 0) tsum days s0 0 hlen hrec0 (by omega)
    (fun x hx => ⟨by have := (hdays x hx).1; omega, (hdays x hx).1, by have := (hdays x hx).2; omega⟩) hinc
  have hI := run_intwick_ge nrentw tsum days s0
  refine ⟨by omega, ?_, hR.2⟩
  intro i h1 h2
  have := hR.1 i h1 h2
  exact ⟨this.1, by have := this.2; simpa using this⟩

/-- prefix form: the stage index after any prefix of the season is ≤ the index after the whole season
(INTWICK is non-decreasing along the season). -/
theorem C09_stage_index_nondecreasing (nrentw : ℕ) (tsum : List ℚ)
    (d1 d2 : List (ℕ × Option ℚ × (ℕ → Option ℚ))) (s0 : Stage ℚ) :
    (run nrentw tsum d1 s0).intwick ≤ (run nrentw tsum (d1 ++ d2) s0).intwick := by
  have happ : ∀ (a : List (ℕ × Option ℚ × (ℕ → Option ℚ))) (s : Stage ℚ),
      run nrentw tsum (a ++ d2) s = run nrentw tsum d2 (run nrentw tsum a s) := by
    intro a
    induction a with
    | nil => intro s; rfl
    | cons x xs ih => intro s; obtain ⟨day, e, d⟩ := x; simp only [List.cons_append, run]; exact ih _
  rw [happ]
  exact (run_intwick_ge nrentw tsum d2 _).1

/-! ### the thermal increment and its factors -/

/-- vernalisation factor FV ∈ [0,1] for every temperature history -/
theorem C09_fv_unit (verntage vschwell temp dt : ℚ) :
    0 ≤ (vernFactor verntage vschwell temp dt).2 ∧ (vernFactor verntage vschwell temp dt).2 ≤ 1 :=
  vernFactor_unit _ _ _ _

/-- photoperiod factor FP ∈ [0,1] for every day length and every parameter pair -/
theorem C09_fp_unit (dlp dayl dlbas : ℚ) : 0 ≤ fpFactor dlp dayl dlbas ∧ fpFactor dlp dayl dlbas ≤ 1 :=
  fpFactor_unit _ _ _

/-- the development acceleration is ≥ 1 for every value of the stress factors -/
theorem C09_devprog_ge_one (f : Bool) (reduk trrel dryswell lured : ℚ) : 1 ≤ devProg f reduk trrel dryswell lured :=
  devProg_ge_one _ _ _ _ _

/-- **The thermal increment of a day is never negative**, for every temperature, every vernalisation
state, day length, stress factors and parameters: below the base temperature nothing is added; above
it the product (TEMP − BAS)·FV·FP·devprog·DT has non-negative factors (FV, FP ∈ [0,1], devprog ≥ 1). -/
theorem C09_increment_nonneg (temp bas verntage vschwell dlp dayl dlbas reduk trrel dryswell lured dt x : ℚ)
    (f : Bool) (hdt : 0 ≤ dt)
    (h : dayIncrement temp bas (vernFactor verntage vschwell temp dt).2 (fpFactor dlp dayl dlbas)
          (devProg f reduk trrel dryswell lured) dt = some x) : 0 ≤ x := by
  simp only [dayIncrement] at h
  split_ifs at h with hb
  simp only [Option.some.injEq] at h
  rw [← h]
  exact thermalInc_nonneg _ _ _ _ _ _ hb (C09_fv_unit _ _ _ _).1 (C09_fp_unit _ _ _).1 (C09_devprog_ge_one _ _ _ _ _) hdt

/-- the pre-emergence increment is never negative for a non-negative water content of the top layer
and a non-negative moisture threshold 0.3·(FC − WP) + WP -/
theorem C09_emergence_increment_nonneg (temp bas wg0 w0 wmin0 dt x : ℚ) (hwg : 0 ≤ wg0)
    (hthr : 0 ≤ 0.3 * (w0 - wmin0) + wmin0) (hdt : 0 ≤ dt) (h : emergInc temp bas wg0 w0 wmin0 dt = some x) : 0 ≤ x :=
  emergInc_nonneg _ _ _ _ _ _ _ hwg hthr hdt h

/-! ### organs, LAI, biomass, assimilate pool -/

/-- **Organ masses are never negative after the update** — for every state before the call, every
growth / death / maintenance number (no sign or size hypothesis at all), any number of organs. -/
theorem C09_organs_nonneg (e : OrganEnv ℚ) (gehalt lai0 laimax0 pesum0 : ℚ) (above : List ℕ)
    (orgs : List (OrganPar ℚ × ℚ × ℚ)) :
    (∀ w ∈ (organs e gehalt lai0 laimax0 pesum0 above orgs).worg, (0 : ℚ) ≤ w) ∧
    (organs e gehalt lai0 laimax0 pesum0 above orgs).worg.length = orgs.length := by
  simp only [organs]
  constructor
  · exact (organLoop_ok e gehalt orgs 0 _ ⟨by simp, le_of_lt (laiFloor_pos lai0)⟩).1
  · rw [organLoop_length]; simp

/-- **LAI is never negative after the update** (unconditionally). -/
theorem C09_lai_nonneg (e : OrganEnv ℚ) (gehalt lai0 laimax0 pesum0 : ℚ) (above : List ℕ)
    (orgs : List (OrganPar ℚ × ℚ × ℚ)) : 0 ≤ (organs e gehalt lai0 laimax0 pesum0 above orgs).lai := by
  simp only [organs]
  exact (organLoop_ok e gehalt orgs 0 _ ⟨by simp, le_of_lt (laiFloor_pos lai0)⟩).2

/-- **Above-ground biomass (sum of the listed organs) is never negative** (unconditionally). -/
theorem C09_obmas_nonneg (e : OrganEnv ℚ) (gehalt lai0 laimax0 pesum0 : ℚ) (above : List ℕ)
    (orgs : List (OrganPar ℚ × ℚ × ℚ)) : 0 ≤ (organs e gehalt lai0 laimax0 pesum0 above orgs).obmas := by
  have h := (C09_organs_nonneg e gehalt lai0 laimax0 pesum0 above orgs).1
  simp only [organs] at h ⊢
  exact obmas_nonneg above _ h

/-- Assimilate pool: non-negative **relative to** 0 ≤ GPHOT (photosynthesis of the day, from `radia`),
0 ≤ ASPOO before, REDUK ≤ 1. Missing for a full statement: 0 ≤ GPHOT < ∞ is a fact about the
magnitudes of the photosynthesis formulas (exp, log, sin) — observed by the search, not proved. -/
theorem C09_aspoo_nonneg_partial (e : OrganEnv ℚ) (gphot aspoo0 gehalt lai0 laimax0 pesum0 : ℚ) (above : List ℕ)
    (orgs : List (OrganPar ℚ × ℚ × ℚ)) (hg : 0 ≤ gphot) (ha : 0 ≤ aspoo0) (hgtw : e.gtw = gphot + aspoo0)
    (hr : e.reduk ≤ 1) : 0 ≤ (organs e gehalt lai0 laimax0 pesum0 above orgs).aspoo := by
  simp only [organs, hgtw]
  have : 0 ≤ 1 - e.reduk := by linarith
  have : 0 ≤ gphot + aspoo0 := by linarith
  positivity

/-! ### stress factor REDUK -/

/-- In the branch that calls `exp` (MININ < GEHOB < GEHMIN) the exponent 1 + 1/(AUX − 1) is < 0,
so that e = exp(…) ∈ (0,1): the hypothesis of `C09_reduk_unit` is exactly the range of `exp` there. -/
theorem C09_reduk_exponent_neg (ngefkt : ℕ) (gehob gehmin : ℚ) (h1 : minin ngefkt < gehob) (h2 : gehob < gehmin) :
    redukExponent ngefkt gehob gehmin < 0 := by
  simp only [redukExponent, aux]
  have hd : 0 < gehmin - minin ngefkt := by linarith
  have ha : (gehob - minin ngefkt) / (gehmin - minin ngefkt) < 1 := by
    rw [div_lt_one hd]; linarith
  have ha0 : 0 < (gehob - minin ngefkt) / (gehmin - minin ngefkt) := div_pos (by linarith) hd
  have hneg : (gehob - minin ngefkt) / (gehmin - minin ngefkt) - 1 < 0 := by linarith
  have hgt : -1 < (gehob - minin ngefkt) / (gehmin - minin ngefkt) - 1 := by linarith
  have : 1 / ((gehob - minin ngefkt) / (gehmin - minin ngefkt) - 1) < -1 := by
    rw [div_lt_iff_of_neg hneg]; linarith
  linarith

/-- **REDUK ∈ [0,1]** for every N concentration and every critical concentration, given the value
e of `exp` lies in (0,1] (its range for a non-positive argument). -/
theorem C09_reduk_unit (ngefkt : ℕ) (gehob gehmin e : ℚ) (he0 : 0 < e) (he1 : e ≤ 1) :
    0 ≤ reduk ngefkt gehob gehmin e ∧ reduk ngefkt gehob gehmin e ≤ 1 := by
  simp only [reduk]
  split_ifs
  · exact ⟨le_refl _, by norm_num⟩
  · constructor
    · nlinarith [mul_self_nonneg (1 - e)]
    · nlinarith
  · exact ⟨by norm_num, le_refl _⟩

/-! ### rooting depth -/

/-- **1 ≤ WURZ ≤ min(N, root limit)** for every root distribution coefficient Qrez, every soil root
depth WURZMAX, every crop scaling WUMAXPF, profile of N ≥ 1 layers of thickness 0 < DZ ≤ 12 cm
(HERMES: 10): the root limit is WURM = max(1, min(N, round(WURZMAX·WUMAXPF/11))). The float
truncation `int(…)` of the code can only lower the value. -/
theorem C09_root_depth_le (wurzmax n : ℕ) (wumaxpf dz qrez : ℚ) (hn : 1 ≤ n) (hdz : 0 < dz) (hdz2 : dz ≤ 12) :
    1 ≤ rootDepth wurzmax n wumaxpf dz qrez ∧ rootDepth wurzmax n wumaxpf dz qrez ≤ n ∧
    ((rootDepth wurzmax n wumaxpf dz qrez : ℕ) : ℚ) ≤ rootLimit wurzmax n wumaxpf ∧
    rootLimit wurzmax n wumaxpf ≤ max 1 ((Conv.roundNat ((wurzmax : ℚ) * (wumaxpf / 11.0)) : ℕ) : ℚ) := by
  have hb := qrezClamp_bounds qrez (rootLimit wurzmax n wumaxpf) dz (rootLimit_ge_one _ _ _) hdz hdz2
  have hle := rootLimit_le wurzmax n wumaxpf hn
  set x := 4.5 / qrezClamp qrez (rootLimit wurzmax n wumaxpf) dz / dz with hx
  have hfl : (1 : ℤ) ≤ ⌊x⌋ := by rw [Int.le_floor]; simpa using hb.1
  have hrd : rootDepth wurzmax n wumaxpf dz qrez = (⌊x⌋).toNat := rfl
  have hcast : (((⌊x⌋).toNat : ℕ) : ℚ) = ((⌊x⌋ : ℤ) : ℚ) := by
    have : (((⌊x⌋).toNat : ℕ) : ℤ) = ⌊x⌋ := Int.toNat_of_nonneg (by omega)
    exact_mod_cast congrArg (fun z : ℤ => (z : ℚ)) this
  have hq : (((⌊x⌋).toNat : ℕ) : ℚ) ≤ rootLimit wurzmax n wumaxpf := by
    rw [hcast]; exact le_trans (Int.floor_le x) hb.2
  rw [hrd]
  refine ⟨by omega, ?_, hq, rootLimit_le_round _ _ _⟩
  have : (((⌊x⌋).toNat : ℕ) : ℚ) ≤ (n : ℚ) := le_trans hq hle
  exact_mod_cast this

/-! ### N concentrations -/

/-- root N concentration after a day with root growth (either branch): ≥ 0.005 and ≤ max(WGMAX, 0.005) -/
theorem C09_wugeh_bounds (wumalt wumas guardv denom wugeh uptake wgmax : ℚ) (hgrow : wumalt < wumas) :
    0.005 ≤ wugehCore wumalt wumas guardv denom wugeh uptake wgmax ∧
    wugehCore wumalt wumas guardv denom wugeh uptake wgmax ≤ max wgmax 0.005 := by
  simp only [wugehCore, fmin, if_pos hgrow]
  split_ifs <;> refine ⟨?_, ?_⟩ <;>
    first | linarith | exact le_max_right _ _ | exact le_max_of_le_left (by linarith)

/-- **Tissue N concentration of the above-ground mass is never negative** (repaired code: the root's
share of the uptake is min(1, ·)). Hypotheses that remain, each a fact about magnitudes the model does
not produce (they are observed by the search):
* `ho`    OBMAS > 0 after the day (the leaf floor gives ≥ 0.1 kg/ha as long as the leaf is listed);
* `hw`,`hg` root mass > 0, root N concentration ≥ 0 before the day;
* `hu`    the day's uptake SUMPE + NFIX ≥ 0 (uptake formulas: transport / diffusion with exp, sqrt);
* `hroot` crop N after the deduction for dead leaves and stems still covers the root N of the day
          before (PESUM ≥ WUMALT·WUGEH; the deduction 0.7·DGORG·GEHALT depends on the death rates);
* `hfloor` the floor 0.005 on WUGEH is not more than the crop owns (0.005·WUMAS ≤ PESUM + uptake) —
          the floor credits N to the root that was never taken up;
* `hstall` on a day on which the root grows but tops + root together do not (guard false), WUGEH is kept
          and the root N grows by ΔWUMAS·WUGEH without uptake: it must stay within crop N.
No hypothesis on the share ΔWUMAS/(ΔOBMAS+ΔWUMAS) is needed any more. -/
theorem C09_gehob_nonneg (wumalt wumas obalt obmas wugeh sumpe nfix wgmax pesum : ℚ)
    (ho : 0 < obmas) (hw : 0 < wumas) (hg : 0 ≤ wugeh) (hu : 0 ≤ sumpe + nfix) (hroot : wumalt * wugeh ≤ pesum)
    (hfloor : 0.005 * wumas ≤ pesum + (sumpe + nfix))
    (hstall : wumalt < wumas → ¬ 0 < obmas - obalt + wumas - wumalt → wumas * wugeh ≤ pesum + (sumpe + nfix)) :
    0 ≤ gehobUpdate pesum sumpe nfix wumas (wugehUpdate wumalt wumas obalt obmas wugeh sumpe nfix wgmax) obmas := by
  have h := wugehCore_rootN_le wumalt wumas (obmas - obalt + wumas - wumalt) (obmas - obalt + wumas - wumalt) wugeh
    (sumpe + nfix) wgmax pesum hw hg hu hroot hfloor hstall
  simp only [gehobUpdate, wugehUpdate]
  exact div_nonneg (by linarith) (le_of_lt ho)

/-- the same for sugar beet / potato (storage organ in the reference mass, no fixation) -/
theorem C09_gehob_nonneg_beet (wumalt wumas obalt obmas worg3 wugeh sumpe wgmax pesum : ℚ)
    (ho : 0 < obmas + worg3) (hw : 0 < wumas) (hg : 0 ≤ wugeh) (hu : 0 ≤ sumpe) (hroot : wumalt * wugeh ≤ pesum)
    (hfloor : 0.005 * wumas ≤ pesum + sumpe)
    (hstall : wumalt < wumas → ¬ 0 < obmas - obalt + wumas - wumalt → wumas * wugeh ≤ pesum + sumpe) :
    0 ≤ gehobBeet pesum sumpe wumas (wugehBeet wumalt wumas obalt obmas worg3 wugeh sumpe wgmax) obmas worg3 := by
  have h := wugehCore_rootN_le wumalt wumas (obmas - obalt + wumas - wumalt) (obmas + worg3 - obalt + wumas - wumalt) wugeh
    sumpe wgmax pesum hw hg hu hroot hfloor hstall
  simp only [gehobBeet, wugehBeet]
  exact div_nonneg (by linarith) (le_of_lt ho)

/-- the state on which the unrepaired code produced GEHOB < 0 (root +10, tops −9, uptake 0.5, share 10):
with the share capped at 1 the root gets the whole uptake and GEHOB = 0.5/91 -/
example : wugehUpdate (100 : ℚ) 110 100 91 0.01 0.5 0 0.02 = 1.5 / 110 ∧
    gehobUpdate (1.5 : ℚ) 0.5 0 110 (wugehUpdate (100 : ℚ) 110 100 91 0.01 0.5 0 0.02) 91 = 0.5 / 91 := by
  simp only [wugehUpdate, wugehCore, gehobUpdate, fmin]
  norm_num

/-! ### non-vacuity -/

/-- a wheat-like season of five days in which stages 1 and 2 are reached (emergence on day 275, the
next stage on day 277): the hypotheses of `C09_stage_monotone` are satisfiable and the run really advances -/
def exDays : List (ℕ × Option ℚ × (ℕ → Option ℚ)) :=
  [(274, some 80, fun _ => some 10), (275, some 80, fun _ => some 150), (276, none, fun _ => some 150),
   (277, none, fun _ => none), (278, none, fun _ => some 5)]
def exStage : Stage ℚ := { intwick := 0, sum := [0, 0, 0, 0], dev := [0, 0, 0, 0] }
def exTsum : List ℚ := [148, 284, 260, 180]

example : (run 4 exTsum exDays exStage).intwick = 2 ∧ (run 4 exTsum exDays exStage).dev = [0, 275, 277, 0] := by
  norm_num [run, stageStep, advance, emerged, setAt0, setAt1, setAt2, addOpt, exDays, exStage, exTsum]
example : (4 : ℕ) ≤ exStage.dev.length ∧ exStage.intwick = 0 ∧
    (∀ x ∈ exDays, 274 ≤ x.1 ∧ x.1 ≤ 300) ∧ exDays.Pairwise (fun a b => a.1 < b.1) := by
  simp [exDays, exStage]
/-- the increment is really positive on a warm day (not the vacuous `none` case) -/
example : dayIncrement (15 : ℚ) 1 (vernFactor 60 45 15 1).2 (fpFactor 14 20 0) (devProg false 0.5 1 0.8 1) 1 = some (49/4) := by
  simp [dayIncrement, vernFactor, vern, vernEff, fmin, fpFactor, clamp01, devProg, fmax, thermalInc]
  norm_num
/-- REDUK in the `exp` branch with e = 1/2 -/
example : reduk 1 (0.02 : ℚ) 0.04 (1 / 2) = 1 / 4 ∧ minin 1 < (0.02 : ℚ) := by
  simp [reduk, minin]; norm_num
/-- rooting depth: deep roots on a 15-layer profile with root limit round(8·12/11) = 9 -/
example : (1 : ℕ) ≤ 15 ∧ (0 : ℚ) < 10 ∧ (10 : ℚ) ≤ 12 := by norm_num
/-- an organ that would go negative is floored (leaf: 0.1, storage organ: 0) -/
example : (updLow (1 : ℚ) 5 0 20).1 = 0.1 ∧ (updHigh (1 : ℚ) true 5 0 20 0 0 0).1 = 0 := by
  simp [updLow, updHigh]; norm_num
/-- hypotheses of `C09_gehob_nonneg` are satisfiable (the state above) -/
example : (0 : ℚ) < 91 ∧ (0 : ℚ) < 110 ∧ (0 : ℚ) ≤ 0.01 ∧ (0 : ℚ) ≤ 0.5 + 0 ∧ (100 : ℚ) * 0.01 ≤ 1.5 ∧
    (0.005 : ℚ) * 110 ≤ 1.5 + (0.5 + 0) ∧ (0 : ℚ) < 91 - 100 + 110 - 100 := by norm_num

end Hermes.Crop
