import HermesModel.Proto
import HermesModel.Weather
open Hermes Hermes.Proto

namespace Hermes.Driver
open Hermes.Weather

def popNats_Weather : Nat → Toks → Option (List Nat × Toks)
  | 0, r => some ([], r)
  | n + 1, r => do
    let (x, r) ← popNat r
    let (xs, r) ← popNats_Weather n r
    pure (x :: xs, r)

/-- `n (year doy)*n` → records whose payload is the 1-based line number (+ offset) -/
def popRecs : Nat → Nat → Toks → Option (List (Rec Nat) × Toks)
  | 0, _, r => some ([], r)
  | n + 1, k, r => do
    let (y, r) ← popNat r
    let (d, r) ← popNat r
    let (xs, r) ← popRecs n (k + 1) r
    pure ({ year := y, doy := d, val := k, bad := y == 0 } :: xs, r)   -- year 0 = the date did not parse

def fmtNats_Weather (xs : List Nat) : String := " ".intercalate (xs.map toString)

/-- `weather.multi startyear cap n (year doy)*n` → `err` | `yrz JAR[cap] MaxYearDays[cap] ids[cap*366]` -/
def weatherMulti (toks : Toks) : Option String := do
  let (sy, r) ← popNat toks
  let (cap, r) ← popNat r
  let (n, r) ← popNat r
  let (recs, _) ← popRecs n 1 r
  match readMulti sy cap recs with
  | none => some "err"
  | some ms =>
    let idx := List.range cap
    let ids := idx.flatMap fun i => (List.range 366).map fun t => (ms.store.get i t).getD 0
    some (fmtNats_Weather ([ms.yrz] ++ idx.map ms.store.jarAt ++ idx.map ms.store.maxAt ++ ids))

def statusName : YStatus → String
  | .ok => "ok" | .gap => "gap" | .panic => "panic" | .nofile => "nofile" | .empty => "empty" | .beyond => "beyond"

/-- a sequence of year files read into the same store: `k [year hasfile n T*n]*k` -/
def yearsLoop : Nat → Nat → Store Nat → Toks → Option (List String)
  | 0, _, st, _ =>
    some [fmtNats_Weather ((List.range 366).map fun t => (st.get 0 t).getD 0)]
  | k + 1, base, st, r => do
    let (year, r) ← popNat r
    let (has, r) ← popNat r
    let (n, r) ← popNat r
    let (ts, r) ← popNats_Weather n r
    let lines := (List.range n).zipWith (fun i t => (t, base + i + 1)) ts
    let res := readYearFile year st (if has == 1 then some lines else none)
    let ld := match loadYear res.1 1 year with
      | some (_, d) => s!"L{d}"
      | none => "Lerr"
    let rest ← yearsLoop k (base + n) res.1 r
    pure (s!"{statusName res.2} {res.1.jarAt 0} {res.1.maxAt 0} {ld}" :: rest)

def weatherYears (toks : Toks) : Option String := do
  let (k, r) ← popNat toks
  let out ← yearsLoop k 0 {} r
  pure (" ".intercalate out)

/-- `weather.load cap year JAR[cap] MaxYearDays[cap]` → `idx days` | `err` -/
def weatherLoad (toks : Toks) : Option String := do
  let (cap, r) ← popNat toks
  let (year, r) ← popNat r
  let (jar, r) ← popNats_Weather cap r
  let (maxd, _) ← popNats_Weather cap r
  -- a store whose logs reproduce the two int arrays
  let idx := List.range cap
  let st : Store Nat := { jar := idx.zip jar, maxd := idx.zip maxd }
  match loadYear st cap year with
  | some (i, d) => some s!"{i} {d}"
  | none => some "err"

def popDays : Nat → Toks → Option (List (Day Float) × Toks)
  | 0, r => some ([], r)
  | n + 1, r => do
    let (xs, r) ← popFloats 6 r
    match xs with
    | [a, b, c, d, e, f] =>
      let (ds, r) ← popDays n r
      pure ({ tmp := a, verd := b, sund := c, radi := d, reg := e, win := f } :: ds, r)
    | _ => none

def popGrid : Nat → Nat → Toks → Option (Grid Float × Toks)
  | 0, _, r => some ([], r)
  | n + 1, len, r => do
    let (row, r) ← popDays len r
    let (g, r) ← popGrid n len r
    pure ((row ++ List.replicate (366 - len) zeroDay) :: g, r)

def fmtGrid (g : Grid Float) (len : Nat) : String :=
  fmtFloats (g.flatMap fun row => (row.take len).flatMap fun d => [d.tmp, d.verd, d.sund, d.radi, d.reg, d.win])

/-- `weather.replace nv yrz ny MaxYearDays[ny] len rows[ny][len][6]` -/
def weatherReplace (toks : Toks) : Option String := do
  let (nv, r) ← popFloat toks
  let (yrz, r) ← popNat r
  let (ny, r) ← popNat r
  let (maxd, r) ← popNats_Weather ny r
  let (len, r) ← popNat r
  let (g, _) ← popGrid ny len r
  some (fmtGrid (replaceMissing nv maxd yrz g) len)

/-- `weather.transform yrz ny JAR[ny] MaxYearDays[ny] len corr[12] rows[ny][len][6]` -/
def weatherTransform (toks : Toks) : Option String := do
  let (yrz, r) ← popNat toks
  let (ny, r) ← popNat r
  let (jar, r) ← popNats_Weather ny r
  let (maxd, r) ← popNats_Weather ny r
  let (len, r) ← popNat r
  let (corr, r) ← popFloats 12 r
  let (g, _) ← popGrid ny len r
  some (fmtGrid (transform corr jar maxd yrz g) len)

def weatherOps (toks : List String) : String :=
  match toks with
  | "weather.multi" :: rest => (weatherMulti rest).getD "bad-op"
  | "weather.years" :: rest => (weatherYears rest).getD "bad-op"
  | "weather.load" :: rest => (weatherLoad rest).getD "bad-op"
  | "weather.replace" :: rest => (weatherReplace rest).getD "bad-op"
  | "weather.transform" :: rest => (weatherTransform rest).getD "bad-op"
  | _ => "bad-op"

end Hermes.Driver
