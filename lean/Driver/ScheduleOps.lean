import HermesModel.Proto
import HermesModel.Schedule
open Hermes Hermes.Proto

namespace Hermes.Driver
open Hermes.Schedule

def popNats_Schedule : Nat → Toks → Option (List Nat × Toks)
  | 0, r => some ([], r)
  | n + 1, r => do
    let (x, r) ← popNat r
    let (xs, r) ← popNats_Schedule n r
    pure (x :: xs, r)

def natsStr (xs : List Nat) : String := " ".intercalate (xs.map toString)

/-- the first `k` cells of a zero-initialised Go array whose front holds `xs` -/
def padTo {β : Type} (z : β) (k : Nat) (xs : List β) : List β :=
  (xs ++ List.replicate (k - xs.length) z).take k

/-- `n {own date qty ntot ndir nfst nslo nh4 loss}` -/
def popFertLines : Nat → Nat → Toks → Option (List (Ev × Float × FertRow Float) × Toks)
  | 0, _, r => some ([], r)
  | n + 1, id, r => do
    let (own, r) ← popNat r
    let (date, r) ← popNat r
    let (fs, r) ← popFloats 7 r
    let (rest, r) ← popFertLines n (id + 1) r
    match fs with
    | [qty, ntot, ndir, nfst, nslo, nh4, loss] =>
      pure (({ own := own == 1, date, id }, qty, { ntot, ndir, nfst, nslo, nh4, loss }) :: rest, r)
    | _ => none

/-- `schedule.fert beginn factor n lines…` → `ZTDG[0..own+1] (NDIR NH4N NSAS NLAS)[1..own]` (own = number of
lines of the field; cells never written are 0) -/
def schedFert (toks : Toks) : Option String := do
  let (beginn, r) ← popNat toks
  let (factor, r) ← popFloat r
  let (n, r) ← popNat r
  let (ls, _) ← popFertLines n 0 r
  let evs := ls.map (·.1)
  let st := read beginn evs
  let dates := fertDates beginn evs
  let splits := st.kept.map fun e =>
    match ls[e.id]? with
    | some (_, qty, row) =>
      let s := dueng qty factor row
      [s.ndir, s.nh4n, s.nsas, s.nlas]
    | none => []
  let own := (evs.filter (·.own)).length
  let fl := fmtFloats (padTo (0.0 : Float) (4 * own) splits.flatten)
  some (natsStr (padTo 0 (own + 2) dates) ++ (if fl.isEmpty then "" else " " ++ fl))

/-- `n {own date a b}` -/
def popPlainLines : Nat → Nat → Toks → Option (List (Ev × Nat × Nat) × Toks)
  | 0, _, r => some ([], r)
  | n + 1, id, r => do
    let (own, r) ← popNat r
    let (date, r) ← popNat r
    let (a, r) ← popNat r
    let (b, r) ← popNat r
    let (rest, r) ← popPlainLines n (id + 1) r
    pure (({ own := own == 1, date, id }, a, b) :: rest, r)

/-- payload cells: the kept events, then (if `withStale`) the dropped event still sitting in the next slot -/
def payload (ls : List (Ev × Nat × Nat)) (evs : List Ev) (own : Nat) : List Nat × List Nat :=
  let ps := evs.map fun e => match ls[e.id]? with | some (_, a, b) => (a, b) | none => (0, 0)
  (padTo 0 own (ps.map (·.1)), padTo 0 own (ps.map (·.2)))

/-- `schedule.til beginn n lines…` → `EINTE[1..own+1] EINT[0..own-1] TILART[0..own-1]` -/
def schedTil (toks : Toks) : Option String := do
  let (beginn, r) ← popNat toks
  let (n, r) ← popNat r
  let (ls, _) ← popPlainLines n 0 r
  let evs := ls.map (·.1)
  let st := read beginn evs
  let own := (evs.filter (·.own)).length
  let (a, b) := payload ls (st.kept ++ st.stale.toList) own
  some (natsStr (padTo 0 (own + 1) (tilDates beginn evs) ++ a ++ b))

/-- `schedule.irr beginn n lines…` → `ZTBR[0..own-1] BREG[..] BRKZ[..]` (cells after the last event are cleared) -/
def schedIrr (toks : Toks) : Option String := do
  let (beginn, r) ← popNat toks
  let (n, r) ← popNat r
  let (ls, _) ← popPlainLines n 0 r
  let evs := ls.map (·.1)
  let own := (evs.filter (·.own)).length
  let (a, b) := payload ls (irrKept beginn evs) own
  let out := padTo 0 own (irrDates beginn evs) ++ a ++ b
  some (if out.isEmpty then "(none)" else natsStr out)

def firedStr (f : List (Nat × Nat)) : String :=
  if f.isEmpty then "(none)" else " ".intercalate (f.map fun p => s!"{p.1}:{p.2}")

/-- `schedule.run kind first ndays n a1..an [m p1..pm]`: kind 0 fertiliser (`ZTDG[0…]`), 1 irrigation
(`ZTBR[0…]`), 2 tillage (`EINTE[1…]`, then the days on which the postponement condition holds) -/
def schedRun (toks : Toks) : Option String := do
  let (kind, r) ← popNat toks
  let (first, r) ← popNat r
  let (ndays, r) ← popNat r
  let (n, r) ← popNat r
  let (a, r) ← popNats_Schedule n r
  let days := daysFrom first ndays
  match kind with
  | 0 => some (firedStr (runCursor (fertExecDays a) 0 days))
  | 1 => some (firedStr (runCursor a 0 days))
  | 2 =>
    let (m, r) ← popNat r
    let (ps, _) ← popNats_Schedule m r
    some (firedStr (runTillage (fun z => ps.contains z) 0 a days))
  | _ => none

/-- `schedule.irrigate regen breg eta` → `eff regen' fluss0` -/
def schedIrrigate (toks : Toks) : Option String := do
  let (fs, _) ← popFloats 3 toks
  match fs with
  | [regen, breg, eta] =>
    let (eff, regen') := irrigate regen breg
    some (fmtFloats [eff, regen', fluss0 eta regen'])
  | _ => none

def scheduleOps (toks : List String) : String :=
  match toks with
  | "schedule.fert" :: rest => (schedFert rest).getD "bad-op"
  | "schedule.til" :: rest => (schedTil rest).getD "bad-op"
  | "schedule.irr" :: rest => (schedIrr rest).getD "bad-op"
  | "schedule.run" :: rest => (schedRun rest).getD "bad-op"
  | ["schedule.tillog", d] => match d.toNat? with
    | some d => if tillageLogged d then "1" else "0"
    | none => "bad-op"
  | "schedule.irrigate" :: rest => (schedIrrigate rest).getD "bad-op"
  | _ => "bad-op"

end Hermes.Driver
