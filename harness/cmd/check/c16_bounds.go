package main

// Boundary values of the automatic-management table (automan.txt) that genAutoEntry never drew: each
// with a probability of about 0.05, decided by a generator derived from the values the entry already
// has (the random stream of the callers is not shifted).
//
//   TWindow 0/1/2 (0: sliding mean = 0/0), IrrDep below one layer (int(0.x) = 0 layers: mean of no layer)
//   and far below the roots, IrrLow 0 / 100, IrrSt1 > IrrSt2, stages 0 and 7-9, NDem1 = 0, N stages
//   "S0" "S1" "S9", N day-of-year 1-9 (read as a stage), >= 210 and >= 365, OrgTime "0", OrgDoy 0,
//   OrgAmount 0, OrgF "---", HMoMin > 0, SMoMin > SMoMax, RainAv / RainAct 0, TBase negative.

import (
	"os"
	"path/filepath"
	"strings"

	"verifharness/proj"
	"verifharness/vh"
)

func autoEntryBoundaries(a *proj.AutoEntry) {
	seed := uint64(a.NDem1)*1000003 ^ uint64(a.OrgAmount)*7919 ^ uint64(a.IrrDep)*104729 ^ uint64(a.TAccu+1)*31 ^ uint64(a.IrrLow)*2654435761 ^ uint64(len(a.Crop))<<40
	for _, ch := range a.Crop {
		seed = seed*131 + uint64(ch)
	}
	b := vh.NewRng(seed ^ 0x6a09e667f3bcc908)
	if b.Chance(0.08) {
		a.TWindow = []int{0, 0, 1, 2}[b.Intn(4)]
	}
	if b.Chance(0.08) {
		a.IrrDep = []int{0, 5, 9, 10, 150, 200}[b.Intn(6)]
	}
	if b.Chance(0.06) {
		a.IrrLow = []int{0, 100}[b.Intn(2)]
	}
	if b.Chance(0.08) {
		switch b.Intn(4) {
		case 0:
			a.IrrSt1, a.IrrSt2 = 4, 2 // empty stage interval
		case 1:
			a.IrrSt1 = 0
		case 2:
			a.IrrSt2 = b.Range(7, 9)
		case 3:
			a.IrrSt1, a.IrrSt2 = 0, 0
		}
	}
	if b.Chance(0.06) {
		a.NDem1 = 0
	}
	if b.Chance(0.08) {
		a.NStage1 = []string{"S0", "S1", "S9", "005", "001", "210", "365", "400"}[b.Intn(8)]
	}
	if b.Chance(0.06) {
		a.NStage2 = []string{"S0", "S1", "S9", "009", "209", "210", "366"}[b.Intn(7)]
	}
	if b.Chance(0.06) {
		a.NStage3 = []string{"S0", "S1", "S6", "003", "300", "365"}[b.Intn(6)]
	}
	if b.Chance(0.06) {
		a.OrgTime = "0"
	}
	if b.Chance(0.06) {
		a.OrgDoy = 0
	}
	if b.Chance(0.05) {
		a.OrgAmount = 0
	}
	if b.Chance(0.05) {
		a.OrgF = "---"
	}
	if b.Chance(0.06) {
		a.HMoMin = float64(b.Range(5, 60))
		if a.HMoMin > a.HMoMax {
			a.HMoMin = a.HMoMax
		}
	}
	if b.Chance(0.05) {
		a.SMoMin, a.SMoMax = a.SMoMax, a.SMoMin // empty moisture window: sowing only when the window closes
	}
	if b.Chance(0.05) {
		a.RainAv = 0
	}
	if b.Chance(0.05) {
		a.RainAct = 0
	}
	if b.Chance(0.05) {
		a.TBase = -b.Range(1, 9)
	}
}

// c16TrimAutoman: with sowing / harvest automation only, the reader indexes the rows up to column 137
// (input.go:463-487): in every eighth such run the rows are written without their irrigation / fertiliser
// columns (138 characters), as an editor that strips trailing blanks of a hand-made table leaves them.
func c16TrimAutoman(root string, p *proj.Project, cs *c16Case, k int) error {
	if cs.AutoIrr || cs.AutoFert || !(cs.AutoMan || cs.AutoHar) || (k/16)%2 != 1 {
		return nil
	}
	for _, e := range p.Rot {
		if e.AutOrg == 1 {
			return nil // the organic-fertiliser columns (143-159) are read for such a line: the row must have them
		}
	}
	file := filepath.Join(root, "project", p.Name, "automan.txt")
	b, err := os.ReadFile(file)
	if err != nil {
		return err
	}
	lines := strings.Split(string(b), "\n")
	for i := 1; i < len(lines); i++ {
		if len(lines[i]) > 138 {
			lines[i] = lines[i][:138]
		}
	}
	return os.WriteFile(file, []byte(strings.Join(lines, "\n")), 0o644)
}
