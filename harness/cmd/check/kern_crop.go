package main

import (
	"fmt"
	"math"
	"reflect"
	"strings"

	"github.com/zalf-rpm/Hermes2Go/hermes"
	"verifharness/vh"
)

// cropState: the crop state of one day as the probes see it (copied, never mutated).
type cropState struct {
	Zeit    int         `json:"zeit"`
	DOY     int         `json:"doy"` // TAG.Index+1
	AKF     int         `json:"akf"` // AKF.Index
	Crop    string      `json:"crop"`
	Intwick int         `json:"intwick"` // INTWICK.Index (-1 = no crop)
	Sum     [10]float64 `json:"sum"`
	Dev     [10]int     `json:"dev"`
	Worg    [5]float64  `json:"worg"`
	Wdorg   [5]float64  `json:"wdorg"`
	Gorg    [5]float64  `json:"gorg"`
	Dgorg   [5]float64  `json:"dgorg"`
	Obmas   float64     `json:"obmas"`
	Wumas   float64     `json:"wumas"`
	Lai     float64     `json:"lai"`
	Laimax  float64     `json:"laimax"`
	Aspoo   float64     `json:"aspoo"`
	Pesum   float64     `json:"pesum"`
	Gehob   float64     `json:"gehob"`
	Wugeh   float64     `json:"wugeh"`
	Gehmin  float64     `json:"gehmin"`
	Gehmax  float64     `json:"gehmax"`
	Trrel   float64     `json:"trrel"`
	Etrel   float64     `json:"etrel"`
	Reduk   float64     `json:"reduk"`
	Lured   float64     `json:"lured"`
	FV      float64     `json:"fv"`
	FP      float64     `json:"fp"`
	Phyllo  float64     `json:"phyllo"`
	Wurz    int         `json:"wurz"`
	Saat    int         `json:"saat"`
	Ernte   int         `json:"ernte"`
	Ernte2  int         `json:"ernte2"`
	Temp    float64     `json:"temp"`
}

func snapCrop(g *hermes.GlobalVarsMain, l *hermes.CropSharedVars, zeit int) cropState {
	s := cropState{Zeit: zeit, DOY: g.TAG.Index + 1, AKF: g.AKF.Index, Intwick: g.INTWICK.Index,
		Sum: g.SUM, Dev: g.DEV, Worg: g.WORG, Obmas: g.OBMAS, Wumas: g.WUMAS, Lai: g.LAI, Laimax: g.LAIMAX, Aspoo: g.ASPOO,
		Pesum: g.PESUM, Gehob: g.GEHOB, Wugeh: g.WUGEH, Gehmin: g.GEHMIN, Gehmax: g.GEHMAX, Trrel: g.TRREL, Etrel: g.ETREL,
		Reduk: g.REDUK, Lured: g.LURED, FV: l.FV, FP: l.FP, Phyllo: g.PHYLLO, Wurz: g.WURZ,
		Saat: g.SAAT[g.AKF.Index], Ernte: g.ERNTE[g.AKF.Index], Ernte2: g.ERNTE2[g.AKF.Index], Temp: g.TEMP[g.TAG.Index]}
	copy(s.Wdorg[:], g.WDORG[:5])
	copy(s.Gorg[:], l.GORG[:5])
	copy(s.Dgorg[:], l.DGORG[:5])
	return s
}

// cropParams: the parameters of the crop that is growing (constant between sowing and harvest).
type cropParams struct {
	Nrentw, Nrkom, Ngefkt int
	Tsum, Bas, Dryswell   [10]float64
	Laifkt                [10]float64
	Pro, Dead             [10][5]float64
	Wumaxpf, Veloc        float64
	Wurzmax, N            int
	Dz, Dt                float64
	Dauerkult             bool
	Frucht                hermes.CropType
}

func paramsOf(g *hermes.GlobalVarsMain, l *hermes.CropSharedVars) cropParams {
	return cropParams{Nrentw: l.NRENTW, Nrkom: g.NRKOM, Ngefkt: g.NGEFKT, Tsum: g.TSUM, Bas: g.BAS, Dryswell: g.DRYSWELL,
		Laifkt: g.LAIFKT, Pro: g.PRO, Dead: g.DEAD, Wumaxpf: g.WUMAXPF, Veloc: g.VELOC, Wurzmax: g.WURZMAX, N: g.N,
		Dz: g.DZ.Num, Dt: g.DT.Num, Dauerkult: g.DAUERKULT, Frucht: g.FRUCHT[g.AKF.Index]}
}

// ------------------------------------------------------------------ driver lines

func iList(xs []int) string {
	parts := make([]string, len(xs))
	for i, x := range xs {
		parts[i] = fmt.Sprint(x)
	}
	return strings.Join(parts, " ")
}

// crop.stage nrentw intwick doy  temp dt wg0 w0 wmin0 fv fp devprog phyllo  sum[10] tsum[10] bas[10]  dev[10]
// answer: intwick' advanced(0/1) sum'[10] phyllo' dev'[10]
func stageLine(nrentw, intwick, doy int, temp, dt, wg0, w0, wmin0, fv, fp, devprog, phyllo float64, sum, tsum, bas [10]float64, dev [10]int) string {
	return fmt.Sprintf("crop.stage %d %d %d %s %s %s %s %s", nrentw, intwick, doy,
		vh.FVals(temp, dt, wg0, w0, wmin0, fv, fp, devprog, phyllo), vh.FVals(sum[:]...), vh.FVals(tsum[:]...), vh.FVals(bas[:]...), iList(dev[:]))
}

func stageAnswer(intwick int, advanced bool, sum [10]float64, phyllo float64, dev [10]int) string {
	a := 0
	if advanced {
		a = 1
	}
	return fmt.Sprintf("%d %d %s %s %s", intwick, a, vh.FVals(sum[:]...), vh.FVals(phyllo), iList(dev[:]))
}

// crop.organs nrkom nrentw intwick  dt gtw maint reduk sumI tsumI lai laifktPrev laifktCur laifkt0 laimax
//
//	worg[5] gorg[5] dgorg[5] mant[5] proPrev[5] proCur[5] deadPrev[5] deadCur[5]
//
// answer: worg'[5] gorg'[5] dgorg'[5] lai' laimax' aspoo'
func organsLine(nrkom, nrentw, intwick int, sc []float64, vecs ...[5]float64) string {
	var sb strings.Builder
	fmt.Fprintf(&sb, "crop.organs %d %d %d %s", nrkom, nrentw, intwick, vh.FVals(sc...))
	for _, v := range vecs {
		sb.WriteByte(' ')
		sb.WriteString(vh.FVals(v[:]...))
	}
	return sb.String()
}

// crop.reduk ngefkt gehob gehmin e   → reduk
// crop.root wurzmax n  wumaxpf dz qrez → wurz wurm
// crop.incr temp bas fv fp devprog dt → increment

func finite(xs ...float64) bool {
	for _, x := range xs {
		if math.IsNaN(x) || math.IsInf(x, 0) {
			return false
		}
	}
	return true
}

// jsonSafe converts a value into maps/slices in which non-finite floats are strings (encoding/json
// rejects NaN and Inf, and a violation payload must always be writable).
func jsonSafe(v interface{}) interface{} {
	return jsonSafeV(reflect.ValueOf(v))
}

func jsonSafeV(v reflect.Value) interface{} {
	switch v.Kind() {
	case reflect.Ptr, reflect.Interface:
		if v.IsNil() {
			return nil
		}
		return jsonSafeV(v.Elem())
	case reflect.Float64, reflect.Float32:
		f := v.Float()
		if math.IsNaN(f) || math.IsInf(f, 0) {
			return fmt.Sprint(f)
		}
		return f
	case reflect.Struct:
		m := map[string]interface{}{}
		t := v.Type()
		for i := 0; i < v.NumField(); i++ {
			f := t.Field(i)
			if f.PkgPath != "" {
				continue
			}
			name := f.Name
			if tag := f.Tag.Get("json"); tag != "" {
				tag = strings.Split(tag, ",")[0]
				if tag == "-" {
					continue
				}
				if tag != "" {
					name = tag
				}
			}
			m[name] = jsonSafeV(v.Field(i))
		}
		return m
	case reflect.Slice, reflect.Array:
		out := make([]interface{}, v.Len())
		for i := range out {
			out[i] = jsonSafeV(v.Index(i))
		}
		return out
	case reflect.Map:
		m := map[string]interface{}{}
		for _, k := range v.MapKeys() {
			m[fmt.Sprint(k.Interface())] = jsonSafeV(v.MapIndex(k))
		}
		return m
	}
	if v.IsValid() && v.CanInterface() {
		return v.Interface()
	}
	return nil
}

// soilStateInvalid: "" when the soil state the crop model reads (water content and mineral N of the
// layers 1..N at the start of the day) is finite and the water content positive; otherwise what is wrong.
func soilStateInvalid(g *hermes.GlobalVarsMain) string {
	for i := 0; i < g.N; i++ {
		if !finite(g.WG[0][i]) {
			return fmt.Sprintf("WG-nonfinite layer %d: WG=%v", i+1, g.WG[0][i])
		}
		if g.WG[0][i] <= 0 {
			return fmt.Sprintf("WG-nonpositive layer %d: WG=%v", i+1, g.WG[0][i])
		}
		if !finite(g.C1[i]) {
			return fmt.Sprintf("C1-nonfinite layer %d: C1=%v", i+1, g.C1[i])
		}
	}
	return ""
}
