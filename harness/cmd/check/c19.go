package main

import (
	"encoding/json"
	"fmt"
	"math"
	"os"

	"github.com/zalf-rpm/Hermes2Go/hermes"
	"verifharness/proj"
	"verifharness/vh"
)

func init() { register("C19", checkC19) }

// c19Report: a violation inside the admissible input range of the property (class densities and
// measured densities up to 2.3 g/cm3, including the peat range below 0.567) is reported; above
// 2.3 g/cm3 (denser than any soil; outside "admissible") the outcome is only recorded.
func c19Report(c *vh.Ctx, scope, kind, class, what string, payload interface{}) {
	if class == dcHigh {
		c.Count("beyond-admissible(bd>2.3):" + scope + ":" + kind)
		if c.Res.Distribution["beyond-admissible(bd>2.3):"+scope+":"+kind] == 1 {
			c.Note("beyond the admissible range (measured density > 2.3 g/cm3, not a soil): %s %s — %s", scope, kind, what)
		}
		return
	}
	c.Violate("search", scope+":"+kind+":"+class, what, payload)
}

// soilTempPredicates evaluates the kernel-level predicates of C19 on the implementation's answer
// for one day. told = TSOIL[0][0] before the call; prof = TSOIL[0][0..N-1] before the call.
func soilTempPredicates(c *vh.Ctx, sc *soilTempCase, o *soilTempOut, scope string) (ok bool) {
	ok = true
	n := sc.N
	cls := sc.Class
	// (1) finite
	if !allFinite(o.Td...) || !allFinite(o.Tsoil...) || !allFinite(o.Cond...) || !allFinite(o.Cap...) || !allFinite(o.Surf) {
		c19Report(c, scope, "nonfinite", cls, "non-finite soil temperature / conductivity / capacity after one Soiltemp call", sc)
		return false
	}
	// (2) diffusion number of the layers the scheme uses (index 0..N-2)
	for i := 0; i+1 < n; i++ {
		r := diffNumOf(o.Cond[i], o.Cap[i], sc.Dz)
		c.Res.Extra["max_r_seen:"+cls] = math.Max(asF(c.Res.Extra["max_r_seen:"+cls]), r)
		if _, seen := c.Res.Extra["min_r_seen:"+cls]; !seen {
			c.Res.Extra["min_r_seen:"+cls] = r
		}
		c.Res.Extra["min_r_seen:"+cls] = math.Min(asF(c.Res.Extra["min_r_seen:"+cls]), r)
		if !(r >= 0 && r <= 0.5) {
			ok = false
			c19Report(c, scope, "r-range", cls,
				fmt.Sprintf("diffusion number alpha*dt/dz^2 = %.6g outside [0, 1/2] in layer %d (BD %.3g, WG %.4g, HUMUS %.4g, HEATCOND %.6g, HEATCAP %.6g)", r, i+1, sc.Bd[i], sc.Wg[i], sc.Hum[i], o.Cond[i], o.Cap[i]), sc)
			break
		}
	}
	// (3) envelope: every TD / TSOIL value within [min, max] of (previous profile, surface value, base)
	vals := append([]float64{}, sc.Tsoil[:n]...)
	vals = append(vals, o.Surf, sc.Tbase)
	lo, hi := minMax(vals...)
	tol := 1e-9 * (1 + math.Max(math.Abs(lo), math.Abs(hi)))
	for i := 0; i <= n; i++ {
		for _, v := range []float64{o.Td[i], o.Tsoil[i]} {
			if v < lo-tol || v > hi+tol {
				ok = false
				c19Report(c, scope, "envelope", cls,
					fmt.Sprintf("layer temperature TD[%d] = %.9g outside the envelope [%.9g, %.9g] of previous profile, surface value %.6g and base temperature %.6g after one day", i, v, lo, hi, o.Surf, sc.Tbase), sc)
				i = n + 1
				break
			}
		}
	}
	if o.Td[n] != sc.Tbase || o.Tsoil[n] != sc.Tbase {
		ok = false
		c19Report(c, scope, "bottom", cls, fmt.Sprintf("lower boundary TD[N] = %v differs from TBASE = %v", o.Td[n], sc.Tbase), sc)
	}
	if o.Td[0] != o.Surf || o.Tsoil[0] != o.Surf {
		ok = false
		c19Report(c, scope, "top", cls, fmt.Sprintf("TD[0] = %v / TSOIL[0][0] = %v differ from the imposed surface value %v", o.Td[0], o.Tsoil[0], o.Surf), sc)
	}
	// (4) surface formula: convex combination of TMIN, TMAX, yesterday's value; overshoot only beyond 0.0003*radiat > 1
	if !surfaceOk(sc.Rad, sc.Radiat, sc.Tmin, sc.Tmax, sc.Tsoil[0], o.Surf) {
		ok = false
		c.Violate("search", scope+":surface", fmt.Sprintf("surface value %.9g outside the range the formula allows (TMIN %.4g, TMAX %.4g, yesterday %.4g, radiat %.6g)", o.Surf, sc.Tmin, sc.Tmax, sc.Tsoil[0], sc.Radiat), sc)
	}
	return ok
}

func asF(v interface{}) float64 {
	if f, ok := v.(float64); ok {
		return f
	}
	return 0
}

// surfaceOk: the value imposed at the surface lies in the hull of TMIN, TMAX and yesterday's surface
// value, widened by the radiation overshoot 0.69*(TMAX-TMIN)*(sqrt(0.0003*radiat)-1) when that is
// positive. The bound is stated on the inputs: radiat <= 200*RAD (soil cover and evaporation only
// lower it), so the predicate does not depend on the harness's copy of the radiation term — the exact
// formula is the business of the correspondence stage.
func surfaceOk(rad, radiat, tmin, tmax, told, surf float64) bool {
	lo, hi := minMax(tmin, tmax, told)
	rb := math.Max(200*rad, radiat)
	over := 0.0
	if rb > 833 {
		if s := math.Sqrt(0.0003 * rb); s > 1 {
			over = 0.69 * math.Abs(tmax-tmin) * (s - 1)
		}
	}
	tol := 1e-9 * (1 + math.Abs(lo) + math.Abs(hi) + over)
	if tmax >= tmin {
		return surf >= lo-tol && surf <= hi+over+tol // the overshoot is one-sided (C19_surface_overshoot)
	}
	return surf >= lo-over-tol && surf <= hi+tol
}

func soilTempKernelStage(c *vh.Ctx, n int) {
	var cases, impl []string
	var kept []soilTempCase
	for k := 0; k < n; k++ {
		mode := 0
		switch x := c.Rng.Intn(20); {
		case x < 8:
			mode = 0
		case x < 15:
			mode = 1
		case x < 18:
			mode = 2
		default:
			mode = 3
		}
		sc := genSoilTempCase(c.Rng, mode)
		o, g, pan := runSoilTempImpl(&sc)
		c.Eval()
		c.Count("kernel:" + sc.Class)
		c.Count("kernel:shape=" + sc.Shape)
		c.Count(fmt.Sprintf("kernel:N=%d", sc.N))
		switch {
		case sc.Lai >= 3:
			c.Count("kernel:branch=lai>=3")
		case sc.Radiat > 833 && 0.0003*sc.Radiat > 1:
			c.Count("kernel:branch=radiation-overshoot")
		case sc.Radiat > 833:
			c.Count("kernel:branch=radiation")
		default:
			c.Count("kernel:branch=mean")
		}
		if pan != "" {
			c.Violate("search", "soiltemp-kernel:panic", "hermes.Soiltemp panicked: "+pan, sc)
			continue
		}
		c.Nontrivial(fmt.Sprintf("k%d", k))
		if k < 2 {
			c.Sample(sc)
		}
		cases = append(cases, sc.line())
		impl = append(impl, o.line(&sc))
		kept = append(kept, sc)
		ok := soilTempPredicates(c, &sc, &o, "soiltemp-kernel")
		// ---- continuation: further days on the same state with new weather, running envelope
		if ok && k%4 == 1 && (sc.Class == dcClass || sc.Class == dcMid) {
			soilTempMonotone(c, &sc, &o)
		}
		if ok && k%4 == 0 {
			soilTempContinue(c, &sc, g, &o)
		}
	}
	saved := kept
	c.Correspond("soiltemp.day", cases, impl, 1e-9, 1e-12, func(i int) interface{} { return saved[i] })
	// the Lean translation of the CURRENT source of Soiltemp (regenerated on this run) on the same states
	{
		var sic []srcImpCase
		for i := range saved {
			if i >= c.N(1500, 20000) {
				break
			}
			sc := saved[i]
			g := newSoilTempState(&sc)
			sic = append(sic, srcImpCase{Recv: map[string]interface{}{"g": g}, Params: map[string]interface{}{}, Call: func() { hermes.Soiltemp(g) }, Desc: sc})
		}
		correspondSrcImp(c, "Soiltemp", sic, 1e-9, 1e-12)
	}
	if nc := minI(len(saved), 800); nc > 0 && len(impl) == len(saved) { // the same cases in 8 goroutines at once
		concurrentKernelStage(c, "soiltemp", impl[:nc], 8, 2, func(i int) string {
			sc := saved[i]
			o, _, pan := runSoilTempImpl(&sc)
			if pan != "" {
				return "panic " + pan
			}
			return o.line(&sc)
		}, func(i int, got string) {
			if i < 0 {
				c.Violate("search", "soiltemp-kernel:concurrent:panic", "hermes.Soiltemp panics when several simulations run at the same time: "+got, nil)
				return
			}
			sc := saved[i]
			if o, _, _ := runSoilTempImpl(&sc); o.line(&sc) != impl[i] {
				return
			}
			c.Violate("search", "soiltemp-kernel:concurrent:differs-from-sequential", fmt.Sprintf("hermes.Soiltemp on its own state gives another answer when other simulations call it at the same time (state shared between runs): sequential %.60s…, concurrent %.60s…", impl[i], got), sc)
		})
	}
}

// soilTempMonotone: comparison principle on the implementation (C19_day_monotone) — the same layers
// and weather with a start profile and base temperature that are nowhere colder must give TD values
// that are nowhere colder. A negative weight anywhere in the scheme (r < 0 or r > 1/2) breaks this
// even when the sampled state happens to stay inside its envelope.
func soilTempMonotone(c *vh.Ctx, sc *soilTempCase, o *soilTempOut) {
	w := *sc
	w.Tsoil = append([]float64{}, sc.Tsoil...)
	for i := range w.Tsoil {
		if c.Rng.Chance(0.5) {
			w.Tsoil[i] += vh.RoundTo(c.Rng.Uni(0, 15), 1)
		}
	}
	if c.Rng.Chance(0.5) {
		w.Tbase += vh.RoundTo(c.Rng.Uni(0, 10), 1)
	}
	w.derive()
	o2, _, pan := runSoilTempImpl(&w)
	c.Eval()
	if pan != "" {
		return
	}
	c.Count("kernel:monotone-pairs")
	for i := 0; i <= sc.N; i++ {
		tol := 1e-9 * (1 + math.Abs(o.Td[i]) + math.Abs(o2.Td[i]))
		if o2.Td[i] < o.Td[i]-tol {
			c19Report(c, "soiltemp-kernel", "monotone", sc.Class,
				fmt.Sprintf("a warmer start profile / base temperature gives a colder TD[%d]: %.9g < %.9g", i, o2.Td[i], o.Td[i]),
				map[string]interface{}{"colder": sc, "warmer": w})
			return
		}
	}
}

// soilTempContinue calls Soiltemp for further days on the state the first call left (new weather
// and water contents every day) and checks the running envelope: initial profile, every surface
// value so far, base temperature.
func soilTempContinue(c *vh.Ctx, sc *soilTempCase, g *hermes.GlobalVarsMain, first *soilTempOut) {
	n := sc.N
	vals := append([]float64{}, sc.Tsoil[:n]...)
	vals = append(vals, first.Surf, sc.Tbase)
	lo, hi := minMax(vals...)
	idx := g.TAG.Index
	days := 12
	for d := 0; d < days; d++ {
		tmin := vh.RoundTo(c.Rng.Uni(-35, 40), 1)
		tmax := vh.RoundTo(math.Min(45, tmin+c.Rng.Uni(0, 20)), 1)
		g.TMIN[idx], g.TMAX[idx], g.TEMP[idx] = tmin, tmax, (tmin+tmax)/2
		g.RAD[idx] = vh.RoundTo(c.Rng.Uni(0, 18), 2)
		for i := 0; i < n; i++ {
			g.WG[0][i] = math.Max(0.003, g.WG[0][i]+c.Rng.Uni(-0.02, 0.02))
		}
		func() {
			defer func() {
				if r := recover(); r != nil {
					c.Violate("search", "soiltemp-kernel:panic", fmt.Sprint(r), sc)
				}
			}()
			hermes.Soiltemp(g)
		}()
		c.Eval()
		surf := g.TD[0]
		lo, hi = math.Min(lo, surf), math.Max(hi, surf)
		tol := 1e-9 * (1 + math.Max(math.Abs(lo), math.Abs(hi)))
		for i := 0; i <= n; i++ {
			v := g.TD[i]
			if math.IsNaN(v) || math.IsInf(v, 0) {
				c19Report(c, "soiltemp-kernel", "nonfinite", sc.Class, fmt.Sprintf("TD[%d] not finite on continuation day %d", i, d+2), sc)
				return
			}
			if v < lo-tol || v > hi+tol {
				c19Report(c, "soiltemp-kernel", "envelope", sc.Class,
					fmt.Sprintf("TD[%d] = %.9g outside the running envelope [%.9g, %.9g] on continuation day %d", i, v, lo, hi, d+2), sc)
				return
			}
		}
	}
	c.Count("kernel:continued-12-days")
}

// ---------------------------------------------------------------- whole runs

type c19RunCase struct {
	Kind    string        `json:"kind"`
	Project *proj.Project `json:"project"`
	Day     int           `json:"zeit,omitempty"`
	Layer   int           `json:"layer,omitempty"`
	Detail  string        `json:"detail,omitempty"`
}

var peatTextures = []string{"HN", "HH1", "HH2"}

// genC19Project: a generated project with measured densities / extreme weather. kind:
// "class" (class densities only), "measured" (measured densities 0.6-2.3), "peat" (a peat horizon with
// measured density 0.12-0.55), "dense" (beyond the admissible range: a horizon of 2.35-2.6).
func genC19Project(r *vh.Rng, name, kind string) *proj.Project {
	o := proj.Opt{Years: r.Range(1, 3), MinLayers: 2}
	if r.Chance(0.3) {
		o.NoCrop = true
	}
	if r.Chance(0.3) {
		o.ShallowGW = true
	}
	if r.Chance(0.2) {
		o.Extreme = true
	}
	p := proj.Gen(r, name, o)
	if kind != "peat" && r.Chance(0.35) {
		// skeletal soils: the stone fraction scales the water parameters, not the bulk density of the heat scheme
		for i := range p.Soil {
			if r.Chance(0.7) {
				p.Soil[i].Stone = r.Range(45, 90)
			}
		}
	}
	switch kind {
	case "measured":
		for i := range p.Soil {
			if r.Chance(0.8) {
				p.Soil[i].Bulk = vh.RoundTo(r.Uni(0.6, 2.3), 2)
				if r.Chance(0.2) {
					p.Soil[i].Bulk = []float64{0.57, 2.3, 2.2, 0.6}[r.Intn(4)]
				}
			}
		}
	case "peat":
		i := r.Intn(len(p.Soil))
		if len(p.Soil) > 1 && r.Chance(0.7) {
			i = r.Intn(len(p.Soil) - 1) // a horizon the scheme really uses
		}
		p.Soil[i].Bulk = vh.RoundTo(r.Uni(0.12, 0.55), 2)
		p.Soil[i].Texture = peatTextures[r.Intn(len(peatTextures))]
		p.Soil[i].Corg = vh.RoundTo(r.Uni(15, 45), 1)
		p.Soil[i].FC, p.Soil[i].WP, p.Soil[i].PV = 0, 0, 0
		p.Soil[i].Stone = 0
	case "dense":
		i := r.Intn(len(p.Soil))
		p.Soil[i].Bulk = vh.RoundTo(r.Uni(2.35, 2.6), 2)
	}
	// annual mean temperature and extreme weather: frost to -35, heat to 45, radiation beyond 33 MJ
	p.Cfg["AnnualAverageTemperature"] = fmt.Sprintf("%.1f", r.Uni(-2, 26))
	for k := 0; k < len(p.Weather)/25; k++ {
		d := &p.Weather[r.Intn(len(p.Weather))]
		switch r.Intn(3) {
		case 0:
			d.Tmin = vh.RoundTo(r.Uni(-35, -15), 1)
			d.Tmax = vh.RoundTo(d.Tmin+r.Uni(0, 15), 1)
		case 1:
			d.Tmax = vh.RoundTo(r.Uni(32, 45), 1)
			d.Tmin = vh.RoundTo(d.Tmax-r.Uni(0, 22), 1)
		default:
			d.Rad = vh.RoundTo(r.Uni(30, 42), 2)
		}
		d.Tavg = vh.RoundTo((d.Tmin+d.Tmax)/2, 1)
	}
	return p
}

type c19RunState struct {
	started        bool
	lo, hi         float64
	told           float64 // yesterday's surface value
	cls            string
	prevTD         []float64
	incs           [][]float64 // per layer: last increments
	surfIncs       []float64
	days           int
	maxOver        float64
	overshootDays  int
	radiationDays  int
	stop           bool
}

func soilTempRunStage(c *vh.Ctx, nRuns int) {
	root := c.Scratch + "/c19runs"
	os.MkdirAll(root, 0o755)
	kinds := []string{"class", "measured", "measured", "peat", "class", "measured", "dense", "measured"}
	totalDays := 0
	for k := 0; k < nRuns; k++ {
		kind := kinds[k%len(kinds)]
		p := genC19Project(c.Rng.Fork(), fmt.Sprintf("t%d", k), kind)
		if err := p.Write(root, c.Repo); err != nil {
			c.Violate("search", "harness:write", err.Error(), nil)
			return
		}
		st := &c19RunState{}
		fail := func(kindV, what string, zeit, layer int) {
			st.stop = true
			c19Report(c, "soiltemp-run", kindV, st.cls, what, c19RunCase{Kind: kind, Project: p, Day: zeit, Layer: layer, Detail: what})
		}
		probes := &hermes.VerifProbes{
			DayStart: func(g *hermes.GlobalVarsMain, w *hermes.WaterSharedVars, nn *hermes.NitroSharedVars, cr *hermes.CropSharedVars, zeit int, wdt float64) {
				if st.stop {
					return
				}
				idx := g.TAG.Index
				if !st.started {
					st.started = true
					n := g.N
					used := n - 1
					if used < 1 {
						used = 1
					}
					// the bulk density the heat scheme must work with is the one of the soil file (measured value, else
					// the class density) — the class of the run is taken from the INPUT, and the state is compared with it
					want := make([]float64, 0, n)
					for z := 1; z <= n; z++ {
						h := p.Soil[horizonOfLayer(p, z)]
						bd := h.Bulk
						if bd == 0 && h.LD >= 1 && h.LD <= 5 {
							bd = classDensities[h.LD-1]
						}
						want = append(want, bd)
					}
					st.cls = densityClassOf(want[:used])
					for z := 0; z < n; z++ {
						if want[z] > 0 && g.BD[z] != want[z] {
							c19Report(c, "soiltemp-run", "bulk-density-differs-from-soil-file", st.cls, fmt.Sprintf("layer %d: the heat scheme works with bulk density %v, the soil file gives %v (stone fraction %d %%)", z+1, g.BD[z], want[z], p.Soil[horizonOfLayer(p, z+1)].Stone),
								c19RunCase{Kind: kind, Project: p, Day: zeit, Layer: z + 1, Detail: "g.BD vs soil file"})
							break
						}
					}
					// init.go:16-20: linear profile between (TMIN+TMAX)/2 of the start day and TBASE
					t0 := (g.TMIN[g.ITAG-1] + g.TMAX[g.ITAG-1]) / 2
					st.lo, st.hi = minMax(t0, g.TBASE)
					st.told = t0
					st.incs = make([][]float64, n+1)
				}
				// surface value of today against the formula's range (LAI, ETA unchanged since Soiltemp)
				_, radiat := radiatOf(g.LAI, g.RAD[idx], g.ETA, g.TEMP[idx])
				surf := g.TD[0]
				if radiat > 833 {
					st.radiationDays++
					if s := math.Sqrt(0.0003 * radiat); s > 1 {
						st.overshootDays++
						st.maxOver = math.Max(st.maxOver, 0.69*(g.TMAX[idx]-g.TMIN[idx])*(s-1))
					}
				}
				if !surfaceOk(g.RAD[idx], radiat, g.TMIN[idx], g.TMAX[idx], st.told, surf) {
					st.stop = true
					c.Violate("search", "soiltemp-run:surface", fmt.Sprintf("surface value %.9g outside the range the formula allows (TMIN %.4g, TMAX %.4g, yesterday %.6g, radiat %.6g) on day %d", surf, g.TMIN[idx], g.TMAX[idx], st.told, radiat, zeit),
						c19RunCase{Kind: kind, Project: p, Day: zeit})
				}
			},
			DayEnd: func(g *hermes.GlobalVarsMain, w *hermes.WaterSharedVars, nn *hermes.NitroSharedVars, cr *hermes.CropSharedVars, zeit int) {
				if st.stop || !st.started {
					return
				}
				n := g.N
				st.days++
				c.Eval()
				surf := g.TD[0]
				st.lo, st.hi = math.Min(st.lo, math.Min(surf, g.TBASE)), math.Max(st.hi, math.Max(surf, g.TBASE))
				tol := 1e-9 * (1 + math.Max(math.Abs(st.lo), math.Abs(st.hi)))
				for i := 0; i <= n; i++ {
					for _, v := range []float64{g.TD[i], g.TSOIL[0][i]} {
						if math.IsNaN(v) || math.IsInf(v, 0) {
							fail("nonfinite", fmt.Sprintf("soil temperature of node %d not finite on day %d", i, zeit), zeit, i)
							return
						}
						if v < st.lo-tol || v > st.hi+tol {
							fail("envelope", fmt.Sprintf("TD[%d] = %.9g outside the running envelope [%.9g, %.9g] (lowest/highest surface value so far, initial profile, TBASE %.4g) on day %d of the run", i, v, st.lo, st.hi, g.TBASE, st.days), zeit, i)
							return
						}
					}
				}
				if g.TD[n] != g.TBASE {
					fail("bottom", fmt.Sprintf("TD[N] = %v differs from TBASE %v", g.TD[n], g.TBASE), zeit, n)
					return
				}
				// oscillation: sign-alternating, growing day-to-day increments of a computed node that
				// exceed what the surface does in the same window
				if st.prevTD != nil {
					st.surfIncs = append(st.surfIncs, g.TD[0]-st.prevTD[0])
					if len(st.surfIncs) > 6 {
						st.surfIncs = st.surfIncs[1:]
					}
					for i := 1; i < n; i++ {
						st.incs[i] = append(st.incs[i], g.TD[i]-st.prevTD[i])
						if len(st.incs[i]) > 6 {
							st.incs[i] = st.incs[i][1:]
						}
						if oscillating(st.incs[i], st.surfIncs) {
							fail("oscillation", fmt.Sprintf("TD[%d] oscillates with growing amplitude: increments %v (surface increments %v)", i, st.incs[i], st.surfIncs), zeit, i)
							return
						}
					}
				}
				st.prevTD = append(st.prevTD[:0], g.TD[:n+1]...)
				st.told = surf
			},
		}
		res := proj.Run(root, p, probes)
		totalDays += st.days
		c.Count("run:" + kind)
		if st.cls != "" {
			c.Count("run:" + st.cls)
		}
		if st.overshootDays > 0 {
			c.Count("run:with-radiation-overshoot-days")
		}
		if st.radiationDays > 0 {
			c.Count("run:with-radiation-branch")
		}
		c.Res.Extra["run_max_radiation_overshoot_K"] = math.Max(asF(c.Res.Extra["run_max_radiation_overshoot_K"]), st.maxOver)
		if res.Panic != "" {
			c.Violate("search", "soiltemp-run:panic", "run panicked: "+res.Panic, c19RunCase{Kind: kind, Project: p})
		} else if res.Err != nil || st.days == 0 {
			c.Count("run:error-or-empty")
			c.Note("run %s (%s) ended with error %v after %d days", p.Name, kind, res.Err, st.days)
		} else {
			c.Nontrivial("run-" + p.Name)
		}
		if k == 0 {
			c.Sample(map[string]interface{}{"whole_run": p.Name, "kind": kind, "layers": p.N(), "days": st.days, "soil": p.Soil})
		}
		os.RemoveAll(root + "/project/" + p.Name)
	}
	c.Res.Extra["run_days_checked"] = totalDays
}

func oscillating(incs, surf []float64) bool {
	if len(incs) < 6 {
		return false
	}
	for k := 1; k < len(incs); k++ {
		if !(incs[k]*incs[k-1] < 0 && math.Abs(incs[k]) >= 1.3*math.Abs(incs[k-1])) {
			return false
		}
	}
	last := math.Abs(incs[len(incs)-1])
	ms := 0.0
	for _, s := range surf {
		ms = math.Max(ms, math.Abs(s))
	}
	return last > 2 && last > 2*ms
}

// ---------------------------------------------------------------- replay

func c19Replay(c *vh.Ctx, path string) bool {
	b, err := os.ReadFile(path)
	if err != nil {
		return false
	}
	var f struct {
		Replay json.RawMessage `json:"replay"`
	}
	if json.Unmarshal(b, &f) != nil {
		return false
	}
	var sc soilTempCase
	if json.Unmarshal(f.Replay, &sc) != nil || sc.N == 0 || len(sc.Bd) != sc.N {
		return false
	}
	sc.derive()
	o, _, pan := runSoilTempImpl(&sc)
	c.Eval()
	if pan != "" {
		c.Violate("search", "soiltemp-kernel:panic", pan, sc)
		return true
	}
	soilTempPredicates(c, &sc, &o, "soiltemp-kernel")
	c.Correspond("soiltemp.day", []string{sc.line()}, []string{o.line(&sc)}, 1e-9, 1e-12, func(int) interface{} { return sc })
	c.Note("replayed one kernel case from %s", path)
	return true
}

func checkC19(c *vh.Ctx) {
	c.Res.Rule = "kernel: generated states of hermes.Soiltemp (1-20 layers; class densities, measured densities 0.57-2.3, peat 0.1-0.56, beyond 2.3; humus from C_org 0-15 (50) %; water contents between dryness limit and saturation; temperatures -35..45; radiation incl. the overshoot range; rough/linear/flat/spike/sawtooth profiles), each continued for 12 days on every 4th case; non-trivial = distinct generated state. whole runs: generated projects (class / measured / peat / dense horizons, frost -35, heat 45, radiation to 42 MJ) observed through the DayStart/DayEnd probes; non-trivial = run that completed"
	if rp := os.Getenv("VERIF_REPLAY"); rp != "" && c19Replay(c, rp) {
		return
	}
	soilTempKernelStage(c, c.N(10000, 150000))
	soilTempRunStage(c, c.N(80, 800))
}
