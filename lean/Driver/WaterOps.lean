import HermesModel.Proto
import HermesModel.Water
open Hermes Hermes.Proto

namespace Hermes.Driver

/-- `water.step N first draidep outn  dz wdt fluss0 grw draifak gwauf evTail q0prev  wg[N] tp[N] w[N]
wmin[N] ev[N] nfk[N] caps[21]` -/
def waterStep (toks : List String) : Option String := do
  let (n, r) ← popNat toks
  let (first, r) ← popNat r
  let (draidep, r) ← popNat r
  let (outn, r) ← popNat r
  let (sc, r) ← popFloats 8 r
  let (wg, r) ← popFloats n r
  let (tp, r) ← popFloats n r
  let (w, r) ← popFloats n r
  let (wmin, r) ← popFloats n r
  let (ev, r) ← popFloats n r
  let (nfk, r) ← popFloats n r
  let (caps, _) ← popFloats 21 r
  match sc with
  | [dz, wdt, fluss0, grw, draifak, gwauf, evTail, q0prev] =>
    let i : Water.In Float := { dz, wdt, first := first == 1, fluss0, wg, tp, w, wmin, ev, evTail, nfk, caps,
                                grw, draidep, draifak, outn, gwauf, q0prev }
    let o := Water.step i
    some (fmtFloats (o.wg1 ++ o.tp ++ o.ev ++ [o.evTail] ++ o.q1 ++
      [o.qdrain, o.dSicker, o.dCapsum, o.dDraisum, o.dInfilt, o.dTrans]))
  | _ => none

def waterOps (toks : List String) : String :=
  match toks with
  | "water.step" :: rest => (waterStep rest).getD "bad-op"
  | _ => "bad-op"

end Hermes.Driver
