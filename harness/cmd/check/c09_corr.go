package main

import (
	"fmt"
	"math"
	"strings"

	"github.com/zalf-rpm/Hermes2Go/hermes"
	"verifharness/vh"
)

// ---------------------------------------------------------------------------------------------
// Correspondence of C09: one crop day of the real PhytoOut (state before = DayStart probe, state after
// = DayEnd probe) against the Lean model (lean/HermesModel/Crop.lean) on the same inputs.
//   crop.stage  : stage machine + increment formula + FV/FP/devprog  (crop.go:130-181, 239-291, vern)
//   crop.organs : LAI floor, organ update with floors, LAI, ASPOO, OBMAS (206-208, 224-227, 452-517);
//                 GPHOT/MAINT/MANT come from the real radia called on a copy of the day-start state
//   crop.reduk  : REDUK with exp computed here (424-440)
//   crop.root   : rooting depth with Qrez from the real root (572-606)
//   crop.ncont  : WUGEH / GEHOB (741-763, both branches), uptake observed after Nitro
// ---------------------------------------------------------------------------------------------

type dayExtra struct {
	havePE bool
	sumpe  float64
	nfix   float64
	steps  float64
}

func arr10(a [10]float64) string { return vh.FVals(a[:]...) }

func b2i(b bool) int {
	if b {
		return 1
	}
	return 0
}

func c09DayCorr(k *c09Corr, pre, post *cropState, prm *cropParams, gPre *hermes.GlobalVarsMain, lPre *hermes.CropSharedVars,
	g *hermes.GlobalVarsMain, l *hermes.CropSharedVars, ex *dayExtra, sowing bool) {
	if pre.Intwick < 0 || prm.Nrentw < 2 {
		return
	}
	tag := fmt.Sprintf("crop %s day zeit=%d doy=%d stage %d->%d", pre.Crop, pre.Zeit, pre.DOY, pre.Intwick, post.Intwick)
	noNAccel := prm.Frucht == hermes.ZR || prm.Frucht == hermes.SM
	temp := gPre.TEMP[gPre.TAG.Index]
	// ---- stage
	if k.room(len(k.stageCases)) {
		_, _, dlp, _, _, _, _ := hermes.CalculateDayLenght(gPre.TAG.Num, gPre.LAT)
		line := fmt.Sprintf("crop.stage %d %d %d %d %s %s %s %s %s %s %s %s %s", prm.Nrentw, pre.Intwick, pre.DOY, b2i(noNAccel),
			vh.FVals(temp, prm.Dt, gPre.WG[0][0], gPre.W[0], gPre.WMIN[0], dlp, pre.Reduk, pre.Trrel, pre.Lured, gPre.VERNTAGE, lPre.FV, lPre.FP, pre.Phyllo),
			arr10(pre.Sum), arr10(prm.Tsum), arr10(prm.Bas), arr10(gPre.VSCHWELL), arr10(gPre.DAYL), arr10(gPre.DLBAS), arr10(prm.Dryswell), iList(pre.Dev[:]))
		impl := fmt.Sprintf("%d %d %s %s %s", post.Intwick, b2i(post.Intwick == pre.Intwick+1), arr10(post.Sum),
			vh.FVals(post.Phyllo, g.VERNTAGE, post.FV, post.FP), iList(post.Dev[:]))
		k.stageCases = append(k.stageCases, line)
		k.stageImpl = append(k.stageImpl, impl)
		k.stageDesc = append(k.stageDesc, tag)
	}
	emerged := post.Sum[0] >= prm.Tsum[0]
	if sowing {
		// parameter read + first call: only the stage part above and the rooting depth are replayed
		if k.room(len(k.rootCases)) {
			qrez, _, _ := hermes.VerifRoot(prm.Veloc, post.Phyllo+post.Sum[0], prm.Dz)
			k.rootCases = append(k.rootCases, fmt.Sprintf("crop.root %d %d %s", prm.Wurzmax, prm.N, vh.FVals(prm.Wumaxpf, prm.Dz, qrez)))
			k.rootImpl = append(k.rootImpl, fmt.Sprintf("%d %s", post.Wurz, vh.FVals(float64(rootLimit(prm.Wurzmax, prm.Wumaxpf, prm.N)))))
			k.rootDesc = append(k.rootDesc, tag+" (sowing day)")
		}
		return
	}
	if !emerged || post.Intwick < 1 {
		return
	}
	ki := post.Intwick
	// ---- reduk
	if k.room(len(k.redukCases)) {
		minin := 0.004
		if prm.Ngefkt == 1 {
			minin = 0.005
		}
		e := 0.0
		if pre.Gehob < post.Gehmin && !(pre.Gehob <= minin) {
			aux := (pre.Gehob - minin) / (post.Gehmin - minin)
			e = math.Exp(1 + 1/(aux-1))
		}
		k.redukCases = append(k.redukCases, fmt.Sprintf("crop.reduk %d %s", prm.Ngefkt, vh.FVals(pre.Gehob, post.Gehmin, e)))
		k.redukImpl = append(k.redukImpl, vh.FVals(post.Reduk))
		k.redukDesc = append(k.redukDesc, tag)
	}
	// ---- organs: photosynthesis numbers from the real radia on a copy of the day-start state, put
	// into the situation of the call (stage index after the stage test, LAI floor)
	if k.room(len(k.organCases)) && prm.Nrkom >= 1 && prm.Nrkom <= 5 {
		gc := *gPre
		lc := *lPre
		gc.INTWICK.SetByIndex(ki)
		if gc.LAI <= 0 {
			gc.LAI = 0.001
		}
		_, _, gphot, maint := hermes.VerifRadia(&gc, &lc)
		gtw := gphot + pre.Aspoo
		last := !(ki+1 < prm.Nrentw)
		var sb strings.Builder
		fmt.Fprintf(&sb, "crop.organs %d %d %d", prm.Nrkom, b2i(last), len(l.AboveGroundOrgans))
		for _, a := range l.AboveGroundOrgans {
			fmt.Fprintf(&sb, " %d", a)
		}
		sb.WriteByte(' ')
		sb.WriteString(vh.FVals(prm.Dt, gtw, maint, post.Reduk, post.Sum[ki], prm.Tsum[ki], prm.Laifkt[ki-1], prm.Laifkt[ki], prm.Laifkt[0],
			pre.Gehob, pre.Lai, pre.Laimax, pre.Pesum))
		for i := 0; i < prm.Nrkom; i++ {
			sb.WriteByte(' ')
			sb.WriteString(vh.FVals(lc.MANT[i], prm.Pro[ki-1][i], prm.Pro[ki][i], prm.Dead[ki-1][i], prm.Dead[ki][i], pre.Worg[i], pre.Dgorg[i]))
		}
		// PESUM after the loop is not observable at the end of the day (Nitro adds the uptake); the
		// loop's own arithmetic (crop.go:497) is repeated here on the observed death rates
		pes := pre.Pesum
		for i := 1; i < prm.Nrkom && i < 3; i++ {
			pes = pes - 0.7*post.Dgorg[i]*pre.Gehob*prm.Dt
		}
		var out []float64
		out = append(out, post.Worg[:prm.Nrkom]...)
		out = append(out, post.Gorg[:prm.Nrkom]...)
		out = append(out, post.Dgorg[:prm.Nrkom]...)
		out = append(out, post.Lai, post.Laimax, pes, post.Aspoo, post.Obmas)
		k.organCases = append(k.organCases, sb.String())
		k.organImpl = append(k.organImpl, vh.FVals(out...))
		k.organDesc = append(k.organDesc, tag+fmt.Sprintf(" GPHOT=%g MAINT=%g", gphot, maint))
		// ---- N concentrations: uptake as Nitro saw it in the first sub-step. ZR / K: the storage organ
		// counts to the mass the concentration refers to, OBALT = OBMAS before + WORG[3] after the loop
		// (crop.go:507)
		if ex != nil && ex.havePE && k.room(len(k.ncontCases)) {
			beet := prm.Frucht == hermes.ZR || prm.Frucht == hermes.K
			obalt := pre.Obmas
			if beet {
				obalt = pre.Obmas + post.Worg[3]
			}
			k.ncontCases = append(k.ncontCases, fmt.Sprintf("crop.ncont %d ", b2i(beet))+vh.FVals(pre.Wumas, post.Wumas, obalt, post.Obmas, pre.Wugeh, ex.sumpe, ex.nfix, gPre.WGMAX[ki], pes, post.Worg[3], pre.Gehob))
			k.ncontImpl = append(k.ncontImpl, vh.FVals(post.Wugeh, post.Gehob))
			k.ncontDesc = append(k.ncontDesc, tag)
		}
	}
	// ---- rooting depth
	if k.room(len(k.rootCases)) {
		qrez, _, _ := hermes.VerifRoot(prm.Veloc, post.Phyllo+post.Sum[0], prm.Dz)
		k.rootCases = append(k.rootCases, fmt.Sprintf("crop.root %d %d %s", prm.Wurzmax, prm.N, vh.FVals(prm.Wumaxpf, prm.Dz, qrez)))
		k.rootImpl = append(k.rootImpl, fmt.Sprintf("%d %s", post.Wurz, vh.FVals(float64(rootLimit(prm.Wurzmax, prm.Wumaxpf, prm.N)))))
		k.rootDesc = append(k.rootDesc, tag)
	}
}

// ---------------------------------------------------------------------------------------------
// Kernel stage: the real PhytoOut is called directly on generated states of an emerged annual crop,
// biased to the branch boundaries the whole runs rarely reach (organs that would go negative, a
// temperature sum exactly at / above the stage sum, the last stage, LAI at 0, N concentration below
// MININ, root limit 1 / N). The same predicates and the same correspondence as for the whole runs.
// ---------------------------------------------------------------------------------------------

type kernCase struct {
	Crop    string      `json:"crop"`
	Intwick int         `json:"intwick"`
	Nrentw  int         `json:"nrentw"`
	Nrkom   int         `json:"nrkom"`
	Temp    float64     `json:"temp"`
	Sum     [10]float64 `json:"sum"`
	Tsum    [10]float64 `json:"tsum"`
	Worg    [5]float64  `json:"worg"`
	Dgorg   [5]float64  `json:"dgorg_old"`
	Lai     float64     `json:"lai"`
	Gehob   float64     `json:"gehob"`
	Wugeh   float64     `json:"wugeh"`
	Pesum   float64     `json:"pesum"`
	Aspoo   float64     `json:"aspoo"`
	Trrel   float64     `json:"trrel"`
	Reduk   float64     `json:"reduk"`
	Wurzmax int         `json:"wurzmax"`
	N       int         `json:"n"`
	Wumaxpf float64     `json:"wumaxpf"`
	Seed    uint64      `json:"seed"`
}

func pick(r *vh.Rng, xs ...float64) float64 { return xs[r.Intn(len(xs))] }

func c09KernelStage(c *vh.Ctx, k *c09Corr) {
	n := c.N(6000, 120000)
	k.maxPerKernel += n // the kernel cases are compared in addition to the whole-run cases
	crops := []struct {
		code string
		t    hermes.CropType
	}{{"WW", hermes.WW}, {"SM", hermes.SM}, {"WRA", hermes.WRA}, {"SW", hermes.SW}, {"LUP", hermes.LUP}}
	for it := 0; it < n; it++ {
		r := c.Rng.Fork()
		g := hermes.NewGlobalVarsMain()
		var l hermes.CropSharedVars
		g.Kalender = hermes.KalenderConverter(g.DATEFORMAT, ".")
		cr := crops[r.Intn(len(crops))]
		g.AKF.SetByIndex(1)
		g.FRUCHT[1] = cr.t
		g.LEGUM = cr.code == "LUP"
		zeit := 36000 + r.Intn(300)
		g.SAAT[1] = zeit - 50
		g.ERNTE[1], g.ERNTE2[1] = zeit+100, zeit+100
		g.PROGNOS = 1 << 30
		g.TAG.SetByIndex(r.Range(60, 300))
		g.LAT = 52
		g.CO2METH = r.Range(1, 3)
		g.CO2KONZ = 360
		g.MAXAMAX = pick(r, 40, 52, 75)
		g.MINTMP = 4
		temp := vh.RoundTo(r.Uni(-6, 32), 1)
		g.TEMP[g.TAG.Index] = temp
		g.RAD[g.TAG.Index] = vh.RoundTo(r.Uni(1, 14), 1)
		g.N = r.Range(2, 20)
		g.GRW = 99
		for i := 0; i <= g.N; i++ {
			g.W[i], g.WMIN[i], g.WNOR[i] = 0.30, 0.10, 0.28
			g.WG[0][i] = vh.RoundTo(r.Uni(0.11, 0.30), 3)
			g.WG[1][i] = g.WG[0][i]
			g.C1[i] = vh.RoundTo(r.Uni(0.2, 30), 2)
			if i < len(g.AD) {
				g.AD[i] = 0.002
			}
			g.TP[i] = vh.RoundTo(r.Uni(0, 0.05), 3)
		}
		g.WURZMAX = r.Range(1, 15)
		g.WUMAXPF = pick(r, 6, 9, 11, 12, 16)
		g.VELOC = 0.5574 / 200
		l.NRENTW = r.Range(3, 7)
		g.NRKOM = r.Range(3, 5)
		l.AboveGroundOrgans = []int{2, 3, 4, 5}[:g.NRKOM-1]
		l.VerifSetPrivate(hermes.VerifCropPrivate{Temptyp: 1 + r.Intn(2), Kcini: 0.65, Tendsum: 1400})
		ki := r.Range(1, l.NRENTW-1)
		g.INTWICK.SetByIndex(ki)
		g.NGEFKT = pick0(r)
		for s := 0; s < l.NRENTW; s++ {
			g.TSUM[s] = pick(r, 100, 148, 284, 520)
			g.BAS[s] = pick(r, 0, 1, 5, 9)
			g.VSCHWELL[s] = pick(r, 0, 0, 30, 45)
			g.DAYL[s] = pick(r, 0, 20, -14)
			g.DLBAS[s] = pick(r, 0, 7, -18)
			g.DRYSWELL[s] = pick(r, 0.6, 0.8, 1)
			g.LAIFKT[s] = pick(r, 0.002, 0.0018, 0.0012)
			g.WGMAX[s] = pick(r, 0.02, 0.012, 0.01)
			// partitioning: random simplex over the organs
			rest := 1.0
			for o := 0; o < g.NRKOM; o++ {
				p := vh.RoundTo(rest*r.F(), 2)
				if o == g.NRKOM-1 {
					p = rest
				}
				g.PRO[s][o] = p
				rest -= p
				g.DEAD[s][o] = pick(r, 0, 0, 0.02, 0.05, 0.3)
			}
		}
		g.SUM[0] = g.TSUM[0] + vh.RoundTo(r.Uni(0, 20), 1)
		for s := 1; s < ki; s++ {
			g.SUM[s] = g.TSUM[s] + 1
		}
		switch r.Intn(4) { // temperature sum of the current stage: inside, exactly at, just above, far above
		case 0:
			g.SUM[ki] = g.TSUM[ki]
		case 1:
			g.SUM[ki] = g.TSUM[ki] + vh.RoundTo(r.Uni(0, 30), 1)
		default:
			g.SUM[ki] = vh.RoundTo(g.TSUM[ki]*r.F(), 1)
		}
		g.PHYLLO = vh.RoundTo(r.Uni(0, 1500), 0)
		g.VERNTAGE = vh.RoundTo(r.Uni(0, 60), 1)
		for o := 0; o < g.NRKOM; o++ {
			g.WORG[o] = pick(r, 0, 0.1, 1e-9, 0.5, 53, 800, 4000)
			g.MAIRT[o] = pick(r, 0.01, 0.03, 0.015)
			l.DGORG[o] = pick(r, 0, 0, 2, 40)
		}
		if g.WORG[0] == 0 {
			g.WORG[0] = 0.1 // OBMAS / WUMAS = 0 divide (reachable only through the floors' own values)
		}
		if g.WORG[1] == 0 {
			g.WORG[1] = 0.1
		}
		g.LAI = pick(r, 0, 0.001, 0.3, 2.5, 6.5)
		g.OBMAS = 0
		for _, a := range l.AboveGroundOrgans {
			g.OBMAS += g.WORG[a-1]
		}
		g.WUMAS = g.WORG[0]
		g.GEHOB = pick(r, 0.003, 0.005, 0.02, 0.045, 0.06)
		g.WUGEH = pick(r, 0.005, 0.01, 0.02)
		g.PESUM = g.OBMAS*g.GEHOB + g.WUMAS*g.WUGEH
		g.ASPOO = pick(r, 0, 0, 15, 300)
		g.TRREL = pick(r, 0, 0.3, 0.79, 1)
		g.ETREL = g.TRREL
		g.REDUK = pick(r, 0, 0.4, 1)
		g.LURED = pick(r, 1, 1, 0.5)
		kc := kernCase{Crop: cr.code, Intwick: ki, Nrentw: l.NRENTW, Nrkom: g.NRKOM, Temp: temp, Sum: g.SUM, Tsum: g.TSUM, Worg: g.WORG,
			Lai: g.LAI, Gehob: g.GEHOB, Wugeh: g.WUGEH, Pesum: g.PESUM, Aspoo: g.ASPOO, Trrel: g.TRREL, Reduk: g.REDUK,
			Wurzmax: g.WURZMAX, N: g.N, Wumaxpf: g.WUMAXPF}
		copy(kc.Dgorg[:], l.DGORG[:5])
		pre := snapCrop(&g, &l, zeit)
		pre.Crop = cr.code
		gPre, lPre := g, l
		pan := func() (p string) {
			defer func() {
				if rec := recover(); rec != nil {
					p = fmt.Sprint(rec)
				}
			}()
			hermes.PhytoOut(&g, &l, &hermes.HFilePath{}, zeit, &hermes.Config{}, &hermes.CropOutputVars{})
			return ""
		}()
		c.Eval()
		if pan != "" {
			c.Violate("search", "kernel:panic", "PhytoOut panicked on a kernel state: "+firstLine(pan), jsonSafe(kc))
			continue
		}
		post := snapCrop(&g, &l, zeit)
		post.Crop = cr.code
		prm := paramsOf(&g, &l)
		c.Count(fmt.Sprintf("kernel:stage-advance=%v", post.Intwick != pre.Intwick))
		viol := func(sig, what string) {
			c.Violate("search", sig, what+fmt.Sprintf(" (kernel state: crop %s, stage index %d of %d, %d organs)", cr.code, ki, l.NRENTW, g.NRKOM),
				jsonSafe(map[string]interface{}{"kernel_state": kc, "day_end": post}))
		}
		for o := 0; o < g.NRKOM; o++ {
			if !finite(post.Worg[o]) || post.Worg[o] < 0 {
				viol(fmt.Sprintf("kernel:organ:WORG%d", o+1), fmt.Sprintf("organ mass WORG[%d] = %v after the update", o, post.Worg[o]))
			}
			if post.Worg[o] == 0 || post.Worg[o] == 0.1 {
				c.Count(fmt.Sprintf("kernel:floor-engaged:organ%d", o+1))
			}
		}
		if !finite(post.Lai) || post.Lai < 0 {
			viol("kernel:LAI", fmt.Sprintf("LAI = %v after the update", post.Lai))
		}
		if !finite(post.Obmas) || post.Obmas < 0 {
			viol("kernel:OBMAS", fmt.Sprintf("OBMAS = %v after the update", post.Obmas))
		}
		if !(post.Reduk >= 0 && post.Reduk <= 1+1e-9) {
			viol("kernel:range:REDUK", fmt.Sprintf("REDUK = %v", post.Reduk))
		}
		if !(post.FV >= 0 && post.FV <= 1 && post.FP >= 0 && post.FP <= 1) {
			viol("kernel:range:FV-FP", fmt.Sprintf("FV = %v FP = %v", post.FV, post.FP))
		}
		lim := rootLimit(prm.Wurzmax, prm.Wumaxpf, prm.N)
		if post.Wurz < 1 || post.Wurz > lim || post.Wurz > prm.N {
			viol("kernel:wurz", fmt.Sprintf("WURZ = %d outside [1, min(N=%d, limit=%d)]", post.Wurz, prm.N, lim))
		}
		if post.Intwick < pre.Intwick || post.Intwick > pre.Intwick+1 || post.Intwick >= l.NRENTW {
			viol("kernel:stage", fmt.Sprintf("stage index %d -> %d (of %d stages)", pre.Intwick, post.Intwick, l.NRENTW))
		}
		for s := 0; s < 10; s++ {
			if post.Sum[s] < pre.Sum[s] && !(s == post.Intwick && post.Intwick != pre.Intwick) {
				viol("kernel:sum-decreased", fmt.Sprintf("SUM[%d] fell from %v to %v", s, pre.Sum[s], post.Sum[s]))
			}
		}
		c09DayCorr(k, &pre, &post, &prm, &gPre, &lPre, &g, &l, nil, false)
		if it < 2 {
			c.Sample(jsonSafe(kc))
		}
	}
}

func pick0(r *vh.Rng) int { return []int{1, 1, 2, 3, 6}[r.Intn(5)] }
