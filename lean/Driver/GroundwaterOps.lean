import HermesModel.Proto
import HermesModel.GroundWater
open Hermes Hermes.Proto

/-!
Driver operations of the groundwater model (C20).

* `groundwater.level date n (day level)*` → the level of `getLevel` as a bit pattern, or `err`
* `groundwater.sinarg phase tag pi` → the argument of the sine (run.go:361)
* `groundwater.sinus grhi grlo sin` → `GW AMPL GRW` from the polygon-file levels and the sine value
-/
namespace Hermes.Driver
open Hermes.GroundWater

def popSeries : Nat → Toks → Option (List (Nat × Float) × Toks)
  | 0, r => some ([], r)
  | n + 1, r => do
    let (d, r) ← popNat r
    let (v, r) ← popFloat r
    let (xs, r) ← popSeries n r
    pure ((d, v) :: xs, r)

def gwLevel (toks : Toks) : Option String := do
  let (date, r) ← popNat toks
  let (n, r) ← popNat r
  let (s, _) ← popSeries n r
  match getLevel s date with
  | some l => pure (fmtFloat l)
  | none => pure "err"

def gwSinArg (toks : Toks) : Option String := do
  let (phase, r) ← popInt toks
  let (tag, r) ← popFloat r
  let (pi, _) ← popFloat r
  pure (fmtFloat (sinArg tag phase pi))

def gwSinus (toks : Toks) : Option String := do
  let (hi, r) ← popInt toks
  let (lo, r) ← popInt r
  let (sv, _) ← popFloat r
  let gw : Float := gwMean hi lo
  let ampl : Float := gwAmpl hi lo
  pure (fmtFloats [gw, ampl, sinusLevel gw ampl sv])

def groundwaterOps (toks : List String) : String :=
  match toks with
  | "groundwater.level" :: rest => (gwLevel rest).getD "bad-op"
  | "groundwater.sinarg" :: rest => (gwSinArg rest).getD "bad-op"
  | "groundwater.sinus" :: rest => (gwSinus rest).getD "bad-op"
  | _ => "bad-op"

end Hermes.Driver
