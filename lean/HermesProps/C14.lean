/-
C14 — configuration precedence: batch line over project configuration over defaults; unknown keys
are ignored; the order of the arguments is irrelevant.
Property theorems only.  The model (a transcription of hermes/config.go:82-192 and run.go:37-43)
is in HermesModel/Config.lean, helper lemmas in HermesProofs/Config.lean, the default table and the
field names/kinds in HermesModel/Generated/ConfigFacts.lean (regenerated from the source on every
run).  All theorems hold for every float type `F` and every behaviour `pf` of strconv.ParseFloat;
the general ones hold for every default table, so they survive a changed default or a new key.
-/
import HermesProofs.Config
namespace Hermes.Config

section
variable {F : Type} (pf : String → Option F)

/-- The value of a key below the batch line: the file entry of that name decoded into the kind of
the field, else the default. -/
def lowerLayer (v0 : Val F) (file : List (String × FileVal F)) (k : String) : Option (Val F) :=
  match lookup file k with
  | none => some v0
  | some fv => decodeFile (codecOf k) v0 fv

/-- **Precedence.**  For every key `k` of the configuration (default `v0`), whenever the run gets
as far as having a configuration: the effective value is the argument of that name on the batch
line (the last one, read into the kind of the field), otherwise the value of the configuration
file, otherwise the default. -/
theorem C14_precedence (dflt : Table F) (file : List (String × FileVal F))
    (kvs : List (String × String)) (cfg : Table F) (h : effectiveKV pf dflt file kvs = some cfg)
    (k : String) (v0 : Val F) (hk : lookup dflt k = some v0) :
    ∃ lower, lowerLayer v0 file k = some lower ∧
      lookup cfg k = match lookup (argMapKV kvs) k with
                     | some text => overrideVal pf lower text
                     | none => some lower := by
  unfold effectiveKV at h
  cases hf : applyFile dflt file with
  | none => simp [hf] at h
  | some t =>
    simp only [hf] at h
    have hl := lookup_applyFile dflt t file hf k v0 hk
    have ho := lookup_overrideAll pf (argMapKV kvs) (argMapKV_nodup kvs) t cfg h k
    -- the file layer produced a value for k
    cases hlow : lowerLayer v0 file k with
    | none =>
      have : lookup t k = none := by rw [hl]; exact hlow
      have hn : lookup dflt k = none :=
        (lookup_of_keys_eq t dflt (applyFile_keys dflt t file hf) k).mp this
      rw [hk] at hn; cases hn
    | some lower =>
      refine ⟨lower, rfl, ?_⟩
      have hl' : lookup t k = some lower := by rw [hl]; exact hlow
      rw [ho, hl']
      cases lookup (argMapKV kvs) k <;> rfl

/-- The same per kind, spelled out: a text key takes the text of the line verbatim, a numeric key
the number the text parses to, an on/off key the meaning of one of the listed spellings. -/
theorem C14_line_value_used (dflt : Table F) (file : List (String × FileVal F))
    (kvs : List (String × String)) (cfg : Table F) (h : effectiveKV pf dflt file kvs = some cfg)
    (k text : String) (hline : lookup (argMapKV kvs) k = some text) :
    (∀ s, lookup dflt k = some (.text s) → lookup cfg k = some (.text text)) ∧
    (∀ i j, lookup dflt k = some (.int i) → parseInt64 text = some j → lookup cfg k = some (.int j)) ∧
    (∀ x y, lookup dflt k = some (.float x) → pf text = some y → lookup cfg k = some (.float y)) ∧
    (∀ b c, lookup dflt k = some (.switch b) → switchOf text = some c →
        lookup cfg k = some (.switch c)) := by
  refine ⟨fun s hk => ?_, fun i j hk hp => ?_, fun x y hk hp => ?_, fun b c hk hs => ?_⟩
  all_goals
    obtain ⟨lower, hlow, hc⟩ := C14_precedence pf dflt file kvs cfg h k _ hk
    rw [hline] at hc
    unfold lowerLayer at hlow
  · have : ∃ s', lower = .text s' := by
      cases hfk : lookup file k with
      | none => simp [hfk] at hlow; exact ⟨s, hlow.symm⟩
      | some fv =>
        simp [hfk, decodeFile] at hlow
        obtain ⟨a, _, ha⟩ := hlow; exact ⟨a, ha.symm⟩
    obtain ⟨s', rfl⟩ := this
    simpa [overrideVal] using hc
  · have : ∃ i', lower = .int i' := by
      cases hfk : lookup file k with
      | none => simp [hfk] at hlow; exact ⟨i, hlow.symm⟩
      | some fv =>
        simp only [hfk, decodeFile] at hlow
        split at hlow
        · simp at hlow; obtain ⟨a, _, ha⟩ := hlow; exact ⟨a, ha.symm⟩
        · simp at hlow; obtain ⟨a, _, ha⟩ := hlow; exact ⟨_, ha.symm⟩
    obtain ⟨i', rfl⟩ := this
    simpa [overrideVal, hp] using hc
  · have : ∃ x', lower = .float x' := by
      cases hfk : lookup file k with
      | none => simp [hfk] at hlow; exact ⟨x, hlow.symm⟩
      | some fv =>
        simp [hfk, decodeFile] at hlow
        obtain ⟨a, _, ha⟩ := hlow; exact ⟨a, ha.symm⟩
    obtain ⟨x', rfl⟩ := this
    simpa [overrideVal, hp] using hc
  · have : ∃ b', lower = .switch b' := by
      cases hfk : lookup file k with
      | none => simp [hfk] at hlow; exact ⟨b, hlow.symm⟩
      | some fv =>
        simp [hfk, decodeFile] at hlow
        obtain ⟨a, _, ha⟩ := hlow; exact ⟨_, ha.symm⟩
    obtain ⟨b', rfl⟩ := this
    simpa [overrideVal, hs] using hc

/-- **Unknown keys are ignored**: arguments whose name is no configuration key, and tokens that are
not of the form key=value, can be removed from the batch line without changing the effective
configuration (wherever they stand, however often they occur). -/
theorem C14_unknown_keys_ignored (dflt : Table F) (file : List (String × FileVal F)) :
    (∀ kvs : List (String × String),
      effectiveKV pf dflt file kvs =
        effectiveKV pf dflt file (kvs.filter fun kv => (lookup dflt kv.1).isSome)) ∧
    (∀ toks : List String,
      effective pf dflt file toks =
        effectiveKV pf dflt file
          ((toks.filterMap splitToken).filter fun kv => (lookup dflt kv.1).isSome)) := by
  have key : ∀ kvs : List (String × String),
      effectiveKV pf dflt file kvs =
        effectiveKV pf dflt file (kvs.filter fun kv => (lookup dflt kv.1).isSome) := by
    intro kvs
    unfold effectiveKV
    cases hf : applyFile dflt file with
    | none => rfl
    | some t =>
      simp only
      rw [argMapKV_filter (fun k => (lookup dflt k).isSome) kvs]
      apply overrideAll_filter pf (fun k => (lookup dflt k).isSome)
      intro k hk
      have : lookup dflt k = none := by
        cases hl : lookup dflt k with
        | none => rfl
        | some x => simp [hl] at hk
      exact (lookup_of_keys_eq t dflt (applyFile_keys dflt t file hf) k).mpr this
  exact ⟨key, fun toks => key _⟩

/-- **Order independence.**  Argument lists that are permutations of each other, with pairwise
distinct keys, give the same effective configuration (or the same failure) — although the Go code
walks its argument map in random order. -/
theorem C14_order_independent (dflt : Table F) (file : List (String × FileVal F)) :
    (∀ kvs1 kvs2 : List (String × String), kvs1.Perm kvs2 → (kvs1.map (·.1)).Nodup →
      effectiveKV pf dflt file kvs1 = effectiveKV pf dflt file kvs2) ∧
    (∀ toks1 toks2 : List String, toks1.Perm toks2 →
      ((toks1.filterMap splitToken).map (·.1)).Nodup →
      effective pf dflt file toks1 = effective pf dflt file toks2) := by
  have key : ∀ kvs1 kvs2 : List (String × String), kvs1.Perm kvs2 → (kvs1.map (·.1)).Nodup →
      effectiveKV pf dflt file kvs1 = effectiveKV pf dflt file kvs2 := by
    intro kvs1 kvs2 hp hnd
    have hnd2 : (kvs2.map (·.1)).Nodup := (hp.map (·.1)).nodup_iff.mp hnd
    unfold effectiveKV
    cases applyFile dflt file with
    | none => rfl
    | some t =>
      simp only
      rw [argMapKV_of_nodup kvs1 hnd, argMapKV_of_nodup kvs2 hnd2]
      exact overrideAll_perm pf kvs1 kvs2 hp hnd t
  exact ⟨key, fun toks1 toks2 hp hnd => key _ _ (hp.filterMap splitToken) hnd⟩

/-- The loop over the argument map may visit the entries in any order (the Go map range is
random): the result is the same. -/
theorem C14_map_order_irrelevant (t : Table F) (m1 m2 : List (String × String)) (hp : m1.Perm m2)
    (hnd : (m1.map (·.1)).Nodup) : overrideAll pf t m1 = overrideAll pf t m2 :=
  overrideAll_perm pf m1 m2 hp hnd t

/-- **A repeated key: the last one wins** (so with a repeated key the order does matter; this is
outside the property's quantifier, which speaks of subsets of keys). -/
theorem C14_duplicate_key_last_wins (dflt : Table F) (file : List (String × FileVal F))
    (kvs : List (String × String)) (k v : String) (cfg : Table F)
    (h : effectiveKV pf dflt file (kvs ++ [(k, v)]) = some cfg) (v0 : Val F)
    (hk : lookup dflt k = some v0) :
    lookup (argMapKV (kvs ++ [(k, v)])) k = some v ∧
    ∃ lower, lowerLayer v0 file k = some lower ∧ lookup cfg k = overrideVal pf lower v := by
  have hl : lookup (argMapKV (kvs ++ [(k, v)])) k = some v := by
    rw [argMapKV_snoc, lookup_insertArg]; simp
  refine ⟨hl, ?_⟩
  obtain ⟨lower, hlow, hc⟩ := C14_precedence pf dflt file (kvs ++ [(k, v)]) cfg h k v0 hk
  rw [hl] at hc
  exact ⟨lower, hlow, hc⟩

/-- **Idempotence**: applying the arguments of a batch line to the configuration they produced
changes nothing (so a configuration written back to config.yml and run with the same line gives
the same run). -/
theorem C14_override_idempotent (t t1 : Table F) (kvs : List (String × String))
    (h : overrideAll pf t (argMapKV kvs) = some t1) : overrideAll pf t1 (argMapKV kvs) = some t1 :=
  overrideAll_idem pf (argMapKV kvs) (argMapKV_nodup kvs) t t1 h

/-- An on/off key given on the line with a text outside the spelling table keeps the value of the
lower layer (config.go:181-185); a numeric key with an unparsable text stops the run. -/
theorem C14_invalid_values (b : Bool) (x : F) (i : Int) (text : String) :
    (switchOf text = none → overrideVal pf (.switch b) text = some (.switch b)) ∧
    (pf text = none → overrideVal pf (.float x) text = none) ∧
    (parseInt64 text = none → overrideVal pf (Val.int i : Val F) text = none) := by
  refine ⟨fun h => ?_, fun h => ?_, fun h => ?_⟩ <;> simp [overrideVal, h]

/-- The post-processing of readConfig touches only the weather folder, the weather root folder and
the result-file extension, and these only when they are empty (or start with "./"). -/
theorem C14_finalize_keeps_values (root : String) (t : Table F) (k : String)
    (h1 : k ≠ "WeatherFolder") (h2 : k ≠ "WeatherRootFolder") (h3 : k ≠ "ResultFileExt") :
    lookup (finalize root t) k = lookup t k := by
  unfold finalize
  simp only []
  rw [lookup_updText _ _ _ _ h3, lookup_updText _ _ _ _ h2, lookup_updText _ _ _ _ h2,
    lookup_updText _ _ _ _ h1]

end

/-! ### the table regenerated from the source -/

/- The documented defaults (HermesModel/ConfigDoc.lean) are compared with the implementation by the
harness on every run (`default:<Key>` violations carry the concrete input: no file, no arguments);
the theorems above hold for every default table, so a changed default re-checks them without
breaking them. -/

/-- Field names are pairwise distinct, so `lookup` addresses every field. -/
theorem C14_field_names_distinct : (Generated.configFields.map (·.1)).Nodup := by decide

/- The spellings of the on/off keys are regenerated from `featureSwitchStrToID`; the harness checks
the eight documented ones (1/0, on/off, yes/no, true/false) on the implementation, so a changed
spelling shows up with a concrete batch line. -/

/-! ### non-vacuity and the repeated-key witness -/

def demo : Table Unit :=
  [("LeachingDepth", .int 15), ("EndDate", .text "31122010"), ("AutoIrrigation", .switch true)]

/-- With a repeated key the order of the arguments matters (the last one wins). -/
theorem C14_duplicate_key_order_matters :
    effectiveKV (fun _ => none) demo [] [("LeachingDepth", "3"), ("LeachingDepth", "5")] ≠
    effectiveKV (fun _ => none) demo [] [("LeachingDepth", "5"), ("LeachingDepth", "3")] := by decide

example : effectiveKV (fun _ => none) demo [("LeachingDepth", ⟨none, none, some 9⟩)]
    [("Foo", "1"), ("AutoIrrigation", "off"), ("EndDate", "31121990")] =
    some [("LeachingDepth", .int 9), ("EndDate", .text "31121990"), ("AutoIrrigation", .switch false)] := by
  decide

example : effective (fun _ => none) demo [] ["LeachingDepth=7", "bare", "a=b=c", "leachingdepth=2"] =
    some [("LeachingDepth", .int 7), ("EndDate", .text "31122010"), ("AutoIrrigation", .switch true)] := by
  decide

end Hermes.Config
