import HermesModel.Proto
import HermesModel.Rotation
open Hermes Hermes.Proto

namespace Hermes.Driver
open Hermes.Rotation

def popNatsR : Nat → Toks → Option (List Nat × Toks)
  | 0, r => some ([], r)
  | n + 1, r => do
    let (x, r) ← popNat r
    let (xs, r) ← popNatsR n r
    pure (x :: xs, r)

/-- zero array with the three cells around `akf` -/
def cells (akf prev cur next : Nat) : Arr :=
  let base : Arr := fun _ => 0
  let base := if 1 ≤ akf then upd base (akf - 1) prev else base
  upd (upd base akf cur) (akf + 1) next

/-- `rotation.day automan autohar zeit akf saat saat1 saat2 erntePrev ernte ernte2 saatNext saat2Next trig
emerged harTrig orgH` → `saatAfterSowingBlock ernte ernte2 saatNext saat2Next akf' sowEvent harvested` -/
def rotDay (toks : Toks) : Option String := do
  let (xs, _) ← popNatsR 16 toks
  match xs with
  | [automan, autohar, zeit, akf, saat, saat1, saat2, erntePrev, ernte, ernte2, saatNext, saat2Next, trig, emerged, harTrig, orgH] =>
    let c : Cfg := { automan := automan == 1, autohar := autohar == 1 }
    let s : St := { akf, saat := cells akf 0 saat saatNext, saat1 := cells akf 0 saat1 0,
                    saat2 := cells akf 0 saat2 saat2Next, ernte := cells akf erntePrev ernte 0,
                    ernte2 := cells akf 0 ernte2 0 }
    let s1 := sowingBlock c zeit (trig == 1) s
    let s2 := phyto zeit (emerged == 1) (harTrig == 1) s1
    let s3 := harvest c zeit (orgH == 1) s2
    let b (x : Bool) : Nat := if x then 1 else 0
    some (" ".intercalate ([get s1.saat akf, get s3.ernte akf, get s3.ernte2 akf, get s3.saat (akf + 1),
      get s3.saat2 (akf + 1), s3.akf, b (!s3.sown.isEmpty), b (s3.akf != akf)].map toString))
  | _ => none

/-- `rotation.irr saat zeit intwick irrst1 irrst2 defzsum irrmax` → `gate amount` -/
def rotIrr (toks : Toks) : Option String := do
  let (xs, r) ← popNatsR 5 toks
  let (fs, _) ← popFloats 2 r
  match xs, fs with
  | [saat, zeit, intwick, st1, st2], [defz, irrmax] =>
    let g := irrGate saat zeit intwick st1 st2
    some (s!"{if g then 1 else 0} {fmtFloat (irrAmount defz irrmax)}")
  | _, _ => none

/-- `rotation.autoN ndem nmin` → dose -/
def rotAutoN (toks : Toks) : Option String := do
  let (fs, _) ← popFloats 2 toks
  match fs with
  | [ndem, nmin] => some (fmtFloat (autoN ndem nmin))
  | _ => none

/-- `rotation.placeholder saatLast saat2Last` → window day of the placeholder entry -/
def rotPlaceholder (toks : Toks) : Option String := do
  let (xs, _) ← popNatsR 2 toks
  match xs with
  | [a, b] => some (toString (placeholderWindow a b))
  | _ => none

def rotationOps (toks : List String) : String :=
  match toks with
  | "rotation.placeholder" :: rest => (rotPlaceholder rest).getD "bad-op"
  | "rotation.day" :: rest => (rotDay rest).getD "bad-op"
  | "rotation.irr" :: rest => (rotIrr rest).getD "bad-op"
  | "rotation.autoN" :: rest => (rotAutoN rest).getD "bad-op"
  | _ => "bad-op"

end Hermes.Driver
