/-
Model of the batch dispatcher of src/hermes2go/hermes_main.go:192-263, of the result protocol of
hermes/run.go:765-785, of the session file pool hermes/path.go:198-233 and of the day loop header
of hermes/run.go:306-755.  Core Lean only.

The dispatcher is a nondeterministic transition system.  A run is a *function* `run` of its batch
line (hypothesis `runs_share_only_pool`, discharged outside Lean by the regenerated concurrency
facts and the runtime observations of the C03/C11 checks); `run l = none` stands for a run that
ends in `log.Fatal`/`panic` (the Go process is gone; nothing is received any more).
-/
namespace Hermes.Dispatch

/-- Where a started goroutine `session.Run` (hermes_main.go:229) stands. -/
inductive Phase
  | computing   -- inside `returnedWithErr := func() error {…}()` (run.go:16-764)
  | sendLog     -- blocked in `logout <- result.String()` (run.go:777-778), failed runs only
  | sendResult  -- blocked in `out <- result` (run.go:783-785)
  deriving DecidableEq, Repr

structure Job (Line : Type) where
  id : Nat          -- index `i` of the batch line, logID = "[i]" (hermes_main.go:224)
  line : Line
  phase : Phase
  deriving Repr

/-- Parameters: `run` is the whole simulation as a function of the line; `failed r` is
`!result.Success`; `conc` is `concurrentOperations`. -/
structure Cfg (Line Result : Type) where
  run : Line → Option Result
  failed : Result → Bool
  conc : Nat

structure State (Line Result : Type) where
  pending : List (Nat × Line)                 -- selected lines the `for i, line` loop has not reached
  active : List (Job Line)                    -- started goroutines that have not delivered their result
  activeRuns : Nat                            -- the counter `activeRuns` (hermes_main.go:199)
  finished : List (Nat × Result)              -- results received on `resultChannel`, in order
  errSummary : List (Nat × Result)            -- closure variable `errSummary` without its header line
  summaryResult : Option (List (Nat × Result)) -- `errorSummaryResult` (`none` = nil slice, no result yet)
  logs : List Nat                             -- ids whose message was received on `logOutputChan`
  dead : Bool                                 -- the process was ended by log.Fatal / panic in a run

/-- hermes_main.go:202-209: index `i` runs iff `startLine ≤ i` and not (`numberOfLines > 0` and
`i ≥ numberOfLines`); `endLine = 0` stands for every non-positive value (default −1). -/
def selectLines {Line : Type} (startLine endLine : Nat) (lines : List Line) : List (Nat × Line) :=
  (List.zip (List.range lines.length) lines).filter fun p =>
    decide (startLine ≤ p.1) && (decide (endLine = 0) || decide (p.1 < endLine))

def init {Line Result : Type} (sel : List (Nat × Line)) : State Line Result :=
  { pending := sel, active := [], activeRuns := 0, finished := [], errSummary := [],
    summaryResult := none, logs := [], dead := false }

variable {Line Result : Type}

/-- The dispatcher sits in one of its two `select` statements: lines 210-220 (all slots taken) or
233-243 (no line left, runs outstanding). -/
def receiving (M : Cfg Line Result) (s : State Line Result) : Bool :=
  (!s.pending.isEmpty && s.activeRuns == M.conc) || (s.pending.isEmpty && decide (0 < s.activeRuns))

/-- `errSummary` after `errorSummary(result)` (hermes_main.go:257-262). -/
def addSummary (M : Cfg Line Result) (es : List (Nat × Result)) (i : Nat) (r : Result) : List (Nat × Result) :=
  if M.failed r then es ++ [(i, r)] else es

def sendPhase (M : Cfg Line Result) (r : Result) : Phase :=
  if M.failed r then Phase.sendLog else Phase.sendResult

/-- The transitions. -/
inductive Step (M : Cfg Line Result) : State Line Result → State Line Result → Prop
  /-- hermes_main.go:222-230: a free slot, the next selected line is started. -/
  | start (s : State Line Result) (i : Nat) (l : Line) (rest : List (Nat × Line)) :
      s.dead = false → s.pending = (i, l) :: rest → s.activeRuns < M.conc →
      Step M s { s with pending := rest, active := s.active ++ [⟨i, l, .computing⟩],
                        activeRuns := s.activeRuns + 1 }
  /-- run.go:16-775: the run computes its result and reaches its first channel send. -/
  | compute (s : State Line Result) (pre post : List (Job Line)) (j : Job Line) (r : Result) :
      s.dead = false → s.active = pre ++ j :: post → j.phase = .computing → M.run j.line = some r →
      Step M s { s with active := pre ++ { j with phase := sendPhase M r } :: post }
  /-- a run ends in log.Fatal / panic: the process is gone. -/
  | die (s : State Line Result) (pre post : List (Job Line)) (j : Job Line) :
      s.dead = false → s.active = pre ++ j :: post → j.phase = .computing → M.run j.line = none →
      Step M s { s with dead := true }
  /-- hermes_main.go:215-218 / 238-241 with run.go:778. -/
  | recvLog (s : State Line Result) (pre post : List (Job Line)) (j : Job Line) :
      s.dead = false → s.active = pre ++ j :: post → j.phase = .sendLog → receiving M s = true →
      Step M s { s with active := pre ++ { j with phase := .sendResult } :: post, logs := s.logs ++ [j.id] }
  /-- hermes_main.go:212-214 / 235-237 with run.go:784. -/
  | recvResult (s : State Line Result) (pre post : List (Job Line)) (j : Job Line) (r : Result) :
      s.dead = false → s.active = pre ++ j :: post → j.phase = .sendResult → M.run j.line = some r →
      receiving M s = true →
      Step M s { s with active := pre ++ post, activeRuns := s.activeRuns - 1,
                        finished := s.finished ++ [(j.id, r)],
                        errSummary := addSummary M s.errSummary j.id r,
                        summaryResult := some (addSummary M s.errSummary j.id r) }

/-- Both loops of `doConcurrentBatchRun` have ended: the summary is printed. -/
def Final (s : State Line Result) : Prop := s.pending = [] ∧ s.active = []

/-- `n`-step executions. -/
inductive Exec (M : Cfg Line Result) : State Line Result → Nat → State Line Result → Prop
  | refl (s : State Line Result) : Exec M s 0 s
  | step {s s' s'' : State Line Result} {n : Nat} : Step M s s' → Exec M s' n s'' → Exec M s (n + 1) s''

/-- hermes_main.go:244-250: the number printed after "Number of errors:" is `numErr - 1` where
`numErr` counts the printed lines of `errorSummaryResult` (header included; nothing at all when no
result was ever received). -/
def printedLines (s : State Line Result) : Nat :=
  match s.summaryResult with
  | none => 0
  | some es => es.length + 1

def printedCount (s : State Line Result) : Int := (printedLines s : Int) - 1

/-! ### executable successor enumeration (used by the driver; proved equal to `Step`) -/

def splits {α : Type} : List α → List (List α × α × List α)
  | [] => []
  | a :: l => ([], a, l) :: (splits l).map fun t => (a :: t.1, t.2.1, t.2.2)

def startSucc (M : Cfg Line Result) (s : State Line Result) : List (State Line Result) :=
  match s.pending with
  | [] => []
  | (i, l) :: rest =>
    if s.activeRuns < M.conc then
      [{ s with pending := rest, active := s.active ++ [⟨i, l, .computing⟩], activeRuns := s.activeRuns + 1 }]
    else []

def jobSucc (M : Cfg Line Result) (s : State Line Result) (t : List (Job Line) × Job Line × List (Job Line)) :
    Option (State Line Result) :=
  let pre := t.1; let j := t.2.1; let post := t.2.2
  match j.phase, M.run j.line with
  | .computing, some r => some { s with active := pre ++ { j with phase := sendPhase M r } :: post }
  | .computing, none => some { s with dead := true }
  | .sendLog, _ =>
    if receiving M s then
      some { s with active := pre ++ { j with phase := .sendResult } :: post, logs := s.logs ++ [j.id] }
    else none
  | .sendResult, some r =>
    if receiving M s then
      some { s with active := pre ++ post, activeRuns := s.activeRuns - 1,
                    finished := s.finished ++ [(j.id, r)],
                    errSummary := addSummary M s.errSummary j.id r,
                    summaryResult := some (addSummary M s.errSummary j.id r) }
    else none
  | .sendResult, none => none

def successors (M : Cfg Line Result) (s : State Line Result) : List (State Line Result) :=
  if s.dead then [] else startSucc M s ++ (splits s.active).filterMap (jobSucc M s)

/-- Run under a schedule: every choice picks one enabled transition (modulo their number). -/
def runSchedule (M : Cfg Line Result) : State Line Result → List Nat → State Line Result
  | s, [] => s
  | s, c :: cs =>
    match (successors M s)[c % (successors M s).length]? with
    | none => s
    | some t => runSchedule M t cs

end Hermes.Dispatch

/-! ## The session file pool (hermes/path.go:198-233) -/
namespace Hermes.FilePool

variable {Path Content : Type} [DecidableEq Path]

/-- `FilePool.list`: `none` is the nil map. -/
structure Pool (Path Content : Type) where
  list : Option (List (Path × Content))

def lookup (p : Path) : List (Path × Content) → Option Content
  | [] => none
  | (q, c) :: rest => if p = q then some c else lookup p rest

/-- `Get` (path.go:204-226) between `mux.Lock()` and the deferred `Unlock()`, over an immutable
file system `fs` (a missing file is `log.Fatalf`, outside this model). -/
def get (fs : Path → Content) (pool : Pool Path Content) (p : Path) : Pool Path Content × Content :=
  let m := pool.list.getD []                 -- 206-208 `if fp.list == nil { make }`
  match lookup p m with
  | some c => (⟨some m⟩, c)                  -- 209 hit, 225 `return fp.list[fd.FilePath]`
  | none => (⟨some ((p, fs p) :: m)⟩, fs p)  -- 210-222 `os.ReadFile`, store; 225 returns the stored slice

/-- `Close` (path.go:229-233). -/
def close (_ : Pool Path Content) : Pool Path Content := ⟨none⟩

/-- cache invariant: cached content = file content -/
def Inv (fs : Path → Content) (pool : Pool Path Content) : Prop :=
  ∀ p c, lookup p (pool.list.getD []) = some c → c = fs p

/-- A sequence of `Get` calls (any interleaving of the calls of all runs is such a sequence, because
every access to `list` lies inside the mutex span). Each call is tagged with the run that makes it. -/
def getAll (fs : Path → Content) : Pool Path Content → List (Nat × Path) → Pool Path Content × List (Nat × Content)
  | pool, [] => (pool, [])
  | pool, (r, p) :: rest =>
    let (pool', c) := get fs pool p
    let (pool'', cs) := getAll fs pool' rest
    (pool'', (r, c) :: cs)

/-- What run `r` sees. -/
def view (r : Nat) (xs : List (Nat × Content)) : List Content :=
  (xs.filter fun x => x.1 == r).map (·.2)

def callsOf (r : Nat) (xs : List (Nat × Path)) : List Path :=
  (xs.filter fun x => x.1 == r).map (·.2)

end Hermes.FilePool

/-! ## The day loop header (hermes/run.go:306, 751-753) -/
namespace Hermes.RunLoop

/-- `for ZEIT := BEGINN; ZEIT <= g.ENDE; ZEIT += g.DT.Index { body; if ZEIT == g.ENDE { break } }`.
The body may fail (a returned error ends the run), may change any state `σ` and may move `g.ENDE`
(fertiliser prediction: dung.go:87-92,158-180; output.go:29).  `none` = fuel exhausted. -/
def loop {σ ε : Type} (body : σ → Nat → Nat → Except ε (σ × Nat)) (dt : Nat) :
    Nat → Nat → Nat → σ → Option (Except ε σ)
  | 0, _, _, _ => none
  | fuel + 1, zeit, ende, s =>
    if zeit > ende then some (.ok s) else
    match body s zeit ende with
    | .error e => some (.error e)
    | .ok (s', ende') =>
      if zeit = ende' then some (.ok s') else loop body dt fuel (zeit + dt) ende' s'

end Hermes.RunLoop
