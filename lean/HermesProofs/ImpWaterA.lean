/-
Refinement of the regenerated translation of `hermes.Water` (HermesModel/Generated/ImpWater.lean) to the hand-written model
`Water.step` — part A: the uptake loops (water.go:815-831) and the infiltration cascade with its `break` (water.go:833-861).

Method as in HermesProofs/ImpSoiltemp.lean for the map-style loops (pointwise characterisation, `loopUp_noBrk_ind`); the cascades
carry a value from one iteration to the next and leave by `break`: they are characterised by induction over the REMAINING
iterations (`loopUpN` peels the first iteration, exactly like the model's recursion over the list of remaining layers).
-/
import HermesProofs.RatInst
import HermesProofs.ImpSoiltemp
import HermesModel.Water
import HermesModel.Generated.ImpWater
import Mathlib.Tactic.Linarith
import Mathlib.Tactic.Ring
import Mathlib.Tactic.NormNum
import Mathlib.Tactic.SplitIfs

namespace Hermes.ImpWater
open Hermes.Imp Hermes.Water
open Hermes.ImpSoiltemp (vw vw_length vw_getElem rd_wr_nat getD_of_lt vw_getD)
open Hermes.Generated.Imp.Water

/-! ### generic: a loop without `break` peeled from the front -/

theorem loopUpN_noBrk_succ {σ : Type} (body : Int → σ → σ) (n : Nat) (i : Int) (s : σ) :
    loopUpN noBrk body (n + 1) i s = loopUpN noBrk body n (i + 1) (body i s) := by
  simp [loopUpN, noBrk]

theorem wr_rd_self (l : List ℚ) (i : Nat) (h : i < l.length) : wr l (i : Int) (rd l (i : Int)) = l := by
  unfold wr rd
  have : ¬ ((i : Int) < 0) := by omega
  simp only [this, if_false, Int.toNat_natCast]
  apply List.ext_getElem
  · simp
  · intro j h1 h2
    by_cases hij : i = j
    · subst hij; simp [List.getD_eq_getElem?_getD, h]
    · simp [List.getElem_set_ne hij]

/-! ### the uptake loops -/

/-- water.go:816-822: the limited uptake of layer `j` -/
def limOf (s : St ℚ) (j : Nat) : ℚ :=
  if (rd s.g_WG_0 (j : Int) - rd s.g_WMIN (j : Int)) * s.g_DZ_Num < rd s.g_TP (j : Int) then
    (if rd s.g_WG_0 (j : Int) < rd s.g_WMIN (j : Int) then 0 else (rd s.g_WG_0 (j : Int) - rd s.g_WMIN (j : Int)) * s.g_DZ_Num)
  else rd s.g_TP (j : Int)

theorem loop1_spec (m : MathFns ℚ) (s : St ℚ) (N : Nat) (hN : s.g_N = (N : Int))
    (lTP : N ≤ s.g_TP.length) (lW0 : N ≤ s.v_WATER_0.length) :
    ∃ TP W0, loopUp noBrk 0 s.g_N (loop1 m) s = { s with g_TP := TP, v_WATER_0 := W0 } ∧
      TP.length = s.g_TP.length ∧ W0.length = s.v_WATER_0.length ∧
      (∀ j : Nat, rd TP (j : Int) = if j < N then limOf s j else rd s.g_TP (j : Int)) ∧
      (∀ j : Nat, rd W0 (j : Int) =
        if j < N then rd s.g_WG_0 (j : Int) * s.g_DZ_Num - limOf s j * s.p_wdt else rd s.v_WATER_0 (j : Int)) := by
  rw [show loopUp noBrk 0 s.g_N (loop1 m) s = loopUp noBrk 0 (N : Int) (loop1 m) s from by rw [hN]]
  have hcnt : ((N : Int) - 0).toNat = N := by omega
  have key := loopUp_noBrk_ind (loop1 m)
    (fun k t => ∃ TP W0, t = { s with g_TP := TP, v_WATER_0 := W0 } ∧
      TP.length = s.g_TP.length ∧ W0.length = s.v_WATER_0.length ∧
      (∀ j : Nat, rd TP (j : Int) = if j < k then limOf s j else rd s.g_TP (j : Int)) ∧
      (∀ j : Nat, rd W0 (j : Int) =
        if j < k then rd s.g_WG_0 (j : Int) * s.g_DZ_Num - limOf s j * s.p_wdt else rd s.v_WATER_0 (j : Int)))
    0 (N : Int) s ⟨_, _, rfl, rfl, rfl, by intro j; simp, by intro j; simp⟩
    (by
      intro k hk t ⟨TP, W0, ht, hTP, hW0, p1, p2⟩
      rw [hcnt] at hk
      subst ht
      have hk1 : k < TP.length := by omega
      have hk2 : k < W0.length := by omega
      have hTPk : rd TP (k : Int) = rd s.g_TP (k : Int) := by rw [p1 k]; simp
      refine ⟨wr TP (k : Int) (limOf s k), wr W0 (k : Int) (rd s.g_WG_0 (k : Int) * s.g_DZ_Num - limOf s k * s.p_wdt), ?_,
        by simp [hTP], by simp [hW0], ?_, ?_⟩
      · have h0 : (0.0 : ℚ) = 0 := by norm_num
        simp only [loop1, Int.zero_add, h0, hTPk]
        by_cases c1 : (rd s.g_WG_0 (k : Int) - rd s.g_WMIN (k : Int)) * s.g_DZ_Num < rd s.g_TP (k : Int)
        · by_cases c2 : rd s.g_WG_0 (k : Int) < rd s.g_WMIN (k : Int)
          · simp only [c1, c2, ↓reduceIte, limOf, rd_wr_same TP _ _ (by omega : (0 : Int) ≤ (k : Int)) (by simpa using hk1)]
          · simp only [c1, c2, ↓reduceIte, limOf, rd_wr_same TP _ _ (by omega : (0 : Int) ≤ (k : Int)) (by simpa using hk1)]
        · -- TP[k] is not written: `wr TP k (rd TP k)` is the same list
          have hl : limOf s k = rd TP (k : Int) := by simp only [limOf, c1, ↓reduceIte, hTPk]
          simp only [c1, ↓reduceIte, hl, wr_rd_self TP k hk1]
      · intro j
        rw [rd_wr_nat TP k j _ hk1, p1 j]
        by_cases hj : k = j
        · subst hj; simp
        · simp only [hj, if_false]
          by_cases hj2 : j < k
          · have : j < k + 1 := by omega
            simp [hj2, this]
          · have : ¬ j < k + 1 := by omega
            simp [hj2, this]
      · intro j
        rw [rd_wr_nat W0 k j _ hk2, p2 j]
        by_cases hj : k = j
        · subst hj; simp
        · simp only [hj, if_false]
          by_cases hj2 : j < k
          · have : j < k + 1 := by omega
            simp [hj2, this]
          · have : ¬ j < k + 1 := by omega
            simp [hj2, this])
  rw [hcnt] at key
  exact key


theorem loop2_spec (m : MathFns ℚ) (s : St ℚ) (N : Nat) (hN : s.g_N = (N : Int))
    (lG : N ≤ s.g_WG_0.length) (lW0 : N ≤ s.v_WATER_0.length) :
    ∃ G W0, loopUp noBrk 0 s.g_N (loop2 m) s = { s with g_WG_0 := G, v_WATER_0 := W0 } ∧
      G.length = s.g_WG_0.length ∧ W0.length = s.v_WATER_0.length ∧
      (∀ j : Nat, rd G (j : Int) = if j < N then rd s.g_WG_1 (j : Int) else rd s.g_WG_0 (j : Int)) ∧
      (∀ j : Nat, rd W0 (j : Int) =
        if j < N then rd s.g_WG_1 (j : Int) * s.g_DZ_Num - rd s.g_TP (j : Int) * s.p_wdt else rd s.v_WATER_0 (j : Int)) := by
  rw [show loopUp noBrk 0 s.g_N (loop2 m) s = loopUp noBrk 0 (N : Int) (loop2 m) s from by rw [hN]]
  have hcnt : ((N : Int) - 0).toNat = N := by omega
  have key := loopUp_noBrk_ind (loop2 m)
    (fun k t => ∃ G W0, t = { s with g_WG_0 := G, v_WATER_0 := W0 } ∧
      G.length = s.g_WG_0.length ∧ W0.length = s.v_WATER_0.length ∧
      (∀ j : Nat, rd G (j : Int) = if j < k then rd s.g_WG_1 (j : Int) else rd s.g_WG_0 (j : Int)) ∧
      (∀ j : Nat, rd W0 (j : Int) =
        if j < k then rd s.g_WG_1 (j : Int) * s.g_DZ_Num - rd s.g_TP (j : Int) * s.p_wdt else rd s.v_WATER_0 (j : Int)))
    0 (N : Int) s ⟨_, _, rfl, rfl, rfl, by intro j; simp, by intro j; simp⟩
    (by
      intro k hk t ⟨G, W0, ht, hG, hW0, p1, p2⟩
      rw [hcnt] at hk
      subst ht
      have hk1 : k < G.length := by omega
      have hk2 : k < W0.length := by omega
      refine ⟨wr G (k : Int) (rd s.g_WG_1 (k : Int)),
        wr W0 (k : Int) (rd s.g_WG_1 (k : Int) * s.g_DZ_Num - rd s.g_TP (k : Int) * s.p_wdt), ?_, by simp [hG], by simp [hW0], ?_, ?_⟩
      · simp only [loop2, Int.zero_add, rd_wr_same G _ _ (by omega : (0 : Int) ≤ (k : Int)) (by simpa using hk1)]
      · intro j
        rw [rd_wr_nat G k j _ hk1, p1 j]
        by_cases hj : k = j
        · subst hj; simp
        · simp only [hj, if_false]
          by_cases hj2 : j < k
          · have : j < k + 1 := by omega
            simp [hj2, this]
          · have : ¬ j < k + 1 := by omega
            simp [hj2, this]
      · intro j
        rw [rd_wr_nat W0 k j _ hk2, p2 j]
        by_cases hj : k = j
        · subst hj; simp
        · simp only [hj, if_false]
          by_cases hj2 : j < k
          · have : j < k + 1 := by omega
            simp [hj2, this]
          · have : ¬ j < k + 1 := by omega
            simp [hj2, this])
  rw [hcnt] at key
  exact key

/-! ### infiltration: the fill loop below the wetting front (water.go:852-856) -/

theorem loop4_spec (m : MathFns ℚ) (k1 : Int) (t : St ℚ) (N a : Nat) (hN : t.g_N = (N : Int)) (ha : 1 ≤ a)
    (lW1 : N ≤ t.v_WATER_1.length) (lQ : N + 1 ≤ t.g_Q1.length) :
    ∃ A Q, loopUp noBrk (a : Int) (t.g_N + 1) (loop4 m k1) t = { t with v_WATER_1 := A, g_Q1 := Q } ∧
      A.length = t.v_WATER_1.length ∧ Q.length = t.g_Q1.length ∧
      (∀ j : Nat, rd A (j : Int) = if a ≤ j + 1 ∧ j + 1 ≤ N then rd t.v_WATER_0 (j : Int) else rd t.v_WATER_1 (j : Int)) ∧
      (∀ j : Nat, rd Q (j : Int) = if a ≤ j ∧ j ≤ N then 0 else rd t.g_Q1 (j : Int)) := by
  rw [show loopUp noBrk (a : Int) (t.g_N + 1) (loop4 m k1) t = loopUp noBrk (a : Int) ((N : Int) + 1) (loop4 m k1) t from by rw [hN]]
  have hcnt : (((N : Int) + 1) - (a : Int)).toNat = N + 1 - a := by omega
  have key := loopUp_noBrk_ind (loop4 m k1)
    (fun k u => ∃ A Q, u = { t with v_WATER_1 := A, g_Q1 := Q } ∧
      A.length = t.v_WATER_1.length ∧ Q.length = t.g_Q1.length ∧
      (∀ j : Nat, rd A (j : Int) = if a ≤ j + 1 ∧ j + 1 < a + k then rd t.v_WATER_0 (j : Int) else rd t.v_WATER_1 (j : Int)) ∧
      (∀ j : Nat, rd Q (j : Int) = if a ≤ j ∧ j < a + k then 0 else rd t.g_Q1 (j : Int)))
    (a : Int) ((N : Int) + 1) t
    ⟨_, _, rfl, rfl, rfl, by intro j; simp; all_goals (intro h1 h2; omega), by intro j; simp; all_goals (intro h1 h2; omega)⟩
    (by
      intro k hk u ⟨A, Q, hu, hA, hQ, p1, p2⟩
      rw [hcnt] at hk
      subst hu
      have e1 : ((a + k : Nat) : Int) - 1 = ((a + k - 1 : Nat) : Int) := by omega
      have e2 : (a : Int) + (k : Int) = ((a + k : Nat) : Int) := by push_cast; ring
      have hk1 : a + k - 1 < A.length := by omega
      have hk2 : a + k < Q.length := by omega
      have h0 : (0.0 : ℚ) = 0 := by norm_num
      refine ⟨wr A ((a + k - 1 : Nat) : Int) (rd t.v_WATER_0 ((a + k - 1 : Nat) : Int)), wr Q ((a + k : Nat) : Int) 0, ?_,
        by simp [hA], by simp [hQ], ?_, ?_⟩
      · simp only [loop4, e2, e1, h0]
      · intro j
        rw [rd_wr_nat A (a + k - 1) j _ hk1, p1 j]
        by_cases hj : a + k - 1 = j
        · have : a ≤ j + 1 ∧ j + 1 < a + (k + 1) := by omega
          subst hj; simp [this]
        · simp only [hj, if_false]
          by_cases hj2 : a ≤ j + 1 ∧ j + 1 < a + k
          · have : a ≤ j + 1 ∧ j + 1 < a + (k + 1) := by omega
            simp [hj2, this]
          · have : ¬ (a ≤ j + 1 ∧ j + 1 < a + (k + 1)) := by omega
            simp [hj2, this]
      · intro j
        rw [rd_wr_nat Q (a + k) j _ hk2, p2 j]
        by_cases hj : a + k = j
        · have : a ≤ j ∧ j < a + (k + 1) := by omega
          subst hj; simp [this]
        · simp only [hj, if_false]
          by_cases hj2 : a ≤ j ∧ j < a + k
          · have : a ≤ j ∧ j < a + (k + 1) := by omega
            simp [hj2, this]
          · have : ¬ (a ≤ j ∧ j < a + (k + 1)) := by omega
            simp [hj2, this])
  rw [hcnt] at key
  obtain ⟨A, Q, e, lA, lQ', p1, p2⟩ := key
  refine ⟨A, Q, e, lA, lQ', ?_, ?_⟩
  · intro j
    rw [p1 j]
    by_cases h : a ≤ j + 1 ∧ j + 1 ≤ N
    · have : a ≤ j + 1 ∧ j + 1 < a + (N + 1 - a) := by omega
      simp [h, this]
    · have : ¬ (a ≤ j + 1 ∧ j + 1 < a + (N + 1 - a)) := by omega
      simp [h, this]
  · intro j
    rw [p2 j]
    by_cases h : a ≤ j ∧ j ≤ N
    · have : a ≤ j ∧ j < a + (N + 1 - a) := by omega
      simp [h, this]
    · have : ¬ (a ≤ j ∧ j < a + (N + 1 - a)) := by omega
      simp [h, this]


/-! ### infiltration: the cascade with its `break` (water.go:845-869) -/

/-- (WATER0, W) of the layers i, i+1, …, N−1 (0-based) -/
def infRest (t : St ℚ) (i N : Nat) : List (ℚ × ℚ) :=
  (List.range (N - i)).map (fun (d : Nat) => (rd t.v_WATER_0 ((i + d : Nat) : Int), rd t.g_W ((i + d : Nat) : Int)))

theorem infRest_length (t : St ℚ) (i N : Nat) : (infRest t i N).length = N - i := by simp [infRest]

theorem infRest_nil (t : St ℚ) (N : Nat) : infRest t N N = [] := by simp [infRest]

theorem infRest_cons (t : St ℚ) (i N : Nat) (h : i < N) :
    infRest t i N = (rd t.v_WATER_0 (i : Int), rd t.g_W (i : Int)) :: infRest t (i + 1) N := by
  unfold infRest
  have e : N - i = (N - (i + 1)) + 1 := by omega
  rw [e, List.range_succ_eq_map, List.map_cons, List.map_map]
  simp only [Nat.add_zero, List.cons.injEq, true_and]
  apply List.map_congr_left
  intro d _
  simp only [Function.comp]
  have : i + (d + 1) = i + 1 + d := by omega
  rw [this]

theorem infRest_getD_fst (t : St ℚ) (i N d : Nat) (h : d < N - i) :
    ((infRest t i N).map (·.1)).getD d 0 = rd t.v_WATER_0 ((i + d : Nat) : Int) := by
  rw [getD_of_lt _ _ (by simpa [infRest] using h)]
  simp [infRest]

theorem zeros_getD (l : List (ℚ × ℚ)) (d : Nat) : (l.map (fun _ => (0 : ℚ))).getD d 0 = 0 := by
  by_cases h : d < l.length
  · rw [getD_of_lt _ _ (by simpa using h)]; simp
  · simp [List.getD_eq_getElem?_getD, h]

theorem draidep_eq (D : Int) (k : Nat) (hk : 1 ≤ k) : ((k : Int) = D) ↔ (k = D.toNat) := by omega

theorem infil_loop (m : MathFns ℚ) (N : Nat) : ∀ (n i : Nat) (t : St ℚ), i + n = N → t.g_N = (N : Int) → t.brk = false →
    N ≤ t.v_WATER_1.length → N + 1 ≤ t.g_Q1.length → ((i + 1 ≤ t.g_DRAIDEP.toNat) → t.g_QDRAIN = 0) →
    ∃ A Q a' b qd, loopUpN (fun s => s.brk) (loop3 m) n ((i + 1 : Nat) : Int) t
        = { t with v_WATER_1 := A, g_Q1 := Q, v_a := a', brk := b, g_QDRAIN := qd } ∧
      A.length = t.v_WATER_1.length ∧ Q.length = t.g_Q1.length ∧
      (∀ j : Nat, rd A (j : Int) = if i ≤ j ∧ j < N then
          (infil t.g_DZ_Num t.g_DRAIDEP.toNat t.g_DRAIFAK t.v_a (i + 1) (infRest t i N)).1.getD (j - i) 0
        else rd t.v_WATER_1 (j : Int)) ∧
      (∀ j : Nat, rd Q (j : Int) = if i + 1 ≤ j ∧ j ≤ N then
          (infil t.g_DZ_Num t.g_DRAIDEP.toNat t.g_DRAIFAK t.v_a (i + 1) (infRest t i N)).2.1.getD (j - (i + 1)) 0
        else rd t.g_Q1 (j : Int)) ∧
      qd = (if t.g_DRAIDEP.toNat < i + 1 then t.g_QDRAIN
            else (infil t.g_DZ_Num t.g_DRAIDEP.toNat t.g_DRAIFAK t.v_a (i + 1) (infRest t i N)).2.2) := by
  intro n
  induction n with
  | zero =>
    intro i t hin hN hb lW1 lQ hd
    have hi : i = N := by omega
    subst hi
    refine ⟨t.v_WATER_1, t.g_Q1, t.v_a, t.brk, t.g_QDRAIN, rfl, rfl, rfl, ?_, ?_, ?_⟩
    · intro j
      have : ¬ (i ≤ j ∧ j < i) := by omega
      simp [this]
    · intro j
      have : ¬ (i + 1 ≤ j ∧ j ≤ i) := by omega
      simp [this]
    · rw [infRest_nil]
      by_cases h : t.g_DRAIDEP.toNat < i + 1
      · simp [h]
      · simp only [h, if_false, infil]
        exact hd (by omega)
  | succ n ih =>
    intro i t hin hN hb lW1 lQ hd
    have hiN : i < N := by omega
    have h0 : (0.0 : ℚ) = 0 := by norm_num
    have h1 : (1.0 : ℚ) = 1 := by norm_num
    have e1 : ((i + 1 : Nat) : Int) - 1 = (i : Int) := by push_cast; ring
    have e2 : ((i + 1 : Nat) : Int) + 1 = ((i + 2 : Nat) : Int) := by push_cast; ring
    have li : i < t.v_WATER_1.length := by omega
    have lq : i + 1 < t.g_Q1.length := by omega
    rw [infRest_cons t i N hiN]
    simp only [loopUpN]
    -- the new carry
    set b := t.v_a + rd t.v_WATER_0 (i : Int) with hb_def
    set a' := b - rd t.g_W (i : Int) * t.g_DZ_Num with ha_def
    by_cases hneg : a' < 0
    · -- the wetting front stops in this layer: fill the rest, break
      obtain ⟨A, Q, e4, lA, lQ4, p1, p2⟩ := loop4_spec m ((i + 1 : Nat) : Int)
        { t with v_a := a', v_WATER_1 := wr t.v_WATER_1 (i : Int) b, g_Q1 := wr t.g_Q1 ((i + 1 : Nat) : Int) 0 } N (i + 2) hN (by omega)
        (by simpa using lW1) (by simpa using lQ)
      have hbody : loop3 m ((i + 1 : Nat) : Int) t
          = { t with v_a := a', v_WATER_1 := A, g_Q1 := Q, brk := true } := by
        simp only [loop3, e1, h0, ← hb_def, ← ha_def, hneg, ↓reduceIte, e2]
        rw [e4]
      rw [hbody]
      simp only [↓reduceIte]
      refine ⟨A, Q, a', true, t.g_QDRAIN, rfl, by simpa using lA, by simpa using lQ4, ?_, ?_, ?_⟩
      · intro j
        rw [p1 j]
        simp only [infil, ← hb_def, ← ha_def, hneg, ↓reduceIte]
        by_cases hj : i ≤ j ∧ j < N
        · simp only [hj, and_self, if_true]
          by_cases hji : j = i
          · subst hji
            have : ¬ (j + 2 ≤ j + 1 ∧ j + 1 ≤ N) := by omega
            simp only [this, if_false, Nat.sub_self, List.getD_cons_zero]
            rw [rd_wr_nat _ j j _ li]; simp
          · have h2 : i + 2 ≤ j + 1 ∧ j + 1 ≤ N := by omega
            have hd' : j - i = (j - i - 1) + 1 := by omega
            simp only [h2, and_self, if_true]
            rw [hd', List.getD_cons_succ, infRest_getD_fst t (i + 1) N (j - i - 1) (by omega)]
            congr 2
            omega
        · have h2 : ¬ (i + 2 ≤ j + 1 ∧ j + 1 ≤ N) := by omega
          simp only [hj, h2, if_false]
          have : ¬ (i = j) := by omega
          rw [rd_wr_nat _ i j _ li]; simp [this]
      · intro j
        rw [p2 j]
        simp only [infil, ← hb_def, ← ha_def, hneg, ↓reduceIte]
        by_cases hj : i + 1 ≤ j ∧ j ≤ N
        · simp only [hj, and_self, if_true]
          by_cases hji : j = i + 1
          · subst hji
            have : ¬ (i + 2 ≤ i + 1 ∧ i + 1 ≤ N) := by omega
            simp only [this, if_false, Nat.sub_self, List.getD_cons_zero]
            rw [rd_wr_nat _ (i + 1) (i + 1) _ lq]; simp
          · have h2 : i + 2 ≤ j ∧ j ≤ N := by omega
            have hd' : j - (i + 1) = (j - (i + 1) - 1) + 1 := by omega
            simp only [h2, and_self, if_true]
            rw [hd', List.getD_cons_succ, zeros_getD]
        · have h2 : ¬ (i + 2 ≤ j ∧ j ≤ N) := by omega
          simp only [hj, h2, if_false]
          have : ¬ (i + 1 = j) := by omega
          rw [rd_wr_nat _ (i + 1) j _ lq]; simp [this]
      · simp only [infil, ← hb_def, ← ha_def, hneg, ↓reduceIte]
        by_cases h : t.g_DRAIDEP.toNat < i + 1
        · simp [h]
        · simp only [h, if_false]; exact hd (by omega)
    · -- the layer is filled to field capacity, the surplus moves on (the drain layer keeps its share)
      set dd := t.g_DRAIDEP.toNat with hdd
      have hdr : (((i + 1 : Nat) : Int) = t.g_DRAIDEP) ↔ (i + 1 = dd) := draidep_eq t.g_DRAIDEP (i + 1) (by omega)
      set aOut := (if i + 1 = dd then (1 - t.g_DRAIFAK) * a' else a') with haOut
      set qdNew := (if i + 1 = dd then t.g_DRAIFAK * a' else t.g_QDRAIN) with hqdNew
      have hstate : ∃ t' : St ℚ, t' = { t with v_a := aOut, v_WATER_1 := wr t.v_WATER_1 (i : Int) (rd t.g_W (i : Int) * t.g_DZ_Num), g_Q1 := wr (wr t.g_Q1 ((i + 1 : Nat) : Int) aOut) ((i + 1 : Nat) : Int) aOut, g_QDRAIN := qdNew } := ⟨_, rfl⟩
      obtain ⟨t', ht'⟩ := hstate
      have hbody : loop3 m ((i + 1 : Nat) : Int) t = t' := by
        rw [ht']
        by_cases hdc : i + 1 = dd
        · have hdi : ((i + 1 : Nat) : Int) = t.g_DRAIDEP := hdr.mpr hdc
          have ea : aOut = (1 - t.g_DRAIFAK) * a' := by rw [haOut, if_pos hdc]
          have eq' : qdNew = t.g_DRAIFAK * a' := by rw [hqdNew, if_pos hdc]
          rw [ea, eq']
          simp only [loop3, e1, h0, h1, ← hb_def, ← ha_def, hneg, ↓reduceIte]
          rw [if_pos hdi]
          simp only []
          rw [rd_wr_same _ _ _ (by omega) (by simpa using lq)]
        · have hdi : ¬ (((i + 1 : Nat) : Int) = t.g_DRAIDEP) := fun h => hdc (hdr.mp h)
          have ea : aOut = a' := by rw [haOut, if_neg hdc]
          have eq' : qdNew = t.g_QDRAIN := by rw [hqdNew, if_neg hdc]
          rw [ea, eq']
          simp only [loop3, e1, h0, h1, ← hb_def, ← ha_def, hneg, ↓reduceIte]
          rw [if_neg hdi]
      rw [hbody]
      have hbrk' : t'.brk = false := by rw [ht']; exact hb
      simp only [hbrk', Bool.false_eq_true, ↓reduceIte]
      -- the remaining iterations
      have e3 : ((i + 1 : Nat) : Int) + 1 = ((i + 1 + 1 : Nat) : Int) := by push_cast; ring
      rw [e3]
      have hinf : infRest t' (i + 1) N = infRest t (i + 1) N := by rw [ht']; rfl
      have fN : t'.g_N = (N : Int) := by rw [ht']; exact hN
      have fW1 : t'.v_WATER_1 = wr t.v_WATER_1 (i : Int) (rd t.g_W (i : Int) * t.g_DZ_Num) := by rw [ht']
      have fQ : t'.g_Q1 = wr (wr t.g_Q1 ((i + 1 : Nat) : Int) aOut) ((i + 1 : Nat) : Int) aOut := by rw [ht']
      have fa : t'.v_a = aOut := by rw [ht']
      have fqd : t'.g_QDRAIN = qdNew := by rw [ht']
      have fdz : t'.g_DZ_Num = t.g_DZ_Num := by rw [ht']
      have fdd : t'.g_DRAIDEP = t.g_DRAIDEP := by rw [ht']
      have fdf : t'.g_DRAIFAK = t.g_DRAIFAK := by rw [ht']
      obtain ⟨A, Q, af, bf, qd, e, lA, lQ', p1, p2, pq⟩ := ih (i + 1) t' (by omega) fN hbrk'
        (by rw [fW1]; simpa using lW1) (by rw [fQ]; simpa using lQ)
        (by
          intro hle
          rw [fqd]
          have : ¬ (i + 1 = dd) := by rw [fdd] at hle; omega
          simp only [hqdNew, this, if_false]
          rw [fdd] at hle
          exact hd (by omega))
      rw [e]
      rw [fW1] at lA p1
      rw [fQ] at lQ' p2
      rw [fdz, fdd, fdf, fa, hinf] at p1 p2 pq
      rw [fqd] at pq
      rw [← hdd] at p1 p2 pq
      refine ⟨A, Q, af, bf, qd, by rw [ht'], by simpa using lA, by simpa using lQ', ?_, ?_, ?_⟩
      · intro j
        rw [p1 j]
        simp only [infil, ← hb_def, ← ha_def, hneg, ↓reduceIte]
        by_cases hj : i + 1 ≤ j ∧ j < N
        · have hj' : i ≤ j ∧ j < N := by omega
          have hd' : j - i = (j - (i + 1)) + 1 := by omega
          simp only [hj, hj', and_self, if_true]
          rw [hd', List.getD_cons_succ]
        · simp only [hj, if_false]
          by_cases hji : i = j
          · subst hji
            have hj' : i ≤ i ∧ i < N := by omega
            simp only [hj', and_self, if_true, Nat.sub_self, List.getD_cons_zero]
            rw [rd_wr_nat _ i i _ li]; simp
          · have hj' : ¬ (i ≤ j ∧ j < N) := by omega
            simp only [hj', if_false]
            rw [rd_wr_nat _ i j _ li]; simp [hji]
      · intro j
        rw [p2 j]
        simp only [infil, ← hb_def, ← ha_def, hneg, ↓reduceIte]
        by_cases hj : i + 1 + 1 ≤ j ∧ j ≤ N
        · have hj' : i + 1 ≤ j ∧ j ≤ N := by omega
          have hd' : j - (i + 1) = (j - (i + 1 + 1)) + 1 := by omega
          simp only [hj, hj', and_self, if_true]
          rw [hd', List.getD_cons_succ]
        · simp only [hj, if_false]
          have lq' : i + 1 < (wr t.g_Q1 ((i + 1 : Nat) : Int) aOut).length := by simpa using lq
          by_cases hji : i + 1 = j
          · subst hji
            have hj' : i + 1 ≤ i + 1 ∧ i + 1 ≤ N := by omega
            simp only [hj', and_self, if_true, Nat.sub_self, List.getD_cons_zero]
            rw [rd_wr_nat _ (i + 1) (i + 1) _ lq']; simp [haOut]
          · have hj' : ¬ (i + 1 ≤ j ∧ j ≤ N) := by omega
            simp only [hj', if_false]
            rw [rd_wr_nat _ (i + 1) j _ lq', rd_wr_nat _ (i + 1) j _ lq]; simp [hji]
      · rw [pq]
        simp only [infil, ← hb_def, ← ha_def, hneg, ↓reduceIte]
        rw [hqdNew, haOut]
        split_ifs <;> first | rfl | (exfalso; omega)

end Hermes.ImpWater
